package harness

// C04: blocks of swap requests on the real app. Every request has its own fresh sender (and, half of the time, a distinct
// fresh recipient), so the whole-bank delta attributable to it is exact. Other txs earlier in the block move the price, so
// some requests that passed their dry run fail when the batch executes them at the end of the block.

import (
	"math/rand"
	"testing"
	"time"

	"cosmossdk.io/math"
	sdk "github.com/cosmos/cosmos-sdk/types"
	ammtypes "github.com/elys-network/elys/x/amm/types"
)

func init() { modes["c04"] = runC04 }

type c04Req struct {
	kind      string // in | out
	hops      int
	denomIn   string
	denomOut  string
	mid       string
	amtIn     math.Int // tokenIn (exact-in) or max in (exact-out)
	amtOut    math.Int // min out (exact-in) or exact out (exact-out)
	sender    *Acct
	recipient sdk.AccAddress
	same      bool
	poolIds   []uint64
	byDenom   bool // sent as MsgSwapByDenom
}

func balMap(w *World, ctx sdk.Context, a sdk.AccAddress) map[string]string {
	m := map[string]string{}
	for _, c := range w.App.BankKeeper.GetAllBalances(ctx, a) {
		m[c.Denom] = c.Amount.String()
	}
	return m
}

func runC04(t *testing.T, seed int64, n int, out *Out) {
	w := NewWorld(t, seed, 7)
	std := w.SeedStandard()
	r := rand.New(rand.NewSource(seed))
	h := &Hist{w: w, std: std, r: r}
	w.Block(5*time.Second, nil)
	stats := map[string]int{}
	nextKey := 1000
	out.Line(J{"t": "c04.begin", "id": 0})
	for b := 0; b < n; b++ {
		k := 1 + r.Intn(8)
		var reqs []c04Req
		// fresh funded accounts, created between blocks
		w.Seed(func(ctx sdk.Context) {
			for i := 0; i < k; i++ {
				pk := detKey(seed, nextKey)
				nextKey++
				a := &Acct{Name: "s" + itoa(uint64(nextKey)), Priv: pk, Addr: sdk.AccAddress(pk.PubKey().Address())}
				w.byAddr[a.Addr.String()] = a
				w.Fund(ctx, a.Addr, sdk.NewCoins(sdk.NewCoin("uusdc", math.NewInt(1_000_000_000_000)), sdk.NewCoin("uatom", math.NewInt(1_000_000_000_000)), sdk.NewCoin("uelys", math.NewInt(1_000_000_000_000))))
				rq := c04Req{sender: a, same: r.Intn(2) == 0}
				if rq.same {
					rq.recipient = a.Addr
				} else {
					rq.recipient = sdk.AccAddress(detKey(seed, nextKey).PubKey().Address())
					nextKey++
				}
				reqs = append(reqs, rq)
			}
		})
		// every dozen blocks the oracle price jumps (in a block of its own): the oracle pools' value weights move away from
		// their targets WITHOUT anyone having paid a weight-breaking fee, so recovering swaps earn a bonus that the (empty or
		// nearly empty) rebalance treasury cannot fully pay
		if b%12 == 7 {
			h.std.Prices["ATOM"] = D([]string{"1", "5", "20", "5", "1.5", "5", "15", "5"}[(b/12)%8])
			pt := h.priceTxFixed()
			w.Block(5*time.Second, []TxReq{pt.req})
			stats["price-jump"]++
		}
		ctx := w.Ctx()
		var txs []TxReq
		// every dozen blocks a whale pushes one of the oracle pools far from its target weights (beyond the weight-difference
		// threshold): for a while swaps in the recovering direction earn a bonus out of the pool's rebalance treasury, capped by
		// what the treasury holds, and swaps in the other direction pay the weight-breaking fee into it
		if b%12 == 1 {
			p := std.Pools[2+r.Intn(2)]
			if pool, ok := w.App.AmmKeeper.GetPool(ctx, p.Id); ok {
				din := []string{"uusdc", "uatom"}[r.Intn(2)]
				dout := map[string]string{"uusdc": "uatom", "uatom": "uusdc"}[din]
				for _, pa := range pool.PoolAssets {
					if pa.Token.Denom == din {
						u := h.user()
						amt := pa.Token.Amount.MulRaw([]int64{8, 15, 30}[r.Intn(3)]).QuoRaw(10)
						txs = append(txs, TxReq{Signer: u, Msgs: []sdk.Msg{&ammtypes.MsgSwapExactAmountIn{Sender: u.Addr.String(), Routes: []ammtypes.SwapAmountInRoute{{PoolId: p.Id, TokenOutDenom: dout}},
							TokenIn: sdk.NewCoin(din, amt), TokenOutMinAmount: math.OneInt(), Recipient: u.Addr.String()}}})
						stats["whale-imbalance"]++
					}
				}
			}
		}
		// a price-moving swap by an ordinary user, sometimes, before the requests
		if r.Intn(3) == 0 {
			if tx := h.genTxKind("amm.swapIn"); tx != nil {
				txs = append(txs, tx.req)
			}
		}
		for i := range reqs {
			rq := &reqs[i]
			rq.kind = []string{"in", "out"}[r.Intn(2)]
			rq.hops = 1
			p := std.Pools[[]int{0, 2, 3}[r.Intn(3)]] // uatom/uusdc pools
			if r.Intn(2) == 0 {
				rq.denomIn, rq.denomOut = "uusdc", "uatom"
			} else {
				rq.denomIn, rq.denomOut = "uatom", "uusdc"
			}
			rq.poolIds = []uint64{p.Id}
			if r.Intn(3) == 0 {
				// two hops through the uelys/uusdc pool: uatom -> uusdc -> uelys, or uelys -> uusdc -> uatom
				rq.hops = 2
				rq.mid = "uusdc"
				if r.Intn(2) == 0 {
					rq.denomIn, rq.denomOut = "uatom", "uelys"
					rq.poolIds = []uint64{p.Id, std.Pools[1].Id}
				} else {
					rq.denomIn, rq.denomOut = "uelys", "uatom"
					rq.poolIds = []uint64{std.Pools[1].Id, p.Id}
				}
			}
			amt := h.amt(1000, 20_000_000_000)
			var msg sdk.Msg
			if rq.kind == "in" {
				routes := []ammtypes.SwapAmountInRoute{}
				if rq.hops == 1 {
					routes = append(routes, ammtypes.SwapAmountInRoute{PoolId: rq.poolIds[0], TokenOutDenom: rq.denomOut})
				} else {
					routes = append(routes, ammtypes.SwapAmountInRoute{PoolId: rq.poolIds[0], TokenOutDenom: rq.mid}, ammtypes.SwapAmountInRoute{PoolId: rq.poolIds[1], TokenOutDenom: rq.denomOut})
				}
				// a degenerate but well-formed route, now and then: the last hop named twice (the second one stays in the denom it is handed).
				// Whatever the chain makes of it, the request settles within its limits or changes nothing
				if r.Intn(8) == 0 {
					routes = append(routes, routes[len(routes)-1])
					stats["route/degenerate-in"]++
				}
				// quote on a cache context, then a limit just below / far below / just above it
				cctx, _ := ctx.CacheContext()
				quote := math.OneInt()
				func() {
					defer func() { _ = recover() }()
					if q, _, _, err := w.App.AmmKeeper.RouteExactAmountIn(cctx, rq.sender.Addr, rq.recipient, routes, sdk.NewCoin(rq.denomIn, amt), math.OneInt()); err == nil {
						quote = q
					}
				}()
				switch r.Intn(4) {
				case 0:
					rq.amtOut = math.OneInt()
				case 1:
					rq.amtOut = quote
				case 2:
					rq.amtOut = quote.MulRaw(999).QuoRaw(1000)
				default:
					rq.amtOut = quote.AddRaw(1)
				}
				if !rq.amtOut.IsPositive() {
					rq.amtOut = math.OneInt()
				}
				rq.amtIn = amt
				msg = &ammtypes.MsgSwapExactAmountIn{Sender: rq.sender.Addr.String(), Routes: routes, TokenIn: sdk.NewCoin(rq.denomIn, amt), TokenOutMinAmount: rq.amtOut, Recipient: rq.recipient.String()}
				if rq.hops == 1 && r.Intn(3) == 0 {
					// the same request through the by-denom message (the chain picks the route): same amount in, same stated minimum
					msg = &ammtypes.MsgSwapByDenom{Sender: rq.sender.Addr.String(), Amount: sdk.NewCoin(rq.denomIn, amt), MinAmount: sdk.NewCoin(rq.denomOut, rq.amtOut),
						DenomIn: rq.denomIn, DenomOut: rq.denomOut, Recipient: rq.recipient.String()}
					rq.byDenom = true
				}
			} else {
				routes := []ammtypes.SwapAmountOutRoute{}
				if rq.hops == 1 {
					routes = append(routes, ammtypes.SwapAmountOutRoute{PoolId: rq.poolIds[0], TokenInDenom: rq.denomIn})
				} else {
					routes = append(routes, ammtypes.SwapAmountOutRoute{PoolId: rq.poolIds[0], TokenInDenom: rq.denomIn}, ammtypes.SwapAmountOutRoute{PoolId: rq.poolIds[1], TokenInDenom: rq.mid})
				}
				if r.Intn(8) == 0 {
					routes = append([]ammtypes.SwapAmountOutRoute{routes[0]}, routes...) // the first hop named twice
					stats["route/degenerate-out"]++
				}
				cctx, _ := ctx.CacheContext()
				quote := math.NewInt(1_000_000_000_000)
				func() {
					defer func() { _ = recover() }()
					if q, _, _, err := w.App.AmmKeeper.RouteExactAmountOut(cctx, rq.sender.Addr, rq.recipient, routes, math.NewInt(1_000_000_000_000), sdk.NewCoin(rq.denomOut, amt)); err == nil {
						quote = q
					}
				}()
				boundaryMax := false
				switch r.Intn(6) {
				case 0:
					rq.amtIn = math.NewInt(1_000_000_000_000)
				case 1:
					rq.amtIn = quote
				case 2:
					rq.amtIn = quote.MulRaw(1001).QuoRaw(1000).AddRaw(1)
				case 3:
					// the boundary values of the limit itself: a stated maximum of zero (or below) is a limit no swap can meet
					rq.amtIn, boundaryMax = []math.Int{math.ZeroInt(), math.NewInt(-1), math.OneInt()}[r.Intn(3)], true
				default:
					rq.amtIn = quote.SubRaw(1)
				}
				if !rq.amtIn.IsPositive() && !boundaryMax {
					rq.amtIn = math.OneInt()
				}
				rq.amtOut = amt
				msg = &ammtypes.MsgSwapExactAmountOut{Sender: rq.sender.Addr.String(), Routes: routes, TokenOut: sdk.NewCoin(rq.denomOut, amt), TokenInMaxAmount: rq.amtIn, Recipient: rq.recipient.String()}
			}
			txs = append(txs, TxReq{Signer: rq.sender, Msgs: []sdk.Msg{msg}})
			// another price-moving swap between requests, sometimes
			if r.Intn(5) == 0 {
				if tx := h.genTxKind("amm.swapIn"); tx != nil {
					txs = append(txs, tx.req)
				}
			}
		}
		before := make([][2]map[string]string, len(reqs))
		for i, rq := range reqs {
			before[i] = [2]map[string]string{balMap(w, ctx, rq.sender.Addr), balMap(w, ctx, rq.recipient)}
		}
		// map tx index -> request index
		reqTx := map[string]int{}
		for i, tx := range txs {
			reqTx[tx.Signer.Addr.String()] = i
		}
		res := w.Block(5*time.Second, txs)
		if res.Err != nil || res.Panicked {
			out.Line(J{"t": "c04.blockfail", "id": 0, "err": res.PanicText})
			break
		}
		actx := w.Ctx()
		for i, rq := range reqs {
			ti := reqTx[rq.sender.Addr.String()]
			code := res.Txs[ti].Code
			line := J{"t": "c04.req", "id": 0, "block": b, "req": i, "kind": rq.kind, "byDenom": rq.byDenom, "hops": rq.hops, "denomIn": rq.denomIn, "denomOut": rq.denomOut, "amountIn": rq.amtIn.String(),
				"amountOut": rq.amtOut.String(), "recipientSame": rq.same, "code": code, "pools": rq.poolIds,
				"sender": J{"before": before[i][0], "after": balMap(w, actx, rq.sender.Addr)}, "recipient": J{"before": before[i][1], "after": balMap(w, actx, rq.recipient)}}
			if code != 0 {
				lg := res.Txs[ti].Log
				if len(lg) > 120 {
					lg = lg[:120]
				}
				line["log"] = lg
			}
			stats["req/"+rq.kind+"/hops"+itoa(uint64(rq.hops))+"/"+codeStr(code)]++
			out.Line(line)
		}
		out.Line(J{"t": "c04.block", "id": 0, "block": b, "requests": len(reqs),
			"queueAfter": len(w.App.AmmKeeper.GetAllSwapExactAmountInRequests(actx)) + len(w.App.AmmKeeper.GetAllSwapExactAmountOutRequests(actx))})
	}
	out.Line(J{"t": "stats", "dist": stats})
}

// genTxKind draws txs until one of the given kind comes up (bounded).
func (h *Hist) genTxKind(kind string) *histTx {
	for i := 0; i < 200; i++ {
		if tx := h.genTx(); tx != nil && tx.kind == kind {
			return tx
		}
	}
	return nil
}
