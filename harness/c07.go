package harness

// C07: op sequences (bond / unbond / explicit bond-then-unbond pairs / borrow / repay / interest
// accrual) against the REAL stablestake message server and keeper, one vault per sequence on its own
// branch of genesis. Three lenders (u0 bonds first and is passive afterwards, u1 and u2 act) and
// one borrower. Redemption rates > 1 with many fractional digits are reached in two ways (field
// "setup" of the begin line): "interest" = only through the code's own path (Borrow, time passes,
// UpdateInterestStacked, Repay; Params.InterestRate set per sequence), "gift" = additionally a
// consistent direct edit (op "gift": the same amount is minted into the vault's bank balance and
// added to Params.TotalValue through SetParams).

import (
	"fmt"
	"math/big"
	"math/rand"
	"testing"
	"time"

	"cosmossdk.io/math"
	sdk "github.com/cosmos/cosmos-sdk/types"
	authtypes "github.com/cosmos/cosmos-sdk/x/auth/types"
	minttypes "github.com/cosmos/cosmos-sdk/x/mint/types"
	aptypes "github.com/elys-network/elys/x/assetprofile/types"
	sskeeper "github.com/elys-network/elys/x/stablestake/keeper"
	sstypes "github.com/elys-network/elys/x/stablestake/types"
)

func init() { modes["c07"] = runC07 }

var c07P = new(big.Int).Exp(big.NewInt(10), big.NewInt(18), nil)

func c07Pow10(e int) math.Int {
	return math.NewIntFromBigInt(new(big.Int).Exp(big.NewInt(10), big.NewInt(int64(e)), nil))
}

// log-uniform integer in [1, 10^maxExp]
func c07LogUniform(r *rand.Rand, maxExp int) math.Int {
	e := r.Intn(maxExp + 1)
	lo := new(big.Int).Exp(big.NewInt(10), big.NewInt(int64(e)), nil)
	// lo * (1 + u*9) with u in [0,1) at 1e-9 resolution
	f := big.NewInt(1_000_000_000 + r.Int63n(9_000_000_000))
	v := new(big.Int).Mul(lo, f)
	v.Quo(v, big.NewInt(1_000_000_000))
	if e == maxExp {
		v = lo
	}
	if v.Sign() <= 0 {
		v = big.NewInt(1)
	}
	return math.NewIntFromBigInt(v)
}

func runC07(t *testing.T, seed int64, n int, out *Out) {
	w := NewWorld(t, seed, 0)
	r := rand.New(rand.NewSource(seed))
	app := w.App
	base := app.BaseApp.NewUncachedContext(false, w.header())
	ms := sskeeper.NewMsgServerImpl(*app.StablestakeKeeper)
	k := app.StablestakeKeeper
	shareDenom := sstypes.GetShareDenom()
	vault := authtypes.NewModuleAddress(sstypes.ModuleName)
	app.AssetprofileKeeper.SetEntry(base, aptypes.Entry{BaseDenom: "uusdc", Denom: "uusdc", Decimals: 6, DisplayName: "USDC", CommitEnabled: true, WithdrawEnabled: true})
	stats := map[string]int{}
	irChoices := []string{"0.12", "0.15", "0.17", "0.153846153846153846", "1.0", "3.7", "25.0"}

	for seq := 0; seq < n; seq++ {
		ctx, _ := base.CacheContext()
		now := GenesisTime.Add(time.Duration(r.Intn(1000)) * time.Second)
		ctx = ctx.WithBlockTime(now)
		var users [3]sdk.AccAddress
		for i := range users {
			users[i] = sdk.AccAddress(detKey(seed, 2_000_000+seq*8+i).PubKey().Address())
			w.Fund(ctx, users[i], sdk.NewCoins(sdk.NewCoin("uusdc", c07Pow10(26))))
		}
		borrower := sdk.AccAddress(detKey(seed, 2_000_000+seq*8+7).PubKey().Address())
		w.Fund(ctx, borrower, sdk.NewCoins(sdk.NewCoin("uusdc", c07Pow10(26))))
		params := sstypes.DefaultParams()
		params.InterestRate = math.LegacyMustNewDecFromStr(irChoices[r.Intn(len(irChoices))])
		k.SetParams(ctx, params)
		setup := "interest"
		if r.Intn(2) == 0 {
			setup = "gift"
		}
		// size class of this vault: exponent of the first deposit
		sizeExp := []int{0, 1, 3, 6, 6, 9, 12, 12, 15, 18, 19, 21, 24}[r.Intn(13)]

		getDebt := func() (b, s, p math.Int) {
			for _, d := range k.GetAllDebts(ctx) {
				if d.Address == borrower.String() {
					return d.Borrowed, d.InterestStacked, d.InterestPaid
				}
			}
			return math.ZeroInt(), math.ZeroInt(), math.ZeroInt()
		}
		held := func(a sdk.AccAddress) math.Int {
			c := app.CommitmentKeeper.GetCommitments(ctx, a)
			return c.GetCommittedAmountForDenom(shareDenom)
		}
		bal := func(a sdk.AccAddress) math.Int { return app.BankKeeper.GetBalance(ctx, a, "uusdc").Amount }
		state := func() map[string]any {
			b, s, p := getDebt()
			return map[string]any{
				"tv":       k.GetParams(ctx).TotalValue.String(),
				"supply":   app.BankKeeper.GetSupply(ctx, shareDenom).Amount.String(),
				"cash":     bal(vault).String(),
				"rate":     k.GetRedemptionRate(ctx).BigInt().String(),
				"borrowed": b.String(), "stacked": s.String(), "paid": p.String(),
			}
		}
		begin := state()
		begin["t"], begin["id"], begin["setup"] = "c07.begin", seq, setup
		begin["ir"] = params.InterestRate.BigInt().String()
		begin["now"] = now.Unix()
		begin["interestBlocks"] = len(k.GetAllInterest(ctx))
		out.Line(begin)

		emit := func(op string, user int, actor sdk.AccAddress, amt math.Int, extra map[string]any, fn func(c sdk.Context) error) string {
			line := map[string]any{"t": "c07.op", "id": seq, "op": op, "user": user, "amt": amt.String(), "now": now.Unix()}
			preBal, preHeld := bal(actor), held(actor)
			line["pre"] = map[string]any{"bal": preBal.String(), "held": preHeld.String()}
			res, _ := callTx(ctx, fn)
			after := state()
			after["held"] = held(actor).String()
			after["dbal"] = bal(actor).Sub(preBal).String()
			after["h0"] = held(users[0]).String()
			line["res"], line["after"] = res, after
			for kx, v := range extra {
				line[kx] = v
			}
			stats[op+"/"+res]++
			out.Line(line)
			return res
		}
		doBond := func(u int, amt math.Int, extra map[string]any) string {
			msg := &sstypes.MsgBond{Creator: users[u].String(), Amount: amt}
			return emit("bond", u, users[u], amt, extra, func(c sdk.Context) error { _, err := ms.Bond(c, msg); return err })
		}
		doUnbond := func(u int, amt math.Int, extra map[string]any) string {
			msg := &sstypes.MsgUnbond{Creator: users[u].String(), Amount: amt}
			return emit("unbond", u, users[u], amt, extra, func(c sdk.Context) error { _, err := ms.Unbond(c, msg); return err })
		}
		doBorrow := func(amt math.Int) string {
			return emit("borrow", 7, borrower, amt, nil, func(c sdk.Context) error { return k.Borrow(c, borrower, sdk.NewCoin("uusdc", amt)) })
		}
		doRepay := func(amt math.Int) string {
			return emit("repay", 7, borrower, amt, nil, func(c sdk.Context) error { return k.Repay(c, borrower, sdk.NewCoin("uusdc", amt)) })
		}
		doAccrue := func() string {
			return emit("accrue", 7, borrower, math.ZeroInt(), nil, func(c sdk.Context) error {
				b, _, _ := getDebt()
				if b.IsZero() {
					return fmt.Errorf("no debt record") // UpdateInterestAndGetDebt would create an empty record; not a code path of its own
				}
				k.UpdateInterestAndGetDebt(c, borrower)
				return nil
			})
		}
		doGift := func(amt math.Int) string {
			return emit("gift", 9, vault, amt, nil, func(c sdk.Context) error {
				coins := sdk.NewCoins(sdk.NewCoin("uusdc", amt))
				if err := app.BankKeeper.MintCoins(c, minttypes.ModuleName, coins); err != nil {
					return err
				}
				if err := app.BankKeeper.SendCoinsFromModuleToModule(c, minttypes.ModuleName, sstypes.ModuleName, coins); err != nil {
					return err
				}
				p := k.GetParams(c)
				p.TotalValue = p.TotalValue.Add(amt)
				k.SetParams(c, p)
				return nil
			})
		}
		// governance re-sends the vault's parameters as they were drafted some operations ago (a proposal is written, voted on and
		// executed later: whatever the vault did in between must not be undone by the stale copy)
		var draft *sstypes.Params
		doGovParams := func() string {
			if draft == nil {
				return ""
			}
			d := *draft
			return emit("govparams", 8, vault, math.ZeroInt(), nil, func(c sdk.Context) error {
				_, err := ms.UpdateParams(c, &sstypes.MsgUpdateParams{Authority: w.Gov, Params: &d})
				return err
			})
		}
		advance := func() {
			var dt int64
			switch r.Intn(5) {
			case 0:
				dt = 0
			case 1:
				dt = 1 + r.Int63n(10)
			case 2:
				dt = 1 + r.Int63n(86400)
			case 3:
				dt = 1 + r.Int63n(86400*365)
			default:
				dt = 1 + r.Int63n(86400*365*20)
			}
			now = now.Add(time.Duration(dt) * time.Second)
			ctx = ctx.WithBlockTime(now)
		}
		// amount generators ------------------------------------------------------------
		rateNow := func() *big.Int {
			rr := k.GetRedemptionRate(ctx).BigInt()
			if rr.Sign() == 0 {
				rr = new(big.Int).Set(c07P)
			}
			return rr
		}
		bondAmount := func() math.Int {
			rr := rateNow()
			switch r.Intn(9) {
			case 0: // dust
				return math.NewInt(int64(1 + r.Intn(3)))
			case 1, 2: // a/rate close to k + 1/2 : a = (2k+1)·r/(2P) + {-1,0,1}
				kk := big.NewInt(int64(2*r.Intn(6) + 1))
				if r.Intn(3) == 0 {
					kk = new(big.Int).Add(new(big.Int).Mul(c07LogUniform(r, 20).BigInt(), big.NewInt(2)), big.NewInt(1))
				}
				v := new(big.Int).Mul(kk, rr)
				v.Quo(v, new(big.Int).Mul(big.NewInt(2), c07P))
				v.Add(v, big.NewInt(int64(r.Intn(3)-1)))
				if v.Sign() <= 0 {
					v = big.NewInt(1)
				}
				return math.NewIntFromBigInt(v)
			case 3: // huge
				return c07Pow10(24).AddRaw(int64(r.Intn(3)) - 1)
			case 4: // comparable to the vault
				tv := k.GetParams(ctx).TotalValue
				if tv.IsPositive() {
					return tv.MulRaw(int64(1 + r.Intn(300))).QuoRaw(100).AddRaw(1)
				}
				return c07LogUniform(r, sizeExp)
			case 5:
				return c07LogUniform(r, 24)
			default:
				return c07LogUniform(r, sizeExp+1)
			}
		}
		unbondAmount := func(u int) math.Int {
			h := held(users[u])
			rr := rateNow()
			switch r.Intn(9) {
			case 0:
				return h.AddRaw(1) // one more than held: refused
			case 1, 2:
				if h.IsPositive() {
					return h // everything
				}
				return math.OneInt()
			case 3:
				return math.NewInt(int64(1 + r.Intn(3)))
			case 4, 5: // s·rate close to k + 1/2 : s = (2k+1)·P/(2r) + {-1,0,1}
				kk := big.NewInt(int64(2*r.Intn(6) + 1))
				if r.Intn(3) == 0 {
					kk = new(big.Int).Add(new(big.Int).Mul(c07LogUniform(r, 20).BigInt(), big.NewInt(2)), big.NewInt(1))
				}
				v := new(big.Int).Mul(kk, c07P)
				v.Quo(v, new(big.Int).Mul(big.NewInt(2), rr))
				v.Add(v, big.NewInt(int64(r.Intn(3)-1)))
				if v.Sign() <= 0 {
					v = big.NewInt(1)
				}
				return math.NewIntFromBigInt(v)
			default:
				if h.IsPositive() {
					v := h.MulRaw(int64(1 + r.Intn(100))).QuoRaw(100)
					if v.IsPositive() {
						return v
					}
				}
				return math.OneInt()
			}
		}
		// the largest amount Borrow accepts: floor(9·TV/10) − (TV − cash)
		capRoom := func() math.Int {
			tv := k.GetParams(ctx).TotalValue
			return tv.MulRaw(9).QuoRaw(10).Sub(tv.Sub(bal(vault)))
		}
		borrowAmount := func() math.Int {
			room := capRoom()
			var v math.Int
			switch r.Intn(8) {
			case 0:
				v = room // exactly at the cap
			case 1:
				v = room.AddRaw(1) // one above: refused
			case 2:
				v = room.SubRaw(1)
			case 3:
				v = bal(vault) // the whole cash
			case 4:
				v = bal(vault).AddRaw(1)
			default:
				if room.IsPositive() {
					v = room.MulRaw(int64(1 + r.Intn(100))).QuoRaw(100)
				} else {
					v = c07LogUniform(r, 6)
				}
			}
			if !v.IsPositive() {
				v = math.OneInt()
			}
			return v
		}
		repayAmount := func() math.Int {
			b, s, p := getDebt()
			due := s.Sub(p)
			var v math.Int
			switch r.Intn(7) {
			case 0, 1:
				v = b.Add(due) // everything (before the accrual inside Repay)
			case 2:
				v = b.Add(due).AddRaw(1)
			case 3:
				v = due
			case 4:
				v = b.Add(due).MulRaw(2) // generous: more than the debt -> ErrNegativeBorrowed
			default:
				v = b.Add(due).MulRaw(int64(1 + r.Intn(100))).QuoRaw(100)
			}
			if !v.IsPositive() {
				v = math.OneInt()
			}
			return v
		}

		// the sequence ------------------------------------------------------------------
		first := c07LogUniform(r, sizeExp)
		if r.Intn(4) == 0 {
			first = c07Pow10(sizeExp)
		}
		doBond(0, first, nil) // u0: first deposit at supply 0 (rate 0 -> 1), passive afterwards
		if setup == "gift" {
			// rate in (1, 10]: gift = first · x, x log-uniform-ish with 18+ digits
			g := first.Mul(c07LogUniform(r, 18)).Quo(c07Pow10(18)).MulRaw(int64(1 + r.Intn(9))).AddRaw(int64(r.Intn(7)))
			if g.IsPositive() {
				doGift(g)
			}
		}
		nops := 8 + r.Intn(22)
		for i := 0; i < nops; i++ {
			u := 1 + r.Intn(2)
			c := r.Intn(100)
			if r.Intn(8) == 0 {
				p := k.GetParams(ctx)
				// the proposal may also move the one vault parameter whose name promises a lending limit; validation accepts any
				// non-negative value, and the 90 % cap of the property has to hold under every setting governance can make
				if r.Intn(2) == 0 {
					p.MaxLeverageRatio = math.LegacyMustNewDecFromStr([]string{"0", "0.5", "0.9", "0.95", "1", "3"}[r.Intn(6)])
				}
				draft = &p
			}
			if draft != nil && r.Intn(12) == 0 {
				doGovParams()
				continue
			}
			switch {
			case c < 22:
				doBond(u, bondAmount(), nil)
			case c < 40:
				doUnbond(u, unbondAmount(u), nil)
			case c < 62: // explicit pair: bond a, then immediately unbond exactly the minted shares
				a := bondAmount()
				before := held(users[u])
				if doBond(u, a, map[string]any{"pairFirst": true}) == "ok" {
					minted := held(users[u]).Sub(before)
					if minted.IsPositive() {
						doUnbond(u, minted, map[string]any{"pair": true, "pairA": a.String()})
					} else {
						stats["pair/zero-shares"]++
					}
				}
			case c < 76:
				advance()
				doBorrow(borrowAmount())
			case c < 86:
				advance()
				doRepay(repayAmount())
			case c < 95:
				advance()
				doAccrue()
			default:
				if setup == "gift" {
					doGift(c07LogUniform(r, sizeExp+1))
				} else {
					advance()
					doAccrue()
				}
			}
		}
		// sometimes wind the vault down completely (supply back to 0, rounding dust may stay in TotalValue)
		// and start it again: the zero-supply special case of GetRedemptionRate with TotalValue != 0
		if r.Intn(4) == 0 {
			for _, u := range []int{1, 2, 0} {
				if h := held(users[u]); h.IsPositive() {
					doUnbond(u, h, nil)
				}
			}
			if app.BankKeeper.GetSupply(ctx, shareDenom).Amount.IsZero() {
				stats["wind-down/empty"]++
				if !k.GetParams(ctx).TotalValue.IsZero() {
					stats["wind-down/empty-with-dust"]++
				}
			}
			doBond(1, bondAmount(), nil)
			doBond(2, bondAmount(), nil)
			doUnbond(1, unbondAmount(1), nil)
		}
		// bucket statistics: final rate class and size class
		fr := k.GetRedemptionRate(ctx)
		switch {
		case fr.IsZero():
			stats["final-rate/0"]++
		case fr.Equal(math.LegacyOneDec()):
			stats["final-rate/=1"]++
		case fr.LT(math.LegacyNewDec(2)):
			stats["final-rate/(1,2)"]++
		case fr.LT(math.LegacyNewDec(10)):
			stats["final-rate/[2,10)"]++
		default:
			stats["final-rate/>=10"]++
		}
		stats[fmt.Sprintf("size/1e%02d", sizeExp)]++
		stats["setup/"+setup]++
	}
	out.Line(map[string]any{"t": "stats", "dist": stats})
}
