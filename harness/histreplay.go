package harness

// Mode histreplay: re-executes a history stored by a run with VERIF_RECORD=1 (file VERIF_REPLAY_FILE, JSONL, optionally
// gzip): the same world variant, the same state edits between blocks (oracle outages, governance shocks), the same block
// times and the same messages from the same signers, re-signed against the tree under test. The output is an ordinary
// hist.begin / hist.step stream, observed afresh. Stored histories do not depend on the random generator, so a corpus
// entry keeps reproducing its finding when the op grammar changes.

import (
	"bufio"
	"compress/gzip"
	"encoding/json"
	"io"
	"os"
	"strings"
	"testing"
	"time"

	sdk "github.com/cosmos/cosmos-sdk/types"
)

func init() { modes["histreplay"] = runHistReplay }

type recTx struct {
	Signer string            `json:"signer"`
	Fee    string            `json:"fee"`
	Gas    uint64            `json:"gas"`
	Msgs   []json.RawMessage `json:"msgs"`
}

type recStep struct {
	T      string          `json:"t"`
	Id     int             `json:"id"`
	Seed   int64           `json:"seed"`
	World  json.RawMessage `json:"world"`
	Shocks []string        `json:"shocks"`
	Txs    []struct {
		Kind string `json:"kind"`
		F    J      `json:"f"`
	} `json:"txs"`
	Rec struct {
		Pre     []J     `json:"pre"`
		Txs     []recTx `json:"txs"`
		DtNanos int64   `json:"dtNanos"`
	} `json:"rec"`
}

func runHistReplay(t *testing.T, seed int64, n int, out *Out) {
	path := os.Getenv("VERIF_REPLAY_FILE")
	f, err := os.Open(path)
	if err != nil {
		t.Fatalf("histreplay: %v", err)
	}
	defer f.Close()
	var rd io.Reader = f
	if strings.HasSuffix(path, ".gz") {
		gz, err := gzip.NewReader(f)
		if err != nil {
			t.Fatalf("histreplay: %v", err)
		}
		rd = gz
	}
	sc := bufio.NewScanner(rd)
	sc.Buffer(make([]byte, 1<<20), 1<<28)
	var w *World
	var std *Std
	stats := map[string]int{}
	halted := false
	hi := 0
	for sc.Scan() {
		var st recStep
		if err := json.Unmarshal(sc.Bytes(), &st); err != nil {
			t.Fatalf("histreplay: bad line: %v", err)
		}
		switch st.T {
		case "hist.begin":
			var wv histWorldVariant
			if err := json.Unmarshal(st.World, &wv); err != nil {
				t.Fatalf("histreplay: world: %v", err)
			}
			w, std = histWorld(t, st.Seed, wv)
			r0 := w.Block(5*time.Second, nil)
			if r0.Err != nil || r0.Panicked {
				t.Fatalf("first block failed: %v %s", r0.Err, r0.PanicText)
			}
			pools := []J{}
			for _, p := range std.Pools {
				pools = append(pools, J{"id": p.Id, "addr": p.Addr, "oracle": p.Oracle, "perp": p.Perp, "denoms": p.Denoms, "weights": p.Weights, "shareDenom": p.ShareDen, "treasury": p.Treasury})
			}
			hi = st.Id
			halted = false
			curShocks, curPre = nil, nil
			out.Line(J{"t": "hist.begin", "id": hi, "seed": st.Seed, "world": wv, "replayOf": path, "names": w.Names, "pools": pools, "obs": w.Observe()})
		case "hist.step":
			if w == nil || halted {
				continue
			}
			for _, pre := range st.Rec.Pre {
				switch pre["kind"] {
				case "removePrices":
					which := []string{}
					if xs, ok := pre["assets"].([]any); ok {
						for _, x := range xs {
							which = append(which, x.(string))
						}
					}
					w.Seed(func(ctx sdk.Context) {
						for _, p := range w.App.OracleKeeper.GetAllPrice(ctx) {
							if contains(which, p.Asset) {
								w.App.OracleKeeper.RemovePrice(ctx, p.Asset, p.Source, p.Timestamp)
							}
						}
					})
				case "genesisRoundTrip":
					name, _ := pre["module"].(string)
					w.Seed(func(ctx sdk.Context) {
						cctx, write := ctx.CacheContext()
						if ok, _ := genesisRoundTrip(w, cctx, name); ok {
							write()
						}
					})
				case "gov":
					bz, _ := json.Marshal(pre["msg"])
					var msg sdk.Msg
					if err := w.App.AppCodec().UnmarshalInterfaceJSON(bz, &msg); err == nil {
						govApply(w, msg)
					} else {
						stats["replay/gov-msg-undecodable"]++
					}
				}
				curPre = append(curPre, pre)
			}
			curShocks = st.Shocks
			var txs []*histTx
			for i, rt := range st.Rec.Txs {
				if i >= len(st.Txs) {
					break
				}
				signer := w.byAddr[rt.Signer]
				if signer == nil {
					stats["replay/unknown-signer"]++
					continue
				}
				var msgs []sdk.Msg
				ok := true
				for _, mj := range rt.Msgs {
					var m sdk.Msg
					if err := w.App.AppCodec().UnmarshalInterfaceJSON(mj, &m); err != nil {
						ok = false
						break
					}
					msgs = append(msgs, m)
				}
				if !ok {
					stats["replay/msg-undecodable"]++
					continue
				}
				fee, _ := sdk.ParseCoinsNormalized(rt.Fee)
				txs = append(txs, &histTx{kind: st.Txs[i].Kind, f: st.Txs[i].F, req: TxReq{Signer: signer, Msgs: msgs, Fee: fee, Gas: rt.Gas}})
			}
			dt := time.Duration(st.Rec.DtNanos)
			if dt == 0 {
				dt = 5 * time.Second
			}
			if !emitBlock(w, out, hi, txs, dt, stats) {
				halted = true
			}
		}
	}
	out.Line(J{"t": "stats", "dist": stats})
}
