package harness

// C17: governance-only messages are refused from everyone but the governance authority; owner-scoped
// messages are refused from non-owners.
//
// The enumeration is the running app's own interface registry: every registered sdk.Msg whose type
// URL starts with "/elys." is instantiated by reflection; the ones whose struct has an `Authority`
// string field (plus the explicit list c17OtherGated, whose handlers compare another field) must be
// covered by the constructor table below, otherwise a "c17.uncovered" line makes the check fail.
//
// "State unchanged" is measured against a control: two identical worlds A and B are driven in
// lockstep; the message under test goes into A's block, B gets the same block without it, and every
// mounted KV store except x/auth's (sequence numbers) is hashed key by key on both sides.

import (
	"bytes"
	"crypto/sha256"
	"encoding/binary"
	"encoding/hex"
	"encoding/json"
	"fmt"
	"math/rand"
	"reflect"
	"sort"
	"strings"
	"testing"
	"time"

	"cosmossdk.io/math"
	abci "github.com/cometbft/cometbft/abci/types"
	simtestutil "github.com/cosmos/cosmos-sdk/testutil/sims"
	sdk "github.com/cosmos/cosmos-sdk/types"
	authtypes "github.com/cosmos/cosmos-sdk/x/auth/types"
	govtypes "github.com/cosmos/cosmos-sdk/x/gov/types"
	stakingtypes "github.com/cosmos/cosmos-sdk/x/staking/types"
	ccvconsumertypes "github.com/cosmos/interchain-security/v6/x/ccv/consumer/types"
	simapp "github.com/elys-network/elys/app"
	ammtypes "github.com/elys-network/elys/x/amm/types"
	aptypes "github.com/elys-network/elys/x/assetprofile/types"
	burnertypes "github.com/elys-network/elys/x/burner/types"
	ctypes "github.com/elys-network/elys/x/commitment/types"
	estypes "github.com/elys-network/elys/x/estaking/types"
	lptypes "github.com/elys-network/elys/x/leveragelp/types"
	mctypes "github.com/elys-network/elys/x/masterchef/types"
	oracletypes "github.com/elys-network/elys/x/oracle/types"
	ptypes "github.com/elys-network/elys/x/parameter/types"
	perptypes "github.com/elys-network/elys/x/perpetual/types"
	sstypes "github.com/elys-network/elys/x/stablestake/types"
	toktypes "github.com/elys-network/elys/x/tokenomics/types"
	tstypes "github.com/elys-network/elys/x/tradeshield/types"
)

func init() { modes["c17"] = runC17 }

// ---------------------------------------------------------------- lockstep pair

type c17Pair struct {
	t      *testing.T
	seed   int64
	A, B   *World
	SA, SB *Std
	setup  func(w *World, std *Std) string // identical on both worlds; returns "" or what went wrong
	boots  int
}

const c17Step = 5 * time.Second

// c17Genesis: NewWorld's InitElysTestApp draws a random validator and genesis account per app, so two
// of them never hold the same state. Here the genesis bytes are produced once and fed to both apps.
func c17Genesis(t *testing.T) (apps [2]*simapp.ElysApp) {
	apps[0], apps[1] = simapp.InitiateNewElysApp(t), simapp.InitiateNewElysApp(t)
	gs, valSet := detGenesisState(apps[0], 17)
	stateBytes, err := json.MarshalIndent(gs, "", " ")
	if err != nil {
		t.Fatalf("c17: genesis: %v", err)
	}
	for _, app := range apps {
		if _, err := app.InitChain(&abci.RequestInitChain{Validators: []abci.ValidatorUpdate{}, ConsensusParams: simtestutil.DefaultConsensusParams, AppStateBytes: stateBytes}); err != nil {
			t.Fatalf("c17: InitChain: %v", err)
		}
		if _, err := app.FinalizeBlock(&abci.RequestFinalizeBlock{Height: app.LastBlockHeight() + 1, Hash: app.LastCommitID().Hash, NextValidatorsHash: valSet.Hash()}); err != nil {
			t.Fatalf("c17: genesis block: %v", err)
		}
		if _, err := app.BeginBlocker(app.BaseApp.NewContext(true)); err != nil {
			t.Fatalf("c17: begin blocker: %v", err)
		}
		if _, err := app.Commit(); err != nil {
			t.Fatalf("c17: commit genesis: %v", err)
		}
	}
	return apps
}

// c17World is NewWorld on an app that already committed genesis.
func c17World(t *testing.T, app *simapp.ElysApp, seed int64, nAccts int) *World {
	w := &World{T: t, App: app, Rng: rand.New(rand.NewSource(seed)), byAddr: map[string]*Acct{}, Time: GenesisTime,
		Gov: authtypes.NewModuleAddress(govtypes.ModuleName).String(), Names: map[string]string{}}
	for i := 0; i < nAccts; i++ {
		pk := detKey(seed, i)
		a := &Acct{Name: fmt.Sprintf("u%d", i), Priv: pk, Addr: sdk.AccAddress(pk.PubKey().Address())}
		w.Accts = append(w.Accts, a)
		w.byAddr[a.Addr.String()] = a
		w.Names[a.Addr.String()] = a.Name
	}
	return w
}

func c17Boot(t *testing.T, app *simapp.ElysApp, seed int64, setup func(w *World, std *Std) string) (*World, *Std) {
	w := c17World(t, app, seed, 8)
	std := w.SeedStandard()
	w.Seed(func(ctx sdk.Context) {
		// objects owned by the governance address, so that the same bodies succeed with Authority = gov
		app := w.App
		infl := &toktypes.InflationEntry{LmRewards: 1, IcsStakingRewards: 1, CommunityFund: 1, StrategicReserve: 1, TeamTokensVested: 1}
		app.TokenomicsKeeper.SetAirdrop(ctx, toktypes.Airdrop{Intent: "c17drop", Amount: 1000, Authority: w.Gov, Expiry: 4_000_000_000})
		app.TokenomicsKeeper.SetTimeBasedInflation(ctx, toktypes.TimeBasedInflation{StartBlockHeight: 1000, EndBlockHeight: 2000, Description: "c17", Inflation: infl, Authority: w.Gov})
		app.AssetprofileKeeper.SetEntry(ctx, aptypes.Entry{BaseDenom: "uc17", Denom: "uc17", Decimals: 6, DisplayName: "C17", Authority: w.Gov})
		// the same kinds of object recorded as owned by an ordinary account (what a genesis import or another module can leave behind)
		rec := w.Accts[6].Addr.String()
		app.TokenomicsKeeper.SetAirdrop(ctx, toktypes.Airdrop{Intent: "c17drop-o", Amount: 1000, Authority: rec, Expiry: 4_000_000_000})
		app.TokenomicsKeeper.SetTimeBasedInflation(ctx, toktypes.TimeBasedInflation{StartBlockHeight: 3000, EndBlockHeight: 4000, Description: "c17o", Inflation: infl, Authority: rec})
		app.AssetprofileKeeper.SetEntry(ctx, aptypes.Entry{BaseDenom: "uc17o", Denom: "uc17o", Decimals: 6, DisplayName: "C17O", Authority: rec})
		app.OracleKeeper.SetAssetInfo(ctx, oracletypes.AssetInfo{Denom: "uc17", Display: "C17", Decimal: 6, BandTicker: "C17", ElysTicker: "C17"})
		// a listed IBC voucher: on a live chain every voucher denom has upper-case hex digits (the repository's tests list lower-case denoms only)
		app.OracleKeeper.SetAssetInfo(ctx, oracletypes.AssetInfo{Denom: c17Voucher, Display: "C17V", Decimal: 6, BandTicker: "C17V", ElysTicker: "C17V"})
		app.AssetprofileKeeper.SetEntry(ctx, aptypes.Entry{BaseDenom: "uc17v", Denom: c17Voucher, Decimals: 6, DisplayName: "C17V", Authority: w.Gov})
		app.LeveragelpKeeper.WhitelistAddress(ctx, w.Accts[4].Addr)
		app.PerpetualKeeper.WhitelistAddress(ctx, w.Accts[4].Addr)
		// a fifth pool: an oracle pool that leveragelp does not know yet (for MsgAddPool)
		std.Pools = append(std.Pools, w.createPool(ctx, w.Accts[0].Addr, true, D("0.001"), "uatom", math.NewInt(100_000_000_000), math.NewInt(20_000_000_000), 10, 10))
	})
	r0 := w.Block(c17Step, nil)
	if r0.Err != nil || r0.Panicked {
		t.Fatalf("c17: first block failed: %v %s", r0.Err, r0.PanicText)
	}
	if setup != nil {
		if why := setup(w, std); why != "" {
			t.Fatalf("c17: scenario setup failed: %s", why)
		}
	}
	return w, std
}

func (p *c17Pair) boot() {
	apps := c17Genesis(p.t)
	p.A, p.SA = c17Boot(p.t, apps[0], p.seed, p.setup)
	p.B, p.SB = c17Boot(p.t, apps[1], p.seed, p.setup)
	p.boots++
	if d := c17Diff(c17Hashes(p.A.Ctx(), p.A), c17Hashes(p.B.Ctx(), p.B)); len(d) > 0 {
		p.t.Fatalf("c17: the two worlds differ right after the identical setup: %v", d)
	}
}

func c17StoreNames(w *World) []string {
	var names []string
	for _, n := range sortedKeys(w.App.GetKVStoreKeys()) {
		if n == authtypes.StoreKey { // account sequence numbers change with every delivered tx, refused or not
			continue
		}
		names = append(names, n)
	}
	return names
}

// c17SkipPrefix: x/staking and the ccv consumer keep a HistoricalInfo record per block that embeds the
// block header, and the header carries the previous app hash, which covers x/auth's sequence numbers.
// Those records differ between the world that received a (refused) transaction and the control for
// that reason alone, so they are left out of the comparison like x/auth itself.
var c17SkipPrefix = map[string][]byte{
	stakingtypes.StoreKey:     stakingtypes.HistoricalInfoKey,
	ccvconsumertypes.StoreKey: ccvconsumertypes.HistoricalInfoKeyPrefix(),
}

// c17Hashes hashes every mounted KV store (except x/auth's) key by key as seen through ctx.
func c17Hashes(ctx sdk.Context, w *World) map[string]string {
	keys := w.App.GetKVStoreKeys()
	res := map[string]string{}
	var lb [8]byte
	for _, n := range c17StoreNames(w) {
		h := sha256.New()
		skip := c17SkipPrefix[n]
		it := ctx.KVStore(keys[n]).Iterator(nil, nil)
		for ; it.Valid(); it.Next() {
			k, v := it.Key(), it.Value()
			if skip != nil && bytes.HasPrefix(k, skip) {
				continue
			}
			binary.BigEndian.PutUint64(lb[:], uint64(len(k)))
			h.Write(lb[:])
			h.Write(k)
			binary.BigEndian.PutUint64(lb[:], uint64(len(v)))
			h.Write(lb[:])
			h.Write(v)
		}
		it.Close()
		res[n] = hex.EncodeToString(h.Sum(nil)[:8])
	}
	return res
}

func c17Diff(a, b map[string]string) []string {
	d := []string{}
	for _, n := range sortedKeys(a) {
		if a[n] != b[n] {
			d = append(d, n)
		}
	}
	return d
}

type c17Res struct {
	Code     uint32
	Log      string
	Changed  []string
	BlockErr string
}

// probe delivers tx in A's next block and the same block without it in B, and compares the stores.
func (p *c17Pair) probe(tx TxReq) c17Res {
	ra := p.A.Block(c17Step, []TxReq{tx})
	rb := p.B.Block(c17Step, nil)
	var r c17Res
	switch {
	case ra.Panicked:
		r.BlockErr = "panic: " + ra.PanicText
	case ra.Err != nil:
		r.BlockErr = ra.Err.Error()
	case rb.Panicked || rb.Err != nil:
		p.t.Fatalf("c17: the control world's empty block failed: %v %s", rb.Err, rb.PanicText)
	case len(ra.Txs) != 1:
		r.BlockErr = fmt.Sprintf("%d tx results", len(ra.Txs))
	}
	if r.BlockErr != "" {
		r.Code = 1 << 30
		r.Changed = []string{"(block failed)"}
		return r
	}
	r.Code, r.Log = ra.Txs[0].Code, ra.Txs[0].Log
	r.Changed = c17Diff(c17Hashes(p.A.Ctx(), p.A), c17Hashes(p.B.Ctx(), p.B))
	return r
}

func clip(s string, n int) string {
	if len(s) > n {
		return s[:n]
	}
	return s
}

// ---------------------------------------------------------------- constructors (governance-gated types)

type c17Env struct {
	w     *World
	std   *Std
	ctx   sdk.Context
	other string // some third address used as a payload (whitelist entries, feeders)
	owned bool   // target the copies of the stored objects whose recorded authority is an ordinary account (Accts[6]), as a genesis import can create
}

// obj picks the stored object a message targets: the governance-owned one, or its copy recorded as owned by Accts[6]
func (e *c17Env) obj(gov, owned string) string {
	if e.owned {
		return owned
	}
	return gov
}

func (e *c17Env) h(gov, owned uint64) uint64 {
	if e.owned {
		return owned
	}
	return gov
}

func c17Infl(x uint64) *toktypes.InflationEntry {
	return &toktypes.InflationEntry{LmRewards: x, IcsStakingRewards: x, CommunityFund: x, StrategicReserve: x, TeamTokensVested: x}
}

// c17OtherGated: governance-gated messages whose struct has no `Authority` field; the handler compares
// the named field with the keeper's authority (the static table Gen/Handlers.lean is where a new one
// of this kind shows up; Props/C17.lean lists them).
var c17OtherGated = map[string]string{
	"/elys.parameter.MsgUpdateMinCommission":       "Creator",
	"/elys.parameter.MsgUpdateMaxVotingPower":      "Creator",
	"/elys.parameter.MsgUpdateMinSelfDelegation":   "Creator",
	"/elys.parameter.MsgUpdateTotalBlocksPerYear":  "Creator",
	"/elys.parameter.MsgUpdateRewardsDataLifetime": "Creator",
}

// one constructor per governance-gated message type: a message that passes ValidateBasic, carries a
// body that changes something when governance sends it, and names `a` in its authority field.
var c17Ctors = map[string]func(e *c17Env, a string) sdk.Msg{
	"/elys.amm.MsgUpdateParams": func(e *c17Env, a string) sdk.Msg {
		p := e.w.App.AmmKeeper.GetParams(e.ctx)
		p.SlippageTrackDuration += 7
		return &ammtypes.MsgUpdateParams{Authority: a, Params: &p}
	},
	"/elys.amm.MsgUpdatePoolParams": func(e *c17Env, a string) sdk.Msg {
		return &ammtypes.MsgUpdatePoolParams{Authority: a, PoolId: e.std.Pools[0].Id, PoolParams: ammtypes.PoolParams{SwapFee: D("0.017"), UseOracle: false, FeeDenom: "uusdc"}}
	},
	"/elys.assetprofile.MsgUpdateEntry": func(e *c17Env, a string) sdk.Msg {
		return &aptypes.MsgUpdateEntry{Authority: a, BaseDenom: e.obj("uc17", "uc17o"), Decimals: 18, Denom: e.obj("uc17", "uc17o"), DisplayName: "C17x", CommitEnabled: true}
	},
	"/elys.assetprofile.MsgDeleteEntry": func(e *c17Env, a string) sdk.Msg {
		return &aptypes.MsgDeleteEntry{Authority: a, BaseDenom: e.obj("uc17", "uc17o")}
	},
	"/elys.burner.MsgUpdateParams": func(e *c17Env, a string) sdk.Msg {
		return &burnertypes.MsgUpdateParams{Authority: a, Params: burnertypes.Params{EpochIdentifier: "week"}}
	},
	"/elys.commitment.MsgUpdateVestingInfo": func(e *c17Env, a string) sdk.Msg {
		return &ctypes.MsgUpdateVestingInfo{Authority: a, BaseDenom: "ueden", VestingDenom: "uelys", NumBlocks: 77, VestNowFactor: 80, NumMaxVestings: 9}
	},
	"/elys.commitment.MsgUpdateEnableVestNow": func(e *c17Env, a string) sdk.Msg {
		return &ctypes.MsgUpdateEnableVestNow{Authority: a, EnableVestNow: !e.w.App.CommitmentKeeper.GetParams(e.ctx).EnableVestNow}
	},
	"/elys.estaking.MsgUpdateParams": func(e *c17Env, a string) sdk.Msg {
		p := e.w.App.EstakingKeeper.GetParams(e.ctx)
		p.MaxEdenRewardAprStakers = p.MaxEdenRewardAprStakers.Add(D("0.01"))
		return &estypes.MsgUpdateParams{Authority: a, Params: p}
	},
	"/elys.leveragelp.MsgUpdateParams": func(e *c17Env, a string) sdk.Msg {
		p := e.w.App.LeveragelpKeeper.GetParams(e.ctx)
		p.MaxOpenPositions += 3
		return &lptypes.MsgUpdateParams{Authority: a, Params: &p}
	},
	"/elys.leveragelp.MsgWhitelist": func(e *c17Env, a string) sdk.Msg {
		return &lptypes.MsgWhitelist{Authority: a, WhitelistedAddress: e.other}
	},
	"/elys.leveragelp.MsgDewhitelist": func(e *c17Env, a string) sdk.Msg {
		return &lptypes.MsgDewhitelist{Authority: a, WhitelistedAddress: e.w.Accts[4].Addr.String()}
	},
	"/elys.leveragelp.MsgAddPool": func(e *c17Env, a string) sdk.Msg {
		return &lptypes.MsgAddPool{Authority: a, Pool: lptypes.AddPool{AmmPoolId: e.std.Pools[4].Id, LeverageMax: D("5")}}
	},
	"/elys.leveragelp.MsgRemovePool": func(e *c17Env, a string) sdk.Msg {
		return &lptypes.MsgRemovePool{Authority: a, Id: e.std.Pools[3].Id}
	},
	"/elys.masterchef.MsgAddExternalRewardDenom": func(e *c17Env, a string) sdk.Msg {
		return &mctypes.MsgAddExternalRewardDenom{Authority: a, RewardDenom: "uatom", MinAmount: math.NewInt(1000), Supported: true}
	},
	"/elys.masterchef.MsgUpdateParams": func(e *c17Env, a string) sdk.Msg {
		p := e.w.App.MasterchefKeeper.GetParams(e.ctx)
		p.MaxEdenRewardAprLps = p.MaxEdenRewardAprLps.Add(D("0.01"))
		return &mctypes.MsgUpdateParams{Authority: a, Params: p}
	},
	"/elys.masterchef.MsgUpdatePoolMultipliers": func(e *c17Env, a string) sdk.Msg {
		return &mctypes.MsgUpdatePoolMultipliers{Authority: a, PoolMultipliers: []mctypes.PoolMultiplier{{PoolId: e.std.Pools[0].Id, Multiplier: D("3")}}}
	},
	"/elys.masterchef.MsgTogglePoolEdenRewards": func(e *c17Env, a string) sdk.Msg {
		return &mctypes.MsgTogglePoolEdenRewards{Authority: a, PoolId: e.std.Pools[0].Id, Enable: true}
	},
	"/elys.oracle.MsgRemoveAssetInfo": func(e *c17Env, a string) sdk.Msg {
		return &oracletypes.MsgRemoveAssetInfo{Authority: a, Denom: "uc17"}
	},
	"/elys.oracle.MsgAddPriceFeeders": func(e *c17Env, a string) sdk.Msg {
		return &oracletypes.MsgAddPriceFeeders{Authority: a, Feeders: []string{e.other}}
	},
	"/elys.oracle.MsgRemovePriceFeeders": func(e *c17Env, a string) sdk.Msg {
		return &oracletypes.MsgRemovePriceFeeders{Authority: a, Feeders: []string{e.std.Feeder.Addr.String()}}
	},
	"/elys.oracle.MsgUpdateParams": func(e *c17Env, a string) sdk.Msg {
		p := e.w.App.OracleKeeper.GetParams(e.ctx)
		p.PriceExpiryTime += 11
		return &oracletypes.MsgUpdateParams{Authority: a, Params: p}
	},
	"/elys.parameter.MsgUpdateMinCommission": func(e *c17Env, a string) sdk.Msg {
		return &ptypes.MsgUpdateMinCommission{Creator: a, MinCommission: D("0.07")}
	},
	"/elys.parameter.MsgUpdateMaxVotingPower": func(e *c17Env, a string) sdk.Msg {
		return &ptypes.MsgUpdateMaxVotingPower{Creator: a, MaxVotingPower: D("0.77")}
	},
	"/elys.parameter.MsgUpdateMinSelfDelegation": func(e *c17Env, a string) sdk.Msg {
		return &ptypes.MsgUpdateMinSelfDelegation{Creator: a, MinSelfDelegation: math.NewInt(7)}
	},
	"/elys.parameter.MsgUpdateTotalBlocksPerYear": func(e *c17Env, a string) sdk.Msg {
		return &ptypes.MsgUpdateTotalBlocksPerYear{Creator: a, TotalBlocksPerYear: 7_000_000}
	},
	"/elys.parameter.MsgUpdateRewardsDataLifetime": func(e *c17Env, a string) sdk.Msg {
		return &ptypes.MsgUpdateRewardsDataLifetime{Creator: a, RewardsDataLifetime: 77_777}
	},
	"/elys.perpetual.MsgUpdateParams": func(e *c17Env, a string) sdk.Msg {
		p := e.w.App.PerpetualKeeper.GetParams(e.ctx)
		p.MaxOpenPositions += 3
		return &perptypes.MsgUpdateParams{Authority: a, Params: &p}
	},
	"/elys.perpetual.MsgWhitelist": func(e *c17Env, a string) sdk.Msg {
		return &perptypes.MsgWhitelist{Authority: a, WhitelistedAddress: e.other}
	},
	"/elys.perpetual.MsgDewhitelist": func(e *c17Env, a string) sdk.Msg {
		return &perptypes.MsgDewhitelist{Authority: a, WhitelistedAddress: e.w.Accts[4].Addr.String()}
	},
	"/elys.stablestake.MsgUpdateParams": func(e *c17Env, a string) sdk.Msg {
		p := e.w.App.StablestakeKeeper.GetParams(e.ctx)
		p.EpochLength += 3
		return &sstypes.MsgUpdateParams{Authority: a, Params: &p}
	},
	"/elys.tokenomics.MsgCreateAirdrop": func(e *c17Env, a string) sdk.Msg {
		return &toktypes.MsgCreateAirdrop{Authority: a, Intent: "c17new", Amount: 5, Expiry: 4_000_000_000}
	},
	"/elys.tokenomics.MsgUpdateAirdrop": func(e *c17Env, a string) sdk.Msg {
		return &toktypes.MsgUpdateAirdrop{Authority: a, Intent: e.obj("c17drop", "c17drop-o"), Amount: 6, Expiry: 4_000_000_001}
	},
	"/elys.tokenomics.MsgDeleteAirdrop": func(e *c17Env, a string) sdk.Msg {
		return &toktypes.MsgDeleteAirdrop{Authority: a, Intent: e.obj("c17drop", "c17drop-o")}
	},
	"/elys.tokenomics.MsgUpdateGenesisInflation": func(e *c17Env, a string) sdk.Msg {
		return &toktypes.MsgUpdateGenesisInflation{Authority: a, Inflation: c17Infl(9), SeedVesting: 9, StrategicSalesVesting: 9}
	},
	"/elys.tokenomics.MsgCreateTimeBasedInflation": func(e *c17Env, a string) sdk.Msg {
		return &toktypes.MsgCreateTimeBasedInflation{Authority: a, StartBlockHeight: 3000, EndBlockHeight: 4000, Description: "c17new", Inflation: c17Infl(2)}
	},
	"/elys.tokenomics.MsgUpdateTimeBasedInflation": func(e *c17Env, a string) sdk.Msg {
		return &toktypes.MsgUpdateTimeBasedInflation{Authority: a, StartBlockHeight: e.h(1000, 3000), EndBlockHeight: e.h(2000, 4000), Description: "c17upd", Inflation: c17Infl(3)}
	},
	"/elys.tokenomics.MsgDeleteTimeBasedInflation": func(e *c17Env, a string) sdk.Msg {
		return &toktypes.MsgDeleteTimeBasedInflation{Authority: a, StartBlockHeight: e.h(1000, 3000), EndBlockHeight: e.h(2000, 4000)}
	},
	"/elys.tradeshield.MsgUpdateParams": func(e *c17Env, a string) sdk.Msg {
		p := e.w.App.TradeshieldKeeper.GetParams(e.ctx)
		p.LimitProcessOrder += 5
		return &tstypes.MsgUpdateParams{Authority: a, Params: &p}
	},
}

func c17SplitURL(u string) (module, name string) {
	parts := strings.Split(strings.TrimPrefix(u, "/"), ".")
	if len(parts) >= 3 {
		return parts[1], parts[len(parts)-1]
	}
	return "", u
}

func c17StringField(m any, field string) (string, bool) {
	v := reflect.ValueOf(m)
	if v.Kind() == reflect.Ptr {
		v = v.Elem()
	}
	if v.Kind() != reflect.Struct {
		return "", false
	}
	f := v.FieldByName(field)
	if !f.IsValid() || f.Kind() != reflect.String {
		return "", false
	}
	return f.String(), true
}

// c17MsgJSON: the message as proto JSON, so that a case line is a self-contained replay.
func c17MsgJSON(w *World, m sdk.Msg) json.RawMessage {
	bz, err := w.App.AppCodec().MarshalInterfaceJSON(m)
	if err != nil {
		b, _ := json.Marshal(err.Error())
		return b
	}
	return bz
}

func c17ValidateBasic(m sdk.Msg) string {
	if vb, ok := m.(sdk.HasValidateBasic); ok {
		if err := vb.ValidateBasic(); err != nil {
			return err.Error()
		}
	}
	return ""
}

// c17Direct applies msg through the app's own message router on a branch of ctx that is discarded.
func c17Direct(w *World, msg sdk.Msg) (res string, errText string, changed []string) {
	ctx := w.Ctx()
	h := w.App.MsgServiceRouter().Handler(msg)
	if h == nil {
		return "noroute", "no handler registered for " + sdk.MsgTypeURL(msg), []string{}
	}
	before := c17Hashes(ctx, w)
	func() {
		defer func() {
			if r := recover(); r != nil {
				res, errText = "panic", clip(fmt.Sprint(r), 200)
			}
		}()
		if _, err := h(ctx, msg); err != nil {
			res, errText = "fail", clip(err.Error(), 200)
			return
		}
		res = "ok"
	}()
	return res, errText, c17Diff(c17Hashes(ctx, w), before)
}

// ---------------------------------------------------------------- owner-scoped scenarios

type c17Owned struct {
	module, msg string
	field       string // the message field naming the sender / owner
	// create delivers (through blocks, as the owner) whatever the message needs and returns the object id
	create func(w *World, std *Std, owner *Acct) (uint64, string)
	// build makes the owner-scoped message about object id with `who` in the owner field
	build func(w *World, std *Std, who string, id uint64) sdk.Msg
	// wait: time to let pass (both worlds) before the owner's own message
	wait time.Duration
	// batch (messages that name several objects): the message about the objects `ids`, in that order, with `who` in the owner field.
	// The non-owner then also sends batches that mix an object of its own with the owner's
	batch func(w *World, std *Std, who string, ids []uint64) sdk.Msg
}

func c17Deliver(w *World, signer *Acct, msg sdk.Msg) string {
	r := w.Block(c17Step, []TxReq{{Signer: signer, Msgs: []sdk.Msg{msg}}})
	if r.Err != nil || r.Panicked || len(r.Txs) != 1 {
		return fmt.Sprintf("block failed: %v %s", r.Err, r.PanicText)
	}
	if r.Txs[0].Code != 0 {
		return fmt.Sprintf("%s: code %d: %s", sdk.MsgTypeURL(msg), r.Txs[0].Code, clip(r.Txs[0].Log, 300))
	}
	return ""
}

func c17SpotOrder(w *World, std *Std, owner *Acct) (uint64, string) {
	msg := &tstypes.MsgCreateSpotOrder{OrderType: tstypes.SpotOrderType_LIMITBUY,
		OrderPrice:  tstypes.OrderPrice{BaseDenom: "uatom", QuoteDenom: "uusdc", Rate: std.Prices["ATOM"].Mul(D("0.5"))},
		OrderAmount: coin("uusdc", math.NewInt(2_000_000)), OwnerAddress: owner.Addr.String(), OrderTargetDenom: "uatom"}
	if why := c17Deliver(w, owner, msg); why != "" {
		return 0, why
	}
	for _, o := range w.App.TradeshieldKeeper.GetAllPendingSpotOrder(w.Ctx()) {
		if o.OwnerAddress == owner.Addr.String() {
			return o.OrderId, ""
		}
	}
	return 0, "spot order not pending after creation"
}

// a degenerate object: a pending spot order that escrows nothing (order amount zero passes validation)
func c17SpotOrderZero(w *World, std *Std, owner *Acct) (uint64, string) {
	msg := &tstypes.MsgCreateSpotOrder{OrderType: tstypes.SpotOrderType_LIMITBUY,
		OrderPrice:  tstypes.OrderPrice{BaseDenom: "uatom", QuoteDenom: "uusdc", Rate: std.Prices["ATOM"].Mul(D("0.5"))},
		OrderAmount: coin("uusdc", math.ZeroInt()), OwnerAddress: owner.Addr.String(), OrderTargetDenom: "uatom"}
	if why := c17Deliver(w, owner, msg); why != "" {
		return 0, why
	}
	for _, o := range w.App.TradeshieldKeeper.GetAllPendingSpotOrder(w.Ctx()) {
		if o.OwnerAddress == owner.Addr.String() {
			return o.OrderId, ""
		}
	}
	return 0, "zero-amount spot order not pending after creation"
}

func c17PerpOrder(w *World, std *Std, owner *Acct) (uint64, string) {
	price := std.Prices["ATOM"]
	msg := &tstypes.MsgCreatePerpetualOpenOrder{OwnerAddress: owner.Addr.String(),
		TriggerPrice: tstypes.TriggerPrice{TradingAssetDenom: "uatom", Rate: price.Mul(D("0.9"))},
		Collateral:   coin("uusdc", math.NewInt(50_000_000)), TradingAsset: "uatom", Position: tstypes.PerpetualPosition_LONG,
		Leverage: D("2"), TakeProfitPrice: price.Mul(D("2")), StopLossPrice: D("0"), PoolId: std.Pools[2].Id}
	if why := c17Deliver(w, owner, msg); why != "" {
		return 0, why
	}
	for _, o := range w.App.TradeshieldKeeper.GetAllPendingPerpetualOrder(w.Ctx()) {
		if o.OwnerAddress == owner.Addr.String() {
			return o.OrderId, ""
		}
	}
	return 0, "perpetual order not pending after creation"
}

func c17LpPosition(w *World, std *Std, owner *Acct) (uint64, string) {
	msg := &lptypes.MsgOpen{Creator: owner.Addr.String(), CollateralAsset: "uusdc", CollateralAmount: math.NewInt(1_000_000_000),
		AmmPoolId: std.Pools[2].Id, Leverage: D("2"), StopLossPrice: D("0")}
	if why := c17Deliver(w, owner, msg); why != "" {
		return 0, why
	}
	for _, p := range w.App.LeveragelpKeeper.GetAllPositions(w.Ctx()) {
		if p.Address == owner.Addr.String() {
			return p.Id, ""
		}
	}
	return 0, "leveragelp position missing after open"
}

func c17PerpPosition(w *World, std *Std, owner *Acct) (uint64, string) {
	price := std.Prices["ATOM"]
	msg := &perptypes.MsgOpen{Creator: owner.Addr.String(), Position: perptypes.Position_LONG, Leverage: D("2"), TradingAsset: "uatom",
		Collateral: coin("uusdc", math.NewInt(1_000_000_000)), TakeProfitPrice: price.Mul(D("2")), StopLossPrice: D("0"), PoolId: std.Pools[2].Id}
	if why := c17Deliver(w, owner, msg); why != "" {
		return 0, why
	}
	for _, m := range w.App.PerpetualKeeper.GetAllMTPs(w.Ctx()) {
		if m.Address == owner.Addr.String() {
			return m.Id, ""
		}
	}
	return 0, "perpetual position missing after open"
}

// c17Voucher: the denom of an IBC voucher as a live chain has them (upper-case hex)
const c17Voucher = "ibc/27394FB092D2ECCD56123C74F36E4C1F926001CEADA9CA97EA622B25F41E5EB2"

var c17OwnedTable = []c17Owned{
	{module: "tradeshield", msg: "MsgUpdateSpotOrder", field: "OwnerAddress", create: c17SpotOrder,
		build: func(w *World, std *Std, who string, id uint64) sdk.Msg {
			return &tstypes.MsgUpdateSpotOrder{OwnerAddress: who, OrderId: id, OrderPrice: tstypes.OrderPrice{BaseDenom: "uatom", QuoteDenom: "uusdc", Rate: std.Prices["ATOM"].Mul(D("0.4"))}}
		}},
	{module: "tradeshield", msg: "MsgCancelSpotOrder", field: "OwnerAddress", create: c17SpotOrder,
		build: func(w *World, std *Std, who string, id uint64) sdk.Msg {
			return &tstypes.MsgCancelSpotOrder{OwnerAddress: who, OrderId: id}
		}},
	{module: "tradeshield", msg: "MsgCancelSpotOrders", field: "Creator", create: c17SpotOrder,
		build: func(w *World, std *Std, who string, id uint64) sdk.Msg {
			return &tstypes.MsgCancelSpotOrders{Creator: who, SpotOrderIds: []uint64{id}}
		},
		batch: func(w *World, std *Std, who string, ids []uint64) sdk.Msg {
			return &tstypes.MsgCancelSpotOrders{Creator: who, SpotOrderIds: ids}
		}},
	// the same three messages about an order whose escrow account is empty
	{module: "tradeshield", msg: "MsgUpdateSpotOrder", field: "OwnerAddress", create: c17SpotOrderZero,
		build: func(w *World, std *Std, who string, id uint64) sdk.Msg {
			return &tstypes.MsgUpdateSpotOrder{OwnerAddress: who, OrderId: id, OrderPrice: tstypes.OrderPrice{BaseDenom: "uatom", QuoteDenom: "uusdc", Rate: std.Prices["ATOM"].Mul(D("0.4"))}}
		}},
	{module: "tradeshield", msg: "MsgCancelSpotOrder", field: "OwnerAddress", create: c17SpotOrderZero,
		build: func(w *World, std *Std, who string, id uint64) sdk.Msg {
			return &tstypes.MsgCancelSpotOrder{OwnerAddress: who, OrderId: id}
		}},
	{module: "tradeshield", msg: "MsgCancelSpotOrders", field: "Creator", create: c17SpotOrderZero,
		build: func(w *World, std *Std, who string, id uint64) sdk.Msg {
			return &tstypes.MsgCancelSpotOrders{Creator: who, SpotOrderIds: []uint64{id}}
		}},
	{module: "tradeshield", msg: "MsgUpdatePerpetualOrder", field: "OwnerAddress", create: c17PerpOrder,
		build: func(w *World, std *Std, who string, id uint64) sdk.Msg {
			return &tstypes.MsgUpdatePerpetualOrder{OwnerAddress: who, OrderId: id, TriggerPrice: tstypes.TriggerPrice{TradingAssetDenom: "uatom", Rate: std.Prices["ATOM"].Mul(D("0.8"))}}
		}},
	{module: "tradeshield", msg: "MsgCancelPerpetualOrder", field: "OwnerAddress", create: c17PerpOrder,
		build: func(w *World, std *Std, who string, id uint64) sdk.Msg {
			return &tstypes.MsgCancelPerpetualOrder{OwnerAddress: who, OrderId: id}
		}},
	{module: "tradeshield", msg: "MsgCancelPerpetualOrders", field: "OwnerAddress", create: c17PerpOrder,
		build: func(w *World, std *Std, who string, id uint64) sdk.Msg {
			return &tstypes.MsgCancelPerpetualOrders{OwnerAddress: who, OrderIds: []uint64{id}}
		},
		batch: func(w *World, std *Std, who string, ids []uint64) sdk.Msg {
			return &tstypes.MsgCancelPerpetualOrders{OwnerAddress: who, OrderIds: ids}
		}},
	{module: "leveragelp", msg: "MsgClose", field: "Creator", create: c17LpPosition, wait: 2 * time.Hour,
		build: func(w *World, std *Std, who string, id uint64) sdk.Msg {
			amt := math.NewInt(1000)
			for _, p := range w.App.LeveragelpKeeper.GetAllPositions(w.Ctx()) {
				if p.Id == id {
					amt = p.LeveragedLpAmount
				}
			}
			return &lptypes.MsgClose{Creator: who, Id: id, LpAmount: amt}
		}},
	{module: "leveragelp", msg: "MsgUpdateStopLoss", field: "Creator", create: c17LpPosition,
		build: func(w *World, std *Std, who string, id uint64) sdk.Msg {
			return &lptypes.MsgUpdateStopLoss{Creator: who, Position: id, Price: D("0.5")}
		}},
	{module: "leveragelp", msg: "MsgClaimRewards", field: "Sender", create: c17LpPosition,
		build: func(w *World, std *Std, who string, id uint64) sdk.Msg {
			return &lptypes.MsgClaimRewards{Sender: who, Ids: []uint64{id}}
		},
		batch: func(w *World, std *Std, who string, ids []uint64) sdk.Msg {
			return &lptypes.MsgClaimRewards{Sender: who, Ids: ids}
		}},
	{module: "perpetual", msg: "MsgClose", field: "Creator", create: c17PerpPosition,
		build: func(w *World, std *Std, who string, id uint64) sdk.Msg {
			amt := math.NewInt(1000)
			for _, m := range w.App.PerpetualKeeper.GetAllMTPs(w.Ctx()) {
				if m.Id == id {
					amt = m.Custody
				}
			}
			return &perptypes.MsgClose{Creator: who, Id: id, Amount: amt}
		}},
	{module: "perpetual", msg: "MsgUpdateStopLoss", field: "Creator", create: c17PerpPosition,
		build: func(w *World, std *Std, who string, id uint64) sdk.Msg {
			return &perptypes.MsgUpdateStopLoss{Creator: who, Id: id, Price: std.Prices["ATOM"].Mul(D("0.8"))}
		}},
	{module: "perpetual", msg: "MsgUpdateTakeProfitPrice", field: "Creator", create: c17PerpPosition,
		build: func(w *World, std *Std, who string, id uint64) sdk.Msg {
			return &perptypes.MsgUpdateTakeProfitPrice{Creator: who, Id: id, Price: std.Prices["ATOM"].Mul(D("3"))}
		}},
}

// ---------------------------------------------------------------- the mode

func runC17(t *testing.T, seed int64, n int, out *Out) {
	stats := map[string]int{}
	_ = n

	// ---- part 1: governance-gated message types, enumerated from the running app
	p := &c17Pair{t: t, seed: seed}
	p.boot()
	app := p.A.App
	reg := app.InterfaceRegistry()
	urls := append([]string{}, reg.ListImplementations(sdk.MsgInterfaceProtoName)...)
	sort.Strings(urls)
	type gated struct{ url, module, name, field string }
	var gs []gated
	var open []string
	registered := [][]any{} // [module, message type, has an Authority field, gated through field]
	nElys := 0
	covered := map[string]bool{}
	for _, u := range urls {
		if !strings.HasPrefix(u, "/elys.") {
			continue
		}
		nElys++
		pm, err := reg.Resolve(u)
		if err != nil {
			out.Line(J{"t": "c17.uncovered", "url": u, "why": "registry cannot instantiate it: " + err.Error()})
			continue
		}
		mod, name := c17SplitURL(u)
		field := ""
		if _, ok := c17StringField(pm, "Authority"); ok {
			field = "Authority"
		} else if f, ok := c17OtherGated[u]; ok {
			if _, has := c17StringField(pm, f); !has {
				out.Line(J{"t": "c17.uncovered", "url": u, "why": "listed as gated through field " + f + " which the struct does not have"})
				continue
			}
			field = f
		}
		_, hasAuth := c17StringField(pm, "Authority")
		registered = append(registered, []any{mod, name, hasAuth, field})
		if field == "" {
			open = append(open, strings.TrimPrefix(u, "/elys."))
			continue
		}
		if _, ok := c17Ctors[u]; !ok {
			out.Line(J{"t": "c17.uncovered", "url": u, "why": "authority-bearing message type registered with the app but absent from the harness constructor table"})
			stats["uncovered"]++
			continue
		}
		covered[u] = true
		gs = append(gs, gated{u, mod, name, field})
	}
	for _, u := range sortedKeys(c17Ctors) {
		if !covered[u] {
			out.Line(J{"t": "c17.uncovered", "url": u, "why": "constructor table entry for a type the app does not register (or that lost its authority field)"})
			stats["stale"]++
		}
	}
	for _, u := range sortedKeys(c17OtherGated) {
		if !covered[u] {
			out.Line(J{"t": "c17.uncovered", "url": u, "why": "listed in c17OtherGated but not registered"})
		}
	}
	type sgn struct {
		kind string
		a    *Acct
	}
	// keys are derived from the seed, so these stay valid when the pair is rebuilt
	signers := []sgn{{"fresh", p.A.Accts[5]}, {"owner", p.A.Accts[0]}, {"feeder", p.SA.Feeder}}
	out.Line(J{"t": "c17.begin", "id": 0, "gov": p.A.Gov, "registeredElysMsgs": nElys, "gated": len(gs), "open": open, "registered": registered,
		"stores": c17StoreNames(p.A), "signers": []string{p.A.Accts[5].Addr.String(), p.A.Accts[0].Addr.String(), p.SA.Feeder.Addr.String()}})

	for _, g := range gs {
		mk := c17Ctors[g.url]
		env := func() *c17Env {
			return &c17Env{w: p.A, std: p.SA, ctx: p.A.Ctx(), other: p.A.Accts[3].Addr.String()}
		}
		// non-vacuity: the same body with the field naming governance, applied through the app's message router
		gm := mk(env(), p.A.Gov)
		if sdk.MsgTypeURL(gm) != g.url {
			out.Line(J{"t": "c17.uncovered", "url": g.url, "why": "constructor builds " + sdk.MsgTypeURL(gm)})
			continue
		}
		gres, gerr, gchanged := c17Direct(p.A, gm)
		out.Line(J{"t": "c17.govrun", "id": 0, "module": g.module, "msg": g.name, "url": g.url, "field": g.field,
			"res": gres, "err": gerr, "authErr": strings.Contains(gerr, "invalid authority"), "changed": gchanged, "vb": c17ValidateBasic(gm), "nontrivial": gres == "ok"})
		stats["govrun/"+gres]++
		if gres == "ok" && len(gchanged) > 0 {
			stats["govrun/ok+writes"]++
		}
		for _, sk := range signers {
			for _, variant := range []string{"self", "spoof"} {
				s := sk.a
				val := s.Addr.String()
				if variant == "spoof" {
					val = p.A.Gov
				}
				msg := mk(env(), val)
				got, _ := c17StringField(msg, g.field)
				vb := c17ValidateBasic(msg)
				r := p.probe(TxReq{Signer: s, Msgs: []sdk.Msg{msg}})
				out.Line(J{"t": "c17.case", "id": 0, "kind": "gov", "module": g.module, "msg": g.name, "url": g.url, "field": g.field,
					"variant": variant, "signerKind": sk.kind, "signer": s.Addr.String(), "fieldValue": got, "gov": p.A.Gov,
					"code": r.Code, "log": clip(r.Log, 220), "changed": r.Changed, "vb": vb, "blockErr": r.BlockErr,
					"guardHit": strings.Contains(r.Log, "invalid authority"), "body": c17MsgJSON(p.A, msg), "nontrivial": true})
				verdict := "refused"
				if r.Code == 0 {
					verdict = "ACCEPTED"
				} else if len(r.Changed) > 0 {
					verdict = "refused+CHANGED"
				}
				stats["gov/"+variant+"/"+sk.kind+"/"+verdict]++
				if strings.Contains(r.Log, "invalid authority") {
					stats["gov/"+variant+"/refusedByHandlerGuard"]++
				}
				if r.Code == 0 || len(r.Changed) > 0 {
					p.boot() // A no longer equals the control: start again from identical worlds
				}
			}
		}
		// the account RECORDED as the owner of the targeted object (not governance) signs, naming itself: only messages whose
		// body names such an object differ from the "self" variant above
		{
			rec := p.A.Accts[6]
			oe := env()
			oe.owned = true
			msg := mk(oe, rec.Addr.String())
			if string(c17MsgJSON(p.A, msg)) != string(c17MsgJSON(p.A, mk(env(), rec.Addr.String()))) {
				got, _ := c17StringField(msg, g.field)
				r := p.probe(TxReq{Signer: rec, Msgs: []sdk.Msg{msg}})
				out.Line(J{"t": "c17.case", "id": 0, "kind": "gov", "module": g.module, "msg": g.name, "url": g.url, "field": g.field,
					"variant": "recordedOwner", "signerKind": "recordedOwner", "signer": rec.Addr.String(), "fieldValue": got, "gov": p.A.Gov,
					"code": r.Code, "log": clip(r.Log, 220), "changed": r.Changed, "vb": c17ValidateBasic(msg), "blockErr": r.BlockErr,
					"guardHit": strings.Contains(r.Log, "invalid authority"), "body": c17MsgJSON(p.A, msg), "nontrivial": true})
				verdict := "refused"
				if r.Code == 0 {
					verdict = "ACCEPTED"
				} else if len(r.Changed) > 0 {
					verdict = "refused+CHANGED"
				}
				stats["gov/recordedOwner/"+verdict]++
				if r.Code == 0 || len(r.Changed) > 0 {
					p.boot()
				}
			}
		}
	}
	stats["pairBoots/gov"] = p.boots

	// ---- noted, outside the letter of the property: listing messages that carry no authority field and are
	// open to anyone at this commit (recorded, never judged)
	fresh := p.A.Accts[5]
	for _, nm := range []sdk.Msg{
		&aptypes.MsgAddEntry{Creator: fresh.Addr.String(), BaseDenom: "unote", Decimals: 6, Denom: "unote", DisplayName: "NOTE", CommitEnabled: true},
		&oracletypes.MsgCreateAssetInfo{Creator: fresh.Addr.String(), Denom: "unote", Display: "NOTE", BandTicker: "NOTE", ElysTicker: "NOTE", Decimal: 6},
	} {
		r := p.probe(TxReq{Signer: fresh, Msgs: []sdk.Msg{nm}})
		mod, name := c17SplitURL(sdk.MsgTypeURL(nm))
		out.Line(J{"t": "c17.note", "id": 0, "module": mod, "msg": name, "signerKind": "fresh", "signer": fresh.Addr.String(), "code": r.Code,
			"log": clip(r.Log, 220), "changed": r.Changed, "vb": c17ValidateBasic(nm), "body": c17MsgJSON(p.A, nm), "nontrivial": true,
			"note": "no authority field; not governance-gated at this commit"})
		if r.Code == 0 {
			stats["note/"+mod+"."+name+"/accepted from a fresh account"]++
		} else {
			stats["note/"+mod+"."+name+"/refused"]++
		}
	}

	// ---- the same permissionless create messages aimed at objects that ALREADY exist (the base currency's listing, a
	// governance-owned listing, listed oracle assets), with the other fields varied: judged - each must be refused and leave the
	// store as it is, or it amounts to an update by someone who is not the authority
	p.boot() // the noted messages above were accepted: start again from identical worlds
	fresh = p.A.Accts[5]
	for _, nm := range []sdk.Msg{
		&aptypes.MsgAddEntry{Creator: fresh.Addr.String(), BaseDenom: "uusdc", Denom: "uusdc", Decimals: 6, DisplayName: "USDC", CommitEnabled: true},
		&aptypes.MsgAddEntry{Creator: fresh.Addr.String(), BaseDenom: "uusdc", Denom: "umallory", Decimals: 18, DisplayName: "USDC", CommitEnabled: true, WithdrawEnabled: true},
		&aptypes.MsgAddEntry{Creator: fresh.Addr.String(), BaseDenom: "uc17", Denom: "uc17x", Decimals: 9, DisplayName: "C17y"},
		&aptypes.MsgAddEntry{Creator: fresh.Addr.String(), BaseDenom: "uatom", Denom: "ibc/0000000000000000000000000000000000000000000000000000000000000000", Decimals: 6, DisplayName: "ATOM"},
		&oracletypes.MsgCreateAssetInfo{Creator: fresh.Addr.String(), Denom: "uusdc", Display: "USDX", BandTicker: "USDX", ElysTicker: "USDX", Decimal: 18},
		&oracletypes.MsgCreateAssetInfo{Creator: fresh.Addr.String(), Denom: "uatom", Display: "ATOM", BandTicker: "ATOM", ElysTicker: "ATOM", Decimal: 6},
		&oracletypes.MsgCreateAssetInfo{Creator: fresh.Addr.String(), Denom: "uc17", Display: "C17z", BandTicker: "C17z", ElysTicker: "C17z", Decimal: 9},
		&oracletypes.MsgCreateAssetInfo{Creator: fresh.Addr.String(), Denom: c17Voucher, Display: "USDC", BandTicker: "USDC", ElysTicker: "USDC", Decimal: 18},
		&aptypes.MsgAddEntry{Creator: fresh.Addr.String(), BaseDenom: "uc17v", Denom: c17Voucher, Decimals: 18, DisplayName: "USDC", CommitEnabled: true, WithdrawEnabled: true},
	} {
		r := p.probe(TxReq{Signer: fresh, Msgs: []sdk.Msg{nm}})
		mod, name := c17SplitURL(sdk.MsgTypeURL(nm))
		out.Line(J{"t": "c17.case", "id": 0, "kind": "existing", "module": mod, "msg": name, "url": sdk.MsgTypeURL(nm), "field": "Creator", "variant": "existingObject",
			"signerKind": "fresh", "signer": fresh.Addr.String(), "fieldValue": fresh.Addr.String(), "gov": p.A.Gov, "code": r.Code, "log": clip(r.Log, 220),
			"changed": r.Changed, "vb": c17ValidateBasic(nm), "blockErr": r.BlockErr, "body": c17MsgJSON(p.A, nm), "nontrivial": true})
		if r.Code == 0 {
			stats["existing/"+mod+"."+name+"/ACCEPTED"]++
		} else {
			stats["existing/"+mod+"."+name+"/refused"]++
		}
		if r.Code == 0 || len(r.Changed) > 0 {
			p.boot()
		}
	}

	// ---- a message gated by a governance-maintained LIST of senders (MsgCreatePool: amm Params.AllowedPoolCreators): a sender that
	// is on no list must be refused - with the default list, and after governance has stored params in which the list is EMPTY
	// (MsgUpdateParams replaces the whole struct and validation does not look at the list, so an update that only means to change
	// a fee leaves it empty): an empty list admits nobody
	{
		oldSetup := p.setup
		for _, variant := range []string{"defaultList", "emptyList"} {
			variant := variant
			p.setup = func(w *World, std *Std) string {
				if oldSetup != nil {
					if why := oldSetup(w, std); why != "" {
						return why
					}
				}
				if variant == "emptyList" {
					params := w.App.AmmKeeper.GetParams(w.Ctx())
					params.AllowedPoolCreators = nil
					if !govApply(w, &ammtypes.MsgUpdateParams{Authority: w.Gov, Params: &params}) {
						return "governance update of amm params with an empty creator list was refused"
					}
					if r := w.Block(c17Step, nil); r.Err != nil || r.Panicked {
						return "block after the params update failed"
					}
				}
				return ""
			}
			p.boot()
			fr := p.A.Accts[5]
			assets := []ammtypes.PoolAsset{
				{Token: sdk.NewCoin("uatom", math.NewInt(1_000_000)), Weight: math.NewInt(10), ExternalLiquidityRatio: math.LegacyNewDec(2)},
				{Token: sdk.NewCoin("uusdc", math.NewInt(5_000_000)), Weight: math.NewInt(10), ExternalLiquidityRatio: math.LegacyNewDec(2)},
			}
			nm := &ammtypes.MsgCreatePool{Sender: fr.Addr.String(), PoolParams: ammtypes.PoolParams{UseOracle: false, SwapFee: D("0.002"), FeeDenom: "uusdc"}, PoolAssets: assets}
			r := p.probe(TxReq{Signer: fr, Msgs: []sdk.Msg{nm}})
			out.Line(J{"t": "c17.case", "id": 0, "kind": "existing", "module": "amm", "msg": "MsgCreatePool", "url": sdk.MsgTypeURL(nm), "field": "Sender", "variant": "listGated/" + variant,
				"signerKind": "fresh", "signer": fr.Addr.String(), "fieldValue": fr.Addr.String(), "gov": p.A.Gov, "code": r.Code, "log": clip(r.Log, 220),
				"changed": r.Changed, "vb": c17ValidateBasic(nm), "blockErr": r.BlockErr, "body": c17MsgJSON(p.A, nm), "nontrivial": true})
			if r.Code == 0 {
				stats["listGated/"+variant+"/ACCEPTED"]++
			} else {
				stats["listGated/"+variant+"/refused"]++
			}
		}
		p.setup = oldSetup
		p.boot()
	}

	// ---- part 2: owner-scoped messages, one fresh pair of worlds per message type
	for i, sc := range c17OwnedTable {
		sc := sc
		id := i + 1
		var objA, objB uint64
		first := true
		q := &c17Pair{t: t, seed: seed + int64(id)*7919}
		q.setup = func(w *World, std *Std) string {
			oid, why := sc.create(w, std, w.Accts[0])
			if why != "" {
				return sc.module + "." + sc.msg + ": " + why
			}
			var oidB uint64
			if sc.batch != nil {
				// the second account has an object of the same kind of its own (creating one is open to everybody)
				if oidB, why = sc.create(w, std, w.Accts[2]); why != "" {
					return sc.module + "." + sc.msg + " (second account): " + why
				}
			}
			if first {
				objA, objB, first = oid, oidB, false
			} else if oid != objA || oidB != objB {
				return "the two worlds created different object ids"
			}
			return ""
		}
		q.boot()
		owner, other := q.A.Accts[0], q.A.Accts[2]
		out.Line(J{"t": "c17.begin", "id": id, "kind": "owner", "module": sc.module, "msg": sc.msg, "object": objA,
			"owner": owner.Addr.String(), "other": other.Addr.String()})
		type pr struct {
			variant string
			s       *Acct
			who     string
		}
		probes := []pr{
			{"nonowner", other, other.Addr.String()},             // a second account names the owner's object as its own
			{"nonowner", q.SA.Feeder, q.SA.Feeder.Addr.String()}, // so does the price feeder
			{"spoof", other, owner.Addr.String()},                // the owner's address in the field, somebody else's signature
		}
		type prb struct {
			pr
			ids []uint64
		}
		var all []prb
		for _, x := range probes {
			all = append(all, prb{x, nil})
		}
		if sc.batch != nil && objB != objA {
			// one message that names an object of the sender's own AND the owner's: it concerns the owner's object, so it is refused whole
			all = append(all, prb{pr{"nonowner-mixed", other, other.Addr.String()}, []uint64{objB, objA}},
				prb{pr{"nonowner-mixed", other, other.Addr.String()}, []uint64{objA, objB}})
		}
		for _, xx := range all {
			x := xx.pr
			msg := sc.build(q.A, q.SA, x.who, objA)
			if xx.ids != nil {
				msg = sc.batch(q.A, q.SA, x.who, xx.ids)
			}
			vb := c17ValidateBasic(msg)
			r := q.probe(TxReq{Signer: x.s, Msgs: []sdk.Msg{msg}})
			out.Line(J{"t": "c17.case", "id": id, "kind": "owner", "module": sc.module, "msg": sc.msg, "url": sdk.MsgTypeURL(msg), "field": sc.field,
				"variant": x.variant, "signerKind": q.A.Name(x.s.Addr.String()), "signer": x.s.Addr.String(), "fieldValue": x.who, "owner": owner.Addr.String(),
				"object": objA, "code": r.Code, "log": clip(r.Log, 220), "changed": r.Changed, "vb": vb, "blockErr": r.BlockErr, "body": c17MsgJSON(q.A, msg), "nontrivial": true})
			verdict := "refused"
			if r.Code == 0 {
				verdict = "ACCEPTED"
			} else if len(r.Changed) > 0 {
				verdict = "refused+CHANGED"
			}
			stats["owner/"+x.variant+"/"+verdict]++
			if r.Code == 0 || len(r.Changed) > 0 {
				q.boot()
			}
		}
		// non-vacuity: the owner's own message about the same object goes through and writes
		if sc.wait > 0 {
			q.A.Block(sc.wait, nil)
			q.B.Block(sc.wait, nil)
		}
		msg := sc.build(q.A, q.SA, owner.Addr.String(), objA)
		r := q.probe(TxReq{Signer: owner, Msgs: []sdk.Msg{msg}})
		out.Line(J{"t": "c17.case", "id": id, "kind": "owner", "module": sc.module, "msg": sc.msg, "url": sdk.MsgTypeURL(msg), "field": sc.field,
			"variant": "owner", "signerKind": "u0", "signer": owner.Addr.String(), "fieldValue": owner.Addr.String(), "owner": owner.Addr.String(),
			"object": objA, "code": r.Code, "log": clip(r.Log, 220), "changed": r.Changed, "vb": c17ValidateBasic(msg), "blockErr": r.BlockErr, "body": c17MsgJSON(q.A, msg), "nontrivial": true})
		if r.Code == 0 {
			stats["owner/owner/ok"]++
			if len(r.Changed) > 0 {
				stats["owner/owner/ok+writes"]++
			}
		} else {
			stats["owner/owner/FAILED"]++
		}
	}
	out.Line(J{"t": "stats", "dist": stats})
}
