package harness

import (
	"math/rand"
	"os"
	"testing"
	"time"

	sdk "github.com/cosmos/cosmos-sdk/types"
	authtypes "github.com/cosmos/cosmos-sdk/x/auth/types"
	ammtypes "github.com/elys-network/elys/x/amm/types"
)

// TestDebugHist replays a hist seed and prints reward-related balances around a height (scratch; not part of any check).
func TestDebugHist(t *testing.T) {
	if os.Getenv("VERIF_DEBUG_AT") == "" {
		t.Skip()
	}
	at := envInt("VERIF_DEBUG_AT", 0)
	seed := envInt("VERIF_SEED", 1)
	f, _ := os.Create(os.DevNull)
	out := &Out{f: f}
	_ = out
	_ = rand.Int
	_ = time.Second
	_ = sdk.Coins{}
	_ = authtypes.FeeCollectorName
	_ = ammtypes.ModuleName
	debugAt = at
	debugT = t
	path := t.TempDir() + "/x.jsonl"
	os.Setenv("VERIF_OUT", path)
	ff, _ := os.Create(path)
	o := &Out{w: newBuf(ff), f: ff}
	runHist(t, seed, int(at)+2, o)
}
