package harness

// Deterministic genesis. app.GenesisStateWithValSet (app/test_setup.go) draws a fresh random validator key and genesis
// account on every call and stamps the consumer genesis with the wall clock, so two runs with the same seed never hold the
// same state (store iteration order over addresses differs) and a finding would not replay. This is the same construction,
// step by step, with both keys derived from the seed and a fixed timestamp. Everything it calls is the repository's own
// exported code (NewDefaultGenesisState, CreateMinimalConsumerTestGenesis); only the key material and the clock differ.

import (
	"encoding/json"
	"fmt"
	"testing"
	"time"

	"cosmossdk.io/math"
	abci "github.com/cometbft/cometbft/abci/types"
	cmttypes "github.com/cometbft/cometbft/types"
	codectypes "github.com/cosmos/cosmos-sdk/codec/types"
	cryptocodec "github.com/cosmos/cosmos-sdk/crypto/codec"
	"github.com/cosmos/cosmos-sdk/crypto/keys/ed25519"
	"github.com/cosmos/cosmos-sdk/crypto/keys/secp256k1"
	"github.com/cosmos/cosmos-sdk/testutil/mock"
	simtestutil "github.com/cosmos/cosmos-sdk/testutil/sims"
	sdk "github.com/cosmos/cosmos-sdk/types"
	authtypes "github.com/cosmos/cosmos-sdk/x/auth/types"
	banktypes "github.com/cosmos/cosmos-sdk/x/bank/types"
	stakingtypes "github.com/cosmos/cosmos-sdk/x/staking/types"
	consumertypes "github.com/cosmos/interchain-security/v6/x/ccv/consumer/types"
	simapp "github.com/elys-network/elys/app"
	atypes "github.com/elys-network/elys/x/assetprofile/types"
	ptypes "github.com/elys-network/elys/x/parameter/types"
)

func detGenesisState(app *simapp.ElysApp, seed int64) (simapp.GenesisState, *cmttypes.ValidatorSet) {
	privVal := mock.PV{PrivKey: ed25519.GenPrivKeyFromSecret([]byte(fmt.Sprintf("verif-validator-%d", seed)))}
	pubKey, _ := privVal.GetPubKey()
	validator := cmttypes.NewValidator(pubKey, 1)
	valSet := cmttypes.NewValidatorSet([]*cmttypes.Validator{validator})

	senderPrivKey := secp256k1.GenPrivKeyFromSecret([]byte(fmt.Sprintf("verif-genesis-account-%d", seed)))
	acc := authtypes.NewBaseAccountWithAddress(senderPrivKey.PubKey().Address().Bytes())
	balance := banktypes.Balance{Address: acc.GetAddress().String(), Coins: sdk.NewCoins(sdk.NewCoin(ptypes.Elys, math.NewInt(100000000000000)))}
	balances := []banktypes.Balance{balance}

	genesisState := simapp.NewDefaultGenesisState(app, app.AppCodec())
	genAP := atypes.DefaultGenesis()
	genAP.EntryList = []atypes.Entry{{BaseDenom: ptypes.BaseCurrency, Denom: ptypes.BaseCurrency}}
	genesisState[atypes.ModuleName] = app.AppCodec().MustMarshalJSON(genAP)
	genAccs := []authtypes.GenesisAccount{acc}
	genesisState[authtypes.ModuleName] = app.AppCodec().MustMarshalJSON(authtypes.NewGenesisState(authtypes.DefaultParams(), genAccs))

	validators := make([]stakingtypes.Validator, 0, 1)
	delegations := make([]stakingtypes.Delegation, 0, 1)
	bondAmt := sdk.DefaultPowerReduction
	initValPowers := []abci.ValidatorUpdate{}
	for _, val := range valSet.Validators {
		pk, _ := cryptocodec.FromTmPubKeyInterface(val.PubKey)
		pkAny, _ := codectypes.NewAnyWithValue(pk)
		validators = append(validators, stakingtypes.Validator{
			OperatorAddress: sdk.ValAddress(val.Address).String(), ConsensusPubkey: pkAny, Jailed: false, Status: stakingtypes.Bonded, Tokens: bondAmt,
			DelegatorShares: math.LegacyOneDec(), Description: stakingtypes.Description{}, UnbondingHeight: 0, UnbondingTime: time.Unix(0, 0).UTC(),
			Commission:        stakingtypes.NewCommission(math.LegacyNewDecWithPrec(5, 2), math.LegacyNewDecWithPrec(10, 2), math.LegacyNewDecWithPrec(10, 2)),
			MinSelfDelegation: math.OneInt(),
		})
		delegations = append(delegations, stakingtypes.NewDelegation(genAccs[0].GetAddress().String(), sdk.ValAddress(val.Address).String(), math.LegacyOneDec()))
		pub, _ := val.ToProto()
		initValPowers = append(initValPowers, abci.ValidatorUpdate{Power: val.VotingPower, PubKey: pub.PubKey})
	}
	params := stakingtypes.DefaultParams()
	params.BondDenom = ptypes.Elys
	genesisState[stakingtypes.ModuleName] = app.AppCodec().MustMarshalJSON(stakingtypes.NewGenesisState(params, validators, delegations))

	totalSupply := sdk.NewCoins()
	for _, b := range balances {
		totalSupply = totalSupply.Add(b.Coins...)
	}
	for range delegations {
		totalSupply = totalSupply.Add(sdk.NewCoin(ptypes.Elys, bondAmt))
	}
	balances = append(balances, banktypes.Balance{Address: authtypes.NewModuleAddress(stakingtypes.BondedPoolName).String(), Coins: sdk.Coins{sdk.NewCoin(ptypes.Elys, bondAmt)}})
	genesisState[banktypes.ModuleName] = app.AppCodec().MustMarshalJSON(banktypes.NewGenesisState(banktypes.DefaultGenesisState().Params, balances, totalSupply, []banktypes.Metadata{}, []banktypes.SendEnabled{}))

	vals, err := cmttypes.PB2TM.ValidatorUpdates(initValPowers)
	if err != nil {
		panic("failed to get vals")
	}
	consumerGenesisState := simapp.CreateMinimalConsumerTestGenesis()
	consumerGenesisState.Provider.InitialValSet = initValPowers
	consumerGenesisState.Provider.ConsensusState.NextValidatorsHash = cmttypes.NewValidatorSet(vals).Hash()
	consumerGenesisState.Provider.ConsensusState.Timestamp = GenesisTime
	consumerGenesisState.Params.Enabled = true
	genesisState[consumertypes.ModuleName] = app.AppCodec().MustMarshalJSON(consumerGenesisState)
	return genesisState, valSet
}

// detInitApp is app.InitElysTestApp(true, t) followed by Commit, on the deterministic genesis.
func detInitApp(t *testing.T, seed int64) *simapp.ElysApp {
	app := simapp.InitiateNewElysApp(t)
	gs, valSet := detGenesisState(app, seed)
	stateBytes, err := json.MarshalIndent(gs, "", " ")
	if err != nil {
		t.Fatal(err)
	}
	if _, err = app.InitChain(&abci.RequestInitChain{Validators: []abci.ValidatorUpdate{}, ConsensusParams: simtestutil.DefaultConsensusParams, AppStateBytes: stateBytes}); err != nil {
		t.Fatalf("InitChain: %v", err)
	}
	if _, err = app.FinalizeBlock(&abci.RequestFinalizeBlock{Height: app.LastBlockHeight() + 1, Hash: app.LastCommitID().Hash, NextValidatorsHash: valSet.Hash()}); err != nil {
		t.Fatalf("genesis block: %v", err)
	}
	if _, err = app.BeginBlocker(app.BaseApp.NewContext(true)); err != nil {
		t.Fatalf("begin blocker: %v", err)
	}
	if _, err := app.Commit(); err != nil {
		t.Fatalf("commit genesis: %v", err)
	}
	return app
}
