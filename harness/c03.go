package harness

// C03 differential mode: the real x/amm/types swap arithmetic on generated NON-oracle pools.
//   fn "out": Pool.CalcOutAmtGivenIn / Pool.SwapOutAmtGivenIn  (exact-in)
//   fn "in" : Pool.CalcInAmtGivenOut / Pool.SwapInAmtGivenOut   (exact-out)
//   fn "pow": types.Pow(base, exp)
// One JSON line per case: inputs as decimal strings (Dec as raw integer), the implementation's
// result kind (ok | fail | panic), amount and slippage; for unequal weights and for Pow a
// high-precision reference value (math/big.Float, 420 bits) as floor(ref * 10^18).

import (
	"math/big"
	"math/rand"
	"os"
	"testing"

	sdkmath "cosmossdk.io/math"
	sdk "github.com/cosmos/cosmos-sdk/types"
	ammtypes "github.com/elys-network/elys/x/amm/types"
)

func init() { modes["c03"] = runC03 }

const (
	denomX = "uaaa"
	denomY = "ubbb"
)

type swapCase struct {
	fn         string // out | in
	stream     string
	balIn      *big.Int
	balOut     *big.Int
	wIn, wOut  *big.Int
	accIn      *big.Int
	accOut     *big.Int
	amt        *big.Int
	fee        sdkmath.LegacyDec
	inIsFirst  bool
	viaSwap    bool
	weightName string
}

func mkSwapPool(c *swapCase) ammtypes.Pool {
	inDenom, outDenom := denomX, denomY
	if !c.inIsFirst {
		inDenom, outDenom = denomY, denomX
	}
	aIn := ammtypes.PoolAsset{Token: sdk.Coin{Denom: inDenom, Amount: sdkmath.NewIntFromBigInt(c.balIn)}, Weight: sdkmath.NewIntFromBigInt(c.wIn), ExternalLiquidityRatio: sdkmath.LegacyOneDec()}
	aOut := ammtypes.PoolAsset{Token: sdk.Coin{Denom: outDenom, Amount: sdkmath.NewIntFromBigInt(c.balOut)}, Weight: sdkmath.NewIntFromBigInt(c.wOut), ExternalLiquidityRatio: sdkmath.LegacyOneDec()}
	assets := []ammtypes.PoolAsset{aIn, aOut}
	if !c.inIsFirst {
		assets = []ammtypes.PoolAsset{aOut, aIn}
	}
	return ammtypes.Pool{
		PoolId:      1,
		Address:     ammtypes.NewPoolAddress(1).String(),
		PoolParams:  ammtypes.PoolParams{SwapFee: c.fee, UseOracle: false, FeeDenom: denomY},
		TotalShares: sdk.NewCoin("amm/pool/1", sdkmath.NewInt(1_000_000_000_000_000_000).MulRaw(100)),
		PoolAssets:  assets,
		TotalWeight: sdkmath.NewIntFromBigInt(new(big.Int).Add(c.wIn, c.wOut)),
	}
}

func (c *swapCase) denoms() (string, string) {
	if c.inIsFirst {
		return denomX, denomY
	}
	return denomY, denomX
}

// effective reserves the swap computes with (accounted balance when positive)
func eff(bal, acc *big.Int) *big.Int {
	if acc.Sign() > 0 {
		return acc
	}
	return bal
}

// refSwap: exact value of the weighted-product formula, as floor(value * 10^18).
func refSwap(c *swapCase) string {
	A, B := bf(eff(c.balIn, c.accIn)), bf(eff(c.balOut, c.accOut))
	if A.Sign() <= 0 || B.Sign() <= 0 || c.amt.Sign() <= 0 || c.wIn.Sign() <= 0 || c.wOut.Sign() <= 0 {
		return ""
	}
	oneMinusFee := new(big.Float).SetPrec(refPrec).Sub(bf(big.NewInt(1)), decToFloat(c.fee))
	if oneMinusFee.Sign() <= 0 {
		return ""
	}
	if !c.wIn.IsInt64() || !c.wOut.IsInt64() {
		return ""
	}
	g := gcd64(c.wIn.Int64(), c.wOut.Int64())
	p, q := c.wIn.Int64()/g, c.wOut.Int64()/g
	if p > 4000 || q > 4000 {
		return ""
	}
	if c.fn == "out" {
		a := new(big.Float).SetPrec(refPrec).Mul(bf(c.amt), oneMinusFee)
		y := new(big.Float).SetPrec(refPrec).Quo(A, new(big.Float).SetPrec(refPrec).Add(A, a))
		yw := bfPowRat(y, p, q) // (A/(A+a'))^(wIn/wOut)
		out := new(big.Float).SetPrec(refPrec).Sub(bf(big.NewInt(1)), yw)
		out.Mul(out, B)
		return rawFloor(out)
	}
	// exact-out: in = A * ((B/(B-o))^(wOut/wIn) - 1) / (1-fee)
	rest := new(big.Float).SetPrec(refPrec).Sub(B, bf(c.amt))
	if rest.Sign() <= 0 {
		return ""
	}
	y := new(big.Float).SetPrec(refPrec).Quo(B, rest)
	if e := y.MantExp(nil); e > 200 {
		return ""
	}
	yw := bfPowRat(y, q, p)
	in := new(big.Float).SetPrec(refPrec).Sub(yw, bf(big.NewInt(1)))
	in.Mul(in, A).Quo(in, oneMinusFee)
	return rawFloor(in)
}

func runSwapCase(ctx sdk.Context, c *swapCase, out *Out, stats map[string]int) {
	pool := mkSwapPool(c)
	// the per-block snapshot argument: for a non-oracle pool nothing may depend on it. Half of the cases get the pool itself, the
	// other half the pool as it might have looked at the start of the block (reserves moved by earlier swaps of the same block)
	snapPool := pool
	snapVariant := int(new(big.Int).Mod(new(big.Int).Add(c.amt, c.balIn), big.NewInt(6)).Int64())
	if snapVariant > 2 {
		c2 := *c
		f := [][2]int64{{9, 10}, {11, 10}, {1, 2}}[snapVariant-3]
		c2.balIn = new(big.Int).Quo(new(big.Int).Mul(c.balIn, big.NewInt(f[0])), big.NewInt(f[1]))
		c2.balOut = new(big.Int).Quo(new(big.Int).Mul(c.balOut, big.NewInt(f[1])), big.NewInt(f[0]))
		if c2.balIn.Sign() > 0 && c2.balOut.Sign() > 0 {
			snapPool = mkSwapPool(&c2)
			stats["swap/snapshot-differs-from-pool"]++
		}
	}
	snapshot := &snapPool
	inDenom, outDenom := c.denoms()
	acc := accStub{denoms: []string{inDenom, outDenom}, amts: []sdkmath.Int{sdkmath.NewIntFromBigInt(c.accIn), sdkmath.NewIntFromBigInt(c.accOut)}}
	var amount sdkmath.Int
	var slip sdkmath.LegacyDec
	kind, text := guard(func() error {
		var coin sdk.Coin
		var err error
		if c.fn == "out" {
			tokens := sdk.Coins{sdk.Coin{Denom: inDenom, Amount: sdkmath.NewIntFromBigInt(c.amt)}}
			if c.viaSwap {
				coin, slip, _, _, _, err = pool.SwapOutAmtGivenIn(ctx, nil, snapshot, tokens, outDenom, c.fee, acc, sdkmath.LegacyOneDec(), ammtypes.DefaultParams())
			} else {
				coin, slip, err = pool.CalcOutAmtGivenIn(ctx, nil, snapshot, tokens, outDenom, c.fee, acc)
			}
		} else {
			tokens := sdk.Coins{sdk.Coin{Denom: outDenom, Amount: sdkmath.NewIntFromBigInt(c.amt)}}
			if c.viaSwap {
				coin, slip, _, _, _, err = pool.SwapInAmtGivenOut(ctx, nil, snapshot, tokens, inDenom, c.fee, acc, sdkmath.LegacyOneDec(), ammtypes.DefaultParams())
			} else {
				coin, slip, err = pool.CalcInAmtGivenOut(ctx, nil, snapshot, tokens, inDenom, c.fee, acc)
			}
		}
		if err != nil {
			return err
		}
		amount = coin.Amount
		return nil
	})
	line := map[string]any{"t": "c03.case", "fn": c.fn, "stream": c.stream, "weights": c.weightName,
		"A": c.balIn.String(), "B": c.balOut.String(), "wIn": c.wIn.String(), "wOut": c.wOut.String(),
		"accIn": c.accIn.String(), "accOut": c.accOut.String(), "amt": c.amt.String(), "fee": c.fee.BigInt().String(),
		"res": kind}
	if c.viaSwap {
		line["via"] = "swap"
	}
	if kind == "ok" {
		line["amount"] = amount.String()
		line["slip"] = slip.BigInt().String()
	} else {
		line["err"] = text
	}
	equal := c.wIn.Cmp(c.wOut) == 0
	if !equal {
		if ref := refSwap(c); ref != "" {
			line["ref"] = ref
		}
	}
	out.Line(line)
	stats["fn."+c.fn]++
	stats["res."+c.fn+"."+kind]++
	stats["weights."+c.weightName]++
	stats["stream."+c.stream]++
	stats["reserveOut.1e"+bucket(eff(c.balOut, c.accOut))]++
	if c.fee.IsZero() {
		stats["fee.zero"]++
	} else {
		stats["fee.nonzero"]++
	}
	if c.accIn.Sign() > 0 || c.accOut.Sign() > 0 {
		stats["accounted"]++
	}
}

// decimal-digit bucket (3 decades wide) of a non-negative integer
func bucket(v *big.Int) string {
	d := len(v.String()) - 1
	d = d / 3 * 3
	return big.NewInt(int64(d)).String()
}

func scaleWeights(r *rand.Rand, w weightPair) (*big.Int, *big.Int) {
	a, b := big.NewInt(w.a), big.NewInt(w.b)
	if r.Intn(2) == 0 { // as stored by SetInitialPoolAssets
		s := big.NewInt(ammtypes.GuaranteedWeightPrecision)
		a.Mul(a, s)
		b.Mul(b, s)
	}
	return a, b
}

func randSwapCase(r *rand.Rand) *swapCase {
	c := &swapCase{stream: "rand", accIn: big.NewInt(0), accOut: big.NewInt(0)}
	if r.Intn(3) == 0 {
		c.fn = "in"
	} else {
		c.fn = "out"
	}
	c.balIn = logUniform(r, 0, 30)
	switch r.Intn(4) {
	case 0: // same order of magnitude
		c.balOut = logUniform(r, 0, 30)
	default:
		c.balOut = logUniform(r, 0, 30)
	}
	w := genWeights(r)
	c.weightName = w.name
	c.wIn, c.wOut = scaleWeights(r, w)
	c.fee = genFee(r)
	c.inIsFirst = r.Intn(2) == 0
	c.viaSwap = r.Intn(5) == 0
	if r.Intn(25) == 0 {
		c.accIn = logUniform(r, 0, 30)
	}
	if r.Intn(25) == 0 {
		c.accOut = logUniform(r, 0, 30)
	}
	// trade size: 1 … reserve − 1, log-uniform; sometimes relative to the in-reserve for exact-in
	if c.fn == "out" {
		res := eff(c.balIn, c.accIn)
		switch r.Intn(6) {
		case 0: // up to 100 x the reserve
			c.amt = logUniformBelow(r, new(big.Int).Mul(res, big.NewInt(100)))
		default:
			m := new(big.Int).Sub(res, big.NewInt(1))
			c.amt = logUniformBelow(r, m)
		}
	} else {
		res := eff(c.balOut, c.accOut)
		m := new(big.Int).Sub(res, big.NewInt(1))
		c.amt = logUniformBelow(r, m)
		if r.Intn(40) == 0 {
			c.amt = new(big.Int).Sub(res, big.NewInt(int64(r.Intn(3))))
		}
	}
	return c
}

// boundarySwapCases: deterministic edge cases plus seeded variations.
func boundarySwapCases(r *rand.Rand, grid bool) []*swapCase {
	var cs []*swapCase
	one := big.NewInt(1)
	zero := big.NewInt(0)
	P := pow10(18)
	add := func(fn string, A, B *big.Int, w weightPair, amt *big.Int, fee string) {
		cs = append(cs, &swapCase{fn: fn, stream: "boundary", balIn: A, balOut: B, wIn: big.NewInt(w.a), wOut: big.NewInt(w.b),
			accIn: zero, accOut: zero, amt: amt, fee: sdkmath.LegacyMustNewDecFromStr(fee), inIsFirst: len(cs)%2 == 0, weightName: w.name})
	}
	eq := weightPair{1, 1, "1:1"}
	sizes := []*big.Int{one, big.NewInt(2), big.NewInt(999), pow10(6), pow10(12), pow10(18), new(big.Int).Add(pow10(18), one), pow10(24), pow10(30)}
	ws := []weightPair{eq, {1, 2, "1:2"}, {2, 1, "2:1"}, {1, 4, "1:4"}, {4, 1, "4:1"}, {20, 80, "20:80"}, {80, 20, "80:20"}, {3, 7, "random"}}
	fees := []string{"0", "0.003", "0.02"}
	for _, A := range sizes {
		if !grid { // the deterministic lattice is emitted by one shard only (seed % 1000 == 0)
			break
		}
		for _, B := range sizes {
			for wi, w := range ws {
				fee := fees[(wi+len(cs))%len(fees)]
				// amounts: dust, reserve − 1, reserve, reserve + 1, half
				for _, amt := range []*big.Int{one, new(big.Int).Sub(A, one), A, new(big.Int).Add(A, one), new(big.Int).Rsh(A, 1)} {
					if amt.Sign() > 0 || wi == 0 {
						add("out", A, B, w, amt, fee)
					}
				}
				for _, amt := range []*big.Int{one, new(big.Int).Sub(B, one), B, new(big.Int).Add(B, one), new(big.Int).Rsh(B, 1), new(big.Int).Sub(B, big.NewInt(2))} {
					if amt.Sign() > 0 {
						add("in", A, B, w, amt, fee)
					}
				}
			}
		}
	}
	// exact ties of the 18-digit Quo (banker's rounding): reserve d*t, post-swap balance 2*t*10^36 raw
	for _, d := range []int64{1, 3, 5, 7, 9, 11, 25, 101} {
		for _, t := range []int64{1, 2, 3, 10, 1000} {
			A := big.NewInt(d * t)
			amt := new(big.Int).Mul(big.NewInt(2*t), P)
			amt.Sub(amt, A)
			add("out", A, logUniform(r, 0, 30), eq, amt, "0")
			add("out", A, logUniform(r, 0, 30), weightPair{1, 2, "1:2"}, amt, "0")
		}
	}
	// reserves just around 10^18 (where the one-unit allowance stops holding) with many sizes
	for i := 0; i < 400; i++ {
		B := new(big.Int).Add(pow10(17), randBelow(r, new(big.Int).Mul(pow10(17), big.NewInt(25))))
		A := logUniform(r, 3, 24)
		add("out", A, B, eq, logUniformBelow(r, A), fees[i%3])
		add("in", B, A, eq, logUniformBelow(r, new(big.Int).Sub(A, one)), fees[i%3])
	}
	// the large-reserve witness of the design: B = 3*10^24
	B3 := new(big.Int).Mul(big.NewInt(3), pow10(24))
	add("out", B3, B3, eq, pow10(24), "0")
	add("out", pow10(24), B3, eq, pow10(24), "0")
	// fee edge values
	for _, fee := range []string{"1", "0.999999999999999999", "1.5", "0.000000000000000001"} {
		add("out", pow10(9), pow10(9), eq, pow10(6), fee)
		add("in", pow10(9), pow10(9), eq, pow10(6), fee)
	}
	// zero amounts / zero reserves / zero weights
	add("out", pow10(9), pow10(9), eq, zero, "0")
	add("in", pow10(9), pow10(9), eq, zero, "0")
	add("out", zero, pow10(9), eq, pow10(3), "0")
	add("out", pow10(9), zero, eq, pow10(3), "0")
	add("in", zero, pow10(9), eq, pow10(3), "0")
	add("in", pow10(9), zero, eq, pow10(3), "0")
	add("out", pow10(9), pow10(9), weightPair{0, 1, "zero"}, pow10(3), "0")
	add("out", pow10(9), pow10(9), weightPair{1, 0, "zero"}, pow10(3), "0")
	add("in", pow10(9), pow10(9), weightPair{0, 1, "zero"}, pow10(3), "0")
	add("in", pow10(9), pow10(9), weightPair{1, 0, "zero"}, pow10(3), "0")
	// huge values: range assertion of LegacyDec (2^256 * 10^18)
	for _, e := range []int{40, 58, 59, 60, 76, 77} {
		add("out", pow10(e), pow10(e), eq, pow10(e-1), "0.003")
		add("out", pow10(12), pow10(e), eq, pow10(6), "0.003")
		add("out", pow10(e), pow10(12), eq, pow10(e), "0")
		add("in", pow10(e), pow10(e), eq, pow10(e-1), "0.003")
		add("in", pow10(e), pow10(12), weightPair{1, 2, "1:2"}, pow10(11), "0.003")
	}
	// exact-out with B/(B-o) = 4 and a non-integer exponent: computeLn lands on y = 1 (slow series)
	add("in", pow10(9), big.NewInt(4_000_000), weightPair{3, 7, "random"}, big.NewInt(3_000_000), "0")
	// accounted balances
	for i := 0; i < 60; i++ {
		c := randSwapCase(r)
		c.stream = "boundary"
		c.accIn = logUniform(r, 0, 30)
		if i%2 == 0 {
			c.accOut = logUniform(r, 0, 30)
		}
		if c.fn == "out" {
			c.amt = logUniformBelow(r, c.accIn)
		} else {
			c.amt = logUniformBelow(r, eff(c.balOut, c.accOut))
		}
		cs = append(cs, c)
	}
	return cs
}

// ---- Pow ----

var powExps = []string{"0.5", "0.25", "0.2", "0.125", "0.333333333333333333", "0.75", "0.1", "0.9", "0.01", "0.99",
	"2", "3", "4", "5", "1.5", "2.5", "0.666666666666666667", "1.25", "1", "19"}

func runPowCase(base, exp sdkmath.LegacyDec, stream string, out *Out, stats map[string]int) {
	var res sdkmath.LegacyDec
	kind, text := guard(func() error { res = ammtypes.Pow(base, exp); return nil })
	line := map[string]any{"t": "c03.case", "fn": "pow", "stream": stream, "base": base.BigInt().String(), "exp": exp.BigInt().String(), "res": kind}
	if kind == "ok" {
		line["amount"] = res.BigInt().String()
	} else {
		line["err"] = text
	}
	// reference y^w for 0 < y <= 1, 0 < w <= 64 (the domain PowSpec speaks about)
	if base.IsPositive() && base.LTE(sdkmath.LegacyOneDec()) && exp.IsPositive() && exp.LTE(sdkmath.LegacyNewDec(64)) {
		p := new(big.Int).Set(exp.BigInt())
		q := pow10(18)
		g := new(big.Int).GCD(nil, nil, p, q)
		p.Div(p, g)
		q.Div(q, g)
		if p.IsInt64() && q.IsInt64() && p.Int64() <= 100000 && q.Int64() <= 100000 {
			line["ref"] = rawFloor(bfPowRat(decToFloat(base), p.Int64(), q.Int64()))
		}
	}
	out.Line(line)
	stats["fn.pow"]++
	stats["res.pow."+kind]++
}

func randPowCase(r *rand.Rand) (sdkmath.LegacyDec, sdkmath.LegacyDec) {
	var base *big.Int
	P := pow10(18)
	switch r.Intn(8) {
	case 0, 1, 2: // (0, 1]
		base = logUniformBelow(r, P)
	case 3: // [0.5, 1]
		base = new(big.Int).Add(new(big.Int).Rsh(P, 1), randBelow(r, new(big.Int).Rsh(P, 1)))
	case 4: // [1, 2)
		base = new(big.Int).Add(P, randBelow(r, P))
	case 5: // dyadic and other structured values (exact ties of the rounding)
		den := int64(1) << uint(r.Intn(12))
		base = new(big.Int).Div(new(big.Int).Mul(P, big.NewInt(int64(1+r.Intn(40)))), big.NewInt(den))
	case 6: // near 0.5, 1, 2, 4
		c := []int64{1, 2, 4, 8}[r.Intn(4)]
		base = new(big.Int).Div(new(big.Int).Mul(P, big.NewInt(c)), big.NewInt(2))
		base.Add(base, big.NewInt(int64(r.Intn(2001)-1000)))
	default: // up to 10^6
		base = logUniform(r, 18, 24)
	}
	var exp sdkmath.LegacyDec
	switch r.Intn(6) {
	case 0:
		exp = sdkmath.LegacyNewDecFromBigIntWithPrec(randBelow(r, P), 18)
	case 1:
		exp = sdkmath.LegacyNewDecFromBigIntWithPrec(randBelow(r, new(big.Int).Mul(P, big.NewInt(5))), 18)
	case 2: // a weight ratio
		w := genWeights(r)
		exp = sdkmath.LegacyNewDec(w.a).Quo(sdkmath.LegacyNewDec(w.b))
	default:
		exp = sdkmath.LegacyMustNewDecFromStr(powExps[r.Intn(len(powExps))])
	}
	return sdkmath.LegacyNewDecFromBigIntWithPrec(base, 18), exp
}

func boundaryPowCases() [][2]string {
	var cs [][2]string
	bases := []string{"0", "-1", "0.000000000000000001", "0.000000000000000002", "0.1", "0.25", "0.499999999999999999", "0.5", "0.500000000000000001",
		"0.75", "0.999999999999999999", "1", "1.000000000000000001", "1.5", "1.999999999999999999", "2", "2.000000000000000001", "3.999", "4", "8", "10", "1000", "1000000000000"}
	exps := []string{"0", "-0.5", "-1", "-2", "0.000000000000000001", "0.5", "0.25", "0.333333333333333333", "0.999999999999999999", "1", "1.000000000000000001", "1.5", "2", "4", "19", "64", "0.3", "0.7"}
	for _, b := range bases {
		for _, e := range exps {
			cs = append(cs, [2]string{b, e})
		}
	}
	// large integer exponents and out-of-int64 exponents
	cs = append(cs, [2]string{"0.999", "100000"}, [2]string{"1.001", "100000"}, [2]string{"1.1", "10000"}, [2]string{"2", "400"},
		[2]string{"0.5", "9223372036854775807"}, [2]string{"0.5", "9223372036854775808"}, [2]string{"0.5", "18446744073709551616"})
	return cs
}

func runC03(t *testing.T, seed int64, n int, out *Out) {
	r := rand.New(rand.NewSource(seed))
	ctx := pureCtx()
	stats := map[string]int{}
	boundaryOnly := os.Getenv("VERIF_BOUNDARY") == "1"
	grid := seed%1000 == 0 || boundaryOnly
	for _, c := range boundarySwapCases(r, grid) {
		runSwapCase(ctx, c, out, stats)
	}
	if grid {
		for _, be := range boundaryPowCases() {
			runPowCase(sdkmath.LegacyMustNewDecFromStr(be[0]), sdkmath.LegacyMustNewDecFromStr(be[1]), "boundary", out, stats)
		}
	}
	for _, c := range boundaryOracleCases(r) {
		runOracleCase(ctx, c, out, stats)
	}
	if boundaryOnly {
		// more seeded variations of the boundary families instead of the uniform stream
		for i := 0; i < n/400+1; i++ {
			for _, c := range boundarySwapCases(r, false) {
				runSwapCase(ctx, c, out, stats)
			}
			for _, c := range boundaryOracleCases(r) {
				runOracleCase(ctx, c, out, stats)
			}
		}
	} else {
		for i := 0; i < n; i++ {
			if i%5 == 4 {
				b, e := randPowCase(r)
				runPowCase(b, e, "rand", out, stats)
			} else if i%5 == 3 || i%5 == 1 {
				runOracleCase(ctx, randOracleCase(r), out, stats)
			} else {
				runSwapCase(ctx, randSwapCase(r), out, stats)
			}
		}
	}
	out.Line(map[string]any{"t": "stats", "dist": stats})
}

// ---- oracle pools: SwapOutAmtGivenIn / SwapInAmtGivenOut with UseOracle = true ----

type oAsset struct {
	amount, weight, acc, snap *big.Int
	ext, price                sdkmath.LegacyDec
}

type oCase struct {
	fn                                                   string // oout | oin
	stream                                               string
	a                                                    [2]oAsset
	iIn                                                  int
	amt                                                  *big.Int
	fee                                                  sdkmath.LegacyDec
	exponent, multiplier, portion, threshold, perpFactor sdkmath.LegacyDec
}

func (a oAsset) arr() []string {
	return []string{a.amount.String(), a.weight.String(), a.ext.BigInt().String(), a.price.BigInt().String(), a.acc.String(), a.snap.String()}
}

func mkOraclePool(c *oCase, snapshot bool) ammtypes.Pool {
	denoms := []string{denomX, denomY}
	assets := make([]ammtypes.PoolAsset, 2)
	tw := sdkmath.ZeroInt()
	for i := 0; i < 2; i++ {
		amt := c.a[i].amount
		if snapshot {
			amt = c.a[i].snap
		}
		assets[i] = ammtypes.PoolAsset{Token: sdk.Coin{Denom: denoms[i], Amount: sdkmath.NewIntFromBigInt(amt)}, Weight: sdkmath.NewIntFromBigInt(c.a[i].weight), ExternalLiquidityRatio: c.a[i].ext}
		tw = tw.Add(assets[i].Weight)
	}
	return ammtypes.Pool{
		PoolId:      1,
		Address:     ammtypes.NewPoolAddress(1).String(),
		PoolParams:  ammtypes.PoolParams{SwapFee: c.fee, UseOracle: true, FeeDenom: denomY},
		TotalShares: sdk.NewCoin("amm/pool/1", sdkmath.NewInt(1_000_000_000_000_000_000).MulRaw(100)),
		PoolAssets:  assets,
		TotalWeight: tw,
	}
}

func runOracleCase(ctx sdk.Context, c *oCase, out *Out, stats map[string]int) {
	pool := mkOraclePool(c, false)
	snap := mkOraclePool(c, true)
	denoms := []string{denomX, denomY}
	acc := accStub{denoms: denoms, amts: []sdkmath.Int{sdkmath.NewIntFromBigInt(c.a[0].acc), sdkmath.NewIntFromBigInt(c.a[1].acc)}}
	orc := oracleStub{denoms: denoms, prices: []sdkmath.LegacyDec{c.a[0].price, c.a[1].price}}
	params := ammtypes.DefaultParams()
	params.WeightBreakingFeeExponent = c.exponent
	params.WeightBreakingFeeMultiplier = c.multiplier
	params.WeightBreakingFeePortion = c.portion
	params.ThresholdWeightDifference = c.threshold
	inDenom, outDenom := denoms[c.iIn], denoms[1-c.iIn]
	var amount sdkmath.Int
	var slip, slipAmt, bonus, oracleAmt sdkmath.LegacyDec
	kind, text := guard(func() error {
		var coin sdk.Coin
		var err error
		if c.fn == "oout" {
			tokens := sdk.Coins{sdk.Coin{Denom: inDenom, Amount: sdkmath.NewIntFromBigInt(c.amt)}}
			coin, slip, slipAmt, bonus, oracleAmt, err = pool.SwapOutAmtGivenIn(ctx, orc, &snap, tokens, outDenom, c.fee, acc, c.perpFactor, params)
		} else {
			tokens := sdk.Coins{sdk.Coin{Denom: outDenom, Amount: sdkmath.NewIntFromBigInt(c.amt)}}
			coin, slip, slipAmt, bonus, oracleAmt, err = pool.SwapInAmtGivenOut(ctx, orc, &snap, tokens, inDenom, c.fee, acc, c.perpFactor, params)
		}
		if err != nil {
			return err
		}
		amount = coin.Amount
		return nil
	})
	line := map[string]any{"t": "c03.case", "fn": c.fn, "stream": c.stream, "a0": c.a[0].arr(), "a1": c.a[1].arr(), "iIn": c.iIn,
		"amt": c.amt.String(), "fee": c.fee.BigInt().String(),
		"params": []string{c.exponent.BigInt().String(), c.multiplier.BigInt().String(), c.portion.BigInt().String(), c.threshold.BigInt().String(), c.perpFactor.BigInt().String()},
		"res":    kind}
	if kind == "ok" {
		line["amount"] = amount.String()
		line["slip"] = slip.BigInt().String()
		line["slipAmt"] = slipAmt.BigInt().String()
		line["bonus"] = bonus.BigInt().String()
		line["oracleAmt"] = oracleAmt.BigInt().String()
		if bonus.IsPositive() {
			stats["oracle.bonus"]++
		} else if bonus.IsNegative() {
			stats["oracle.wbf"]++
		}
		if slipAmt.IsPositive() {
			stats["oracle.slippage"]++
		}
	} else {
		line["err"] = text
	}
	out.Line(line)
	stats["fn."+c.fn]++
	stats["res."+c.fn+"."+kind]++
	stats["stream."+c.stream]++
}

func decFromRaw(v *big.Int) sdkmath.LegacyDec { return sdkmath.LegacyNewDecFromBigIntWithPrec(v, 18) }

func pick(r *rand.Rand, xs ...string) sdkmath.LegacyDec {
	return sdkmath.LegacyMustNewDecFromStr(xs[r.Intn(len(xs))])
}

func randOracleCase(r *rand.Rand) *oCase {
	c := &oCase{stream: "rand"}
	if r.Intn(3) == 0 {
		c.fn = "oin"
	} else {
		c.fn = "oout"
	}
	w := genWeights(r)
	if r.Intn(2) == 0 {
		w = weightPair{1, 1, "1:1"}
	}
	wa, wb := scaleWeights(r, w)
	// prices log-uniform 10^-9 .. 10^9 (raw 10^9 .. 10^27)
	p0 := logUniform(r, 9, 27)
	p1 := logUniform(r, 9, 27)
	if r.Intn(3) == 0 { // a stable pair: equal prices
		p1 = new(big.Int).Set(p0)
	}
	a0 := logUniform(r, 0, 30)
	var a1 *big.Int
	if r.Intn(3) != 0 {
		// value ratio near the target weights: a1 = a0*p0/p1 * (w1/w0) * jitter(0.1..10)
		a1 = new(big.Int).Mul(a0, p0)
		a1.Mul(a1, wb).Div(a1, wa).Div(a1, p1)
		j := int64(10 + r.Intn(991))
		a1.Mul(a1, big.NewInt(j)).Div(a1, big.NewInt(100))
		if a1.Sign() == 0 {
			a1 = big.NewInt(1)
		}
		if len(a1.String()) > 60 {
			a1 = logUniform(r, 0, 30)
		}
	} else {
		a1 = logUniform(r, 0, 30)
	}
	amts := []*big.Int{a0, a1}
	ws := []*big.Int{wa, wb}
	ps := []*big.Int{p0, p1}
	for i := 0; i < 2; i++ {
		a := oAsset{amount: amts[i], weight: ws[i], acc: big.NewInt(0), snap: new(big.Int).Set(amts[i]), price: decFromRaw(ps[i])}
		switch r.Intn(6) {
		case 0:
			a.ext = decFromRaw(new(big.Int).Add(pow10(17), randBelow(r, new(big.Int).Mul(pow10(18), big.NewInt(50)))))
		default:
			a.ext = pick(r, "1", "1", "1", "2", "5", "10", "100", "0.5", "1.5")
		}
		if r.Intn(8) == 0 { // accounted balance: book balance plus liabilities
			a.acc = new(big.Int).Add(amts[i], randBelow(r, new(big.Int).Add(amts[i], big.NewInt(1))))
		}
		if r.Intn(8) == 0 { // the snapshot differs from the live pool by up to 10 %
			d := new(big.Int).Div(amts[i], big.NewInt(10))
			a.snap = new(big.Int).Add(new(big.Int).Sub(amts[i], d), randBelow(r, new(big.Int).Add(new(big.Int).Mul(d, big.NewInt(2)), big.NewInt(1))))
		}
		c.a[i] = a
	}
	c.iIn = r.Intn(2)
	c.fee = genFee(r)
	c.exponent = pick(r, "2.5", "2.5", "2.5", "1", "2", "3.5", "0.5")
	c.multiplier = pick(r, "0.0005", "0.0005", "0.0005", "0", "0.002", "0.02", "0.3")
	c.portion = pick(r, "0.5", "0.5", "1", "0", "0.1")
	c.threshold = pick(r, "0.3", "0.3", "0.05", "0", "0.01")
	c.perpFactor = pick(r, "1", "1", "1", "0.5", "0")
	resIn := c.a[c.iIn].amount
	resOut := c.a[1-c.iIn].amount
	// smallest trade whose resized (amount / externalLiquidityRatio) counterpart is worth a few base
	// units of the other asset: below it the balancer leg returns "amount is zero"
	ext := c.a[1-c.iIn].ext.BigInt()
	pi, po := c.a[c.iIn].price.BigInt(), c.a[1-c.iIn].price.BigInt()
	floorAmt := big.NewInt(0)
	if r.Intn(4) != 0 {
		num, den := po, pi
		if c.fn == "oin" {
			num, den = pi, po
		}
		floorAmt = new(big.Int).Mul(big.NewInt(int64(2+r.Intn(20))), ext)
		floorAmt.Mul(floorAmt, num).Div(floorAmt, den).Div(floorAmt, pow10(18))
	}
	if c.fn == "oout" {
		switch r.Intn(5) {
		case 0:
			c.amt = logUniformBelow(r, new(big.Int).Mul(resIn, big.NewInt(10)))
		default:
			c.amt = logUniformBelow(r, resIn)
		}
		if floorAmt.Cmp(resIn) < 0 {
			c.amt.Add(c.amt, floorAmt)
		}
	} else {
		c.amt = logUniformBelow(r, new(big.Int).Sub(resOut, big.NewInt(1)))
		if floorAmt.Cmp(resOut) < 0 {
			c.amt.Add(c.amt, floorAmt)
			if c.amt.Cmp(resOut) >= 0 {
				c.amt = new(big.Int).Sub(resOut, big.NewInt(1))
			}
		}
		if r.Intn(40) == 0 {
			c.amt = new(big.Int).Sub(resOut, big.NewInt(int64(r.Intn(3))))
		}
		if c.amt.Sign() < 0 {
			c.amt = big.NewInt(0)
		}
	}
	return c
}

func boundaryOracleCases(r *rand.Rand) []*oCase {
	var cs []*oCase
	for i := 0; i < 150; i++ {
		c := randOracleCase(r)
		c.stream = "boundary"
		switch i % 15 {
		case 0:
			c.a[c.iIn].price = sdkmath.LegacyZeroDec()
		case 1:
			c.a[1-c.iIn].price = sdkmath.LegacyZeroDec()
		case 2:
			c.a[1-c.iIn].ext = sdkmath.LegacyZeroDec()
		case 3:
			c.amt = big.NewInt(0)
		case 4:
			c.amt = big.NewInt(1)
		case 5:
			c.fee = sdkmath.LegacyOneDec()
		case 6:
			c.a[0].amount = big.NewInt(0)
			c.a[0].snap = big.NewInt(0)
		case 7:
			c.a[1].weight = big.NewInt(0)
		case 8: // the whole out-reserve at the oracle price
			c.fn = "oin"
			c.amt = new(big.Int).Set(c.a[1-c.iIn].amount)
		case 9:
			c.a[0].amount = pow10(60)
			c.a[0].snap = pow10(60)
		case 10:
			c.multiplier = sdkmath.LegacyMustNewDecFromStr("100")
		case 11:
			c.a[1-c.iIn].ext = sdkmath.LegacyMustNewDecFromStr("0.000000000000000001")
		case 12:
			c.a[0].snap = big.NewInt(0)
			c.a[1].snap = big.NewInt(0)
		case 13: // a very lopsided pool: weight distance near its maximum
			c.a[1].amount = big.NewInt(1)
			c.a[1].snap = big.NewInt(1)
		}
		cs = append(cs, c)
	}
	return cs
}
