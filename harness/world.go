package harness

// World: the real elys application, driven by signed transactions through
// FinalizeBlock + Commit, with deterministic accounts, times and randomness.

import (
	"crypto/sha256"
	"encoding/binary"
	"fmt"
	"math/rand"
	"runtime/debug"
	"sort"
	"strings"
	"testing"
	"time"

	"cosmossdk.io/math"
	abci "github.com/cometbft/cometbft/abci/types"
	cmtproto "github.com/cometbft/cometbft/proto/tendermint/types"
	"github.com/cosmos/cosmos-sdk/crypto/keys/secp256k1"
	cryptotypes "github.com/cosmos/cosmos-sdk/crypto/types"
	simtestutil "github.com/cosmos/cosmos-sdk/testutil/sims"
	sdk "github.com/cosmos/cosmos-sdk/types"
	authtypes "github.com/cosmos/cosmos-sdk/x/auth/types"
	govtypes "github.com/cosmos/cosmos-sdk/x/gov/types"
	minttypes "github.com/cosmos/cosmos-sdk/x/mint/types"
	simapp "github.com/elys-network/elys/app"
)

type Acct struct {
	Name string
	Priv cryptotypes.PrivKey
	Addr sdk.AccAddress
}

type World struct {
	T      *testing.T
	App    *simapp.ElysApp
	Rng    *rand.Rand
	Accts  []*Acct
	byAddr map[string]*Acct
	Time   time.Time
	Gov    string
	// names for addresses (module accounts, pools) used when dumping state
	Names map[string]string
	// the denom USDC has on this chain (set by SeedStandardWith; "uusdc" unless the world variant says otherwise)
	USDC string
	// NoVaultBond: the standard world is seeded WITHOUT the two initial deposits into the lending vault (a chain on which nobody has
	// bonded yet: the stablestake share denom has no committed amount)
	NoVaultBond bool
}

type TxReq struct {
	Signer *Acct
	Msgs   []sdk.Msg
	Fee    sdk.Coins
	Gas    uint64
}

type TxRes struct {
	Code   uint32
	Log    string
	Events []abci.Event
	Gas    int64
}

type BlockRes struct {
	Height    int64
	Txs       []TxRes
	Events    []abci.Event // begin/end block events
	AppHash   []byte
	Err       error
	Panicked  bool
	PanicText string
}

func detKey(seed int64, i int) cryptotypes.PrivKey {
	var b [16]byte
	binary.BigEndian.PutUint64(b[:8], uint64(seed))
	binary.BigEndian.PutUint64(b[8:], uint64(i))
	h := sha256.Sum256(b[:])
	return &secp256k1.PrivKey{Key: h[:]}
}

var GenesisTime = time.Unix(1_790_000_000, 0).UTC()

// NewWorld boots the real app and commits genesis (height 1).
func NewWorld(t *testing.T, seed int64, nAccts int) *World {
	app := detInitApp(t, seed)
	w := &World{
		T: t, App: app, Rng: rand.New(rand.NewSource(seed)),
		byAddr: map[string]*Acct{}, Time: GenesisTime,
		Gov:   authtypes.NewModuleAddress(govtypes.ModuleName).String(),
		Names: map[string]string{},
	}
	for i := 0; i < nAccts; i++ {
		pk := detKey(seed, i)
		a := &Acct{Name: fmt.Sprintf("u%d", i), Priv: pk, Addr: sdk.AccAddress(pk.PubKey().Address())}
		w.Accts = append(w.Accts, a)
		w.byAddr[a.Addr.String()] = a
		w.Names[a.Addr.String()] = a.Name
	}
	return w
}

// Seed runs fn on an uncached context between two blocks; its writes are
// visible to the next block and are committed with it.
func (w *World) Seed(fn func(ctx sdk.Context)) {
	ctx := w.App.BaseApp.NewUncachedContext(false, w.header())
	fn(ctx)
}

// Ctx returns a read-only view (cache-wrapped, never written back) of the last committed state
// together with pending uncached writes.
func (w *World) Ctx() sdk.Context {
	ctx := w.App.BaseApp.NewUncachedContext(false, w.header())
	cctx, _ := ctx.CacheContext()
	return cctx
}

func (w *World) Fund(ctx sdk.Context, addr sdk.AccAddress, coins sdk.Coins) {
	if err := w.App.BankKeeper.MintCoins(ctx, minttypes.ModuleName, coins); err != nil {
		panic(err)
	}
	if err := w.App.BankKeeper.SendCoinsFromModuleToAccount(ctx, minttypes.ModuleName, addr, coins); err != nil {
		panic(err)
	}
}

func (w *World) signTx(accNum, seq uint64, r TxReq) ([]byte, error) {
	gas := r.Gas
	if gas == 0 {
		gas = 50_000_000
	}
	// memo randomness must be deterministic: dedicated rng derived from the world's
	mr := rand.New(rand.NewSource(w.Rng.Int63()))
	tx, err := simtestutil.GenSignedMockTx(mr, w.App.TxConfig(), r.Msgs, r.Fee, gas, "",
		[]uint64{accNum}, []uint64{seq}, r.Signer.Priv)
	if err != nil {
		return nil, err
	}
	return w.App.TxConfig().TxEncoder()(tx)
}

// SignTxs signs the txs against the state as of the previous commit plus the in-block sequence increments.
func (w *World) SignTxs(txs []TxReq) [][]byte {
	ctx := w.Ctx()
	seqBump := map[string]uint64{}
	var raw [][]byte
	for _, r := range txs {
		acc := w.App.AccountKeeper.GetAccount(ctx, r.Signer.Addr)
		if acc == nil {
			w.T.Fatalf("signer %s has no account", r.Signer.Name)
		}
		bump := seqBump[r.Signer.Addr.String()]
		bz, err := w.signTx(acc.GetAccountNumber(), acc.GetSequence()+bump, r)
		if err != nil {
			w.T.Fatalf("sign: %v", err)
		}
		seqBump[r.Signer.Addr.String()] = bump + 1
		raw = append(raw, bz)
	}
	return raw
}

// Block advances time by dt, delivers the txs and commits.
func (w *World) Block(dt time.Duration, txs []TxReq) (res BlockRes) {
	return w.Deliver(dt, w.SignTxs(txs))
}

// Deliver advances time by dt, delivers already-signed tx bytes through FinalizeBlock and commits.
func (w *World) Deliver(dt time.Duration, raw [][]byte) (res BlockRes) {
	w.Time = w.Time.Add(dt)
	height := w.App.LastBlockHeight() + 1
	res.Height = height
	func() {
		defer func() {
			if r := recover(); r != nil {
				res.Panicked = true
				res.PanicText = fmt.Sprint(r) + panicSite()
			}
		}()
		fb, err := w.App.FinalizeBlock(&abci.RequestFinalizeBlock{
			Height: height,
			Time:   w.Time,
			Txs:    raw,
			Hash:   w.App.LastCommitID().Hash,
		})
		if err != nil {
			res.Err = err
			return
		}
		for _, tr := range fb.TxResults {
			res.Txs = append(res.Txs, TxRes{Code: tr.Code, Log: tr.Log, Events: tr.Events, Gas: tr.GasUsed})
		}
		res.Events = fb.Events
		res.AppHash = fb.AppHash
		if _, err := w.App.Commit(); err != nil {
			res.Err = err
		}
	}()
	return res
}

// sortedKeys returns the keys of a string-keyed map in order (never range a map for output).
func sortedKeys[V any](m map[string]V) []string {
	ks := make([]string, 0, len(m))
	for k := range m {
		ks = append(ks, k)
	}
	sort.Strings(ks)
	return ks
}

func (w *World) header() cmtproto.Header {
	return cmtproto.Header{Height: w.App.LastBlockHeight() + 1, Time: w.Time}
}

func I(n int64) math.Int { return math.NewInt(n) }

func (w *World) Name(addr string) string {
	if n, ok := w.Names[addr]; ok {
		return n
	}
	return addr
}

// panicSite: the innermost frames of the panicking goroutine that lie in the repository's own modules (x/... or app/...), as
// " @ x/mod/keeper/file.go:123 < x/..." with the checkout prefix cut off, so that a block panic names its site.
func panicSite() string {
	var sites []string
	for _, ln := range strings.Split(string(debug.Stack()), "\n") {
		ln = strings.TrimSpace(ln)
		for _, mark := range []string{"/x/", "/app/"} {
			if i := strings.Index(ln, mark); i >= 0 && strings.Contains(ln, ".go:") && !strings.Contains(ln, "/pkg/mod/") && !strings.Contains(ln, "/harness/") {
				s := ln[i+1:]
				if j := strings.Index(s, " "); j >= 0 {
					s = s[:j]
				}
				sites = append(sites, s)
				break
			}
		}
		if len(sites) >= 3 {
			break
		}
	}
	if len(sites) == 0 {
		return ""
	}
	return " @ " + strings.Join(sites, " < ")
}
