package harness

// C14: op sequences (vest / claim / cancel / vest-now at explicit heights) against the real
// commitment message server, one account per sequence.

import (
	"fmt"
	"math/rand"
	"testing"

	"cosmossdk.io/math"
	sdk "github.com/cosmos/cosmos-sdk/types"
	commitmentkeeper "github.com/elys-network/elys/x/commitment/keeper"
	ctypes "github.com/elys-network/elys/x/commitment/types"
)

func init() { modes["c14"] = runC14 }

type c14After struct {
	Entries [][]string `json:"entries"`
	Eden    string     `json:"eden"`
	Paid    string     `json:"paid"`
}

// callTx runs fn on a branch of ctx and writes it back only when fn succeeds (per-tx atomicity);
// a panic is reported as "panic" (baseapp's runTx recovers panics and fails the tx).
func callTx(ctx sdk.Context, fn func(ctx sdk.Context) error) (res string, errText string) {
	cctx, write := ctx.CacheContext()
	defer func() {
		if r := recover(); r != nil {
			res, errText = "panic", fmt.Sprint(r)
		}
	}()
	if err := fn(cctx); err != nil {
		return "fail", err.Error()
	}
	write()
	return "ok", ""
}

func bigAmount(r *rand.Rand) math.Int {
	switch r.Intn(8) {
	case 6:
		// between 2^40 and 2^63: amounts that still fit a machine word while amount x elapsed blocks does not
		return math.NewInt(r.Int63n(1 << 62)).AddRaw(1 << uint(41+r.Intn(21)))
	case 7:
		// at the edges of the 64-bit range, and where amount x (a small number of blocks) crosses it
		edge := []int64{1<<63 - 1, 1 << 62, (1<<63 - 1) / 10, (1<<63-1)/40 + 1, (1<<63-1)/60 + 1, (1<<63 - 1) / 7}[r.Intn(6)]
		return math.NewInt(edge).SubRaw(int64(r.Intn(3)))
	case 0:
		return math.NewInt(int64(1 + r.Intn(20)))
	case 1:
		return math.NewInt(int64(1 + r.Intn(1000)))
	case 2:
		return math.NewInt(int64(1 + r.Intn(1_000_000_000)))
	case 3:
		v, _ := math.NewIntFromString("1000000000000000000000000")
		return v.AddRaw(int64(r.Intn(1000)))
	case 4:
		return math.NewInt(int64(100 * (1 + r.Intn(10))))
	default:
		return math.NewInt(r.Int63n(1 << 40)).AddRaw(1)
	}
}

func runC14(t *testing.T, seed int64, n int, out *Out) {
	w := NewWorld(t, seed, 0)
	r := rand.New(rand.NewSource(seed))
	app := w.App
	base := app.BaseApp.NewUncachedContext(false, w.header())
	ms := commitmentkeeper.NewMsgServerImpl(*app.CommitmentKeeper)
	numChoices := []int64{1, 2, 3, 7, 10, 10, 100, 1000, 1576800}
	maxVChoices := []int64{1, 2, 3, 8, 8, 10000}
	stats := map[string]int{}
	for seq := 0; seq < n; seq++ {
		addr := sdk.AccAddress(detKey(seed, 1_000_000+seq).PubKey().Address())
		ctx, _ := base.CacheContext() // each sequence on its own branch of genesis
		height := int64(10 + r.Intn(100))
		ctx = ctx.WithBlockHeight(height)
		eden := bigAmount(r).MulRaw(int64(1 + r.Intn(4)))
		// every fourth sequence vests a LIQUID token on its own schedule (MsgVestLiquid: deposited into, and paid back out of, the
		// commitment module) instead of Eden: same schedule arithmetic, same model - the funds available to vest are the wallet's
		// balance, the payout denom is the token itself; no cancel / vest-now (they only exist for Eden)
		liquid := seq%4 == 3
		payDenom := "uelys"
		paidTotal := math.ZeroInt()
		if liquid {
			payDenom = "uusdc"
			w.Fund(ctx, addr, sdk.NewCoins(sdk.NewCoin("uusdc", eden)))
			e, _ := app.AssetprofileKeeper.GetEntry(ctx, "uusdc")
			e.BaseDenom, e.Denom, e.CommitEnabled, e.WithdrawEnabled = "uusdc", "uusdc", true, true
			app.AssetprofileKeeper.SetEntry(ctx, e)
		} else {
			c := app.CommitmentKeeper.GetCommitments(ctx, addr)
			c.AddClaimed(sdk.NewCoin("ueden", eden))
			app.CommitmentKeeper.SetCommitments(ctx, c)
		}
		num := numChoices[r.Intn(len(numChoices))]
		maxV := maxVChoices[r.Intn(len(maxVChoices))]
		setInfo := func(num, maxV int64) {
			p := app.CommitmentKeeper.GetParams(ctx)
			p.VestingInfos = []ctypes.VestingInfo{{BaseDenom: "ueden", VestingDenom: "uelys", NumBlocks: num, VestNowFactor: math.NewInt(int64(1 + r.Intn(120))), NumMaxVestings: maxV},
				{BaseDenom: "uusdc", VestingDenom: "uusdc", NumBlocks: num, VestNowFactor: math.NewInt(90), NumMaxVestings: maxV}}
			p.EnableVestNow = r.Intn(4) != 0
			app.CommitmentKeeper.SetParams(ctx, p)
		}
		setInfo(num, maxV)
		out.Line(map[string]any{"t": "c14.begin", "id": seq, "eden": eden.String(), "maxv": maxV, "liquid": liquid})
		vestedNow := math.ZeroInt() // liquid: the amount a successful vest op just took out of the wallet
		observe := func(balBefore math.Int) c14After {
			c := app.CommitmentKeeper.GetCommitments(ctx, addr)
			a := c14After{Entries: [][]string{}, Eden: c.Claimed.AmountOf("ueden").String()}
			if liquid {
				paid := app.BankKeeper.GetBalance(ctx, addr, payDenom).Amount.Sub(balBefore).Add(vestedNow)
				paidTotal = paidTotal.Add(paid)
				a.Eden = app.BankKeeper.GetBalance(ctx, addr, payDenom).Amount.Sub(paidTotal).String()
				for _, v := range c.VestingTokens {
					a.Entries = append(a.Entries, []string{v.TotalAmount.String(), v.ClaimedAmount.String(), fmt.Sprint(v.StartBlock), fmt.Sprint(v.NumBlocks)})
				}
				a.Paid = paid.String()
				vestedNow = math.ZeroInt()
				return a
			}
			for _, v := range c.VestingTokens {
				a.Entries = append(a.Entries, []string{v.TotalAmount.String(), v.ClaimedAmount.String(), fmt.Sprint(v.StartBlock), fmt.Sprint(v.NumBlocks)})
			}
			a.Paid = app.BankKeeper.GetBalance(ctx, addr, "uelys").Amount.Sub(balBefore).String()
			return a
		}
		remaining := func() math.Int {
			c := app.CommitmentKeeper.GetCommitments(ctx, addr)
			s := math.ZeroInt()
			for _, v := range c.VestingTokens {
				s = s.Add(v.TotalAmount.Sub(v.ClaimedAmount))
			}
			return s
		}
		nops := 3 + r.Intn(14)
		maxEnd := height
		for k := 0; k <= nops; k++ {
			final := k == nops
			// time passes
			switch r.Intn(4) {
			case 0:
			case 1:
				height += 1
			case 2:
				height += int64(r.Intn(int(min64(num, 50)) + 1))
			case 3:
				height += int64(r.Intn(int(min64(num, 100000))+1)) / 2
			}
			if final {
				height = maxEnd + int64(r.Intn(3))
			}
			ctx = ctx.WithBlockHeight(height)
			if r.Intn(6) == 0 {
				// a restart of the chain from its exported state, for the commitment module: ExportGenesis (on a height-only header, as the
				// node's export makes it) then InitGenesis of exactly that export. Every vesting entry must come through it as it is —
				// running, elapsed and not yet claimed, or partly cancelled.
				if ok, _ := genesisRoundTrip(w, ctx, "commitment"); ok {
					stats["gentrip/commitment"]++
				}
			}
			bal := app.BankKeeper.GetBalance(ctx, addr, payDenom).Amount
			line := map[string]any{"t": "c14.op", "id": seq, "h": height}
			var res string
			choice := r.Intn(10)
			if liquid && choice >= 7 {
				choice -= 7 // vest or claim only
			}
			if liquid && choice < 3 && !bal.Sub(paidTotal).IsPositive() {
				choice = 4 // nothing left to vest (what the wallet holds was paid out): claim instead
			}
			if final {
				choice = 4
			}
			switch {
			case choice < 3: // vest
				claimed := app.CommitmentKeeper.GetCommitments(ctx, addr).Claimed.AmountOf("ueden")
				if liquid {
					claimed = bal.Sub(paidTotal)
				}
				var amt math.Int
				switch r.Intn(4) {
				case 0:
					amt = claimed
				case 1:
					amt = claimed.QuoRaw(int64(2 + r.Intn(5)))
				case 2:
					amt = bigAmount(r)
				default:
					amt = claimed.QuoRaw(int64(1 + r.Intn(3))).AddRaw(int64(r.Intn(3)) - 1)
				}
				if !amt.IsPositive() {
					amt = math.OneInt()
				}
				if liquid {
					// never more than the not-yet-vested funds: what was paid out earlier is the owner's to keep, not part of the model's bucket
					if amt.GT(claimed) && r.Intn(3) != 0 {
						amt = claimed
					}
					if !amt.IsPositive() {
						amt = math.OneInt()
					}
					if amt.GT(claimed) {
						// the wallet also holds earlier payouts, which the real deposit would accept: not the model's concern
						amt = math.MaxInt(claimed, math.OneInt())
					}
					lmsg := &ctypes.MsgVestLiquid{Creator: addr.String(), Amount: amt, Denom: "uusdc"}
					res, _ = callTx(ctx, func(c sdk.Context) error { _, err := ms.VestLiquid(c, lmsg); return err })
					if res == "ok" {
						vestedNow = amt
					}
				} else {
					msg := &ctypes.MsgVest{Creator: addr.String(), Amount: amt, Denom: "ueden"}
					res, _ = callTx(ctx, func(c sdk.Context) error { _, err := ms.Vest(c, msg); return err })
				}
				line["op"], line["amt"], line["num"] = "vest", amt.String(), num
				if res == "ok" && height+num > maxEnd {
					maxEnd = height + num
				}
			case choice < 7: // claim
				msg := &ctypes.MsgClaimVesting{Sender: addr.String()}
				res, _ = callTx(ctx, func(c sdk.Context) error { _, err := ms.ClaimVesting(c, msg); return err })
				line["op"] = "claim"
				if final {
					line["final"] = true
				}
			case choice < 9: // cancel
				rem := remaining()
				var amt math.Int
				switch r.Intn(5) {
				case 0:
					amt = rem
				case 1:
					amt = rem.AddRaw(1)
				case 2:
					amt = bigAmount(r)
				default:
					amt = rem.QuoRaw(int64(2 + r.Intn(4)))
				}
				if !amt.IsPositive() {
					amt = math.OneInt()
				}
				msg := &ctypes.MsgCancelVest{Creator: addr.String(), Amount: amt, Denom: "ueden"}
				res, _ = callTx(ctx, func(c sdk.Context) error { _, err := ms.CancelVest(c, msg); return err })
				line["op"], line["amt"] = "cancel", amt.String()
			default: // vest-now, or a governance change of the schedule length for later vests
				if r.Intn(2) == 0 {
					num = numChoices[r.Intn(len(numChoices))]
					setInfo(num, maxV)
				}
				p := app.CommitmentKeeper.GetParams(ctx)
				claimed := app.CommitmentKeeper.GetCommitments(ctx, addr).Claimed.AmountOf("ueden")
				amt := claimed.QuoRaw(int64(1 + r.Intn(5))).AddRaw(int64(r.Intn(2)))
				if !amt.IsPositive() {
					amt = math.OneInt()
				}
				msg := &ctypes.MsgVestNow{Creator: addr.String(), Amount: amt, Denom: "ueden"}
				res, _ = callTx(ctx, func(c sdk.Context) error { _, err := ms.VestNow(c, msg); return err })
				line["op"], line["amt"], line["factor"], line["enabled"] = "vestnow", amt.String(), p.VestingInfos[0].VestNowFactor.String(), p.EnableVestNow
			}
			line["res"] = res
			line["after"] = observe(bal)
			stats[fmt.Sprint(line["op"], "/", res)]++
			out.Line(line)
		}
	}
	out.Line(map[string]any{"t": "stats", "dist": stats})
}

func min64(a, b int64) int64 {
	if a < b {
		return a
	}
	return b
}
