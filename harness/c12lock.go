package harness

// C12 (lock clause): op sequences on the real x/commitment types.Commitments value: AddCommittedTokens / DeductFromCommitted
// with timestamps drawn from a SMALL set so that several lock-ups share an unlock time, amounts incl. ties, liquidation flag.

import (
	"math/rand"
	"testing"

	"cosmossdk.io/math"
	ctypes "github.com/elys-network/elys/x/commitment/types"
)

func init() { modes["c12lock"] = runC12Lock }

func runC12Lock(t *testing.T, seed int64, n int, out *Out) {
	r := rand.New(rand.NewSource(seed))
	stats := map[string]int{}
	times := []int64{1000, 1000, 2000, 3600, 3600, 3601, 7200}
	for seq := 0; seq < n; seq++ {
		c := ctypes.Commitments{Creator: "cosmos1xxxxxxxxxxxxxxxxxxxxxxxxxxxxxxxxxxxxxxx", CommittedTokens: []*ctypes.CommittedTokens{}}
		denom := "amm/pool/3"
		now := int64(500)
		out.Line(J{"t": "c12l.begin", "id": seq})
		for k := 0; k < 4+r.Intn(12); k++ {
			now += []int64{0, 0, 100, 500, 1100, 2000}[r.Intn(6)]
			line := J{"t": "c12l.op", "id": seq, "now": now}
			if r.Intn(2) == 0 {
				amt := math.NewInt([]int64{1, 50, 100, 100, 1000}[r.Intn(5)])
				unlock := int64(0)
				if r.Intn(4) != 0 {
					unlock = now + []int64{0, 1, 3600, 3600, 3600, 7200}[r.Intn(6)]
					if r.Intn(3) == 0 {
						unlock = times[r.Intn(len(times))] + now/1000*1000
					}
				}
				c.AddCommittedTokens(denom, amt, uint64(unlock))
				line["op"], line["amt"], line["unlock"], line["res"] = "add", amt.String(), unlock, "ok"
			} else {
				have := c.GetCommittedAmountForDenom(denom)
				var amt math.Int
				switch r.Intn(5) {
				case 0:
					amt = have
				case 1:
					amt = have.AddRaw(1)
				case 2:
					amt = math.NewInt(100)
				default:
					amt = have.QuoRaw(int64(2 + r.Intn(3)))
				}
				if !amt.IsPositive() {
					amt = math.OneInt()
				}
				liq := r.Intn(6) == 0
				// the real function mutates in place even when it fails; the keeper discards the value then: work on a copy
				cp := ctypes.Commitments{Creator: c.Creator}
				for _, tk := range c.CommittedTokens {
					nt := &ctypes.CommittedTokens{Denom: tk.Denom, Amount: tk.Amount, Lockups: append([]ctypes.Lockup{}, tk.Lockups...)}
					cp.CommittedTokens = append(cp.CommittedTokens, nt)
				}
				err := cp.DeductFromCommitted(denom, amt, uint64(now), liq)
				res := "ok"
				if err != nil {
					res = "fail"
				} else {
					c = cp
				}
				line["op"], line["amt"], line["liq"], line["res"] = "deduct", amt.String(), liq, res
			}
			lk := [][]string{}
			for _, l := range c.GetCommittedLockUpsForDenom(denom) {
				lk = append(lk, []string{l.Amount.String(), math.NewIntFromUint64(l.UnlockTimestamp).String()})
			}
			line["after"] = J{"committed": c.GetCommittedAmountForDenom(denom).String(), "lockups": lk}
			stats[line["op"].(string)+"/"+line["res"].(string)]++
			out.Line(line)
		}
	}
	out.Line(J{"t": "stats", "dist": stats})
}
