package harness

// Genesis round trip of one module on the live state: ExportGenesis, then InitGenesis of exactly that export, as a restart from
// an exported genesis does for every module. For a module whose export is complete and whose import is a plain restore this
// is the identity on its store.

import (
	"encoding/json"
	"fmt"
	"math/rand"
	"os"
	"sort"
	"testing"
	"time"

	cmtproto "github.com/cometbft/cometbft/proto/tendermint/types"
	"github.com/cosmos/cosmos-sdk/codec"
	sdk "github.com/cosmos/cosmos-sdk/types"
)

func init() { modes["gentrip"] = runGenTrip }

type genExporter interface {
	ExportGenesis(sdk.Context, codec.JSONCodec) json.RawMessage
}
type genImporter interface {
	InitGenesis(sdk.Context, codec.JSONCodec, json.RawMessage)
}

// genesisRoundTrip runs export+import of the named module on ctx; false when the module does not have both halves or panics.
func genesisRoundTrip(w *World, ctx sdk.Context, name string) (ok bool, why string) {
	m, found := w.App.ModuleManager().Modules[name]
	if !found {
		return false, "no such module"
	}
	ex, ok1 := m.(genExporter)
	im, ok2 := m.(genImporter)
	if !ok1 || !ok2 {
		return false, "no plain genesis import/export"
	}
	defer func() {
		if r := recover(); r != nil {
			ok, why = false, fmt.Sprint("panic: ", r)
		}
	}()
	// the node's own export (app/export.go) runs ExportGenesis on a context whose header carries the HEIGHT ONLY — no block time,
	// no proposer —, and the restarted chain imports in its first block: whatever an exporter derives from the block time it derives
	// from the zero time
	exportCtx := ctx.WithBlockHeader(cmtproto.Header{Height: ctx.BlockHeight()})
	bz := ex.ExportGenesis(exportCtx, w.App.AppCodec())
	// a restarted chain imports into an EMPTY store: what the export does not carry is gone. The module's own store is emptied before
	// the import for the modules whose round trip is the identity on the unchanged tree (gentrip exploration with VERIF_GENTRIP_CLEAN=all)
	if clean := os.Getenv("VERIF_GENTRIP_CLEAN"); clean == "all" || (clean != "none" && cleanRestartModules[name]) {
		if sk, ok := w.App.GetKVStoreKeys()[name]; ok {
			st := ctx.KVStore(sk)
			var keys [][]byte
			it := st.Iterator(nil, nil)
			for ; it.Valid(); it.Next() {
				keys = append(keys, append([]byte{}, it.Key()...))
			}
			it.Close()
			for _, k := range keys {
				st.Delete(k)
			}
		}
	}
	im.InitGenesis(ctx, w.App.AppCodec(), bz)
	return true, ""
}

// cleanRestartModules: modules whose export carries everything their store holds (measured: mode gentrip with VERIF_GENTRIP_CLEAN=all
// reports no lost or changed key for them on the unchanged tree)
var cleanRestartModules = map[string]bool{
	"amm": true, "commitment": true, "masterchef": true, "leveragelp": true, "tradeshield": true, "assetprofile": true, "oracle": true,
	"burner": true, "tokenomics": true, "parameter": true, "estaking": true, "tier": true, "poolaccounted": true,
	// NOT perpetual: its export leaves out the interest-rate and funding-rate history (keys 0x07 / 0x08), and not stablestake (not in the
	// histories' list): see DESIGN 0.4 "noted"
}

// mode gentrip (exploration, not registered): after a history, which modules' round trip is the identity on every store?
func runGenTrip(t *testing.T, seed int64, n int, out *Out) {
	hseed := seed
	wv := histWorldVariant{AtomPrice: "5", Sweep: "default", Inflation: os.Getenv("VERIF_INFLATION") != "", ExtRewards: true}
	w, std := histWorld(t, hseed, wv)
	h := &Hist{w: w, std: std, r: rand.New(rand.NewSource(hseed))}
	stats := map[string]int{}
	for b := 0; b < n; b++ {
		var txs []*histTx
		if b%5 == 0 {
			txs = append(txs, h.priceTx())
		}
		if tx := h.genTx(); tx != nil {
			txs = append(txs, tx)
		}
		var reqs []TxReq
		for _, x := range txs {
			reqs = append(reqs, x.req)
		}
		w.Block(5*time.Second, reqs)
	}
	names := []string{}
	for k := range w.App.ModuleManager().Modules {
		names = append(names, k)
	}
	sort.Strings(names)
	for _, name := range names {
		ctx := w.Ctx()
		before := c17Hashes(ctx, w)
		ok, why := genesisRoundTrip(w, ctx, name)
		line := J{"t": "gentrip.module", "module": name, "ran": ok, "why": why}
		if ok {
			ch := c17Diff(c17Hashes(ctx, w), before)
			line["changedStores"] = ch
			// which keys: compare with a fresh view of the same committed state
			ref := w.Ctx()
			keys := w.App.GetKVStoreKeys()
			det := []string{}
			for _, sn := range ch {
				a := map[string]string{}
				it := ref.KVStore(keys[sn]).Iterator(nil, nil)
				for ; it.Valid(); it.Next() {
					a[string(it.Key())] = string(it.Value())
				}
				it.Close()
				it = ctx.KVStore(keys[sn]).Iterator(nil, nil)
				seen := map[string]bool{}
				for ; it.Valid(); it.Next() {
					k := string(it.Key())
					seen[k] = true
					if v, ok := a[k]; !ok {
						det = append(det, fmt.Sprintf("%s: +key %x (%d bytes)", sn, k[:min(len(k), 12)], len(it.Value())))
					} else if v != string(it.Value()) {
						det = append(det, fmt.Sprintf("%s: ~key %x (%d -> %d bytes)", sn, k[:min(len(k), 12)], len(v), len(it.Value())))
					}
				}
				it.Close()
				for k := range a {
					if !seen[k] {
						det = append(det, fmt.Sprintf("%s: -key %x", sn, k[:min(len(k), 12)]))
					}
				}
			}
			sort.Strings(det)
			if len(det) > 12 {
				det = det[:12]
			}
			line["detail"] = det
		}
		out.Line(line)
		stats["x"]++
	}
	out.Line(J{"t": "stats", "dist": stats})
}
