package harness

// C05 differential mode: all-asset join and pro-rata exit of NON-oracle pools on the real
// x/amm/types functions.
//   fn "exit"      : Pool.ExitPool (CalcExitPool + processExitPool), tokenOutDenom = ""
//   fn "calcexit"  : types.CalcExitPool
//   fn "join"      : Pool.JoinPool with one coin per pool asset (CalcJoinPoolNoSwapShares + IncreaseLiquidity)
//   fn "calcjoin"  : Pool.CalcJoinPoolNoSwapShares
//   fn "needed"    : Pool.GetMaximalNoSwapLPAmount
//   fn "noswap"    : GetMaximalNoSwapLPAmount(shares) then JoinPool(needed)   (keeper JoinPoolNoSwap's arithmetic)
//   fn "roundtrip" : JoinPool(deposit) then ExitPool(minted shares) on the updated pool
// Lists are aligned with the pool's assets (denom order); "0" = no coin of that denom.

import (
	"fmt"
	"math/big"
	"math/rand"
	"os"
	"testing"

	sdkmath "cosmossdk.io/math"
	sdk "github.com/cosmos/cosmos-sdk/types"
	ammtypes "github.com/elys-network/elys/x/amm/types"
)

func init() { modes["c05"] = runC05 }

type lpCase struct {
	fn     string
	stream string
	bals   []*big.Int
	shares *big.Int   // total shares
	x      *big.Int   // exiting shares / wanted shares
	deps   []*big.Int // deposits (aligned; 0 = absent)
}

func lpDenom(i int) string { return fmt.Sprintf("uasset%d", i) }

func mkLpPool(c *lpCase) ammtypes.Pool {
	assets := make([]ammtypes.PoolAsset, len(c.bals))
	tw := sdkmath.ZeroInt()
	for i, b := range c.bals {
		w := sdkmath.NewInt(int64(1+i) * ammtypes.GuaranteedWeightPrecision)
		assets[i] = ammtypes.PoolAsset{Token: sdk.Coin{Denom: lpDenom(i), Amount: sdkmath.NewIntFromBigInt(b)}, Weight: w, ExternalLiquidityRatio: sdkmath.LegacyOneDec()}
		tw = tw.Add(w)
	}
	return ammtypes.Pool{
		PoolId:      1,
		Address:     ammtypes.NewPoolAddress(1).String(),
		PoolParams:  ammtypes.PoolParams{SwapFee: sdkmath.LegacyZeroDec(), UseOracle: false, FeeDenom: lpDenom(0)},
		TotalShares: sdk.Coin{Denom: "amm/pool/1", Amount: sdkmath.NewIntFromBigInt(c.shares)},
		PoolAssets:  assets,
		TotalWeight: tw,
	}
}

func alignedCoins(n int, coins sdk.Coins) []string {
	res := make([]string, n)
	for i := 0; i < n; i++ {
		res[i] = coins.AmountOfNoDenomValidation(lpDenom(i)).String()
	}
	return res
}

func poolBals(p *ammtypes.Pool) []string {
	res := make([]string, len(p.PoolAssets))
	for i, a := range p.PoolAssets {
		res[i] = a.Token.Amount.String()
	}
	return res
}

func strs(v []*big.Int) []string {
	res := make([]string, len(v))
	for i, x := range v {
		res[i] = x.String()
	}
	return res
}

func depCoins(deps []*big.Int) sdk.Coins {
	cs := sdk.Coins{}
	for i, d := range deps {
		if d.Sign() != 0 {
			cs = append(cs, sdk.Coin{Denom: lpDenom(i), Amount: sdkmath.NewIntFromBigInt(d)})
		}
	}
	return cs
}

func runLpCase(ctx sdk.Context, c *lpCase, out *Out, stats map[string]int) {
	pool := mkLpPool(c)
	n := len(c.bals)
	line := map[string]any{"t": "c05.case", "fn": c.fn, "stream": c.stream, "bals": strs(c.bals), "S": c.shares.String()}
	params := ammtypes.DefaultParams()
	var kind, text string
	switch c.fn {
	case "exit", "calcexit":
		line["x"] = c.x.String()
		var coins sdk.Coins
		kind, text = guard(func() error {
			var err error
			if c.fn == "exit" {
				coins, err = pool.ExitPool(ctx, nil, nil, sdkmath.NewIntFromBigInt(c.x), "", params)
			} else {
				coins, _, err = ammtypes.CalcExitPool(ctx, nil, pool, nil, sdkmath.NewIntFromBigInt(c.x), "", params)
			}
			return err
		})
		if kind == "ok" {
			line["outs"] = alignedCoins(n, coins)
			line["newBals"] = poolBals(&pool)
			line["newS"] = pool.TotalShares.Amount.String()
		}
	case "join", "calcjoin":
		line["deps"] = strs(c.deps)
		var joined sdk.Coins
		var minted sdkmath.Int
		kind, text = guard(func() error {
			var err error
			if c.fn == "join" {
				joined, minted, _, _, err = pool.JoinPool(ctx, &pool, nil, nil, depCoins(c.deps), params)
			} else {
				minted, joined, err = pool.CalcJoinPoolNoSwapShares(depCoins(c.deps))
			}
			return err
		})
		if kind == "ok" {
			line["joined"] = alignedCoins(n, joined)
			line["minted"] = minted.String()
			line["newBals"] = poolBals(&pool)
			line["newS"] = pool.TotalShares.Amount.String()
		}
	case "needed":
		line["x"] = c.x.String()
		var needed sdk.Coins
		kind, text = guard(func() error {
			var err error
			needed, err = pool.GetMaximalNoSwapLPAmount(sdkmath.NewIntFromBigInt(c.x))
			return err
		})
		if kind == "ok" {
			line["needed"] = alignedCoins(n, needed)
		}
	case "noswap":
		line["x"] = c.x.String()
		var needed, joined sdk.Coins
		var minted sdkmath.Int
		kind, text = guard(func() error {
			var err error
			needed, err = pool.GetMaximalNoSwapLPAmount(sdkmath.NewIntFromBigInt(c.x))
			if err != nil {
				return err
			}
			if len(needed) == 1 { // the keeper would take the single-asset path; not this check's subject
				return fmt.Errorf("single asset")
			}
			joined, minted, _, _, err = pool.JoinPool(ctx, &pool, nil, nil, needed, params)
			return err
		})
		if kind == "ok" {
			line["needed"] = alignedCoins(n, needed)
			line["joined"] = alignedCoins(n, joined)
			line["minted"] = minted.String()
			line["newBals"] = poolBals(&pool)
			line["newS"] = pool.TotalShares.Amount.String()
		}
	case "roundtrip":
		line["deps"] = strs(c.deps)
		var joined, outs sdk.Coins
		var minted sdkmath.Int
		step := "join"
		kind, text = guard(func() error {
			var err error
			joined, minted, _, _, err = pool.JoinPool(ctx, &pool, nil, nil, depCoins(c.deps), params)
			if err != nil {
				return err
			}
			step = "exit"
			outs, err = pool.ExitPool(ctx, nil, nil, minted, "", params)
			return err
		})
		line["step"] = step
		if kind == "ok" {
			line["joined"] = alignedCoins(n, joined)
			line["minted"] = minted.String()
			line["outs"] = alignedCoins(n, outs)
			line["newBals"] = poolBals(&pool)
			line["newS"] = pool.TotalShares.Amount.String()
		} else if step == "exit" {
			line["joined"] = alignedCoins(n, joined)
			line["minted"] = minted.String()
		}
	}
	line["res"] = kind
	if kind != "ok" {
		line["err"] = text
	}
	out.Line(line)
	stats["fn."+c.fn]++
	stats["res."+c.fn+"."+kind]++
	stats["stream."+c.stream]++
	stats["assets."+fmt.Sprint(n)]++
	stats["shares.1e"+bucket(c.shares)]++
}

func randLpCase(r *rand.Rand) *lpCase {
	c := &lpCase{stream: "rand"}
	n := 2
	switch r.Intn(6) {
	case 0:
		n = 3
	case 1:
		n = 4
	}
	lopsided := r.Intn(3) == 0
	base := logUniform(r, 0, 30)
	for i := 0; i < n; i++ {
		if lopsided || i == 0 {
			c.bals = append(c.bals, logUniform(r, 0, 30))
		} else { // same order of magnitude as the first
			c.bals = append(c.bals, new(big.Int).Add(randBelow(r, new(big.Int).Mul(base, big.NewInt(3))), big.NewInt(1)))
		}
	}
	switch r.Intn(4) {
	case 0: // the initial supply of a fresh pool: 100 * 10^18
		c.shares = new(big.Int).Mul(pow10(18), big.NewInt(100))
	default:
		c.shares = logUniform(r, 0, 30)
	}
	fns := []string{"exit", "exit", "calcexit", "join", "join", "calcjoin", "needed", "noswap", "roundtrip", "roundtrip"}
	c.fn = fns[r.Intn(len(fns))]
	switch c.fn {
	case "exit", "calcexit", "needed", "noswap":
		// share requests 1 … S − 1 (a few at and above S)
		c.x = logUniformBelow(r, new(big.Int).Sub(c.shares, big.NewInt(1)))
		switch r.Intn(30) {
		case 0:
			c.x = new(big.Int).Set(c.shares)
		case 1:
			c.x = new(big.Int).Sub(c.shares, big.NewInt(1))
		case 2:
			c.x = new(big.Int).Add(c.shares, big.NewInt(1))
		case 3:
			c.x = big.NewInt(1)
		}
		if c.fn == "needed" || c.fn == "noswap" {
			if r.Intn(4) == 0 { // up to 10 x the pool
				c.x = logUniformBelow(r, new(big.Int).Mul(c.shares, big.NewInt(10)))
			}
		}
	default:
		// deposits from 1 unit to 10 x the pool; mostly near the pool ratio, sometimes arbitrary
		ratioNum := logUniformBelow(r, pow10(12))
		ratioDen := logUniformBelow(r, pow10(12))
		if r.Intn(3) == 0 {
			ratioNum = big.NewInt(int64(1 + r.Intn(10)))
			ratioDen = big.NewInt(int64(1 + r.Intn(10)))
		}
		arbitrary := r.Intn(4) == 0
		for i := 0; i < n; i++ {
			var d *big.Int
			if arbitrary {
				d = logUniformBelow(r, new(big.Int).Mul(c.bals[i], big.NewInt(10)))
			} else {
				d = new(big.Int).Mul(c.bals[i], ratioNum)
				d.Div(d, ratioDen)
				d.Add(d, big.NewInt(int64(r.Intn(3))))
			}
			if d.Sign() <= 0 {
				d = big.NewInt(1)
			}
			c.deps = append(c.deps, d)
		}
	}
	return c
}

func boundaryLpCases(r *rand.Rand, grid bool) []*lpCase {
	var cs []*lpCase
	one := big.NewInt(1)
	sizes := []*big.Int{one, big.NewInt(2), big.NewInt(3), big.NewInt(1000), pow10(6), pow10(18), new(big.Int).Add(pow10(18), one), pow10(30)}
	shares := []*big.Int{one, big.NewInt(2), big.NewInt(3), pow10(6), new(big.Int).Mul(pow10(18), big.NewInt(100)), pow10(30)}
	for _, b0 := range sizes {
		if !grid { // the deterministic lattice is emitted by one shard only (seed % 1000 == 0)
			break
		}
		for _, b1 := range sizes {
			for _, S := range shares {
				bals := []*big.Int{b0, b1}
				// exits: 1, S−1, S, S+1, S/2, S/3
				for _, x := range []*big.Int{one, new(big.Int).Sub(S, one), S, new(big.Int).Add(S, one), new(big.Int).Rsh(S, 1), new(big.Int).Div(S, big.NewInt(3)), big.NewInt(0), big.NewInt(-1)} {
					cs = append(cs, &lpCase{fn: "exit", stream: "boundary", bals: bals, shares: S, x: x})
					if x.Sign() > 0 {
						cs = append(cs, &lpCase{fn: "noswap", stream: "boundary", bals: bals, shares: S, x: x})
					}
				}
				// joins: dust, equal to balances, balances ± 1, 10 x
				for k, deps := range [][]*big.Int{{one, one}, {b0, b1}, {new(big.Int).Add(b0, one), b1}, {b0, new(big.Int).Add(b1, one)},
					{new(big.Int).Mul(b0, big.NewInt(10)), new(big.Int).Mul(b1, big.NewInt(10))}, {one, b1}, {b0, one}} {
					fn := "roundtrip"
					if k%3 == 2 {
						fn = "join"
					}
					cs = append(cs, &lpCase{fn: fn, stream: "boundary", bals: bals, shares: S, deps: deps})
				}
			}
		}
	}
	// zero balances, zero shares, missing / too few coins, huge values
	z := big.NewInt(0)
	cs = append(cs,
		&lpCase{fn: "exit", stream: "boundary", bals: []*big.Int{z, pow10(6)}, shares: pow10(6), x: pow10(3)},
		&lpCase{fn: "exit", stream: "boundary", bals: []*big.Int{pow10(6), pow10(6)}, shares: z, x: big.NewInt(-5)},
		&lpCase{fn: "exit", stream: "boundary", bals: []*big.Int{pow10(6), pow10(6)}, shares: z, x: z},
		&lpCase{fn: "join", stream: "boundary", bals: []*big.Int{z, pow10(6)}, shares: pow10(6), deps: []*big.Int{pow10(3), pow10(3)}},
		&lpCase{fn: "join", stream: "boundary", bals: []*big.Int{pow10(6), pow10(6)}, shares: z, deps: []*big.Int{pow10(3), pow10(3)}},
		&lpCase{fn: "join", stream: "boundary", bals: []*big.Int{pow10(6), pow10(6), pow10(6)}, shares: pow10(6), deps: []*big.Int{pow10(3), z, pow10(3)}},
		&lpCase{fn: "calcjoin", stream: "boundary", bals: []*big.Int{pow10(6), pow10(6), pow10(6)}, shares: pow10(6), deps: []*big.Int{pow10(3), z, pow10(3)}},
		&lpCase{fn: "needed", stream: "boundary", bals: []*big.Int{pow10(6), pow10(6)}, shares: z, x: pow10(3)},
		&lpCase{fn: "needed", stream: "boundary", bals: []*big.Int{pow10(6), pow10(6)}, shares: pow10(6), x: z},
		&lpCase{fn: "join", stream: "boundary", bals: []*big.Int{one, one}, shares: pow10(6), deps: []*big.Int{pow10(18), pow10(18)}},
		&lpCase{fn: "join", stream: "boundary", bals: []*big.Int{one, one}, shares: pow10(6), deps: []*big.Int{new(big.Int).Sub(pow10(18), one), pow10(18)}},
		&lpCase{fn: "join", stream: "boundary", bals: []*big.Int{one, one}, shares: pow10(6), deps: []*big.Int{pow10(19), pow10(19)}},
	)
	for _, e := range []int{50, 58, 59, 70, 76, 77} {
		cs = append(cs,
			&lpCase{fn: "exit", stream: "boundary", bals: []*big.Int{pow10(e), pow10(e)}, shares: pow10(20), x: pow10(19)},
			&lpCase{fn: "join", stream: "boundary", bals: []*big.Int{pow10(e), pow10(6)}, shares: pow10(e), deps: []*big.Int{pow10(e), pow10(6)}},
			&lpCase{fn: "noswap", stream: "boundary", bals: []*big.Int{pow10(e), pow10(e)}, shares: pow10(20), x: pow10(19)},
		)
	}
	// seeded: thirds and ties (amounts that make x*10^18/S or dep*10^18/B end in ...5 / repeat)
	for i := 0; i < 300; i++ {
		S := new(big.Int).Mul(big.NewInt(int64(1+r.Intn(9))), pow10(r.Intn(25)))
		bals := []*big.Int{logUniform(r, 0, 30), logUniform(r, 0, 30)}
		x := new(big.Int).Div(S, big.NewInt(int64(2+r.Intn(7))))
		if x.Sign() > 0 {
			cs = append(cs, &lpCase{fn: "exit", stream: "boundary", bals: bals, shares: S, x: x},
				&lpCase{fn: "noswap", stream: "boundary", bals: bals, shares: S, x: x})
		}
		deps := []*big.Int{new(big.Int).Add(new(big.Int).Div(bals[0], big.NewInt(int64(2+r.Intn(7)))), one), new(big.Int).Add(new(big.Int).Div(bals[1], big.NewInt(int64(2+r.Intn(7)))), one)}
		cs = append(cs, &lpCase{fn: "roundtrip", stream: "boundary", bals: bals, shares: S, deps: deps})
	}
	return cs
}

func runC05(t *testing.T, seed int64, n int, out *Out) {
	r := rand.New(rand.NewSource(seed))
	ctx := pureCtx()
	stats := map[string]int{}
	boundaryOnly := os.Getenv("VERIF_BOUNDARY") == "1"
	for _, c := range boundaryLpCases(r, seed%1000 == 0 || boundaryOnly) {
		runLpCase(ctx, c, out, stats)
	}
	for _, c := range boundaryOracleLp(r) {
		runOracleLp(ctx, c, out, stats)
	}
	if boundaryOnly {
		for i := 0; i < n/300+1; i++ {
			for _, c := range boundaryLpCases(r, false) {
				runLpCase(ctx, c, out, stats)
			}
			for _, c := range boundaryOracleLp(r) {
				runOracleLp(ctx, c, out, stats)
			}
		}
	} else {
		for i := 0; i < n; i++ {
			switch i % 5 {
			case 1:
				runSingleJoin(ctx, randSingleJoin(r), out, stats)
			case 3:
				runOracleLp(ctx, randOracleLp(r), out, stats)
			default:
				runLpCase(ctx, randLpCase(r), out, stats)
			}
		}
	}
	out.Line(map[string]any{"t": "stats", "dist": stats})
}

// ---- single-asset join of a non-oracle pool (Pow based) ----

type sjCase struct {
	stream string
	bals   []*big.Int
	shares *big.Int
	i      int
	amt    *big.Int
	fee    sdkmath.LegacyDec
	snap   int // 0: the block snapshot handed to JoinPool is the pool itself; k>0: the pool as it was before earlier operations of the same block
}

// sjSnapshot builds the per-block snapshot argument: the same pool with reserves and share supply as they might have been
// at the start of the block (before same-block swaps, joins or exits). The shares minted must not depend on it.
func sjSnapshot(c *sjCase) ammtypes.Pool {
	f := [][3]int64{{1, 1, 1}, {1, 2, 1}, {2, 1, 1}, {9, 10, 2}, {11, 10, 3}, {1, 1, 2}}[c.snap%6] // reserve of i: num/den; shares: *k
	lc := &lpCase{shares: new(big.Int).Mul(c.shares, big.NewInt(f[2]))}
	for k, b := range c.bals {
		nb := new(big.Int).Set(b)
		if k == c.i || c.snap%2 == 1 {
			nb.Mul(nb, big.NewInt(f[0]))
			nb.Quo(nb, big.NewInt(f[1]))
		}
		lc.bals = append(lc.bals, nb)
	}
	p := mkLpPool(lc)
	p.PoolParams.SwapFee = c.fee
	return p
}

func lpWeight(i int) int64 { return int64(1 + i) }

func runSingleJoin(ctx sdk.Context, c *sjCase, out *Out, stats map[string]int) {
	lc := &lpCase{bals: c.bals, shares: c.shares}
	pool := mkLpPool(lc)
	pool.PoolParams.SwapFee = c.fee
	n := len(c.bals)
	ws := make([]string, n)
	totalW := int64(0)
	for k := 0; k < n; k++ {
		ws[k] = pool.PoolAssets[k].Weight.String()
		totalW += lpWeight(k)
	}
	var minted sdkmath.Int
	var slip sdkmath.LegacyDec
	kind, text := guard(func() error {
		var err error
		snapshot := &pool
		if c.snap > 0 {
			sp := sjSnapshot(c)
			snapshot = &sp
		}
		_, minted, slip, _, err = pool.JoinPool(ctx, snapshot, nil, accStub{}, sdk.Coins{sdk.Coin{Denom: lpDenom(c.i), Amount: sdkmath.NewIntFromBigInt(c.amt)}}, ammtypes.DefaultParams())
		return err
	})
	line := map[string]any{"t": "c05.case", "fn": "sjoin", "stream": c.stream, "bals": strs(c.bals), "ws": ws, "totalW": pool.TotalWeight.String(),
		"S": c.shares.String(), "i": c.i, "amt": c.amt.String(), "fee": c.fee.BigInt().String(), "res": kind, "snapshotVariant": c.snap}
	stats["sjoin/snapshot-differs-from-pool/"+map[bool]string{false: "no", true: "yes"}[c.snap > 0]]++
	if kind == "ok" {
		line["minted"] = minted.String()
		line["slip"] = slip.BigInt().String()
		line["newBals"] = poolBals(&pool)
		line["newS"] = pool.TotalShares.Amount.String()
	} else {
		line["err"] = text
	}
	// reference: S * ((1 + a'/B)^(w/W) - 1), a' = a * (1 - (1 - w/W) * fee)
	B := c.bals[c.i]
	if B.Sign() > 0 && c.amt.Sign() > 0 && c.shares.Sign() > 0 && c.fee.IsPositive() != c.fee.IsNegative() || (B.Sign() > 0 && c.amt.Sign() > 0 && c.shares.Sign() > 0 && c.fee.IsZero()) {
		w, W := lpWeight(c.i), totalW
		one := bf(big.NewInt(1))
		nw := new(big.Float).SetPrec(refPrec).Quo(bf(big.NewInt(w)), bf(big.NewInt(W)))
		fr := new(big.Float).SetPrec(refPrec).Sub(one, nw)
		fr.Mul(fr, decToFloat(c.fee))
		fr.Sub(one, fr)
		if fr.Sign() > 0 {
			a := new(big.Float).SetPrec(refPrec).Mul(bf(c.amt), fr)
			y := new(big.Float).SetPrec(refPrec).Quo(new(big.Float).SetPrec(refPrec).Add(bf(B), a), bf(B))
			if y.MantExp(nil) < 200 {
				yw := bfPowRat(y, w, W)
				yw.Sub(yw, one).Mul(yw, bf(c.shares))
				line["ref"] = rawFloor(yw)
			}
		}
	}
	out.Line(line)
	stats["fn.sjoin"]++
	stats["res.sjoin."+kind]++
	stats["stream."+c.stream]++
}

func randSingleJoin(r *rand.Rand) *sjCase {
	c := &sjCase{stream: "rand"}
	if r.Intn(2) == 0 {
		c.snap = 1 + r.Intn(11)
	}
	n := 2 + r.Intn(3)
	for k := 0; k < n; k++ {
		c.bals = append(c.bals, logUniform(r, 0, 30))
	}
	if r.Intn(3) == 0 {
		c.shares = new(big.Int).Mul(pow10(18), big.NewInt(100))
	} else {
		c.shares = logUniform(r, 0, 30)
	}
	c.i = r.Intn(n)
	c.fee = genFee(r)
	switch r.Intn(5) {
	case 0: // up to 10 x the balance
		c.amt = logUniformBelow(r, new(big.Int).Mul(c.bals[c.i], big.NewInt(10)))
	default:
		c.amt = logUniformBelow(r, c.bals[c.i])
	}
	return c
}

// ---- oracle pool: single-sided join and exit ----

type olCase struct {
	fn                                       string // ojoin | oexit
	stream                                   string
	a                                        [2]oAsset
	shares                                   *big.Int
	i                                        int
	amt                                      *big.Int // deposit (ojoin) or exiting shares (oexit)
	exponent, multiplier, portion, threshold sdkmath.LegacyDec
}

func runOracleLp(ctx sdk.Context, c *olCase, out *Out, stats map[string]int) {
	oc := &oCase{a: c.a, fee: sdkmath.LegacyZeroDec()}
	pool := mkOraclePool(oc, false)
	pool.TotalShares = sdk.Coin{Denom: "amm/pool/1", Amount: sdkmath.NewIntFromBigInt(c.shares)}
	denoms := []string{denomX, denomY}
	acc := accStub{denoms: denoms, amts: []sdkmath.Int{sdkmath.NewIntFromBigInt(c.a[0].acc), sdkmath.NewIntFromBigInt(c.a[1].acc)}}
	orc := oracleStub{denoms: denoms, prices: []sdkmath.LegacyDec{c.a[0].price, c.a[1].price}}
	params := ammtypes.DefaultParams()
	params.WeightBreakingFeeExponent = c.exponent
	params.WeightBreakingFeeMultiplier = c.multiplier
	params.WeightBreakingFeePortion = c.portion
	params.ThresholdWeightDifference = c.threshold
	line := map[string]any{"t": "c05.case", "fn": c.fn, "stream": c.stream, "a0": c.a[0].arr(), "a1": c.a[1].arr(), "S": c.shares.String(), "i": c.i,
		"amt":    c.amt.String(),
		"params": []string{c.exponent.BigInt().String(), c.multiplier.BigInt().String(), c.portion.BigInt().String(), c.threshold.BigInt().String(), "1000000000000000000"}}
	var kind, text string
	if c.fn == "ojoin" {
		var minted sdkmath.Int
		var bonus sdkmath.LegacyDec
		kind, text = guard(func() error {
			var err error
			_, minted, _, bonus, err = pool.JoinPool(ctx, &pool, orc, acc, sdk.Coins{sdk.Coin{Denom: denoms[c.i], Amount: sdkmath.NewIntFromBigInt(c.amt)}}, params)
			return err
		})
		if kind == "ok" {
			line["minted"] = minted.String()
			line["bonus"] = bonus.BigInt().String()
		}
	} else {
		var coins sdk.Coins
		var bonus sdkmath.LegacyDec
		kind, text = guard(func() error {
			var err error
			// CalcExitPool for the bonus, ExitPool (on the same, still unchanged pool) for the state change
			_, bonus, err = ammtypes.CalcExitPool(ctx, orc, pool, acc, sdkmath.NewIntFromBigInt(c.amt), denoms[c.i], params)
			if err != nil {
				return err
			}
			coins, err = pool.ExitPool(ctx, orc, acc, sdkmath.NewIntFromBigInt(c.amt), denoms[c.i], params)
			return err
		})
		if kind == "ok" {
			line["out"] = coins.AmountOfNoDenomValidation(denoms[c.i]).String()
			line["bonus"] = bonus.BigInt().String()
		}
	}
	line["res"] = kind
	if kind == "ok" {
		line["newBals"] = poolBals(&pool)
		line["newS"] = pool.TotalShares.Amount.String()
	} else {
		line["err"] = text
	}
	out.Line(line)
	stats["fn."+c.fn]++
	stats["res."+c.fn+"."+kind]++
	stats["stream."+c.stream]++
}

func randOracleLp(r *rand.Rand) *olCase {
	oc := randOracleCase(r)
	c := &olCase{stream: "rand", a: oc.a, exponent: oc.exponent, multiplier: oc.multiplier, portion: oc.portion, threshold: oc.threshold}
	if r.Intn(2) == 0 {
		c.fn = "ojoin"
	} else {
		c.fn = "oexit"
	}
	if r.Intn(3) == 0 {
		c.shares = new(big.Int).Mul(pow10(18), big.NewInt(100))
	} else {
		c.shares = logUniform(r, 0, 30)
	}
	c.i = r.Intn(2)
	if c.fn == "ojoin" {
		switch r.Intn(5) {
		case 0:
			c.amt = logUniformBelow(r, new(big.Int).Mul(c.a[c.i].amount, big.NewInt(10)))
		default:
			c.amt = logUniformBelow(r, c.a[c.i].amount)
		}
	} else {
		c.amt = logUniformBelow(r, new(big.Int).Sub(c.shares, big.NewInt(1)))
		if r.Intn(3) != 0 { // keep most exits small enough for the single asset to cover them
			c.amt = logUniformBelow(r, new(big.Int).Add(new(big.Int).Div(c.shares, big.NewInt(4)), big.NewInt(1)))
		}
		switch r.Intn(40) {
		case 0:
			c.amt = new(big.Int).Set(c.shares)
		case 1:
			c.amt = new(big.Int).Sub(c.shares, big.NewInt(1))
		}
	}
	return c
}

func boundaryOracleLp(r *rand.Rand) []*olCase {
	var cs []*olCase
	one := sdkmath.LegacyOneDec()
	mk := func(b0, b1, acc0, acc1 int64, S int64, i int, x int64, mult string) *olCase {
		w := big.NewInt(1)
		return &olCase{fn: "oexit", stream: "boundary", shares: big.NewInt(S), i: i, amt: big.NewInt(x),
			a: [2]oAsset{{amount: big.NewInt(b0), weight: w, acc: big.NewInt(acc0), snap: big.NewInt(b0), ext: one, price: one},
				{amount: big.NewInt(b1), weight: w, acc: big.NewInt(acc1), snap: big.NewInt(b1), ext: one, price: one}},
			exponent: sdkmath.LegacyMustNewDecFromStr("2.5"), multiplier: sdkmath.LegacyMustNewDecFromStr(mult), portion: sdkmath.LegacyMustNewDecFromStr("0.5"), threshold: sdkmath.LegacyMustNewDecFromStr("0.3")}
	}
	// payout exactly equal to / one below / one above the book balance (accounted balances double the TVL)
	cs = append(cs, mk(1000, 1000, 2000, 2000, 1000, 0, 250, "0"), mk(1000, 1000, 2000, 2000, 4000, 0, 999, "0"), mk(1000, 1000, 2000, 2000, 4000, 0, 1001, "0"),
		mk(1000, 1000, 0, 0, 1000, 1, 500, "0"), mk(1000, 1000, 0, 0, 1000, 1, 499, "0"), mk(1000, 1000, 0, 0, 1000, 1, 501, "0"),
		mk(1000, 1000, 0, 0, 1000, 1, 500, "0.0005"), mk(1000, 1000, 0, 0, 1000, 0, 1, "0.0005"), mk(1000, 1000, 0, 0, 1000, 0, 999, "0.0005"),
		mk(1000, 1000, 0, 0, 1000, 0, 1000, "0"), mk(1000, 1000, 0, 0, 1000, 0, 0, "0"), mk(1000, 1000, 0, 0, 0, 0, -1, "0"))
	for i := 0; i < 120; i++ {
		c := randOracleLp(r)
		c.stream = "boundary"
		switch i % 8 {
		case 0:
			c.a[c.i].price = sdkmath.LegacyZeroDec()
		case 1:
			c.a[1-c.i].price = sdkmath.LegacyZeroDec()
		case 2:
			c.amt = big.NewInt(1)
		case 3:
			c.amt = big.NewInt(0)
		case 4: // exit worth exactly the whole book balance of the asset when prices and weights are equal
			c.fn = "oexit"
			c.a[1].price = c.a[0].price
			c.a[1].amount = new(big.Int).Set(c.a[0].amount)
			c.a[0].acc, c.a[1].acc = big.NewInt(0), big.NewInt(0)
			c.multiplier = sdkmath.LegacyZeroDec()
			c.shares = new(big.Int).Mul(big.NewInt(2), c.a[0].amount)
			c.amt = new(big.Int).Set(c.a[0].amount)
		case 5:
			c.a[0].amount = big.NewInt(0)
		case 6:
			c.shares = big.NewInt(0)
		}
		cs = append(cs, c)
	}
	return cs
}
