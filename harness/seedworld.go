package harness

// The standard world used by history mode: asset profiles, oracle infos + an active feeder,
// funded accounts, four amm pools (50/50 balancer uatom/uusdc, 80/20 balancer uelys/uusdc, two
// oracle pools uatom/uusdc sharing the trading asset, both with leveragelp + perpetual +
// accounted pool enabled), bonded stablestake liquidity, module params.

import (
	"sort"
	"strings"

	"cosmossdk.io/math"
	sdk "github.com/cosmos/cosmos-sdk/types"
	authtypes "github.com/cosmos/cosmos-sdk/x/auth/types"
	ammkeeper "github.com/elys-network/elys/x/amm/keeper"
	ammtypes "github.com/elys-network/elys/x/amm/types"
	aptypes "github.com/elys-network/elys/x/assetprofile/types"
	ctypes "github.com/elys-network/elys/x/commitment/types"
	lpkeeper "github.com/elys-network/elys/x/leveragelp/keeper"
	lptypes "github.com/elys-network/elys/x/leveragelp/types"
	mctypes "github.com/elys-network/elys/x/masterchef/types"
	oracletypes "github.com/elys-network/elys/x/oracle/types"
	ptypes "github.com/elys-network/elys/x/parameter/types"
	perptypes "github.com/elys-network/elys/x/perpetual/types"
	sskeeper "github.com/elys-network/elys/x/stablestake/keeper"
	sstypes "github.com/elys-network/elys/x/stablestake/types"
	tstypes "github.com/elys-network/elys/x/tradeshield/types"
)

type PoolRef struct {
	Id       uint64
	Addr     string
	Oracle   bool
	Perp     bool
	Denoms   []string
	Weights  []string // the assets' weights, in the order of Denoms
	ShareDen string
	Treasury string
}

type Std struct {
	Pools   []PoolRef
	Feeder  *Acct
	Prices  map[string]math.LegacyDec // display -> price
	Display map[string]string         // denom -> display
	USDC    string                    // the denom USDC has on this chain ("uusdc", or an ibc/… voucher as in production)
}

// ibcUSDC: a voucher denom for the world variant in which the base currency's on-chain denom differs from its base denom.
const ibcUSDC = "ibc/2180E84E20F5679FCC760D8C165B60F42065DEF7F46A72B447CFF1B7DC6C0A65"

var D = math.LegacyMustNewDecFromStr

func (w *World) usdc() string {
	if w.USDC == "" {
		return "uusdc"
	}
	return w.USDC
}

func (w *World) SetPrice(ctx sdk.Context, display string, price math.LegacyDec, provider string) {
	w.App.OracleKeeper.SetPrice(ctx, oracletypes.Price{
		Asset: display, Price: price, Source: "elys", Provider: provider,
		Timestamp: uint64(ctx.BlockTime().Unix()), BlockHeight: uint64(ctx.BlockHeight()),
	})
}

func (w *World) createPool(ctx sdk.Context, creator sdk.AccAddress, oracle bool, fee math.LegacyDec, d2 string, a1, a2 math.Int, w1, w2 int64) PoolRef {
	assets := []ammtypes.PoolAsset{
		{Token: sdk.NewCoin(w.usdc(), a1), Weight: math.NewInt(w1), ExternalLiquidityRatio: math.LegacyNewDec(2)},
		{Token: sdk.NewCoin(d2, a2), Weight: math.NewInt(w2), ExternalLiquidityRatio: math.LegacyNewDec(2)},
	}
	sort.Slice(assets, func(i, j int) bool { return strings.Compare(assets[i].Token.Denom, assets[j].Token.Denom) <= 0 })
	msg := &ammtypes.MsgCreatePool{Sender: creator.String(), PoolParams: ammtypes.PoolParams{UseOracle: oracle, SwapFee: fee, FeeDenom: w.usdc()}, PoolAssets: assets}
	id, err := w.App.AmmKeeper.CreatePool(ctx, msg)
	if err != nil {
		panic(err)
	}
	p, _ := w.App.AmmKeeper.GetPool(ctx, id)
	ref := PoolRef{Id: id, Addr: p.Address, Oracle: oracle, ShareDen: ammtypes.GetPoolShareDenom(id), Treasury: p.RebalanceTreasury}
	for _, a := range p.PoolAssets {
		ref.Denoms = append(ref.Denoms, a.Token.Denom)
		ref.Weights = append(ref.Weights, a.Weight.String())
	}
	w.Names[p.Address] = "pool" + itoa(id)
	w.Names[p.RebalanceTreasury] = "treasury" + itoa(id)
	return ref
}

func itoa(u uint64) string { return math.NewIntFromUint64(u).String() }

// SeedStandard builds the standard world; it must be called right after NewWorld.
func (w *World) SeedStandard() *Std { return w.SeedStandardAt(D("5")) }

// SeedStandardAt: the same world with another ATOM price (pool compositions follow the price, so every pool starts
// balanced by value). A price below 1 makes one base unit of uatom worth less than one of uusdc: conversions of dust
// then truncate to zero.
func (w *World) SeedStandardAt(atomPrice math.LegacyDec) *Std {
	return w.SeedStandardWith(atomPrice, "uusdc")
}

// SeedStandardWith: the same world with USDC living under `usdc` on the chain (asset-profile entry BaseDenom "uusdc", Denom usdc).
func (w *World) SeedStandardWith(atomPrice math.LegacyDec, usdc string) *Std {
	w.USDC = usdc
	std := &Std{Prices: map[string]math.LegacyDec{"USDC": D("1"), "ATOM": atomPrice, "ELYS": D("3")},
		Display: map[string]string{usdc: "USDC", "uatom": "ATOM", "uelys": "ELYS"}, USDC: usdc}
	app := w.App
	for _, m := range []string{"commitment", "amm", "masterchef", "stablestake", "leveragelp", "perpetual", "tradeshield",
		"fee_collector", "distribution", "estaking", "burner", "tokenomics", "mint", "gov", "bonded_tokens_pool", "not_bonded_tokens_pool",
		"cons_redistribute", "cons_to_send_to_provider"} {
		w.Names[authtypes.NewModuleAddress(m).String()] = "mod:" + m
	}
	w.Seed(func(ctx sdk.Context) {
		for _, e := range []aptypes.Entry{
			{BaseDenom: "uusdc", Denom: usdc, Decimals: 6, DisplayName: "USDC", CommitEnabled: true, WithdrawEnabled: true},
			{BaseDenom: "uatom", Denom: "uatom", Decimals: 6, DisplayName: "ATOM", CommitEnabled: true, WithdrawEnabled: true},
			{BaseDenom: "uelys", Denom: "uelys", Decimals: 6, DisplayName: "ELYS", CommitEnabled: true, WithdrawEnabled: true},
			{BaseDenom: "ueden", Denom: "ueden", Decimals: 6, DisplayName: "EDEN", CommitEnabled: true, WithdrawEnabled: true},
			{BaseDenom: "uedenb", Denom: "uedenb", Decimals: 6, DisplayName: "EDENB", CommitEnabled: true, WithdrawEnabled: true},
		} {
			app.AssetprofileKeeper.SetEntry(ctx, e)
		}
		std.Feeder = w.Accts[len(w.Accts)-1]
		app.OracleKeeper.SetPriceFeeder(ctx, oracletypes.PriceFeeder{Feeder: std.Feeder.Addr.String(), IsActive: true})
		for _, dn := range []string{usdc, "uatom", "uelys"} {
			app.OracleKeeper.SetAssetInfo(ctx, oracletypes.AssetInfo{Denom: dn, Display: std.Display[dn], Decimal: 6, BandTicker: std.Display[dn], ElysTicker: std.Display[dn]})
			w.SetPrice(ctx, std.Display[dn], std.Prices[std.Display[dn]], std.Feeder.Addr.String())
		}
		op := app.OracleKeeper.GetParams(ctx)
		op.PriceExpiryTime = 86400
		op.LifeTimeInBlocks = 1_000_000
		app.OracleKeeper.SetParams(ctx, op)

		big := math.NewInt(1_000_000_000_000_000)
		for _, a := range w.Accts {
			w.Fund(ctx, a.Addr, sdk.NewCoins(sdk.NewCoin(usdc, big), sdk.NewCoin("uatom", big), sdk.NewCoin("uelys", big)))
		}
		// module params
		_ = app.StakingKeeper // staking params come from genesis (bond denom uelys)
		app.ParameterKeeper.SetParams(ctx, ptypes.DefaultGenesis().Params)
		app.MasterchefKeeper.SetParams(ctx, mctypes.DefaultGenesis().Params)
		w.Names[mctypes.DefaultGenesis().Params.ProtocolRevenueAddress] = "protocolRevenue"
		app.StablestakeKeeper.SetParams(ctx, sstypes.DefaultGenesis().Params)
		lpp := lptypes.DefaultGenesis().Params
		_ = app.LeveragelpKeeper.SetParams(ctx, &lpp)
		pp := perptypes.DefaultGenesis().Params
		pp.BorrowInterestRateMin = D("0.12")
		_ = app.PerpetualKeeper.SetParams(ctx, &pp)
		tsp := tstypes.DefaultGenesis().Params
		_ = app.TradeshieldKeeper.SetParams(ctx, &tsp)
		cp := app.CommitmentKeeper.GetParams(ctx)
		cp.VestingInfos = []ctypes.VestingInfo{{BaseDenom: "ueden", VestingDenom: "uelys", NumBlocks: 40, VestNowFactor: math.NewInt(90), NumMaxVestings: 8},
			{BaseDenom: "uatom", VestingDenom: "uatom", NumBlocks: 60, VestNowFactor: math.NewInt(90), NumMaxVestings: 8}}
		app.CommitmentKeeper.SetParams(ctx, cp)
		ap := app.AmmKeeper.GetParams(ctx)
		ap.BaseAssets = []string{usdc}
		ap.PoolCreationFee = math.ZeroInt()
		app.AmmKeeper.SetParams(ctx, ap)

		creator := w.Accts[0].Addr
		m := func(x int64) math.Int { return math.NewInt(x) }
		atomFor := func(usdc int64) math.Int { return math.LegacyNewDec(usdc).Quo(atomPrice).TruncateInt() }
		std.Pools = append(std.Pools, w.createPool(ctx, creator, false, D("0.003"), "uatom", m(500_000_000_000), atomFor(500_000_000_000), 10, 10))
		std.Pools = append(std.Pools, w.createPool(ctx, creator, false, D("0.002"), "uelys", m(60_000_000_000), m(80_000_000_000), 20, 80))
		std.Pools = append(std.Pools, w.createPool(ctx, creator, true, D("0.001"), "uatom", m(1_000_000_000_000), atomFor(1_000_000_000_000), 10, 10))
		std.Pools = append(std.Pools, w.createPool(ctx, creator, true, D("0.0"), "uatom", m(300_000_000_000), atomFor(300_000_000_000), 10, 10))
		// stablestake liquidity (through the real message server so every hook fires)
		ss := sskeeper.NewMsgServerImpl(*app.StablestakeKeeper)
		for _, a := range w.Accts[:2] {
			if w.NoVaultBond {
				break
			}
			if _, err := ss.Bond(ctx, &sstypes.MsgBond{Creator: a.Addr.String(), Amount: m(400_000_000_000)}); err != nil {
				panic(err)
			}
		}
		// leveragelp + perpetual + accounted pool on the two oracle pools
		lps := lpkeeper.NewMsgServerImpl(*app.LeveragelpKeeper)
		for i := 2; i < 4; i++ {
			if _, err := lps.AddPool(ctx, &lptypes.MsgAddPool{Authority: w.Gov, Pool: lptypes.AddPool{AmmPoolId: std.Pools[i].Id, LeverageMax: D("10")}}); err != nil {
				panic(err)
			}
			ammPool, _ := app.AmmKeeper.GetPool(ctx, std.Pools[i].Id)
			app.PerpetualKeeper.SetPool(ctx, perptypes.NewPool(ammPool))
			std.Pools[i].Perp = true
		}
		_ = ammkeeper.NewMsgServerImpl
	})
	return std
}
