// go2lean: a small translator from the Go source of ${VERIF_REPO:-/repo} to Lean 4. It regenerates
// lean/ElysModel/Gen/Arith.lean: one Lean definition per function listed in spec.go, produced from the function's typed AST
// (go/packages + go/types). The theorems `gen_*` in lean/ElysModel/Props/*.lean state that the hand-written model equals the
// regenerated definition for ALL arguments, so the properties proved about the model are proved about what the source says now.
//
// Subset translated (anything else makes the translator fail, which `./check` reports as a broken proof obligation):
//   - statements: `x := e`, `x = e`, `var x T`, `v, err := f(..)` followed by `if err != nil { return .., err }`,
//     `if c { .. } [else ..]` (bodies that return, or that only assign), `return ..`;
//   - expressions over cosmossdk.io/math LegacyDec and Int (method calls, constructors), machine integers, booleans;
//   - every LegacyDec operation that asserts the 2^256 range or can divide by zero becomes a step of the `Except Err` monad
//     (`addC subC mulC quoC quoIntC mulIntC ceilC` of ElysModel/Amm/Base.lean); math.Int `Quo` by zero is `iquoC`;
//   - anything rooted at a parameter of struct / pointer / interface type with no computable meaning (`ctx.BlockHeight()`,
//     `mtp.TakeProfitPrice`, `params.WeightBreakingFeeMultiplier`) is a FREE TERM: it becomes a parameter of the Lean
//     definition, named after its source text, in order of first occurrence (after the scalar parameters);
//   - calls of other listed functions are calls of their Lean definitions; calls listed in `externs` (loops: `Pow`) are calls
//     of the hand-written Lean definition named there.
//
// Not modelled (stated in the evidence as assumptions): the 256-bit overflow panic of math.Int Add/Sub/Mul, wrap-around of
// int64/uint64 arithmetic, in-place mutation by the *Mut methods beyond the value they return (receivers are not re-read).
//
// Run from the harness directory (shares harness/go.mod):  go run ./cmd/go2lean -out ../lean/ElysModel/Gen/Arith.lean
package main

import (
	"bytes"
	"flag"
	"fmt"
	"go/ast"
	"go/constant"
	"go/printer"
	"go/token"
	"go/types"
	"hash/fnv"
	"math/big"
	"os"
	"sort"
	"strings"

	"golang.org/x/tools/go/packages"
)

const elys = "github.com/elys-network/elys"

func fail(s string) {
	fmt.Fprintln(os.Stderr, "go2lean: "+s)
	os.Exit(1)
}

type kind int

const (
	kDec  kind = iota
	kInt       // cosmossdk.io/math.Int
	kMach      // int, int64, uint64 ...
	kBool
	kErr
	kOpaque
	kString
	kCoins    // sdk.Coins, one denom: its amount
	kDecCoins // sdk.DecCoins, one denom: its raw LegacyDec amount
)

func kindOf(t types.Type) kind {
	if t == nil {
		return kOpaque
	}
	s := t.String()
	switch s {
	case "cosmossdk.io/math.LegacyDec":
		return kDec
	case "cosmossdk.io/math.Int":
		return kInt
	case "error":
		return kErr
	case "github.com/cosmos/cosmos-sdk/types.Coins":
		return kCoins
	case "github.com/cosmos/cosmos-sdk/types.DecCoins":
		return kDecCoins
	}
	if b, ok := t.Underlying().(*types.Basic); ok {
		if b.Info()&types.IsInteger != 0 {
			return kMach
		}
		if b.Info()&types.IsBoolean != 0 {
			return kBool
		}
		if b.Info()&types.IsString != 0 {
			return kString
		}
	}
	return kOpaque
}

var leanKeywords = map[string]bool{"from": true, "at": true, "end": true, "in": true, "then": true, "else": true, "do": true, "fun": true, "let": true,
	"have": true, "show": true, "by": true, "with": true, "match": true, "open": true, "instance": true, "def": true, "theorem": true, "where": true,
	"if": true, "for": true, "return": true, "P": true, "pure": true, "exp": true, "pow": true}

func ident(s string) string {
	var b strings.Builder
	for _, r := range s {
		switch {
		case r >= 'a' && r <= 'z', r >= 'A' && r <= 'Z', r >= '0' && r <= '9', r == '_':
			b.WriteRune(r)
		case r == '.':
			b.WriteRune('_')
		case r == '#':
			b.WriteString("_r")
		}
	}
	out := b.String()
	if leanKeywords[out] || out == "" {
		out += "_"
	}
	if out[0] >= '0' && out[0] <= '9' {
		out = "v" + out
	}
	return out
}

type fn struct {
	spec        Spec
	pkg         *packages.Package
	decl        *ast.FuncDecl
	free        []string          // free terms, in order of first occurrence (Lean names)
	freeT       map[string]string // Lean name -> source text
	freeK       map[string]kind
	freeN       map[string]string   // Lean name -> normalised definition (parameters by position, local aliases expanded)
	alias       map[string]ast.Expr // opaque local variable -> the expression it was defined as
	parIx       map[string]int      // parameter / receiver name -> position
	calls       map[string]bool     // listed functions called (Lean names)
	skipped     []string            // calls made for an effect the model does not carry
	prefixLen   int                 // Prefix mode: how many top-level statements were translated
	windowFirst int                 // Prefix mode with a window: index of the first translated statement
	rangeVars   map[string]bool     // loop-body mode: the loop's own variables (an arbitrary element: opaque whatever their type)
	preLocals   []string            // window mode: scalar locals computed before the window that it reads (parameters of the definition)
	// fieldSet: a field of an opaque variable the function has assigned (`position.PositionHealth = h`): later reads read the assigned value
	fieldSet map[string]string
	// assignedNames: every identifier the function body assigns (`x = ..`, `x := ..`, `x++`): a scalar parameter that is NOT among them keeps
	// its value, so a read of the outside world may depend on it (`pool.SwapOutAmtGivenIn(ctx, .., swapFee, ..)`)
	assignedNames map[string]bool
	tmp           int
}

type tr struct {
	all map[string]*fn // key: pkgpath + "." + name
	f   *fn
	// guardIf: the `if` statement a window ends with (spec.go guardIf): the definition returns whether its condition holds
	guardIf *ast.IfStmt
}

// assignedTwice: the body assigns the name in more than one statement
func (f *fn) assignedTwice(name string) bool {
	n := 0
	ast.Inspect(f.decl.Body, func(x ast.Node) bool {
		if a, ok := x.(*ast.AssignStmt); ok {
			for _, l := range a.Lhs {
				if id, ok := l.(*ast.Ident); ok && id.Name == name {
					n++
				}
			}
		}
		return true
	})
	return n > 1
}

func (t *tr) text(n ast.Node) string {
	var b bytes.Buffer
	_ = printer.Fprint(&b, t.f.pkg.Fset, n)
	return strings.Join(strings.Fields(b.String()), " ")
}

type translErr struct{ msg string }

func (t *tr) bad(n ast.Node, why string) {
	pos := t.f.pkg.Fset.Position(n.Pos())
	panic(translErr{fmt.Sprintf("%s: %s:%d: cannot translate (%s): %s", t.f.spec.Func, pos.Filename, pos.Line, why, t.text(n))})
}

func (t *tr) typeOf(e ast.Expr) types.Type { return t.f.pkg.TypesInfo.TypeOf(e) }

// block is the list of monadic lines being built for the current do-block
type block struct{ lines []string }

func (b *block) add(s string) { b.lines = append(b.lines, s) }

func (t *tr) fresh() string { t.f.tmp++; return fmt.Sprintf("t%d", t.f.tmp) }

// rootedAtOpaque: selector / call chains whose root identifier is a parameter (or receiver) of opaque kind
func (t *tr) rootIdent(e ast.Expr) *ast.Ident {
	for {
		switch x := e.(type) {
		case *ast.Ident:
			return x
		case *ast.SelectorExpr:
			e = x.X
		case *ast.CallExpr:
			for _, a := range x.Args {
				if !t.opaqueArg(a) {
					return nil
				}
			}
			e = x.Fun
		case *ast.StarExpr:
			e = x.X
		case *ast.ParenExpr:
			e = x.X
		default:
			return nil
		}
	}
}

func (t *tr) freeTerm(e ast.Expr) string {
	src := t.text(e)
	name := ident(strings.ReplaceAll(strings.ReplaceAll(src, "()", ""), "*", ""))
	if _, ok := t.f.freeT[name]; !ok {
		t.f.free = append(t.f.free, name)
		t.f.freeT[name] = src
		t.f.freeK[name] = kindOf(t.typeOf(e))
		t.f.freeN[name] = t.norm(e, 0)
	}
	return name
}

// norm prints a free term with parameters replaced by their position (#0 = receiver or first parameter) and opaque local
// variables replaced by their definitions, so that renaming a variable does not change the table of free terms
func (t *tr) norm(e ast.Expr, depth int) string {
	if depth > 20 {
		return t.text(e)
	}
	switch x := e.(type) {
	case *ast.Ident:
		if d, ok := t.f.alias[x.Name]; ok {
			return t.norm(d, depth+1)
		}
		if i, ok := t.f.parIx[x.Name]; ok {
			if _, isVar := t.f.pkg.TypesInfo.Uses[x].(*types.Var); isVar {
				return fmt.Sprintf("#%d", i)
			}
		}
		return x.Name
	case *ast.SelectorExpr:
		return t.norm(x.X, depth+1) + "." + x.Sel.Name
	case *ast.CallExpr:
		var as []string
		for _, a := range x.Args {
			as = append(as, t.norm(a, depth+1))
		}
		return t.norm(x.Fun, depth+1) + "(" + strings.Join(as, ", ") + ")"
	case *ast.ParenExpr:
		return t.norm(x.X, depth+1)
	case *ast.StarExpr:
		return t.norm(x.X, depth+1)
	case *ast.UnaryExpr:
		return x.Op.String() + t.norm(x.X, depth+1)
	case *ast.BinaryExpr:
		return t.norm(x.X, depth+1) + " " + x.Op.String() + " " + t.norm(x.Y, depth+1)
	case *ast.KeyValueExpr:
		return t.text(x.Key) + ": " + t.norm(x.Value, depth+1)
	case *ast.CompositeLit:
		var es []string
		for _, el := range x.Elts {
			es = append(es, t.norm(el, depth+1))
		}
		return t.text(x.Type) + "{" + strings.Join(es, ", ") + "}"
	}
	return t.text(e)
}

// opaqueArg: an argument a free call may have: rooted at an opaque / string variable, or a package-level constant
func (t *tr) opaqueArg(e ast.Expr) bool {
	if tv, ok := t.f.pkg.TypesInfo.Types[e]; ok && tv.Value != nil {
		return true // a constant (types.Position_LONG)
	}
	ok := true
	ast.Inspect(e, func(n ast.Node) bool {
		if id, isId := n.(*ast.Ident); isId {
			if v, isVar := t.f.pkg.TypesInfo.Uses[id].(*types.Var); isVar && !v.IsField() {
				vk := kindOf(v.Type())
				if t.f.rangeVars[id.Name] {
					return ok // the loop's own variable: an arbitrary element
				}
				if _, aliased := t.f.alias[id.Name]; aliased {
					return ok // a local that stands for an opaque expression (`tokensIn := sdk.Coins{tokenIn}`)
				}
				if _, isPar := t.f.parIx[id.Name]; isPar && !t.f.assignedNames[id.Name] && (vk == kDec || vk == kInt || vk == kMach || vk == kBool) {
					return ok // a scalar parameter the function never assigns: the read may depend on it, it is still one value per call
				}
				if vk != kOpaque && vk != kString {
					ok = false // depends on a computed scalar: not a free term
				}
			}
		}
		return ok
	})
	return ok
}

func decLit(s string) string { // LegacyMustNewDecFromStr literal -> raw integer
	neg := strings.HasPrefix(s, "-")
	s = strings.TrimPrefix(s, "-")
	parts := strings.SplitN(s, ".", 2)
	frac := ""
	if len(parts) == 2 {
		frac = parts[1]
	}
	if len(frac) > 18 {
		fail("decimal literal with more than 18 digits: " + s)
	}
	for len(frac) < 18 {
		frac += "0"
	}
	v, ok := new(big.Int).SetString(parts[0]+frac, 10)
	if !ok {
		fail("bad decimal literal " + s)
	}
	if neg {
		v.Neg(v)
	}
	if v.Sign() < 0 {
		return "(" + v.String() + ")"
	}
	return v.String()
}

func (t *tr) constInt(e ast.Expr) (string, bool) {
	tv, ok := t.f.pkg.TypesInfo.Types[e]
	if ok && tv.Value != nil && tv.Value.Kind() == constant.Int {
		s := tv.Value.ExactString()
		if strings.HasPrefix(s, "-") {
			return "(" + s + ")", true
		}
		return s, true
	}
	return "", false
}

// calleeKey resolves a call's function to "pkgpath.Name" (methods: "pkgpath.Recv.Name")
func (t *tr) calleeObj(call *ast.CallExpr) types.Object {
	switch f := call.Fun.(type) {
	case *ast.Ident:
		return t.f.pkg.TypesInfo.Uses[f]
	case *ast.SelectorExpr:
		return t.f.pkg.TypesInfo.Uses[f.Sel]
	}
	return nil
}

func objKey(o types.Object) string {
	if o == nil || o.Pkg() == nil {
		return ""
	}
	if f, ok := o.(*types.Func); ok {
		if sig, ok := f.Type().(*types.Signature); ok && sig.Recv() != nil {
			rt := sig.Recv().Type()
			if p, ok := rt.(*types.Pointer); ok {
				rt = p.Elem()
			}
			if n, ok := rt.(*types.Named); ok {
				return o.Pkg().Path() + "." + n.Obj().Name() + "." + o.Name()
			}
		}
	}
	return o.Pkg().Path() + "." + o.Name()
}

const mathPkg = "cosmossdk.io/math"

// expr translates e to a Lean term; effectful steps are appended to b
func (t *tr) expr(b *block, e ast.Expr) string {
	if s, ok := t.constInt(e); ok && kindOf(t.typeOf(e)) == kMach {
		return s
	}
	switch x := e.(type) {
	case *ast.ParenExpr:
		return t.expr(b, x.X)
	case *ast.Ident:
		if x.Name == "true" || x.Name == "false" {
			return x.Name
		}
		if o := t.f.pkg.TypesInfo.Uses[x]; o != nil {
			if c, ok := o.(*types.Const); ok { // enum constants (Position_LONG ...)
				if c.Val().Kind() == constant.Int {
					return c.Val().ExactString()
				}
			}
		}
		return ident(x.Name)
	case *ast.BasicLit:
		if x.Kind == token.INT {
			return x.Value
		}
		t.bad(e, "literal")
	case *ast.UnaryExpr:
		switch x.Op {
		case token.NOT:
			return "(¬ " + t.expr(b, x.X) + ")"
		case token.SUB:
			return "(- " + t.expr(b, x.X) + ")"
		}
		t.bad(e, "unary operator")
	case *ast.BinaryExpr:
		if (x.Op == token.EQL || x.Op == token.NEQ) && kindOf(t.typeOf(x.X)) == kString && t.opaqueArg(x.X) && t.opaqueArg(x.Y) {
			return t.freeTerm(e) // a comparison of two strings read from outside (denoms): a free Boolean
		}
		l := t.expr(b, x.X)
		before := len(b.lines)
		r := t.expr(b, x.Y)
		if (x.Op == token.LAND || x.Op == token.LOR) && len(b.lines) != before {
			t.bad(e, "short-circuit operator whose right operand has a checked step")
		}
		k := kindOf(t.typeOf(x.X))
		switch x.Op {
		case token.LAND:
			return "(" + l + " ∧ " + r + ")"
		case token.LOR:
			return "(" + l + " ∨ " + r + ")"
		case token.EQL:
			return "(" + l + " = " + r + ")"
		case token.NEQ:
			return "(" + l + " ≠ " + r + ")"
		case token.LSS, token.GTR, token.LEQ, token.GEQ:
			op := map[token.Token]string{token.LSS: "<", token.GTR: ">", token.LEQ: "≤", token.GEQ: "≥"}[x.Op]
			return "(" + l + " " + op + " " + r + ")"
		case token.ADD, token.SUB, token.MUL:
			if k != kMach {
				t.bad(e, "arithmetic on a non-integer")
			}
			return "(" + l + " " + x.Op.String() + " " + r + ")"
		case token.QUO:
			v := t.fresh()
			b.add(fmt.Sprintf("let %s ← iquoC %s %s", v, l, r))
			return v
		}
		t.bad(e, "binary operator")
	case *ast.SelectorExpr:
		if v, ok := t.f.fieldSet[t.text(x)]; ok {
			return v
		}
		if id := t.rootIdent(x); id != nil {
			if o := t.f.pkg.TypesInfo.Uses[id]; o != nil {
				if _, isVar := o.(*types.Var); isVar && kindOf(o.Type()) == kOpaque {
					return t.freeTerm(e)
				}
			}
		}
		if o := t.f.pkg.TypesInfo.Uses[x.Sel]; o != nil {
			if c, ok := o.(*types.Const); ok && c.Val().Kind() == constant.Int {
				return c.Val().ExactString()
			}
		}
		t.bad(e, "selector")
	case *ast.CallExpr:
		return t.call(b, x)
	case *ast.CompositeLit:
		if k := kindOf(t.typeOf(x)); (k == kCoins || k == kDecCoins) && len(x.Elts) == 0 {
			return "0" // sdk.Coins{} / sdk.DecCoins{}: the empty set
		}
	}
	t.bad(e, "expression form")
	return ""
}

func (t *tr) step(b *block, op string, args ...string) string {
	v := t.fresh()
	b.add(fmt.Sprintf("let %s ← %s %s", v, op, strings.Join(args, " ")))
	return v
}

func (t *tr) call(b *block, c *ast.CallExpr) string {
	// conversions: int64(x), uint64(x), sdkmath.Int(x) ...
	if tv, ok := t.f.pkg.TypesInfo.Types[c.Fun]; ok && tv.IsType() {
		if len(c.Args) == 1 && kindOf(tv.Type) == kMach && kindOf(t.typeOf(c.Args[0])) == kMach {
			return t.expr(b, c.Args[0])
		}
		t.bad(c, "conversion")
	}
	obj := t.calleeObj(c)
	key := objKey(obj)
	// package-level functions of cosmossdk.io/math
	if obj != nil && obj.Pkg() != nil && obj.Pkg().Path() == mathPkg {
		if sig, ok := obj.Type().(*types.Signature); ok && sig.Recv() == nil {
			switch obj.Name() {
			case "LegacyOneDec":
				return "P"
			case "LegacyZeroDec", "ZeroInt":
				return "0"
			case "OneInt":
				return "1"
			case "NewInt", "NewIntFromUint64":
				return t.expr(b, c.Args[0])
			case "LegacyNewDec", "LegacyNewDecFromInt":
				return "(" + t.expr(b, c.Args[0]) + " * P)"
			case "LegacyMustNewDecFromStr":
				if lit, ok := c.Args[0].(*ast.BasicLit); ok && lit.Kind == token.STRING {
					return decLit(strings.Trim(lit.Value, "\"`"))
				}
			case "LegacyNewDecWithPrec":
				a, ok1 := t.constInt(c.Args[0])
				p, ok2 := t.constInt(c.Args[1])
				if ok1 && ok2 {
					av, _ := new(big.Int).SetString(strings.Trim(a, "()"), 10)
					var pv int
					fmt.Sscan(p, &pv)
					if pv >= 0 && pv <= 18 {
						av.Mul(av, new(big.Int).Exp(big.NewInt(10), big.NewInt(int64(18-pv)), nil))
						if av.Sign() < 0 {
							return "(" + av.String() + ")"
						}
						return av.String()
					}
				}
			case "LegacyMinDec", "MinInt":
				l, r := t.expr(b, c.Args[0]), t.expr(b, c.Args[1])
				return fmt.Sprintf("(if %s < %s then %s else %s)", l, r, l, r)
			case "LegacyMaxDec", "MaxInt":
				l, r := t.expr(b, c.Args[0]), t.expr(b, c.Args[1])
				return fmt.Sprintf("(if %s < %s then %s else %s)", l, r, r, l)
			}
			t.bad(c, "cosmossdk.io/math function")
		}
	}
	// sdk.Coins / sdk.DecCoins, read as ONE denom (the base currency the collectors work in): a Coins value is its amount, a DecCoins
	// value its raw LegacyDec amount
	if obj != nil && obj.Pkg() != nil && obj.Pkg().Path() == "github.com/cosmos/cosmos-sdk/types" {
		if obj.Name() == "NewDecCoinsFromCoins" && len(c.Args) == 1 {
			return "(" + t.expr(b, c.Args[0]) + " * P)"
		}
		if sel, ok := c.Fun.(*ast.SelectorExpr); ok {
			rk := kindOf(t.typeOf(sel.X))
			if rk == kCoins || rk == kDecCoins {
				recv := t.expr(b, sel.X)
				var args []string
				for _, a := range c.Args {
					args = append(args, t.expr(b, a))
				}
				switch obj.Name() {
				case "IsZero", "Empty":
					return "(" + recv + " = 0)"
				case "IsAllPositive":
					return "(" + recv + " > 0)"
				case "AmountOf":
					return recv
				case "Add":
					if len(args) == 1 {
						return "(" + recv + " + " + args[0] + ")"
					}
				case "Sub":
					if len(args) == 1 {
						return t.step(b, "coinsSubC", recv, args[0]) // panics on a negative result
					}
				case "MulDecTruncate":
					if rk == kDecCoins {
						return t.step(b, "chk", "(Dec.mulTruncate "+recv+" "+args[0]+")")
					}
				}
				t.bad(c, "method of sdk.Coins / sdk.DecCoins")
			}
		}
	}
	// methods of LegacyDec / Int
	if sel, ok := c.Fun.(*ast.SelectorExpr); ok && obj != nil && obj.Pkg() != nil && obj.Pkg().Path() == mathPkg {
		rk := kindOf(t.typeOf(sel.X))
		recv := t.expr(b, sel.X)
		var args []string
		for _, a := range c.Args {
			args = append(args, t.expr(b, a))
		}
		m := strings.TrimSuffix(obj.Name(), "Mut")
		cmp := map[string]string{"GT": ">", "GTE": "≥", "LT": "<", "LTE": "≤", "Equal": "="}
		if op, ok := cmp[m]; ok && len(args) == 1 {
			return "(" + recv + " " + op + " " + args[0] + ")"
		}
		switch m {
		case "IsNil":
			return "False" // a LegacyDec / Int read from a stored record is never nil (assumption, stated in the evidence)
		case "IsZero":
			return "(" + recv + " = 0)"
		case "IsNegative":
			return "(" + recv + " < 0)"
		case "IsPositive":
			return "(" + recv + " > 0)"
		case "Neg":
			return "(- " + recv + ")"
		case "Abs":
			return "(if " + recv + " < 0 then - " + recv + " else " + recv + ")"
		}
		if rk == kDec {
			switch m {
			case "Add":
				return t.step(b, "addC", recv, args[0])
			case "Sub":
				return t.step(b, "subC", recv, args[0])
			case "Mul":
				return t.step(b, "mulC", recv, args[0])
			case "Quo":
				return t.step(b, "quoC", recv, args[0])
			case "MulInt", "MulInt64":
				return t.step(b, "mulIntC", recv, args[0])
			case "QuoInt", "QuoInt64":
				return t.step(b, "quoIntC", recv, args[0])
			case "TruncateInt":
				return "(" + recv + ".tdiv P)"
			case "RoundInt":
				return "(Dec.roundInt " + recv + ")"
			case "Ceil":
				return "(" + t.step(b, "ceilC", recv) + " * P)"
			case "Power":
				return t.step(b, "powerC", recv, "("+args[0]+").toNat")
			case "MulTruncate":
				return t.step(b, "chk", "(Dec.mulTruncate "+recv+" "+args[0]+")")
			case "QuoTruncate":
				return t.step(b, "quoTruncC", recv, args[0])
			}
		}
		if rk == kInt {
			switch m {
			case "Add":
				return "(" + recv + " + " + args[0] + ")"
			case "Sub":
				return "(" + recv + " - " + args[0] + ")"
			case "Mul":
				return "(" + recv + " * " + args[0] + ")"
			case "Quo":
				return t.step(b, "iquoC", recv, args[0])
			case "ToLegacyDec":
				return "(" + recv + " * P)"
			case "Int64", "Uint64":
				return recv
			}
		}
		t.bad(c, "method of cosmossdk.io/math")
	}
	// free terms: ctx.BlockHeight(), k.GetX(ctx, denom) — rooted at an opaque variable, every argument opaque
	if id := t.rootIdent(c); id != nil {
		if o := t.f.pkg.TypesInfo.Uses[id]; o != nil {
			if _, isVar := o.(*types.Var); isVar && kindOf(o.Type()) == kOpaque {
				if rk := kindOf(t.typeOf(c)); rk == kDec || rk == kInt || rk == kMach || rk == kBool || rk == kCoins || rk == kDecCoins {
					return t.freeTerm(c)
				}
			}
		}
	}
	// free terms: F(mtp) — an unlisted function of opaque arguments only, with a scalar result
	if _, listed := t.all[key]; !listed {
		if _, ext := externs[key]; !ext && len(c.Args) > 0 {
			allOpaque := true
			for _, a := range c.Args {
				if !t.opaqueArg(a) {
					allOpaque = false
				}
			}
			if rk := kindOf(t.typeOf(c)); allOpaque && (rk == kDec || rk == kInt || rk == kMach || rk == kBool || rk == kCoins || rk == kDecCoins) {
				return t.freeTerm(c)
			}
		}
	}
	// other translated functions / externs
	var args []string
	lean := ""
	if g, ok := t.all[key]; ok {
		lean = g.spec.Lean
		if len(g.free) > 0 {
			t.bad(c, "call of a listed function that has free terms")
		}
		t.f.calls[g.spec.Lean] = true
	} else if ex, ok := externs[key]; ok {
		lean = ex
	} else {
		t.bad(c, "call of a function that is neither listed nor an extern: "+key)
	}
	for _, a := range c.Args {
		args = append(args, t.expr(b, a))
	}
	return t.step(b, lean, args...)
}

// freeCall: a call the translator may treat as a read of the outside world: not listed, not an extern, not a method of
// cosmossdk.io/math, and either rooted at an opaque variable with opaque arguments or a function of opaque arguments only
func (t *tr) freeCall(c *ast.CallExpr) bool {
	obj := t.calleeObj(c)
	key := objKey(obj)
	if g, ok := t.all[key]; ok && !g.spec.Prefix {
		return false // (a function listed for its guards only is a read of the outside world where it is called)
	}
	if _, ok := externs[key]; ok {
		return false
	}
	if obj != nil && obj.Pkg() != nil && obj.Pkg().Path() == mathPkg {
		return false
	}
	for _, a := range c.Args {
		if !t.opaqueArg(a) {
			return false
		}
	}
	if id := t.rootIdent(c); id != nil {
		if v, isVar := t.f.pkg.TypesInfo.Uses[id].(*types.Var); isVar && kindOf(v.Type()) == kOpaque {
			return true
		}
	}
	return len(c.Args) > 0
}

// freeResult: result j of a free call with several results, as a free term
func (t *tr) freeResult(c *ast.CallExpr, j int, k kind, suffix string) string {
	src := t.text(c) + suffix
	name := ident(strings.ReplaceAll(strings.ReplaceAll(src, "()", ""), "*", ""))
	if len(name) > 100 { // a call with a long argument list: callee + hash of the normalised call + result index
		h := fnv.New32a()
		h.Write([]byte(t.norm(c, 0)))
		name = fmt.Sprintf("%s_x%08x%s", ident(t.text(c.Fun)), h.Sum32(), ident(suffix))
	}
	if _, ok := t.f.freeT[name]; !ok {
		t.f.free = append(t.f.free, name)
		t.f.freeT[name] = src
		t.f.freeK[name] = k
		t.f.freeN[name] = t.norm(c, 0) + suffix
	}
	_ = j
	return name
}

// errName: the Lean `Err` constructor for a returned Go error expression
func (t *tr) errName(e ast.Expr) string {
	switch x := e.(type) {
	case *ast.Ident:
		if n, ok := errorsMap[x.Name]; ok {
			return n
		}
		if strings.HasPrefix(x.Name, "Err") {
			return ".badArgs" // an error of the module without a name of its own in the model: a refusal
		}
	case *ast.SelectorExpr:
		if n, ok := errorsMap[x.Sel.Name]; ok {
			return n
		}
		if strings.HasPrefix(x.Sel.Name, "Err") {
			return ".badArgs"
		}
	case *ast.CallExpr: // errorsmod.Wrap(ErrX, ..), errorsmod.Wrapf(ErrX, ..)
		if f := t.text(x.Fun); f == "fmt.Errorf" || f == "errors.New" {
			return ".badArgs"
		}
		if len(x.Args) > 0 {
			return t.errName(x.Args[0])
		}
	}
	t.bad(e, "error value without a Lean name (add it to errorsMap)")
	return ""
}

func isNil(e ast.Expr) bool { id, ok := e.(*ast.Ident); return ok && id.Name == "nil" }

func (t *tr) hasErrResult() bool {
	r := t.f.decl.Type.Results
	if r == nil || len(r.List) == 0 {
		return false
	}
	return kindOf(t.typeOf(r.List[len(r.List)-1].Type)) == kErr
}

func (t *tr) ret(b *block, r *ast.ReturnStmt, pending string) {
	res := r.Results
	if t.hasErrResult() {
		last := res[len(res)-1]
		if !isNil(last) {
			if id, ok := last.(*ast.Ident); ok && id.Name == pending {
				t.bad(r, "stray error return")
			}
			b.add(".error " + t.errName(last))
			return
		}
		res = res[:len(res)-1]
	}
	if t.f.spec.Prefix {
		b.add("pure false") // returns (without an error) before the effects: "skipped"
		return
	}
	var vals []string
	for _, e := range res {
		v := t.expr(b, e)
		if kindOf(t.typeOf(e)) == kBool && v != "true" && v != "false" {
			v = "(decide " + v + ")"
		}
		vals = append(vals, v)
	}
	if t.f.spec.Effects {
		vals = append(vals, sendsVar)
	}
	if len(vals) == 0 {
		b.add("pure ()")
	} else if len(vals) == 1 {
		b.add("pure " + vals[0])
	} else {
		b.add("pure (" + strings.Join(vals, ", ") + ")")
	}
}

// hasReturn: a return other than the `if err != nil { return …, err }` that follows a call (those are part of the call's translation)
func hasReturn(s []ast.Stmt) bool {
	found := false
	for _, st := range s {
		ast.Inspect(st, func(n ast.Node) bool {
			if _, ok := n.(*ast.ReturnStmt); ok {
				found = true
			}
			if is, ok := n.(*ast.IfStmt); ok {
				if be, ok := is.Cond.(*ast.BinaryExpr); ok && be.Op == token.NEQ && isNil(be.Y) {
					if id, ok := be.X.(*ast.Ident); ok && (id.Name == "err" || strings.HasSuffix(id.Name, "Err")) {
						return false
					}
				}
			}
			if _, ok := n.(*ast.FuncLit); ok {
				return false
			}
			return !found
		})
	}
	return found
}

func terminates(s []ast.Stmt) bool {
	if len(s) == 0 {
		return false
	}
	switch x := s[len(s)-1].(type) {
	case *ast.ReturnStmt:
		return true
	case *ast.IfStmt:
		if x.Else == nil {
			return false
		}
		eb, ok := x.Else.(*ast.BlockStmt)
		if !ok {
			if ei, ok := x.Else.(*ast.IfStmt); ok {
				return terminates(x.Body.List) && terminates([]ast.Stmt{ei})
			}
			return false
		}
		return terminates(x.Body.List) && terminates(eb.List)
	}
	return false
}

// assigned: variables assigned with `=` (not declared) in the statements, in order of first occurrence
func (t *tr) assigned(s []ast.Stmt, acc *[]string, seen map[string]bool, declared map[string]bool) {
	for _, st := range s {
		switch x := st.(type) {
		case *ast.AssignStmt:
			if len(x.Rhs) == 1 {
				if c, ok := x.Rhs[0].(*ast.CallExpr); ok && t.isSend(c) && !seen[sendsVar] {
					seen[sendsVar] = true
					*acc = append(*acc, sendsVar)
				}
			}
			for _, l := range x.Lhs {
				if kindOf(t.typeOf(l)) == kErr {
					continue
				}
				if id, ok := l.(*ast.Ident); ok && id.Name != "_" {
					if x.Tok == token.DEFINE {
						declared[id.Name] = true
					} else if !declared[id.Name] && !seen[id.Name] {
						seen[id.Name] = true
						*acc = append(*acc, id.Name)
					}
				}
			}
		case *ast.IfStmt:
			inner := map[string]bool{}
			for k := range declared {
				inner[k] = true
			}
			t.assigned(x.Body.List, acc, seen, inner)
			if eb, ok := x.Else.(*ast.BlockStmt); ok {
				inner2 := map[string]bool{}
				for k := range declared {
					inner2[k] = true
				}
				t.assigned(eb.List, acc, seen, inner2)
			} else if ei, ok := x.Else.(*ast.IfStmt); ok {
				t.assigned([]ast.Stmt{ei}, acc, seen, declared)
			}
		}
	}
}

// sendsVar: the trace of bank transfers a function with effects makes, oldest first: (from, to, amount)
const sendsVar = "sends__"

// isSend: a call of one of x/bank's SendCoins* methods on something reached from an opaque variable
func (t *tr) isSend(c *ast.CallExpr) bool {
	sel, ok := c.Fun.(*ast.SelectorExpr)
	if !ok || !strings.HasPrefix(sel.Sel.Name, "SendCoins") || len(c.Args) != 4 {
		return false
	}
	id := t.rootIdent(sel.X)
	if id == nil {
		return false
	}
	v, isVar := t.f.pkg.TypesInfo.Uses[id].(*types.Var)
	return isVar && kindOf(v.Type()) == kOpaque
}

func indent(lines []string, by string) []string {
	out := make([]string, len(lines))
	for i, l := range lines {
		out[i] = by + l
	}
	return out
}

// stmts translates a statement list into the lines of a do-block. `tail` (may be nil) are the lines that end the block when the
// statements fall through (for assignment-only if-bodies: `pure (a, b)`).
func (t *tr) stmts(list []ast.Stmt, tail []string) []string {
	b := &block{}
	for i := 0; i < len(list); i++ {
		switch x := list[i].(type) {
		case *ast.DeclStmt:
			gd, ok := x.Decl.(*ast.GenDecl)
			if !ok || gd.Tok != token.VAR {
				t.bad(x, "declaration")
			}
			for _, sp := range gd.Specs {
				vs := sp.(*ast.ValueSpec)
				for j, n := range vs.Names {
					if j < len(vs.Values) {
						b.add(fmt.Sprintf("let %s := %s", ident(n.Name), t.expr(b, vs.Values[j])))
					} else {
						b.add(fmt.Sprintf("let %s : Int := 0", ident(n.Name))) // zero value; LegacyDec{} is nil in Go: reading it before assignment panics
					}
				}
			}
		case *ast.AssignStmt:
			// err := k.bankKeeper.SendCoins…(ctx, from, to, coins) ; if err != nil { return …, err } — an effect: appended to the trace.
			// The transfer itself is taken to succeed (the theorems about the trace say that what is sent was there to send)
			if len(x.Lhs) == 1 && len(x.Rhs) == 1 && kindOf(t.typeOf(x.Lhs[0])) == kErr {
				if c, ok := x.Rhs[0].(*ast.CallExpr); ok && t.isSend(c) {
					if !t.f.spec.Effects {
						t.bad(x, "bank transfer in a function not marked Effects in spec.go")
					}
					amt := t.expr(b, c.Args[3])
					b.add(fmt.Sprintf("let %s := %s ++ [(%q, %q, %s)]", sendsVar, sendsVar, t.norm(c.Args[1], 0), t.norm(c.Args[2], 0), amt))
					errId := x.Lhs[0].(*ast.Ident)
					if i+1 < len(list) {
						if is, ok := list[i+1].(*ast.IfStmt); ok && is.Init == nil && t.isErrCheck(is, errId.Name) {
							i++
							continue
						}
					}
					t.bad(x, "result of a bank transfer not checked by the next statement")
				}
			}
			// err = k.amm.AddToPoolBalanceAndUpdateLiquidity(ctx, ammPool, math.ZeroInt(), coins) ; if err != nil { return err } — a call made for
			// its effect on another module's books, which may refuse: a free failure flag; in a function with Effects whose last argument is a
			// coin set, the call is appended to the trace as (callee, second argument, amount) so that what it books can be compared with
			// what was transferred; otherwise it is listed among the skipped calls with its arguments
			if len(x.Lhs) == 1 && len(x.Rhs) == 1 && kindOf(t.typeOf(x.Lhs[0])) == kErr {
				if c, ok := x.Rhs[0].(*ast.CallExpr); ok && !t.isSend(c) && i+1 < len(list) {
					errId, isId := x.Lhs[0].(*ast.Ident)
					is, isIf := list[i+1].(*ast.IfStmt)
					rid := t.rootIdent(c.Fun)
					rooted := false
					if rid != nil {
						if v, isVar := t.f.pkg.TypesInfo.Uses[rid].(*types.Var); isVar && kindOf(v.Type()) == kOpaque {
							rooted = true
						}
					}
					if isId && isIf && is.Init == nil && rooted && t.isErrCheck(is, errId.Name) {
						if n := len(c.Args); t.f.spec.Effects && n >= 2 && kindOf(t.typeOf(c.Args[n-1])) == kCoins {
							amt := t.expr(b, c.Args[n-1])
							b.add(fmt.Sprintf("let %s := %s ++ [(%q, %q, %s)]", sendsVar, sendsVar, t.norm(c.Fun, 0), t.norm(c.Args[1], 0), amt))
						} else {
							t.f.skipped = append(t.f.skipped, t.norm(c, 0))
						}
						flag := t.freeResult(c, 0, kBool, "#err")
						b.add("if " + flag + " then do")
						b.add("  .error .badArgs")
						b.add("else do")
						b.lines = append(b.lines, indent(t.stmts(list[i+2:], tail), "  ")...)
						return b.lines
					}
				}
			}
			// lps, _ := decCoins.TruncateDecimal()
			if len(x.Lhs) == 2 && len(x.Rhs) == 1 {
				if c, ok := x.Rhs[0].(*ast.CallExpr); ok {
					if sel, ok := c.Fun.(*ast.SelectorExpr); ok && sel.Sel.Name == "TruncateDecimal" && kindOf(t.typeOf(sel.X)) == kDecCoins {
						recv := t.expr(b, sel.X)
						for j, part := range []string{"(" + recv + ".tdiv P)", "(" + recv + ".tmod P)"} {
							if id, ok := x.Lhs[j].(*ast.Ident); ok && id.Name != "_" {
								b.add(fmt.Sprintf("let %s := %s", ident(id.Name), part))
							}
						}
						continue
					}
				}
			}
			// a, b := k.F(ctx, pool) — a read of the outside world with several results: each scalar result is a free term, each
			// opaque result an alias of the call, a trailing `error` / comma-ok `bool` a free Boolean
			if call, isCall := func() (*ast.CallExpr, bool) {
				if len(x.Lhs) >= 2 && len(x.Rhs) == 1 {
					c, ok := x.Rhs[0].(*ast.CallExpr)
					return c, ok && t.freeCall(c)
				}
				return nil, false
			}(); isCall {
				n := len(x.Lhs)
				lastK := kindOf(t.typeOf(x.Lhs[n-1]))
				upto := n
				if lastK == kErr {
					upto = n - 1
				}
				for j := 0; j < upto; j++ {
					id, ok := x.Lhs[j].(*ast.Ident)
					if sel, isSel := x.Lhs[j].(*ast.SelectorExpr); !ok && isSel {
						// mtp.MtpHealth, err = k.GetMTPHealth(ctx, *mtp, ..): a field of an opaque variable takes a result of the read
						if rid := t.rootIdent(sel); rid != nil {
							if v, isVar := t.f.pkg.TypesInfo.Uses[rid].(*types.Var); isVar && kindOf(v.Type()) == kOpaque {
								if lk := kindOf(t.typeOf(sel)); lk == kDec || lk == kInt || lk == kMach || lk == kBool {
									suffix := fmt.Sprintf("#%d", j)
									if upto == 1 {
										suffix = ""
									}
									tmp := t.fresh()
									b.add(fmt.Sprintf("let %s := %s", tmp, t.freeResult(call, j, lk, suffix)))
									t.f.fieldSet[t.text(sel)] = tmp
									continue
								}
							}
						}
					}
					if !ok {
						t.bad(x, "tuple assignment to a non-variable")
					}
					if id.Name == "_" {
						continue
					}
					k := kindOf(t.typeOf(x.Lhs[j]))
					if k == kOpaque || k == kString {
						if _, again := t.f.alias[id.Name]; again {
							t.bad(x, "opaque variable assigned twice")
						}
						t.f.alias[id.Name] = call
						continue
					}
					suffix := fmt.Sprintf("#%d", j)
					if upto == 1 {
						suffix = ""
					}
					b.add(fmt.Sprintf("let %s := %s", ident(id.Name), t.freeResult(call, j, k, suffix)))
				}
				if lastK == kErr {
					errId := x.Lhs[n-1].(*ast.Ident)
					flag := t.freeResult(call, n-1, kBool, "#err")
					if i+1 < len(list) {
						if is, ok := list[i+1].(*ast.IfStmt); ok && is.Init == nil && t.isErrCheck(is, errId.Name) {
							b.add("if " + flag + " then do")
							b.add("  .error .badArgs")
							b.add("else do")
							b.lines = append(b.lines, indent(t.stmts(list[i+2:], tail), "  ")...)
							return b.lines
						}
					}
					t.bad(x, "error result of a free call not checked by the next statement")
				}
				continue
			}
			// v, err := f(..) ; if err != nil { return .., err }
			if len(x.Lhs) >= 2 && len(x.Rhs) == 1 {
				lastId, ok := x.Lhs[len(x.Lhs)-1].(*ast.Ident)
				if ok && kindOf(t.typeOf(x.Lhs[len(x.Lhs)-1])) == kErr {
					call, ok := x.Rhs[0].(*ast.CallExpr)
					if !ok {
						t.bad(x, "tuple assignment")
					}
					v := t.call(b, call)
					var names []string
					for _, l := range x.Lhs[:len(x.Lhs)-1] {
						names = append(names, ident(l.(*ast.Ident).Name))
					}
					if len(names) == 1 {
						b.add(fmt.Sprintf("let %s := %s", names[0], v))
					} else {
						b.add(fmt.Sprintf("let (%s) := %s", strings.Join(names, ", "), v))
					}
					// the following statement must be the error check
					if i+1 < len(list) {
						if is, ok := list[i+1].(*ast.IfStmt); ok && is.Init == nil && t.isErrCheck(is, lastId.Name) {
							i++
							continue
						}
					}
					t.bad(x, "error result not checked by the next statement")
				}
			}
			if len(x.Lhs) != len(x.Rhs) {
				t.bad(x, "assignment arity")
			}
			for j := range x.Lhs {
				if sel, isSel := x.Lhs[j].(*ast.SelectorExpr); isSel && x.Tok == token.ASSIGN {
					if rid := t.rootIdent(sel); rid != nil {
						if v, isVar := t.f.pkg.TypesInfo.Uses[rid].(*types.Var); isVar && kindOf(v.Type()) == kOpaque {
							if lk := kindOf(t.typeOf(sel)); lk == kDec || lk == kInt || lk == kMach || lk == kBool || lk == kCoins {
								val := t.expr(b, x.Rhs[j])
								tmp := t.fresh()
								b.add(fmt.Sprintf("let %s := %s", tmp, val))
								t.f.fieldSet[t.text(sel)] = tmp
								continue
							}
						}
					}
				}
				id, ok := x.Lhs[j].(*ast.Ident)
				if !ok {
					t.bad(x, "assignment to a non-variable")
				}
				if x.Tok != token.DEFINE && x.Tok != token.ASSIGN {
					t.bad(x, "assignment operator")
				}
				if _, isLit := x.Rhs[j].(*ast.CompositeLit); isLit && x.Tok == token.DEFINE && t.opaqueArg(x.Rhs[j]) && !t.f.assignedTwice(id.Name) {
					t.f.alias[id.Name] = x.Rhs[j] // `tokensIn := sdk.Coins{tokenIn}`: a container built from opaque parts, only ever passed on
					continue
				}
				if lk := kindOf(t.typeOf(x.Lhs[j])); lk == kOpaque || lk == kString {
					if _, again := t.f.alias[id.Name]; again || !t.opaqueArg(x.Rhs[j]) {
						t.bad(x, "opaque variable assigned twice or from a computed value")
					}
					t.f.alias[id.Name] = x.Rhs[j] // `params := k.GetParams(ctx)`: an alias, expanded in the table of free terms
					continue
				}
				if kindOf(t.typeOf(x.Lhs[j])) == kBool {
					v := t.expr(b, x.Rhs[j])
					if v != "true" && v != "false" {
						v = "decide " + v
					}
					b.add(fmt.Sprintf("let %s : Bool := %s", ident(id.Name), v))
					continue
				}
				b.add(fmt.Sprintf("let %s := %s", ident(id.Name), t.expr(b, x.Rhs[j])))
			}
		case *ast.DeferStmt:
			// `defer func() { recover() … }()`: a panic guard; panics are explicit `.error` outcomes of the translation
			t.f.skipped = append(t.f.skipped, "defer")
		case *ast.IfStmt:
			if x.Init != nil {
				t.bad(x, "if with init statement")
			}
			if x == t.guardIf {
				// the window ends with this `if`: what its branches do is outside the definition, which returns whether the condition holds
				b.add("pure (decide " + t.expr(b, x.Cond) + ")")
				return b.lines
			}
			cond := t.expr(b, x.Cond)
			rest := list[i+1:]
			var elseList []ast.Stmt
			hasElse := x.Else != nil
			if hasElse {
				if eb, ok := x.Else.(*ast.BlockStmt); ok {
					elseList = eb.List
				} else {
					elseList = []ast.Stmt{x.Else}
				}
			}
			switch {
			case terminates(x.Body.List):
				// if c { ..return } [else {..}] rest   ==> if c then do .. else do (else.. ; rest)
				b.add("if " + cond + " then do")
				b.lines = append(b.lines, indent(t.stmts(x.Body.List, nil), "  ")...)
				b.add("else do")
				b.lines = append(b.lines, indent(t.stmts(append(append([]ast.Stmt{}, elseList...), rest...), tail), "  ")...)
				return b.lines
			case hasElse && terminates(elseList):
				b.add("if " + cond + " then do")
				b.lines = append(b.lines, indent(t.stmts(append(append([]ast.Stmt{}, x.Body.List...), rest...), tail), "  ")...)
				b.add("else do")
				b.lines = append(b.lines, indent(t.stmts(elseList, nil), "  ")...)
				return b.lines
			case hasReturn(x.Body.List) || hasReturn(elseList):
				// a branch may return early and otherwise falls through: the rest of the block is the continuation of BOTH branches
				b.add("if " + cond + " then do")
				b.lines = append(b.lines, indent(t.stmts(append(append([]ast.Stmt{}, x.Body.List...), rest...), tail), "  ")...)
				b.add("else do")
				b.lines = append(b.lines, indent(t.stmts(append(append([]ast.Stmt{}, elseList...), rest...), tail), "  ")...)
				return b.lines
			default:
				// assignment-only bodies: join the assigned variables
				var vars []string
				t.assigned([]ast.Stmt{x}, &vars, map[string]bool{}, map[string]bool{})
				if len(vars) == 0 {
					t.bad(x, "if statement with no effect the translator understands")
				}
				var lv []string
				for _, v := range vars {
					lv = append(lv, ident(v))
				}
				tup := lv[0]
				if len(lv) > 1 {
					tup = "(" + strings.Join(lv, ", ") + ")"
				}
				pureT := []string{"pure " + tup}
				b.add(fmt.Sprintf("let %s ← (if %s then do", tup, cond))
				b.lines = append(b.lines, indent(t.stmts(x.Body.List, pureT), "    ")...)
				b.add("  else do")
				b.lines = append(b.lines, indent(t.stmts(elseList, pureT), "    ")...)
				b.add("  )")
			}
		case *ast.ReturnStmt:
			t.ret(b, x, "")
			return b.lines
		case *ast.SwitchStmt:
			// `switch tag { case a, b: … default: … }` (no fallthrough): the chain of ifs it abbreviates
			if x.Init != nil || x.Tag == nil {
				t.bad(x, "switch form")
			}
			var chain, last *ast.IfStmt
			var deflt []ast.Stmt
			for _, cl := range x.Body.List {
				cc := cl.(*ast.CaseClause)
				for _, st := range cc.Body {
					if br, ok := st.(*ast.BranchStmt); ok && br.Tok == token.FALLTHROUGH {
						t.bad(x, "fallthrough")
					}
				}
				if cc.List == nil {
					deflt = cc.Body
					continue
				}
				var cond ast.Expr
				for _, v := range cc.List {
					eq := &ast.BinaryExpr{X: x.Tag, Op: token.EQL, Y: v}
					if cond == nil {
						cond = eq
					} else {
						cond = &ast.BinaryExpr{X: cond, Op: token.LOR, Y: eq}
					}
				}
				is := &ast.IfStmt{Cond: cond, Body: &ast.BlockStmt{List: cc.Body}}
				if chain == nil {
					chain = is
				} else {
					last.Else = is
				}
				last = is
			}
			if chain == nil {
				t.bad(x, "switch without cases")
			}
			if deflt != nil {
				last.Else = &ast.BlockStmt{List: deflt}
			}
			rest := append([]ast.Stmt{chain}, list[i+1:]...)
			b.lines = append(b.lines, t.stmts(rest, tail)...)
			return b.lines
		case *ast.ExprStmt:
			// a call made for its effect on something the model does not carry (a log line, a statistics record): skipped, and listed
			c, ok := x.X.(*ast.CallExpr)
			if !ok || t.isSend(c) {
				t.bad(x, "expression statement")
			}
			id := t.rootIdent(c.Fun)
			if id == nil {
				t.bad(x, "expression statement")
			}
			if v, isVar := t.f.pkg.TypesInfo.Uses[id].(*types.Var); !isVar || kindOf(v.Type()) != kOpaque {
				t.bad(x, "expression statement")
			}
			t.f.skipped = append(t.f.skipped, t.norm(c.Fun, 0))
		default:
			t.bad(list[i], "statement form")
		}
	}
	if tail == nil {
		panic(translErr{t.f.spec.Func + ": a path falls off the end of the function"})
	}
	b.lines = append(b.lines, tail...)
	return b.lines
}

func (t *tr) isErrCheck(is *ast.IfStmt, errVar string) bool {
	be, ok := is.Cond.(*ast.BinaryExpr)
	if !ok || be.Op != token.NEQ || !isNil(be.Y) {
		return false
	}
	id, ok := be.X.(*ast.Ident)
	if !ok || id.Name != errVar || is.Else != nil || len(is.Body.List) == 0 {
		return false
	}
	for _, st := range is.Body.List[:len(is.Body.List)-1] { // logging before the return
		if _, isExpr := st.(*ast.ExprStmt); !isExpr {
			return false
		}
	}
	r, ok := is.Body.List[len(is.Body.List)-1].(*ast.ReturnStmt)
	if !ok || len(r.Results) == 0 {
		return false
	}
	last, ok := r.Results[len(r.Results)-1].(*ast.Ident)
	return ok && last.Name == errVar
}

func leanType(k kind) string {
	switch k {
	case kBool:
		return "Bool"
	case kString:
		return "String"
	}
	return "Int"
}

func (t *tr) function() string {
	f := t.f
	var params []string
	addParams := func(fl *ast.FieldList) {
		if fl == nil {
			return
		}
		for _, fld := range fl.List {
			k := kindOf(t.typeOf(fld.Type))
			for _, n := range fld.Names {
				if k == kOpaque || n.Name == "_" {
					continue
				}
				params = append(params, fmt.Sprintf("(%s : %s)", ident(n.Name), leanType(k)))
			}
		}
	}
	addParams(f.decl.Recv)
	addParams(f.decl.Type.Params)
	// named results are variables with zero values
	var pre []string
	if r := f.decl.Type.Results; r != nil {
		for _, fld := range r.List {
			for _, n := range fld.Names {
				if k := kindOf(t.typeOf(fld.Type)); k == kBool {
					pre = append(pre, fmt.Sprintf("let %s : Bool := false", ident(n.Name)))
				} else if k != kErr {
					pre = append(pre, fmt.Sprintf("let %s : Int := 0", ident(n.Name)))
				}
			}
		}
	}
	if f.spec.Effects {
		pre = append(pre, fmt.Sprintf("let %s : List (String × String × Int) := []", sendsVar))
	}
	var body []string
	if f.spec.Prefix {
		// the guards in front of a function's effects: the longest prefix of its statements the translator understands; reaching its end
		// is `pure ()` ("not refused")
		done := false
		list := f.decl.Body.List
		if loopBody[f.spec.Lean] {
			// the body of the function's first top-level range loop, once, for an arbitrary element
			list = nil
			for _, st := range f.decl.Body.List {
				if rs, ok := st.(*ast.RangeStmt); ok {
					list = rs.Body.List
					f.rangeVars = map[string]bool{}
					for _, e := range []ast.Expr{rs.Key, rs.Value} {
						if id, ok := e.(*ast.Ident); ok && id.Name != "_" {
							f.rangeVars[id.Name] = true
						}
					}
					break
				}
			}
			if list == nil {
				panic(translErr{f.spec.Func + ": no range loop"})
			}
		}
		tailLines := []string{"pure true"}
		resultField := ""
		if rv, ok := windowResult[f.spec.Lean]; ok {
			tailLines = []string{"pure " + ident(rv)}
			if strings.HasPrefix(rv, "=") {
				// the value the window assigns to a field of an opaque variable (`=params.TotalCommitted`)
				resultField = rv[1:]
				tailLines = []string{"pure __FIELD__"}
			}
		}
		start := len(list)
		if f.spec.Until != "" {
			for i, st := range list {
				if strings.Contains(t.text(st), f.spec.Until) {
					start = i
					break
				}
			}
		}
		first := 0
		if from, ok := windowFrom[f.spec.Lean]; ok {
			// a window: the statements from the first one that contains `from` (what is computed before it is outside the definition)
			first = -1
			for i, st := range list {
				if strings.Contains(t.text(st), from) {
					first = i
					break
				}
			}
			if first < 0 {
				panic(translErr{f.spec.Func + ": window start not found: " + from})
			}
		}
		f.windowFirst = first
		t.guardIf = nil
		if guardIf[f.spec.Lean] {
			is, ok := list[start%len(list)].(*ast.IfStmt)
			if !ok || f.spec.Until == "" {
				panic(translErr{f.spec.Func + ": guardIf needs Until to name an if statement"})
			}
			t.guardIf = is
			start++ // the `if` itself belongs to the window
		}
		if first > 0 {
			// scalar locals the window reads but does not define (they were computed before it): parameters of the definition, "the value
			// of x where the window begins", in order of first use
			startPos := list[first].Pos()
			seen := map[string]bool{}
			for _, st := range list[first:min(start, len(list))] {
				ast.Inspect(st, func(n ast.Node) bool {
					id, ok := n.(*ast.Ident)
					if !ok {
						return true
					}
					v, isVar := f.pkg.TypesInfo.Uses[id].(*types.Var)
					if !isVar || v.IsField() || v.Pos() >= startPos || v.Pos() < f.decl.Body.Pos() || seen[id.Name] {
						return true
					}
					if _, isPar := f.parIx[id.Name]; isPar {
						return true
					}
					switch kindOf(v.Type()) {
					case kDec, kInt, kMach, kCoins, kDecCoins:
						seen[id.Name] = true
						params = append(params, fmt.Sprintf("(%s : Int)", ident(id.Name)))
						f.preLocals = append(f.preLocals, id.Name)
					case kBool:
						seen[id.Name] = true
						params = append(params, fmt.Sprintf("(%s : Bool)", ident(id.Name)))
						f.preLocals = append(f.preLocals, id.Name)
					}
					return true
				})
			}
		}
		for n := start; n >= first+1 && !done; n-- {
			if t.guardIf != nil && n < start {
				break // a window that ends with a guard is translated whole or not at all
			}
			func() {
				defer func() {
					if r := recover(); r != nil {
						te, ok := r.(translErr)
						if !ok {
							panic(r)
						}
						if os.Getenv("GO2LEAN_DEBUG") != "" {
							fmt.Fprintf(os.Stderr, "go2lean: %s: prefix of %d statements refused: %s\n", f.spec.Lean, n, te.msg)
						}
					}
				}()
				f.free, f.freeT, f.freeK, f.freeN = nil, map[string]string{}, map[string]kind{}, map[string]string{}
				f.alias, f.skipped, f.tmp, f.fieldSet = map[string]ast.Expr{}, nil, 0, map[string]string{}
				lines := t.stmts(list[first:n], tailLines)
				if resultField != "" {
					v, ok := f.fieldSet[resultField]
					if !ok {
						panic(translErr{f.spec.Func + ": the window does not assign " + resultField})
					}
					for i := range lines {
						lines[i] = strings.ReplaceAll(lines[i], "__FIELD__", v)
					}
				}
				body = append(pre, lines...)
				f.prefixLen = n
				done = true
			}()
		}
		if !done {
			panic(translErr{f.spec.Func + ": no translatable prefix"})
		}
	} else {
		body = append(pre, t.stmts(f.decl.Body.List, nil)...)
	}
	var rts []string
	if r := f.decl.Type.Results; r != nil {
		for _, fld := range r.List {
			k := kindOf(t.typeOf(fld.Type))
			if k == kErr {
				continue
			}
			n := len(fld.Names)
			if n == 0 {
				n = 1
			}
			for j := 0; j < n; j++ {
				rts = append(rts, leanType(k))
			}
		}
	}
	for _, n := range f.free {
		k := f.freeK[n]
		params = append(params, fmt.Sprintf("(%s : %s)", n, leanType(k)))
	}
	if f.spec.Effects {
		rts = append(rts, "List (String × String × Int)")
	}
	if f.spec.Prefix {
		rts = []string{"Bool"}
		if _, ok := windowResult[f.spec.Lean]; ok {
			rts = []string{"Int"}
		}
	}
	rt := strings.Join(rts, " × ")
	if len(rts) == 0 {
		rt = "Unit"
	}
	if len(rts) > 1 || strings.Contains(rt, " ") {
		rt = "(" + rt + ")"
	}
	var out []string
	pos := f.pkg.Fset.Position(f.decl.Pos())
	out = append(out, fmt.Sprintf("/-- `%s` (%s), translated from the source. -/", f.spec.Func, strings.TrimPrefix(pos.Filename, os.Getenv("VERIF_REPO_ABS")+"/")))
	for _, n := range f.free {
		out = append(out, fmt.Sprintf("-- free term `%s` = %s", n, f.freeT[n]))
	}
	if f.spec.Prefix {
		if f.windowFirst > 0 {
			out = append(out, fmt.Sprintf("-- WINDOW: top-level statements %d to %d of %d (what is computed before the window is outside this definition)", f.windowFirst+1, f.prefixLen, len(f.decl.Body.List)))
			if len(f.preLocals) > 0 {
				out = append(out, "-- locals computed before the window, as parameters: "+strings.Join(f.preLocals, ", "))
			}
		} else if loopBody[f.spec.Lean] {
			out = append(out, fmt.Sprintf("-- LOOP BODY: the first %d statements of the body of the function's first range loop, for an arbitrary element", f.prefixLen))
		} else {
			out = append(out, fmt.Sprintf("-- PREFIX: the first %d of %d top-level statements (the guards in front of the effects)", f.prefixLen, len(f.decl.Body.List)))
		}
	}
	out = append(out, fmt.Sprintf("def %s %s : Except Err %s := do", f.spec.Lean, strings.Join(params, " "), rt))
	for _, l := range body {
		out = append(out, "  "+l)
	}
	return strings.Join(out, "\n")
}

func main() {
	out := flag.String("out", "", "directory of Lean files to (re)write")
	flag.Parse()
	repo := os.Getenv("VERIF_REPO")
	if repo == "" {
		repo = "/repo"
	}
	os.Setenv("VERIF_REPO_ABS", repo)
	if *out == "" {
		fail("missing -out")
	}
	pkgSet := map[string]bool{}
	for _, s := range specs {
		pkgSet[elys+"/"+s.Pkg] = true
	}
	var pats []string
	for p := range pkgSet {
		pats = append(pats, p)
	}
	sort.Strings(pats)
	cfg := &packages.Config{Mode: packages.NeedName | packages.NeedFiles | packages.NeedSyntax | packages.NeedTypes | packages.NeedTypesInfo | packages.NeedImports, Env: os.Environ()}
	pkgs, err := packages.Load(cfg, pats...)
	if err != nil {
		fail("packages.Load: " + err.Error())
	}
	byPath := map[string]*packages.Package{}
	for _, p := range pkgs {
		if len(p.Errors) > 0 {
			fail(fmt.Sprintf("package %s does not type-check: %v", p.PkgPath, p.Errors[0]))
		}
		byPath[p.PkgPath] = p
	}
	all := map[string]*fn{}
	var order []*fn
	for _, s := range specs {
		p := byPath[elys+"/"+s.Pkg]
		if p == nil {
			fail("package not loaded: " + s.Pkg)
		}
		var decl *ast.FuncDecl
		for _, file := range p.Syntax {
			if strings.HasSuffix(p.Fset.Position(file.Pos()).Filename, "_test.go") {
				continue
			}
			for _, d := range file.Decls {
				fd, ok := d.(*ast.FuncDecl)
				if !ok || fd.Body == nil {
					continue
				}
				name := fd.Name.Name
				if fd.Recv != nil && len(fd.Recv.List) > 0 {
					rt := fd.Recv.List[0].Type
					if st, ok := rt.(*ast.StarExpr); ok {
						rt = st.X
					}
					if id, ok := rt.(*ast.Ident); ok {
						name = id.Name + "." + name
					}
				}
				if name == s.Func {
					decl = fd
				}
			}
		}
		if decl == nil {
			fail("function not found: " + s.Pkg + " " + s.Func)
		}
		f := &fn{spec: s, pkg: p, decl: decl, freeT: map[string]string{}, freeK: map[string]kind{}, freeN: map[string]string{},
			alias: map[string]ast.Expr{}, parIx: map[string]int{}, calls: map[string]bool{}, fieldSet: map[string]string{}, assignedNames: map[string]bool{}}
		if decl.Body != nil {
			ast.Inspect(decl.Body, func(n ast.Node) bool {
				switch a := n.(type) {
				case *ast.AssignStmt:
					for _, l := range a.Lhs {
						if id, ok := l.(*ast.Ident); ok {
							f.assignedNames[id.Name] = true
						}
					}
				case *ast.IncDecStmt:
					if id, ok := a.X.(*ast.Ident); ok {
						f.assignedNames[id.Name] = true
					}
				case *ast.UnaryExpr:
					if a.Op == token.AND {
						if id, ok := a.X.(*ast.Ident); ok {
							if v, isVar := p.TypesInfo.Uses[id].(*types.Var); isVar && kindOf(v.Type()) != kOpaque {
								f.assignedNames[id.Name] = true // address taken: may be written through the pointer
							}
						}
					}
				}
				return true
			})
		}
		ix := 0
		for _, fl := range []*ast.FieldList{decl.Recv, decl.Type.Params} {
			if fl == nil {
				continue
			}
			for _, fld := range fl.List {
				for _, n := range fld.Names {
					f.parIx[n.Name] = ix
					ix++
				}
			}
		}
		all[p.PkgPath+"."+s.Func] = f
		order = append(order, f)
	}
	// one file per function, so that a function the translator (or Lean) can no longer digest breaks only the theorems about it
	if err := os.RemoveAll(*out); err != nil {
		fail(err.Error())
	}
	if err := os.MkdirAll(*out, 0o755); err != nil {
		fail(err.Error())
	}
	header := "/-\nGENERATED by harness/cmd/go2lean from the Go source of the repository under test — do not edit; this directory is deleted and\n" +
		"rewritten by every `./check` of a property whose theorems mention it.  One file per function listed in harness/cmd/go2lean/spec.go.\n-/\n"
	var names, failed []string
	for _, f := range order {
		t := &tr{all: all, f: f}
		var body string
		func() {
			defer func() {
				if r := recover(); r != nil {
					te, ok := r.(translErr)
					if !ok {
						panic(r)
					}
					body = "-- TRANSLATION FAILED: " + strings.ReplaceAll(te.msg, "\n", " ") + "\n"
					failed = append(failed, f.spec.Func)
					fmt.Fprintln(os.Stderr, "go2lean: "+te.msg)
				}
			}()
			body = t.function() + "\n"
		}()
		var b strings.Builder
		b.WriteString(header + "import ElysModel.Amm.Pow\nimport ElysModel.Num.Checked\n")
		var cs []string
		for c := range f.calls {
			cs = append(cs, c)
		}
		sort.Strings(cs)
		for _, c := range cs {
			b.WriteString("import ElysModel.Gen.Arith." + c + "\n")
		}
		b.WriteString("namespace Elys.Gen.Arith\nopen Elys Elys.Amm\n\n" + body + "\nend Elys.Gen.Arith\n")
		if err := os.WriteFile(*out+"/"+f.spec.Lean+".lean", []byte(b.String()), 0o644); err != nil {
			fail(err.Error())
		}
		names = append(names, "\""+f.spec.Pkg+" "+f.spec.Func+"\"")
	}
	var b strings.Builder
	b.WriteString(header + "namespace Elys.Gen.Arith\n\n")
	b.WriteString("/-- every free term of every translated function: (function, position among the free terms, normalised source text —\nparameters by position, local aliases expanded).  Compared with a hand-read expectation by the `gen_free_terms_*` theorems. -/\ndef freeTerms : List (String × Nat × String) := [\n")
	first := true
	for _, f := range order {
		for i, n := range f.free {
			if !first {
				b.WriteString(",\n")
			}
			first = false
			b.WriteString(fmt.Sprintf("  (%q, %d, %q)", f.spec.Lean, i, f.freeN[n]))
		}
	}
	b.WriteString("]\n\n")
	b.WriteString("/-- calls made for an effect the model does not carry (log lines, statistics records), per function: skipped by the translator. -/\ndef skippedCalls : List (String × String) := [")
	firstS := true
	for _, f := range order {
		for _, c := range f.skipped {
			if !firstS {
				b.WriteString(", ")
			}
			firstS = false
			b.WriteString(fmt.Sprintf("(%q, %q)", f.spec.Lean, c))
		}
	}
	b.WriteString("]\n\n")
	b.WriteString("/-- the skipped calls of one function. -/\ndef skippedOf (f : String) : List String := (skippedCalls.filter (fun t => t.1 == f)).map (fun t => t.2)\n\n")
	b.WriteString("/-- the free terms of one function. -/\ndef freeOf (f : String) : List String := (freeTerms.filter (fun t => t.1 == f)).map (fun t => t.2.2)\n\n")
	b.WriteString("/-- the functions translated, in order. -/\ndef translated : List String := [" + strings.Join(names, ", ") + "]\n\nend Elys.Gen.Arith\n")
	if err := os.WriteFile(*out+"/Table.lean", []byte(b.String()), 0o644); err != nil {
		fail(err.Error())
	}
	if len(failed) > 0 {
		fmt.Printf("go2lean: could not translate %v (their theorems will not check)\n", failed)
	}
	fmt.Printf("go2lean: %d functions -> %s\n", len(order), *out)
}
