package main

// Spec names one Go function of the repository and the Lean definition it becomes.
type Spec struct {
	Pkg  string // package path below the module root
	Func string // "Name" or "Receiver.Name"
	Lean string // name of the Lean definition in namespace Elys.Gen.Arith
	// Effects: the function makes bank transfers; its Lean definition also returns their trace [(from, to, amount)], oldest first
	Effects bool
	// Prefix: translate only the longest prefix of the function's statements the translator understands (the guards in front of its
	// effects); the Lean definition returns Unit: an error is a refusal, `pure ()` is "not refused by these guards"
	Prefix bool
	// Until (prefix mode): stop in front of the first top-level statement whose source text contains this string
	Until string
}

// order matters: a function is listed after the listed functions it calls
var specs = []Spec{
	{"x/amm/types", "solveConstantFunctionInvariant", "solveConstantFunctionInvariant", false, false, ""},
	{"x/amm/types", "CalculateTokenARate", "calculateTokenARate", false, false, ""},
	{"x/amm/types", "feeRatio", "feeRatio", false, false, ""},
	{"x/amm/types", "calcPoolSharesOutGivenSingleAssetIn", "calcPoolSharesOutGivenSingleAssetIn", false, false, ""},
	{"x/amm/types", "AbsDifferenceWithSign", "absDifferenceWithSign", false, false, ""},
	{"x/amm/types", "ApplyDiscount", "applyDiscount", false, false, ""},
	{"x/amm/types", "GetWeightBreakingFee", "getWeightBreakingFee", false, false, ""},
	{"x/commitment/types", "VestingTokens.VestedSoFar", "vestedSoFar", false, false, ""},
	{"x/perpetual/types", "CalcTakeAmount", "calcTakeAmount", false, false, ""},
	{"x/perpetual/types", "MTP.CalcMTPTakeProfitBorrowFactor", "calcMTPTakeProfitBorrowFactor", false, false, ""},
	{"x/perpetual/types", "MTP.GetBorrowInterestAmountAsCustodyAsset", "getBorrowInterestAmountAsCustodyAsset", false, false, ""},
	{"x/perpetual/types", "CalcMTPTakeProfitCustody", "calcMTPTakeProfitCustody", false, false, ""},
	{"x/perpetual/keeper", "Keeper.CalcReturnAmount", "calcReturnAmount", false, false, ""},
	{"x/perpetual/keeper", "Keeper.GetLiquidationPrice", "getLiquidationPrice", false, false, ""},
	{"x/perpetual/keeper", "Keeper.CalcMTPTakeProfitLiability", "calcMTPTakeProfitLiability", false, false, ""},
	{"x/perpetual/keeper", "Keeper.GetFundingPaymentRates", "getFundingPaymentRates", false, false, ""},
	{"x/perpetual/keeper", "Keeper.BorrowInterestRateComputation", "borrowInterestRateComputation", false, false, ""},
	{"x/perpetual/keeper", "Keeper.CalcMinCollateral", "calcMinCollateral", false, false, ""},
	{"x/stablestake/keeper", "Keeper.GetRedemptionRate", "getRedemptionRate", false, false, ""},
	{"x/stablestake/keeper", "Keeper.Borrow", "borrowGuards", false, true, "UpdateInterestAndGetDebt"},
	{"x/perpetual/keeper", "Keeper.CheckAndCloseAtStopLoss", "perpStopLossGuards", false, true, ""},
	{"x/perpetual/keeper", "Keeper.CheckAndCloseAtTakeProfit", "perpTakeProfitGuards", false, true, ""},
	{"x/leveragelp/keeper", "Keeper.CheckAndLiquidateUnhealthyPosition", "lpLiquidateGuards", false, true, "CacheContext"},
	{"x/leveragelp/keeper", "Keeper.CheckAndCloseAtStopLoss", "lpStopLossGuards", false, true, "CacheContext"},
	{"x/tradeshield/keeper", "Keeper.ExecuteStopLossOrder", "execStopLossGuards", false, true, ""},
	{"x/tradeshield/keeper", "Keeper.ExecuteLimitSellOrder", "execLimitSellGuards", false, true, ""},
	{"x/tradeshield/keeper", "Keeper.ExecuteLimitBuyOrder", "execLimitBuyGuards", false, true, ""},
	{"x/tradeshield/keeper", "Keeper.ExecuteLimitOpenOrder", "execLimitOpenGuards", false, true, ""},
	{"x/masterchef/keeper", "Keeper.CollectGasFees", "collectGasFees", true, false, ""},
	{"x/masterchef/keeper", "Keeper.CollectPerpRevenue", "collectPerpRevenue", true, false, ""},
	{"x/stablestake/keeper", "Keeper.InterestRateComputation", "interestRateComputation", false, false, ""},
	{"x/tradeshield/keeper", "msgServer.CancelSpotOrder", "cancelSpotGuards", false, true, ""},
	{"x/tradeshield/keeper", "msgServer.UpdateSpotOrder", "updateSpotGuards", false, true, ""},
	{"x/tradeshield/keeper", "msgServer.CancelPerpetualOrder", "cancelPerpGuards", false, true, ""},
	{"x/tradeshield/keeper", "msgServer.UpdatePerpetualOrder", "updatePerpGuards", false, true, ""},
	{"x/oracle/keeper", "msgServer.FeedPrice", "feedPriceGuards", false, true, ""},
	{"x/amm/keeper", "Keeper.ExitPool", "exitPoolGuards", false, true, ""},
	{"x/accountedpool/keeper", "Keeper.PerpetualUpdates", "accountedAmount", false, true, "accountedPool.TotalTokens[i] ="},
	{"x/perpetual/keeper", "Keeper.CheckAndLiquidateUnhealthyPosition", "perpLiquidateGuards", false, true, "if mtp.MtpHealth.LTE(safetyFactor)"},
	{"x/leveragelp/keeper", "Keeper.ForceCloseLong", "lpCloseRepay", false, true, "collateralLeft :="},
	{"x/commitment/keeper", "Keeper.UncommitTokens", "uncommitTotal", false, true, "k.SetParams(ctx, params)"},
	{"x/perpetual/keeper", "Keeper.SendToAmmPool", "sendToAmmPool", true, false, ""},
	{"x/perpetual/keeper", "Keeper.SendFromAmmPool", "sendFromAmmPool", true, false, ""},
	{"x/stablestake/keeper", "msgServer.Bond", "bondShares", false, true, "shareCoins :="},
	{"x/stablestake/keeper", "msgServer.Unbond", "unbondAmount", false, true, "depositDenom :="},
	{"x/tradeshield/keeper", "msgServer.CancelSpotOrders", "cancelSpotBatchBody", false, true, ""},
	{"x/tradeshield/keeper", "msgServer.CancelPerpetualOrders", "cancelPerpBatchBody", false, true, ""},
	{"x/perpetual/keeper", "Keeper.ProcessOpen", "perpOpenHealthGuards", false, true, "stopLossPrice :="},
	{"x/perpetual/keeper", "Keeper.OpenConsolidate", "perpConsolidateHealthGuards", false, true, "stopLossPrice :="},
	{"x/leveragelp/keeper", "Keeper.ProcessOpenLong", "lpOpenHealthGuards", false, true, "position.LeveragedLpAmount ="},
	{"x/perpetual/types", "CalcFundingRate", "calcFundingRate", false, false, ""},
	{"x/stablestake/types", "Debt.GetTotalLiablities", "debtTotalLiabilities", false, false, ""},
	{"x/amm/keeper", "Keeper.InternalSwapExactAmountIn", "swapExactInGuards", false, true, "k.TrackSlippage("},
	{"x/amm/keeper", "Keeper.InternalSwapExactAmountOut", "swapExactOutGuards", false, true, "k.TrackSlippage("},
}

// windowFrom (prefix mode): the translation starts at the first top-level statement whose source text contains this string instead of at
// the top of the function (Lean name -> text). With `Until` this cuts a window out of a function whose head and tail are effects.
var windowFrom = map[string]string{
	"perpOpenHealthGuards":        "k.GetMTPHealth(",
	"perpConsolidateHealthGuards": "k.GetMTPHealth(",
	"lpOpenHealthGuards":          "k.GetPositionHealth(",
	"perpLiquidateGuards":         "safetyFactor := k.GetSafetyFactor(ctx)",
	"bondShares":                  "if redemptionRate.IsZero()",
	"uncommitTotal":               "params := k.GetParams(ctx)",
	"lpCloseRepay":                "if position.LeveragedLpAmount.IsZero()",
	"unbondAmount":                "redemptionAmount :=",
}

// guardIf (prefix mode, with Until naming an `if` statement): the window ends WITH that statement's condition: the definition returns
// whether the condition holds (true = the branch with the effects is entered)
var guardIf = map[string]bool{
	"perpLiquidateGuards": true,
}

// loopBody (prefix mode): the statements translated are those of the BODY of the function's first top-level `for .. range` loop (one
// iteration, for an arbitrary element: the range variables are opaque); windowResult: the definition returns this local variable (an
// integer) instead of `true`
var loopBody = map[string]bool{
	"accountedAmount":     true,
	"cancelSpotBatchBody": true,
	"cancelPerpBatchBody": true,
}

var windowResult = map[string]string{
	"bondShares":      "shareAmount",
	"uncommitTotal":   "=params.TotalCommitted",
	"lpCloseRepay":    "repayAmount",
	"unbondAmount":    "redemptionAmount",
	"accountedAmount": "accountedPoolAmt",
}

// externs: callees that are loops; their hand-written Lean definitions are tied to the code by the differential harness only
var externs = map[string]string{
	elys + "/x/amm/types.Pow":           "pow",
	elys + "/x/amm/keeper.PortionCoins": "portionC", // a loop over the coins of a set; one denom here (Num/Checked.lean)
}

// errorsMap: Go error variables -> constructors of Elys.Amm.Err
var errorsMap = map[string]string{
	"ErrAmountTooLow":        ".amountTooLow",
	"ErrTokenOutAmountZero":  ".tokenOutZero",
	"ErrInvalidMathApprox":   ".invalidMathApprox",
	"ErrTooMuchSwapFee":      ".tooMuchSwapFee",
	"ErrLimitMaxAmount":      ".limitMax",
	"ErrLimitMinAmount":      ".limitMax",
	"ErrTooManyTokensOut":    ".tooManySharesOut",
	"ErrZeroCustodyAmount":   ".badArgs",
	"ErrInvalidLeverage":     ".badArgs",
	"ErrBalanceNotAvailable": ".badArgs",
	"ErrInvalidBorrowDenom":  ".badArgs",
	"ErrMaxBorrowAmount":     ".limitMax",
	"ErrZeroMarketPrice":     ".noPrice",
}
