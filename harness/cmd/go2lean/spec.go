package main

// Spec names one Go function of the repository and the Lean definition it becomes.
type Spec struct {
	Pkg  string // package path below the module root
	Func string // "Name" or "Receiver.Name"
	Lean string // name of the Lean definition in namespace Elys.Gen.Arith
	// Effects: the function makes bank transfers; its Lean definition also returns their trace [(from, to, amount)], oldest first
	Effects bool
}

// order matters: a function is listed after the listed functions it calls
var specs = []Spec{
	{"x/amm/types", "solveConstantFunctionInvariant", "solveConstantFunctionInvariant", false},
	{"x/amm/types", "CalculateTokenARate", "calculateTokenARate", false},
	{"x/amm/types", "feeRatio", "feeRatio", false},
	{"x/amm/types", "calcPoolSharesOutGivenSingleAssetIn", "calcPoolSharesOutGivenSingleAssetIn", false},
	{"x/amm/types", "AbsDifferenceWithSign", "absDifferenceWithSign", false},
	{"x/amm/types", "ApplyDiscount", "applyDiscount", false},
	{"x/amm/types", "GetWeightBreakingFee", "getWeightBreakingFee", false},
	{"x/commitment/types", "VestingTokens.VestedSoFar", "vestedSoFar", false},
	{"x/perpetual/types", "CalcTakeAmount", "calcTakeAmount", false},
	{"x/perpetual/types", "MTP.CalcMTPTakeProfitBorrowFactor", "calcMTPTakeProfitBorrowFactor", false},
	{"x/perpetual/types", "MTP.GetBorrowInterestAmountAsCustodyAsset", "getBorrowInterestAmountAsCustodyAsset", false},
	{"x/perpetual/types", "CalcMTPTakeProfitCustody", "calcMTPTakeProfitCustody", false},
	{"x/perpetual/keeper", "Keeper.CalcReturnAmount", "calcReturnAmount", false},
	{"x/perpetual/keeper", "Keeper.GetLiquidationPrice", "getLiquidationPrice", false},
	{"x/perpetual/keeper", "Keeper.CalcMTPTakeProfitLiability", "calcMTPTakeProfitLiability", false},
	{"x/perpetual/keeper", "Keeper.GetFundingPaymentRates", "getFundingPaymentRates", false},
	{"x/perpetual/keeper", "Keeper.BorrowInterestRateComputation", "borrowInterestRateComputation", false},
	{"x/perpetual/keeper", "Keeper.CalcMinCollateral", "calcMinCollateral", false},
	{"x/stablestake/keeper", "Keeper.GetRedemptionRate", "getRedemptionRate", false},
	{"x/masterchef/keeper", "Keeper.CollectGasFees", "collectGasFees", true},
	{"x/masterchef/keeper", "Keeper.CollectPerpRevenue", "collectPerpRevenue", true},
	{"x/stablestake/keeper", "Keeper.InterestRateComputation", "interestRateComputation", false},
}

// externs: callees that are loops; their hand-written Lean definitions are tied to the code by the differential harness only
var externs = map[string]string{
	elys + "/x/amm/types.Pow":           "pow",
	elys + "/x/amm/keeper.PortionCoins": "portionC", // a loop over the coins of a set; one denom here (Num/Checked.lean)
}

// errorsMap: Go error variables -> constructors of Elys.Amm.Err
var errorsMap = map[string]string{
	"ErrAmountTooLow":        ".amountTooLow",
	"ErrTokenOutAmountZero":  ".tokenOutZero",
	"ErrInvalidMathApprox":   ".invalidMathApprox",
	"ErrTooMuchSwapFee":      ".tooMuchSwapFee",
	"ErrLimitMaxAmount":      ".limitMax",
	"ErrTooManyTokensOut":    ".tooManySharesOut",
	"ErrZeroCustodyAmount":   ".badArgs",
	"ErrInvalidLeverage":     ".badArgs",
	"ErrBalanceNotAvailable": ".badArgs",
}
