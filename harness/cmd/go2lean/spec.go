package main

// Spec names one Go function of the repository and the Lean definition it becomes.
type Spec struct {
	Pkg  string // package path below the module root
	Func string // "Name" or "Receiver.Name"
	Lean string // name of the Lean definition in namespace Elys.Gen.Arith
}

// order matters: a function is listed after the listed functions it calls
var specs = []Spec{
	{"x/amm/types", "solveConstantFunctionInvariant", "solveConstantFunctionInvariant"},
	{"x/amm/types", "CalculateTokenARate", "calculateTokenARate"},
	{"x/amm/types", "feeRatio", "feeRatio"},
	{"x/amm/types", "calcPoolSharesOutGivenSingleAssetIn", "calcPoolSharesOutGivenSingleAssetIn"},
	{"x/amm/types", "AbsDifferenceWithSign", "absDifferenceWithSign"},
	{"x/amm/types", "ApplyDiscount", "applyDiscount"},
	{"x/amm/types", "GetWeightBreakingFee", "getWeightBreakingFee"},
	{"x/commitment/types", "VestingTokens.VestedSoFar", "vestedSoFar"},
	{"x/perpetual/types", "CalcTakeAmount", "calcTakeAmount"},
	{"x/perpetual/types", "MTP.CalcMTPTakeProfitBorrowFactor", "calcMTPTakeProfitBorrowFactor"},
	{"x/perpetual/types", "MTP.GetBorrowInterestAmountAsCustodyAsset", "getBorrowInterestAmountAsCustodyAsset"},
	{"x/stablestake/keeper", "Keeper.GetRedemptionRate", "getRedemptionRate"},
	{"x/stablestake/keeper", "Keeper.InterestRateComputation", "interestRateComputation"},
}

// externs: callees that are loops; their hand-written Lean definitions are tied to the code by the differential harness only
var externs = map[string]string{
	elys + "/x/amm/types.Pow": "pow",
}

// errorsMap: Go error variables -> constructors of Elys.Amm.Err
var errorsMap = map[string]string{
	"ErrAmountTooLow":       ".amountTooLow",
	"ErrTokenOutAmountZero": ".tokenOutZero",
	"ErrInvalidMathApprox":  ".invalidMathApprox",
	"ErrTooMuchSwapFee":     ".tooMuchSwapFee",
	"ErrLimitMaxAmount":     ".limitMax",
	"ErrTooManyTokensOut":   ".tooManySharesOut",
	"ErrZeroCustodyAmount":  ".badArgs",
}
