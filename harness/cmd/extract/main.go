// extract: regenerates lean/ElysModel/Gen/Handlers.lean from the Go source of ${VERIF_REPO:-/repo}.
//
// For every method of each module's generated MsgServer interface, as implemented by the msgServer /
// MsgServer type under x/*/keeper (declared on it or promoted from the embedded Keeper), it records the
// module, the method, the request message type, whether the generated message struct has a field
// `Authority`, which message field the handler compares with the keeper's authority, whether that
// comparison guards an error return BEFORE the first statement that can write state, and which
// message field the proto file declares as cosmos.msg.v1.signer.
//
// Everything is resolved by type (go/packages + go/types), not by identifier spelling: the request
// parameter is "the parameter whose type is a pointer to a struct of the module's types package"
// (it is called msg in most handlers and req in estaking's), the keeper authority is "a struct field
// named authority reached from the receiver" or "a GetAuthority() method called on the receiver".
//
// Dominance is syntactic, on the handler's own top-level statements: walking them in order, a
// statement is
//   - the guard, when it is `if <authority> != <req>.<Field> { …; return …, <non-nil> }` (either
//     operand order, no else);
//   - harmless, when every call inside it is a conversion, a builtin, or a function of the explicit
//     PURE list below (the ones actually met are listed in the output);
//   - otherwise write-capable: the scan stops and the handler is recorded as not guarded before
//     its first write.
//
// Run from the harness directory (it shares harness/go.mod, which gen_gomod.sh points at the repo):
//
//	go run ./cmd/extract -out ../lean/ElysModel/Gen/Handlers.lean
package main

import (
	"flag"
	"fmt"
	"go/ast"
	"go/token"
	"go/types"
	"os"
	"path/filepath"
	"regexp"
	"sort"
	"strings"

	"golang.org/x/tools/go/packages"
)

const elys = "github.com/elys-network/elys"

// functions that may be called before the guard: they cannot write state.
var pure = map[string]bool{
	"github.com/cosmos/cosmos-sdk/types.UnwrapSDKContext": true,
}

type handler struct {
	Module, Method, MsgType string
	HasAuthorityField       bool
	AuthorityFieldName      string // the message field compared with the keeper authority ("" = no comparison)
	GuardedBeforeWrite      bool
	SignerField             string // Go name of the cosmos.msg.v1.signer field ("" = not declared)
	FirstWrite              string // diagnostics: the call that ended the scan
	File                    string
	Line                    int
}

func main() {
	out := flag.String("out", "", "Lean file to (re)write")
	flag.Parse()
	repo := os.Getenv("VERIF_REPO")
	if repo == "" {
		repo = "/repo"
	}
	if *out == "" {
		fail("missing -out")
	}
	// never leave a stale table behind: delete first, write at the very end
	_ = os.Remove(*out)

	dirs, _ := filepath.Glob(filepath.Join(repo, "x", "*", "keeper"))
	sort.Strings(dirs)
	var patterns []string
	for _, d := range dirs {
		patterns = append(patterns, elys+"/x/"+filepath.Base(filepath.Dir(d))+"/keeper")
	}
	if len(patterns) == 0 {
		fail("no x/*/keeper under " + repo)
	}
	cfg := &packages.Config{
		Mode: packages.NeedName | packages.NeedFiles | packages.NeedSyntax | packages.NeedTypes |
			packages.NeedTypesInfo | packages.NeedImports,
		Env: os.Environ(),
	}
	pkgs, err := packages.Load(cfg, patterns...)
	if err != nil {
		fail("packages.Load: " + err.Error())
	}
	signers := protoSigners(repo)
	var hs []handler
	pureSeen := map[string]bool{}
	for _, p := range pkgs {
		if len(p.Errors) > 0 {
			fail(fmt.Sprintf("package %s does not type-check: %v", p.PkgPath, p.Errors[0]))
		}
		mod := strings.TrimSuffix(strings.TrimPrefix(p.PkgPath, elys+"/x/"), "/keeper")
		// the module's MsgServer interface (generated, x/<mod>/types) …
		var iface *types.Interface
		for _, imp := range p.Types.Imports() {
			if imp.Path() == elys+"/x/"+mod+"/types" {
				if o := imp.Scope().Lookup("MsgServer"); o != nil {
					iface, _ = o.Type().Underlying().(*types.Interface)
				}
			}
		}
		if iface == nil || iface.NumMethods() == 0 {
			continue // a module without messages
		}
		// … its implementations in the keeper package (msgServer / MsgServer) …
		decls := map[*types.Func]*ast.FuncDecl{}
		for _, f := range p.Syntax {
			for _, d := range f.Decls {
				if fd, ok := d.(*ast.FuncDecl); ok && fd.Recv != nil && fd.Body != nil {
					if fo, ok := p.TypesInfo.Defs[fd.Name].(*types.Func); ok {
						decls[fo] = fd
					}
				}
			}
		}
		nImpl := 0
		names := p.Types.Scope().Names()
		for _, tn := range names {
			o, ok := p.Types.Scope().Lookup(tn).(*types.TypeName)
			if !ok || !strings.EqualFold(tn, "msgServer") {
				continue
			}
			pt := types.NewPointer(o.Type())
			if !types.Implements(pt, iface) {
				continue
			}
			nImpl++
			// … and, per interface method, the function that really runs (declared on the server type or
			// promoted from the embedded Keeper)
			for i := 0; i < iface.NumMethods(); i++ {
				mo, _, _ := types.LookupFieldOrMethod(pt, true, p.Types, iface.Method(i).Name())
				fo, _ := mo.(*types.Func)
				fd := decls[fo]
				if fo == nil || fd == nil {
					fail(fmt.Sprintf("%s.%s: the implementing function is not declared in %s", mod, iface.Method(i).Name(), p.PkgPath))
				}
				h, ok := analyse(p, fd, mod, pureSeen)
				if !ok {
					fail(fmt.Sprintf("%s.%s: no request parameter of a message type", mod, fd.Name.Name))
				}
				fname := p.Fset.Position(fd.Pos()).Filename
				rel, _ := filepath.Rel(repo, fname)
				h.File, h.Line = rel, p.Fset.Position(fd.Pos()).Line
				h.SignerField = signers[mod+"."+h.MsgType]
				hs = append(hs, h)
			}
		}
		if nImpl == 0 {
			fail("no msgServer implementation of " + mod + "'s MsgServer interface in " + p.PkgPath)
		}
	}
	sort.Slice(hs, func(i, j int) bool {
		if hs[i].Module != hs[j].Module {
			return hs[i].Module < hs[j].Module
		}
		return hs[i].Method < hs[j].Method
	})
	if len(hs) == 0 {
		fail("no msgServer methods found")
	}
	write(*out, hs, pureSeen)
	ng, na := 0, 0
	for _, h := range hs {
		if h.HasAuthorityField {
			na++
		}
		if h.GuardedBeforeWrite {
			ng++
		}
	}
	fmt.Printf("extract: %d handlers in %d packages, %d with an Authority field, %d guarded before the first write -> %s\n",
		len(hs), len(pkgs), na, ng, *out)
}

func fail(s string) {
	fmt.Fprintln(os.Stderr, "extract:", s)
	os.Exit(1)
}

// analyse returns the handler record for fd if fd is a method of a msgServer-shaped receiver that
// takes a pointer to a message struct.
func analyse(p *packages.Package, fd *ast.FuncDecl, mod string, pureSeen map[string]bool) (handler, bool) {
	info := p.TypesInfo
	fobj, _ := info.Defs[fd.Name].(*types.Func)
	if fobj == nil {
		return handler{}, false
	}
	sig := fobj.Type().(*types.Signature)
	// the request parameter: a pointer to a named struct declared in an elys x/<m>/types package
	var req *types.Var
	var reqStruct *types.Struct
	var reqName string
	for i := 0; i < sig.Params().Len(); i++ {
		v := sig.Params().At(i)
		pt, ok := v.Type().(*types.Pointer)
		if !ok {
			continue
		}
		n, ok := pt.Elem().(*types.Named)
		if !ok || n.Obj().Pkg() == nil || !strings.HasPrefix(n.Obj().Pkg().Path(), elys+"/x/") {
			continue
		}
		st, ok := n.Underlying().(*types.Struct)
		if !ok {
			continue
		}
		req, reqStruct, reqName = v, st, n.Obj().Name()
		break
	}
	if req == nil || sig.Results().Len() != 2 {
		return handler{}, false
	}
	h := handler{Module: mod, Method: fd.Name.Name, MsgType: reqName}
	for i := 0; i < reqStruct.NumFields(); i++ {
		f := reqStruct.Field(i)
		if f.Name() == "Authority" {
			if b, ok := f.Type().Underlying().(*types.Basic); ok && b.Kind() == types.String {
				h.HasAuthorityField = true
			}
		}
	}
	var recvObj types.Object
	if len(fd.Recv.List[0].Names) == 1 {
		recvObj = info.Defs[fd.Recv.List[0].Names[0]]
	}
	// the parameter object as the body sees it
	var reqObj types.Object
	for _, fl := range fd.Type.Params.List {
		for _, nm := range fl.Names {
			if o := info.Defs[nm]; o != nil && o.Type() == req.Type() && nm.Name == req.Name() {
				reqObj = o
			}
		}
	}

	rootIs := func(e ast.Expr, obj types.Object) bool {
		for {
			switch x := e.(type) {
			case *ast.SelectorExpr:
				e = x.X
			case *ast.ParenExpr:
				e = x.X
			case *ast.StarExpr:
				e = x.X
			case *ast.Ident:
				return obj != nil && info.Uses[x] == obj
			default:
				return false
			}
		}
	}
	isAuth := func(e ast.Expr) bool {
		if pe, ok := e.(*ast.ParenExpr); ok {
			e = pe.X
		}
		switch x := e.(type) {
		case *ast.SelectorExpr:
			if v, ok := info.Uses[x.Sel].(*types.Var); ok && v.IsField() && v.Name() == "authority" {
				return rootIs(x.X, recvObj)
			}
		case *ast.CallExpr:
			if s, ok := x.Fun.(*ast.SelectorExpr); ok && len(x.Args) == 0 {
				if f, ok := info.Uses[s.Sel].(*types.Func); ok && f.Name() == "GetAuthority" {
					return rootIs(s.X, recvObj)
				}
			}
		}
		return false
	}
	msgField := func(e ast.Expr) string {
		if pe, ok := e.(*ast.ParenExpr); ok {
			e = pe.X
		}
		if x, ok := e.(*ast.SelectorExpr); ok {
			if id, ok := x.X.(*ast.Ident); ok && reqObj != nil && info.Uses[id] == reqObj {
				if v, ok := info.Uses[x.Sel].(*types.Var); ok && v.IsField() {
					return v.Name()
				}
			}
		}
		return ""
	}
	guardField := func(s ast.Stmt) string {
		is, ok := s.(*ast.IfStmt)
		if !ok || is.Init != nil || is.Else != nil || len(is.Body.List) == 0 {
			return ""
		}
		be, ok := is.Cond.(*ast.BinaryExpr)
		if !ok || be.Op != token.NEQ {
			return ""
		}
		f := ""
		if isAuth(be.X) {
			f = msgField(be.Y)
		} else if isAuth(be.Y) {
			f = msgField(be.X)
		}
		if f == "" {
			return ""
		}
		// every statement of the guard's body must itself be harmless and the last one must return a non-nil error
		rs, ok := is.Body.List[len(is.Body.List)-1].(*ast.ReturnStmt)
		if !ok || len(rs.Results) != 2 {
			return ""
		}
		if id, ok := rs.Results[1].(*ast.Ident); ok && id.Name == "nil" {
			return ""
		}
		return f
	}
	// firstImpure returns the printed callee of the first call in s that is not a conversion, a builtin or PURE.
	firstImpure := func(s ast.Node) string {
		bad := ""
		ast.Inspect(s, func(n ast.Node) bool {
			if bad != "" {
				return false
			}
			ce, ok := n.(*ast.CallExpr)
			if !ok {
				return true
			}
			if tv, ok := info.Types[ce.Fun]; ok && (tv.IsType() || tv.IsBuiltin()) {
				return true
			}
			var callee types.Object
			switch f := ce.Fun.(type) {
			case *ast.Ident:
				callee = info.Uses[f]
			case *ast.SelectorExpr:
				callee = info.Uses[f.Sel]
			}
			if fn, ok := callee.(*types.Func); ok {
				if pure[fn.FullName()] {
					pureSeen[fn.FullName()] = true
					return true
				}
				bad = fn.FullName()
				return false
			}
			bad = "(dynamic call)"
			return false
		})
		return bad
	}

	scanning := true
	for _, s := range fd.Body.List {
		if f := guardField(s); f != "" {
			if h.AuthorityFieldName == "" {
				h.AuthorityFieldName = f
				h.GuardedBeforeWrite = scanning
			}
			break
		}
		if scanning {
			if c := firstImpure(s); c != "" {
				scanning = false
				h.FirstWrite = c
			}
		}
	}
	return h, true
}

var (
	reMessage = regexp.MustCompile(`^\s*message\s+(\w+)\s*\{`)
	reSigner  = regexp.MustCompile(`option\s*\(\s*cosmos\.msg\.v1\.signer\s*\)\s*=\s*"(\w+)"`)
)

// protoSigners reads proto/elys/<module>/*.proto and returns "<module>.<Message>" -> Go field name of the signer.
func protoSigners(repo string) map[string]string {
	res := map[string]string{}
	files, _ := filepath.Glob(filepath.Join(repo, "proto", "elys", "*", "*.proto"))
	sort.Strings(files)
	for _, f := range files {
		mod := filepath.Base(filepath.Dir(f))
		b, err := os.ReadFile(f)
		if err != nil {
			continue
		}
		cur := ""
		for _, ln := range strings.Split(string(b), "\n") {
			if m := reMessage.FindStringSubmatch(ln); m != nil {
				cur = m[1]
			}
			if m := reSigner.FindStringSubmatch(ln); m != nil && cur != "" {
				res[mod+"."+cur] = camel(m[1])
			}
		}
	}
	return res
}

func camel(s string) string {
	parts := strings.Split(s, "_")
	for i, p := range parts {
		if p != "" {
			parts[i] = strings.ToUpper(p[:1]) + p[1:]
		}
	}
	return strings.Join(parts, "")
}

func lbool(b bool) string {
	if b {
		return "true"
	}
	return "false"
}

func write(path string, hs []handler, pureSeen map[string]bool) {
	var b strings.Builder
	b.WriteString("/- GENERATED by harness/cmd/extract from the Go source of the repository under check — do not edit.\n")
	b.WriteString("Deleted and rewritten on every `./check C17`. One entry per method of every msgServer under x/*/keeper.\n")
	b.WriteString("Calls allowed before the guard (cannot write state), as met in this tree:\n")
	var ps []string
	for k := range pureSeen {
		ps = append(ps, k)
	}
	sort.Strings(ps)
	for _, k := range ps {
		b.WriteString("  " + k + "\n")
	}
	b.WriteString("-/\nimport ElysModel.Auth.Model\nnamespace Elys.Gen\nopen Elys.Auth\n\n")
	b.WriteString("def handlers : List Handler := [\n")
	for i, h := range hs {
		sep := ","
		if i == len(hs)-1 {
			sep = ""
		}
		cmt := fmt.Sprintf("  -- %s:%d", h.File, h.Line)
		if h.FirstWrite != "" && !h.GuardedBeforeWrite && (h.HasAuthorityField || h.AuthorityFieldName != "") {
			cmt += " first write-capable call: " + h.FirstWrite
		}
		fmt.Fprintf(&b, "  { module := %q, method := %q, msgType := %q, hasAuthorityField := %s, authorityFieldName := %q, guardedBeforeWrite := %s, signerField := %q }%s%s\n",
			h.Module, h.Method, h.MsgType, lbool(h.HasAuthorityField), h.AuthorityFieldName, lbool(h.GuardedBeforeWrite), h.SignerField, sep, cmt)
	}
	b.WriteString("]\n\nend Elys.Gen\n")
	if err := os.MkdirAll(filepath.Dir(path), 0o755); err != nil {
		fail(err.Error())
	}
	if err := os.WriteFile(path, []byte(b.String()), 0o644); err != nil {
		fail(err.Error())
	}
}
