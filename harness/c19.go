package harness

// C19: the same genesis bytes and the same blocks (the same signed tx bytes, the same block times) are fed to three
// replicas of the real application: two in-memory ones (Go randomises the start of every map iteration, so two instances
// in one process already iterate differently) and one on an on-disk goleveldb that is CLOSED AND REOPENED after every
// committed block. A fourth replica lives only on disk: after the common set-up every one of its blocks is executed by a
// FRESH OS PROCESS (this test binary re-executed in mode c19child) that opens the database, runs the block, commits and
// exits, so nothing it computes can depend on memory left behind by earlier blocks, rejected txs or queries.
// App hashes, tx result codes and gas must agree at every height.

import (
	"encoding/hex"
	"encoding/json"
	tstypes "github.com/elys-network/elys/x/tradeshield/types"
	"math/rand"
	"os"
	"os/exec"
	"testing"
	"time"

	"cosmossdk.io/log"
	"cosmossdk.io/math"
	abci "github.com/cometbft/cometbft/abci/types"
	dbm "github.com/cosmos/cosmos-db"
	"github.com/cosmos/cosmos-sdk/client/flags"
	"github.com/cosmos/cosmos-sdk/server"
	simtestutil "github.com/cosmos/cosmos-sdk/testutil/sims"
	sdk "github.com/cosmos/cosmos-sdk/types"
	banktypes "github.com/cosmos/cosmos-sdk/x/bank/types"
	simapp "github.com/elys-network/elys/app"
	ammtypes "github.com/elys-network/elys/x/amm/types"
	burnertypes "github.com/elys-network/elys/x/burner/types"
	epochstypes "github.com/elys-network/elys/x/epochs/types"
)

func init() { modes["c19"] = runC19; modes["c19child"] = runC19Child }

type c19Block struct {
	PrevTime int64    `json:"prevTime"` // unix nanoseconds of the previous block
	Dt       int64    `json:"dt"`       // nanoseconds
	Txs      []string `json:"txs"`      // hex
}

// runC19Child executes one block on the database in VERIF_C19_DIR in this (fresh) process and reports the result.
func runC19Child(t *testing.T, seed int64, n int, out *Out) {
	db, err := dbm.NewGoLevelDB("c19", os.Getenv("VERIF_C19_DIR"), nil)
	if err != nil {
		t.Fatalf("child leveldb: %v", err)
	}
	app := c19NewApp(t, db, os.Getenv("VERIF_C19_HOME"))
	var blk c19Block
	bz, err := os.ReadFile(os.Getenv("VERIF_C19_BLOCK"))
	if err != nil || json.Unmarshal(bz, &blk) != nil {
		t.Fatalf("child block file: %v", err)
	}
	var raw [][]byte
	for _, x := range blk.Txs {
		b, _ := hex.DecodeString(x)
		raw = append(raw, b)
	}
	w := &World{T: t, App: app, Time: time.Unix(0, blk.PrevTime).UTC()}
	res := w.Deliver(time.Duration(blk.Dt), raw)
	line := J{"t": "c19.child", "id": 0, "hash": hex.EncodeToString(res.AppHash), "height": res.Height}
	codes, gas := []uint32{}, []int64{}
	for _, tr := range res.Txs {
		codes = append(codes, tr.Code)
		gas = append(gas, tr.Gas)
	}
	line["codes"], line["gas"] = codes, gas
	if res.Err != nil {
		line["err"] = res.Err.Error()
	}
	if res.Panicked {
		line["err"] = "panic: " + res.PanicText
	}
	out.Line(line)
	_ = app.Close()
	_ = db.Close()
}

func c19NewApp(t *testing.T, db dbm.DB, home string) *simapp.ElysApp {
	appOptions := make(simtestutil.AppOptionsMap, 0)
	appOptions[flags.FlagHome] = home
	appOptions[server.FlagInvCheckPeriod] = 1
	return simapp.NewElysApp(log.NewNopLogger(), db, nil, true, map[int64]bool{}, home, appOptions)
}

func runC19(t *testing.T, seed int64, n int, out *Out) {
	stats := map[string]int{}
	dir := t.TempDir()
	home := t.TempDir()
	disk, err := dbm.NewGoLevelDB("c19", dir, nil)
	if err != nil {
		t.Fatalf("leveldb: %v", err)
	}
	dir4, home4 := t.TempDir(), t.TempDir()
	disk4, err := dbm.NewGoLevelDB("c19", dir4, nil)
	if err != nil {
		t.Fatalf("leveldb: %v", err)
	}
	apps := []*simapp.ElysApp{c19NewApp(t, dbm.NewMemDB(), t.TempDir()), c19NewApp(t, dbm.NewMemDB(), t.TempDir()), c19NewApp(t, disk, home), c19NewApp(t, disk4, home4)}
	gs, valSet := detGenesisState(apps[0], seed)
	stateBytes, err := json.MarshalIndent(gs, "", " ")
	if err != nil {
		t.Fatal(err)
	}
	for _, app := range apps {
		if _, err := app.InitChain(&abci.RequestInitChain{Validators: []abci.ValidatorUpdate{}, ConsensusParams: simtestutil.DefaultConsensusParams, AppStateBytes: stateBytes}); err != nil {
			t.Fatalf("InitChain: %v", err)
		}
		if _, err := app.FinalizeBlock(&abci.RequestFinalizeBlock{Height: app.LastBlockHeight() + 1, Hash: app.LastCommitID().Hash, NextValidatorsHash: valSet.Hash()}); err != nil {
			t.Fatalf("genesis block: %v", err)
		}
		if _, err := app.Commit(); err != nil {
			t.Fatalf("commit genesis: %v", err)
		}
	}
	worlds := make([]*World, len(apps))
	stds := make([]*Std, len(apps))
	for i, app := range apps {
		worlds[i] = c17World(t, app, seed, 7)
		stds[i] = worlds[i].SeedStandard()
		// the one consensus-path range over a Go map (x/burner BurnTokensForAllDenoms) only runs with a configured epoch
		// and denoms that have bank metadata: set that up so the loop sees several entries
		w := worlds[i]
		w.Seed(func(ctx sdk.Context) {
			bp := w.App.BurnerKeeper.GetParams(ctx)
			bp.EpochIdentifier = epochstypes.FiveMinutesEpochID
			w.App.BurnerKeeper.SetParams(ctx, &bp)
			for _, d := range []string{"uusdc", "uatom", "uelys"} {
				w.App.BankKeeper.SetDenomMetaData(ctx, banktypes.Metadata{Base: d, Display: d[1:], Name: d, Symbol: d,
					DenomUnits: []*banktypes.DenomUnit{{Denom: d, Exponent: 0}, {Denom: d[1:], Exponent: 6}}})
			}
		})
	}
	out.Line(J{"t": "c19.begin", "id": 0, "replicas": []string{"mem-a", "mem-b", "disk-restarted-every-block", "disk-fresh-process-every-block"}})
	childRuns := 0
	h := &Hist{w: worlds[0], std: stds[0], r: rand.New(rand.NewSource(seed))}
	restarts := 0
	for b := 0; b < n; b++ {
		var txs []*histTx
		if b > 0 {
			if h.r.Intn(5) == 0 {
				txs = append(txs, h.priceTx())
			}
			if b%7 == 3 {
				u := h.user()
				zero := burnertypes.GetZeroAddress()
				txs = append(txs, &histTx{kind: "bank.toZeroAddress", f: J{}, req: TxReq{Signer: u, Msgs: []sdk.Msg{banktypes.NewMsgSend(u.Addr, zero,
					sdk.NewCoins(sdk.NewCoin("uusdc", I(100+int64(b))), sdk.NewCoin("uatom", I(50+int64(b))), sdk.NewCoin("uelys", I(7))))}}})
			}
			if b%9 == 5 || b%9 == 7 {
				// reserve ratios of exactly 2 and beyond on the unequal-weight pool (exponent 1/4): the power routine's range reduction
				// and its cached constants; the first one is refused by its own limit half of the time (a refused tx must leave no trace)
				p := stds[0].Pools[1]
				if pool, ok := worlds[0].App.AmmKeeper.GetPool(worlds[0].Ctx(), p.Id); ok {
					u := h.user()
					res := map[string]math.Int{}
					for _, pa := range pool.PoolAssets {
						res[pa.Token.Denom] = pa.Token.Amount
					}
					if b%9 == 5 {
						maxIn := I(1)
						if h.r.Intn(2) == 0 {
							maxIn = I(1_000_000_000_000_000)
						}
						txs = append(txs, &histTx{kind: "amm.swapOut.exactHalf", f: J{}, req: TxReq{Signer: u, Msgs: []sdk.Msg{&ammtypes.MsgSwapExactAmountOut{Sender: u.Addr.String(),
							Routes: []ammtypes.SwapAmountOutRoute{{PoolId: p.Id, TokenInDenom: "uelys"}}, TokenOut: sdk.NewCoin("uusdc", res["uusdc"].QuoRaw(2)), TokenInMaxAmount: maxIn, Recipient: u.Addr.String()}}}})
					} else {
						d := []string{"uelys", "uusdc"}[h.r.Intn(2)]
						o := map[string]string{"uelys": "uusdc", "uusdc": "uelys"}[d]
						txs = append(txs, &histTx{kind: "amm.swapIn.whale", f: J{}, req: TxReq{Signer: u, Msgs: []sdk.Msg{&ammtypes.MsgSwapExactAmountIn{Sender: u.Addr.String(),
							Routes: []ammtypes.SwapAmountInRoute{{PoolId: p.Id, TokenOutDenom: o}}, TokenIn: sdk.NewCoin(d, res[d].MulRaw(3).QuoRaw(2)), TokenOutMinAmount: I(1), Recipient: u.Addr.String()}}}})
					}
				}
			}
			if b%11 == 4 {
				// two owners place limit-buy orders that the market already satisfies (different sizes, same pool) ...
				for i := 0; i < 2; i++ {
					u := worlds[0].Accts[1+i]
					a := I(int64(100_000_000 * (1 + 2*i)))
					txs = append(txs, &histTx{kind: "ts.spotCreate.executable", f: J{}, req: TxReq{Signer: u, Msgs: []sdk.Msg{&tstypes.MsgCreateSpotOrder{OrderType: tstypes.SpotOrderType_LIMITBUY,
						OrderPrice:  tstypes.OrderPrice{BaseDenom: "uatom", QuoteDenom: "uusdc", Rate: h.std.Prices["ATOM"].Mul(D("2"))},
						OrderAmount: sdk.NewCoin("uusdc", a), OwnerAddress: u.Addr.String(), OrderTargetDenom: "uatom"}}}})
				}
			}
			if b%11 == 5 {
				// ... and one message asks for every pending order to be executed: the orders of one message run in the message's order
				var sids, pids []uint64
				for _, o := range worlds[0].App.TradeshieldKeeper.GetAllPendingSpotOrder(worlds[0].Ctx()) {
					sids = append(sids, o.OrderId)
				}
				for _, o := range worlds[0].App.TradeshieldKeeper.GetAllPendingPerpetualOrder(worlds[0].Ctx()) {
					pids = append(pids, o.OrderId)
				}
				if len(sids)+len(pids) > 0 {
					u := h.user()
					txs = append(txs, &histTx{kind: "ts.execute.all", f: J{}, req: TxReq{Signer: u, Msgs: []sdk.Msg{&tstypes.MsgExecuteOrders{Creator: u.Addr.String(), SpotOrderIds: sids, PerpetualOrderIds: pids}}}})
				}
			}
			k := 1 + h.r.Intn(3)
			for i := 0; i < k; i++ {
				if tx := h.genTx(); tx != nil {
					txs = append(txs, tx)
				}
			}
		}
		dt := []time.Duration{5 * time.Second, 6 * time.Second, time.Minute, time.Hour, 30 * time.Hour}[h.r.Intn(5)]
		var reqs []TxReq
		kinds := []string{}
		for _, x := range txs {
			reqs = append(reqs, x.req)
			kinds = append(kinds, x.kind)
		}
		raw := worlds[0].SignTxs(reqs)
		type rep struct {
			Hash  string   `json:"hash"`
			Codes []uint32 `json:"codes"`
			Gas   []int64  `json:"gas"`
			Err   string   `json:"err,omitempty"`
		}
		reps := make([]rep, len(worlds))
		for i, w := range worlds {
			if i == 3 && b > 0 {
				// from block 1 on the fourth replica is run by a fresh process per block
				blk := c19Block{PrevTime: w.Time.UnixNano(), Dt: int64(dt)}
				for _, x := range raw {
					blk.Txs = append(blk.Txs, hex.EncodeToString(x))
				}
				w.Time = w.Time.Add(dt)
				bz, _ := json.Marshal(blk)
				bf, of := dir4+".block.json", dir4+".out.jsonl"
				_ = os.WriteFile(bf, bz, 0o644)
				_ = os.Remove(of)
				cmd := exec.Command(os.Args[0], "-test.run", "^TestRun$")
				// the node's environment is not part of the chain's state: the fresh process runs in another time zone than the other
				// replicas (Tokyo on even blocks, New York on odd ones; the histories start at 22:13 UTC, when both differ from UTC in
				// their calendar date or hour)
				tz := []string{"Asia/Tokyo", "America/New_York"}[b%2]
				cmd.Env = append(os.Environ(), "TZ="+tz, "VERIF_MODE=c19child", "VERIF_OUT="+of, "VERIF_C19_DIR="+dir4, "VERIF_C19_HOME="+home4, "VERIF_C19_BLOCK="+bf)
				stats["child-tz/"+tz]++
				cout, cerr := cmd.CombinedOutput()
				var cl struct {
					Hash  string   `json:"hash"`
					Codes []uint32 `json:"codes"`
					Gas   []int64  `json:"gas"`
					Err   string   `json:"err"`
				}
				ob, rerr := os.ReadFile(of)
				first := ob
				for k, c := range ob {
					if c == '\n' {
						first = ob[:k]
						break
					}
				}
				if cerr != nil || rerr != nil || json.Unmarshal(first, &cl) != nil {
					tail := string(cout)
					if len(tail) > 300 {
						tail = tail[len(tail)-300:]
					}
					reps[i].Err = "child process failed: " + tail
					stats["child-failed"]++
				} else {
					reps[i].Hash, reps[i].Err = cl.Hash, cl.Err
					if len(cl.Codes) > 0 {
						reps[i].Codes, reps[i].Gas = cl.Codes, cl.Gas
					}
				}
				childRuns++
				continue
			}
			res := w.Deliver(dt, raw)
			reps[i].Hash = hex.EncodeToString(res.AppHash)
			for _, tr := range res.Txs {
				reps[i].Codes = append(reps[i].Codes, tr.Code)
				reps[i].Gas = append(reps[i].Gas, tr.Gas)
			}
			if res.Err != nil {
				reps[i].Err = res.Err.Error()
			}
			if res.Panicked {
				reps[i].Err = "panic: " + res.PanicText
			}
		}
		if b == 0 {
			// hand the fourth replica over to child processes: everything it has is on disk now
			_ = worlds[3].App.Close()
			_ = disk4.Close()
		}
		// restart the disk replica from its database
		commitBefore := hex.EncodeToString(worlds[2].App.LastCommitID().Hash)
		heightBefore := worlds[2].App.LastBlockHeight()
		if err := worlds[2].App.Close(); err != nil {
			stats["close-error"]++
		}
		_ = disk.Close()
		disk, err = dbm.NewGoLevelDB("c19", dir, nil)
		if err != nil {
			t.Fatalf("reopen leveldb: %v", err)
		}
		worlds[2].App = c19NewApp(t, disk, home)
		restarts++
		line := J{"t": "c19.block", "id": 0, "h": worlds[0].App.LastBlockHeight(), "dt": int64(dt / time.Second), "kinds": kinds, "replicas": reps,
			"restart": J{"heightBefore": heightBefore, "heightAfter": worlds[2].App.LastBlockHeight(), "commitBefore": commitBefore,
				"commitAfter": hex.EncodeToString(worlds[2].App.LastCommitID().Hash)}}
		for _, x := range kinds {
			stats["tx/"+x]++
		}
		out.Line(line)
		if reps[0].Err != "" {
			break
		}
	}
	stats["restarts"] = restarts
	stats["child-process-blocks"] = childRuns
	out.Line(J{"t": "stats", "dist": stats})
	_ = disk.Close()
}
