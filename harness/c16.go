package harness

// C16: random scripts against the REAL oracle keeper and message server on the real app context.
// Names come from a small alphabet built so that prefixes and concatenations collide often; the
// timestamps include equal values, 0 and values that differ only in their high bytes (and two whose
// big-endian bytes spell "elys…"/"band…"). Every line carries the op, its arguments and what the
// implementation answered, so the Lean driver can replay it on the model and judge the property.

import (
	"fmt"
	authtypes "github.com/cosmos/cosmos-sdk/x/auth/types"
	oraclemod "github.com/elys-network/elys/x/oracle"
	"math/rand"
	"testing"
	"time"

	"cosmossdk.io/math"
	sdk "github.com/cosmos/cosmos-sdk/types"
	oraclekeeper "github.com/elys-network/elys/x/oracle/keeper"
	otypes "github.com/elys-network/elys/x/oracle/types"
)

func init() { modes["c16"] = runC16 }

var c16Assets = []string{"BTC", "BTCe", "BTCel", "BTCelys", "BTCb", "BTCband", "BTCx/", "BTC/", "ETH", "ETHe", "ETHband", "BT", "E"}
var c16Sources = []string{"elys", "band", "x", "lys", "ys", "elysx", "s", "and", "bandx", "elys/", "l"}
var c16Denoms = []string{"ubtc", "ubtce", "ueth", "ibc/AA", "unone"}

func c16Price(p otypes.Price) []string {
	return []string{p.Asset, p.Source, decRaw(p.Price), p.Provider, fmt.Sprint(p.Timestamp), fmt.Sprint(p.BlockHeight)}
}

func runC16(t *testing.T, seed int64, n int, out *Out) {
	w := NewWorld(t, seed, 0)
	r := rand.New(rand.NewSource(seed))
	app := w.App
	base := app.BaseApp.NewUncachedContext(false, w.header())
	k := app.OracleKeeper
	ms := oraclekeeper.NewMsgServerImpl(k)
	stats := map[string]int{}
	boundary := envInt("VERIF_BOUNDARY", 0) != 0

	addrs := make([]string, 4)
	for i := range addrs {
		addrs[i] = sdk.AccAddress(detKey(seed, 2_000_000+i).PubKey().Address()).String()
	}
	specialTs := []uint64{0, 1, 2, 100, 100, 255, 256, 257, 65536, 1 << 32, 1<<32 + 1, 1<<32 + 100, 1 << 40, 1<<40 + 1,
		0x656c797300000000, 0x656c797300000001, 0x62616e6400000000, 0x2f00000000000000, 1_790_000_000}
	priceChoices := func() math.LegacyDec {
		switch r.Intn(6) {
		case 0:
			return math.LegacyNewDecWithPrec(1, 18) // dust
		case 1:
			return math.LegacyZeroDec()
		case 2:
			return math.LegacyNewDec(int64(1 + r.Intn(100000)))
		case 3:
			return math.LegacyNewDecWithPrec(r.Int63n(1_000_000_000_000)+1, int64(r.Intn(19)))
		case 4:
			v, _ := math.LegacyNewDecFromStr("123456789012345678901234567890.123456789012345678")
			return v.Add(math.LegacyNewDec(int64(r.Intn(10))))
		default:
			return math.LegacyNewDecWithPrec(r.Int63n(1<<62)+1, 18)
		}
	}

	for seq := 0; seq < n; seq++ {
		ctx, _ := base.CacheContext() // each script on its own branch of genesis
		// start from an empty oracle state
		for _, p := range k.GetAllPrice(ctx) {
			k.RemovePrice(ctx, p.Asset, p.Source, p.Timestamp)
		}
		for _, f := range k.GetAllPriceFeeder(ctx) {
			k.RemovePriceFeeder(ctx, f.GetFeederAccount())
		}
		for _, a := range k.GetAllAssetInfo(ctx) {
			k.RemoveAssetInfo(ctx, a.Denom)
		}
		expiry := []uint64{0, 1, 5, 50, 50, 86400}[r.Intn(6)]
		life := []uint64{0, 1, 3, 10, 10, 1_000_000}[r.Intn(6)]
		params := k.GetParams(ctx)
		params.PriceExpiryTime, params.LifeTimeInBlocks = expiry, life
		params.Multiplier = []uint64{6, 6, 9, 18}[r.Intn(4)]
		k.SetParams(ctx, params)
		im := oraclemod.NewIBCModule(k)
		relayer := sdk.AccAddress(authtypes.NewModuleAddress("relayer"))
		var bandIds []uint64 // request ids acknowledged so far in this script
		bandLen := map[uint64]int{}
		bandSeq := uint64(0)
		// per-script sub-alphabets (3..6 assets, 3..6 sources) so that the same names meet often
		pick := func(all []string, m int) []string {
			idx := r.Perm(len(all))[:m]
			o := make([]string, m)
			for i, j := range idx {
				o[i] = all[j]
			}
			return o
		}
		assets := pick(c16Assets, 3+r.Intn(4))
		sources := pick(c16Sources, 3+r.Intn(4))
		if r.Intn(2) == 0 {
			assets[0], sources[0] = "BTC", "elys"
		}
		now := []int64{0, 100, 1<<32 - 3, 1_790_000_000, 1_790_000_000}[r.Intn(5)]
		height := int64([]int64{0, 1, 10, 1000}[r.Intn(4)])
		out.Line(J{"t": "c16.begin", "id": seq, "expiry": fmt.Sprint(expiry), "life": fmt.Sprint(life), "mult": fmt.Sprint(params.Multiplier), "authority": w.Gov,
			"assets": assets, "sources": sources})

		storeDump := func() [][]string {
			o := [][]string{}
			for _, p := range k.GetAllPrice(ctx) {
				o = append(o, c16Price(p))
			}
			return o
		}
		feederDump := func() [][]any {
			o := [][]any{}
			for _, a := range addrs {
				f, found := k.GetPriceFeeder(ctx, sdk.MustAccAddressFromBech32(a))
				o = append(o, []any{a, found, found && f.IsActive})
			}
			return o
		}
		emit := func(line J) {
			line["t"], line["id"] = "c16.op", seq
			line["time"], line["h"] = fmt.Sprint(now), fmt.Sprint(height)
			stats[fmt.Sprint(line["op"], "/", line["res"])]++
			out.Line(line)
		}
		lookupAsset := func(a string) {
			var p otypes.Price
			var found bool
			res, _ := callTx(ctx, func(c sdk.Context) error { p, found = k.GetAssetPrice(c, a); return nil })
			line := J{"op": "get", "asset": a, "res": res, "found": found}
			if found {
				line["r"] = c16Price(p)
				if p.Asset != a {
					stats["get/foreign"]++
				}
			}
			emit(line)
		}
		lookupDenom := func(d string) {
			var v math.LegacyDec
			res, _ := callTx(ctx, func(c sdk.Context) error { v = k.GetAssetPriceFromDenom(c, d); return nil })
			info, ifound := k.GetAssetInfo(ctx, d)
			line := J{"op": "denom", "denom": d, "res": res, "info": []any{ifound, info.Display, fmt.Sprint(info.Decimal)}}
			if res == "ok" {
				line["price"] = decRaw(v)
			}
			if ifound {
				p, found := k.GetAssetPrice(ctx, info.Display)
				via := J{"found": found}
				if found {
					via["r"] = c16Price(p)
				}
				line["via"] = via
			}
			emit(line)
		}
		sweep := func() {
			stats["sweep"]++
			for _, a := range assets {
				lookupAsset(a)
			}
			for _, d := range c16Denoms {
				lookupDenom(d)
			}
		}
		anyStored := func() (otypes.Price, bool) {
			all := k.GetAllPrice(ctx)
			if len(all) == 0 {
				return otypes.Price{}, false
			}
			return all[r.Intn(len(all))], true
		}
		mkFeed := func() otypes.FeedPrice {
			return otypes.FeedPrice{Asset: assets[r.Intn(len(assets))], Source: sources[r.Intn(len(sources))], Price: priceChoices()}
		}
		feedsJ := func(fs []otypes.FeedPrice) [][]string {
			o := [][]string{}
			for _, f := range fs {
				o = append(o, []string{f.Asset, f.Source, decRaw(f.Price)})
			}
			return o
		}
		// an account governance has just removed from the feeder set: it tries to switch itself back on, then to feed
		reviveSet, reviveFeed := "", ""
		pickSigner := func() string {
			if reviveFeed != "" {
				a := reviveFeed
				reviveFeed = ""
				return a
			}
			if r.Intn(10) < 6 {
				return addrs[r.Intn(2)] // the two accounts that usually are feeders
			}
			return addrs[r.Intn(len(addrs))]
		}
		// another (asset', source') from the whole alphabet with asset'+source' == asset+source
		otherSplit := func(a, s string) (string, string, bool) {
			cat := a + s
			for _, i := range r.Perm(len(c16Assets)) {
				a2 := c16Assets[i]
				if a2 == a || len(a2) > len(cat) || cat[:len(a2)] != a2 {
					continue
				}
				for _, s2 := range c16Sources {
					if a2+s2 == cat {
						return a2, s2, true
					}
				}
			}
			return "", "", false
		}
		signerObs := func(a string) (bool, bool) {
			f, found := k.GetPriceFeeder(ctx, sdk.MustAccAddressFromBech32(a))
			return found, found && f.IsActive
		}

		// two feeders to begin with, most of the time
		if r.Intn(5) != 0 {
			msg := &otypes.MsgAddPriceFeeders{Authority: w.Gov, Feeders: []string{addrs[0], addrs[1]}}
			res, _ := callTx(ctx, func(c sdk.Context) error { _, err := ms.AddPriceFeeders(c, msg); return err })
			emit(J{"op": "addfeeders", "auth": msg.Authority, "feeders": msg.Feeders, "res": res, "fobs": feederDump()})
		}

		nops := 25 + r.Intn(50)
		for op := 0; op < nops; op++ {
			// time passes (never backwards: block time and height are monotone on a chain)
			switch r.Intn(5) {
			case 0:
			case 1:
				now, height = now+1, height+1
			case 2:
				now, height = now+int64(r.Intn(8)), height+int64(r.Intn(3))
			case 3:
				now += int64(r.Intn(int(expiry) + 2))
			case 4:
				height += int64(r.Intn(int(min64(int64(life), 20)) + 2))
			}
			ctx = ctx.WithBlockTime(time.Unix(now, 0).UTC()).WithBlockHeight(height)
			c := r.Intn(100)
			if boundary && c < 40 {
				c = 60 + r.Intn(30) // direct sets at special timestamps and boundary end-blocks
			}
			if reviveFeed != "" {
				c = r.Intn(34) // a feed (single or multiple) signed by the removed account
			}
			if reviveSet == "" && reviveFeed == "" && r.Intn(9) == 0 {
				// BandChain traffic: a request acknowledged with an id, or the (possibly late, possibly unknown) answer to one
				bandSeq++
				if len(bandIds) == 0 || r.Intn(2) == 0 {
					id := uint64(100 + r.Intn(6))
					if r.Intn(3) == 0 && len(bandIds) > 0 {
						id = bandIds[len(bandIds)-1] + 1
					}
					syms := pick(assets, 1+r.Intn(min(3, len(assets))))
					res, _ := callTx(ctx, func(c sdk.Context) error {
						return im.OnAcknowledgementPacket(c, bandRequestPacket(bandSeq, params, syms), bandRequestAck(id), relayer)
					})
					if res == "ok" {
						bandIds = append(bandIds, id)
						bandLen[id] = len(syms)
					}
					emit(J{"op": "bandack", "reqId": fmt.Sprint(id), "symbols": syms, "res": res, "store": storeDump()})
				} else {
					id := bandIds[r.Intn(len(bandIds))]
					if r.Intn(8) == 0 {
						id = 999 // nobody asked
					}
					nr := 1 + r.Intn(3)
					if n0, ok := bandLen[id]; ok && r.Intn(4) != 0 {
						nr = n0 // as many rates as that request had symbols, most of the time
					}
					rates := make([]uint64, nr)
					ratesS := make([]string, nr)
					for i := range rates {
						rates[i] = uint64(1 + r.Int63n(1_000_000_000_000))
						ratesS[i] = fmt.Sprint(rates[i])
					}
					res, _ := callTx(ctx, func(c sdk.Context) error {
						if ack := im.OnRecvPacket(c, bandResponsePacket(bandSeq, params, id, rates), relayer); !ack.Success() {
							return fmt.Errorf("error acknowledgement")
						}
						return nil
					})
					emit(J{"op": "bandanswer", "reqId": fmt.Sprint(id), "rates": ratesS, "res": res, "store": storeDump()})
				}
				continue
			}
			if reviveSet != "" {
				a := reviveSet
				reviveSet, reviveFeed = "", a
				msg := &otypes.MsgSetPriceFeeder{Feeder: a, IsActive: true}
				res, _ := callTx(ctx, func(c sdk.Context) error { _, err := ms.SetPriceFeeder(c, msg); return err })
				emit(J{"op": "setfeeder", "feeder": a, "active": true, "res": res, "fobs": feederDump()})
				continue
			}
			switch {
			case c < 22: // FeedPrice from a feeder or a non-feeder
				signer := pickSigner()
				msg := &otypes.MsgFeedPrice{Provider: signer, FeedPrice: mkFeed()}
				sf, sa := signerObs(signer)
				vb := msg.ValidateBasic() == nil
				res := "fail"
				if vb {
					res, _ = callTx(ctx, func(c sdk.Context) error { _, err := ms.FeedPrice(c, msg); return err })
				}
				switch {
				case !vb:
					stats["feedsigner/invalid-msg"]++
				case !sf:
					stats["feedsigner/not-registered"]++
				case !sa:
					stats["feedsigner/inactive"]++
				default:
					stats["feedsigner/active"]++
				}
				emit(J{"op": "feed", "signer": signer, "vb": vb, "feeds": feedsJ([]otypes.FeedPrice{msg.FeedPrice}),
					"signer_found": sf, "signer_active": sa, "res": res, "store": storeDump()})
			case c < 34: // FeedMultiplePrices
				signer := pickSigner()
				fs := []otypes.FeedPrice{}
				for i := r.Intn(4); i >= 0; i-- {
					fs = append(fs, mkFeed())
				}
				if r.Intn(12) == 0 {
					fs = []otypes.FeedPrice{} // ValidateBasic rejects the empty list
				}
				msg := &otypes.MsgFeedMultiplePrices{Creator: signer, FeedPrices: fs}
				sf, sa := signerObs(signer)
				vb := msg.ValidateBasic() == nil
				res := "fail"
				if vb {
					res, _ = callTx(ctx, func(c sdk.Context) error { _, err := ms.FeedMultiplePrices(c, msg); return err })
				}
				emit(J{"op": "feedmulti", "signer": signer, "vb": vb, "feeds": feedsJ(fs),
					"signer_found": sf, "signer_active": sa, "res": res, "store": storeDump()})
			case c < 44: // feeder management through the message server
				a := addrs[r.Intn(len(addrs))]
				switch r.Intn(6) {
				case 0, 1:
					active := r.Intn(2) == 0
					msg := &otypes.MsgSetPriceFeeder{Feeder: a, IsActive: active}
					res, _ := callTx(ctx, func(c sdk.Context) error { _, err := ms.SetPriceFeeder(c, msg); return err })
					emit(J{"op": "setfeeder", "feeder": a, "active": active, "res": res, "fobs": feederDump()})
				case 2:
					msg := &otypes.MsgDeletePriceFeeder{Feeder: a}
					res, _ := callTx(ctx, func(c sdk.Context) error { _, err := ms.DeletePriceFeeder(c, msg); return err })
					emit(J{"op": "delfeeder", "feeder": a, "res": res, "fobs": feederDump()})
				case 3, 4:
					auth := w.Gov
					if r.Intn(4) == 0 {
						auth = addrs[r.Intn(len(addrs))]
					}
					fl := []string{a}
					if r.Intn(3) == 0 {
						fl = append(fl, addrs[r.Intn(len(addrs))])
					}
					msg := &otypes.MsgAddPriceFeeders{Authority: auth, Feeders: fl}
					res, _ := callTx(ctx, func(c sdk.Context) error { _, err := ms.AddPriceFeeders(c, msg); return err })
					emit(J{"op": "addfeeders", "auth": auth, "feeders": fl, "res": res, "fobs": feederDump()})
				default:
					auth := w.Gov
					if r.Intn(4) == 0 {
						auth = addrs[r.Intn(len(addrs))]
					}
					msg := &otypes.MsgRemovePriceFeeders{Authority: auth, Feeders: []string{a}}
					res, _ := callTx(ctx, func(c sdk.Context) error { _, err := ms.RemovePriceFeeders(c, msg); return err })
					emit(J{"op": "rmfeeders", "auth": auth, "feeders": msg.Feeders, "res": res, "fobs": feederDump()})
					if res == "ok" && r.Intn(2) == 0 {
						reviveSet = a
					}
				}
			case c < 52: // asset info
				d := c16Denoms[r.Intn(len(c16Denoms)-1)] // "unone" never gets an info
				if r.Intn(6) == 0 {
					k.RemoveAssetInfo(ctx, d)
					emit(J{"op": "rminfo", "denom": d, "res": "ok"})
				} else {
					dec := []uint64{0, 6, 6, 8, 18, 18, 30, 77, 78, 1 << 63, 1<<64 - 1}[r.Intn(11)]
					disp := assets[r.Intn(len(assets))]
					k.SetAssetInfo(ctx, otypes.AssetInfo{Denom: d, Display: disp, BandTicker: disp, ElysTicker: disp, Decimal: dec})
					emit(J{"op": "info", "denom": d, "display": disp, "decimal": fmt.Sprint(dec), "res": "ok"})
				}
			case c < 70: // direct SetPrice (genesis / band packet / migration path) at a chosen timestamp
				var ts uint64
				switch r.Intn(5) {
				case 0:
					ts = specialTs[r.Intn(len(specialTs))]
				case 1:
					if p, ok := anyStored(); ok {
						ts = p.Timestamp // equal to a stored one
					}
				case 2:
					if p, ok := anyStored(); ok {
						ts = p.Timestamp ^ (1 << uint(8*(4+r.Intn(3)))) // differs only in a high byte
					}
				default:
					back := int64(r.Intn(int(expiry) + 3))
					if back > now {
						back = now
					}
					ts = uint64(now - back)
				}
				hback := int64(r.Intn(int(min64(int64(life), 20)) + 3))
				if hback > height {
					hback = height
				}
				p := otypes.Price{Asset: assets[r.Intn(len(assets))], Source: sources[r.Intn(len(sources))], Price: priceChoices(),
					Provider: "automation", Timestamp: ts, BlockHeight: uint64(height - hback)}
				if r.Intn(8) == 0 {
					p.Source = "" // not feedable, but a keeper write (genesis) can carry it
				}
				if q, ok := anyStored(); ok && r.Intn(4) == 0 {
					// same key bytes, different (asset, source): overwrites q in the store
					if a2, s2, ok := otherSplit(q.Asset, q.Source); ok {
						p.Asset, p.Source, p.Timestamp = a2, s2, q.Timestamp
						if q.BlockHeight > 0 && r.Intn(2) == 0 {
							p.BlockHeight = q.BlockHeight - 1 - uint64(r.Int63n(int64(q.BlockHeight)))
						}
						stats["set/samekey"]++
					}
				}
				res, _ := callTx(ctx, func(c sdk.Context) error { k.SetPrice(c, p); return nil })
				emit(J{"op": "set", "p": c16Price(p), "res": res, "store": storeDump()})
			case c < 84: // EndBlock, often exactly on an expiry boundary
				if p, ok := anyStored(); ok && r.Intn(3) != 0 {
					if r.Intn(2) == 0 {
						if t := int64(p.Timestamp+expiry) + int64(r.Intn(3)) - 1; p.Timestamp < 1<<62 && t >= now {
							now = t
						}
					} else {
						if h := int64(p.BlockHeight+life) + int64(r.Intn(3)) - 1; h >= height {
							height = h
						}
					}
					ctx = ctx.WithBlockTime(time.Unix(now, 0).UTC()).WithBlockHeight(height)
				}
				before := len(k.GetAllPrice(ctx))
				for _, q := range k.GetAllPrice(ctx) {
					if int64(q.Timestamp+expiry) == now || int64(q.BlockHeight+life) == height {
						stats["endblock/on-boundary"]++
						break
					}
				}
				res, _ := callTx(ctx, func(c sdk.Context) error { k.EndBlock(c); return nil })
				st := storeDump()
				stats["endblock/removed"] += before - len(st)
				emit(J{"op": "endblock", "res": res, "store": st})
				sweep()
			case c < 92:
				sweep()
			default:
				if r.Intn(2) == 0 {
					lookupAsset(c16Assets[r.Intn(len(c16Assets))])
				} else {
					lookupDenom(c16Denoms[r.Intn(len(c16Denoms))])
				}
			}
		}
		sweep()
	}
	out.Line(J{"t": "stats", "dist": stats})
}
