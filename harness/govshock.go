package harness

// Governance shocks (C18: "parameter settings permitted by validation"): between two blocks a governance-gated message is
// built by the constructor table of the C17 harness (a body that is valid for the current state), ONE field of it is set to a
// boundary value chosen by its type, and the message is applied the way a passed proposal is: ValidateBasic, then the module's
// own handler with the governance authority on a cache context that is written only when the handler succeeds (a panic
// inside it is recovered, as x/gov does). Whatever the chain's own validation lets through is a legal environment for the
// blocks that follow.

import (
	lptypes "github.com/elys-network/elys/x/leveragelp/types"
	ctypes "github.com/elys-network/elys/x/commitment/types"
	"fmt"
	"reflect"
	"sort"
	"strings"

	"cosmossdk.io/math"
	sdk "github.com/cosmos/cosmos-sdk/types"
	distrtypes "github.com/cosmos/cosmos-sdk/x/distribution/types"
	ammtypes "github.com/elys-network/elys/x/amm/types"
	sstypes "github.com/elys-network/elys/x/stablestake/types"
)

type shockLeaf struct {
	path string
	v    reflect.Value
}

var (
	tDec = reflect.TypeOf(math.LegacyDec{})
	tInt = reflect.TypeOf(math.Int{})
)

func shockLeaves(v reflect.Value, path string, out *[]shockLeaf, depth int) {
	if depth > 6 {
		return
	}
	switch {
	case v.Type() == tDec || v.Type() == tInt:
		if v.CanSet() {
			*out = append(*out, shockLeaf{path, v})
		}
		return
	}
	switch v.Kind() {
	case reflect.Ptr:
		if !v.IsNil() {
			shockLeaves(v.Elem(), path, out, depth+1)
		}
	case reflect.Struct:
		for i := 0; i < v.NumField(); i++ {
			f := v.Type().Field(i)
			if !f.IsExported() || strings.HasPrefix(f.Name, "XXX_") {
				continue
			}
			shockLeaves(v.Field(i), path+"."+f.Name, out, depth+1)
		}
	case reflect.Slice:
		if v.CanSet() && v.Len() > 0 {
			*out = append(*out, shockLeaf{path + "[]", v})
		}
		for i := 0; i < v.Len() && i < 4; i++ {
			shockLeaves(v.Index(i), fmt.Sprintf("%s[%d]", path, i), out, depth+1)
		}
	case reflect.Int64, reflect.Int32, reflect.Int, reflect.Uint64, reflect.Uint32, reflect.Bool, reflect.String:
		if v.CanSet() {
			*out = append(*out, shockLeaf{path, v})
		}
	}
}

// shockSet puts a boundary value of the leaf's type into it and says which.
func (h *Hist) shockSet(l shockLeaf) string {
	r := h.r
	v := l.v
	switch {
	case v.Type() == tDec:
		cur, _ := v.Interface().(math.LegacyDec)
		opts := []string{"0", "0.000000000000000001", "0.5", "1", "1.000000000000000001", "2", "100", "1000000000", "-1", "0.999999999999999999"}
		d := D(opts[r.Intn(len(opts))])
		if !cur.IsNil() && r.Intn(4) == 0 {
			d = cur.Mul(D([]string{"0.5", "2", "10", "0.1"}[r.Intn(4)]))
		}
		v.Set(reflect.ValueOf(d))
		return d.String()
	case v.Type() == tInt:
		x := []math.Int{math.ZeroInt(), math.OneInt(), math.NewInt(-1), math.NewInt(2), math.NewIntWithDecimal(1, 30), math.NewInt(1_000_000)}[r.Intn(6)]
		v.Set(reflect.ValueOf(x))
		return x.String()
	}
	switch v.Kind() {
	case reflect.Int64, reflect.Int32, reflect.Int:
		x := []int64{0, 1, 2, -1, 1 << 30, 10, 1000}[r.Intn(7)]
		v.SetInt(x)
		return fmt.Sprint(x)
	case reflect.Uint64, reflect.Uint32:
		x := []uint64{0, 1, 2, 1 << 31, 10, 1000}[r.Intn(6)]
		v.SetUint(x)
		return fmt.Sprint(x)
	case reflect.Bool:
		v.SetBool(!v.Bool())
		return fmt.Sprint(v.Bool())
	case reflect.String:
		x := []string{"", "day", "week", "hour", "ten_days", "band_epoch", "nosuchepoch", "uusdc", "uatom", "uelys", "ueden", "unosuch", h.w.Accts[3].Addr.String(), "xyz"}[r.Intn(14)]
		v.SetString(x)
		return fmt.Sprintf("%q", x)
	case reflect.Slice:
		v.Set(reflect.Zero(v.Type()))
		return "empty"
	}
	return "?"
}

// govApplyRecorded: ValidateBasic, apply as a passed proposal, record for replay; false when refused.
func (h *Hist) govApplyRecorded(msg sdk.Msg) bool {
	if vb, ok := msg.(sdk.HasValidateBasic); ok {
		bad := false
		func() {
			defer func() {
				if recover() != nil {
					bad = true
				}
			}()
			if vb.ValidateBasic() != nil {
				bad = true
			}
		}()
		if bad {
			return false
		}
	}
	if !govApply(h.w, msg) {
		return false
	}
	curPre = append(curPre, J{"kind": "gov", "msg": c17MsgJSON(h.w, msg)})
	return true
}

// govDistrShock: the fee distribution the estaking module wraps (x/estaking/modules/distribution) is governed by the SDK's
// distribution parameters: the community tax is set to a boundary value its validation permits.
func (h *Hist) govDistrShock() string {
	var dp distrtypes.Params
	h.w.Seed(func(ctx sdk.Context) { dp, _ = h.w.App.DistrKeeper.Params.Get(ctx) })
	tax := []string{"0", "1", "0.000000000000000001", "0.5", "0.02"}[h.r.Intn(5)]
	dp.CommunityTax = D(tax)
	if h.govApplyRecorded(&distrtypes.MsgUpdateParams{Authority: h.w.Gov, Params: dp}) {
		return "distribution.CommunityTax=" + tax
	}
	return ""
}

// govPoolShock: governance rewrites the parameters of one amm pool (MsgUpdatePoolParams on the pool's current parameters): the
// oracle switch is flipped or the swap fee moved. Half of the time the pool is one in which somebody holds shares that are still
// under their one-hour commitment lock, and that holder then tries to exit in the next block (returned as a directed tx).
func (h *Hist) govPoolShock() (string, *histTx) {
	p := h.std.Pools[h.r.Intn(len(h.std.Pools))]
	var holder *Acct
	var pp ammtypes.PoolParams
	found := false
	var have math.Int
	h.w.Seed(func(ctx sdk.Context) {
		if h.r.Intn(2) == 0 {
			now := uint64(ctx.BlockTime().Unix())
			for _, a := range h.w.Accts {
				c := h.w.App.CommitmentKeeper.GetCommitments(ctx, a.Addr)
				for _, ct := range c.CommittedTokens {
					for _, l := range ct.Lockups {
						if l.UnlockTimestamp > now && holder == nil {
							for _, q := range h.std.Pools {
								if q.ShareDen == ct.Denom {
									p, holder, have = q, a, ct.Amount
								}
							}
						}
					}
				}
			}
		}
		if pool, ok := h.w.App.AmmKeeper.GetPool(ctx, p.Id); ok {
			pp, found = pool.PoolParams, true
		}
	})
	if !found {
		return "", nil
	}
	what := ""
	if holder != nil || h.r.Intn(2) == 0 {
		pp.UseOracle = !pp.UseOracle
		what = fmt.Sprintf("pool%d.UseOracle=%v", p.Id, pp.UseOracle)
	} else {
		pp.SwapFee = D([]string{"0", "0.001", "0.01", "0.02"}[h.r.Intn(4)])
		what = fmt.Sprintf("pool%d.SwapFee=%s", p.Id, pp.SwapFee)
	}
	if !h.govApplyRecorded(&ammtypes.MsgUpdatePoolParams{Authority: h.w.Gov, PoolId: p.Id, PoolParams: pp}) {
		return "", nil
	}
	if holder == nil {
		return what, nil
	}
	sh := have.QuoRaw(int64(1 + h.r.Intn(3)))
	if !sh.IsPositive() {
		sh = math.OneInt()
	}
	return what, &histTx{kind: "amm.exit", f: J{"pool": p.Id, "shareIn": sh.String(), "outDenom": "", "afterPoolShock": true, "signer": holder.Addr.String(), "fee": [][]string{}},
		req: TxReq{Signer: holder, Msgs: []sdk.Msg{&ammtypes.MsgExitPool{Sender: holder.Addr.String(), PoolId: p.Id, MinAmountsOut: sdk.Coins{}, ShareAmountIn: sh}}}}
}

// govVaultShock: governance re-sends the lending vault's parameters with another epoch length (the number of blocks between two
// adjustments of the interest rate; the default is 1) - everything else as it stands.
// govAmmShock: governance moves ONE of the amm module's fee parameters to another value its validation accepts (the defaults are
// what every test of the repository runs with: portions of exactly one half make "the treasury's share" and "the pool's share" of a
// weight-breaking fee the same number).
func (h *Hist) govAmmShock() string {
	var p ammtypes.Params
	h.w.Seed(func(ctx sdk.Context) { p = h.w.App.AmmKeeper.GetParams(ctx) })
	what := ""
	switch h.r.Intn(4) {
	case 0, 1:
		p.WeightBreakingFeePortion = D([]string{"0", "0.2", "0.75", "1"}[h.r.Intn(4)])
		what = "amm.WeightBreakingFeePortion=" + p.WeightBreakingFeePortion.String()
	case 2:
		p.WeightRecoveryFeePortion = D([]string{"0", "0.3", "0.9", "1"}[h.r.Intn(4)])
		what = "amm.WeightRecoveryFeePortion=" + p.WeightRecoveryFeePortion.String()
	default:
		p.WeightBreakingFeeMultiplier = D([]string{"0", "0.0002", "0.002"}[h.r.Intn(3)])
		what = "amm.WeightBreakingFeeMultiplier=" + p.WeightBreakingFeeMultiplier.String()
	}
	if h.govApplyRecorded(&ammtypes.MsgUpdateParams{Authority: h.w.Gov, Params: &p}) {
		return what
	}
	return ""
}

// govVestShock: governance enables vest-now and sets what Eden vests into: ELYS (as everywhere in the repository's tests), or an asset
// the chain does not issue (the validation of MsgUpdateVestingInfo accepts any denom). Whatever it is, turning Eden into it must not
// create units of an externally issued asset.
func (h *Hist) govVestShock() string {
	on := true
	var cur bool
	h.w.Seed(func(ctx sdk.Context) { cur = h.w.App.CommitmentKeeper.GetParams(ctx).EnableVestNow })
	if cur != on {
		if !h.govApplyRecorded(&ctypes.MsgUpdateEnableVestNow{Authority: h.w.Gov, EnableVestNow: on}) {
			return ""
		}
	}
	d := []string{"uelys", "uatom", h.std.USDC}[h.r.Intn(3)]
	if h.govApplyRecorded(&ctypes.MsgUpdateVestingInfo{Authority: h.w.Gov, BaseDenom: "ueden", VestingDenom: d, NumBlocks: 40, VestNowFactor: int64([]int{1, 3, 90}[h.r.Intn(3)]), NumMaxVestings: 8}) {
		return "commitment.EdenVestsInto=" + d
	}
	return "commitment.EnableVestNow"
}

// govLpShock: governance re-submits a leverage-enabled pool with another leverage cap (the handler refuses a pool that exists already),
// or removes one (refused while leveraged shares are recorded for it), or re-sends the module's parameters with another module-wide
// leverage cap. None of them may touch what is recorded for the open positions.
func (h *Hist) govLpShock() string {
	p := h.pool(func(q PoolRef) bool { return q.Oracle })
	if p.Id == 0 {
		return ""
	}
	if h.r.Intn(3) == 0 {
		// the module-wide parameters re-sent with another leverage cap (below or above the pools' own caps), everything else as it stands
		var mp lptypes.Params
		h.w.Seed(func(ctx sdk.Context) { mp = h.w.App.LeveragelpKeeper.GetParams(ctx) })
		lev := []string{"2", "3", "5", "10", "20"}[h.r.Intn(5)]
		mp.LeverageMax = D(lev)
		if h.govApplyRecorded(&lptypes.MsgUpdateParams{Authority: h.w.Gov, Params: &mp}) {
			return "leveragelp.LeverageMax=" + lev
		}
		return ""
	}
	if h.r.Intn(3) == 0 {
		if h.govApplyRecorded(&lptypes.MsgRemovePool{Authority: h.w.Gov, Id: p.Id}) {
			return fmt.Sprintf("leveragelp.RemovePool(%d)", p.Id)
		}
		return ""
	}
	lev := []string{"2", "3", "5", "20"}[h.r.Intn(4)]
	if h.govApplyRecorded(&lptypes.MsgAddPool{Authority: h.w.Gov, Pool: lptypes.AddPool{AmmPoolId: p.Id, LeverageMax: D(lev)}}) {
		return fmt.Sprintf("leveragelp.AddPool(%d, %s)", p.Id, lev)
	}
	return ""
}

func (h *Hist) govVaultShock() string {
	var fresh sstypes.Params
	h.w.Seed(func(ctx sdk.Context) { fresh = h.w.App.StablestakeKeeper.GetParams(ctx) })
	// the message carries the parameters as they were when the PREVIOUS proposal was executed (the draft is older than the vault's
	// latest deposits, withdrawals and interest): whatever the vault did in between must not be undone by the stale copy
	p := fresh
	if h.vaultDraft != nil {
		p = *h.vaultDraft
	}
	h.vaultDraft = &fresh
	p.EpochLength = []int64{1, 2, 5, 10, 30}[h.r.Intn(5)]
	if h.govApplyRecorded(&sstypes.MsgUpdateParams{Authority: h.w.Gov, Params: &p}) {
		return fmt.Sprintf("stablestake.EpochLength=%d", p.EpochLength)
	}
	return ""
}

// govShock applies one mutated governance message; "" when nothing was applied (validation or the handler refused it).
func (h *Hist) govShock() string {
	w := h.w
	if h.r.Intn(8) == 0 {
		return h.govDistrShock()
	}
	urls := make([]string, 0, len(c17Ctors))
	for u := range c17Ctors {
		urls = append(urls, u)
	}
	sort.Strings(urls)
	u := urls[h.r.Intn(len(urls))]
	var msg sdk.Msg
	func() {
		defer func() { _ = recover() }()
		msg = c17Ctors[u](&c17Env{w: w, std: h.std, ctx: w.Ctx(), other: w.Accts[3].Addr.String()}, w.Gov)
	}()
	if msg == nil {
		return ""
	}
	var leaves []shockLeaf
	shockLeaves(reflect.ValueOf(msg), "", &leaves, 0)
	var cand []shockLeaf
	for _, l := range leaves {
		if l.path == ".Authority" || l.path == ".Creator" || l.path == ".Sender" {
			continue
		}
		cand = append(cand, l)
	}
	if len(cand) == 0 {
		return ""
	}
	l := cand[h.r.Intn(len(cand))]
	val := h.shockSet(l)
	if vb, ok := msg.(sdk.HasValidateBasic); ok {
		bad := false
		func() {
			defer func() {
				if recover() != nil {
					bad = true
				}
			}()
			if vb.ValidateBasic() != nil {
				bad = true
			}
		}()
		if bad {
			return ""
		}
	}
	applied := govApply(w, msg)
	if !applied {
		return ""
	}
	curPre = append(curPre, J{"kind": "gov", "msg": c17MsgJSON(w, msg)})
	return strings.TrimPrefix(u, "/elys.") + l.path + "=" + val
}

// govApply runs a governance message the way a passed proposal is run: the module's handler on a cache context that is
// written only on success; a panic is recovered.
func govApply(w *World, msg sdk.Msg) bool {
	handler := w.App.MsgServiceRouter().Handler(msg)
	if handler == nil {
		return false
	}
	applied := false
	w.Seed(func(ctx sdk.Context) {
		cctx, write := ctx.CacheContext()
		func() {
			defer func() { _ = recover() }()
			if _, err := handler(cctx, msg); err == nil {
				write()
				applied = true
			}
		}()
	})
	return applied
}
