package harness

import (
	"bufio"
	"encoding/json"
	"os"
	"strconv"
	"testing"
)

// Out is the JSONL writer shared by all modes (one JSON object per line, flushed per line).
type Out struct {
	w *bufio.Writer
	f *os.File
	N int
}

func (o *Out) Line(v any) {
	b, err := json.Marshal(v)
	if err != nil {
		panic(err)
	}
	o.w.Write(b)
	o.w.WriteByte('\n')
	o.w.Flush()
	o.N++
}

type Mode func(t *testing.T, seed int64, n int, out *Out)

var modes = map[string]Mode{}

func envInt(k string, d int64) int64 {
	if s := os.Getenv(k); s != "" {
		if v, err := strconv.ParseInt(s, 10, 64); err == nil {
			return v
		}
	}
	return d
}

// TestRun is the single entry point: VERIF_MODE selects the generator, VERIF_SEED the PRNG seed,
// VERIF_N the size, VERIF_OUT the output file.
func TestRun(t *testing.T) {
	mode := os.Getenv("VERIF_MODE")
	if mode == "" {
		t.Skip("VERIF_MODE not set")
	}
	m, ok := modes[mode]
	if !ok {
		t.Fatalf("unknown mode %q", mode)
	}
	path := os.Getenv("VERIF_OUT")
	if path == "" {
		t.Fatal("VERIF_OUT not set")
	}
	f, err := os.Create(path)
	if err != nil {
		t.Fatal(err)
	}
	defer f.Close()
	out := &Out{w: bufio.NewWriterSize(f, 1<<16), f: f}
	m(t, envInt("VERIF_SEED", 1), int(envInt("VERIF_N", 100)), out)
	out.w.Flush()
}

func newBuf(f *os.File) *bufio.Writer { return bufio.NewWriterSize(f, 1<<16) }
