#!/bin/sh
# Regenerate the harness go.mod from /repo/go.mod so the harness always builds against the current tree.
set -e
cd "$(dirname "$0")"
REPO=${VERIF_REPO:-/repo}
sed -e 's#^module .*#module verifharness#' "$REPO/go.mod" \
  | sed -e 's#=> \./#=> '"$REPO"'/#g' > go.mod
cat >> go.mod <<EOT

require github.com/elys-network/elys v0.0.0
replace github.com/elys-network/elys => $REPO
EOT
cp "$REPO/go.sum" go.sum
