package harness

// Shared pieces of the numeric amm modes (c03, c05): structured generators, keeper stubs,
// panic-catching call wrapper and a high-precision reference evaluation (math/big).

import (
	"fmt"
	"math"
	"math/big"
	"math/rand"
	"strings"

	"cosmossdk.io/log"
	sdkmath "cosmossdk.io/math"
	tmproto "github.com/cometbft/cometbft/proto/tendermint/types"
	sdk "github.com/cosmos/cosmos-sdk/types"
	ammtypes "github.com/elys-network/elys/x/amm/types"
	oracletypes "github.com/elys-network/elys/x/oracle/types"
)

// ---- keeper stubs (table driven) ----

type accStub struct {
	denoms []string
	amts   []sdkmath.Int
}

func (a accStub) GetAccountedBalance(_ sdk.Context, _ uint64, denom string) sdkmath.Int {
	for i, d := range a.denoms {
		if d == denom {
			return a.amts[i]
		}
	}
	return sdkmath.ZeroInt()
}

type oracleStub struct {
	denoms []string
	prices []sdkmath.LegacyDec
}

func (o oracleStub) GetAssetPrice(_ sdk.Context, _ string) (oracletypes.Price, bool) {
	return oracletypes.Price{}, false
}
func (o oracleStub) GetAssetPriceFromDenom(_ sdk.Context, denom string) sdkmath.LegacyDec {
	for i, d := range o.denoms {
		if d == denom {
			return o.prices[i]
		}
	}
	return sdkmath.LegacyZeroDec()
}
func (o oracleStub) GetPriceFeeder(_ sdk.Context, _ sdk.AccAddress) (oracletypes.PriceFeeder, bool) {
	return oracletypes.PriceFeeder{}, false
}

func pureCtx() sdk.Context {
	return sdk.NewContext(nil, tmproto.Header{Height: 1}, false, log.NewNopLogger())
}

// guard runs fn and collapses its outcome to ok | fail | panic.
func guard(fn func() error) (kind string, text string) {
	defer func() {
		if r := recover(); r != nil {
			kind, text = "panic", cut(fmt.Sprint(r), 90)
		}
	}()
	if err := fn(); err != nil {
		return "fail", cut(err.Error(), 90)
	}
	return "ok", ""
}

func cut(s string, n int) string {
	s = strings.ReplaceAll(s, "\n", " ")
	if len(s) > n {
		return s[:n]
	}
	return s
}

// ---- generators ----

var bigTen = big.NewInt(10)

func pow10(e int) *big.Int { return new(big.Int).Exp(bigTen, big.NewInt(int64(e)), nil) }

// randBelow returns a uniform integer in [0, n) (n > 0).
func randBelow(r *rand.Rand, n *big.Int) *big.Int {
	if n.Sign() <= 0 {
		return big.NewInt(0)
	}
	return new(big.Int).Rand(r, n)
}

// logUniform: uniform exponent in [loExp, hiExp], then uniform in [10^e, 10^(e+1)).
func logUniform(r *rand.Rand, loExp, hiExp int) *big.Int {
	e := loExp + r.Intn(hiExp-loExp+1)
	lo := pow10(e)
	span := new(big.Int).Mul(lo, big.NewInt(9))
	v := new(big.Int).Add(lo, randBelow(r, span))
	if r.Intn(4) == 0 { // round numbers are over-represented on chain
		keep := 1 + r.Intn(3)
		if e >= keep {
			m := pow10(e - keep + 1)
			v.Div(v, m).Mul(v, m)
		}
	}
	return v
}

// logUniformBelow: log-uniform in [1, max] (max >= 1).
func logUniformBelow(r *rand.Rand, max *big.Int) *big.Int {
	if max.Cmp(big.NewInt(1)) <= 0 {
		return big.NewInt(1)
	}
	digits := len(max.String())
	for i := 0; i < 50; i++ {
		v := logUniform(r, 0, digits-1)
		if v.Cmp(max) <= 0 {
			return v
		}
	}
	return new(big.Int).Add(randBelow(r, max), big.NewInt(1))
}

type weightPair struct {
	a, b int64
	name string
}

var stdWeights = []weightPair{{1, 1, "1:1"}, {1, 1, "1:1"}, {1, 1, "1:1"}, {50, 50, "1:1"}, {1, 2, "1:2"}, {2, 1, "2:1"}, {1, 4, "1:4"}, {4, 1, "4:1"},
	{20, 80, "20:80"}, {80, 20, "80:20"}}

func genWeights(r *rand.Rand) weightPair {
	if r.Intn(6) == 0 {
		return weightPair{int64(1 + r.Intn(100)), int64(1 + r.Intn(100)), "random"}
	}
	return stdWeights[r.Intn(len(stdWeights))]
}

var stdFees = []string{"0", "0", "0", "0.0001", "0.0005", "0.001", "0.002", "0.003", "0.01", "0.02"}

func genFee(r *rand.Rand) sdkmath.LegacyDec {
	switch r.Intn(8) {
	case 0: // any raw value in [0, 2%]
		return sdkmath.LegacyNewDecFromBigIntWithPrec(randBelow(r, big.NewInt(20_000_000_000_000_001)), 18)
	case 1: // a tier discount applied to a standard fee, as ApplyDiscount does it
		f := sdkmath.LegacyMustNewDecFromStr(stdFees[r.Intn(len(stdFees))])
		d := sdkmath.LegacyNewDecWithPrec(int64(r.Intn(101)), 2)
		return ammtypes.ApplyDiscount(f, d)
	default:
		return sdkmath.LegacyMustNewDecFromStr(stdFees[r.Intn(len(stdFees))])
	}
}

func gcd64(a, b int64) int64 {
	for b != 0 {
		a, b = b, a%b
	}
	return a
}

// ---- high precision reference ----

const refPrec = 420

func bf(i *big.Int) *big.Float { return new(big.Float).SetPrec(refPrec).SetInt(i) }

func bfPowInt(x *big.Float, n int64) *big.Float {
	res := new(big.Float).SetPrec(refPrec).SetInt64(1)
	b := new(big.Float).SetPrec(refPrec).Set(x)
	for n > 0 {
		if n&1 == 1 {
			res.Mul(res, b)
		}
		b.Mul(b, b)
		n >>= 1
	}
	return res
}

// bfRoot: q-th root of v > 0 by Newton's iteration at refPrec bits.
func bfRoot(v *big.Float, q int64) *big.Float {
	if q == 1 {
		return new(big.Float).SetPrec(refPrec).Set(v)
	}
	// initial guess from the binary exponent and a float64 mantissa
	mant := new(big.Float)
	exp := v.MantExp(mant) // v = mant * 2^exp, mant in [0.5,1)
	mf, _ := mant.Float64()
	lg := (math.Log2(mf) + float64(exp)) / float64(q)
	ip := math.Floor(lg)
	g := new(big.Float).SetPrec(refPrec).SetFloat64(math.Exp2(lg - ip))
	g.SetMantExp(g, int(ip))
	qf := new(big.Float).SetPrec(refPrec).SetInt64(q)
	for i := 0; i < 200; i++ {
		gq1 := bfPowInt(g, q-1)
		// g' = g - (g^q - v) / (q g^(q-1)) = ((q-1) g + v / g^(q-1)) / q
		t := new(big.Float).SetPrec(refPrec).Quo(v, gq1)
		n := new(big.Float).SetPrec(refPrec).Mul(g, new(big.Float).SetPrec(refPrec).SetInt64(q-1))
		n.Add(n, t).Quo(n, qf)
		d := new(big.Float).SetPrec(refPrec).Sub(n, g)
		g = n
		if d.Sign() == 0 {
			break
		}
		if d.MantExp(nil)-g.MantExp(nil) < -(refPrec - 12) {
			break
		}
	}
	return g
}

// bfPowRat: y^(p/q) for y > 0, p,q > 0.
func bfPowRat(y *big.Float, p, q int64) *big.Float {
	g := gcd64(p, q)
	p, q = p/g, q/g
	return bfRoot(bfPowInt(y, p), q)
}

// rawFloor: floor(x * 10^18) as a decimal string (x may be negative).
func rawFloor(x *big.Float) string {
	s := new(big.Float).SetPrec(refPrec).Mul(x, bf(pow10(18)))
	i, acc := s.Int(nil) // truncates toward zero
	if s.Sign() < 0 && acc != big.Exact {
		i.Sub(i, big.NewInt(1))
	}
	return i.String()
}

// decToFloat: a LegacyDec as a big.Float.
func decToFloat(d sdkmath.LegacyDec) *big.Float {
	return new(big.Float).SetPrec(refPrec).Quo(bf(d.BigInt()), bf(pow10(18)))
}
