package harness

// BandChain answers (x/oracle/oracle.go): the second way a price is written. The module sends a request for a list of symbols, BandChain
// acknowledges it with a request id (OnAcknowledgementPacket stores id -> symbols), and later delivers the rates for that id
// (OnRecvPacket stores rate i as the "band" price of symbol i of THAT request). Requests can be in flight together and answers can
// arrive late and out of order.

import (
	"github.com/bandprotocol/bandchain-packet/obi"
	"github.com/bandprotocol/bandchain-packet/packet"
	clienttypes "github.com/cosmos/ibc-go/v8/modules/core/02-client/types"
	channeltypes "github.com/cosmos/ibc-go/v8/modules/core/04-channel/types"
	otypes "github.com/elys-network/elys/x/oracle/types"
)

func bandRequestPacket(seq uint64, params otypes.Params, symbols []string) channeltypes.Packet {
	calldata := obi.MustEncode(otypes.BandPriceCallData{Symbols: symbols, Multiplier: params.Multiplier})
	data := packet.NewOracleRequestPacketData(params.ClientID, params.OracleScriptID, calldata, params.AskCount, params.MinCount, params.FeeLimit, params.PrepareGas, params.ExecuteGas)
	return channeltypes.NewPacket(data.GetBytes(), seq, otypes.PortID, "channel-1", "oracle", "channel-77", clienttypes.NewHeight(0, 0), 1)
}

func bandRequestAck(requestID uint64) []byte {
	ack := channeltypes.NewResultAcknowledgement(otypes.ModuleCdc.MustMarshalJSON(packet.NewOracleRequestPacketAcknowledgement(requestID)))
	return otypes.ModuleCdc.MustMarshalJSON(&ack)
}

func bandResponsePacket(seq uint64, params otypes.Params, requestID uint64, rates []uint64) channeltypes.Packet {
	data := packet.NewOracleResponsePacketData(params.ClientID, requestID, params.MinCount, 1_700_000_000, 1_700_000_005, packet.RESOLVE_STATUS_SUCCESS,
		obi.MustEncode(otypes.BandPriceResult{Rates: rates}))
	return channeltypes.NewPacket(data.GetBytes(), seq, "oracle", "channel-77", otypes.PortID, "channel-1", clienttypes.NewHeight(0, 0), 1)
}
