package harness

// History mode: weighted random op grammar over the modelled messages plus environment events,
// delivered as signed txs through FinalizeBlock + Commit; one `hist.step` line per block with the
// txs (kind, fields, result code) and the observed state after the block.

import (
	"encoding/json"
	"fmt"
	abci "github.com/cometbft/cometbft/abci/types"
	"github.com/cosmos/cosmos-sdk/crypto/keys/ed25519"
	authtypes "github.com/cosmos/cosmos-sdk/x/auth/types"
	stakingtypes "github.com/cosmos/cosmos-sdk/x/staking/types"
	"math/rand"
	"os"
	"strings"
	"testing"
	"time"

	"cosmossdk.io/math"
	sdk "github.com/cosmos/cosmos-sdk/types"
	banktypes "github.com/cosmos/cosmos-sdk/x/bank/types"
	ammtypes "github.com/elys-network/elys/x/amm/types"
	burnertypes "github.com/elys-network/elys/x/burner/types"
	ctypes "github.com/elys-network/elys/x/commitment/types"
	epochstypes "github.com/elys-network/elys/x/epochs/types"
	lptypes "github.com/elys-network/elys/x/leveragelp/types"
	mctypes "github.com/elys-network/elys/x/masterchef/types"
	oracletypes "github.com/elys-network/elys/x/oracle/types"
	perptypes "github.com/elys-network/elys/x/perpetual/types"
	sstypes "github.com/elys-network/elys/x/stablestake/types"
	toktypes "github.com/elys-network/elys/x/tokenomics/types"
	tstypes "github.com/elys-network/elys/x/tradeshield/types"
)

func init() { modes["hist"] = runHist }

type histTx struct {
	req  TxReq
	kind string
	f    J
}

type Hist struct {
	w     *World
	std   *Std
	r     *rand.Rand
	focus string
	whale bool
	// the vault's parameters as governance last read them: a proposal is drafted from a query, voted on, and executed blocks later
	vaultDraft *sstypes.Params
	// stickyPool: the pool the transactions of the current multi-transaction block prefer (0 = none)
	stickyPool uint64
}

func (h *Hist) user() *Acct { return h.w.Accts[h.r.Intn(len(h.w.Accts)-1)] } // last account is the feeder

func (h *Hist) amt(lo, hi int64) math.Int {
	// log-uniform between lo and hi
	if hi <= lo {
		return math.NewInt(lo)
	}
	x := float64(lo) * pow(float64(hi)/float64(lo), h.r.Float64())
	return math.NewInt(int64(x))
}

func pow(b, e float64) float64 {
	// small helper to avoid importing math (name clash with cosmossdk.io/math)
	r := 1.0
	// exp(e*ln b) via repeated sqrt is overkill; use the series through big steps
	// b^e = 2^(e*log2 b): approximate with 40 halvings
	lb := 0.0
	x := b
	for x >= 2 {
		x /= 2
		lb++
	}
	f := 0.5
	for i := 0; i < 40; i++ {
		x *= x
		if x >= 2 {
			x /= 2
			lb += f
		}
		f /= 2
	}
	t := e * lb
	for t >= 1 {
		r *= 2
		t--
	}
	// 2^t for t in [0,1): binary expansion with precomputed roots
	root := 1.4142135623730951
	for i := 0; i < 40; i++ {
		t *= 2
		if t >= 1 {
			r *= root
			t--
		}
		root = sqrtf(root)
	}
	return r
}

func sqrtf(x float64) float64 {
	z := x
	for i := 0; i < 30; i++ {
		z = (z + x/z) / 2
	}
	return z
}

func coin(d string, a math.Int) sdk.Coin { return sdk.NewCoin(d, a) }

func (h *Hist) pool(pred func(PoolRef) bool) PoolRef {
	var c []PoolRef
	for _, p := range h.std.Pools {
		if pred == nil || pred(p) {
			c = append(c, p)
		}
	}
	if len(c) == 0 {
		return PoolRef{}
	}
	pick := c[h.r.Intn(len(c))]
	if h.stickyPool != 0 {
		// a block with several transactions: they tend to meet on one pool (the second swap of a block, a swap after a join …)
		for _, p := range c {
			if p.Id == h.stickyPool && h.r.Intn(3) != 0 {
				return p
			}
		}
	}
	return pick
}

func other(p PoolRef, d string) string {
	for _, x := range p.Denoms {
		if x != d {
			return x
		}
	}
	return d
}

// genTx draws one transaction from the grammar.
func (h *Hist) genTx() *histTx {
	w, r := h.w, h.r
	ctx := w.Ctx()
	u := h.user()
	weights := []struct {
		k string
		w int
	}{
		{"amm.join", 10}, {"amm.exit", 8}, {"amm.swapIn", 10}, {"amm.swapOut", 6}, {"amm.swapByDenom", 3}, {"amm.swapBurst", 2},
		{"ss.bond", 5}, {"ss.unbond", 5},
		{"cm.commitClaimed", 3}, {"cm.uncommit", 3}, {"cm.vest", 3}, {"cm.cancelVest", 2}, {"cm.claimVesting", 3}, {"cm.vestLiquid", 1}, {"cm.vestNow", 1}, {"stake.delegate", 2}, {"stake.undelegate", 2}, {"cm.unstakeOther", 1}, {"bank.toZero", 1},
		{"lp.open", 8}, {"lp.close", 6}, {"lp.closePositions", 4}, {"lp.claim", 1},
		{"perp.open", 8}, {"perp.close", 6}, {"perp.closePositions", 4}, {"perp.swapOutPair", 1},
		{"mc.claim", 3}, {"mc.externalIncentive", 1},
		{"ts.spotCreate", 3}, {"ts.spotCancel", 2}, {"ts.perpCreate", 3}, {"ts.perpCancel", 2}, {"ts.execute", 4}, {"ts.spotUpdate", 1}, {"ts.perpUpdate", 1}, {"ts.spotCancelMany", 1}, {"ts.perpCancelMany", 1},
		{"bank.donate", 3}, {"amm.feedExternalLiquidity", 2},
	}
	tot := 0
	for _, x := range weights {
		wt := x.w
		if h.focus != "" && strings.HasPrefix(x.k, h.focus) {
			wt *= 5
		}
		tot += wt
	}
	pick := r.Intn(tot)
	kind := ""
	for _, x := range weights {
		wt := x.w
		if h.focus != "" && strings.HasPrefix(x.k, h.focus) {
			wt *= 5
		}
		if pick < wt {
			kind = x.k
			break
		}
		pick -= wt
	}
	tx := &histTx{kind: kind, f: J{}}
	tx.req.Signer = u
	app := w.App
	switch kind {
	case "amm.join":
		p := h.pool(nil)
		pool, _ := app.AmmKeeper.GetPool(ctx, p.Id)
		single := r.Intn(3) == 0
		var maxIn sdk.Coins
		shareOut := math.ZeroInt()
		if single {
			d := p.Denoms[r.Intn(len(p.Denoms))]
			maxIn = sdk.NewCoins(coin(d, h.amt(1, 50_000_000_000)))
			if r.Intn(2) == 0 {
				// a single-sided join may state a share amount too — up to a fifth of the pool, whatever the deposit is worth
				shareOut = pool.TotalShares.Amount.Mul(h.amt(1, 200_000_000)).Quo(math.NewInt(1_000_000_000))
			}
		} else {
			// all-asset join: ask for a fraction of the total shares, give generous max amounts
			frac := h.amt(1, 200_000_000) // parts per 1e9
			shareOut = pool.TotalShares.Amount.Mul(frac).Quo(math.NewInt(1_000_000_000))
			for _, a := range pool.PoolAssets {
				maxIn = maxIn.Add(coin(a.Token.Denom, a.Token.Amount.Mul(frac).Quo(math.NewInt(1_000_000_000)).MulRaw(2).AddRaw(10)))
			}
			if r.Intn(5) == 0 {
				shareOut = math.ZeroInt()
			}
		}
		tx.req.Msgs = []sdk.Msg{&ammtypes.MsgJoinPool{Sender: u.Addr.String(), PoolId: p.Id, MaxAmountsIn: maxIn, ShareAmountOut: shareOut}}
		tx.f = J{"pool": p.Id, "maxIn": coinsArr(maxIn), "shareOut": shareOut.String(), "single": single}
		if r.Intn(5) == 0 {
			// the same account joins the same pool twice at the same block time (one tx, two messages): a dust join first, then the real one
			dust := &ammtypes.MsgJoinPool{Sender: u.Addr.String(), PoolId: p.Id, MaxAmountsIn: sdk.NewCoins(coin(p.Denoms[0], h.amt(10, 100_000))), ShareAmountOut: math.ZeroInt()}
			tx.req.Msgs = []sdk.Msg{dust, tx.req.Msgs[0]}
			tx.f["twice"] = true
		}
	case "amm.exit":
		p := h.pool(nil)
		c := app.CommitmentKeeper.GetCommitments(ctx, u.Addr)
		have := c.GetCommittedAmountForDenom(p.ShareDen)
		var sh math.Int
		switch r.Intn(7) {
		case 0:
			sh = have
		case 1:
			sh = have.AddRaw(1)
		case 2:
			sh = h.amt(1, 10_000_000_000_000) // dust: shares worth less than one base unit of some or every asset
		case 3:
			// exactly what can be withdrawn right now: committed minus what is still under its one-hour lock (a tie in the lock-up check)
			locked := math.ZeroInt()
			for _, ct := range c.CommittedTokens {
				if ct.Denom == p.ShareDen {
					for _, l := range ct.Lockups {
						if l.UnlockTimestamp > uint64(ctx.BlockTime().Unix()) {
							locked = locked.Add(l.Amount)
						}
					}
				}
			}
			sh = have.Sub(locked)
		default:
			sh = have.Mul(h.amt(1, 1_000_000)).Quo(math.NewInt(1_000_000))
		}
		if !sh.IsPositive() {
			sh = math.OneInt()
		}
		outDenom := ""
		if p.Oracle && r.Intn(2) == 0 {
			outDenom = p.Denoms[r.Intn(len(p.Denoms))]
		}
		tx.req.Msgs = []sdk.Msg{&ammtypes.MsgExitPool{Sender: u.Addr.String(), PoolId: p.Id, MinAmountsOut: sdk.Coins{}, ShareAmountIn: sh, TokenOutDenom: outDenom}}
		tx.f = J{"pool": p.Id, "shareIn": sh.String(), "outDenom": outDenom}
	case "amm.swapIn", "amm.swapOut", "amm.swapByDenom":
		p := h.pool(nil)
		din := p.Denoms[r.Intn(len(p.Denoms))]
		dout := other(p, din)
		recipient := u.Addr.String()
		if r.Intn(4) == 0 {
			recipient = h.user().Addr.String()
		}
		a := h.amt(1, 20_000_000_000)
		switch r.Intn(9) {
		case 0:
			a = h.amt(1, 30_000) // dust
		case 1, 2:
			a = math.NewInt(int64(300 + r.Intn(14_000))) // the swap fee itself is a handful of base units: its skim and its conversion to the fee denom truncate, some to zero
		case 3:
			// whale: an exact fraction or multiple of the pool's reserve (reserve ratios of exactly 2, 3/2, 4 ...; more than half the pool out)
			if pool, ok := app.AmmKeeper.GetPool(ctx, p.Id); ok {
				d := din
				fr := [][2]int64{{1, 2}, {1, 1}, {3, 2}, {3, 1}}[r.Intn(4)]
				if kind == "amm.swapOut" {
					d = dout
					fr = [][2]int64{{1, 2}, {1, 4}, {3, 4}, {2, 3}}[r.Intn(4)]
				}
				for _, pa := range pool.PoolAssets {
					if pa.Token.Denom == d {
						a = pa.Token.Amount.MulRaw(fr[0]).QuoRaw(fr[1])
					}
				}
				if !a.IsPositive() {
					a = math.OneInt()
				}
			}
		}
		switch kind {
		case "amm.swapIn":
			routes := []ammtypes.SwapAmountInRoute{{PoolId: p.Id, TokenOutDenom: dout}}
			if r.Intn(4) == 0 { // two hops through another pool back to a third denom
				p2 := h.pool(func(q PoolRef) bool { return q.Id != p.Id && contains(q.Denoms, dout) })
				if r.Intn(3) == 0 {
					p2 = p // a route that goes through the same pool twice (A -> B -> A): route validation allows it
				}
				if p2.Id != 0 {
					routes = append(routes, ammtypes.SwapAmountInRoute{PoolId: p2.Id, TokenOutDenom: other(p2, dout)})
				}
			}
			tx.req.Msgs = []sdk.Msg{&ammtypes.MsgSwapExactAmountIn{Sender: u.Addr.String(), Routes: routes, TokenIn: coin(din, a), TokenOutMinAmount: math.OneInt(), Recipient: recipient}}
			tx.f = J{"pool": p.Id, "in": []string{din, a.String()}, "hops": len(routes), "recipient": recipient}
		case "amm.swapOut":
			routes := []ammtypes.SwapAmountOutRoute{{PoolId: p.Id, TokenInDenom: din}}
			out := coin(dout, a)
			if r.Intn(4) == 0 {
				p0 := h.pool(func(q PoolRef) bool { return q.Id != p.Id && contains(q.Denoms, din) })
				if r.Intn(3) == 0 {
					p0 = p // the same pool twice
				}
				if p0.Id != 0 {
					routes = append([]ammtypes.SwapAmountOutRoute{{PoolId: p0.Id, TokenInDenom: other(p0, din)}}, routes...)
				}
			}
			tx.req.Msgs = []sdk.Msg{&ammtypes.MsgSwapExactAmountOut{Sender: u.Addr.String(), Routes: routes, TokenOut: out, TokenInMaxAmount: math.NewInt(1_000_000_000_000_000), Recipient: recipient}}
			tx.f = J{"pool": p.Id, "out": []string{dout, a.String()}, "hops": len(routes), "recipient": recipient}
		default:
			tx.req.Msgs = []sdk.Msg{&ammtypes.MsgSwapByDenom{Sender: u.Addr.String(), Amount: coin(din, a), MinAmount: coin(dout, math.ZeroInt()), DenomIn: din, DenomOut: dout, Recipient: recipient}}
			tx.f = J{"in": []string{din, a.String()}, "out": dout, "recipient": recipient}
		}
	case "amm.swapBurst":
		// one transaction with two or three swap messages on the SAME pool, each a noticeable part of a reserve (0.5 % to 10 %): they are all
		// executed at the end of the block, one after the other, every one on the reserves the previous one left
		p := h.pool(nil)
		pool, ok := app.AmmKeeper.GetPool(ctx, p.Id)
		if !ok || len(pool.PoolAssets) != 2 {
			return nil
		}
		var msgs []sdk.Msg
		nm := 2 + r.Intn(2)
		for i := 0; i < nm; i++ {
			io := r.Intn(2)
			ain, aout := pool.PoolAssets[io], pool.PoolAssets[1-io]
			permille := int64([]int{5, 10, 30, 100}[r.Intn(4)])
			if r.Intn(2) == 0 {
				a := ain.Token.Amount.MulRaw(permille).QuoRaw(1000)
				if a.IsPositive() {
					msgs = append(msgs, &ammtypes.MsgSwapExactAmountIn{Sender: u.Addr.String(), Routes: []ammtypes.SwapAmountInRoute{{PoolId: p.Id, TokenOutDenom: aout.Token.Denom}},
						TokenIn: sdk.NewCoin(ain.Token.Denom, a), TokenOutMinAmount: math.OneInt(), Recipient: u.Addr.String()})
				}
			} else {
				a := aout.Token.Amount.MulRaw(permille).QuoRaw(1000)
				if a.IsPositive() {
					msgs = append(msgs, &ammtypes.MsgSwapExactAmountOut{Sender: u.Addr.String(), Routes: []ammtypes.SwapAmountOutRoute{{PoolId: p.Id, TokenInDenom: ain.Token.Denom}},
						TokenOut: sdk.NewCoin(aout.Token.Denom, a), TokenInMaxAmount: math.NewInt(1_000_000_000_000_000), Recipient: u.Addr.String()})
				}
			}
		}
		if len(msgs) < 2 {
			return nil
		}
		tx.req.Msgs = msgs
		tx.f = J{"pool": p.Id, "msgs": len(msgs)}
	case "perp.swapOutPair":
		// two exact-out requests in ONE block against a perpetual pool, each for a good part of what the pool holds beyond the custody of its
		// positions: each alone is acceptable when it is sent; executed one after the other at the end of the block, the second may be
		// refused by the perpetual hook (the pool must keep holding the custody) — after the first has been applied
		p := h.pool(func(q PoolRef) bool { return q.Perp })
		if p.Id == 0 {
			return nil
		}
		pool, ok1 := app.AmmKeeper.GetPool(ctx, p.Id)
		pp, ok2 := app.PerpetualKeeper.GetPool(ctx, p.Id)
		if !ok1 || !ok2 {
			return nil
		}
		d := "uatom"
		bal, err := pool.GetAmmPoolBalance(d)
		if err != nil {
			return nil
		}
		liab, custody, _, _ := pp.GetPerpetualPoolBalances(d)
		free := bal.Sub(custody)
		if !free.IsPositive() {
			return nil
		}
		a := free.MulRaw(int64([]int{45, 55, 70, 95}[r.Intn(4)])).QuoRaw(100)
		if liab.MulRaw(40).GT(free) && r.Intn(4) != 0 {
			// short positions owe this asset: the pool prices on (holdings + liabilities − custody), so two requests of free/2 + liabilities/4
			// are both affordable by price while the second would take the holdings below the custody
			a = free.QuoRaw(2).Add(liab.QuoRaw(4))
		}
		if !a.IsPositive() {
			return nil
		}
		mk := func() sdk.Msg {
			return &ammtypes.MsgSwapExactAmountOut{Sender: u.Addr.String(), Routes: []ammtypes.SwapAmountOutRoute{{PoolId: p.Id, TokenInDenom: h.std.USDC}},
				TokenOut: coin(d, a), TokenInMaxAmount: math.NewInt(1_000_000_000_000_000), Recipient: u.Addr.String()}
		}
		tx.kind = "amm.swapOut"
		tx.req.Msgs = []sdk.Msg{mk(), mk()}
		tx.f = J{"pool": p.Id, "out": []string{d, a.String()}, "hops": 1, "recipient": u.Addr.String(), "pair": true}
	case "amm.feedExternalLiquidity":
		// the price feeder reports the depth of external markets for an oracle pool's assets (changes the pool's external liquidity ratios only)
		p := h.pool(func(q PoolRef) bool { return q.Oracle })
		f := h.std.Feeder
		var info []ammtypes.AssetAmountDepth
		for _, d := range p.Denoms {
			disp := h.std.Display[d]
			info = append(info, ammtypes.AssetAmountDepth{Asset: disp, Amount: math.LegacyNewDecFromInt(h.amt(1_000_000, 50_000_000_000_000)), Depth: D([]string{"0.01", "0.02", "0.1", "0.5", "1"}[r.Intn(5)])})
		}
		tx.req.Signer = f
		tx.req.Msgs = []sdk.Msg{&ammtypes.MsgFeedMultipleExternalLiquidity{Sender: f.Addr.String(), Liquidity: []ammtypes.ExternalLiquidity{{PoolId: p.Id, AmountDepthInfo: info}}}}
		tx.f = J{"pool": p.Id}
	case "ss.bond":
		a := h.amt(1, 100_000_000_000)
		tx.req.Msgs = []sdk.Msg{&sstypes.MsgBond{Creator: u.Addr.String(), Amount: a}}
		tx.f = J{"amt": a.String()}
	case "ss.unbond":
		c := app.CommitmentKeeper.GetCommitments(ctx, u.Addr)
		have := c.GetCommittedAmountForDenom(sstypes.GetShareDenom())
		a := have.Mul(h.amt(1, 1_000_000)).Quo(math.NewInt(1_000_000))
		if r.Intn(6) == 0 {
			a = have.AddRaw(int64(r.Intn(2)))
		}
		if !a.IsPositive() {
			a = math.OneInt()
		}
		tx.req.Msgs = []sdk.Msg{&sstypes.MsgUnbond{Creator: u.Addr.String(), Amount: a}}
		tx.f = J{"amt": a.String()}
	case "cm.commitClaimed", "cm.uncommit", "cm.vest", "cm.cancelVest", "cm.vestNow":
		c := app.CommitmentKeeper.GetCommitments(ctx, u.Addr)
		d := "ueden"
		if r.Intn(3) == 0 && kind != "cm.vest" && kind != "cm.cancelVest" && kind != "cm.vestNow" {
			d = "uedenb"
		}
		var have math.Int
		switch kind {
		case "cm.commitClaimed", "cm.vest", "cm.vestNow":
			have = c.Claimed.AmountOf(d)
		case "cm.uncommit":
			have = c.GetCommittedAmountForDenom(d)
		default:
			have = math.ZeroInt()
			for _, v := range c.VestingTokens {
				have = have.Add(v.TotalAmount.Sub(v.ClaimedAmount))
			}
		}
		a := have.Mul(h.amt(1, 1_000_000)).Quo(math.NewInt(1_000_000))
		if r.Intn(5) == 0 {
			a = have.AddRaw(int64(r.Intn(2)))
		}
		if kind == "cm.cancelVest" && r.Intn(4) == 0 {
			// more than is left in the schedules: up to what they held in total (what has been released already cannot be cancelled)
			tot := math.ZeroInt()
			for _, v := range c.VestingTokens {
				tot = tot.Add(v.TotalAmount)
			}
			if tot.GT(have) {
				a = have.Add(tot.Sub(have).Mul(h.amt(1, 1_000_000)).Quo(math.NewInt(1_000_000)))
				if r.Intn(2) == 0 {
					a = tot
				}
			}
		}
		if !a.IsPositive() {
			a = math.OneInt()
		}
		switch kind {
		case "cm.commitClaimed":
			tx.req.Msgs = []sdk.Msg{&ctypes.MsgCommitClaimedRewards{Creator: u.Addr.String(), Amount: a, Denom: d}}
		case "cm.uncommit":
			tx.req.Msgs = []sdk.Msg{&ctypes.MsgUncommitTokens{Creator: u.Addr.String(), Amount: a, Denom: d}}
		case "cm.vest":
			tx.req.Msgs = []sdk.Msg{&ctypes.MsgVest{Creator: u.Addr.String(), Amount: a, Denom: d}}
		case "cm.vestNow":
			// claimed Eden turned into the vesting denom at once, at the vest-now discount (enabled by governance in the worlds that have it)
			tx.req.Msgs = []sdk.Msg{&ctypes.MsgVestNow{Creator: u.Addr.String(), Amount: a, Denom: d}}
		default:
			tx.req.Msgs = []sdk.Msg{&ctypes.MsgCancelVest{Creator: u.Addr.String(), Amount: a, Denom: d}}
		}
		tx.f = J{"denom": d, "amt": a.String()}
	case "stake.delegate", "stake.undelegate":
		// ELYS staking through the commitment module's MsgStake / MsgUnstake (the estaking end-blocker then adjusts EdenB)
		vals, err := app.StakingKeeper.GetAllValidators(ctx)
		if err != nil || len(vals) == 0 {
			return nil
		}
		vi := r.Intn(len(vals))
		vals[0], vals[vi] = vals[vi], vals[0]
		val := vals[0].OperatorAddress
		if kind == "stake.delegate" {
			a := h.amt(1_000_000, 50_000_000_000)
			tx.req.Msgs = []sdk.Msg{&ctypes.MsgStake{Creator: u.Addr.String(), Amount: a, Asset: "uelys", ValidatorAddress: val}}
			tx.f = J{"amt": a.String()}
		} else {
			valAddr, _ := sdk.ValAddressFromBech32(val)
			del, err := app.StakingKeeper.GetDelegation(ctx, u.Addr, valAddr)
			if err != nil {
				return nil
			}
			have := vals[0].TokensFromShares(del.Shares).TruncateInt()
			a := have.Mul(h.amt(1, 1_000_000)).Quo(math.NewInt(1_000_000))
			if r.Intn(5) == 0 {
				a = have
			}
			if !a.IsPositive() {
				a = math.OneInt()
			}
			tx.req.Msgs = []sdk.Msg{&ctypes.MsgUnstake{Creator: u.Addr.String(), Amount: a, Asset: "uelys", ValidatorAddress: val}}
			tx.f = J{"amt": a.String()}
		}
	case "cm.unstakeOther":
		// MsgUnstake in its "other asset" variant with an asset it must refuse: committed pool or vault shares
		c := app.CommitmentKeeper.GetCommitments(ctx, u.Addr)
		var cands []sdk.Coin
		for _, ct := range c.CommittedTokens {
			if strings.HasPrefix(ct.Denom, "amm/pool/") || ct.Denom == "stablestake/share" {
				cands = append(cands, sdk.NewCoin(ct.Denom, ct.Amount))
			}
		}
		if len(cands) == 0 {
			return nil
		}
		cc := cands[r.Intn(len(cands))]
		a := cc.Amount.Mul(h.amt(1, 1_000_000)).Quo(math.NewInt(1_000_000))
		if !a.IsPositive() {
			a = math.OneInt()
		}
		tx.req.Msgs = []sdk.Msg{&ctypes.MsgUnstake{Creator: u.Addr.String(), Amount: a, Asset: cc.Denom}}
		tx.f = J{"denom": cc.Denom, "amt": a.String()}
	case "bank.toZero":
		// anything liquid in the wallet (shares, if there ever are any) sent to the burner's zero address
		bals := app.BankKeeper.GetAllBalances(ctx, u.Addr)
		if len(bals) == 0 {
			return nil
		}
		cc := bals[r.Intn(len(bals))]
		for _, b := range bals {
			if strings.HasPrefix(b.Denom, "amm/pool/") || b.Denom == "stablestake/share" {
				cc = b // prefer share tokens
			}
		}
		a := math.MinInt(cc.Amount, h.amt(1, 1_000_000_000))
		if strings.HasPrefix(cc.Denom, "amm/pool/") || cc.Denom == "stablestake/share" {
			a = cc.Amount
		}
		tx.req.Msgs = []sdk.Msg{banktypes.NewMsgSend(u.Addr, burnertypes.GetZeroAddress(), sdk.NewCoins(sdk.NewCoin(cc.Denom, a)))}
		tx.f = J{"coin": []string{cc.Denom, a.String()}}
	case "cm.claimVesting":
		tx.req.Msgs = []sdk.Msg{&ctypes.MsgClaimVesting{Sender: u.Addr.String()}}
	case "cm.vestLiquid":
		// an externally issued token put on its own vesting schedule (deposited into, and later paid back out of, the module)
		a := h.amt(1_000, 2_000_000_000)
		tx.req.Msgs = []sdk.Msg{&ctypes.MsgVestLiquid{Creator: u.Addr.String(), Amount: a, Denom: "uatom"}}
		tx.f = J{"denom": "uatom", "amt": a.String()}
	case "lp.open":
		p := h.pool(func(q PoolRef) bool { return q.Perp })
		a := h.amt(1_000_000, 20_000_000_000)
		lev := []string{"1.5", "2", "3", "5", "8", "10"}[r.Intn(6)]
		sl := D("0")
		switch r.Intn(8) {
		case 0:
			// a pure collateral top-up: leverage exactly 1 on a position that exists (nothing is borrowed)
			if all := app.LeveragelpKeeper.GetAllPositions(ctx); len(all) > 0 {
				pos := all[r.Intn(len(all))]
				if o := w.byAddr[pos.Address]; o != nil {
					u, lev = o, "1"
					tx.req.Signer = o
					for _, q := range h.std.Pools {
						if q.Id == pos.AmmPoolId {
							p = q
						}
					}
				}
			}
		case 1:
			// dust: the borrowed part truncates to zero
			a, lev = math.NewInt(int64(1+r.Intn(3))), []string{"1.1", "1.5", "1.9"}[r.Intn(3)]
		}
		tx.req.Msgs = []sdk.Msg{&lptypes.MsgOpen{Creator: u.Addr.String(), CollateralAsset: h.std.USDC, CollateralAmount: a, AmmPoolId: p.Id, Leverage: D(lev), StopLossPrice: sl}}
		tx.f = J{"pool": p.Id, "collateral": a.String(), "leverage": lev}
	case "lp.close", "lp.closePositions", "lp.claim":
		all := app.LeveragelpKeeper.GetAllPositions(ctx)
		if len(all) == 0 {
			return nil
		}
		pos := all[r.Intn(len(all))]
		owner := w.byAddr[pos.Address]
		switch kind {
		case "lp.close":
			if owner == nil {
				return nil
			}
			signer := owner
			if r.Intn(8) == 0 {
				signer = u // someone else tries
			}
			a := pos.LeveragedLpAmount.Mul(h.amt(1, 1_000_000)).Quo(math.NewInt(1_000_000))
			switch r.Intn(6) {
			case 0, 1:
				a = pos.LeveragedLpAmount
			case 2:
				// all but a few shares: what stays is far below 10^-18 of the position (ratios round to exactly 1)
				a = pos.LeveragedLpAmount.SubRaw(int64(1 + r.Intn(10)))
				if !a.IsPositive() {
					a = pos.LeveragedLpAmount
				}
			}
			tx.req.Signer = signer
			tx.req.Msgs = []sdk.Msg{&lptypes.MsgClose{Creator: signer.Addr.String(), Id: pos.Id, LpAmount: a}}
			tx.f = J{"id": pos.Id, "owner": pos.Address, "lpAmount": a.String()}
		case "lp.claim":
			if owner == nil {
				return nil
			}
			tx.req.Signer = owner
			lids := []uint64{pos.Id}
			if r.Intn(4) == 0 {
				lids = append(lids, pos.Id) // the same position named twice
			}
			tx.req.Msgs = []sdk.Msg{&lptypes.MsgClaimRewards{Sender: owner.Addr.String(), Ids: lids}}
			tx.f = J{"id": pos.Id}
		default:
			var liq, sl []*lptypes.PositionRequest
			for i := 0; i < 1+r.Intn(3); i++ {
				q := all[r.Intn(len(all))]
				pr := &lptypes.PositionRequest{Address: q.Address, Id: q.Id}
				if r.Intn(3) == 0 {
					sl = append(sl, pr)
				} else {
					liq = append(liq, pr)
				}
			}
			tx.req.Msgs = []sdk.Msg{&lptypes.MsgClosePositions{Creator: u.Addr.String(), Liquidate: liq, StopLoss: sl}}
			tx.f = J{"liquidate": len(liq), "stopLoss": len(sl)}
		}
	case "perp.open":
		p := h.pool(func(q PoolRef) bool { return q.Perp })
		long := r.Intn(2) == 0
		colDenom := h.std.USDC
		if long && r.Intn(3) == 0 {
			colDenom = "uatom"
		}
		a := h.amt(1_000_000, 5_000_000_000)
		lev := []string{"1.5", "2", "3", "5", "0", "1"}[r.Intn(6)] // 0 = pure collateral top-up of an existing position
		if h.whale && r.Intn(2) == 0 {
			a = h.amt(3_000_000_000, 400_000_000_000)
			lev = []string{"1.2", "1.5", "2", "0", "0"}[r.Intn(5)]
		}
		if lev == "0" && r.Intn(4) != 0 {
			// aim the top-up at an existing position: its owner, side, pool and collateral asset
			if all := app.PerpetualKeeper.GetAllMTPs(ctx); len(all) > 0 {
				m := all[r.Intn(len(all))]
				if o := w.byAddr[m.Address]; o != nil {
					for _, q := range h.std.Pools {
						if q.Id == m.AmmPoolId {
							p = q
						}
					}
					u, long, colDenom = o, m.Position == perptypes.Position_LONG, m.CollateralAsset
					tx.req.Signer = o
				}
			}
		}
		price := h.std.Prices["ATOM"]
		pos := perptypes.Position_LONG
		tp := price.Mul(D([]string{"1.5", "2", "3", "5"}[r.Intn(4)]))
		if !long {
			pos = perptypes.Position_SHORT
			tp = price.Mul(D([]string{"0.5", "0.7", "0.9"}[r.Intn(3)]))
		}
		sl := D("0")
		tx.req.Msgs = []sdk.Msg{&perptypes.MsgOpen{Creator: u.Addr.String(), Position: pos, Leverage: D(lev), TradingAsset: "uatom", Collateral: coin(colDenom, a), TakeProfitPrice: tp, StopLossPrice: sl, PoolId: p.Id}}
		tx.f = J{"pool": p.Id, "long": long, "collateral": []string{colDenom, a.String()}, "leverage": lev}
	case "perp.close", "perp.closePositions":
		all := app.PerpetualKeeper.GetAllMTPs(ctx)
		if len(all) == 0 {
			return nil
		}
		m := all[r.Intn(len(all))]
		owner := w.byAddr[m.Address]
		if kind == "perp.close" {
			if owner == nil {
				return nil
			}
			signer := owner
			if r.Intn(8) == 0 {
				signer = u
			}
			a := m.Custody.Mul(h.amt(1, 1_000_000)).Quo(math.NewInt(1_000_000))
			if r.Intn(3) == 0 {
				a = m.Custody
			}
			tx.req.Signer = signer
			tx.req.Msgs = []sdk.Msg{&perptypes.MsgClose{Creator: signer.Addr.String(), Id: m.Id, Amount: a}}
			tx.f = J{"id": m.Id, "owner": m.Address, "amount": a.String()}
		} else {
			var liq, sl, tp []perptypes.PositionRequest
			for i := 0; i < 1+r.Intn(3); i++ {
				q := all[r.Intn(len(all))]
				pr := perptypes.PositionRequest{Address: q.Address, Id: q.Id}
				switch r.Intn(4) {
				case 0:
					sl = append(sl, pr)
				case 1:
					tp = append(tp, pr)
				default:
					liq = append(liq, pr)
				}
			}
			tx.req.Msgs = []sdk.Msg{&perptypes.MsgClosePositions{Creator: u.Addr.String(), Liquidate: liq, StopLoss: sl, TakeProfit: tp}}
			tx.f = J{"liquidate": len(liq), "stopLoss": len(sl), "takeProfit": len(tp)}
		}
	case "mc.claim":
		var ids []uint64
		for _, p := range h.std.Pools {
			if r.Intn(2) == 0 {
				ids = append(ids, p.Id)
			}
		}
		if r.Intn(2) == 0 {
			ids = append(ids, 32767) // the stablestake "pool"
		}
		if len(ids) > 0 && r.Intn(4) == 0 {
			ids = append(ids, ids[r.Intn(len(ids))]) // the same pool named twice in one claim: it has one credit to pay out, not two
		}
		tx.req.Msgs = []sdk.Msg{&mctypes.MsgClaimRewards{Sender: u.Addr.String(), PoolIds: ids}}
		tx.f = J{"pools": ids}
	case "mc.externalIncentive":
		p := h.pool(nil)
		from := app.LastBlockHeight() + 2 + int64(r.Intn(3))
		to := from + 1 + int64(r.Intn(20))
		per := h.amt(1, 1_000_000)
		// a third-party incentive in ATOM or in the base currency itself (then USDC is also among the pool's external reward denoms)
		rd := []string{"uatom", h.std.USDC}[per.Int64()%2]
		tx.req.Msgs = []sdk.Msg{&mctypes.MsgAddExternalIncentive{Sender: u.Addr.String(), RewardDenom: rd, PoolId: p.Id, FromBlock: from, ToBlock: to, AmountPerBlock: per}}
		tx.f = J{"pool": p.Id, "from": from, "to": to, "perBlock": per.String(), "denom": rd}
	case "ts.spotCreate":
		din := []string{h.std.USDC, "uatom"}[r.Intn(2)]
		dout := "uatom"
		if din == "uatom" {
			dout = h.std.USDC
		}
		typ := []tstypes.SpotOrderType{tstypes.SpotOrderType_LIMITBUY, tstypes.SpotOrderType_LIMITSELL, tstypes.SpotOrderType_STOPLOSS, tstypes.SpotOrderType_MARKETBUY}[r.Intn(4)]
		a := h.amt(1_000, 5_000_000_000)
		mult := D([]string{"0.5", "0.9", "0.99", "1.01", "1.1", "2"}[r.Intn(6)])
		rate := h.std.Prices["ATOM"].Mul(mult)
		tx.req.Msgs = []sdk.Msg{&tstypes.MsgCreateSpotOrder{OrderType: typ, OrderPrice: tstypes.OrderPrice{BaseDenom: "uatom", QuoteDenom: h.std.USDC, Rate: rate},
			OrderAmount: coin(din, a), OwnerAddress: u.Addr.String(), OrderTargetDenom: dout}}
		tx.f = J{"type": int32(typ), "amount": []string{din, a.String()}, "target": dout, "rate": decRaw(rate)}
	case "ts.spotCancel", "ts.spotUpdate":
		all := app.TradeshieldKeeper.GetAllPendingSpotOrder(ctx)
		if len(all) == 0 {
			return nil
		}
		o := all[r.Intn(len(all))]
		signer := w.byAddr[o.OwnerAddress]
		if signer == nil || r.Intn(6) == 0 {
			signer = u
		}
		tx.req.Signer = signer
		if kind == "ts.spotCancel" {
			tx.req.Msgs = []sdk.Msg{&tstypes.MsgCancelSpotOrder{OwnerAddress: signer.Addr.String(), OrderId: o.OrderId}}
		} else {
			np := o.OrderPrice
			np.Rate = np.Rate.Mul(D([]string{"0.9", "1.1"}[r.Intn(2)]))
			tx.req.Msgs = []sdk.Msg{&tstypes.MsgUpdateSpotOrder{OwnerAddress: signer.Addr.String(), OrderId: o.OrderId, OrderPrice: np}}
			tx.f = J{"id": o.OrderId, "owner": o.OwnerAddress, "rate": decRaw(np.Rate)}
			break
		}
		tx.f = J{"id": o.OrderId, "owner": o.OwnerAddress}
	case "ts.perpCreate":
		p := h.pool(func(q PoolRef) bool { return q.Perp })
		long := r.Intn(2) == 0
		a := h.amt(1_000_000, 5_000_000_000)
		price := h.std.Prices["ATOM"]
		mult := D([]string{"0.5", "0.9", "0.99", "1.01", "1.1", "2"}[r.Intn(6)])
		pos := tstypes.PerpetualPosition_LONG
		tp := price.Mul(D("2"))
		if !long {
			pos = tstypes.PerpetualPosition_SHORT
			tp = price.Mul(D("0.6"))
		}
		lev := []string{"1.5", "2", "3", "5"}[r.Intn(4)]
		tx.req.Msgs = []sdk.Msg{&tstypes.MsgCreatePerpetualOpenOrder{OwnerAddress: u.Addr.String(), TriggerPrice: tstypes.TriggerPrice{TradingAssetDenom: "uatom", Rate: price.Mul(mult)},
			Collateral: coin(h.std.USDC, a), TradingAsset: "uatom", Position: pos, Leverage: D(lev), TakeProfitPrice: tp, StopLossPrice: D("0"), PoolId: p.Id}}
		tx.f = J{"pool": p.Id, "long": long, "collateral": a.String(), "rate": decRaw(price.Mul(mult))}
	case "ts.perpCancel", "ts.perpUpdate":
		all := app.TradeshieldKeeper.GetAllPendingPerpetualOrder(ctx)
		if len(all) == 0 {
			return nil
		}
		o := all[r.Intn(len(all))]
		signer := w.byAddr[o.OwnerAddress]
		if signer == nil || r.Intn(6) == 0 {
			signer = u
		}
		tx.req.Signer = signer
		if kind == "ts.perpCancel" {
			tx.req.Msgs = []sdk.Msg{&tstypes.MsgCancelPerpetualOrder{OwnerAddress: signer.Addr.String(), OrderId: o.OrderId}}
		} else {
			nt := o.TriggerPrice
			nt.Rate = nt.Rate.Mul(D([]string{"0.9", "1.1"}[r.Intn(2)]))
			tx.req.Msgs = []sdk.Msg{&tstypes.MsgUpdatePerpetualOrder{OwnerAddress: signer.Addr.String(), OrderId: o.OrderId, TriggerPrice: nt}}
			tx.f = J{"id": o.OrderId, "owner": o.OwnerAddress, "rate": decRaw(nt.Rate)}
			break
		}
		tx.f = J{"id": o.OrderId, "owner": o.OwnerAddress}
	case "ts.spotCancelMany", "ts.perpCancelMany":
		// the batch forms of cancel: one to three pending orders named in one message, usually all of one owner who signs, now and then
		// with somebody else's order among them or signed by somebody else (the whole message must then be refused)
		type pend struct {
			id    uint64
			owner string
		}
		var all []pend
		if kind == "ts.spotCancelMany" {
			for _, o := range app.TradeshieldKeeper.GetAllPendingSpotOrder(ctx) {
				all = append(all, pend{o.OrderId, o.OwnerAddress})
			}
		} else {
			for _, o := range app.TradeshieldKeeper.GetAllPendingPerpetualOrder(ctx) {
				all = append(all, pend{o.OrderId, o.OwnerAddress})
			}
		}
		if len(all) == 0 {
			return nil
		}
		first := all[r.Intn(len(all))]
		picked := []pend{first}
		for _, o := range all {
			if len(picked) < 3 && o.id != first.id && (o.owner == first.owner || r.Intn(4) == 0) {
				picked = append(picked, o)
			}
		}
		signer := w.byAddr[first.owner]
		if signer == nil || r.Intn(4) == 0 {
			signer = u
		}
		tx.req.Signer = signer
		var ids []uint64
		var owners []string
		for _, o := range picked {
			ids = append(ids, o.id)
			owners = append(owners, o.owner)
		}
		if kind == "ts.spotCancelMany" {
			tx.req.Msgs = []sdk.Msg{&tstypes.MsgCancelSpotOrders{Creator: signer.Addr.String(), SpotOrderIds: ids}}
		} else {
			tx.req.Msgs = []sdk.Msg{&tstypes.MsgCancelPerpetualOrders{OwnerAddress: signer.Addr.String(), OrderIds: ids}}
		}
		tx.f = J{"ids": ids, "owners": owners}
	case "ts.execute":
		var sids, pids []uint64
		for _, o := range app.TradeshieldKeeper.GetAllPendingSpotOrder(ctx) {
			if r.Intn(2) == 0 {
				sids = append(sids, o.OrderId)
			}
		}
		for _, o := range app.TradeshieldKeeper.GetAllPendingPerpetualOrder(ctx) {
			if r.Intn(2) == 0 {
				pids = append(pids, o.OrderId)
			}
		}
		if len(sids)+len(pids) == 0 {
			return nil
		}
		tx.req.Msgs = []sdk.Msg{&tstypes.MsgExecuteOrders{Creator: u.Addr.String(), SpotOrderIds: sids, PerpetualOrderIds: pids}}
		tx.f = J{"spot": sids, "perp": pids}
	case "bank.donate":
		// a third party sends tokens straight to a pool / position / escrow / zero address
		var to string
		switch r.Intn(4) {
		case 0:
			to = h.pool(nil).Addr
		case 1:
			all := app.LeveragelpKeeper.GetAllPositions(ctx)
			if len(all) == 0 {
				return nil
			}
			to = lptypes.GetPositionAddress(all[r.Intn(len(all))].Id).String()
		case 2:
			all := app.TradeshieldKeeper.GetAllPendingSpotOrder(ctx)
			if len(all) == 0 {
				return nil
			}
			to = tstypes.GetSpotOrderAddress(all[r.Intn(len(all))].OrderId).String()
		default:
			to = h.pool(nil).Treasury
		}
		d := []string{h.std.USDC, "uatom"}[r.Intn(2)]
		a := h.amt(1, 50_000_000_000)
		tx.req.Msgs = []sdk.Msg{banktypes.NewMsgSend(u.Addr, sdk.MustAccAddressFromBech32(to), sdk.NewCoins(coin(d, a)))}
		tx.f = J{"to": to, "coin": []string{d, a.String()}}
	}
	// fees: mostly none, sometimes uusdc / uatom / uelys so that masterchef has gas fees to convert
	feeMax := int64(2_000_000)
	if r.Intn(8) == 0 {
		feeMax = 5_000_000_000 // a fee large enough that its end-block conversion moves a pool's price
	}
	switch r.Intn(6) {
	case 0:
		tx.req.Fee = sdk.NewCoins(coin(h.std.USDC, h.amt(1, feeMax)))
	case 1:
		tx.req.Fee = sdk.NewCoins(coin("uatom", h.amt(1, feeMax)))
	case 2:
		tx.req.Fee = sdk.NewCoins(coin("uelys", h.amt(1, feeMax)))
	}
	tx.f["fee"] = coinsArr(tx.req.Fee)
	tx.f["signer"] = tx.req.Signer.Addr.String()
	return tx
}

type abciEvent = abci.Event

func contains(xs []string, s string) bool {
	for _, x := range xs {
		if x == s {
			return true
		}
	}
	return false
}

// envStep: oracle price move through the real FeedMultiplePrices message (signed by the feeder).
func (h *Hist) priceTx() *histTx {
	r := h.r
	mults := []string{"0.7", "0.9", "0.97", "0.99", "1", "1.01", "1.03", "1.1", "1.3"}
	p := h.std.Prices["ATOM"].Mul(D(mults[r.Intn(len(mults))]))
	if p.LT(D("0.05")) {
		p = D("0.05")
	}
	if p.GT(D("50")) {
		p = D("50")
	}
	h.std.Prices["ATOM"] = p
	var feeds []oracletypes.FeedPrice
	for _, a := range []string{"USDC", "ATOM", "ELYS"} {
		feeds = append(feeds, oracletypes.FeedPrice{Asset: a, Price: h.std.Prices[a], Source: "elys"})
	}
	f := h.std.Feeder
	return &histTx{kind: "oracle.feed", f: J{"ATOM": decRaw(p), "signer": f.Addr.String(), "fee": [][]string{}},
		req: TxReq{Signer: f, Msgs: []sdk.Msg{&oracletypes.MsgFeedMultiplePrices{Creator: f.Addr.String(), FeedPrices: feeds}}}}
}

// bankMoves extracts x/bank's own transfer / coinbase / burn events, in order.
func bankMoves(evs []abciEvent) [][]string {
	out := [][]string{}
	for _, e := range evs {
		if e.Type != "transfer" && e.Type != "coinbase" && e.Type != "burn" {
			continue
		}
		var from, to, amt string
		for _, a := range e.Attributes {
			switch a.Key {
			case "sender", "burner":
				from = a.Value
			case "recipient", "minter":
				to = a.Value
			case "amount":
				amt = a.Value
			}
		}
		if amt == "" {
			continue
		}
		cs, err := sdk.ParseCoinsNormalized(amt)
		if err != nil {
			continue
		}
		for _, c := range cs {
			switch e.Type {
			case "transfer":
				out = append(out, []string{"send", from, to, c.Denom, c.Amount.String()})
			case "coinbase":
				out = append(out, []string{"mint", "", to, c.Denom, c.Amount.String()})
			case "burn":
				out = append(out, []string{"burn", from, "", c.Denom, c.Amount.String()})
			}
		}
	}
	return out
}

// emitBlock delivers the txs in one block and writes its `hist.step` line; false when the block itself failed.
// governance shocks applied so far in the current history (harness/govshock.go); written into every step line
var curShocks []string

// state edits made between the previous block and the next one (oracle outages, governance shocks): written into the next
// step line when VERIF_RECORD is set, so that the history can be replayed from the file (harness/histreplay.go)
var curPre []J

var debugAt int64 = -1
var debugT *testing.T

func emitBlock(w *World, out *Out, hi int, txs []*histTx, dt time.Duration, stats map[string]int) bool {
	if debugAt >= 0 && w.App.LastBlockHeight()+1 >= debugAt-1 && w.App.LastBlockHeight()+1 <= debugAt {
		ctx := w.Ctx()
		debugT.Logf("before block %d: feeCollector=%s", w.App.LastBlockHeight()+1, w.App.BankKeeper.GetAllBalances(ctx, authtypes.NewModuleAddress("fee_collector")))
		for _, p := range w.App.AmmKeeper.GetAllPool(ctx) {
			debugT.Logf("   pool %d revenue=%s treasury=%s", p.PoolId, w.App.BankKeeper.GetAllBalances(ctx, ammtypes.NewPoolRevenueAddress(p.PoolId)), w.App.BankKeeper.GetAllBalances(ctx, sdk.MustAccAddressFromBech32(p.RebalanceTreasury)))
		}
		debugT.Logf("   perp module=%s masterchef=%s", w.App.BankKeeper.GetAllBalances(ctx, authtypes.NewModuleAddress("perpetual")), w.App.BankKeeper.GetAllBalances(ctx, authtypes.NewModuleAddress("masterchef")))
		for _, e := range w.App.MasterchefKeeper.GetAllExternalIncentives(ctx) {
			debugT.Logf("   external incentive %+v", e)
		}
	}

	var reqs []TxReq
	for _, x := range txs {
		reqs = append(reqs, x.req)
	}
	var rec J
	if os.Getenv("VERIF_RECORD") != "" {
		rtx := []J{}
		for _, x := range txs {
			ms := []json.RawMessage{}
			for _, m := range x.req.Msgs {
				ms = append(ms, c17MsgJSON(w, m))
			}
			rtx = append(rtx, J{"signer": x.req.Signer.Addr.String(), "fee": x.req.Fee.String(), "gas": x.req.Gas, "msgs": ms})
		}
		rec = J{"pre": append([]J{}, curPre...), "txs": rtx, "dtNanos": int64(dt)}
	}
	curPre = nil
	distrPre := w.observeDistr() // what the begin-block fee allocation of this block starts from (after the edits between blocks)
	res := w.Block(dt, reqs)
	line := J{"t": "hist.step", "id": hi, "h": res.Height, "dt": int64(dt / time.Second), "distrPre": distrPre}
	if rec != nil {
		line["rec"] = rec
	}
	if len(curShocks) > 0 {
		line["shocks"] = append([]string{}, curShocks...)
	}
	if res.Err != nil {
		line["blockErr"] = res.Err.Error()
	}
	if res.Panicked {
		line["blockPanic"] = res.PanicText
	}
	jt := []J{}
	for i, x := range txs {
		e := J{"kind": x.kind, "f": x.f}
		if i < len(res.Txs) {
			e["code"] = res.Txs[i].Code
			if res.Txs[i].Code != 0 {
				lg := res.Txs[i].Log
				if len(lg) > 160 {
					lg = lg[:160]
				}
				e["log"] = lg
				stats[x.kind+"/fail"]++
			} else {
				stats[x.kind+"/ok"]++
			}
		}
		if i < len(res.Txs) {
			e["moves"] = bankMoves(res.Txs[i].Events)
		}
		jt = append(jt, e)
	}
	// begin/end-block bank moves: FinalizeBlock lists block events with a mode attribute; keep order
	var beginEv, endEv []abciEvent
	for _, ev := range res.Events {
		isBegin := false
		for _, a := range ev.Attributes {
			if a.Key == "mode" && a.Value == "BeginBlock" {
				isBegin = true
			}
		}
		if isBegin {
			beginEv = append(beginEv, ev)
		} else {
			endEv = append(endEv, ev)
		}
	}
	// x/distribution's own "rewards" events of begin-block: what the fee allocation gave each fee-sharing validator (raw 18-decimal amounts)
	br := [][]string{}
	for _, e := range beginEv {
		if e.Type != "rewards" {
			continue
		}
		var val, amt string
		for _, a := range e.Attributes {
			switch a.Key {
			case "validator":
				val = a.Value
			case "amount":
				amt = a.Value
			}
		}
		if dcs, err := sdk.ParseDecCoins(amt); err == nil {
			for _, c := range dcs {
				br = append(br, []string{val, c.Denom, decRaw(c.Amount)})
			}
		}
	}
	line["beginRewards"] = br
	line["beginMoves"] = bankMoves(beginEv)
	line["endMoves"] = bankMoves(endEv)
	line["txs"] = jt
	if res.Err != nil || res.Panicked {
		out.Line(line)
		return false
	}
	line["obs"] = w.Observe()
	out.Line(line)
	return true
}

// batchClose: [price move, leveragelp ClosePositions over all positions, perpetual ClosePositions over all positions]
func (h *Hist) batchClose() []*histTx {
	w, r := h.w, h.r
	ctx := w.Ctx()
	mult := []string{"0.6", "0.75", "0.85", "1.25", "1.5"}[r.Intn(5)]
	h.std.Prices["ATOM"] = h.std.Prices["ATOM"].Mul(D(mult))
	if h.std.Prices["ATOM"].LT(D("0.05")) {
		h.std.Prices["ATOM"] = D("0.05")
	}
	if h.std.Prices["ATOM"].GT(D("50")) {
		h.std.Prices["ATOM"] = D("50")
	}
	out := []*histTx{h.priceTxFixed()}
	bot := h.user()
	var lpLiq, lpSl []*lptypes.PositionRequest
	for _, p := range w.App.LeveragelpKeeper.GetAllPositions(ctx) {
		// an id may appear in one list only (ValidateBasic)
		if r.Intn(3) == 0 {
			lpSl = append(lpSl, &lptypes.PositionRequest{Address: p.Address, Id: p.Id})
		} else {
			lpLiq = append(lpLiq, &lptypes.PositionRequest{Address: p.Address, Id: p.Id})
		}
	}
	if len(lpLiq) > 0 {
		out = append(out, &histTx{kind: "lp.closePositions", f: J{"liquidate": len(lpLiq), "stopLoss": len(lpSl), "batch": true, "signer": bot.Addr.String(), "fee": [][]string{}},
			req: TxReq{Signer: bot, Msgs: []sdk.Msg{&lptypes.MsgClosePositions{Creator: bot.Addr.String(), Liquidate: lpLiq, StopLoss: lpSl}}}})
	}
	bot2 := h.user()
	if bot2 == bot {
		return out
	}
	var liq, sl, tp []perptypes.PositionRequest
	for _, m := range w.App.PerpetualKeeper.GetAllMTPs(ctx) {
		pr := perptypes.PositionRequest{Address: m.Address, Id: m.Id}
		switch r.Intn(4) {
		case 0:
			sl = append(sl, pr)
		case 1:
			tp = append(tp, pr)
		default:
			liq = append(liq, pr)
		}
	}
	if len(liq) > 0 {
		out = append(out, &histTx{kind: "perp.closePositions", f: J{"liquidate": len(liq), "stopLoss": len(sl), "takeProfit": len(tp), "batch": true, "signer": bot2.Addr.String(), "fee": [][]string{}},
			req: TxReq{Signer: bot2, Msgs: []sdk.Msg{&perptypes.MsgClosePositions{Creator: bot2.Addr.String(), Liquidate: liq, StopLoss: sl, TakeProfit: tp}}}})
	}
	return out
}

// priceTxFixed feeds the prices currently in std.Prices (no random move).
func (h *Hist) priceTxFixed() *histTx {
	var feeds []oracletypes.FeedPrice
	for _, a := range []string{"USDC", "ATOM", "ELYS"} {
		feeds = append(feeds, oracletypes.FeedPrice{Asset: a, Price: h.std.Prices[a], Source: "elys"})
	}
	f := h.std.Feeder
	return &histTx{kind: "oracle.feed", f: J{"ATOM": decRaw(h.std.Prices["ATOM"]), "signer": f.Addr.String(), "fee": [][]string{}},
		req: TxReq{Signer: f, Msgs: []sdk.Msg{&oracletypes.MsgFeedMultiplePrices{Creator: f.Addr.String(), FeedPrices: feeds}}}}
}

func runHist(t *testing.T, seed int64, n int, out *Out) {
	nHist := int(envInt("VERIF_HISTS", 1))
	focus := os.Getenv("VERIF_FOCUS")
	for hi := 0; hi < nHist; hi++ {
		hseed := seed*100 + int64(hi)
		// world variants: one history in four runs in a world where uatom is worth less than uusdc per base unit; one in three
		// with Eden inflation switched on (the production configuration: liquidity-mining and staking rewards in Eden every
		// block, Eden rewards enabled on the pools, the provider's portion vested at the ten-day epochs); one in five has whales
		// (leveraged positions sized up to a large fraction of the pool: saturation, refusals by the pool-health and
		// custody-backing checks); governance-permitted variants of the leveragelp fallback sweep: every block (default), one
		// position per block, every 7th block, or off (then only bots' ClosePositions messages liquidate)
		wv := histWorldVariant{AtomPrice: []string{"5", "5", "5", "0.25"}[rand.New(rand.NewSource(hseed^0x5eed)).Intn(4)],
			Inflation: rand.New(rand.NewSource(hseed^0x1f1a)).Intn(3) == 0 || os.Getenv("VERIF_INFLATION") != "",
			Whale:     rand.New(rand.NewSource(hseed^0x3a1e)).Intn(5) == 0 || os.Getenv("VERIF_WHALE") != "",
			Sweep:     []string{"default", "default", "one-per-block", "every-7-blocks", "off"}[rand.New(rand.NewSource(hseed^0x5bee)).Intn(5)], ExtRewards: true}
		if dr := rand.New(rand.NewSource(hseed ^ 0xd0d0)); dr.Intn(6) == 0 || os.Getenv("VERIF_DUMP") != "" {
			wv.Dump = 1 + dr.Intn(4)
			wv.DumpDenom = [][]string{{"uatom", "uusdc"}, {"uelys", "uusdc"}, {"uatom", "uusdc"}, {"uatom", "uusdc"}}[wv.Dump-1][dr.Intn(2)]
		}
		if rand.New(rand.NewSource(hseed^0x1bc0)).Intn(4) == 0 || os.Getenv("VERIF_IBC_USDC") != "" {
			wv.Usdc = ibcUSDC
			if wv.DumpDenom == "uusdc" {
				wv.DumpDenom = ibcUSDC
			}
		}
		if vr := rand.New(rand.NewSource(hseed ^ 0x7a11)); vr.Intn(3) == 0 || os.Getenv("VERIF_VALIDATORS") != "" {
			wv.Validators = 1 + vr.Intn(3)
		}
		if v := os.Getenv("VERIF_ATOM_PRICE"); v != "" {
			wv.AtomPrice = v
		}
		if v := os.Getenv("VERIF_LPSWEEP"); v != "" {
			wv.Sweep = v
		}
		w, std := histWorld(t, hseed, wv)
		h := &Hist{w: w, std: std, r: rand.New(rand.NewSource(hseed)), focus: focus, whale: wv.Whale}
		inflation := wv.Inflation
		r0 := w.Block(5*time.Second, nil)
		if r0.Err != nil || r0.Panicked {
			t.Fatalf("first block failed: %v %s", r0.Err, r0.PanicText)
		}
		pools := []J{}
		for _, p := range std.Pools {
			pools = append(pools, J{"id": p.Id, "addr": p.Addr, "oracle": p.Oracle, "perp": p.Perp, "denoms": p.Denoms, "weights": p.Weights, "shareDenom": p.ShareDen, "treasury": p.Treasury})
		}
		out.Line(J{"t": "hist.begin", "id": hi, "seed": hseed, "world": wv, "names": w.Names, "pools": pools, "obs": w.Observe()})
		stats := map[string]int{}
		if inflation {
			stats["world/inflation-on"]++
		}
		faults := os.Getenv("VERIF_FAULTS") != ""
		govShocks := os.Getenv("VERIF_GOVSHOCK") != ""
		curShocks = nil
		outage := 0 // blocks left without price feeds
		for b := 0; b < n; b++ {
			var txs []*histTx
			faultNote := ""
			if faults && outage == 0 && h.r.Intn(12) == 0 {
				// oracle outage: some or all prices vanish for k blocks (feeder down; entries removed as expiry would)
				outage = 1 + h.r.Intn(6)
				which := [][]string{{"ATOM"}, {"ELYS"}, {"USDC"}, {"ATOM", "ELYS", "USDC"}, {"ATOM", "USDC"}}[h.r.Intn(5)]
				w.Seed(func(ctx sdk.Context) {
					for _, p := range w.App.OracleKeeper.GetAllPrice(ctx) {
						if contains(which, p.Asset) {
							w.App.OracleKeeper.RemovePrice(ctx, p.Asset, p.Source, p.Timestamp)
						}
					}
				})
				curPre = append(curPre, J{"kind": "removePrices", "assets": which})
				faultNote = "oracle-outage:" + strings.Join(which, "+")
				stats["fault/"+faultNote]++
			}
			if outage > 0 {
				outage--
				if outage == 0 {
					txs = append(txs, h.priceTxFixed()) // feeder back
				}
			} else if h.r.Intn(5) == 0 {
				txs = append(txs, h.priceTx())
			}
			k := 1
			if h.r.Intn(6) == 0 {
				k = 2 + h.r.Intn(3)
			}
			if h.r.Intn(12) == 0 {
				k = 0
			}
			if k >= 2 {
				h.stickyPool = h.std.Pools[h.r.Intn(len(h.std.Pools))].Id
			}
			for i := 0; i < k; i++ {
				if tx := h.genTx(); tx != nil {
					txs = append(txs, tx)
				}
				// order-focused histories: the price may move BETWEEN two transactions of a block (a feed after the first one): whatever was
				// evaluated before the move says nothing about what is evaluated after it
				if i == 0 && k >= 2 && outage == 0 && strings.HasPrefix(h.focus, "ts.") && h.r.Intn(2) == 0 {
					txs = append(txs, h.priceTx())
					stats["midBlockFeed"]++
				}
			}
			h.stickyPool = 0
			batchEvery := 25
			if strings.HasPrefix(h.focus, "perp.") || strings.HasPrefix(h.focus, "lp.") {
				batchEvery = 9 // position-focused histories: sharp moves with everything named in one message are frequent
			}
			if h.r.Intn(batchEvery) == 0 && outage == 0 {
				// a sharp price move and, IN THE SAME BLOCK (after the begin-blocker sweep has run), one third-party message
				// naming every open position in every list: several positions of one pool close inside one message
				txs = append(txs, h.batchClose()...)
			}
			if wv.Dump > 0 && b%8 == 4 {
				p := std.Pools[wv.Dump-1]
				if pool, ok := w.App.AmmKeeper.GetPool(w.Ctx(), p.Id); ok {
					for _, pa := range pool.PoolAssets {
						if pa.Token.Denom == wv.DumpDenom {
							u := w.Accts[4]
							a := pa.Token.Amount.MulRaw(3)
							txs = append(txs, &histTx{kind: "amm.swapIn", f: J{"pool": p.Id, "in": []string{wv.DumpDenom, a.String()}, "hops": 1, "recipient": u.Addr.String(), "dump": true},
								req: TxReq{Signer: u, Msgs: []sdk.Msg{&ammtypes.MsgSwapExactAmountIn{Sender: u.Addr.String(), Routes: []ammtypes.SwapAmountInRoute{{PoolId: p.Id, TokenOutDenom: other(p, wv.DumpDenom)}},
									TokenIn: sdk.NewCoin(wv.DumpDenom, a), TokenOutMinAmount: math.OneInt(), Recipient: u.Addr.String()}}}})
							stats["dump"]++
						}
					}
				}
			}
			if (faults || os.Getenv("VERIF_GENTRIP") != "") && h.r.Intn(18) == 0 {
				// a restart from an exported genesis, for one module: ExportGenesis followed by InitGenesis of exactly that export on the
				// live state. Every ledger must come through it, and what is opened or created afterwards must not collide with what
				// was imported (id counters).
				mods := []string{"tradeshield", "leveragelp", "perpetual", "amm", "commitment", "masterchef", "poolaccounted", "tier", "assetprofile", "oracle", "burner", "tokenomics", "parameter", "estaking"}
				name := mods[h.r.Intn(len(mods))]
				if fm := map[string]string{"ts.": "tradeshield", "perp.": "perpetual", "lp.": "leveragelp", "cm.": "commitment", "amm.": "amm", "ss.": "stablestake"}[h.focus]; fm != "" && h.r.Intn(2) == 0 {
					name = fm // the module the history concentrates on
					if fm == "amm" && h.r.Intn(2) == 0 {
						name = "commitment" // pool shares are held by the commitment module: its export carries them
					}
				}
				done := false
				w.Seed(func(ctx sdk.Context) {
					cctx, write := ctx.CacheContext()
					if ok, _ := genesisRoundTrip(w, cctx, name); ok {
						write()
						done = true
					}
				})
				if done {
					curPre = append(curPre, J{"kind": "genesisRoundTrip", "module": name})
					stats["fault/genesisRoundTrip/"+name]++
				}
			}
			if os.Getenv("VERIF_GOVSS") != "" && (b == 2 || h.r.Intn(40) == 0) {
				// governance sets the lending vault's epoch length (early in the history, and now and then again)
				if sh := h.govVaultShock(); sh != "" {
					curShocks = append(curShocks, sh)
					stats["govVault/applied"]++
				}
			}
			if os.Getenv("VERIF_GOVLP") != "" && h.r.Intn(12) == 0 {
				// governance re-submits or removes a leverage-enabled pool
				if sh := h.govLpShock(); sh != "" {
					curShocks = append(curShocks, sh)
					stats["govLp/applied"]++
				} else {
					stats["govLp/refused"]++
				}
			}
			if os.Getenv("VERIF_GOVVEST") != "" && (b == 1 || h.r.Intn(30) == 0) {
				// governance switches vest-now on and re-points what Eden vests into (early in the history, and now and then again)
				if sh := h.govVestShock(); sh != "" {
					curShocks = append(curShocks, sh)
					stats["govVest/applied"]++
				}
			}
			if os.Getenv("VERIF_GOVAMM") != "" && (b == 1 || h.r.Intn(25) == 0) {
				// governance moves one of the amm module's fee parameters (early in the history, and now and then again)
				if sh := h.govAmmShock(); sh != "" {
					curShocks = append(curShocks, sh)
					stats["govAmm/applied"]++
				}
			}
			if os.Getenv("VERIF_GOVPOOL") != "" && h.r.Intn(10) == 0 {
				// governance rewrites one pool's parameters (oracle switch, swap fee)
				if sh, tx := h.govPoolShock(); sh != "" {
					curShocks = append(curShocks, sh)
					stats["govPool/applied"]++
					if tx != nil {
						txs = append(txs, tx)
					}
				}
			}
			if govShocks && h.r.Intn(6) == 0 {
				if sh := h.govShock(); sh != "" {
					curShocks = append(curShocks, sh)
					stats["govShock/applied"]++
				} else {
					stats["govShock/refused"]++
				}
			}
			dt := []time.Duration{5 * time.Second, 5 * time.Second, 6 * time.Second, time.Minute, time.Hour, 2 * time.Hour}[h.r.Intn(6)]
			if faults && h.r.Intn(10) == 0 {
				// long gaps between blocks: many epochs at once, every price expired
				dt = []time.Duration{25 * time.Hour, 72 * time.Hour, 40 * 24 * time.Hour, 400 * 24 * time.Hour}[h.r.Intn(4)]
				stats["fault/gap"]++
			}
			_ = faultNote
			if !emitBlock(w, out, hi, txs, dt, stats) {
				break
			}
		}
		out.Line(J{"t": "stats", "dist": stats})
		_ = fmt.Sprint
	}
}

// enableEdenRewards switches liquidity-mining Eden on for every pool (what governance does pool by pool with
// MsgTogglePoolEdenRewards).
func enableEdenRewards(w *World, ctx sdk.Context) {
	for _, pi := range w.App.MasterchefKeeper.GetAllPoolInfos(ctx) {
		pi.EnableEdenRewards = true
		w.App.MasterchefKeeper.SetPoolInfo(ctx, pi)
	}
}

// histWorldVariant: everything about a history's world that is not derived from its seed alone (recorded in hist.begin so
// that a stored history can be replayed, harness/histreplay.go).
type histWorldVariant struct {
	AtomPrice string `json:"atomPrice"`
	Inflation bool   `json:"inflation"`
	Whale     bool   `json:"whale"`
	Sweep     string `json:"sweep"`
	// Dump > 0: one user keeps selling three reserves of one asset into pool number Dump-1 every eighth block (generation
	// only: the sales are ordinary recorded txs) — a pool driven to an extreme ratio
	Dump      int    `json:"dump"`
	DumpDenom string `json:"dumpDenom"`
	// Usdc: the denom USDC has on the chain; "" = "uusdc" (as in the repository's tests), otherwise an ibc/… voucher (as in
	// production: asset-profile BaseDenom "uusdc", Denom ibc/…)
	Usdc string `json:"usdc,omitempty"`
	// ExtRewards: governance has listed ATOM and USDC as supported external reward denoms (every generated history; absent in
	// histories stored before the switch existed, whose MsgAddExternalIncentive were all refused)
	ExtRewards bool `json:"extRewards,omitempty"`
	// Validators: extra staking validators (governors of the consumer chain) created by users with MsgCreateValidator before the
	// history starts; 0 = only the genesis validator, as in the repository's tests
	Validators int `json:"validators,omitempty"`
}

func histWorld(t *testing.T, hseed int64, wv histWorldVariant) (*World, *Std) {
	w := NewWorld(t, hseed, 7)
	usdc := wv.Usdc
	if usdc == "" {
		usdc = "uusdc"
	}
	std := w.SeedStandardWith(D(wv.AtomPrice), usdc)
	if wv.ExtRewards {
		w.Seed(func(ctx sdk.Context) {
			mcp := w.App.MasterchefKeeper.GetParams(ctx)
			mcp.SupportedRewardDenoms = []*mctypes.SupportedRewardDenom{{Denom: "uatom", MinAmount: math.NewInt(1)}, {Denom: usdc, MinAmount: math.NewInt(1)}}
			w.App.MasterchefKeeper.SetParams(ctx, mcp)
		})
	}
	if wv.Inflation {
		w.Seed(func(ctx sdk.Context) {
			bpy := w.App.ParameterKeeper.GetParams(ctx).TotalBlocksPerYear
			w.App.TokenomicsKeeper.SetTimeBasedInflation(ctx, toktypes.TimeBasedInflation{StartBlockHeight: 1, EndBlockHeight: 1_000_000_000, Description: "verif",
				Authority: w.Gov, Inflation: &toktypes.InflationEntry{LmRewards: bpy * 1_000_000, IcsStakingRewards: bpy * 1_000_000, CommunityFund: bpy * 1000, StrategicReserve: 0, TeamTokensVested: 0}})
			enableEdenRewards(w, ctx)
		})
	}
	if wv.Dump > 0 {
		// the seller of the dump variant holds enough of the asset to keep selling three reserves at a time
		w.Seed(func(ctx sdk.Context) {
			w.Fund(ctx, w.Accts[4].Addr, sdk.NewCoins(sdk.NewCoin(wv.DumpDenom, math.NewIntWithDecimal(1, 30))))
		})
	}
	if wv.Validators > 0 {
		var reqs []TxReq
		for i := 0; i < wv.Validators && i < 3; i++ {
			op := w.Accts[5-i]
			pk := ed25519.GenPrivKeyFromSecret([]byte(fmt.Sprintf("verif-extra-validator-%d-%d", hseed, i))).PubKey()
			self := math.NewInt(int64(1_000_000 + 500_000*i)) // at least one unit of voting power each; the voting-power ceiling admits them in this order
			msg, err := stakingtypes.NewMsgCreateValidator(sdk.ValAddress(op.Addr).String(), pk, sdk.NewCoin("uelys", self),
				stakingtypes.Description{Moniker: fmt.Sprintf("verif-%d", i)},
				stakingtypes.NewCommissionRates(D("0.05").Add(D("0.01").MulInt64(int64(i))), D("0.2"), D("0.01")), math.OneInt())
			if err != nil {
				t.Fatalf("create validator msg: %v", err)
			}
			reqs = append(reqs, TxReq{Signer: op, Msgs: []sdk.Msg{msg}})
		}
		res := w.Block(5*time.Second, reqs)
		if res.Err != nil || res.Panicked {
			t.Fatalf("validator creation block failed: %v %s", res.Err, res.PanicText)
		}
		for i, x := range res.Txs {
			if x.Code != 0 {
				t.Logf("extra validator %d refused: %s", i, x.Log)
			}
		}
	}
	// the burner runs every five minutes (governance-configured epoch; the default genesis names none)
	w.Seed(func(ctx sdk.Context) {
		bp := w.App.BurnerKeeper.GetParams(ctx)
		bp.EpochIdentifier = epochstypes.FiveMinutesEpochID
		w.App.BurnerKeeper.SetParams(ctx, &bp)
	})
	// seed some claimed Eden / EdenB so commitment ops have something to work with
	w.Seed(func(ctx sdk.Context) {
		for _, a := range w.Accts[:4] {
			c := w.App.CommitmentKeeper.GetCommitments(ctx, a.Addr)
			c.AddClaimed(sdk.NewCoin("ueden", math.NewInt(5_000_000_000)))
			c.AddClaimed(sdk.NewCoin("uedenb", math.NewInt(1_000_000_000)))
			w.App.CommitmentKeeper.SetCommitments(ctx, c)
		}
	})
	w.Seed(func(ctx sdk.Context) {
		p := w.App.LeveragelpKeeper.GetParams(ctx)
		switch wv.Sweep {
		case "one-per-block":
			p.NumberPerBlock = 1
		case "every-7-blocks":
			p.EpochLength = 7
		case "off":
			p.FallbackEnabled = false
		}
		_ = w.App.LeveragelpKeeper.SetParams(ctx, &p)
	})
	return w, std
}
