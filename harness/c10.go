package harness

// C10: third parties (ClosePositions messages, the leveragelp begin-blocker sweep) may close or alter a position only when
// its health is at or below the safety factor or the market has reached its stop-loss / take-profit price.
// Real blocks on the real app. Before each probe block the harness PREDICTS, on a discarded cache context advanced to the
// probe block's time and height, the health / prices the handlers will see (through the keepers' own exported functions),
// then lets a third party name positions in ClosePositions and records what happened to every position.

import (
	"math/rand"
	"sort"
	"strings"
	"testing"
	"time"

	"cosmossdk.io/math"
	sdk "github.com/cosmos/cosmos-sdk/types"
	ammtypes "github.com/elys-network/elys/x/amm/types"
	lpkeeper "github.com/elys-network/elys/x/leveragelp/keeper"
	lptypes "github.com/elys-network/elys/x/leveragelp/types"
	perpkeeper "github.com/elys-network/elys/x/perpetual/keeper"
	perptypes "github.com/elys-network/elys/x/perpetual/types"
)

func init() { modes["c10"] = runC10 }

type c10Pos struct {
	Module   string
	Id       uint64
	Owner    string
	Pool     uint64
	Long     bool
	Size     math.Int // leveraged lp amount / custody
	Coll     math.Int
	Princ    math.Int // debt principal / liabilities
	Health   math.LegacyDec
	Price    math.LegacyDec // lp token price / trading asset price
	StopLoss math.LegacyDec
	TakeProf math.LegacyDec
	LiabZero bool
	PredErr  string
	// perpetual: custody after ONE settlement of the interest and funding accrued up to the probe block (what a third party's
	// request may take out of a position it is not allowed to close)
	Settled math.Int
	// perpetual: the health a SECOND evaluation in the same block finds (a position named twice in one request list is settled and
	// judged twice; the second pass starts from what the first one left)
	Health2 math.LegacyDec
}

func c10OthersSettled(c c10Pos, settledIn map[uint64]int, settledSelf map[uint64]bool) int {
	if c.Module != "perp" {
		return 0
	}
	n := settledIn[c.Pool]
	if settledSelf[c.Id] {
		n--
	}
	return n
}

func decRaw2(d, dflt math.LegacyDec) string {
	if d.IsNil() {
		return decRaw(dflt)
	}
	return decRaw(d)
}

func (w *World) lpPositions(ctx sdk.Context) map[uint64]lptypes.Position {
	m := map[uint64]lptypes.Position{}
	for _, p := range w.App.LeveragelpKeeper.GetAllPositions(ctx) {
		m[p.Id] = p
	}
	return m
}

// predict what the handlers will see in the next block (time advanced by dt): never written back.
func (w *World) c10Predict(dt time.Duration) []c10Pos {
	hdr := w.header()
	hdr.Time = w.Time.Add(dt)
	base := w.App.BaseApp.NewUncachedContext(false, hdr)
	app := w.App
	var out []c10Pos
	for _, p := range app.LeveragelpKeeper.GetAllPositions(base) {
		ctx, _ := base.CacheContext()
		cp := c10Pos{Module: "lp", Id: p.Id, Owner: p.Address, Pool: p.AmmPoolId, Long: true, Size: p.LeveragedLpAmount, Coll: p.Collateral.Amount,
			StopLoss: p.StopLossPrice, TakeProf: math.LegacyZeroDec(), Health: math.LegacyZeroDec(), Price: math.LegacyZeroDec()}
		debt := app.StablestakeKeeper.UpdateInterestAndGetDebt(ctx, p.GetPositionAddress())
		cp.Princ = debt.Borrowed
		cp.LiabZero = debt.GetTotalLiablities().IsZero()
		h, err := app.LeveragelpKeeper.GetPositionHealth(ctx, p)
		if err != nil {
			cp.PredErr = err.Error()
		} else {
			cp.Health = h
		}
		ammPool, _ := app.AmmKeeper.GetPool(ctx, p.AmmPoolId)
		if lpPrice, err := ammPool.LpTokenPrice(ctx, app.OracleKeeper, app.AccountedPoolKeeper); err == nil {
			cp.Price = lpPrice
		} else {
			cp.PredErr += " lpprice:" + err.Error()
		}
		out = append(out, cp)
	}
	// perpetual handlers run inside a tx, i.e. after every module's begin-blocker of that block has run (borrow and funding
	// rates are re-set there, the leveragelp sweep may move the amm pool): predict on a copy of the state on which the real
	// begin-blockers have been run
	pbase, _ := base.CacheContext()
	func() {
		defer func() {
			if r := recover(); r != nil {
				pbase, _ = base.CacheContext()
			}
		}()
		if _, err := app.BeginBlocker(pbase); err != nil {
			pbase, _ = base.CacheContext()
		}
	}()
	for _, m0 := range app.PerpetualKeeper.GetAllMTPs(base) {
		ctx, _ := pbase.CacheContext()
		m, err := app.PerpetualKeeper.GetMTP(ctx, sdk.MustAccAddressFromBech32(m0.Address), m0.Id)
		if err != nil {
			continue // gone in begin-block
		}
		cp := c10Pos{Module: "perp", Id: m.Id, Owner: m.Address, Pool: m.AmmPoolId, Long: m.Position == perptypes.Position_LONG, Size: m.Custody, Coll: m.Collateral,
			Princ: m.Liabilities, StopLoss: m.StopLossPrice, TakeProf: m.TakeProfitPrice, Health: math.LegacyZeroDec(), Price: math.LegacyZeroDec()}
		pool, _ := app.PerpetualKeeper.GetPool(ctx, m.AmmPoolId)
		ammPool, _ := app.AmmKeeper.GetPool(ctx, m.AmmPoolId)
		func() {
			defer func() {
				if r := recover(); r != nil {
					cp.PredErr = "panic in prediction"
				}
			}()
			// the prefix of CheckAndLiquidateUnhealthyPosition, through the keeper's own exported functions
			if tpl, err := app.PerpetualKeeper.CalcMTPTakeProfitLiability(ctx, m); err == nil {
				m.TakeProfitLiabilities = tpl
			}
			_ = m.UpdateMTPTakeProfitBorrowFactor()
			app.PerpetualKeeper.UpdateMTPBorrowInterestUnpaidLiability(ctx, &m)
			if _, err := app.PerpetualKeeper.SettleMTPBorrowInterestUnpaidLiability(ctx, &m, &pool, ammPool); err != nil {
				cp.PredErr = "settle: " + err.Error()
				return
			}
			if err := app.PerpetualKeeper.SettleFunding(ctx, &m, &pool, ammPool); err != nil {
				cp.PredErr = "funding: " + err.Error()
				return
			}
			h, err := app.PerpetualKeeper.GetMTPHealth(ctx, m, ammPool, "uusdc")
			if err != nil {
				cp.PredErr = "health: " + err.Error()
				return
			}
			cp.Health = h
			cp.Settled = m.Custody
			// the same prefix once more, on what the first pass left (the first pass stored the position and the pool)
			cp.Health2 = h
			m.MtpHealth = h
			_ = app.PerpetualKeeper.SetMTP(ctx, &m)
			app.PerpetualKeeper.SetPool(ctx, pool)
			// a second request in the same block fetches the pools afresh: the amm pool as the first settlement left it
			pool, _ = app.PerpetualKeeper.GetPool(ctx, m.AmmPoolId)
			ammPool, _ = app.AmmKeeper.GetPool(ctx, m.AmmPoolId)
			if tpl, err := app.PerpetualKeeper.CalcMTPTakeProfitLiability(ctx, m); err == nil {
				m.TakeProfitLiabilities = tpl
			}
			_ = m.UpdateMTPTakeProfitBorrowFactor()
			app.PerpetualKeeper.UpdateMTPBorrowInterestUnpaidLiability(ctx, &m)
			if _, err := app.PerpetualKeeper.SettleMTPBorrowInterestUnpaidLiability(ctx, &m, &pool, ammPool); err == nil {
				if err := app.PerpetualKeeper.SettleFunding(ctx, &m, &pool, ammPool); err == nil {
					if h2, err := app.PerpetualKeeper.GetMTPHealth(ctx, m, ammPool, "uusdc"); err == nil {
						cp.Health2 = h2
					}
				}
			}
		}()
		if pr, err := app.PerpetualKeeper.GetAssetPrice(ctx, m.TradingAsset); err == nil {
			cp.Price = pr
		}
		out = append(out, cp)
	}
	return out
}

// perpLiqHealth: the health of a perpetual position as the force-close path would compute it right now (interest and funding
// settled first, on a discarded copy of the state): what a third party's close-positions request would be judged on.
func perpLiqHealth(w *World, owner string, id uint64) (h math.LegacyDec, ok bool) {
	app := w.App
	ctx, _ := w.Ctx().CacheContext()
	defer func() {
		if r := recover(); r != nil {
			ok = false
		}
	}()
	m, err := app.PerpetualKeeper.GetMTP(ctx, sdk.MustAccAddressFromBech32(owner), id)
	if err != nil {
		return h, false
	}
	pool, _ := app.PerpetualKeeper.GetPool(ctx, m.AmmPoolId)
	ammPool, _ := app.AmmKeeper.GetPool(ctx, m.AmmPoolId)
	if tpl, err := app.PerpetualKeeper.CalcMTPTakeProfitLiability(ctx, m); err == nil {
		m.TakeProfitLiabilities = tpl
	}
	_ = m.UpdateMTPTakeProfitBorrowFactor()
	app.PerpetualKeeper.UpdateMTPBorrowInterestUnpaidLiability(ctx, &m)
	if _, err := app.PerpetualKeeper.SettleMTPBorrowInterestUnpaidLiability(ctx, &m, &pool, ammPool); err != nil {
		return h, false
	}
	if err := app.PerpetualKeeper.SettleFunding(ctx, &m, &pool, ammPool); err != nil {
		return h, false
	}
	h, err = app.PerpetualKeeper.GetMTPHealth(ctx, m, ammPool, "uusdc")
	return h, err == nil
}

func runC10(t *testing.T, seed int64, n int, out *Out) {
	r := rand.New(rand.NewSource(seed))
	stats := map[string]int{}
	nWorlds := int(envInt("VERIF_HISTS", 1))
	for wi := 0; wi < nWorlds; wi++ {
		w := NewWorld(t, seed*100+int64(wi), 8)
		std := w.SeedStandard()
		h := &Hist{w: w, std: std, r: r}
		// governance-permitted settings of the leveragelp fallback sweep (every block / one position per block / every 7th block /
		// off): with the sweep off or slow an unhealthy position stays open until a bot names it - or its owner re-opens it
		sweep := []string{"default", "default", "default", "off", "every-7-blocks", "one-per-block"}[r.Intn(6)]
		w.Seed(func(ctx sdk.Context) {
			p := w.App.LeveragelpKeeper.GetParams(ctx)
			switch sweep {
			case "one-per-block":
				p.NumberPerBlock = 1
			case "every-7-blocks":
				p.EpochLength = 7
			case "off":
				p.FallbackEnabled = false
			}
			_ = w.App.LeveragelpKeeper.SetParams(ctx, &p)
		})
		w.Block(5*time.Second, nil)
		out.Line(J{"t": "c10.begin", "id": wi, "lpSweep": sweep})
		owners := w.Accts[1:5]
		bots := w.Accts[5:7]
		tx := func(signer *Acct, msgs ...sdk.Msg) TxRes {
			res := w.Block(5*time.Second, []TxReq{{Signer: signer, Msgs: msgs}})
			if res.Err != nil || res.Panicked || len(res.Txs) != 1 {
				t.Fatalf("block failed: %v %s", res.Err, res.PanicText)
			}
			return res.Txs[0]
		}
		lpSafety := func() math.LegacyDec { return w.App.LeveragelpKeeper.GetParams(w.Ctx()).SafetyFactor }
		perpSafety := func() math.LegacyDec { return w.App.PerpetualKeeper.GetSafetyFactor(w.Ctx()) }
		// ---- opens (each judged for open_healthy)
		for _, o := range owners {
			for k := 0; k < 2; k++ {
				pool := std.Pools[2+r.Intn(2)]
				lev := []string{"2", "4", "7", "9", "10"}[r.Intn(5)]
				before := w.lpPositions(w.Ctx())
				res := tx(o, &lptypes.MsgOpen{Creator: o.Addr.String(), CollateralAsset: "uusdc", CollateralAmount: h.amt(10_000_000, 5_000_000_000), AmmPoolId: pool.Id, Leverage: D(lev), StopLossPrice: D("0")})
				line := J{"t": "c10.open", "id": wi, "module": "lp", "code": res.Code, "safety": decRaw(lpSafety())}
				for id, p := range w.lpPositions(w.Ctx()) {
					if _, ok := before[id]; !ok {
						line["health"] = decRaw(p.PositionHealth)
						line["pos"] = id
					}
				}
				stats["open/lp/"+codeStr(res.Code)]++
				out.Line(line)
			}
			for k := 0; k < 2; k++ {
				pool := std.Pools[2+r.Intn(2)]
				long := r.Intn(2) == 0
				lev := []string{"1.5", "2", "3", "5", "8"}[r.Intn(5)]
				price := std.Prices["ATOM"]
				pos, tp := perptypes.Position_LONG, price.Mul(D([]string{"1.1", "1.5", "3"}[r.Intn(3)]))
				if !long {
					// a short may also be opened with NO take profit (0): nobody can then close it through the take-profit list
					pos, tp = perptypes.Position_SHORT, price.Mul(D([]string{"0.5", "0.8", "0.95", "0"}[r.Intn(4)]))
				}
				nBefore := len(w.App.PerpetualKeeper.GetAllMTPs(w.Ctx()))
				res := tx(o, &perptypes.MsgOpen{Creator: o.Addr.String(), Position: pos, Leverage: D(lev), TradingAsset: "uatom", Collateral: sdk.NewCoin("uusdc", h.amt(10_000_000, 2_000_000_000)),
					TakeProfitPrice: tp, StopLossPrice: D("0"), PoolId: pool.Id})
				line := J{"t": "c10.open", "id": wi, "module": "perp", "code": res.Code, "safety": decRaw(perpSafety())}
				all := w.App.PerpetualKeeper.GetAllMTPs(w.Ctx())
				if res.Code == 0 && len(all) > nBefore {
					var newest perptypes.MTP
					for _, m := range all {
						if m.Id > newest.Id {
							newest = m
						}
					}
					line["health"] = decRaw(newest.MtpHealth)
					line["pos"] = newest.Id
				}
				stats["open/perp/"+codeStr(res.Code)]++
				out.Line(line)
			}
		}
		// some owners change their stop loss (including to 0 = none)
		for _, m := range w.App.PerpetualKeeper.GetAllMTPs(w.Ctx()) {
			if r.Intn(3) != 0 {
				continue
			}
			owner := w.byAddr[m.Address]
			price := std.Prices["ATOM"]
			var sl math.LegacyDec
			switch r.Intn(3) {
			case 0:
				sl = D("0")
			case 1:
				sl = price.Mul(D("0.9"))
				if m.Position == perptypes.Position_SHORT {
					sl = price.Mul(D("1.1"))
				}
			default:
				sl = price.Mul(D("0.99"))
				if m.Position == perptypes.Position_SHORT {
					sl = price.Mul(D("1.01"))
				}
			}
			res := tx(owner, &perptypes.MsgUpdateStopLoss{Creator: owner.Addr.String(), Id: m.Id, Price: sl})
			stats["updateStopLoss/perp/"+codeStr(res.Code)]++
		}
		for _, p := range w.App.LeveragelpKeeper.GetAllPositions(w.Ctx()) {
			if r.Intn(3) != 0 {
				continue
			}
			owner := w.byAddr[p.Address]
			ammPool, _ := w.App.AmmKeeper.GetPool(w.Ctx(), p.AmmPoolId)
			lpPrice, _ := ammPool.LpTokenPrice(w.Ctx(), w.App.OracleKeeper, w.App.AccountedPoolKeeper)
			// from far below the market to a hair under it (then anything that moves the price the sweep computes by a few tenths of a
			// per cent - such as the closure of a large position of the same pool earlier in the same sweep - decides)
			sl := lpPrice.Mul(D([]string{"0.5", "0.9", "0.99", "0.995", "0.998", "0.9995"}[r.Intn(6)]))
			res := tx(owner, &lptypes.MsgUpdateStopLoss{Creator: owner.Addr.String(), Position: p.Id, Price: sl})
			stats["updateStopLoss/lp/"+codeStr(res.Code)]++
		}
		// ---- probe rounds
		// two quiet hours first: the one-hour commitment locks of the freshly opened leveraged-LP positions are over, so stop-loss closes
		// (which do not override a lock) can go through from the first round on
		gapSeen := false
		if gr := w.Block(2*time.Hour, nil); gr.Err == nil && !gr.Panicked {
			gapSeen = true
		}
		for round := 0; round < n; round++ {
			// price move in its own block
			pt := h.priceTx()
			tx(pt.req.Signer, pt.req.Msgs...)
			// now and then nothing happens for a long time: interest and funding accrue unsettled on every position nobody names
			postGap := false
			if r.Intn(6) == 0 {
				postGap, gapSeen = true, true
				gap := []time.Duration{6 * time.Hour, 3 * 24 * time.Hour, 21 * 24 * time.Hour}[r.Intn(3)]
				if gr := w.Block(gap, nil); gr.Err != nil || gr.Panicked {
					break
				}
				tx(pt.req.Signer, pt.req.Msgs...) // prices are fed again (the old ones expired)
				stats["longGap"]++
			}
			// governance moves a safety factor next to some position's health (boundary forcing), between two blocks
			dt := 5 * time.Second
			pred := w.c10Predict(dt)
			// a pair of leveraged-LP positions of one pool that the sweep visits in this order: the first is made liquidatable (safety
			// factor just above its health), the second gets a stop loss a little below the market - by half the share of the pool the
			// first one holds. Closing the first must not change how the second is judged in the same sweep.
			pairForced := false
			if !postGap && gapSeen && sweep == "default" && r.Intn(2) == 0 { // after a long gap the one-hour locks of the positions are over: a stop-loss close can go through
				all := w.App.LeveragelpKeeper.GetAllPositions(w.Ctx())
			pairs:
				for i := 0; i < len(all); i++ {
					for j := i + 1; j < len(all); j++ {
						a, b := all[i], all[j]
						ob := w.byAddr[b.Address]
						if a.AmmPoolId != b.AmmPoolId || a.Address == b.Address || ob == nil {
							continue
						}
						ammPool, ok := w.App.AmmKeeper.GetPool(w.Ctx(), a.AmmPoolId)
						if !ok || !ammPool.TotalShares.Amount.IsPositive() {
							continue
						}
						x := math.LegacyNewDecFromInt(a.LeveragedLpAmount).Quo(math.LegacyNewDecFromInt(ammPool.TotalShares.Amount))
						lpPrice, err := ammPool.LpTokenPrice(w.Ctx(), w.App.OracleKeeper, w.App.AccountedPoolKeeper)
						if err != nil || x.LT(D("0.001")) {
							continue
						}
						var ha, hb math.LegacyDec
						for _, q := range pred {
							if q.Module == "lp" && q.Id == a.Id && q.PredErr == "" {
								ha = q.Health
							}
							if q.Module == "lp" && q.Id == b.Id && q.PredErr == "" {
								hb = q.Health
							}
						}
						if ha.IsNil() || !ha.IsPositive() || ha.Mul(D("1.002")).GTE(D("3")) || ha.Mul(D("1.002")).LTE(D("1")) {
							continue
						}
						if hb.IsNil() || hb.LTE(ha.Mul(D("1.01"))) {
							continue // the second one has to stay healthy under the safety factor that makes the first liquidatable
						}
						sl := lpPrice.Mul(math.LegacyOneDec().Sub(x.QuoInt64(2)))
						res := tx(ob, &lptypes.MsgUpdateStopLoss{Creator: ob.Addr.String(), Position: b.Id, Price: sl})
						stats["sweepPair/stopLoss/"+codeStr(res.Code)]++
						w.Seed(func(ctx sdk.Context) {
							p := w.App.LeveragelpKeeper.GetParams(ctx)
							p.SafetyFactor = ha.Mul(D("1.002"))
							_ = w.App.LeveragelpKeeper.SetParams(ctx, &p)
						})
						pairForced = true
						pred = w.c10Predict(dt)
						break pairs
					}
				}
			}
			// the same pair inside ONE close-positions request (sweep switched off): the first entry is liquidatable and really closes, which
			// moves the lp token price; the second entry's stop loss is put between the price before and the price after that close. When
			// the handler comes to the second entry the market is above its stop loss: it has to be left alone.
			type reqPairT struct {
				a, b      lptypes.Position
				pricePost math.LegacyDec
			}
			var reqPair *reqPairT
			if !pairForced && !postGap && gapSeen && sweep == "off" && r.Intn(2) == 0 {
				all := w.App.LeveragelpKeeper.GetAllPositions(w.Ctx())
			rpairs:
				for i := 0; i < len(all); i++ {
					for j := 0; j < len(all); j++ {
						a, b := all[i], all[j]
						ob := w.byAddr[b.Address]
						if i == j || a.AmmPoolId != b.AmmPoolId || a.Address == b.Address || ob == nil {
							continue
						}
						var ha, hb math.LegacyDec
						for _, q := range pred {
							if q.Module == "lp" && q.Id == a.Id && q.PredErr == "" {
								ha = q.Health
							}
							if q.Module == "lp" && q.Id == b.Id && q.PredErr == "" {
								hb = q.Health
							}
						}
						if ha.IsNil() || !ha.IsPositive() || ha.Mul(D("1.002")).GTE(D("3")) || ha.Mul(D("1.002")).LTE(D("1")) || hb.IsNil() || hb.LTE(ha.Mul(D("1.01"))) {
							continue
						}
						sfOld := lpSafety()
						w.Seed(func(ctx sdk.Context) {
							p := w.App.LeveragelpKeeper.GetParams(ctx)
							p.SafetyFactor = ha.Mul(D("1.002"))
							_ = w.App.LeveragelpKeeper.SetParams(ctx, &p)
						})
						// what the first entry's close does to the lp token price, on a discarded copy of the next block's state
						hdr := w.header()
						hdr.Time = w.Time.Add(dt)
						cctx, _ := w.App.BaseApp.NewUncachedContext(false, hdr).CacheContext()
						var pricePre, pricePost math.LegacyDec
						func() {
							defer func() { _ = recover() }()
							ap, _ := w.App.AmmKeeper.GetPool(cctx, a.AmmPoolId)
							pp, err := ap.LpTokenPrice(cctx, w.App.OracleKeeper, w.App.AccountedPoolKeeper)
							if err != nil {
								return
							}
							pricePre = pp
							lpms := lpkeeper.NewMsgServerImpl(*w.App.LeveragelpKeeper)
							if _, err := lpms.ClosePositions(cctx, &lptypes.MsgClosePositions{Creator: bots[0].Addr.String(), Liquidate: []*lptypes.PositionRequest{{Address: a.Address, Id: a.Id}}}); err != nil {
								return
							}
							if _, still := w.lpPositions(cctx)[a.Id]; still {
								return // it did not close
							}
							ap2, _ := w.App.AmmKeeper.GetPool(cctx, a.AmmPoolId)
							if pq, err := ap2.LpTokenPrice(cctx, w.App.OracleKeeper, w.App.AccountedPoolKeeper); err == nil {
								pricePost = pq
							}
						}()
						if pricePre.IsNil() || pricePost.IsNil() || !pricePost.GT(pricePre) {
							w.Seed(func(ctx sdk.Context) {
								p := w.App.LeveragelpKeeper.GetParams(ctx)
								p.SafetyFactor = sfOld
								_ = w.App.LeveragelpKeeper.SetParams(ctx, &p)
							})
							continue
						}
						sl := pricePre.Add(pricePost).QuoInt64(2)
						res := tx(ob, &lptypes.MsgUpdateStopLoss{Creator: ob.Addr.String(), Position: b.Id, Price: sl})
						stats["requestPair/stopLoss/"+codeStr(res.Code)]++
						if res.Code == 0 {
							reqPair = &reqPairT{a: a, b: b, pricePost: pricePost}
							pairForced = true
						}
						pred = w.c10Predict(dt)
						break rpairs
					}
				}
			}
			var gapTarget *c10Pos
			if !pairForced && len(pred) > 0 && (postGap || r.Intn(2) == 0) {
				c := pred[r.Intn(len(pred))]
				if postGap {
					// after a long gap: a perpetual position carrying unsettled interest, the safety factor put just above the health
					// the force-close path will see, and (below) its owner tops it up with dust before anybody names it
					for _, q := range pred {
						if q.Module == "perp" && q.PredErr == "" && (gapTarget == nil || (!q.Long && r.Intn(2) == 0)) {
							q := q
							gapTarget = &q
						}
					}
					if gapTarget != nil {
						c = *gapTarget
					}
				}
				if c.PredErr == "" && c.Health.IsPositive() && c.Health.LT(D("50")) {
					f := D([]string{"0.999999", "1", "1.000001", "0.97", "1.03", "1.0005", "1.002"}[r.Intn(7)])
					if gapTarget != nil {
						f = D([]string{"1.0005", "1.002", "1.01"}[r.Intn(3)])
					}
					sf := c.Health.Mul(f)
					if sf.GT(D("1")) && sf.LT(D("3")) {
						w.Seed(func(ctx sdk.Context) {
							if c.Module == "lp" {
								p := w.App.LeveragelpKeeper.GetParams(ctx)
								p.SafetyFactor = sf
								_ = w.App.LeveragelpKeeper.SetParams(ctx, &p)
							} else {
								p := w.App.PerpetualKeeper.GetParams(ctx)
								p.SafetyFactor = sf
								_ = w.App.PerpetualKeeper.SetParams(ctx, &p)
							}
						})
						stats["safetyFactorForced/"+c.Module]++
					}
				}
				pred = w.c10Predict(dt)
			}
			if len(pred) == 0 {
				break
			}
			// an owner re-opens (consolidates into) one of their positions, preferably one that is close to or below the safety
			// factor: extra leverage, or a pure collateral top-up (leverage 0 / 1) from dust to large; judged for open_healthy
			// a leveraged-LP position that is at or below the safety factor and has not been swept (slow or switched-off sweep): its owner's
			// top-up is the case the open-time health test exists for — taken whenever it arises
			var unswept *c10Pos
			for i := range pred {
				q := pred[i]
				if q.Module == "lp" && q.PredErr == "" && q.Health.IsPositive() && q.Health.LTE(lpSafety()) {
					unswept = &pred[i]
				}
			}
			if gapTarget != nil || unswept != nil || r.Intn(3) == 0 {
				c := pred[r.Intn(len(pred))]
				for _, q := range pred {
					sfq := lpSafety()
					if q.Module == "perp" {
						sfq = perpSafety()
					}
					if q.PredErr == "" && q.Health.IsPositive() && q.Health.LT(sfq.Mul(D("1.02"))) && r.Intn(2) == 0 {
						c = q
					}
				}
				if gapTarget != nil {
					c = *gapTarget
				} else if unswept != nil && r.Intn(4) != 0 {
					c = *unswept
				}
				owner := w.byAddr[c.Owner]
				amt := []math.Int{math.NewInt(int64(1 + r.Intn(20_000))), h.amt(100_000, 50_000_000), h.amt(50_000_000, 3_000_000_000)}[r.Intn(3)]
				if gapTarget != nil {
					amt = math.NewInt(int64(1 + r.Intn(20_000)))
				}
				if c.Module == "lp" {
					if p, ok := w.lpPositions(w.Ctx())[c.Id]; ok && owner != nil {
						lev := []string{"1", "1", "2", "5"}[r.Intn(4)]
						lpBefore := w.lpPositions(w.Ctx())
						res := tx(owner, &lptypes.MsgOpen{Creator: owner.Addr.String(), CollateralAsset: "uusdc", CollateralAmount: amt, AmmPoolId: p.AmmPoolId, Leverage: D(lev), StopLossPrice: p.StopLossPrice})
						line := J{"t": "c10.open", "id": wi, "module": "lp", "code": res.Code, "safety": decRaw(lpSafety()), "reopen": true, "leverage": lev}
						if res.Code == 0 {
							now := w.lpPositions(w.Ctx())
							for _, id := range sortedU64(now) {
								if b, ok := lpBefore[id]; !ok || now[id].Collateral.Amount.GT(b.Collateral.Amount) {
									line["health"] = decRaw(now[id].PositionHealth)
									line["pos"] = id
									line["consolidatedInto"] = ok
								}
							}
						}
						stats["reopen/lp/"+codeStr(res.Code)]++
						out.Line(line)
					}
				} else if m, err := w.App.PerpetualKeeper.GetMTP(w.Ctx(), sdk.MustAccAddressFromBech32(c.Owner), c.Id); err == nil && owner != nil {
					lev := []string{"0", "0", "1", "2", "4"}[r.Intn(5)]
					if gapTarget != nil {
						lev = "0"
					}
					beforeAll := map[uint64]perptypes.MTP{}
					for _, x := range w.App.PerpetualKeeper.GetAllMTPs(w.Ctx()) {
						beforeAll[x.Id] = x
					}
					res := tx(owner, &perptypes.MsgOpen{Creator: owner.Addr.String(), Position: m.Position, Leverage: D(lev), TradingAsset: m.TradingAsset, Collateral: sdk.NewCoin(m.CollateralAsset, amt),
						TakeProfitPrice: m.TakeProfitPrice, StopLossPrice: m.StopLossPrice, PoolId: m.AmmPoolId})
					line := J{"t": "c10.open", "id": wi, "module": "perp", "code": res.Code, "safety": decRaw(perpSafety()), "reopen": true, "leverage": lev}
					if res.Code == 0 {
						// the position the message actually opened or consolidated into: the one whose collateral grew, or a new one
						for _, q := range w.App.PerpetualKeeper.GetAllMTPs(w.Ctx()) {
							if b, ok := beforeAll[q.Id]; !ok || q.Collateral.GT(b.Collateral) {
								line["health"] = decRaw(q.MtpHealth)
								line["pos"] = q.Id
								line["consolidatedInto"] = ok
								if lh, ok2 := perpLiqHealth(w, q.Address, q.Id); ok2 {
									line["liqHealth"] = decRaw(lh)
								}
							}
						}
					}
					stats["reopen/perp/"+codeStr(res.Code)]++
					if res.Code != 0 {
						lg := res.Log
						if i := strings.LastIndex(lg, ": "); i >= 0 {
							lg = lg[i+2:]
						}
						if len(lg) > 40 {
							lg = lg[:40]
						}
						stats["reopen/perp/why/"+lg]++
					}
					out.Line(line)
				}
				pred = w.c10Predict(dt)
				if len(pred) == 0 {
					break
				}
			}
			// a third party names a random subset of positions, in random lists
			bot := bots[r.Intn(len(bots))]
			module := []string{"lp", "perp"}[r.Intn(2)]
			req := map[string][]string{}
			key := func(c c10Pos) string { return c.Module + "/" + itoa(c.Id) }
			var lpLiq, lpSl []*lptypes.PositionRequest
			var pLiq, pSl, pTp []perptypes.PositionRequest
			if reqPair != nil {
				// the directed request: [liquidate a, stop-loss b]; b is judged at the price a's close leaves
				module = "lp"
				lpLiq = append(lpLiq, &lptypes.PositionRequest{Address: reqPair.a.Address, Id: reqPair.a.Id})
				lpSl = append(lpSl, &lptypes.PositionRequest{Address: reqPair.b.Address, Id: reqPair.b.Id})
				req["lp/"+itoa(reqPair.a.Id)] = []string{"liquidate"}
				req["lp/"+itoa(reqPair.b.Id)] = []string{"stopLoss"}
				stats["requestPair/sent"]++
			}
			for _, c := range pred {
				if reqPair != nil || c.Module != module || r.Intn(3) == 0 {
					continue
				}
				if module == "lp" {
					if r.Intn(2) == 0 {
						lpLiq = append(lpLiq, &lptypes.PositionRequest{Address: c.Owner, Id: c.Id})
						req[key(c)] = append(req[key(c)], "liquidate")
					} else {
						lpSl = append(lpSl, &lptypes.PositionRequest{Address: c.Owner, Id: c.Id})
						req[key(c)] = append(req[key(c)], "stopLoss")
					}
				} else {
					switch r.Intn(3) {
					case 0:
						pLiq = append(pLiq, perptypes.PositionRequest{Address: c.Owner, Id: c.Id})
						req[key(c)] = append(req[key(c)], "liquidate")
					case 1:
						pSl = append(pSl, perptypes.PositionRequest{Address: c.Owner, Id: c.Id})
						req[key(c)] = append(req[key(c)], "stopLoss")
					default:
						pTp = append(pTp, perptypes.PositionRequest{Address: c.Owner, Id: c.Id})
						req[key(c)] = append(req[key(c)], "takeProfit")
					}
				}
			}
			ownerBal := map[string]sdk.Coins{}
			for _, o := range owners {
				ownerBal[o.Addr.String()] = w.App.BankKeeper.GetAllBalances(w.Ctx(), o.Addr)
			}
			var msg sdk.Msg
			if module == "lp" {
				if len(lpLiq)+len(lpSl) == 0 {
					continue
				}
				msg = &lptypes.MsgClosePositions{Creator: bot.Addr.String(), Liquidate: lpLiq, StopLoss: lpSl}
			} else {
				if len(pLiq)+len(pSl)+len(pTp) == 0 {
					continue
				}
				msg = &perptypes.MsgClosePositions{Creator: bot.Addr.String(), Liquidate: pLiq, StopLoss: pSl, TakeProfit: pTp}
			}
			// half of the time a second bot repeats the very same request later in the same block: nothing has accrued in between,
			// so it must find nothing to take
			repeated := r.Intn(2) == 0
			breqs := []TxReq{{Signer: bot, Msgs: []sdk.Msg{msg}}}
			if repeated {
				other := bots[0]
				if other == bot {
					other = bots[1]
				}
				var msg2 sdk.Msg
				if module == "lp" {
					msg2 = &lptypes.MsgClosePositions{Creator: other.Addr.String(), Liquidate: lpLiq, StopLoss: lpSl}
				} else {
					msg2 = &perptypes.MsgClosePositions{Creator: other.Addr.String(), Liquidate: pLiq, StopLoss: pSl, TakeProfit: pTp}
				}
				breqs = append(breqs, TxReq{Signer: other, Msgs: []sdk.Msg{msg2}})
				stats["closePositions/repeated"]++
			}
			res := w.Block(dt, breqs)
			if res.Err != nil || res.Panicked {
				out.Line(J{"t": "c10.blockfail", "id": wi, "err": res.PanicText})
				break
			}
			stats["closePositions/"+module+"/"+codeStr(res.Txs[0].Code)]++
			// what happened to every position
			ctx := w.Ctx()
			lpNow := w.lpPositions(ctx)
			perpNow := map[uint64]perptypes.MTP{}
			for _, m := range w.App.PerpetualKeeper.GetAllMTPs(ctx) {
				perpNow[m.Id] = m
			}
			// owners one of whose positions was closed or altered in this block receive payouts: their wallet delta says
			// nothing about their other positions
			ownerTouched := map[string]bool{}
			nTouched := 0
			touched := map[string]bool{}
			for _, c := range pred {
				if c.Module == "lp" {
					if p, ok := lpNow[c.Id]; !ok || !p.LeveragedLpAmount.Equal(c.Size) || !p.Collateral.Amount.Equal(c.Coll) {
						ownerTouched[c.Owner] = true
						touched[c.Module+"/"+itoa(c.Id)] = true
						nTouched++
					}
				} else if m, ok := perpNow[c.Id]; !ok || !m.Collateral.Equal(c.Coll) || !m.Liabilities.Equal(c.Princ) {
					ownerTouched[c.Owner] = true
					touched[c.Module+"/"+itoa(c.Id)] = true
					nTouched++
				}
			}
			// perpetual positions whose custody moved in this block (settlements of interest and funding): each such settlement takes
			// tokens out of the amm pool, which every later health evaluation in the block (a later entry of the same list, a repeated
			// request) is measured against
			settledIn := map[uint64]int{}
			settledSelf := map[uint64]bool{}
			for _, c := range pred {
				if c.Module == "perp" {
					if m, ok := perpNow[c.Id]; ok && !m.Custody.Equal(c.Size) {
						settledIn[c.Pool]++
						settledSelf[c.Id] = true
					}
				}
			}
			if reqPair != nil {
				// the first entry really closed: the second was examined at the price that close left (otherwise at the price before it)
				if _, still := lpNow[reqPair.a.Id]; !still {
					for i := range pred {
						if pred[i].Module == "lp" && pred[i].Id == reqPair.b.Id {
							pred[i].Price = reqPair.pricePost
						}
					}
					stats["requestPair/firstClosed"]++
				}
			}
			for _, c := range pred {
				after := J{"exists": false, "size": "0", "collateral": "0", "principal": "0"}
				if c.Module == "lp" {
					if p, ok := lpNow[c.Id]; ok {
						debt := w.App.StablestakeKeeper.GetDebt(ctx, p.GetPositionAddress())
						after = J{"exists": true, "size": p.LeveragedLpAmount.String(), "collateral": p.Collateral.Amount.String(), "principal": debt.Borrowed.String()}
					}
				} else if m, ok := perpNow[c.Id]; ok {
					after = J{"exists": true, "size": m.Custody.String(), "collateral": m.Collateral.String(), "principal": m.Liabilities.String()}
				}
				od := w.App.BankKeeper.GetAllBalances(ctx, sdk.MustAccAddressFromBech32(c.Owner))
				delta := [][]string{}
				for _, d := range []string{"uusdc", "uatom"} {
					x := od.AmountOf(d).Sub(ownerBal[c.Owner].AmountOf(d))
					if !x.IsZero() && !ownerTouched[c.Owner] {
						delta = append(delta, []string{d, x.String()})
					}
				}
				sf := lpSafety()
				if c.Module == "perp" {
					sf = perpSafety()
				}
				rq := req[key(c)]
				if rq == nil {
					rq = []string{}
				}
				others := nTouched
				if touched[c.Module+"/"+itoa(c.Id)] {
					others--
				}
				stats["case/"+c.Module]++
				out.Line(J{"t": "c10.case", "id": wi, "round": round, "module": c.Module, "pos": c.Id, "owner": c.Owner, "requested": rq, "sweep": c.Module == "lp",
					"txCode": res.Txs[0].Code, "health": decRaw(c.Health), "health2": decRaw2(c.Health2, c.Health), "safety": decRaw(sf), "price": decRaw(c.Price), "stopLoss": decRaw(c.StopLoss), "takeProfit": decRaw(c.TakeProf),
					"long": c.Long, "liabZero": c.LiabZero, "predErr": c.PredErr, "othersChanged": others, "othersSettled": c10OthersSettled(c, settledIn, settledSelf), "repeated": repeated, "settledSize": c10IntStr(c.Settled),
					"before": J{"size": c.Size.String(), "collateral": c.Coll.String(), "principal": c.Princ.String()}, "after": after, "ownerDelta": delta})
			}
			// an owner-scoped close from someone else must fail
			if r.Intn(3) == 0 {
				if module == "lp" && len(lpNow) > 0 {
					for _, id := range sortedU64(lpNow) {
						p := lpNow[id]
						rs := tx(bot, &lptypes.MsgClose{Creator: bot.Addr.String(), Id: id, LpAmount: p.LeveragedLpAmount})
						out.Line(J{"t": "c10.ownerclose", "id": wi, "module": "lp", "pos": id, "signerIsOwner": false, "code": rs.Code})
						break
					}
				} else if len(perpNow) > 0 {
					for _, id := range sortedU64(perpNow) {
						m := perpNow[id]
						rs := tx(bot, &perptypes.MsgClose{Creator: bot.Addr.String(), Id: id, Amount: m.Custody})
						out.Line(J{"t": "c10.ownerclose", "id": wi, "module": "perp", "pos": id, "signerIsOwner": false, "code": rs.Code})
						break
					}
				}
			}
		}
	}
	out.Line(J{"t": "stats", "dist": stats})
	_ = ammtypes.ModuleName
	_ = lpkeeper.NewMsgServerImpl
	_ = perpkeeper.NewMsgServerImpl
}

func codeStr(c uint32) string {
	if c == 0 {
		return "ok"
	}
	return "fail"
}

func sortedU64[V any](m map[uint64]V) []uint64 {
	ks := make([]uint64, 0, len(m))
	for k := range m {
		ks = append(ks, k)
	}
	sort.Slice(ks, func(i, j int) bool { return ks[i] < ks[j] })
	return ks
}

func c10IntStr(x math.Int) string {
	if x.IsNil() {
		return ""
	}
	return x.String()
}
