package harness

// Scenario mode: scripted histories (the corpus of directed cases) in the same line format as history
// mode, so the same driver handlers judge them. Each scenario replays, through signed transactions in
// real blocks, a multi-step history that random generation is unlikely to hit.

import (
	"fmt"
	authtypes "github.com/cosmos/cosmos-sdk/x/auth/types"
	lptypes "github.com/elys-network/elys/x/leveragelp/types"
	"math/rand"
	"os"
	"reflect"
	"sort"
	"strings"
	"testing"
	"time"

	"cosmossdk.io/math"
	sdk "github.com/cosmos/cosmos-sdk/types"
	banktypes "github.com/cosmos/cosmos-sdk/x/bank/types"
	ammtypes "github.com/elys-network/elys/x/amm/types"
	aptypes "github.com/elys-network/elys/x/assetprofile/types"
	burnertypes "github.com/elys-network/elys/x/burner/types"
	epochstypes "github.com/elys-network/elys/x/epochs/types"
	mctypes "github.com/elys-network/elys/x/masterchef/types"
	oracletypes "github.com/elys-network/elys/x/oracle/types"
	perptypes "github.com/elys-network/elys/x/perpetual/types"
	sstypes "github.com/elys-network/elys/x/stablestake/types"
	toktypes "github.com/elys-network/elys/x/tokenomics/types"
	tstypes "github.com/elys-network/elys/x/tradeshield/types"
)

func init() { modes["scn"] = runScn }

type Scn struct {
	t     *testing.T
	w     *World
	std   *Std
	out   *Out
	id    int
	stats map[string]int
	ok    bool
}

type scnFn func(sc *Scn)

var scenarios = map[string]scnFn{}

// Tx delivers one tx in its own block and returns its result code.
func (sc *Scn) Tx(kind string, signer *Acct, f J, msgs ...sdk.Msg) uint32 {
	return sc.TxDt(5*time.Second, kind, signer, f, msgs...)
}

func (sc *Scn) TxDt(dt time.Duration, kind string, signer *Acct, f J, msgs ...sdk.Msg) uint32 {
	if !sc.ok {
		return 999 // a block failed earlier: the chain has halted
	}
	if f == nil {
		f = J{}
	}
	f["signer"] = signer.Addr.String()
	f["fee"] = [][]string{}
	tx := &histTx{kind: kind, f: f, req: TxReq{Signer: signer, Msgs: msgs}}
	before := sc.stats[kind+"/ok"]
	if !emitBlock(sc.w, sc.out, sc.id, []*histTx{tx}, dt, sc.stats) {
		sc.ok = false
		return 999
	}
	if sc.stats[kind+"/ok"] > before {
		return 0
	}
	return 1
}

// Rebegin emits a fresh hist.begin (handlers restart from the current observed state, with the current pool list):
// for scenarios that first build extra pools.
func (sc *Scn) Rebegin(extra ...PoolRef) {
	sc.std.Pools = append(sc.std.Pools, extra...)
	pools := []J{}
	for _, p := range sc.std.Pools {
		pools = append(pools, J{"id": p.Id, "addr": p.Addr, "oracle": p.Oracle, "perp": p.Perp, "denoms": p.Denoms, "weights": p.Weights, "shareDenom": p.ShareDen, "treasury": p.Treasury})
	}
	sc.id += 1000
	sc.out.Line(J{"t": "hist.begin", "id": sc.id, "seed": 0, "scenario": "rebegin", "names": sc.w.Names, "pools": pools, "obs": sc.w.Observe()})
}

// Empty advances the chain by one empty block.
func (sc *Scn) Empty(dt time.Duration) {
	if !sc.ok {
		return
	}
	if !emitBlock(sc.w, sc.out, sc.id, nil, dt, sc.stats) {
		sc.ok = false
	}
}

func (sc *Scn) Price(display string, price math.LegacyDec) {
	sc.std.Prices[display] = price
	h := &Hist{w: sc.w, std: sc.std}
	_ = h
	var msgs []sdk.Msg
	tx := (&Hist{w: sc.w, std: sc.std, r: sc.w.Rng}).priceTxFixed()
	msgs = tx.req.Msgs
	sc.Tx("oracle.feed", sc.std.Feeder, tx.f, msgs...)
}

func runScn(t *testing.T, seed int64, n int, out *Out) {
	only := os.Getenv("VERIF_SCN")
	names := make([]string, 0, len(scenarios))
	for k := range scenarios {
		names = append(names, k)
	}
	sort.Strings(names)
	id := 0
	for _, name := range names {
		if only != "" && !strings.HasPrefix(name, only) {
			continue
		}
		w := NewWorld(t, seed*100+int64(id), 7)
		w.NoVaultBond = strings.HasSuffix(name, "-fresh-vault")
		std := w.SeedStandard()
		r0 := w.Block(5*time.Second, nil)
		if r0.Err != nil || r0.Panicked {
			t.Fatalf("first block failed: %v %s", r0.Err, r0.PanicText)
		}
		pools := []J{}
		for _, p := range std.Pools {
			pools = append(pools, J{"id": p.Id, "addr": p.Addr, "oracle": p.Oracle, "perp": p.Perp, "denoms": p.Denoms, "weights": p.Weights, "shareDenom": p.ShareDen, "treasury": p.Treasury})
		}
		out.Line(J{"t": "hist.begin", "id": id, "seed": seed, "scenario": name, "names": w.Names, "pools": pools, "obs": w.Observe()})
		sc := &Scn{t: t, w: w, std: std, out: out, id: id, stats: map[string]int{}, ok: true}
		scenarios[name](sc)
		st := map[string]int{}
		for k, v := range sc.stats {
			st["scn:"+name+":"+k] = v
		}
		out.Line(J{"t": "stats", "dist": st})
		id++
	}
}

// ---------------------------------------------------------------- scenarios

func init() {
	// C01 / C05: oracle pool whose accounted balance exceeds its real one (after a perpetual long);
	// an LP exits single-denom with the share amount that pays out exactly the pool's real balance.
	scenarios["c01-exit-exact-balance"] = func(sc *Scn) {
		w, app := sc.w, sc.w.App
		pool := sc.std.Pools[3] // oracle pool, zero swap fee
		trader, lp := w.Accts[2], w.Accts[0]
		sc.Tx("perp.open", trader, J{"pool": pool.Id}, &perptypes.MsgOpen{Creator: trader.Addr.String(), Position: perptypes.Position_LONG, Leverage: D("5"),
			TradingAsset: "uatom", Collateral: sdk.NewCoin("uusdc", math.NewInt(30_000_000_000)), TakeProfitPrice: D("15"), StopLossPrice: D("0"), PoolId: pool.Id})
		sc.Empty(2 * time.Hour) // the creator's shares are locked for one hour
		ctx := w.Ctx()
		real := app.BankKeeper.GetBalance(ctx, sdk.MustAccAddressFromBech32(pool.Addr), "uusdc").Amount
		lpc := app.CommitmentKeeper.GetCommitments(ctx, lp.Addr)
		have := lpc.GetCommittedAmountForDenom(pool.ShareDen)
		// the payout is not monotone in the share amount (weight-breaking fee): find the peak on a grid, then
		// bisect on the increasing part for the share amount that pays out exactly `real`
		est := func(sh math.Int) math.Int {
			coins, _, err := app.AmmKeeper.ExitPoolEst(ctx, pool.Id, sh, "uusdc")
			if err != nil {
				return math.ZeroInt()
			}
			return coins.AmountOf("uusdc")
		}
		peak, peakOut := math.OneInt(), math.ZeroInt()
		for k := int64(1); k < 200; k++ {
			sh := have.MulRaw(k).QuoRaw(200)
			if o := est(sh); o.GT(peakOut) {
				peak, peakOut = sh, o
			}
		}
		lo, hi := math.OneInt(), peak
		var hit math.Int
		for i := 0; i < 400 && lo.LTE(hi); i++ {
			mid := lo.Add(hi).QuoRaw(2)
			o := est(mid)
			if o.Equal(real) {
				hit = mid
				break
			}
			if o.LT(real) {
				lo = mid.AddRaw(1)
			} else {
				hi = mid.SubRaw(1)
			}
		}
		if hit.IsNil() {
			sc.stats["c01-exit:no-exact-share-amount"]++
			sc.t.Logf("no exact share amount: real=%s peakOut=%s", real, peakOut)
			hit = lo
		}
		sc.Tx("amm.exit", lp, J{"pool": pool.Id, "shareIn": hit.String(), "outDenom": "uusdc", "note": "sized to pay exactly the pool's real uusdc balance " + real.String()},
			&ammtypes.MsgExitPool{Sender: lp.Addr.String(), PoolId: pool.Id, MinAmountsOut: sdk.Coins{}, ShareAmountIn: hit, TokenOutDenom: "uusdc"})
		sc.Empty(5 * time.Second)
	}
}

func init() {
	// C15: the burner's epoch hook burns ANY denom that has bank metadata and a balance at the zero address.
	scenarios["c15-burner-external"] = func(sc *Scn) {
		w := sc.w
		u := w.Accts[1]
		w.Seed(func(ctx sdk.Context) {
			// governance configures the burner to a real epoch (the default genesis value "epoch_identifier" names none)
			bp := w.App.BurnerKeeper.GetParams(ctx)
			bp.EpochIdentifier = epochstypes.FiveMinutesEpochID
			w.App.BurnerKeeper.SetParams(ctx, &bp)
			w.App.BankKeeper.SetDenomMetaData(ctx, banktypes.Metadata{Base: "uusdc", Display: "usdc", Name: "usdc", Symbol: "USDC",
				DenomUnits: []*banktypes.DenomUnit{{Denom: "uusdc", Exponent: 0}, {Denom: "usdc", Exponent: 6}}})
		})
		zero := burnertypes.GetZeroAddress()
		sc.Tx("bank.send", u, J{"to": zero.String(), "coin": []string{"uusdc", "400"}},
			banktypes.NewMsgSend(u.Addr, zero, sdk.NewCoins(sdk.NewCoin("uusdc", math.NewInt(400)))))
		for i := 0; i < 4; i++ {
			sc.Empty(13 * time.Hour)
		}
	}
}

func init() {
	// C18: a fee paid in uatom, the ATOM oracle price gone: the masterchef end-blocker converts fees through the best
	// uatom/uusdc pool, an oracle pool, whose swap needs the price. Before fix 9e8da3f the error reached ABCI.
	scenarios["c18-fee-conversion-price-missing"] = func(sc *Scn) {
		w := sc.w
		u := w.Accts[1]
		// a listed asset whose only pool is an oracle pool
		w.Seed(func(ctx sdk.Context) {
			w.App.AssetprofileKeeper.SetEntry(ctx, aptypes.Entry{BaseDenom: "uweth", Denom: "uweth", Decimals: 6, DisplayName: "WETH", CommitEnabled: true, WithdrawEnabled: true})
			w.App.OracleKeeper.SetAssetInfo(ctx, oracletypes.AssetInfo{Denom: "uweth", Display: "WETH", Decimal: 6, BandTicker: "WETH", ElysTicker: "WETH"})
			w.SetPrice(ctx, "WETH", D("2000"), sc.std.Feeder.Addr.String())
			w.Fund(ctx, w.Accts[0].Addr, sdk.NewCoins(sdk.NewCoin("uweth", math.NewInt(1_000_000_000_000))))
			w.Fund(ctx, u.Addr, sdk.NewCoins(sdk.NewCoin("uweth", math.NewInt(1_000_000_000))))
			w.createPool(ctx, w.Accts[0].Addr, true, D("0.001"), "uweth", math.NewInt(200_000_000_000), math.NewInt(100_000_000), 10, 10)
		})
		sc.Empty(5 * time.Second)
		// the feeder stops reporting WETH; its price is gone (as expiry would remove it)
		w.Seed(func(ctx sdk.Context) {
			for _, p := range w.App.OracleKeeper.GetAllPrice(ctx) {
				if p.Asset == "WETH" {
					w.App.OracleKeeper.RemovePrice(ctx, p.Asset, p.Source, p.Timestamp)
				}
			}
		})
		tx := &histTx{kind: "bank.send", f: J{"signer": u.Addr.String(), "fee": [][]string{{"uweth", "500000"}}},
			req: TxReq{Signer: u, Fee: sdk.NewCoins(sdk.NewCoin("uweth", math.NewInt(500000))),
				Msgs: []sdk.Msg{banktypes.NewMsgSend(u.Addr, w.Accts[2].Addr, sdk.NewCoins(sdk.NewCoin("uusdc", math.NewInt(5))))}}}
		if !emitBlock(w, sc.out, sc.id, []*histTx{tx}, 5*time.Second, sc.stats) {
			return
		}
		sc.Empty(5 * time.Second)
		sc.Empty(5 * time.Second)
	}
}

func init() {
	// C18: a swap request is dry-run when its tx is delivered and executed at the end of the block WITHOUT a panic guard;
	// a later tx of the same block (a large exit, which the lock-up of an hour allows after two hours) shrinks the reserve
	// the queued swap was sized against.
	scenarios["c18-queued-swap-after-exit"] = func(sc *Scn) {
		w := sc.w
		trader, lp := w.Accts[2], w.Accts[0]
		sc.Empty(2 * time.Hour)
		for _, frac := range []int64{30, 90, 1000, 30000} {
			for _, pi := range []int{2, 3} {
				pool := sc.std.Pools[pi]
				ctx := w.Ctx()
				ammPool, _ := w.App.AmmKeeper.GetPool(ctx, pool.Id)
				var usdc, atom math.Int
				for _, a := range ammPool.PoolAssets {
					if a.Token.Denom == "uusdc" {
						usdc = a.Token.Amount
					} else {
						atom = a.Token.Amount
					}
				}
				_ = atom
				lpc := w.App.CommitmentKeeper.GetCommitments(ctx, lp.Addr)
				have := lpc.GetCommittedAmountForDenom(pool.ShareDen)
				swapAmt := usdc.MulRaw(frac).QuoRaw(100)
				t1 := &histTx{kind: "amm.swapIn", f: J{"pool": pool.Id, "in": []string{"uusdc", swapAmt.String()}, "signer": trader.Addr.String(), "fee": [][]string{}},
					req: TxReq{Signer: trader, Msgs: []sdk.Msg{&ammtypes.MsgSwapExactAmountIn{Sender: trader.Addr.String(), Routes: []ammtypes.SwapAmountInRoute{{PoolId: pool.Id, TokenOutDenom: "uatom"}},
						TokenIn: sdk.NewCoin("uusdc", swapAmt), TokenOutMinAmount: math.OneInt(), Recipient: trader.Addr.String()}}}}
				exitShares := have.MulRaw(999).QuoRaw(1000)
				t2 := &histTx{kind: "amm.exit", f: J{"pool": pool.Id, "shareIn": exitShares.String(), "signer": lp.Addr.String(), "fee": [][]string{}},
					req: TxReq{Signer: lp, Msgs: []sdk.Msg{&ammtypes.MsgExitPool{Sender: lp.Addr.String(), PoolId: pool.Id, MinAmountsOut: sdk.Coins{}, ShareAmountIn: exitShares}}}}
				if !emitBlock(w, sc.out, sc.id, []*histTx{t1, t2}, 5*time.Second, sc.stats) {
					return
				}
				// put the liquidity back for the next round
				ctx = w.Ctx()
				bal := w.App.BankKeeper.GetAllBalances(ctx, lp.Addr)
				join := sdk.NewCoins(sdk.NewCoin("uusdc", math.MinInt(bal.AmountOf("uusdc"), usdc)), sdk.NewCoin("uatom", math.MinInt(bal.AmountOf("uatom"), atom)))
				sc.Tx("amm.join", lp, J{"pool": pool.Id}, &ammtypes.MsgJoinPool{Sender: lp.Addr.String(), PoolId: pool.Id, MaxAmountsIn: join, ShareAmountOut: math.ZeroInt()})
				sc.Empty(2 * time.Hour)
			}
		}
	}
}

func init() {
	// C01: swap fees of a handful of base units on a freshly balanced oracle pool whose input asset is not the fee denom: the
	// fee's skim, its split and its conversion to the fee denom all truncate, some of them to zero (the conversion runs nested
	// under a cache context while the outer swap keeps using the same in-memory pool).
	scenarios["c01-dust-fee-sweep"] = func(sc *Scn) {
		w := sc.w
		trader := w.Accts[3]
		var ref PoolRef
		w.Seed(func(ctx sdk.Context) {
			w.App.AssetprofileKeeper.SetEntry(ctx, aptypes.Entry{BaseDenom: "uusdt", Denom: "uusdt", Decimals: 6, DisplayName: "USDT", CommitEnabled: true, WithdrawEnabled: true})
			w.App.OracleKeeper.SetAssetInfo(ctx, oracletypes.AssetInfo{Denom: "uusdt", Display: "USDT", Decimal: 6, BandTicker: "USDT", ElysTicker: "USDT"})
			w.SetPrice(ctx, "USDT", D("1"), sc.std.Feeder.Addr.String())
			w.Fund(ctx, w.Accts[0].Addr, sdk.NewCoins(sdk.NewCoin("uusdt", math.NewInt(2_000_000_000_000))))
			w.Fund(ctx, trader.Addr, sdk.NewCoins(sdk.NewCoin("uusdt", math.NewInt(1_000_000_000_000))))
			ref = w.createPool(ctx, w.Accts[0].Addr, true, D("0.001"), "uusdt", math.NewInt(1_000_000_000_000), math.NewInt(1_000_000_000_000), 10, 10)
		})
		w.Block(5*time.Second, nil)
		sc.Rebegin(ref)
		for a := int64(500); a <= 12_000; a += 250 {
			sc.Tx("amm.swapIn", trader, J{"pool": ref.Id, "in": []string{"uusdt", itoa(uint64(a))}, "hops": 1},
				&ammtypes.MsgSwapExactAmountIn{Sender: trader.Addr.String(), Routes: []ammtypes.SwapAmountInRoute{{PoolId: ref.Id, TokenOutDenom: "uusdc"}},
					TokenIn: sdk.NewCoin("uusdt", math.NewInt(a)), TokenOutMinAmount: math.OneInt(), Recipient: trader.Addr.String()})
		}
	}
}

func init() {
	// C03: an oracle pool whose weights sit far from their targets (10 : 90 by value against 50 : 50) and whose rebalance treasury is
	// funded: swaps that bring in the scarce asset earn a weight-recovery bonus. The bonus is the treasury's to pay; the pool's own
	// account must never pay out more value than it takes in.
	scenarios["c03-bonus-from-treasury"] = func(sc *Scn) {
		w := sc.w
		trader := w.Accts[3]
		var ref PoolRef
		w.Seed(func(ctx sdk.Context) {
			w.App.AssetprofileKeeper.SetEntry(ctx, aptypes.Entry{BaseDenom: "uusdt", Denom: "uusdt", Decimals: 6, DisplayName: "USDT", CommitEnabled: true, WithdrawEnabled: true})
			w.App.OracleKeeper.SetAssetInfo(ctx, oracletypes.AssetInfo{Denom: "uusdt", Display: "USDT", Decimal: 6, BandTicker: "USDT", ElysTicker: "USDT"})
			w.SetPrice(ctx, "USDT", D("1"), sc.std.Feeder.Addr.String())
			w.Fund(ctx, w.Accts[0].Addr, sdk.NewCoins(sdk.NewCoin("uusdt", math.NewInt(20_000_000_000_000))))
			ref = w.createPool(ctx, w.Accts[0].Addr, true, D("0"), "uusdt", math.NewInt(1_000_000_000_000), math.NewInt(9_000_000_000_000), 10, 10)
			w.Fund(ctx, sdk.MustAccAddressFromBech32(ref.Treasury), sdk.NewCoins(sdk.NewCoin("uusdt", math.NewInt(1_000_000_000_000)), sdk.NewCoin("uusdc", math.NewInt(1_000_000_000))))
		})
		w.Block(5*time.Second, nil)
		sc.Rebegin(ref)
		for _, a := range []int64{100_000_000_000, 1_000_000, 50_000_000_000, 250_000_000_000, 7, 400_000_000_000} {
			sc.Tx("amm.swapIn", trader, J{"pool": ref.Id, "in": []string{"uusdc", itoa(uint64(a))}, "hops": 1},
				&ammtypes.MsgSwapExactAmountIn{Sender: trader.Addr.String(), Routes: []ammtypes.SwapAmountInRoute{{PoolId: ref.Id, TokenOutDenom: "uusdt"}},
					TokenIn: sdk.NewCoin("uusdc", math.NewInt(a)), TokenOutMinAmount: math.OneInt(), Recipient: trader.Addr.String()})
		}
		// and back: the other direction pays the weight-breaking fee into the treasury
		sc.Tx("amm.swapIn", trader, J{"pool": ref.Id, "in": []string{"uusdt", "300000000000"}, "hops": 1},
			&ammtypes.MsgSwapExactAmountIn{Sender: trader.Addr.String(), Routes: []ammtypes.SwapAmountInRoute{{PoolId: ref.Id, TokenOutDenom: "uusdc"}},
				TokenIn: sdk.NewCoin("uusdt", math.NewInt(300_000_000_000)), TokenOutMinAmount: math.OneInt(), Recipient: trader.Addr.String()})
	}

	// C09/C11: a perpetual pool driven to saturation (recorded long custody close to what the amm pool holds), then pure
	// collateral top-ups (leverage 0) and further opens of decreasing size: each must be refused or leave custody backed.
	scenarios["c09-saturated-pool-topups"] = func(sc *Scn) {
		w := sc.w
		p := sc.std.Pools[2] // the deep oracle pool: 1,000,000 USDC : 200,000 ATOM
		price := sc.std.Prices["ATOM"]
		open := func(u *Acct, long bool, col string, amt int64, lev string) uint32 {
			pos, tp := perptypes.Position_LONG, price.Mul(D("3"))
			if !long {
				pos, tp = perptypes.Position_SHORT, price.Mul(D("0.5"))
			}
			return sc.Tx("perp.open", u, J{"pool": p.Id, "long": long, "collateral": []string{col, itoa(uint64(amt))}, "leverage": lev},
				&perptypes.MsgOpen{Creator: u.Addr.String(), Position: pos, Leverage: D(lev), TradingAsset: "uatom", Collateral: coin(col, math.NewInt(amt)), TakeProfitPrice: tp, StopLossPrice: D("0"), PoolId: p.Id})
		}
		open(w.Accts[1], false, "uusdc", 100_000_000_000, "2")
		// longs at low leverage until the pool refuses them, in decreasing sizes
		ui := 2
		for _, a := range []int64{367_000_000_000, 100_000_000_000, 30_000_000_000} {
			for k := 0; k < 4 && ui < len(w.Accts)-1; k++ {
				if open(w.Accts[ui], true, "uusdc", a, "1.2") != 0 {
					break
				}
				ui++
			}
		}
		alice := w.Accts[0]
		open(alice, true, "uusdc", 6_000_000_000, "2")
		for _, a := range []int64{300_000_000_000, 100_000_000_000, 30_000_000_000, 10_000_000_000, 3_000_000_000, 300_000_000} {
			open(alice, true, "uusdc", a, "0")
			open(alice, true, "uatom", a/5, "0")
		}
		open(w.Accts[1], false, "uusdc", 50_000_000_000, "0")
	}
}

func init() { scenarios["c11-saturated-pool-topups"] = scenarios["c09-saturated-pool-topups"] }

func init() {
	// C09 (custody backed): a perpetual pool with a large long custody in ATOM and short positions that owe ATOM. The amm prices on
	// holdings + liabilities − custody, so two exact-out requests of (free holdings)/2 + liabilities/4 ATOM are both affordable by
	// price; sent in ONE block they are executed one after the other at its end, and the second would leave the pool holding less
	// than the custody: the perpetual hook refuses it AFTER the swap has been applied — it has to be undone as a whole.
	scenarios["c09-swaps-of-one-block-against-custody"] = func(sc *Scn) {
		w := sc.w
		p := sc.std.Pools[2] // the deep oracle pool: 1,000,000 USDC : 200,000 ATOM
		price := sc.std.Prices["ATOM"]
		sc.Tx("perp.open", w.Accts[1], J{"pool": p.Id, "long": true, "collateral": []string{"uatom", "80000000000"}, "leverage": "1.5"},
			&perptypes.MsgOpen{Creator: w.Accts[1].Addr.String(), Position: perptypes.Position_LONG, Leverage: D("1.5"), TradingAsset: "uatom",
				Collateral: coin("uatom", math.NewInt(80_000_000_000)), TakeProfitPrice: price.Mul(D("3")), StopLossPrice: D("0"), PoolId: p.Id})
		sc.Tx("perp.open", w.Accts[2], J{"pool": p.Id, "long": false, "collateral": []string{sc.std.USDC, "132000000000"}, "leverage": "1.5"},
			&perptypes.MsgOpen{Creator: w.Accts[2].Addr.String(), Position: perptypes.Position_SHORT, Leverage: D("1.5"), TradingAsset: "uatom",
				Collateral: coin(sc.std.USDC, math.NewInt(132_000_000_000)), TakeProfitPrice: price.Mul(D("0.5")), StopLossPrice: D("0"), PoolId: p.Id})
		for round := 0; round < 3; round++ {
			ctx := w.Ctx()
			pool, ok1 := w.App.AmmKeeper.GetPool(ctx, p.Id)
			pp, ok2 := w.App.PerpetualKeeper.GetPool(ctx, p.Id)
			if !ok1 || !ok2 {
				return
			}
			bal, err := pool.GetAmmPoolBalance("uatom")
			if err != nil {
				return
			}
			liab, custody, _, _ := pp.GetPerpetualPoolBalances("uatom")
			free := bal.Sub(custody)
			if !free.IsPositive() {
				return
			}
			a := free.QuoRaw(2).Add(liab.QuoRaw(4)).AddRaw(int64(round))
			u := w.Accts[3]
			mk := func() sdk.Msg {
				return &ammtypes.MsgSwapExactAmountOut{Sender: u.Addr.String(), Routes: []ammtypes.SwapAmountOutRoute{{PoolId: p.Id, TokenInDenom: sc.std.USDC}},
					TokenOut: coin("uatom", a), TokenInMaxAmount: math.NewInt(900_000_000_000_000), Recipient: u.Addr.String()}
			}
			sc.Tx("amm.swapOut", u, J{"pool": p.Id, "out": []string{"uatom", a.String()}, "hops": 1, "recipient": u.Addr.String(), "pair": true}, mk(), mk())
		}
	}
}

func init() {
	// C18: liquidity mining in Eden is on (inflation configured, Eden rewards enabled on the pools) and the liquidity providers of
	// one pool leave until only dust is left: the pool's Eden allocation per block falls between 0 and 1 base unit.
	scenarios["c18-eden-rewards-dust-pool"] = func(sc *Scn) {
		w := sc.w
		lp := w.Accts[0]
		w.Seed(func(ctx sdk.Context) {
			bpy := w.App.ParameterKeeper.GetParams(ctx).TotalBlocksPerYear
			w.App.TokenomicsKeeper.SetTimeBasedInflation(ctx, toktypes.TimeBasedInflation{StartBlockHeight: 1, EndBlockHeight: 1_000_000_000, Description: "verif",
				Authority: w.Gov, Inflation: &toktypes.InflationEntry{LmRewards: bpy * 1_000_000, IcsStakingRewards: bpy * 1_000_000, CommunityFund: bpy * 1000}})
			enableEdenRewards(w, ctx)
		})
		sc.Empty(5 * time.Second)
		sc.Empty(5 * time.Second)
		pool := sc.std.Pools[0]
		for _, keep := range []int64{1_000, 100_000, 10_000_000, 1_000_000_000} {
			// leave 1/keep of the shares in the pool
			lpc := w.App.CommitmentKeeper.GetCommitments(w.Ctx(), lp.Addr)
			have := lpc.GetCommittedAmountForDenom(pool.ShareDen)
			exit := have.Sub(have.QuoRaw(keep))
			if !exit.IsPositive() {
				break
			}
			sc.Tx("amm.exit", lp, J{"pool": pool.Id, "shareIn": exit.String()}, &ammtypes.MsgExitPool{Sender: lp.Addr.String(), PoolId: pool.Id, MinAmountsOut: sdk.Coins{}, ShareAmountIn: exit})
			sc.Empty(5 * time.Second)
			sc.Empty(time.Hour)
		}
	}
}

func init() {
	// C18: one user keeps selling uelys into the uelys/uusdc pool, three reserves at a time: the pool ends up so lopsided that
	// the ELYS (= Eden) price it implies, times the price of one base unit of USDC, rounds to zero at 18 decimals.
	scenarios["c18-elys-pool-lopsided"] = func(sc *Scn) {
		w := sc.w
		whale := w.Accts[3]
		p := sc.std.Pools[1]
		w.Seed(func(ctx sdk.Context) {
			w.Fund(ctx, whale.Addr, sdk.NewCoins(sdk.NewCoin("uelys", math.NewIntWithDecimal(1, 24))))
		})
		for k := 0; k < 14; k++ {
			pool, ok := w.App.AmmKeeper.GetPool(w.Ctx(), p.Id)
			if !ok {
				return
			}
			var res math.Int
			for _, pa := range pool.PoolAssets {
				if pa.Token.Denom == "uelys" {
					res = pa.Token.Amount
				}
			}
			a := res.MulRaw(3)
			sc.Tx("amm.swapIn", whale, J{"pool": p.Id, "in": []string{"uelys", a.String()}, "hops": 1, "recipient": whale.Addr.String()},
				&ammtypes.MsgSwapExactAmountIn{Sender: whale.Addr.String(), Routes: []ammtypes.SwapAmountInRoute{{PoolId: p.Id, TokenOutDenom: "uusdc"}},
					TokenIn: sdk.NewCoin("uelys", a), TokenOutMinAmount: math.OneInt(), Recipient: whale.Addr.String()})
			sc.Empty(5 * time.Second)
		}
	}
}

func init() {
	// C18: a fee paid in an 18-decimal asset whose only pool holds one base unit of it: converting ten whole tokens through that
	// pool makes the pool arithmetic itself panic (the reserve ratio rounds to zero). Several sizes of pool and fee.
	// C02: anybody may register an asset-profile entry (MsgAddEntry has no authority check). A stranger registers the share denom of
	// the NEXT pool with commitments switched off, before that pool exists; then the pool is created by governance and joined. Either
	// the creation is refused, or every share it mints is committed: supply, pool total, committed sum and custody stay equal.
	scenarios["c02-preregistered-share-denom"] = func(sc *Scn) {
		w := sc.w
		stranger, joiner := w.Accts[3], w.Accts[1]
		next := uint64(len(sc.std.Pools) + 1)
		share := ammtypes.GetPoolShareDenom(next)
		for _, commit := range []bool{false, true} {
			sc.Tx("ap.addEntry", stranger, J{"denom": share, "commitEnabled": commit},
				&aptypes.MsgAddEntry{Creator: stranger.Addr.String(), BaseDenom: share, Denom: share, Decimals: 18, DisplayName: "share", CommitEnabled: commit, WithdrawEnabled: true})
			gov := sdk.MustAccAddressFromBech32(w.Gov)
			w.Seed(func(ctx sdk.Context) {
				w.Fund(ctx, gov, sdk.NewCoins(sdk.NewCoin("uatom", math.NewInt(2_000_000_000_000)), sdk.NewCoin(w.usdc(), math.NewInt(2_000_000_000_000))))
			})
			assets := []ammtypes.PoolAsset{{Token: sdk.NewCoin("uatom", math.NewInt(1_000_000_000)), Weight: math.NewInt(10), ExternalLiquidityRatio: math.LegacyNewDec(2)},
				{Token: sdk.NewCoin(w.usdc(), math.NewInt(5_000_000_000)), Weight: math.NewInt(10), ExternalLiquidityRatio: math.LegacyNewDec(2)}}
			sort.Slice(assets, func(i, j int) bool { return strings.Compare(assets[i].Token.Denom, assets[j].Token.Denom) <= 0 })
			created := govApply(w, &ammtypes.MsgCreatePool{Sender: w.Gov, PoolParams: ammtypes.PoolParams{UseOracle: false, SwapFee: D("0.002"), FeeDenom: w.usdc()}, PoolAssets: assets})
			sc.stats[fmt.Sprintf("c02/createPool/commit=%v/created=%v", commit, created)]++
			sc.Empty(5 * time.Second)
			sc.Tx("amm.join", joiner, J{"pool": next, "maxIn": [][]string{}, "shareOut": "0", "single": false},
				&ammtypes.MsgJoinPool{Sender: joiner.Addr.String(), PoolId: next, MaxAmountsIn: sdk.NewCoins(sdk.NewCoin("uatom", math.NewInt(200_000_000)), sdk.NewCoin(w.usdc(), math.NewInt(1_000_000_000))),
					ShareAmountOut: math.NewIntWithDecimal(1, 17)})
			sc.Empty(5 * time.Second)
			if created {
				next++
				share = ammtypes.GetPoolShareDenom(next)
			}
		}
	}

	// C18: an exact-out request passes its dry run while it is a small part of a very unevenly weighted pool (19 : 1); a liquidity
	// provider's exit later in the same block leaves the out-side barely above the request; at the end of the block the estimate
	// (balance / (balance - out)) ^ 19 overflows the 18-digit decimals inside the power routine. The request must fail alone.
	scenarios["c18-exact-out-on-shrunk-pool"] = func(sc *Scn) {
		w := sc.w
		lp, trader := w.Accts[0], w.Accts[2]
		var ref PoolRef
		var total math.Int
		w.Seed(func(ctx sdk.Context) {
			ref = w.createPool(ctx, lp.Addr, false, D("0"), "uatom", math.NewInt(100_000_000_000), math.NewInt(1_900_000_000_000), 1, 19)
			p, _ := w.App.AmmKeeper.GetPool(ctx, ref.Id)
			total = p.TotalShares.Amount
		})
		sc.Empty(5 * time.Second)
		sc.Rebegin(ref)
		for _, left := range []int64{1_000_040_000, 1_000_000_400, 1_001_000_000} {
			exit := total.Mul(math.NewInt(1_900_000_000_000 - left)).Quo(math.NewInt(1_900_000_000_000))
			t1 := &histTx{kind: "amm.swapOut", f: J{"pool": ref.Id, "out": []string{"uatom", "1000000000"}, "hops": 1, "recipient": trader.Addr.String(), "signer": trader.Addr.String(), "fee": [][]string{}},
				req: TxReq{Signer: trader, Msgs: []sdk.Msg{&ammtypes.MsgSwapExactAmountOut{Sender: trader.Addr.String(), Routes: []ammtypes.SwapAmountOutRoute{{PoolId: ref.Id, TokenInDenom: sc.w.usdc()}},
					TokenOut: sdk.NewCoin("uatom", math.NewInt(1_000_000_000)), TokenInMaxAmount: math.NewInt(1_000_000_000_000_000), Recipient: trader.Addr.String()}}}}
			t2 := &histTx{kind: "amm.exit", f: J{"pool": ref.Id, "shareIn": exit.String(), "outDenom": "", "signer": lp.Addr.String(), "fee": [][]string{}},
				req: TxReq{Signer: lp, Msgs: []sdk.Msg{&ammtypes.MsgExitPool{Sender: lp.Addr.String(), PoolId: ref.Id, MinAmountsOut: sdk.Coins{}, ShareAmountIn: exit}}}}
			if !emitBlock(w, sc.out, sc.id, []*histTx{t1, t2}, 5*time.Second, sc.stats) {
				return
			}
			// the provider comes back with what it took out, for the next round
			w.Seed(func(ctx sdk.Context) {
				p, _ := w.App.AmmKeeper.GetPool(ctx, ref.Id)
				total = p.TotalShares.Amount
			})
			sc.Tx("amm.join", lp, J{"pool": ref.Id, "maxIn": [][]string{}, "shareOut": "0", "single": false},
				&ammtypes.MsgJoinPool{Sender: lp.Addr.String(), PoolId: ref.Id, MaxAmountsIn: sdk.NewCoins(sdk.NewCoin("uatom", math.NewInt(1_890_000_000_000)), sdk.NewCoin(sc.w.usdc(), math.NewInt(99_000_000_000))),
					ShareAmountOut: total.MulRaw(1800)})
			w.Seed(func(ctx sdk.Context) {
				p, _ := w.App.AmmKeeper.GetPool(ctx, ref.Id)
				total = p.TotalShares.Amount
			})
		}
	}

	scenarios["c18-fee-conversion-panics-in-pool-math"] = func(sc *Scn) {
		w := sc.w
		u := w.Accts[1]
		big18 := math.NewIntWithDecimal(1, 24)
		w.Seed(func(ctx sdk.Context) {
			w.App.AssetprofileKeeper.SetEntry(ctx, aptypes.Entry{BaseDenom: "aeth", Denom: "aeth", Decimals: 18, DisplayName: "ETH", CommitEnabled: true, WithdrawEnabled: true})
			w.Fund(ctx, w.Accts[0].Addr, sdk.NewCoins(sdk.NewCoin("aeth", big18)))
			w.Fund(ctx, u.Addr, sdk.NewCoins(sdk.NewCoin("aeth", big18)))
			w.createPool(ctx, w.Accts[0].Addr, false, D("0.001"), "aeth", math.NewInt(1), math.NewInt(1), 10, 10)
		})
		sc.Empty(5 * time.Second)
		for _, fee := range []math.Int{math.NewIntWithDecimal(1, 19), math.NewIntWithDecimal(3, 18), math.NewIntWithDecimal(1, 21), math.NewInt(7)} {
			tx := &histTx{kind: "bank.send", f: J{"signer": u.Addr.String(), "fee": [][]string{{"aeth", fee.String()}}},
				req: TxReq{Signer: u, Fee: sdk.NewCoins(sdk.NewCoin("aeth", fee)),
					Msgs: []sdk.Msg{banktypes.NewMsgSend(u.Addr, w.Accts[2].Addr, sdk.NewCoins(sdk.NewCoin("uusdc", math.NewInt(5))))}}}
			if !emitBlock(w, sc.out, sc.id, []*histTx{tx}, 5*time.Second, sc.stats) {
				return
			}
			sc.Empty(5 * time.Second)
		}
		// the same through the swap queue: the request passes its dry run on a deeper pool state and is executed at the end of
		// the block after an exit has left dust
		sc.Tx("amm.swapIn", u, J{"pool": 5, "in": []string{"aeth", "10000000000000000000"}, "hops": 1, "recipient": u.Addr.String()},
			&ammtypes.MsgSwapExactAmountIn{Sender: u.Addr.String(), Routes: []ammtypes.SwapAmountInRoute{{PoolId: 5, TokenOutDenom: "uusdc"}},
				TokenIn: sdk.NewCoin("aeth", math.NewIntWithDecimal(1, 19)), TokenOutMinAmount: math.ZeroInt(), Recipient: u.Addr.String()})
		sc.Empty(5 * time.Second)
	}
}

func init() {
	// C20 (trigger): two limit-sell orders of two owners on one pair; in ONE block a bot executes the first (its trigger is met), the
	// feeder then moves the price below the second order's rate, and the bot asks for the second: whatever was looked up for the first
	// request says nothing about the second — it is judged at the price in force when it runs, and has to stay untouched.
	scenarios["c20-price-moves-between-two-executions"] = func(sc *Scn) {
		w := sc.w
		price := sc.std.Prices["ATOM"]
		alice, bob, bot := w.Accts[0], w.Accts[1], w.Accts[2]
		mk := func(u *Acct, mult string) (sdk.Msg, J) {
			rate := price.Mul(D(mult))
			return &tstypes.MsgCreateSpotOrder{OrderType: tstypes.SpotOrderType_LIMITSELL, OrderPrice: tstypes.OrderPrice{BaseDenom: "uatom", QuoteDenom: sc.std.USDC, Rate: rate},
					OrderAmount: coin("uatom", math.NewInt(1_000_000)), OwnerAddress: u.Addr.String(), OrderTargetDenom: sc.std.USDC},
				J{"type": int32(tstypes.SpotOrderType_LIMITSELL), "amount": []string{"uatom", "1000000"}, "target": sc.std.USDC, "rate": decRaw(rate)}
		}
		for round := 0; round < 2; round++ {
			ma, fa := mk(alice, "0.8")
			mb, fb := mk(bob, "0.9")
			sc.Tx("ts.spotCreate", alice, fa, ma)
			sc.Tx("ts.spotCreate", bob, fb, mb)
			all := w.App.TradeshieldKeeper.GetAllPendingSpotOrder(w.Ctx())
			if len(all) < 2 || !sc.ok {
				return
			}
			ida, idb := all[len(all)-2].OrderId, all[len(all)-1].OrderId
			exec := func(id uint64) *histTx {
				return &histTx{kind: "ts.execute", f: J{"spot": []uint64{id}, "perp": []uint64{}, "signer": bot.Addr.String(), "fee": [][]string{}},
					req: TxReq{Signer: bot, Msgs: []sdk.Msg{&tstypes.MsgExecuteOrders{Creator: bot.Addr.String(), SpotOrderIds: []uint64{id}}}}}
			}
			// the feeder's transaction in the middle: ATOM down to 0.6 of its price (below both rates)
			h := &Hist{w: w, std: sc.std, r: rand.New(rand.NewSource(int64(round) + 7))}
			old := sc.std.Prices["ATOM"]
			sc.std.Prices["ATOM"] = old.Mul(D("0.6"))
			feed := h.priceTxFixed()
			if !emitBlock(w, sc.out, sc.id, []*histTx{exec(ida), feed, exec(idb)}, 5*time.Second, sc.stats) {
				sc.ok = false
				return
			}
			// the price comes back; the second order is cancelled by its owner if it is still there
			sc.std.Prices["ATOM"] = old
			if !emitBlock(w, sc.out, sc.id, []*histTx{h.priceTxFixed()}, 5*time.Second, sc.stats) {
				sc.ok = false
				return
			}
		}
	}
}

func init() {
	// C18: a chain on which nobody has deposited into the lending vault yet. Masterchef knows the vault as reward pool 32767 from its first
	// end-blocker on; anybody may fund an external incentive for it (governance has listed the reward denom). The blocks of the incentive
	// period distribute to a pool whose share denom has no committed amount at all — then the first depositor arrives.
	scenarios["c18-external-incentive-before-first-bond-fresh-vault"] = func(sc *Scn) {
		w := sc.w
		w.Seed(func(ctx sdk.Context) {
			mcp := w.App.MasterchefKeeper.GetParams(ctx)
			mcp.SupportedRewardDenoms = []*mctypes.SupportedRewardDenom{{Denom: "uatom", MinAmount: math.NewInt(1)}, {Denom: sc.std.USDC, MinAmount: math.NewInt(1)}}
			w.App.MasterchefKeeper.SetParams(ctx, mcp)
		})
		sc.Empty(5 * time.Second)
		u := w.Accts[3]
		from := w.App.LastBlockHeight() + 3
		for _, rd := range []string{sc.std.USDC, "uatom"} {
			sc.Tx("mc.externalIncentive", u, J{"pool": 32767, "from": from, "to": from + 8, "perBlock": "100", "denom": rd},
				&mctypes.MsgAddExternalIncentive{Sender: u.Addr.String(), RewardDenom: rd, PoolId: 32767, FromBlock: from, ToBlock: from + 8, AmountPerBlock: math.NewInt(100)})
		}
		for i := 0; i < 4; i++ {
			sc.Empty(5 * time.Second)
		}
		sc.Tx("ss.bond", w.Accts[4], J{"amt": "1000000"}, &sstypes.MsgBond{Creator: w.Accts[4].Addr.String(), Amount: math.NewInt(1_000_000)})
		for i := 0; i < 4; i++ {
			sc.Empty(5 * time.Second)
		}
		sc.Tx("mc.claim", w.Accts[4], J{"pools": []uint64{32767}}, &mctypes.MsgClaimRewards{Sender: w.Accts[4].Addr.String(), PoolIds: []uint64{32767}})
	}
}

func init() {
	// C09 (custody backed, short side): short positions hold their custody in the base currency inside the amm pool. A liquidity provider
	// who withdraws most of the pool would take the base-currency holdings below that custody: the perpetual hook on the exit has to
	// refuse it (it must look at the custody of BOTH sides).
	scenarios["c09-liquidity-exit-against-short-custody"] = func(sc *Scn) {
		w := sc.w
		p := sc.std.Pools[2] // the deep oracle pool: 1,000,000 USDC : 200,000 ATOM
		price := sc.std.Prices["ATOM"]
		// governance has set a low pool-health threshold: the health test in front of the custody test lets the exits below through
		w.Seed(func(ctx sdk.Context) {
			pp := w.App.PerpetualKeeper.GetParams(ctx)
			pp.PoolOpenThreshold = D("0.05")
			_ = w.App.PerpetualKeeper.SetParams(ctx, &pp)
		})
		for i := 1; i <= 2; i++ {
			u := w.Accts[i]
			sc.Tx("perp.open", u, J{"pool": p.Id, "long": false, "collateral": []string{sc.std.USDC, "100000000000"}, "leverage": "1.5"},
				&perptypes.MsgOpen{Creator: u.Addr.String(), Position: perptypes.Position_SHORT, Leverage: D("1.5"), TradingAsset: "uatom",
					Collateral: coin(sc.std.USDC, math.NewInt(100_000_000_000)), TakeProfitPrice: price.Mul(D("0.5")), StopLossPrice: D("0"), PoolId: p.Id})
		}
		creator := w.Accts[0]
		cm := w.App.CommitmentKeeper.GetCommitments(w.Ctx(), creator.Addr)
		have := cm.GetCommittedAmountForDenom(p.ShareDen)
		for _, tenths := range []int64{9, 8} {
			sh := have.MulRaw(tenths).QuoRaw(10)
			sc.TxDt(2*time.Hour, "amm.exit", creator, J{"pool": p.Id, "shareIn": sh.String(), "outDenom": ""},
				&ammtypes.MsgExitPool{Sender: creator.Addr.String(), PoolId: p.Id, MinAmountsOut: sdk.Coins{}, ShareAmountIn: sh})
		}
	}
}

func init() {
	// C15: a pool created by a listed creator through the real message while the creation fee is positive (every world of the histories
	// runs with a fee of 0: the fee then sits in the amm module account for ever), then exits by its holder and by a holder of another
	// pool: an exit burns the shares handed in and nothing else.
	scenarios["c15-pool-created-with-fee-then-exits"] = func(sc *Scn) {
		w := sc.w
		u, lp := w.Accts[2], w.Accts[0]
		w.Seed(func(ctx sdk.Context) {
			ap := w.App.AmmKeeper.GetParams(ctx)
			ap.PoolCreationFee = math.NewInt(10_000_000)
			ap.AllowedPoolCreators = append(ap.AllowedPoolCreators, u.Addr.String())
			w.App.AmmKeeper.SetParams(ctx, ap)
		})
		assets := []ammtypes.PoolAsset{{Token: sdk.NewCoin("uatom", math.NewInt(1_000_000_000)), Weight: math.NewInt(10), ExternalLiquidityRatio: math.LegacyNewDec(2)},
			{Token: sdk.NewCoin(w.usdc(), math.NewInt(5_000_000_000)), Weight: math.NewInt(10), ExternalLiquidityRatio: math.LegacyNewDec(2)}}
		sort.Slice(assets, func(i, j int) bool { return strings.Compare(assets[i].Token.Denom, assets[j].Token.Denom) <= 0 })
		var next uint64
		w.Seed(func(ctx sdk.Context) { next = w.App.AmmKeeper.GetNextPoolId(ctx) })
		code := sc.Tx("amm.createPool", u, J{"fee": "10000000"},
			&ammtypes.MsgCreatePool{Sender: u.Addr.String(), PoolParams: ammtypes.PoolParams{UseOracle: false, SwapFee: D("0.002"), FeeDenom: w.usdc()}, PoolAssets: assets})
		sc.stats[fmt.Sprintf("c15/createPool/code=%d", code)]++
		sc.Empty(2 * time.Hour)
		p1 := sc.std.Pools[0]
		var have math.Int
		w.Seed(func(ctx sdk.Context) {
			c := w.App.CommitmentKeeper.GetCommitments(ctx, lp.Addr)
			have = c.GetCommittedAmountForDenom(p1.ShareDen)
		})
		sc.Tx("amm.exit", lp, J{"pool": p1.Id, "shareIn": have.QuoRaw(1000).String(), "outDenom": ""},
			&ammtypes.MsgExitPool{Sender: lp.Addr.String(), PoolId: p1.Id, MinAmountsOut: sdk.Coins{}, ShareAmountIn: have.QuoRaw(1000)})
		if code == 0 {
			var mine math.Int
			w.Seed(func(ctx sdk.Context) {
				c := w.App.CommitmentKeeper.GetCommitments(ctx, u.Addr)
				mine = c.GetCommittedAmountForDenom(ammtypes.GetPoolShareDenom(next))
			})
			sc.Tx("amm.exit", u, J{"pool": next, "shareIn": mine.QuoRaw(3).String(), "outDenom": ""},
				&ammtypes.MsgExitPool{Sender: u.Addr.String(), PoolId: next, MinAmountsOut: sdk.Coins{}, ShareAmountIn: mine.QuoRaw(3)})
		}
		sc.Empty(5 * time.Second)
	}
}

func init() {
	// C05: an all-asset join whose coin list names ONE denom twice (each coin is valid on its own; the list is not a valid coin set, and
	// MsgJoinPool.ValidateBasic looks at the coins one by one): on an oracle pool the ratio join treats the two coins as the pool's two assets.
	scenarios["c05-join-same-denom-twice"] = func(sc *Scn) {
		w := sc.w
		u := w.Accts[3]
		var p PoolRef
		for _, q := range sc.std.Pools {
			if q.Oracle {
				p = q
				break
			}
		}
		// the ATOM price falls to a third: the pool's uatom side is now the smaller part of its value
		sc.Price("ATOM", sc.std.Prices["ATOM"].QuoInt64(3))
		var r math.Int
		w.Seed(func(ctx sdk.Context) {
			pool, _ := w.App.AmmKeeper.GetPool(ctx, p.Id)
			for _, a := range pool.PoolAssets {
				if a.Token.Denom == "uatom" {
					r = a.Token.Amount
				}
			}
		})
		small := r.QuoRaw(1000)
		maxIn := sdk.Coins{sdk.NewCoin("uatom", small), sdk.NewCoin("uatom", small.MulRaw(2))}
		sc.Empty(5 * time.Second)
		code := sc.Tx("amm.join", u, J{"pool": p.Id, "maxIn": coinsArr(maxIn), "shareOut": "0", "single": false, "sameDenomTwice": true},
			&ammtypes.MsgJoinPool{Sender: u.Addr.String(), PoolId: p.Id, MaxAmountsIn: maxIn, ShareAmountOut: math.ZeroInt()})
		sc.stats[fmt.Sprintf("c05/joinSameDenomTwice/code=%d", code)]++
		sc.Empty(5 * time.Second)
	}
}

func init() {
	// C18: every numeric field of every governance message the chain knows, ONE at a time, set to zero — the value most divisions, modulos
	// and "every n blocks" schedules are written without (x % 0, x / 0, a loop that never advances). What validation refuses is skipped;
	// what it lets through is applied the way a passed proposal is, and two blocks follow. The settings accumulate: whatever validation
	// permits is a legal environment for the blocks after it.
	scenarios["c18-every-numeric-parameter-at-zero"] = func(sc *Scn) {
		w := sc.w
		urls := make([]string, 0, len(c17Ctors))
		for u := range c17Ctors {
			urls = append(urls, u)
		}
		sort.Strings(urls)
		build := func(u string) sdk.Msg {
			var msg sdk.Msg
			func() {
				defer func() { _ = recover() }()
				msg = c17Ctors[u](&c17Env{w: w, std: sc.std, ctx: w.Ctx(), other: w.Accts[3].Addr.String()}, w.Gov)
			}()
			return msg
		}
		numeric := func(l shockLeaf) bool {
			if l.v.Type() == tDec || l.v.Type() == tInt {
				return true
			}
			switch l.v.Kind() {
			case reflect.Int64, reflect.Int32, reflect.Int, reflect.Uint64, reflect.Uint32:
				return true
			}
			return false
		}
		for _, u := range urls {
			if !strings.Contains(u, "Params") && !strings.Contains(u, "Param") {
				continue // parameter updates only: the other governance messages create or remove objects
			}
			probe := build(u)
			if probe == nil {
				continue
			}
			var leaves []shockLeaf
			shockLeaves(reflect.ValueOf(probe), "", &leaves, 0)
			for li := range leaves {
				if !numeric(leaves[li]) || !sc.ok {
					continue
				}
				msg := build(u) // a fresh message from the current parameters: only this one field differs
				if msg == nil {
					continue
				}
				var ls []shockLeaf
				shockLeaves(reflect.ValueOf(msg), "", &ls, 0)
				if li >= len(ls) || ls[li].path != leaves[li].path {
					continue
				}
				l := ls[li]
				switch {
				case l.v.Type() == tDec:
					l.v.Set(reflect.ValueOf(math.LegacyZeroDec()))
				case l.v.Type() == tInt:
					l.v.Set(reflect.ValueOf(math.ZeroInt()))
				case l.v.Kind() == reflect.Uint64 || l.v.Kind() == reflect.Uint32:
					l.v.SetUint(0)
				default:
					l.v.SetInt(0)
				}
				valid := true
				if vb, ok := msg.(sdk.HasValidateBasic); ok {
					func() {
						defer func() {
							if recover() != nil {
								valid = false
							}
						}()
						if vb.ValidateBasic() != nil {
							valid = false
						}
					}()
				}
				if !valid {
					sc.stats["c18/zero/refusedByValidation"]++
					continue
				}
				if !govApply(w, msg) {
					sc.stats["c18/zero/refusedByHandler"]++
					continue
				}
				sc.stats["c18/zero/applied"]++
				sc.stats["c18/zero/applied/"+strings.TrimPrefix(u, "/elys.")+l.path]++
				sc.Empty(5 * time.Second)
				sc.Empty(5 * time.Second)
			}
		}
	}
}

func init() {
	// C07: coins reach the lending vault's account outside deposits and repayments (a swap whose RECIPIENT is the vault's address), in
	// excess of what is lent out: the figure the interest-rate model takes for "lent out" (stated value minus cash) goes negative. The
	// rate must stay on its floor: a negative rate makes every later refresh of a debt take value away from the lenders.
	scenarios["c07-inflow-exceeding-loans"] = func(sc *Scn) {
		w := sc.w
		u, whale := w.Accts[4], w.Accts[1]
		var p PoolRef
		for _, q := range sc.std.Pools {
			if q.Perp {
				p = q
				break
			}
		}
		sc.Tx("lp.open", u, J{"pool": p.Id, "collateral": "2000000000", "leverage": "3"},
			&lptypes.MsgOpen{Creator: u.Addr.String(), CollateralAsset: w.usdc(), CollateralAmount: math.NewInt(2_000_000_000), AmmPoolId: p.Id, Leverage: D("3"), StopLossPrice: D("0")})
		vault := authtypes.NewModuleAddress(sstypes.ModuleName)
		sc.Tx("amm.swapIn", whale, J{"pool": p.Id, "in": []string{"uatom", "4000000000"}, "hops": 1, "recipient": vault.String()},
			&ammtypes.MsgSwapExactAmountIn{Sender: whale.Addr.String(), Routes: []ammtypes.SwapAmountInRoute{{PoolId: p.Id, TokenOutDenom: w.usdc()}},
				TokenIn: sdk.NewCoin("uatom", math.NewInt(4_000_000_000)), TokenOutMinAmount: math.OneInt(), Recipient: vault.String()})
		for i := 0; i < 24; i++ {
			sc.Empty(6 * time.Hour)
		}
		// the debt is refreshed (a top-up of the position), then a lender looks at the rate
		sc.Tx("lp.open", u, J{"pool": p.Id, "collateral": "1000000", "leverage": "1"},
			&lptypes.MsgOpen{Creator: u.Addr.String(), CollateralAsset: w.usdc(), CollateralAmount: math.NewInt(1_000_000), AmmPoolId: p.Id, Leverage: D("1"), StopLossPrice: D("0")})
		sc.Empty(6 * time.Hour)
		sc.Empty(6 * time.Hour)
	}
}
