package harness

// Observe: a canonical, sorted projection of the real state, read through the keepers'
// exported getters and the bank keeper. Integers as decimal strings, Dec as raw 10^18 integers.

import (
	stakingtypes "github.com/cosmos/cosmos-sdk/x/staking/types"
	"sort"

	"cosmossdk.io/math"
	sdk "github.com/cosmos/cosmos-sdk/types"
	banktypes "github.com/cosmos/cosmos-sdk/x/bank/types"
	ammtypes "github.com/elys-network/elys/x/amm/types"
	lptypes "github.com/elys-network/elys/x/leveragelp/types"
	tstypes "github.com/elys-network/elys/x/tradeshield/types"
)

type J = map[string]any

func decRaw(d math.LegacyDec) string {
	if d.IsNil() {
		return "0"
	}
	return d.BigInt().String()
}

func intStr(i math.Int) string {
	if i.IsNil() {
		return "0"
	}
	return i.String()
}

func coinsArr(cs sdk.Coins) [][]string {
	out := [][]string{}
	for _, c := range cs {
		out = append(out, []string{c.Denom, c.Amount.String()})
	}
	sort.Slice(out, func(i, j int) bool { return out[i][0] < out[j][0] })
	return out
}

// observeDistr: the inputs and the output of the begin-block fee allocation (x/estaking/modules/distribution): community tax,
// the tokens of every fee-sharing validator in iteration order, the community pool.
func (w *World) observeDistr() J {
	app, ctx := w.App, w.Ctx()
	tax, _ := app.DistrKeeper.GetCommunityTax(ctx)
	cp := [][]string{}
	if fp, err := app.DistrKeeper.FeePool.Get(ctx); err == nil {
		for _, c := range fp.CommunityPool {
			cp = append(cp, []string{c.Denom, decRaw(c.Amount)})
		}
	}
	vt := []string{}
	_ = app.EstakingKeeper.IterateBondedValidatorsByPower(ctx, func(_ int64, v stakingtypes.ValidatorI) bool {
		vt = append(vt, v.GetTokens().String())
		return false
	})
	usdc, _ := app.AssetprofileKeeper.GetUsdcDenom(ctx)
	return J{"tax": decRaw(tax), "communityPool": cp, "valTokens": vt, "usdc": usdc}
}

func (w *World) Observe() J {
	ctx := w.Ctx()
	app := w.App
	st := J{"h": w.App.LastBlockHeight(), "time": w.Time.Unix()}

	// bank
	bal := [][]string{}
	app.BankKeeper.IterateAllBalances(ctx, func(addr sdk.AccAddress, c sdk.Coin) bool {
		bal = append(bal, []string{addr.String(), c.Denom, c.Amount.String()})
		return false
	})
	sort.Slice(bal, func(i, j int) bool {
		if bal[i][0] != bal[j][0] {
			return bal[i][0] < bal[j][0]
		}
		return bal[i][1] < bal[j][1]
	})
	st["bank"] = bal
	sup := [][]string{}
	app.BankKeeper.IterateTotalSupply(ctx, func(c sdk.Coin) bool {
		sup = append(sup, []string{c.Denom, c.Amount.String()})
		return false
	})
	sort.Slice(sup, func(i, j int) bool { return sup[i][0] < sup[j][0] })
	st["supply"] = sup
	meta := []string{}
	app.BankKeeper.IterateAllDenomMetaData(ctx, func(m banktypes.Metadata) bool { meta = append(meta, m.Base); return false })
	sort.Strings(meta)
	st["metadata"] = meta

	// amm
	pools := []J{}
	for _, p := range app.AmmKeeper.GetAllPool(ctx) {
		as := [][]string{}
		for _, a := range p.PoolAssets {
			as = append(as, []string{a.Token.Denom, a.Token.Amount.String(), a.Weight.String()})
		}
		pools = append(pools, J{"id": p.PoolId, "addr": p.Address, "oracle": p.PoolParams.UseOracle, "shares": p.TotalShares.Amount.String(),
			"shareDenom": ammtypes.GetPoolShareDenom(p.PoolId), "assets": as, "treasury": p.RebalanceTreasury, "swapFee": decRaw(p.PoolParams.SwapFee)})
	}
	dl := [][]string{}
	for _, d := range app.AmmKeeper.GetAllDenomLiquidity(ctx) {
		dl = append(dl, []string{d.Denom, d.Liquidity.String()})
	}
	sort.Slice(dl, func(i, j int) bool { return dl[i][0] < dl[j][0] })
	st["amm"] = J{"pools": pools, "denomLiq": dl,
		"queueIn": len(app.AmmKeeper.GetAllSwapExactAmountInRequests(ctx)), "queueOut": len(app.AmmKeeper.GetAllSwapExactAmountOutRequests(ctx))}

	// commitment
	cs := []J{}
	for _, c := range app.CommitmentKeeper.GetAllCommitments(ctx) {
		ct := []J{}
		for _, t := range c.CommittedTokens {
			lk := [][]string{}
			for _, l := range t.Lockups {
				lk = append(lk, []string{l.Amount.String(), math.NewIntFromUint64(l.UnlockTimestamp).String()})
			}
			ct = append(ct, J{"denom": t.Denom, "amount": t.Amount.String(), "lockups": lk})
		}
		vs := [][]string{}
		for _, v := range c.VestingTokens {
			vs = append(vs, []string{v.Denom, v.TotalAmount.String(), v.ClaimedAmount.String(), math.NewInt(v.StartBlock).String(), math.NewInt(v.NumBlocks).String()})
		}
		cs = append(cs, J{"addr": c.Creator, "committed": ct, "claimed": coinsArr(c.Claimed), "vesting": vs})
	}
	sort.Slice(cs, func(i, j int) bool { return cs[i]["addr"].(string) < cs[j]["addr"].(string) })
	cp := app.CommitmentKeeper.GetParams(ctx)
	st["commitment"] = J{"accounts": cs, "total": coinsArr(cp.TotalCommitted), "n": cp.NumberOfCommitments}

	// stablestake
	sp := app.StablestakeKeeper.GetParams(ctx)
	debts := []J{}
	for _, d := range app.StablestakeKeeper.GetAllDebts(ctx) {
		debts = append(debts, J{"addr": d.Address, "borrowed": intStr(d.Borrowed), "paid": intStr(d.InterestPaid), "stacked": intStr(d.InterestStacked)})
	}
	sort.Slice(debts, func(i, j int) bool { return debts[i]["addr"].(string) < debts[j]["addr"].(string) })
	st["stablestake"] = J{"totalValue": intStr(sp.TotalValue), "rate": decRaw(sp.RedemptionRate), "liveRate": decRaw(app.StablestakeKeeper.GetRedemptionRate(ctx)), "denom": app.StablestakeKeeper.GetDepositDenom(ctx), "debts": debts,
		"interestRate": decRaw(sp.InterestRate)}

	// leveragelp
	lpools := []J{}
	for _, p := range app.LeveragelpKeeper.GetAllPools(ctx) {
		lpools = append(lpools, J{"id": p.AmmPoolId, "levLp": intStr(p.LeveragedLpAmount), "health": decRaw(p.Health)})
	}
	lpos := []J{}
	for _, p := range app.LeveragelpKeeper.GetAllPositions(ctx) {
		lpos = append(lpos, J{"owner": p.Address, "id": p.Id, "pool": p.AmmPoolId, "levLp": intStr(p.LeveragedLpAmount), "liab": intStr(p.Liabilities),
			"collateral": []string{p.Collateral.Denom, intStr(p.Collateral.Amount)}, "posAddr": lptypes.GetPositionAddress(p.Id).String(),
			"health": decRaw(p.PositionHealth), "stopLoss": decRaw(p.StopLossPrice)})
	}
	sort.Slice(lpos, func(i, j int) bool { return lpos[i]["id"].(uint64) < lpos[j]["id"].(uint64) })
	lparams := app.LeveragelpKeeper.GetParams(ctx)
	st["leveragelp"] = J{"pools": lpools, "positions": lpos, "openCount": app.LeveragelpKeeper.GetOpenPositionCount(ctx), "idCount": app.LeveragelpKeeper.GetPositionCount(ctx), "safety": decRaw(lparams.SafetyFactor)}

	// perpetual
	ppools := []J{}
	for _, p := range app.PerpetualKeeper.GetAllPools(ctx) {
		side := func(as []struct{}) {}
		_ = side
		conv := func(long bool) []J {
			out := []J{}
			src := p.PoolAssetsShort
			if long {
				src = p.PoolAssetsLong
			}
			for _, a := range src {
				out = append(out, J{"denom": a.AssetDenom, "liab": intStr(a.Liabilities), "custody": intStr(a.Custody), "collateral": intStr(a.Collateral),
					"tpLiab": intStr(a.TakeProfitLiabilities), "tpCustody": intStr(a.TakeProfitCustody)})
			}
			return out
		}
		ppools = append(ppools, J{"id": p.AmmPoolId, "long": conv(true), "short": conv(false), "health": decRaw(p.Health)})
	}
	mtps := []J{}
	for _, m := range app.PerpetualKeeper.GetAllMTPs(ctx) {
		mtps = append(mtps, J{"owner": m.Address, "id": m.Id, "pool": m.AmmPoolId, "long": m.Position == 1, "collateralAsset": m.CollateralAsset,
			"custodyAsset": m.CustodyAsset, "liabAsset": m.LiabilitiesAsset, "tradingAsset": m.TradingAsset,
			"collateral": intStr(m.Collateral), "liab": intStr(m.Liabilities), "custody": intStr(m.Custody),
			"unpaid": intStr(m.BorrowInterestUnpaidLiability), "tpLiab": intStr(m.TakeProfitLiabilities), "tpCustody": intStr(m.TakeProfitCustody),
			"health": decRaw(m.MtpHealth), "stopLoss": decRaw(m.StopLossPrice), "takeProfit": decRaw(m.TakeProfitPrice)})
	}
	sort.Slice(mtps, func(i, j int) bool {
		if mtps[i]["owner"].(string) != mtps[j]["owner"].(string) {
			return mtps[i]["owner"].(string) < mtps[j]["owner"].(string)
		}
		return mtps[i]["id"].(uint64) < mtps[j]["id"].(uint64)
	})
	pparams := app.PerpetualKeeper.GetParams(ctx)
	st["perpetual"] = J{"pools": ppools, "mtps": mtps, "openCount": app.PerpetualKeeper.GetOpenMTPCount(ctx), "idCount": app.PerpetualKeeper.GetMTPCount(ctx), "safety": decRaw(pparams.SafetyFactor)}

	// accounted pools
	aps := []J{}
	for _, a := range app.AccountedPoolKeeper.GetAllAccountedPool(ctx) {
		aps = append(aps, J{"id": a.PoolId, "total": coinsArr(a.TotalTokens), "nonAmm": coinsArr(a.NonAmmPoolTokens)})
	}
	st["accounted"] = aps

	// masterchef: pending per (user, pool, denom) as the keeper would pay it (truncated), plus raw infos
	ur := []J{}
	for _, u := range app.MasterchefKeeper.GetAllUserRewardInfos(ctx) {
		if u.RewardPending.IsZero() && u.RewardDebt.IsZero() {
			continue
		}
		ur = append(ur, J{"user": u.User, "pool": u.PoolId, "denom": u.RewardDenom, "pending": decRaw(u.RewardPending), "debt": decRaw(u.RewardDebt)})
	}
	pr := []J{}
	for _, p := range app.MasterchefKeeper.GetAllPoolRewardInfos(ctx) {
		pr = append(pr, J{"pool": p.PoolId, "denom": p.RewardDenom, "acc": decRaw(p.PoolAccRewardPerShare), "last": p.LastUpdatedBlock})
	}
	// the reward denoms each pool's deposit / withdraw / claim hooks walk (GetRewardDenoms), with the inputs it is computed from
	rdl := []J{}
	for _, pi := range app.MasterchefKeeper.GetAllPoolInfos(ctx) {
		ext := pi.ExternalRewardDenoms
		if ext == nil {
			ext = []string{}
		}
		rdl = append(rdl, J{"pool": pi.PoolId, "base": app.MasterchefKeeper.GetBaseCurrencyDenom(ctx), "edenOn": pi.EnableEdenRewards, "ext": ext,
			"keys": app.MasterchefKeeper.GetRewardDenoms(ctx, pi.PoolId)})
	}
	st["masterchef"] = J{"users": ur, "pools": pr, "denomLists": rdl}
	st["distr"] = w.observeDistr()

	// tradeshield
	so := []J{}
	for _, o := range app.TradeshieldKeeper.GetAllPendingSpotOrder(ctx) {
		so = append(so, J{"kind": int32(o.OrderType), "id": o.OrderId, "owner": o.OwnerAddress, "type": int32(o.OrderType), "amount": []string{o.OrderAmount.Denom, intStr(o.OrderAmount.Amount)},
			"target": o.OrderTargetDenom, "rate": decRaw(o.OrderPrice.Rate), "base": o.OrderPrice.BaseDenom, "quote": o.OrderPrice.QuoteDenom,
			"escrow": tstypes.GetSpotOrderAddress(o.OrderId).String()})
	}
	po := []J{}
	for _, o := range app.TradeshieldKeeper.GetAllPendingPerpetualOrder(ctx) {
		po = append(po, J{"id": o.OrderId, "owner": o.OwnerAddress, "type": int32(o.PerpetualOrderType), "collateral": []string{o.Collateral.Denom, intStr(o.Collateral.Amount)},
			"rate": decRaw(o.TriggerPrice.Rate), "long": int32(o.Position) == 1, "pool": o.PoolId, "escrow": tstypes.GetPerpOrderAddress(o.OrderId).String()})
	}
	st["tradeshield"] = J{"spot": so, "perp": po, "spotCount": app.TradeshieldKeeper.GetPendingSpotOrderCount(ctx), "perpCount": app.TradeshieldKeeper.GetPendingPerpetualOrderCount(ctx)}

	// oracle
	prices := [][]string{}
	for _, dn := range []string{"uatom", "uelys", w.usdc()} {
		prices = append(prices, []string{dn, decRaw(app.OracleKeeper.GetAssetPriceFromDenom(ctx, dn))})
	}
	perpAtom := "0"
	if p, err := app.PerpetualKeeper.GetAssetPrice(ctx, "uatom"); err == nil {
		perpAtom = decRaw(p)
	}
	st["oracle"] = J{"denomPrices": prices, "nPrices": len(app.OracleKeeper.GetAllPrice(ctx)), "perpAtom": perpAtom}
	return st
}
