/-
L0/L1 model of x/oracle's price store, lookups, expiry and feeder gate. Core-only.

Mirrors, as coded (defects included):
  x/oracle/types/keys.go        PriceKeyPrefix, PriceKeyPrefixAsset, PriceKeyPrefixAssetAndSource, PriceKey
  x/oracle/keeper/price.go      SetPrice, GetPrice, RemovePrice, GetAllPrice, GetLatestPriceFromAssetAndSource,
                                GetLatestPriceFromAnySource, GetAssetPrice, Pow10, GetAssetPriceFromDenom
  x/oracle/keeper/abci.go       EndBlock (time rule and height rule, uint64 arithmetic)
  x/oracle/keeper/msg_server_price.go, msg_server_feed_multiple_prices.go   FeedPrice, FeedMultiplePrices
  x/oracle/keeper/msg_server_price_feeder.go, msg_server_proposals.go       Set/Delete/Add/RemovePriceFeeder(s)
  x/oracle/keeper/asset_info.go, price_feeder.go                            exact-key get/set/delete

The price store is an ordered byte-string KV store: a list of (key, value) kept strictly ascending
in `bytes.Compare` order. A prefix iterator is the sub-list of keys that start with the prefix, a
reverse prefix iterator is that sub-list reversed (what `KVStoreReversePrefixIterator` yields).
Bytes are `Nat`s (< 256 for everything the harness produces); names are byte strings.
-/
import ElysModel.Num.Dec
namespace Elys.Oracle

abbrev Bytes := List Nat

/-- bytes of an ASCII literal (for ASCII this is the UTF-8 encoding Go's `[]byte(s)` yields; the
driver converts real strings with `String.toUTF8`). -/
def ascii (s : String) : Bytes := s.toList.map Char.toNat

/-- `bytes.Compare(a, b) < 0`: lexicographic, a proper prefix sorts first. -/
def blt : Bytes → Bytes → Bool
  | [], [] => false
  | [], _ :: _ => true
  | _ :: _, [] => false
  | x :: xs, y :: ys => decide (x < y) || (decide (x = y) && blt xs ys)

/-- `bytes.HasPrefix(k, p)`. -/
def isPrefix : Bytes → Bytes → Bool
  | [], _ => true
  | _ :: _, [] => false
  | x :: xs, y :: ys => decide (x = y) && isPrefix xs ys

/-! ### ordered KV store -/

abbrev KV (α : Type) := List (Bytes × α)

namespace KV
variable {α : Type}

/-- `store.Set(k, v)`: insert at the sorted position, replacing an equal key. -/
def set (k : Bytes) (v : α) : KV α → KV α
  | [] => [(k, v)]
  | (k', v') :: t =>
    if blt k k' then (k, v) :: (k', v') :: t
    else if k = k' then (k, v) :: t
    else (k', v') :: set k v t

/-- `store.Delete(k)`. -/
def del (k : Bytes) (s : KV α) : KV α := s.filter (fun kv => !decide (kv.1 = k))

/-- `store.Get(k)`. -/
def get (k : Bytes) (s : KV α) : Option α := (s.find? (fun kv => decide (kv.1 = k))).map (·.2)

/-- `KVStorePrefixIterator(store, p)`: ascending. -/
def prefixIter (p : Bytes) (s : KV α) : KV α := s.filter (fun kv => isPrefix p kv.1)

/-- `KVStoreReversePrefixIterator(store, p)`: descending. -/
def revPrefixIter (p : Bytes) (s : KV α) : KV α := (prefixIter p s).reverse

end KV

/-! ### keys (types/keys.go) -/

/-- `uint64(x)` of a non-negative big number. -/
def u64 (n : Nat) : Nat := n % 2 ^ 64
/-- `uint64(i)` of an `int64` (two's complement wrap for negatives). -/
def toU64 (i : Int) : Nat := (i % (2 ^ 64 : Int)).toNat

/-- `n`-byte big-endian encoding. -/
def beBytes : Nat → Nat → Bytes
  | 0, _ => []
  | n + 1, x => (x / 256 ^ n) % 256 :: beBytes n (x % 256 ^ n)

/-- `sdk.Uint64ToBigEndian`. -/
def be64 (x : Nat) : Bytes := beBytes 8 x

/-- `"Price/value/"`. -/
def pricePrefix : Bytes := [80, 114, 105, 99, 101, 47, 118, 97, 108, 117, 101, 47]
/-- `"/"`. -/
def sep : Bytes := [47]
/-- `types.ELYS`, `types.BAND`. -/
def ELYS : Bytes := [101, 108, 121, 115]
def BAND : Bytes := [98, 97, 110, 100]

/-- `PriceKeyPrefixAsset`: `"Price/value/" ++ asset` — no separator after the asset. -/
def priceKeyPrefixAsset (asset : Bytes) : Bytes := pricePrefix ++ asset
/-- `PriceKeyPrefixAssetAndSource`: `"Price/value/" ++ asset ++ source` — plain concatenation. -/
def priceKeyPrefixAssetAndSource (asset source : Bytes) : Bytes := priceKeyPrefixAsset asset ++ source
/-- `PriceKey`: `"Price/value/" ++ asset ++ source ++ "/" ++ bigEndian(timestamp)`. -/
def priceKey (asset source : Bytes) (ts : Nat) : Bytes :=
  priceKeyPrefixAssetAndSource asset source ++ sep ++ be64 ts

/-! ### state -/

structure Price where
  asset    : Bytes
  source   : Bytes
  price    : Int      -- LegacyDec raw
  provider : Bytes
  ts       : Nat      -- uint64
  height   : Nat      -- uint64
deriving Repr, DecidableEq, Inhabited

structure AssetInfo where
  display : Bytes
  decimal : Nat       -- uint64
deriving Repr, DecidableEq, Inhabited

structure Params where
  expiry : Nat        -- PriceExpiryTime (uint64, seconds)
  life   : Nat        -- LifeTimeInBlocks (uint64)
deriving Repr, DecidableEq, Inhabited

structure St where
  prices  : KV Price := []
  /-- feeder address ↦ IsActive (exact-key store under 0x02) -/
  feeders : List (Bytes × Bool) := []
  /-- denom ↦ asset info (exact-key store) -/
  infos   : List (Bytes × AssetInfo) := []
  params  : Params := ⟨0, 0⟩
  /-- the module's gov authority address -/
  authority : Bytes := []
deriving Repr, DecidableEq, Inhabited

inductive Err | notAFeeder | feederNotActive | invalidAuthority | panicOverflow
deriving Repr, DecidableEq, Inhabited

def Price.key (p : Price) : Bytes := priceKey p.asset p.source p.ts

/-! ### price.go -/

/-- `SetPrice`: the key is derived from the value's asset, source and timestamp. -/
def setPrice (st : St) (p : Price) : St := { st with prices := st.prices.set p.key p }

/-- `RemovePrice`. -/
def removePrice (st : St) (asset source : Bytes) (ts : Nat) : St :=
  { st with prices := st.prices.del (priceKey asset source ts) }

/-- `GetPrice`. -/
def getPrice (st : St) (asset source : Bytes) (ts : Nat) : Option Price :=
  st.prices.get (priceKey asset source ts)

/-- `GetAllPrice`: values in key order. -/
def allPrices (st : St) : List Price := st.prices.map (·.2)

/-- `GetLatestPriceFromAssetAndSource`: first element of the reverse prefix iterator. -/
def latestFromAssetAndSource (st : St) (asset source : Bytes) : Option Price :=
  ((st.prices.revPrefixIter (priceKeyPrefixAssetAndSource asset source)).head?).map (·.2)

/-- `GetLatestPriceFromAnySource`. -/
def latestFromAnySource (st : St) (asset : Bytes) : Option Price :=
  ((st.prices.revPrefixIter (priceKeyPrefixAsset asset)).head?).map (·.2)

/-- `GetAssetPrice`: elys, then band, then any. -/
def getAssetPrice (st : St) (asset : Bytes) : Option Price :=
  match latestFromAssetAndSource st asset ELYS with
  | some p => some p
  | none =>
    match latestFromAssetAndSource st asset BAND with
    | some p => some p
    | none => latestFromAnySource st asset

/-- `LegacyDec.IsInValidRange` of cosmossdk.io/math v1.4.0: |raw| ≤ 2^256·10^18 − 1. -/
def decInRange (a : Int) : Bool := a.natAbs < 2 ^ 256 * 10 ^ 18

/-- loop of `Pow10`: `value = value.Mul(LegacyNewDec(10))`, with `Mul`'s range panic. -/
def pow10Loop : Nat → Int → Except Err Int
  | 0, v => .ok v
  | n + 1, v =>
    let v' := Dec.mul v (Dec.ofInt 10)
    if decInRange v' then pow10Loop n v' else .error .panicOverflow

/-- `Pow10(decimal uint64)`: the loop bound is `int(decimal)`, so a `decimal ≥ 2^63` runs zero times. -/
def pow10 (decimal : Nat) : Except Err Int :=
  pow10Loop (if decimal < 2 ^ 63 then decimal else 0) (Dec.ofInt 1)

def getAssetInfo (st : St) (denom : Bytes) : Option AssetInfo := st.infos.lookup denom
def setAssetInfo (st : St) (denom : Bytes) (i : AssetInfo) : St :=
  { st with infos := (denom, i) :: st.infos.filter (fun x => !decide (x.1 = denom)) }
def removeAssetInfo (st : St) (denom : Bytes) : St :=
  { st with infos := st.infos.filter (fun x => !decide (x.1 = denom)) }

/-- `GetAssetPriceFromDenom`: zero when there is no asset info or no price. -/
def getAssetPriceFromDenom (st : St) (denom : Bytes) : Except Err Int :=
  match getAssetInfo st denom with
  | none => .ok 0
  | some info =>
    match getAssetPrice st info.display with
    | none => .ok 0
    | some p => do
      let d ← pow10 info.decimal
      .ok (Dec.quo p.price d)

/-! ### abci.go -/

/-- the time rule, in uint64 arithmetic: `price.Timestamp + params.PriceExpiryTime < uint64(blockTime)`. -/
def expiredByTime (pr : Params) (t : Nat) (p : Price) : Bool := decide (u64 (p.ts + pr.expiry) < t)
/-- the height rule: `price.BlockHeight + params.LifeTimeInBlocks < uint64(blockHeight)`. -/
def expiredByHeight (pr : Params) (h : Nat) (p : Price) : Bool := decide (u64 (p.height + pr.life) < h)

/-- `EndBlock`: params read once, then one pass over a snapshot of all prices; each rule deletes
by the key recomputed from the value. -/
def endBlock (st : St) (time height : Int) : St :=
  let t := toU64 time
  let h := toU64 height
  (allPrices st).foldl (fun s p =>
    let s1 := if expiredByTime st.params t p then removePrice s p.asset p.source p.ts else s
    if expiredByHeight st.params h p then removePrice s1 p.asset p.source p.ts else s1) st

/-! ### feeders -/

def getFeeder (st : St) (a : Bytes) : Option Bool := st.feeders.lookup a
def setFeeder (st : St) (a : Bytes) (active : Bool) : St :=
  { st with feeders := (a, active) :: st.feeders.filter (fun x => !decide (x.1 = a)) }
def removeFeeder (st : St) (a : Bytes) : St :=
  { st with feeders := st.feeders.filter (fun x => !decide (x.1 = a)) }

/-- one element of `MsgFeedPrice.FeedPrice` / `MsgFeedMultiplePrices.FeedPrices`. -/
structure Feed where
  asset  : Bytes
  source : Bytes
  price  : Int
deriving Repr, DecidableEq, Inhabited

def Feed.toPrice (f : Feed) (signer : Bytes) (time height : Int) : Price :=
  { asset := f.asset, source := f.source, price := f.price, provider := signer,
    ts := toU64 time, height := toU64 height }

/-- the gate both feed handlers start with: `GetPriceFeeder` found, then `IsActive`. -/
def feederGate (st : St) (signer : Bytes) : Except Err Unit :=
  match getFeeder st signer with
  | none => .error .notAFeeder
  | some false => .error .feederNotActive
  | some true => .ok ()

/-- `msgServer.FeedPrice` at block (time, height). -/
def feedPrice (st : St) (signer : Bytes) (f : Feed) (time height : Int) : Except Err St := do
  feederGate st signer
  .ok (setPrice st (f.toPrice signer time height))

/-- `msgServer.FeedMultiplePrices`. -/
def feedMultiple (st : St) (signer : Bytes) (fs : List Feed) (time height : Int) : Except Err St := do
  feederGate st signer
  .ok (fs.foldl (fun s f => setPrice s (f.toPrice signer time height)) st)

/-- `msgServer.SetPriceFeeder` (signed by the feeder itself): only requires the record to exist. -/
def msgSetPriceFeeder (st : St) (feeder : Bytes) (active : Bool) : Except Err St :=
  match getFeeder st feeder with
  | none => .error .notAFeeder
  | some _ => .ok (setFeeder st feeder active)

/-- `msgServer.DeletePriceFeeder` (signed by the feeder itself). -/
def msgDeletePriceFeeder (st : St) (feeder : Bytes) : Except Err St :=
  match getFeeder st feeder with
  | none => .error .notAFeeder
  | some _ => .ok (removeFeeder st feeder)

/-- `msgServer.AddPriceFeeders` (gov): every listed address becomes an active feeder. -/
def msgAddPriceFeeders (st : St) (auth : Bytes) (fs : List Bytes) : Except Err St :=
  if st.authority ≠ auth then .error .invalidAuthority
  else .ok (fs.foldl (fun s a => setFeeder s a true) st)

/-- `msgServer.RemovePriceFeeders` (gov). -/
def msgRemovePriceFeeders (st : St) (auth : Bytes) (fs : List Bytes) : Except Err St :=
  if st.authority ≠ auth then .error .invalidAuthority
  else .ok (fs.foldl (fun s a => removeFeeder s a) st)

/-- a message runs inside a transaction: on error nothing is written. -/
def commit (st : St) (r : Except Err St) : St :=
  match r with
  | .ok s' => s'
  | .error _ => st

/-! ### the decidable no-collision predicate (hypothesis of `C16.lookup_exact_partial`, and what
the driver evaluates on the observed store to classify a foreign answer) -/

/-- the part of a stored key after `"Price/value/"`: `asset ++ source ++ "/" ++ be64 ts`. -/
def Price.body (p : Price) : Bytes := p.asset ++ p.source ++ sep ++ be64 p.ts

/-- entry `e` is reached by one of the three scans `GetAssetPrice asset` performs
(prefix `asset++"elys"`, `asset++"band"`, `asset`) without being an entry the scan is meant for. -/
def collidesWith (asset : Bytes) (e : Price) : Bool :=
  (isPrefix (asset ++ ELYS) e.body && !(decide (e.asset = asset) && decide (e.source = ELYS))) ||
  (isPrefix (asset ++ BAND) e.body && !(decide (e.asset = asset) && decide (e.source = BAND))) ||
  (isPrefix asset e.body && !decide (e.asset = asset))

/-- no stored entry's key bytes `asset' ++ source' ++ "/" ++ be64 ts'` start with `asset ++ "elys"`,
`asset ++ "band"` or `asset` unless it is an (asset, elys) / (asset, band) / (asset, _) entry. -/
def noCollision (st : St) (asset : Bytes) : Bool := (allPrices st).all (fun e => !collidesWith asset e)

/-- the same condition on the NAMES only: `asset` contains no "/" and no stored `asset' ++ source'`
starts with `asset ++ "elys"`, `asset ++ "band"` or `asset` unless it is that very pair (resp. that
asset). Sufficient for `noCollision` (`noCollision_of_names`), independent of the timestamps. -/
def namesCollide (asset : Bytes) (e : Price) : Bool :=
  (isPrefix (asset ++ ELYS) (e.asset ++ e.source) && !(decide (e.asset = asset) && decide (e.source = ELYS))) ||
  (isPrefix (asset ++ BAND) (e.asset ++ e.source) && !(decide (e.asset = asset) && decide (e.source = BAND))) ||
  (isPrefix asset (e.asset ++ e.source) && !decide (e.asset = asset))

def namesNoCollision (st : St) (asset : Bytes) : Bool :=
  !asset.contains 47 && (allPrices st).all (fun e => !namesCollide asset e)

/-! ### histories -/

/-- everything that can touch the oracle store. `setPrice` stands for the writers that bypass the
feeder gate by design (genesis, the Band IBC packet handler, a migration); its timestamp and height
are `uint64` fields. -/
inductive Op
  | setPrice (p : Price)
  | removePrice (asset source : Bytes) (ts : Nat)
  | feed (signer : Bytes) (f : Feed) (time height : Int)
  | feedMulti (signer : Bytes) (fs : List Feed) (time height : Int)
  | endBlock (time height : Int)
  | setFeeder (feeder : Bytes) (active : Bool)
  | deleteFeeder (feeder : Bytes)
  | addFeeders (auth : Bytes) (fs : List Bytes)
  | removeFeeders (auth : Bytes) (fs : List Bytes)
  | setInfo (denom : Bytes) (i : AssetInfo)
  | removeInfo (denom : Bytes)
  | setParams (p : Params)
deriving Repr, DecidableEq, Inhabited

def step (st : St) : Op → St
  | .setPrice p => setPrice st { p with ts := u64 p.ts, height := u64 p.height }
  | .removePrice a s ts => removePrice st a s ts
  | .feed signer f t h => commit st (feedPrice st signer f t h)
  | .feedMulti signer fs t h => commit st (feedMultiple st signer fs t h)
  | .endBlock t h => endBlock st t h
  | .setFeeder a act => commit st (msgSetPriceFeeder st a act)
  | .deleteFeeder a => commit st (msgDeletePriceFeeder st a)
  | .addFeeders auth fs => commit st (msgAddPriceFeeders st auth fs)
  | .removeFeeders auth fs => commit st (msgRemovePriceFeeders st auth fs)
  | .setInfo d i => setAssetInfo st d i
  | .removeInfo d => removeAssetInfo st d
  | .setParams p => { st with params := p }

def run (st : St) (ops : List Op) : St := ops.foldl step st

/-! ### BandChain answers (x/oracle/oracle.go): requests acknowledged with an id, answers delivered per id -/

/-- request id ↦ the symbols that request asked for (`SetBandRequest`), and the last acknowledged id -/
structure BandSt where
  reqs : List (Nat × List Bytes) := []
  last : Nat := 0
deriving Repr, DecidableEq, Inhabited

/-- `handleOracleAcknowledgment`: BandChain acknowledged a request for `symbols` with id `id` -/
def bandAck (b : BandSt) (id : Nat) (symbols : List Bytes) : BandSt :=
  { reqs := (id, symbols) :: b.reqs.filter (fun e => e.1 != id), last := id }

def AUTOMATION : Bytes := ascii "automation"

/-- the prices one answer writes: rate `i` becomes the band price of symbol `i` (`LegacyNewDecWithPrec(rate, multiplier)`) -/
def bandPrices (symbols : List Bytes) (rates : List Int) (mult : Nat) (time height : Int) : List Price :=
  (symbols.zip rates).map fun sr =>
    { asset := sr.1, source := BAND, price := sr.2 * 10 ^ (18 - mult), provider := AUTOMATION, ts := toU64 time, height := toU64 height }

/-- `handleOraclePacket` for request id `id`: `none` = refused (unknown request, or as many rates as symbols were not delivered);
the state is then unchanged (the error acknowledgement discards the branch) -/
def bandAnswer (st : St) (b : BandSt) (id : Nat) (rates : List Int) (mult : Nat) (time height : Int) : Option St :=
  match b.reqs.lookup id with
  | none => none
  | some symbols =>
    if symbols.length != rates.length then none
    else some ((bandPrices symbols rates mult time height).foldl setPrice st)

end Elys.Oracle
