/-
L1/L2 model of the vesting part of x/commitment (one account, one vesting denom):
`VestedSoFar`, `ProcessTokenVesting` (Vest), `ClaimVesting`, `CancelVest`, `VestNow`.
Mirrors msg_server_{vest,claim_vesting,cancel_vest,vest_now}.go and types/commitments.go.
Core-only.
-/
import ElysModel.Num.Dec
namespace Elys.Vesting

/-- One `VestingTokens` entry whose vesting denom is ELYS (the only kind `CancelVest` touches). -/
structure Entry where
  total   : Int
  claimed : Int
  start   : Int
  num     : Int
deriving Repr, DecidableEq, Inhabited

/-- The per-account slice of the commitment ledger that vesting reads and writes, plus two
ghost counters (cumulative tokens released, cumulative Eden returned/put in) used by the theorems. -/
structure St where
  entries     : List Entry
  edenClaimed : Int          -- the account's claimed-Eden bucket
  released    : Int          -- ghost: Σ tokens paid out by claims
  vestedIn    : Int          -- ghost: Σ Eden moved into vesting by `vest`
  returned    : Int          -- ghost: Σ Eden returned by `cancel`
deriving Repr, DecidableEq, Inhabited

inductive Err | invalid | exceedMax | insufficientClaimed | insufficientVesting | panicNegCoin | panicDivZero | disabled
deriving Repr, DecidableEq, Inhabited

/-- `VestingTokens.VestedSoFar` at block height `h`. `NumBlocks = 0` divides by zero (panic). -/
def vestedSoFar (e : Entry) (h : Int) : Except Err Int :=
  let tb := h - e.start
  let tb := if tb > e.num then e.num else tb
  if e.num = 0 then .error .panicDivZero else .ok ((e.total * tb).tdiv e.num)

/-- `ProcessTokenVesting`: move `amt` from the claimed bucket into a new entry. -/
def vest (s : St) (amt h num maxVestings : Int) : Except Err St :=
  if maxVestings ≤ s.entries.length then .error .exceedMax
  else if s.edenClaimed < amt then .error .insufficientClaimed
  else .ok { s with
    entries := s.entries ++ [{ total := amt, claimed := 0, start := h, num := num }]
    edenClaimed := s.edenClaimed - amt
    vestedIn := s.vestedIn + amt }

/-- the loop of `ClaimVesting`: returns (Σ new claims, surviving entries).
`fixed = false` is the code before the repair: `sdk.NewCoin` panics on a negative new claim.
`fixed = true` is the repaired code: a negative new claim is clamped to "nothing new". -/
def claimLoop (fixed : Bool) (h : Int) : List Entry → Except Err (Int × List Entry)
  | [] => .ok (0, [])
  | e :: es => do
    let vsf ← vestedSoFar e h
    let (vsf, newClaim) ←
      if vsf - e.claimed < 0 then
        (if fixed then (.ok (e.claimed, 0) : Except Err (Int × Int)) else .error .panicNegCoin)
      else .ok (vsf, vsf - e.claimed)
    let (sum, rest) ← claimLoop fixed h es
    let e' := { e with claimed := vsf }
    .ok (newClaim + sum, if e'.claimed ≠ e'.total then e' :: rest else rest)

/-- `ClaimVesting` at height `h`; second component is what the account is paid. -/
def claim (fixed : Bool) (s : St) (h : Int) : Except Err (St × Int) := do
  let (sum, es) ← claimLoop fixed h s.entries
  -- `newClaims.IsAllPositive()` (single denom): pays only when the sum is positive; the
  -- entries are updated either way.
  .ok ({ s with entries := es, released := s.released + sum }, sum)

/-- first loop of `CancelVest`, newest entry first (`rev` = entries reversed). -/
def cancelLoop : List Entry → Int → (List Entry × Int)
  | [], rem => ([], rem)
  | e :: es, rem =>
    if e.num = 0 ∨ e.total = 0 then
      let (es', rem') := cancelLoop es rem
      (e :: es', rem')
    else
      let c := min rem (e.total - e.claimed)
      let (es', rem') := cancelLoop es (rem - c)
      ({ e with total := e.total - c } :: es', rem')

/-- `CancelVest amt`. -/
def cancel (s : St) (amt : Int) : Except Err St :=
  let (rev', rem) := cancelLoop s.entries.reverse amt
  let es := rev'.reverse.filter (fun e => ¬ (e.claimed ≥ e.total))
  if rem ≠ 0 then .error .insufficientVesting
  else .ok { s with entries := es, edenClaimed := s.edenClaimed + amt, returned := s.returned + amt }

/-- `VestNow`: burn `amt` claimed Eden, pay `amt / factor` (Int.Quo). Returns the payout. -/
def vestNow (s : St) (enabled : Bool) (amt factor : Int) : Except Err (St × Int) :=
  if !enabled then .error .disabled
  else if s.edenClaimed < amt then .error .insufficientClaimed
  else if factor = 0 then .error .invalid
  else .ok ({ s with edenClaimed := s.edenClaimed - amt }, amt.tdiv factor)

inductive Op
  | vest (amt h num maxV : Int)
  | claim (h : Int)
  | cancel (amt : Int)
deriving Repr, DecidableEq, Inhabited

/-- one operation; a failed operation leaves the state unchanged (tx rollback). -/
def step (fixed : Bool) (s : St) : Op → St
  | .vest amt h num maxV => match vest s amt h num maxV with | .ok s' => s' | .error _ => s
  | .claim h => match claim fixed s h with | .ok (s', _) => s' | .error _ => s
  | .cancel amt => match cancel s amt with | .ok s' => s' | .error _ => s

def run (fixed : Bool) (s : St) (ops : List Op) : St := ops.foldl (step fixed) s

def init (eden : Int) : St := { entries := [], edenClaimed := eden, released := 0, vestedIn := 0, returned := 0 }

end Elys.Vesting
