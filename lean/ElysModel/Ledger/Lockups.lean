/-
L1 model of one account's committed tokens of one denom with their lock-ups: `Commitments.AddCommittedTokens` and
`Commitments.DeductFromCommitted` (x/commitment/types/commitments.go), as coded. Core-only.
-/
namespace Elys.Lockups

structure Lock where
  amount : Int
  unlock : Int
deriving Repr, DecidableEq, Inhabited

structure St where
  committed : Int := 0
  locks : List Lock := []
deriving Repr, DecidableEq, Inhabited

inductive Err | insufficientCommitted | insufficientWithdrawable
deriving Repr, DecidableEq, Inhabited

/-- `AddCommittedTokens(denom, amount, unlockTime)`: a lock-up is recorded for every locked commit -/
def add (s : St) (amount unlock : Int) : St :=
  { committed := s.committed + amount, locks := if unlock ≠ 0 then s.locks ++ [{ amount := amount, unlock := unlock }] else s.locks }

/-- Σ of the lock-ups that have not expired at `now` -/
def lockedAt (locks : List Lock) (now : Int) : Int :=
  match locks with
  | [] => 0
  | l :: ls => (if l.unlock > now then l.amount else 0) + lockedAt ls now

/-- `DeductFromCommitted(denom, amount, currTime, isLiquidation)` -/
def deduct (s : St) (amount now : Int) (isLiquidation : Bool) : Except Err St :=
  let c := s.committed - amount
  if c < 0 then .error .insufficientCommitted else
  let kept := if isLiquidation then [] else s.locks.filter (fun l => l.unlock > now)
  if lockedAt kept now > c then .error .insufficientWithdrawable else
  .ok { committed := c, locks := kept }

end Elys.Lockups
