/-
L2 model of the stablestake vault books (C06): `Params.TotalValue`, the vault's deposit-denom cash, and the
debts (principal, interest stacked, interest paid) — bond, unbond, Borrow, Repay, UpdateInterestStacked as coded
(x/stablestake/keeper/{msg_server_bond,msg_server_unbond,debt}.go). Interest amounts are W parameters. Core-only.
-/
import ElysModel.Data.FMap
namespace Elys.Vault

structure St where
  tv       : Int := 0
  cash     : Int := 0
  borrowed : FMap String := []
  stacked  : FMap String := []
  paid     : FMap String := []
deriving Repr, Inhabited

inductive Err | negative | insufficientCash | negativeBorrowed | interestOnZeroPrincipal
deriving Repr, DecidableEq, Inhabited

inductive Op
  | bond (x : Int)
  | unbond (r : Int)
  /-- `UpdateInterestStacked`: the same amount is added to the debt and to TotalValue -/
  | accrue (a : String) (i : Int)
  /-- `Borrow`: accrue (W interest `i`), principal += x, cash −= x -/
  | borrow (a : String) (i x : Int)
  /-- `Repay`: cash += x, accrue, interest first, then principal; the debt is deleted when the principal reaches zero -/
  | repay (a : String) (i x : Int)
deriving Repr, Inhabited

def accrue (s : St) (a : String) (i : Int) : Except Err St :=
  if i < 0 then .error .negative else
  -- interest is `borrowed × rate × time`, rounded: zero principal accrues nothing
  if s.borrowed.get a = 0 ∧ i ≠ 0 then .error .interestOnZeroPrincipal else
  .ok { s with stacked := s.stacked.add a i, tv := s.tv + i }

def bond (s : St) (x : Int) : Except Err St :=
  if x < 0 then .error .negative else .ok { s with cash := s.cash + x, tv := s.tv + x }

def unbond (s : St) (r : Int) : Except Err St :=
  if r < 0 then .error .negative else
  if s.cash < r then .error .insufficientCash else .ok { s with cash := s.cash - r, tv := s.tv - r }

def borrow (s : St) (a : String) (i x : Int) : Except Err St :=
  match accrue s a i with
  | .error e => .error e
  | .ok s1 =>
    if x < 0 then .error .negative else
    if s1.cash < x then .error .insufficientCash else
    .ok { s1 with borrowed := s1.borrowed.add a x, cash := s1.cash - x }

def repay (s : St) (a : String) (i x : Int) : Except Err St :=
  if x < 0 then .error .negative else
  match accrue { s with cash := s.cash + x } a i with
  | .error e => .error e
  | .ok s1 =>
    let owed := s1.stacked.get a - s1.paid.get a
    let ip := min owed x      -- `if interestPayAmount.GT(amount) { interestPayAmount = amount }`
    let rp := x - ip
    let b' := s1.borrowed.get a - rp
    if b' < 0 then .error .negativeBorrowed else
    if b' = 0 then
      -- DeleteDebt: the whole record disappears
      .ok { s1 with borrowed := s1.borrowed.set a 0, stacked := s1.stacked.set a 0, paid := s1.paid.set a 0 }
    else .ok { s1 with borrowed := s1.borrowed.set a b', paid := s1.paid.add a ip }

def step (s : St) : Op → Except Err St
  | .bond x => bond s x
  | .unbond r => unbond s r
  | .accrue a i => accrue s a i
  | .borrow a i x => borrow s a i x
  | .repay a i x => repay s a i x

def stepTx (s : St) (op : Op) : St := match step s op with | .ok s' => s' | .error _ => s
def run (s : St) (ops : List Op) : St := ops.foldl stepTx s

/-- Σ over borrowers of principal + stacked − paid -/
def outstanding (s : St) : Int := s.borrowed.total + s.stacked.total - s.paid.total

/-- C06 -/
def vaultEqB (s : St) : Bool := s.tv == s.cash + outstanding s

end Elys.Vault
