/-
L2 model of the commitment ledger (x/commitment) together with the LP-share books that C02 relates
to it. One macro-op per keeper entry point, written as the code's sequence of book updates.
`uncommit` is AS CODED: it ADDS to TotalCommitted (msg_server_uncommit_tokens.go:75).
Core-only.
-/
import ElysModel.Data.FMap
namespace Elys.Commit

abbrev AD := String × String   -- (address, denom)

def isVirtual (d : String) : Bool := d == "ueden" || d == "uedenb"

structure St where
  committed  : FMap AD := []
  claimed    : FMap AD := []
  total      : FMap String := []     -- Params.TotalCommitted
  custody    : FMap String := []     -- bank balance of the commitment module account
  supply     : FMap String := []     -- bank supply (share denoms)
  poolShares : FMap String := []     -- amm Pool.TotalShares, keyed by share denom
  unc        : FMap String := []     -- ghost: cumulative amount uncommitted per denom
  burnt      : FMap String := []     -- ghost: cumulative committed amount removed by BurnEdenBoost
deriving Repr, Inhabited

inductive Err | negative | insufficientCommitted | insufficientClaimed
deriving Repr, DecidableEq, Inhabited

inductive Op
  /-- `CommitLiquidTokens`: bank send user→module, total += , committed += -/
  | commitLiquid (a d : String) (amt : Int)
  /-- `UncommitTokens` as coded -/
  | uncommit (a d : String) (amt : Int)
  /-- `CommitClaimedRewards` -/
  | commitClaimed (a d : String) (amt : Int)
  /-- `BurnEdenBoost`: first from claimed, the rest from committed; TotalCommitted untouched -/
  | burnBoost (a d : String) (amt : Int)
  /-- `DepositLiquidTokensClaimed` -/
  | depositClaimed (a d : String) (amt : Int)
  /-- Eden/EdenB bookkeeping by the mint/send wrappers, vest, cancel-vest: claimed bucket only (W) -/
  | claimedDelta (a d : String) (delta : Int)
  /-- `MintPoolShareToAccount` + the pool's share increase: mint, send, commit -/
  | mintShares (a d : String) (amt : Int)
  /-- uncommit (liquidation flag irrelevant here) + `BurnPoolShareFromAccount` + the pool's share decrease -/
  | burnShares (a d : String) (amt : Int)
deriving Repr, Inhabited

def commitLiquid (s : St) (a d : String) (amt : Int) : Except Err St :=
  if amt < 0 then .error .negative else
  .ok { s with custody := s.custody.add d amt, total := s.total.add d amt, committed := s.committed.add (a, d) amt }

def uncommit (s : St) (a d : String) (amt : Int) : Except Err St :=
  if amt < 0 then .error .negative else
  if s.committed.get (a, d) < amt then .error .insufficientCommitted else
  let s1 := { s with committed := s.committed.add (a, d) (-amt) }
  let s2 := if isVirtual d then { s1 with claimed := s1.claimed.add (a, d) amt }
            else { s1 with custody := s1.custody.add d (-amt) }
  -- AS CODED: `params.TotalCommitted = params.TotalCommitted.Add(liquidCoins...)`
  .ok { s2 with total := s2.total.add d amt, unc := s2.unc.add d amt }

def commitClaimed (s : St) (a d : String) (amt : Int) : Except Err St :=
  if amt < 0 then .error .negative else
  if s.claimed.get (a, d) < amt then .error .insufficientClaimed else
  .ok { s with total := s.total.add d amt, claimed := s.claimed.add (a, d) (-amt), committed := s.committed.add (a, d) amt }

def burnBoost (s : St) (a d : String) (amt : Int) : Except Err St :=
  if amt < 0 then .error .negative else
  let c1 := min amt (s.claimed.get (a, d))
  let c1 := max c1 0
  let rest := amt - c1
  let c2 := max (min rest (s.committed.get (a, d))) 0
  -- as coded: when the whole amount comes out of `claimed` the handler returns before saving, and
  -- nothing changes; otherwise claimed −= c1, committed −= c2, TotalCommitted untouched
  if c2 = 0 then .ok s else
  .ok { s with claimed := s.claimed.add (a, d) (-c1), committed := s.committed.add (a, d) (-c2), burnt := s.burnt.add d c2 }

def depositClaimed (s : St) (a d : String) (amt : Int) : Except Err St :=
  if amt < 0 then .error .negative else
  .ok { s with custody := s.custody.add d amt, claimed := s.claimed.add (a, d) amt }

def claimedDelta (s : St) (a d : String) (delta : Int) : Except Err St :=
  if s.claimed.get (a, d) + delta < 0 then .error .insufficientClaimed else
  .ok { s with claimed := s.claimed.add (a, d) delta }

def mintShares (s : St) (a d : String) (amt : Int) : Except Err St :=
  if amt < 0 then .error .negative else
  commitLiquid { s with supply := s.supply.add d amt, poolShares := s.poolShares.add d amt } a d amt

def burnShares (s : St) (a d : String) (amt : Int) : Except Err St :=
  match uncommit s a d amt with
  | .error e => .error e
  | .ok s1 => .ok { s1 with supply := s1.supply.add d (-amt), poolShares := s1.poolShares.add d (-amt) }

def step (s : St) : Op → Except Err St
  | .commitLiquid a d amt => commitLiquid s a d amt
  | .uncommit a d amt => uncommit s a d amt
  | .commitClaimed a d amt => commitClaimed s a d amt
  | .burnBoost a d amt => burnBoost s a d amt
  | .depositClaimed a d amt => depositClaimed s a d amt
  | .claimedDelta a d delta => claimedDelta s a d delta
  | .mintShares a d amt => mintShares s a d amt
  | .burnShares a d amt => burnShares s a d amt

/-- a failed macro-op leaves the state unchanged (transaction rollback). -/
def stepTx (s : St) (op : Op) : St := match step s op with | .ok s' => s' | .error _ => s

def run (s : St) (ops : List Op) : St := ops.foldl stepTx s

/-- Σ_a committed (a, d) -/
def sumCommitted (s : St) (d : String) : Int := s.committed.sumIf (fun k => k.2 == d)
def sumClaimed (s : St) (d : String) : Int := s.claimed.sumIf (fun k => k.2 == d)

/-! ### executable predicates (evaluated by the driver on model states and on observed states) -/

/-- C12 first clause for denom `d`: chain-wide total = Σ accounts. -/
def totalEqSumB (s : St) (d : String) : Bool := s.total.get d == sumCommitted s d
/-- the as-coded relation: total = Σ + 2·(uncommitted so far) + (committed amount burnt so far). -/
def totalAsCodedB (s : St) (d : String) : Bool := s.total.get d == sumCommitted s d + 2 * s.unc.get d + s.burnt.get d
/-- C12 custody clause for a bank-backed denom. -/
def custodyB (s : St) (d : String) : Bool := isVirtual d || s.custody.get d ≥ sumCommitted s d + sumClaimed s d
/-- C02 for a share denom. -/
def sharesB (s : St) (d : String) : Bool :=
  s.poolShares.get d == s.supply.get d && s.supply.get d == sumCommitted s d && s.custody.get d == sumCommitted s d

end Elys.Commit
