/-
L2 model of token supply (C15): every mint/burn site of the protocol as a class of op
(x/amm/keeper/pool_share.go, x/stablestake/keeper/msg_server_{bond,unbond}.go, x/commitment/keeper/msg_server_{claim_vesting,vest_now}.go,
x/burner/keeper/burn.go). `burnerBurn` is AS CODED: it burns whatever denom has bank metadata and a balance at the zero address.
Core-only.
-/
import ElysModel.Data.FMap
namespace Elys.Supply

inductive Cls | external | native | share | virtualDenom
deriving Repr, DecidableEq, Inhabited

def classify (d : String) : Cls :=
  if d == "uelys" then .native
  else if d.startsWith "amm/pool/" || d == "stablestake/share" then .share
  else if d == "ueden" || d == "uedenb" then .virtualDenom
  else .external

inductive Op
  /-- join / pool creation / bond: shares minted against a deposit into the same pool or vault -/
  | shareMint (d : String) (x : Int)
  /-- exit / unbond -/
  | shareBurn (d : String) (x : Int)
  /-- ClaimVesting / VestNow (messages, and ClaimVesting for the provider-rewards account in the estaking epoch hook): the native
      token is minted by the commitment module against vested Eden -/
  | vestingRelease (x : Int)
  /-- burner epoch hook, as coded: any denom -/
  | burnerBurn (d : String) (x : Int)
  /-- a transfer between accounts: no supply effect -/
  | transfer
deriving Repr, Inhabited

structure St where
  supply : FMap String := []
deriving Repr, Inhabited

inductive Err | negative | notShare | insufficient
deriving Repr, DecidableEq, Inhabited

def step (s : St) : Op → Except Err St
  | .shareMint d x => if x < 0 then .error .negative else if classify d ≠ .share then .error .notShare else .ok { supply := s.supply.add d x }
  | .shareBurn d x => if x < 0 then .error .negative else if classify d ≠ .share then .error .notShare
                      else if s.supply.get d < x then .error .insufficient else .ok { supply := s.supply.add d (-x) }
  | .vestingRelease x => if x < 0 then .error .negative else .ok { supply := s.supply.add "uelys" x }
  | .burnerBurn d x => if x < 0 then .error .negative else if s.supply.get d < x then .error .insufficient else .ok { supply := s.supply.add d (-x) }
  | .transfer => .ok s

def stepTx (s : St) (op : Op) : St := match step s op with | .ok s' => s' | .error _ => s
def run (s : St) (ops : List Op) : St := ops.foldl stepTx s

end Elys.Supply
