/-
L2 model of the leveragelp books (C08): per amm pool the recorded `LeveragedLpAmount`, per position its
`LeveragedLpAmount` and the LP shares committed at the position's own address, and the open-position counter.
Macro-ops: open / consolidating re-open (join through the position address), close (partial / full: exit, pool and
position update, destroy at zero) — x/leveragelp/keeper/{position_open,position_close,position}.go. Share amounts W.
Core-only.
-/
import ElysModel.Data.FMap
namespace Elys.LevLp

abbrev PK := Nat × Nat      -- (amm pool id, position id)

structure St where
  poolLev   : FMap Nat := []     -- Pool.LeveragedLpAmount
  posLev    : FMap PK := []      -- Position.LeveragedLpAmount
  committed : FMap PK := []      -- LP shares committed at the position address
  live      : FMap PK := []      -- 1 when the position is stored
  count     : Int := 0           -- open-position counter
deriving Repr, Inhabited

inductive Err | negative | exists | missing | closeTooLarge | zeroShares
deriving Repr, DecidableEq, Inhabited

inductive Op
  | open (p id : Nat) (shares : Int)
  | consolidate (p id : Nat) (shares : Int)
  | close (p id : Nat) (lp : Int)
deriving Repr, Inhabited

def openPos (s : St) (p id : Nat) (x : Int) : Except Err St :=
  if x ≤ 0 then .error .zeroShares else
  if s.live.get (p, id) ≠ 0 then .error .exists else
  if s.posLev.get (p, id) ≠ 0 ∨ s.committed.get (p, id) ≠ 0 then .error .exists else
  .ok { s with poolLev := s.poolLev.add p x, posLev := s.posLev.add (p, id) x, committed := s.committed.add (p, id) x,
               live := s.live.set (p, id) 1, count := s.count + 1 }

def consolidate (s : St) (p id : Nat) (x : Int) : Except Err St :=
  if x < 0 then .error .negative else
  if s.live.get (p, id) ≠ 1 then .error .missing else
  .ok { s with poolLev := s.poolLev.add p x, posLev := s.posLev.add (p, id) x, committed := s.committed.add (p, id) x }

def close (s : St) (p id : Nat) (lp : Int) : Except Err St :=
  if lp < 0 then .error .negative else
  if s.live.get (p, id) ≠ 1 then .error .missing else
  if lp > s.posLev.get (p, id) then .error .closeTooLarge else
  let s1 := { s with poolLev := s.poolLev.add p (-lp), posLev := s.posLev.add (p, id) (-lp), committed := s.committed.add (p, id) (-lp) }
  if s1.posLev.get (p, id) = 0 then .ok { s1 with live := s1.live.set (p, id) 0, count := s1.count - 1 }   -- DestroyPosition
  else .ok s1

def step (s : St) : Op → Except Err St
  | .open p id x => openPos s p id x
  | .consolidate p id x => consolidate s p id x
  | .close p id lp => close s p id lp

def stepTx (s : St) (op : Op) : St := match step s op with | .ok s' => s' | .error _ => s
def run (s : St) (ops : List Op) : St := ops.foldl stepTx s

def sumPos (s : St) (p : Nat) : Int := s.posLev.sumIf (fun k => k.1 == p)

def poolEqSumB (s : St) (p : Nat) : Bool := s.poolLev.get p == sumPos s p
def posEqCommittedB (s : St) (k : PK) : Bool := s.posLev.get k == s.committed.get k
def countB (s : St) : Bool := s.count == s.live.total

end Elys.LevLp
