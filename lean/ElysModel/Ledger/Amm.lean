/-
L2 model of the amm pool books (C01): for every pool and denom the book reserve (`PoolAssets[i].Token.Amount`),
the bank balance at the pool's address, and the chain-wide `DenomLiquidity`. One op per keeper primitive that
moves tokens in or out of a pool address together with its book update, as coded:
`tokenIn`  = SendCoins → pool, AddToPoolBalanceAndUpdateLiquidity (swap in, perpetual SendToAmmPool, join),
`tokenOut` = SendCoins pool →, RemoveFromPoolBalanceAndUpdateLiquidity (swap out, fee skims, perpetual SendFromAmmPool),
`exitOut`  = SendCoins pool → exiter, `processExitPool`, RecordTotalLiquidityDecrease. Core-only.
-/
import ElysModel.Data.FMap
namespace Elys.AmmBook

abbrev PD := Nat × String    -- (pool id, denom)

structure St where
  held    : FMap PD := []      -- bank balance at the pool's address
  book    : FMap PD := []      -- the pool's recorded reserve
  liq     : FMap String := [] -- DenomLiquidity
  donated : FMap PD := []      -- ghost: tokens third parties sent straight to the pool address
deriving Repr, Inhabited

inductive Err | negative | insufficientFunds | insufficientBook | insufficientLiquidity | zeroOrNegativeBalance
deriving Repr, DecidableEq, Inhabited

inductive Op
  | tokenIn (p : Nat) (d : String) (x : Int)
  | tokenOut (p : Nat) (d : String) (x : Int)
  /-- `fixed = false`: `processExitPool` through `Coins.Sub`, which drops a coin that becomes zero, so that
  asset's book balance is left untouched. `fixed = true`: per-asset subtraction that rejects a non-positive remainder. -/
  | exitOut (fixed : Bool) (p : Nat) (d : String) (x : Int)
  | donate (p : Nat) (d : String) (x : Int)
  /-- `OnCollectFee`: the collected fee is converted to the pool's fee denom by a swap on a cache context, applied FIRST to the
  pool value in memory, whose asset slice the caller shares and saves afterwards. When the conversion then fails the cache context
  is dropped; `fixed = false` (before 78eb247): the in-memory book keeps the swap (`+x` of the fee denom in, `−y` out) with no
  transfer and no liquidity record; `fixed = true`: the in-memory balances are restored, nothing stays. -/
  | failedConversion (fixed : Bool) (p : Nat) (dIn : String) (x : Int) (dOut : String) (y : Int)
deriving Repr, Inhabited

def tokenIn (s : St) (p : Nat) (d : String) (x : Int) : Except Err St :=
  if x < 0 then .error .negative else
  .ok { s with held := s.held.add (p, d) x, book := s.book.add (p, d) x, liq := s.liq.add d x }

def tokenOut (s : St) (p : Nat) (d : String) (x : Int) : Except Err St :=
  if x < 0 then .error .negative else
  if s.held.get (p, d) < x then .error .insufficientFunds else
  -- `subtractFromPoolAssetBalances`: Token.Amount.Sub, then the coin must stay valid (non-negative)
  if s.book.get (p, d) < x then .error .insufficientBook else
  if s.liq.get d < x then .error .insufficientLiquidity else
  .ok { s with held := s.held.add (p, d) (-x), book := s.book.add (p, d) (-x), liq := s.liq.add d (-x) }

def exitOut (fixed : Bool) (s : St) (p : Nat) (d : String) (x : Int) : Except Err St :=
  if x < 0 then .error .negative else
  -- in-memory `processExitPool` runs first (inside `pool.ExitPool`)
  if s.book.get (p, d) < x then .error .insufficientBook else
  if fixed && s.book.get (p, d) - x ≤ 0 then .error .zeroOrNegativeBalance else
  let book' := if s.book.get (p, d) - x = 0 then s.book          -- AS CODED (pre-repair): zero coin dropped, balance untouched
               else s.book.add (p, d) (-x)
  if s.held.get (p, d) < x then .error .insufficientFunds else
  if s.liq.get d < x then .error .insufficientLiquidity else
  .ok { s with held := s.held.add (p, d) (-x), book := book', liq := s.liq.add d (-x) }

def donate (s : St) (p : Nat) (d : String) (x : Int) : Except Err St :=
  if x < 0 then .error .negative else
  .ok { s with held := s.held.add (p, d) x, donated := s.donated.add (p, d) x }

def failedConversion (fixed : Bool) (s : St) (p : Nat) (dIn : String) (x : Int) (dOut : String) (y : Int) : Except Err St :=
  if fixed then .ok s else .ok { s with book := (s.book.add (p, dIn) x).add (p, dOut) (-y) }

def step (s : St) : Op → Except Err St
  | .tokenIn p d x => tokenIn s p d x
  | .tokenOut p d x => tokenOut s p d x
  | .exitOut f p d x => exitOut f s p d x
  | .donate p d x => donate s p d x
  | .failedConversion f p dIn x dOut y => failedConversion f s p dIn x dOut y

/-- a macro-op (message handler / blocker step) is a list of primitive ops executed atomically -/
def runAtomic (s : St) (ops : List Op) : Except Err St := ops.foldlM step s

def stepTx (s : St) (ops : List Op) : St := match runAtomic s ops with | .ok s' => s' | .error _ => s
def run (s : St) (macros : List (List Op)) : St := macros.foldl stepTx s

def sumBook (s : St) (d : String) : Int := s.book.sumIf (fun k => k.2 == d)

/-! executable predicates -/
/-- C01 for (pool, denom): the real balance is the book reserve plus what third parties donated -/
def heldEqBookB (s : St) (k : PD) : Bool := s.held.get k == s.book.get k + s.donated.get k
/-- the property's wording on an observation (no ghost needed): real ≥ book -/
def heldGeBookB (s : St) (k : PD) : Bool := s.held.get k ≥ s.book.get k
def liqEqSumB (s : St) (d : String) : Bool := s.liq.get d == sumBook s d

end Elys.AmmBook
