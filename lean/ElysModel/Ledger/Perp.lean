/-
L2 model of the perpetual books (C09): per pool / side / asset the recorded custody, liabilities and collateral, the same
fields of every stored position (MTP), the open-position counter, and the amm book each pool draws on.
Every keeper path updates a position field and the pool aggregate by the same amount (`mtp.X = mtp.X ± a; pool.UpdateX(a)`):
that paired update is the primitive; message handlers are atomic lists of primitives. Amounts are W. Core-only.
-/
import ElysModel.Data.FMap
namespace Elys.Perp

/-- (amm pool id, long?, asset denom, field) with field 0 = custody, 1 = liabilities, 2 = collateral -/
abbrev K := Nat × Bool × String × Nat
abbrev MK := Nat × K        -- (mtp id, K)

structure St where
  agg   : FMap K := []            -- the pool's recorded aggregate
  pos   : FMap MK := []           -- the positions' own fields
  live  : FMap Nat := []          -- 1 when the MTP is stored
  count : Int := 0                -- OpenMTPCount
  book  : FMap (Nat × String) := []   -- amm pool book balance (pool, denom)
deriving Repr, Inhabited

inductive Err | exists | missing | unbacked
deriving Repr, DecidableEq, Inhabited

inductive Op
  /-- `SetMTP` with Id = 0: a new position is stored and the counter incremented -/
  | openMtp (id : Nat)
  /-- paired update of one position field and the matching pool aggregate -/
  | upd (id : Nat) (k : K) (delta : Int)
  /-- `DestroyMTP`: the record is deleted and the counter decremented; as coded it does not look at the fields -/
  | destroy (id : Nat)
  /-- amm book change of pool `p` (swap, join, exit, perpetual transfer) -/
  | bookDelta (p : Nat) (d : String) (delta : Int)
  /-- `CheckMinimumCustodyAmt`: the amm pool must hold at least the total custody of every asset -/
  | guard (p : Nat) (denoms : List String)
deriving Repr, Inhabited

def custodyTotal (s : St) (p : Nat) (d : String) : Int := s.agg.get (p, true, d, 0) + s.agg.get (p, false, d, 0)

def step (s : St) : Op → Except Err St
  | .openMtp id => if s.live.get id ≠ 0 then .error .exists else .ok { s with live := s.live.set id 1, count := s.count + 1 }
  | .upd id k x => if s.live.get id ≠ 1 then .error .missing else .ok { s with pos := s.pos.add (id, k) x, agg := s.agg.add k x }
  | .destroy id => if s.live.get id ≠ 1 then .error .missing else .ok { s with live := s.live.set id 0, count := s.count - 1 }
  | .bookDelta p d x => .ok { s with book := s.book.add (p, d) x }
  | .guard p ds => if ds.all (fun d => decide (custodyTotal s p d ≤ s.book.get (p, d))) then .ok s else .error .unbacked

def runAtomic (s : St) (ops : List Op) : Except Err St := ops.foldlM step s
def stepTx (s : St) (ops : List Op) : St := match runAtomic s ops with | .ok s' => s' | .error _ => s
def run (s : St) (macros : List (List Op)) : St := macros.foldl stepTx s

def sumPos (s : St) (k : K) : Int := s.pos.sumIf (fun mk => mk.2 == k)
/-- what the stored positions add up to (positions that are no longer stored do not count) -/
def sumLive (s : St) (k : K) : Int := s.pos.sumIf (fun mk => mk.2 == k && s.live.get mk.1 == 1)

def aggEqSumB (s : St) (k : K) : Bool := s.agg.get k == sumLive s k
def countB (s : St) : Bool := s.count == s.live.total
def backedB (s : St) (p : Nat) (d : String) : Bool := custodyTotal s p d ≤ s.book.get (p, d)

end Elys.Perp
