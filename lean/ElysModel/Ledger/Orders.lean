/-
L2 model of tradeshield's order escrow (C20): pending spot / perpetual-open orders, the escrow balance at each order's
own address, and the owner's wallet — create, update, cancel, and one order's execution inside `ExecuteOrders`
(x/tradeshield/keeper/{msg_server_spot_order,msg_server_perpetual_order,pending_*_order,msg_server_execute_orders}.go).
`execute … atomic := false` is the code before fix b33fde3 (the handler only logged the inner error). Core-only.
-/
import ElysModel.Data.FMap
namespace Elys.Orders

structure St where
  pending : FMap Nat := []       -- 1 while the order is pending
  amount  : FMap Nat := []       -- the order's amount / collateral
  escrow  : FMap Nat := []       -- bank balance at the order's escrow address (order denom)
  wallet  : FMap String := []    -- owners' wallets (order denom), relative to the start
  owner   : List (Nat × String) := []
  lost    : Int := 0             -- ghost: funds that left wallet + escrow through a failed execution
deriving Repr, Inhabited

inductive Err | exists | notFound | notOwner | negative | insufficient
deriving Repr, DecidableEq, Inhabited

def ownerOf (s : St) (id : Nat) : String := match s.owner.find? (fun p => p.1 == id) with | some p => p.2 | none => ""

/-- the trigger tests as coded (market and rate as raw Dec) -/
inductive Kind | stopLoss | limitSell | limitBuy | perpLong | perpShort
deriving Repr, DecidableEq, Inhabited

def triggered (k : Kind) (market rate : Int) : Bool :=
  match k with
  | .stopLoss => !(market > rate)      -- `if marketPrice.GT(rate) { skip }`
  | .limitSell => !(market < rate)
  | .limitBuy => !(market > rate)
  | .perpLong => !(market > rate)
  | .perpShort => !(market < rate)

inductive Op
  | create (id : Nat) (who : String) (amt : Int)
  | update (id : Nat) (signer : String)
  | cancel (id : Nat) (signer : String)
  /-- a third party's transfer straight to the escrow address -/
  | donate (id : Nat) (x : Int)
  /-- one order inside ExecuteOrders: trigger test; escrow back to the owner; inner swap / perpetual open, which may fail
  after having already taken `spent` out of the owner's wallet (perpetual Open failing its post-borrow checks) -/
  | execute (id : Nat) (kind : Kind) (market rate : Int) (innerOk : Bool) (spent : Int) (atomic : Bool)
deriving Repr, Inhabited

def step (s : St) : Op → Except Err St
  | .create id who amt =>
    if amt < 0 then .error .negative else
    if s.pending.get id ≠ 0 ∨ s.escrow.get id ≠ 0 then .error .exists else
    .ok { s with pending := s.pending.set id 1, amount := s.amount.set id amt, escrow := s.escrow.add id amt,
                 wallet := s.wallet.add who (-amt), owner := (id, who) :: s.owner }
  | .update id signer =>
    if s.pending.get id ≠ 1 then .error .notFound else if signer ≠ ownerOf s id then .error .notOwner else .ok s
  | .cancel id signer =>
    if s.pending.get id ≠ 1 then .error .notFound else if signer ≠ ownerOf s id then .error .notOwner else
    .ok { s with pending := s.pending.set id 0, wallet := s.wallet.add (ownerOf s id) (s.escrow.get id), escrow := s.escrow.set id 0 }
  | .donate id x => if x < 0 then .error .negative else .ok { s with escrow := s.escrow.add id x }
  | .execute id kind market rate innerOk spent atomic =>
    if s.pending.get id ≠ 1 then .error .notFound else
    if !triggered kind market rate then .ok s else            -- skipped: untouched
    if s.escrow.get id < s.amount.get id then .error .insufficient else
    let s1 := { s with escrow := s.escrow.add id (-(s.amount.get id)), wallet := s.wallet.add (ownerOf s id) (s.amount.get id) }
    if innerOk then .ok { s1 with pending := s1.pending.set id 0 }      -- order removed; what the swap/open does with the owner's funds is the owner's trade
    else if atomic then .ok s                                           -- repaired: the failed attempt leaves nothing behind
    else .ok { s1 with wallet := s1.wallet.add (ownerOf s id) (-spent), lost := s1.lost + spent }   -- before b33fde3

def stepTx (s : St) (op : Op) : St := match step s op with | .ok s' => s' | .error _ => s
def run (s : St) (ops : List Op) : St := ops.foldl stepTx s

def escrowHoldsB (s : St) (id : Nat) : Bool := s.pending.get id != 1 || s.escrow.get id ≥ s.amount.get id

end Elys.Orders
