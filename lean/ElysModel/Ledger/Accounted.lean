/-
L2 model of the accounted pool (C11), per (pool, asset): amm book balance, perpetual liabilities and custody (summed over
sides), and the two recorded numbers `TotalTokens` and `NonAmmPoolTokens`. The two refresh functions are as coded
(x/accountedpool/keeper/hooks_{amm,perpetual}.go); a handler is modelled by WHICH snapshot of the amm balance it passes
(taken before or after its own transfers) and whether it refreshes at all. Core-only.
-/
namespace Elys.Accounted

structure St where
  book : Int := 0      -- amm pool book balance
  liab : Int := 0      -- perpetual total liabilities (long + short)
  cust : Int := 0      -- perpetual total custody (long + short)
  tot  : Int := 0      -- AccountedPool.TotalTokens
  non  : Int := 0      -- AccountedPool.NonAmmPoolTokens
deriving Repr, DecidableEq, Inhabited

/-- `UpdateAccountedPoolOnAmmChange(ammPool)`: total := passed amm balance + recorded non-amm part -/
def refreshAmm (s : St) (snap : Int) : St := { s with tot := snap + s.non }

/-- `PerpetualUpdates(ammPool, perpPool)`: total := passed amm balance + L − C; non-amm part := total − passed amm balance -/
def refreshPerp (s : St) (snap : Int) : St := { s with tot := snap + s.liab - s.cust, non := s.liab - s.cust }

inductive Op
  /-- an amm-side operation (swap, join, exit): the book changes, then the amm hook fires with the updated pool -/
  | amm (db : Int)
  /-- a perpetual operation as repaired: book, liabilities and custody change, then the perpetual hook fires with the
  amm pool re-read AFTER the transfers -/
  | perp (db dl dc : Int)
  /-- AS CODED BEFORE fix aa6143c (`Open`, new position): the hook gets the amm pool fetched BEFORE the transfers -/
  | perpStale (db dl dc : Int)
  /-- AS CODED BEFORE fix 2c320c0 (interest / funding settled inside ClosePositions on a position that stays open): no hook -/
  | perpNoHook (db dl dc : Int)
deriving Repr, Inhabited

def step (s : St) : Op → St
  | .amm db => refreshAmm { s with book := s.book + db } (s.book + db)
  | .perp db dl dc => refreshPerp { s with book := s.book + db, liab := s.liab + dl, cust := s.cust + dc } (s.book + db)
  | .perpStale db dl dc => refreshPerp { s with book := s.book + db, liab := s.liab + dl, cust := s.cust + dc } s.book
  | .perpNoHook db dl dc => { s with book := s.book + db, liab := s.liab + dl, cust := s.cust + dc }

def run (s : St) (ops : List Op) : St := ops.foldl step s

def totalEqB (s : St) : Bool := s.tot == s.book + s.liab - s.cust
def nonAmmEqB (s : St) : Bool := s.non == s.liab - s.cust

end Elys.Accounted
