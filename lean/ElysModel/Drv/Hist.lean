/- shared parsing of history-mode lines (`hist.begin`, `hist.step`) for the ledger-property handlers. -/
import ElysModel.Drv.Util
import ElysModel.Snapshot
open Lean
namespace Elys.Drv

structure Move where
  kind : String     -- send | mint | burn
  src : String
  dst : String
  denom : String
  amt : Int
deriving Repr, Inhabited

structure TxObs where
  kind : String
  code : Int
  f : Json
  moves : List Move
deriving Inhabited

structure StepObs where
  h : Int
  txs : List TxObs
  beginMoves : List Move
  endMoves : List Move
  failed : Bool          -- the block itself failed (error / panic)
  failText : String
  obs : Snapshot
deriving Inhabited

def parseMoves (j : Json) : List Move :=
  ((j.getArr?.toOption.getD #[]).toList).filterMap fun m =>
    match m.getArr?.toOption with
    | some a =>
      if a.size = 5 then
        some { kind := (a[0]!.getStr?.toOption.getD ""), src := (a[1]!.getStr?.toOption.getD ""), dst := (a[2]!.getStr?.toOption.getD ""),
               denom := (a[3]!.getStr?.toOption.getD ""), amt := (jInt? a[4]!).getD 0 }
      else none
    | none => none

def parseStep (j : Json) : StepObs :=
  let txs := ((fld j "txs").getArr?.toOption.getD #[]).toList.map fun t =>
    { kind := (fStr? t "kind").getD "", code := (fInt? t "code").getD (-1), f := fld t "f", moves := parseMoves (fld t "moves") : TxObs }
  let failed := (fld j "blockErr") != .null || (fld j "blockPanic") != .null
  { h := (fInt? j "h").getD 0, txs := txs, beginMoves := parseMoves (fld j "beginMoves"), endMoves := parseMoves (fld j "endMoves"),
    failed := failed, failText := ((fStr? j "blockErr").getD "") ++ ((fStr? j "blockPanic").getD ""),
    obs := Snapshot.parse (fld j "obs") }

/-- address → name table from `hist.begin` -/
def parseNames (j : Json) : List (String × String) :=
  match (fld j "names").getObj? with
  | .ok o => o.toList.map fun (k, v) => (k, v.getStr?.toOption.getD "")
  | .error _ => []

def addrOf (names : List (String × String)) (name : String) : String :=
  match names.find? (fun p => p.2 == name) with
  | some p => p.1
  | none => ""

end Elys.Drv
