-- DRIVER-PROPS: C01
/- history-mode handler for C01: pool book vs bank balance at the pool address vs denom liquidity. -/
import ElysModel.Drv.Hist
import ElysModel.Ledger.Amm
open Lean
namespace Elys.Drv.AmmH
open Elys.AmmBook

structure S where
  pools : List (String × Nat) := []     -- pool address → id
  model : St := {}
  started : Bool := false
  deriving Inhabited

def poolId (s : S) (addr : String) : Option Nat := (s.pools.find? (fun p => p.1 == addr)).map (·.2)

def project (pools : List (String × Nat)) (o : Snapshot) (donated : FMap PD) : St :=
  { held := o.bank.filterMap (fun b => match pools.find? (fun p => p.1 == b.1.1) with
                                        | some p => some ((p.2, b.1.2), b.2) | none => none)
    book := o.ammPools.flatMap (fun p => p.assets.map (fun a => ((p.id, a.1), a.2)))
    liq := o.denomLiq
    donated := donated }

/-- primitive ops of one tx / blocker phase, recognised from x/bank's own events -/
def movesOps (s : S) (kind : String) (ms : List Move) : List Op :=
  ms.filterMap fun m =>
    if m.kind != "send" then none else
    match poolId s m.dst, poolId s m.src with
    | some p, _ => if kind == "bank.donate" then some (Op.donate p m.denom m.amt) else some (Op.tokenIn p m.denom m.amt)
    | none, some p => if kind == "amm.exit" then some (Op.exitOut true p m.denom m.amt) else some (Op.tokenOut p m.denom m.amt)
    | none, none => none

def keysOf (s : St) : List PD := ((s.held.map (·.1)) ++ (s.book.map (·.1))).eraseDups

def handle (s : S) (i : Nat) (j : Json) : S × List Json :=
  match fStr? j "t" with
  | some "hist.begin" =>
    let pools := ((fld j "pools").getArr?.toOption.getD #[]).toList.map fun p => ((fStr? p "addr").getD "", ((fInt? p "id").getD 0).toNat)
    let o := Snapshot.parse (fld j "obs")
    ({ pools := pools, model := project pools o [], started := true }, [verdictOk i])
  | some "hist.step" =>
    if !s.started then (s, [verdictBad i "hist.step before hist.begin"]) else
    let st := parseStep j
    if st.failed then (s, [verdictOk i]) else
    -- pools created during the history are not tracked (the grammar creates none)
    let macros : List (List Op) :=
      [movesOps s "begin" st.beginMoves] ++ (st.txs.map fun t => movesOps s t.kind t.moves) ++ [movesOps s "end" st.endMoves]
    -- every macro-op here did happen in the implementation, so the model must accept it
    let (m1, rejected) := macros.foldl (fun (acc : St × List String) ops =>
      match runAtomic acc.1 ops with
      | .ok s' => (s', acc.2)
      | .error e =>
        -- end-block batches are several independently-atomic swaps: fall back to op-by-op
        let (s2, bad) := ops.foldl (fun (a : St × List String) op => match step a.1 op with
          | .ok s' => (s', a.2) | .error e' => (a.1, (reprStr op ++ " -> " ++ reprStr e') :: a.2)) (acc.1, [])
        if bad.isEmpty then (s2, acc.2) else (s2, (reprStr e) :: bad ++ acc.2)) (s.model, [])
    let o := project s.pools st.obs m1.donated
    let ks := (keysOf m1 ++ keysOf o).eraseDups
    let ds := ((m1.liq.map (·.1)) ++ (o.liq.map (·.1))).eraseDups
    let cmp (what : String) (a b : FMap PD) : List Json :=
      match ks.find? (fun k => a.get k != b.get k) with
      | some k => [verdictDiff i what (Json.mkObj [("pool", k.1), ("denom", k.2), ("val", mkInt (a.get k))]) (Json.mkObj [("val", mkInt (b.get k))])]
      | none => []
    let diffs :=
      (if rejected.isEmpty then [] else [verdictDiff i "model rejects an op the implementation performed" (Json.arr (rejected.map Json.str).toArray) .null]) ++
      cmp "poolBook" m1.book o.book ++ cmp "bankAtPoolAddress" m1.held o.held ++
      (match ds.find? (fun d => m1.liq.get d != o.liq.get d) with
       | some d => [verdictDiff i "denomLiquidity" (Json.mkObj [("denom", d), ("val", mkInt (m1.liq.get d))]) (Json.mkObj [("val", mkInt (o.liq.get d))])]
       | none => [])
    -- property predicates on the observed state
    let viols :=
      (match ks.find? (fun k => !heldEqBookB o k) with
       | some k => [verdictViol i "C01.reserve_eq_held" (Json.mkObj [("pool", k.1), ("denom", k.2), ("bank", mkInt (o.held.get k)), ("book", mkInt (o.book.get k)),
                     ("donated", mkInt (o.donated.get k)), ("direction", if o.held.get k < o.book.get k + o.donated.get k then "book exceeds holdings" else "holdings exceed book")])]
       | none => []) ++
      (match ds.find? (fun d => !liqEqSumB o d) with
       | some d => [verdictViol i "C01.liquidity_eq_sum" (Json.mkObj [("denom", d), ("denomLiquidity", mkInt (o.liq.get d)), ("sumOfReserves", mkInt (sumBook o d))])]
       | none => [])
    let vs := diffs ++ viols
    ({ s with model := o }, if vs.isEmpty then [verdictOk i] else vs)
  | some "stats" => (s, [])
  | _ => (s, [verdictBad i "unknown t"])

def run (prop : String) : IO Unit := do
  let stdin ← IO.getStdin
  let stdout ← IO.getStdout
  let _ := prop
  loop stdin stdout handle {} 0

end Elys.Drv.AmmH
