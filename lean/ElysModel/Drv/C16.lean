-- DRIVER-PROPS: C16
/- driver handler for C16 (oracle): replays every script line on the model (correspondence), and
judges the IMPLEMENTATION's own answers against a spec-level reference built from the script's
successful writes and the expiry rule:
  C16.lookup_exact      the returned entry's asset is not the asked asset
  C16.newest            not the newest live price of the preferred source (or a live price was missed)
  C16.expired_served    the returned entry was expired by the last EndBlock
  C16.no_info_no_price  a denom without info / without price answered non-zero
  C16.feeder_gate       a feed succeeded for a signer that is not a registered active feeder, or a
                        failed feed changed the store
Every lookup violation carries `collision` (the decidable `noCollision` predicate of the model,
evaluated on the store the implementation reported), `lostWrite` (the answer is right once writes
overwritten through a shared key are discounted) and `asCoded` (the as-coded model predicts exactly
this answer). -/
import ElysModel.Drv.Util
import ElysModel.Oracle.Model
open Lean
namespace Elys.Drv.C16
open Elys.Oracle

def sb (s : String) : Bytes := s.toUTF8.toList.map (·.toNat)
def bs (b : Bytes) : String := String.ofList (b.map Char.ofNat)

/-- a spec-level reference entry: a successfully written price, keyed by (asset, source, ts);
`lost` = a later write of a DIFFERENT (asset, source) with the same key bytes replaced it in the store. -/
structure Ref where
  p : Price
  lost : Bool := false
  deriving Inhabited

structure S where
  model : St := {}
  ref : List Ref := []
  refFeeders : List (Bytes × Bool) := []
  iStore : List Price := []
  lastEnd : Option (Nat × Nat) := none
  band : BandSt := {}          -- the model's request registry (follows the implementation's acknowledgements)
  refBand : BandSt := {}       -- the reference's own registry: what each request id was acknowledged FOR
  mult : Nat := 6
  deriving Inhabited

def priceJson (p : Price) : Json :=
  Json.arr #[bs p.asset, bs p.source, mkInt p.price, bs p.provider, mkInt p.ts, mkInt p.height]
def optPriceJson : Option Price → Json
  | none => Json.null
  | some p => priceJson p
def storeJson (l : List Price) : Json := Json.arr (l.map priceJson).toArray

def parsePrice (j : Json) : Option Price := do
  let a ← j.getArr?.toOption
  match a.toList with
  | [as, so, pr, pv, ts, h] =>
    let as ← as.getStr?.toOption
    let so ← so.getStr?.toOption
    let pr ← jInt? pr
    let pv ← pv.getStr?.toOption
    let ts ← jInt? ts
    let h ← jInt? h
    some { asset := sb as, source := sb so, price := pr, provider := sb pv, ts := ts.toNat, height := h.toNat }
  | _ => none

def parseStore (j : Json) : Option (List Price) := do
  let a ← j.getArr?.toOption
  a.toList.mapM parsePrice

def parseFeeds (j : Json) : Option (List Feed) := do
  let a ← j.getArr?.toOption
  a.toList.mapM fun x => do
    let l ← x.getArr?.toOption
    match l.toList with
    | [as, so, pr] =>
      let as ← as.getStr?.toOption
      let so ← so.getStr?.toOption
      let pr ← jInt? pr
      some { asset := sb as, source := sb so, price := pr }
    | _ => none

def parseStrs (j : Json) : Option (List String) := do
  let a ← j.getArr?.toOption
  a.toList.mapM (·.getStr?.toOption)

/-- (address, found, active) observations -/
def parseFobs (j : Json) : Option (List (String × Bool × Bool)) := do
  let a ← j.getArr?.toOption
  a.toList.mapM fun x => do
    let l ← x.getArr?.toOption
    match l.toList with
    | [ad, f, ac] => some (← ad.getStr?.toOption, ← f.getBool?.toOption, ← ac.getBool?.toOption)
    | _ => none

/-- found? + entry, as reported by the implementation -/
def parseAns (j : Json) : Option (Option Price) :=
  match fBool? j "found" with
  | some true => (parsePrice (fld j "r")).map some
  | some false => some none
  | none => none

def resName : Except Err α → String
  | .ok _ => "ok"
  | .error .panicOverflow => "panic"
  | .error _ => "fail"

/-! ### the reference -/

def sameTriple (a b : Price) : Bool := a.asset == b.asset && a.source == b.source && a.ts == b.ts

def refWrite (R : List Ref) (p : Price) : List Ref :=
  let R1 := R.filter (fun e => !sameTriple e.p p)
  let R2 := R1.map (fun e => if e.p.key == p.key then { e with lost := true } else e)
  R2 ++ [{ p := p }]

/-- the property's expiry rule in plain arithmetic (the harness stays far from uint64 overflow). -/
def specExpired (pr : Params) (t h : Nat) (p : Price) : Bool :=
  decide (p.ts + pr.expiry < t) || decide (p.height + pr.life < h)

def maxTs (l : List Price) : Nat := l.foldl (fun m p => max m p.ts) 0

/-- `none` = the answer meets the property w.r.t. the live set `R`; otherwise (clause, why). -/
def acceptable (R : List Price) (pr : Params) (lastEnd : Option (Nat × Nat)) (asked : Bytes)
    (ans : Option Price) : Option (String × String) :=
  let cands := R.filter (fun e => e.asset == asked)
  match ans with
  | none => if cands.isEmpty then none else some ("C16.newest", "a live price of the asked asset exists but none was returned")
  | some r =>
    if r.asset != asked then some ("C16.lookup_exact", "the returned entry belongs to another asset")
    else if !(R.any (fun e => sameTriple e r && e.price == r.price && e.height == r.height)) then
      match lastEnd with
      | some (t, h) =>
        if specExpired pr t h r then some ("C16.expired_served", "the returned entry was expired by the last EndBlock")
        else some ("C16.newest", "the returned entry is not a live fed price")
      | none => some ("C16.newest", "the returned entry is not a live fed price")
    else
      let t1 := cands.filter (fun e => e.source == ELYS)
      let t2 := cands.filter (fun e => e.source == BAND)
      if !t1.isEmpty then
        if r.source == ELYS && r.ts == maxTs t1 then none else some ("C16.newest", "a live elys price exists; not the newest elys price")
      else if !t2.isEmpty then
        if r.source == BAND && r.ts == maxTs t2 then none else some ("C16.newest", "a live band price exists; not the newest band price")
      else
        if r.ts == maxTs (cands.filter (fun e => e.source == r.source)) then none
        else some ("C16.newest", "not the newest price of its source")

def judge (s : S) (i : Nat) (op : String) (askedS : String) (ans mans : Option Price) : List Json :=
  let asked := sb askedS
  match acceptable (s.ref.map (·.p)) s.model.params s.lastEnd asked ans with
  | none => []
  | some (clause, why) =>
    let live := (s.ref.filter (fun e => !e.lost)).map (·.p)
    let lostWrite := (acceptable live s.model.params s.lastEnd asked ans).isNone
    let obs : St := { prices := s.iStore.map (fun p => (p.key, p)) }
    let collision := !noCollision obs asked
    [verdictViol i clause (Json.mkObj [
      ("op", op), ("asked", askedS), ("returned", optPriceJson ans),
      ("returnedAsset", match ans with | some r => Json.str (bs r.asset) | none => Json.null),
      ("collision", collision), ("lostWrite", lostWrite), ("asCoded", decide (ans = mans)), ("why", why)])]

def refActive (s : S) (a : Bytes) : Bool := s.refFeeders.lookup a == some true
def refSetFeeder (fs : List (Bytes × Bool)) (a : Bytes) (act : Bool) : List (Bytes × Bool) :=
  (a, act) :: fs.filter (fun x => x.1 != a)
def refDelFeeder (fs : List (Bytes × Bool)) (a : Bytes) : List (Bytes × Bool) := fs.filter (fun x => x.1 != a)

def storeDiff (i : Nat) (m : St) (obs : List Price) : List Json :=
  if allPrices m != obs then [verdictDiff i "store" (storeJson (allPrices m)) (storeJson obs)] else []

/-- after a reported store disagreement the model continues from the store the implementation
reported, so that one divergence is reported once and `asCoded` stays meaningful afterwards. -/
def resync (m : St) (obs : List Price) : St :=
  if allPrices m == obs then m else { m with prices := obs.foldl (fun kv p => KV.set p.key p kv) [] }

def feederDiff (i : Nat) (m : St) (fobs : List (String × Bool × Bool)) : List Json :=
  fobs.filterMap fun (a, f, ac) =>
    let mf := getFeeder m (sb a)
    if mf.isSome != f || (mf == some true) != ac then
      some (verdictDiff i "feeder" (Json.mkObj [("addr", a), ("found", mf.isSome), ("active", mf == some true)])
        (Json.mkObj [("addr", a), ("found", f), ("active", ac)]))
    else none

def finish (i : Nat) (s : S) (vs : List Json) : S × List Json := (s, if vs.isEmpty then [verdictOk i] else vs)

def handle (s : S) (i : Nat) (j : Json) : S × List Json :=
  match fStr? j "t" with
  | some "c16.begin" =>
    match fInt? j "expiry", fInt? j "life", fStr? j "authority" with
    | some e, some l, some auth =>
      ({ model := { params := ⟨e.toNat, l.toNat⟩, authority := sb auth }, mult := ((fInt? j "mult").getD 6).toNat }, [verdictOk i])
    | _, _, _ => (s, [verdictBad i "c16.begin fields"])
  | some "stats" => (s, [])
  | some "c16.op" =>
    match fStr? j "op", fStr? j "res", fInt? j "time", fInt? j "h" with
    | some op, some res, some time, some h =>
      match op with
      | "feed" | "feedmulti" =>
        match fStr? j "signer", fBool? j "vb", parseFeeds (fld j "feeds"), parseStore (fld j "store"),
              fBool? j "signer_found", fBool? j "signer_active" with
        | some signerS, some vb, some feeds, some store, some sf, some sa =>
          let signer := sb signerS
          let r : Except Err St :=
            if !vb then .error .notAFeeder  -- rejected before the handler (ValidateBasic, witnessed)
            else if op == "feed" then
              match feeds with
              | [f] => feedPrice s.model signer f time h
              | _ => .error .notAFeeder
            else feedMultiple s.model signer feeds time h
          let m' := commit s.model r
          let ok := res == "ok"
          let ref' := if ok then feeds.foldl (fun R f => refWrite R (f.toPrice signer time h)) s.ref else s.ref
          let diffs :=
            (if resName r != res then [verdictDiff i "result" (resName r) res] else []) ++ storeDiff i m' store
          let viols :=
            (if ok && !(sf && sa && refActive s signer) then
              [verdictViol i "C16.feeder_gate" (Json.mkObj [("op", op), ("signer", signerS), ("found", sf), ("active", sa),
                ("refActive", refActive s signer), ("why", "a feed succeeded for a signer that is not a registered active feeder")])]
             else []) ++
            (if !ok && store != s.iStore then
              [verdictViol i "C16.feeder_gate" (Json.mkObj [("op", op), ("signer", signerS),
                ("why", "a failed feed changed the price store")])]
             else [])
          finish i { s with model := resync m' store, ref := ref', iStore := store } (diffs ++ viols)
        | _, _, _, _, _, _ => (s, [verdictBad i "c16 feed fields"])
      | "set" =>
        match parsePrice (fld j "p"), parseStore (fld j "store") with
        | some p, some store =>
          let m' := step s.model (.setPrice p)
          let diffs := (if res != "ok" then [verdictDiff i "result" "ok" res] else []) ++ storeDiff i m' store
          finish i { s with model := resync m' store, ref := refWrite s.ref p, iStore := store } diffs
        | _, _ => (s, [verdictBad i "c16 set fields"])
      | "endblock" =>
        match parseStore (fld j "store") with
        | some store =>
          let m' := endBlock s.model time h
          let ref' := s.ref.filter (fun e => !specExpired s.model.params time.toNat h.toNat e.p)
          let diffs := (if res != "ok" then [verdictDiff i "result" "ok" res] else []) ++ storeDiff i m' store
          finish i { s with model := resync m' store, ref := ref', iStore := store, lastEnd := some (time.toNat, h.toNat) } diffs
        | _ => (s, [verdictBad i "c16 endblock fields"])
      | "bandack" =>
        match fInt? j "reqId", parseStrs (fld j "symbols"), parseStore (fld j "store") with
        | some id, some syms, some store =>
          let ok := res == "ok"
          let b' := bandAck s.band id.toNat (syms.map sb)
          let diffs := (if !ok then [verdictDiff i "result" "ok" res] else []) ++ storeDiff i s.model store
          finish i { s with band := (if ok then b' else s.band), refBand := (if ok then bandAck s.refBand id.toNat (syms.map sb) else s.refBand),
                            model := resync s.model store, iStore := store } diffs
        | _, _, _ => (s, [verdictBad i "c16 bandack fields"])
      | "bandanswer" =>
        match fInt? j "reqId", parseStrs (fld j "rates"), parseStore (fld j "store") with
        | some id, some ratesS, some store =>
          let rates : List Int := ratesS.map (fun x => (x.toInt?).getD 0)
          let r := bandAnswer s.model s.band id.toNat rates s.mult time h
          let m' := r.getD s.model
          let ok := res == "ok"
          -- the reference: the rates of request `id` are prices of the symbols `id` was acknowledged for - nothing else is written
          let ref' := match (if ok then s.refBand.reqs.lookup id.toNat else none) with
            | some syms => if syms.length == rates.length then (bandPrices syms rates s.mult time h).foldl refWrite s.ref else s.ref
            | none => s.ref
          let diffs := (if r.isSome != ok then [verdictDiff i "result" (if r.isSome then "ok" else "fail") res] else []) ++ storeDiff i m' store
          let viols := if !ok && store != s.iStore then
              [verdictViol i "C16.feeder_gate" (Json.mkObj [("op", op), ("why", "a refused BandChain answer changed the price store")])] else []
          finish i { s with model := resync m' store, ref := ref', iStore := store } (diffs ++ viols)
        | _, _, _ => (s, [verdictBad i "c16 bandanswer fields"])
      | "get" =>
        match fStr? j "asset", parseAns j with
        | some askedS, some ans =>
          let mans := getAssetPrice s.model (sb askedS)
          let diffs :=
            (if res != "ok" then [verdictDiff i "result" "ok" res] else []) ++
            (if mans != ans then [verdictDiff i "get" (optPriceJson mans) (optPriceJson ans)] else [])
          finish i s (diffs ++ judge s i op askedS ans mans)
        | _, _ => (s, [verdictBad i "c16 get fields"])
      | "denom" =>
        match fStr? j "denom", fArr? j "info" with
        | some denomS, some info =>
          match info.toList with
          | [ifound, idisp, idec] =>
            match ifound.getBool?.toOption, idisp.getStr?.toOption, jInt? idec with
            | some ifound, some idisp, some idec =>
              let denom := sb denomS
              let mr := getAssetPriceFromDenom s.model denom
              let minfo := getAssetInfo s.model denom
              let iprice := fInt? j "price"
              let via : Option (Option Price) := if ifound then parseAns (fld j "via") else some none
              match via with
              | none => (s, [verdictBad i "c16 denom via"])
              | some via =>
                let mvia := if ifound then getAssetPrice s.model (sb idisp) else none
                let diffs :=
                  (if resName mr != res then [verdictDiff i "result" (resName mr) res] else []) ++
                  (if res == "ok" && mr.toOption != iprice then
                    [verdictDiff i "denomPrice" (match mr.toOption with | some v => mkInt v | none => Json.null)
                      (match iprice with | some v => mkInt v | none => Json.null)] else []) ++
                  (if minfo != (if ifound then some { display := sb idisp, decimal := idec.toNat } else none) then
                    [verdictDiff i "assetInfo" (toString (repr minfo)) (Json.arr info)] else []) ++
                  (if mvia != via then [verdictDiff i "denomVia" (optPriceJson mvia) (optPriceJson via)] else [])
                let viols :=
                  (if ifound then judge s i op idisp via mvia else []) ++
                  (if (!ifound || via.isNone) && res == "ok" && iprice != some 0 then
                    [verdictViol i "C16.no_info_no_price" (Json.mkObj [("denom", denomS), ("infoFound", ifound),
                      ("priceFound", via.isSome), ("answer", fld j "price")])]
                   else []) ++
                  (if (!ifound || via.isNone) && res != "ok" then
                    [verdictViol i "C16.no_info_no_price" (Json.mkObj [("denom", denomS), ("infoFound", ifound),
                      ("priceFound", via.isSome), ("answer", res)])]
                   else [])
                finish i s (diffs ++ viols)
            | _, _, _ => (s, [verdictBad i "c16 denom info"])
          | _ => (s, [verdictBad i "c16 denom info"])
        | _, _ => (s, [verdictBad i "c16 denom fields"])
      | "info" =>
        match fStr? j "denom", fStr? j "display", fInt? j "decimal" with
        | some d, some disp, some dec =>
          finish i { s with model := setAssetInfo s.model (sb d) { display := sb disp, decimal := dec.toNat } } []
        | _, _, _ => (s, [verdictBad i "c16 info fields"])
      | "rminfo" =>
        match fStr? j "denom" with
        | some d => finish i { s with model := removeAssetInfo s.model (sb d) } []
        | _ => (s, [verdictBad i "c16 rminfo fields"])
      | "setfeeder" | "delfeeder" | "addfeeders" | "rmfeeders" =>
        match parseFobs (fld j "fobs") with
        | some fobs =>
          let ok := res == "ok"
          let parsed : Option (Except Err St × List (Bytes × Bool)) :=
            match op with
            | "setfeeder" =>
              match fStr? j "feeder", fBool? j "active" with
              -- the reference registry follows what governance and the account itself were ENTITLED to do: the self-service message
              -- toggles an existing registration and cannot create one (whatever the implementation answered)
              | some a, some act => some (msgSetPriceFeeder s.model (sb a) act,
                  if (s.refFeeders.lookup (sb a)).isSome then refSetFeeder s.refFeeders (sb a) act else s.refFeeders)
              | _, _ => none
            | "delfeeder" =>
              match fStr? j "feeder" with
              | some a => some (msgDeletePriceFeeder s.model (sb a), refDelFeeder s.refFeeders (sb a))
              | _ => none
            | "addfeeders" =>
              match fStr? j "auth", parseStrs (fld j "feeders") with
              | some auth, some fl =>
                some (msgAddPriceFeeders s.model (sb auth) (fl.map sb), fl.foldl (fun R a => refSetFeeder R (sb a) true) s.refFeeders)
              | _, _ => none
            | _ =>
              match fStr? j "auth", parseStrs (fld j "feeders") with
              | some auth, some fl =>
                some (msgRemovePriceFeeders s.model (sb auth) (fl.map sb), fl.foldl (fun R a => refDelFeeder R (sb a)) s.refFeeders)
              | _, _ => none
          match parsed with
          | some (r, rf) =>
            let m' := commit s.model r
            let diffs := (if resName r != res then [verdictDiff i "result" (resName r) res] else []) ++ feederDiff i m' fobs
            finish i { s with model := m', refFeeders := if ok then rf else s.refFeeders } diffs
          | none => (s, [verdictBad i "c16 feeder-op fields"])
        | _ => (s, [verdictBad i "c16 fobs"])
      | _ => (s, [verdictBad i "c16 unknown op"])
    | _, _, _, _ => (s, [verdictBad i "c16.op fields"])
  | _ => (s, [verdictBad i "unknown t"])

def run (prop : String) : IO Unit := do
  let stdin ← IO.getStdin
  let stdout ← IO.getStdout
  let _ := prop
  loop stdin stdout handle {} 0

end Elys.Drv.C16
