-- DRIVER-PROPS: C19
/- handler for C19 replica lines (harness/c19.go): every replica must report the same app hash, tx codes and gas at every
height, and the restarted replica must come back at the same height and commit id. -/
import ElysModel.Drv.Util
open Lean
namespace Elys.Drv.C19

structure S where
  n : Nat := 0
  deriving Inhabited

def handle (s : S) (i : Nat) (j : Json) : S × List Json :=
  match fStr? j "t" with
  | some "c19.begin" => (s, [verdictOk i])
  | some "c19.block" =>
    let reps := ((fArr? j "replicas").getD #[]).toList
    match reps with
    | [] => (s, [verdictBad i "no replicas"])
    | r0 :: rest =>
      let key (r : Json) : String := (fld r "hash").compress ++ (fld r "codes").compress ++ (fld r "gas").compress ++ (fld r "err").compress
      let rs := fld j "restart"
      let viols :=
        (if rest.any (fun r => key r != key r0) then
          [verdictViol i "C19.replicas_agree" (Json.mkObj [("h", fld j "h"), ("kinds", fld j "kinds"), ("replicas", fld j "replicas")])] else []) ++
        (if (fld rs "heightBefore") != (fld rs "heightAfter") || (fld rs "commitBefore") != (fld rs "commitAfter") then
          [verdictViol i "C19.restart" (Json.mkObj [("h", fld j "h"), ("restart", rs)])] else [])
      (s, if viols.isEmpty then [verdictOk i] else viols)
  | some "stats" => (s, [])
  | _ => (s, [verdictBad i "unknown t"])

def run (prop : String) : IO Unit := do
  let stdin ← IO.getStdin
  let stdout ← IO.getStdout
  let _ := prop
  loop stdin stdout handle {} 0

end Elys.Drv.C19
