-- DRIVER-PROPS: C20
/- history-mode handler for C20: tradeshield orders, escrow balances, owner-only control, trigger condition. -/
import ElysModel.Drv.Hist
import ElysModel.Ids.Model
import ElysModel.Ledger.Orders
import ElysModel.Num.Dec
open Lean
namespace Elys.Drv.OrdersH
open Elys.Orders

/-- a pending order as observed: key = 2·id (spot) or 2·id+1 (perpetual) -/
structure Ord where
  key : Nat
  spot : Bool
  id : Nat
  owner : String
  denom : String
  amount : Int
  escrow : String
  kind : Kind
  rate : Int
  base : String
  quote : String
deriving Inhabited

structure S where
  prev : List Ord := []
  prevBank : FMap (String × String) := []
  /-- the observation at the end of the previous block (its prices are in force until a feed of this block replaces them) -/
  prevObs : Option Snapshot := none
  started : Bool := false
  deriving Inhabited

def ordersOf (o : Snapshot) : List Ord :=
  (o.spotOrders.map fun s =>
    { key := 2 * s.id, spot := true, id := s.id, owner := s.owner, denom := s.denom, amount := s.amount, escrow := s.escrow,
      kind := (if s.typ == 0 then Kind.stopLoss else if s.typ == 1 then Kind.limitSell else Kind.limitBuy), rate := s.rate, base := s.base, quote := s.quote }) ++
  (o.perpOrders.map fun p =>
    { key := 2 * p.id + 1, spot := false, id := p.id, owner := p.owner, denom := p.denom, amount := p.amount, escrow := p.escrow,
      kind := (if p.long then Kind.perpLong else Kind.perpShort), rate := p.rate, base := "", quote := "" })

/-- the market price the execution compares with the order's rate, as coded -/
def marketOf (o : Snapshot) (ord : Ord) : Int :=
  if ord.spot then
    let pin := o.denomPrices.get ord.base; let pout := o.denomPrices.get ord.quote
    if pout == 0 then 0 else Dec.quo pin pout
  else o.perpAtom

/-- the observation `o` with the ATOM price replaced by `atomRaw` (the price one feed transaction carries): the per-base-unit
denom price is `price.Quo(10^decimals)` with six decimals, the perpetual keeper's price is the asset price itself. -/
def withAtom (o : Snapshot) (atomRaw : Int) : Snapshot :=
  { o with denomPrices := FMap.set o.denomPrices "uatom" (Dec.quo atomRaw (1000000 * P)), perpAtom := atomRaw }

/-- the prices in force when transaction number `k` of the block ran: those of the last successful feed before it in this block,
else those at the end of the previous block. -/
def pricesAt (pre : Snapshot) (txs : List TxObs) (k : Nat) : Snapshot :=
  match ((txs.take k).filter (fun t => t.kind == "oracle.feed" && t.code == 0)).getLast? with
  | some t => match fInt? t.f "ATOM" with
    | some a => withAtom pre a
    | none => pre
  | none => pre

def handle (s : S) (i : Nat) (j : Json) : S × List Json :=
  match fStr? j "t" with
  | some "hist.begin" =>
    let o := Snapshot.parse (fld j "obs")
    ({ prev := ordersOf o, prevBank := o.bank, prevObs := some o, started := true }, [verdictOk i])
  | some "hist.step" =>
    if !s.started then (s, [verdictBad i "hist.step before hist.begin"]) else
    let st := parseStep j
    if st.failed then (s, [verdictOk i]) else
    let cur := ordersOf st.obs
    let okTx (kinds : List String) (spot : Bool) (id : Nat) : Bool :=
      st.txs.any (fun t => t.code == 0 && kinds.contains t.kind && ((fInt? t.f "id").getD (-1)).toNat == id && (t.kind.startsWith "ts.spot") == spot)
    -- the batch forms of cancel name several orders in one message (`ids`, with the stored owner of each in `owners`)
    let batchIds (t : TxObs) : List Nat := ((fld t.f "ids").getArr?.toOption.getD #[]).toList.map (fun x => ((jInt? x).getD (-1)).toNat)
    let inBatch (spot : Bool) (id : Nat) : Bool :=
      st.txs.any (fun t => t.code == 0 && t.kind == (if spot then "ts.spotCancelMany" else "ts.perpCancelMany") && (batchIds t).contains id)
    -- the price an execution compares with is the one in force when its ts.execute ran: a feed may come before, between or after the
    -- execution requests of a block. An order named by successful requests that ran under different prices is not judged.
    let idxd := (List.range st.txs.length).zip st.txs
    let namesOrder (t : TxObs) (ord : Ord) : Bool :=
      t.kind == "ts.execute" && t.code == 0 &&
        (((fld t.f (if ord.spot then "spot" else "perp")).getArr?.toOption.getD #[]).toList.any (fun x => ((jInt? x).getD (-1)).toNat == ord.id))
    let marketAt (ord : Ord) : Option Int :=
      match s.prevObs with
      | none => none
      | some pre =>
        let ms := (idxd.filter (fun (_, t) => namesOrder t ord)).map (fun (k, _) => marketOf (pricesAt pre st.txs k) ord)
        match ms with
        | [] => none
        | m :: rest => if rest.all (· == m) then some m else none
    let feedAfterExecute : Bool := false
    -- 1. model replay per previously pending order: which op explains what happened to it
    let perOrder := s.prev.map fun ord =>
      let still := cur.any (fun c => c.key == ord.key)
      let cancelled := okTx ["ts.spotCancel", "ts.perpCancel"] ord.spot ord.id || inBatch ord.spot ord.id
      let m0 : St := { pending := [(ord.key, 1)], amount := [(ord.key, ord.amount)], escrow := [(ord.key, s.prevBank.get (ord.escrow, ord.denom))],
                       owner := [(ord.key, ord.owner)] }
      -- an owner's update earlier in the same block changes the rate the execution compares with
      let rate := match (st.txs.filter (fun t => t.code == 0 && ["ts.spotUpdate", "ts.perpUpdate"].contains t.kind &&
                    ((fInt? t.f "id").getD (-1)).toNat == ord.id && (t.kind.startsWith "ts.spot") == ord.spot)).getLast? with
                  | some t => (fInt? t.f "rate").getD ord.rate
                  | none => ord.rate
      let ord := { ord with rate := rate }
      -- the price an execution compared with is the one in force when ts.execute ran; when a feed follows it in the same
      -- block that price is not in the observation (W: the witnessed outcome stands, the trigger clause is not judged)
      let market := (marketAt ord).getD ord.rate   -- not judged (`rate` triggers every kind) when the price in force is not determined
      let op : Option Op :=
        if cancelled then some (.cancel ord.key ord.owner)
        else if !still then some (.execute ord.key ord.kind market ord.rate true 0 true)
        else none
      let m1 := match op with | some o => stepTx m0 o | none => m0
      (ord, still, cancelled, market, m0, m1)
    let escrowNow (ord : Ord) : Int := st.obs.bank.get (ord.escrow, ord.denom)
    -- correspondence: the model's pending flag and escrow balance after the explaining op = observed (donations aside)
    let diffs := perOrder.filterMap fun (ord, still, cancelled, _, _, m1) =>
      let donated := (st.txs.filter (fun t => t.kind == "bank.donate" && t.code == 0)).foldl (fun a t =>
        a + (t.moves.filter (fun m => m.dst == ord.escrow && m.denom == ord.denom)).foldl (fun b m => b + m.amt) 0) 0
      if (m1.pending.get ord.key == 1) != still then
        some (verdictDiff i "order.pending" (Json.mkObj [("order", ord.key), ("val", mkInt (m1.pending.get ord.key))]) (Json.mkObj [("stillPending", still), ("cancelled", cancelled)]))
      else if still && m1.escrow.get ord.key + donated != escrowNow ord then
        some (verdictDiff i "order.escrow" (Json.mkObj [("order", ord.key), ("val", mkInt (m1.escrow.get ord.key + donated))]) (Json.mkObj [("val", mkInt (escrowNow ord))]))
      else none
    -- the id model's invariant on the observed state: every pending order's id is below the counter (C20.order_ids_never_reused)
    let diffs := diffs ++
      (if !Ids.boundedNextB st.obs.spotIdCount (st.obs.spotOrders.map (·.id)) then
        [verdictDiff i "spotOrderIdCounter" (Json.mkObj [("invariant", "every pending id < counter")])
          (Json.mkObj [("counter", Json.num st.obs.spotIdCount), ("ids", Json.arr ((st.obs.spotOrders.map (fun p => Json.num p.id)).toArray))])] else []) ++
      (if !Ids.boundedNextB st.obs.perpOrderIdCount (st.obs.perpOrders.map (·.id)) then
        [verdictDiff i "perpOrderIdCounter" (Json.mkObj [("invariant", "every pending id < counter")])
          (Json.mkObj [("counter", Json.num st.obs.perpOrderIdCount), ("ids", Json.arr ((st.obs.perpOrders.map (fun p => Json.num p.id)).toArray))])] else [])
    -- 2. property predicates on the observation
    let viols :=
      -- every pending order's escrow still holds its amount
      (match cur.find? (fun o => escrowNow o < o.amount) with
       | some o => [verdictViol i "C20.escrow_holds" (Json.mkObj [("spot", o.spot), ("id", o.id), ("owner", o.owner), ("orderAmount", mkInt o.amount), ("escrowBalance", mkInt (escrowNow o))])]
       | none => []) ++
      -- owner only: a successful update / cancel must be signed by the owner
      (match st.txs.find? (fun t => t.code == 0 && ["ts.spotCancel", "ts.spotUpdate", "ts.perpCancel", "ts.perpUpdate"].contains t.kind &&
            (fStr? t.f "signer") != (fStr? t.f "owner")) with
       | some t => [verdictViol i "C20.owner_only" (Json.mkObj [("kind", t.kind), ("id", fld t.f "id"), ("owner", fld t.f "owner"), ("signer", fld t.f "signer")])]
       | none => []) ++
      -- owner only, batch forms: a successful batch cancel must be signed by the stored owner of EVERY order it names
      (match st.txs.find? (fun t => t.code == 0 && ["ts.spotCancelMany", "ts.perpCancelMany"].contains t.kind &&
            (((fld t.f "owners").getArr?.toOption.getD #[]).toList.any (fun o => o.getStr?.toOption != (fStr? t.f "signer")))) with
       | some t => [verdictViol i "C20.owner_only" (Json.mkObj [("kind", t.kind), ("ids", fld t.f "ids"), ("owners", fld t.f "owners"), ("signer", fld t.f "signer")])]
       | none => []) ++
      -- trigger: an order that disappeared without a cancel was executed, so its trigger must hold at the block's price
      (if feedAfterExecute then [] else
       match perOrder.find? (fun (ord, still, cancelled, market, _, _) => !still && !cancelled && !triggered ord.kind market ord.rate) with
       | some (ord, _, _, market, _, _) => [verdictViol i "C20.trigger" (Json.mkObj [("spot", ord.spot), ("id", ord.id), ("kind", reprStr ord.kind), ("market", mkInt market), ("rate", mkInt ord.rate)])]
       | none => []) ++
      -- cancel returns the full escrow
      -- (what third parties sent straight to the escrow address, before or in this block - possibly after the cancel -, is not
      -- the order's money: only a remainder that donations cannot explain counts)
      (match perOrder.find? (fun (ord, _, cancelled, _, _, _) =>
          let donatedNow := (st.txs.filter (fun t => t.kind == "bank.donate" && t.code == 0)).foldl (fun a t =>
            a + (t.moves.filter (fun m => m.dst == ord.escrow && m.denom == ord.denom)).foldl (fun b m => b + m.amt) 0) 0
          let surplusBefore := max 0 (s.prevBank.get (ord.escrow, ord.denom) - ord.amount)
          cancelled && escrowNow ord > donatedNow + surplusBefore) with
       | some (ord, _, _, _, _, _) => [verdictViol i "C20.cancel_returns_all" (Json.mkObj [("spot", ord.spot), ("id", ord.id), ("leftInEscrow", mkInt (escrowNow ord))])]
       | none => [])
    let vs := diffs ++ viols
    ({ s with prev := cur, prevBank := st.obs.bank, prevObs := some st.obs }, if vs.isEmpty then [verdictOk i] else vs)
  | some "stats" => (s, [])
  | _ => (s, [verdictBad i "unknown t"])

def run (prop : String) : IO Unit := do
  let stdin ← IO.getStdin
  let stdout ← IO.getStdout
  let _ := prop
  loop stdin stdout handle {} 0

end Elys.Drv.OrdersH
