-- DRIVER-PROPS: C04
/- handler for C04 request lines (harness/c04.go): each request's sender/recipient deltas must be "settled exactly as
requested within the limit" or "nothing"; the queue must be empty after every block; the batch-loop model replayed with the
observed success flags must write exactly the executed requests and end empty. -/
import ElysModel.Drv.Util
import ElysModel.Batch.Model
open Lean
namespace Elys.Drv.C04
open Elys.Batch

structure S where
  reqs : List (Req × Bool) := []     -- requests accepted in the current block, with "was executed"
  deriving Inhabited

def balOf (j : Json) (d : String) : Int := ((fld j d).getStr?.toOption.bind String.toInt?).getD 0

def denomsOf (a b : Json) : List String :=
  let ks (j : Json) : List String := match j.getObj? with | .ok o => o.toList.map (·.1) | .error _ => []
  (ks a ++ ks b).eraseDups

def handle (s : S) (i : Nat) (j : Json) : S × List Json :=
  match fStr? j "t" with
  | some "c04.begin" => (s, [verdictOk i])
  | some "c04.blockfail" => ({ reqs := [] }, [verdictOk i])
  | some "c04.req" =>
    let kind := (fStr? j "kind").getD ""
    let dIn := (fStr? j "denomIn").getD ""; let dOut := (fStr? j "denomOut").getD ""
    match fInt? j "amountIn", fInt? j "amountOut", fInt? j "code" with
    | some aIn, some aOut, some code =>
      let same := (fBool? j "recipientSame").getD true
      let sb := fld (fld j "sender") "before"; let sa := fld (fld j "sender") "after"
      let rb := fld (fld j "recipient") "before"; let ra := fld (fld j "recipient") "after"
      let dS (d : String) : Int := balOf sa d - balOf sb d
      let dR (d : String) : Int := if same then 0 else balOf ra d - balOf rb d
      let net (d : String) : Int := dS d + dR d
      let ds := (denomsOf sb sa ++ denomsOf rb ra).eraseDups
      let others := ds.filter (fun d => d != dIn && d != dOut)
      let othersMoved := others.filter (fun d => dS d != 0 || dR d != 0)
      let unchanged := ds.all (fun d => dS d == 0 && dR d == 0)
      let debited := - (dS dIn)          -- what left the sender in the input denom
      let credited := if same then dS dOut else dR dOut
      let executed := !unchanged
      let detail := Json.mkObj [("kind", kind), ("hops", fld j "hops"), ("denomIn", dIn), ("denomOut", dOut), ("amountIn", mkInt aIn), ("amountOut", mkInt aOut),
        ("recipientSame", same), ("code", mkInt code), ("senderDebited", mkInt debited), ("recipientCredited", mkInt credited),
        ("otherDenomsMoved", Json.arr (othersMoved.map (fun (d : String) => Json.mkObj [("denom", Json.str d), ("sender", mkInt (dS d)), ("recipient", mkInt (dR d))])).toArray),
        ("senderGotOutDenom", mkInt (if same then 0 else dS dOut)), ("recipientGotInDenom", mkInt (dR dIn))]
      let viols : List Json :=
        if code != 0 then
          (if unchanged then [] else [verdictViol i "C04.refused_no_change" detail])
        else if !executed then []     -- accepted, could not be honoured at execution: nothing changed
        else
          -- besides the stated input and output denoms: the sender may be left with surplus of an intermediate denom of its
          -- own multi-hop route (it paid for it), but must never be DEBITED another denom, and a distinct recipient must
          -- receive nothing but the output denom
          (if others.any (fun d => dS d < 0 || dR d != 0) || (!same && (dS dOut < 0 || dR dIn != 0)) then [verdictViol i "C04.only_stated_denoms" detail] else []) ++
          (if kind == "in" then
            (if debited != aIn then [verdictViol i "C04.exact_in_debit" detail] else []) ++
            (if credited < aOut then [verdictViol i "C04.exact_in_min_out" detail] else [])
           else
            (if debited > aIn || debited < 0 then [verdictViol i "C04.exact_out_debit" detail] else []) ++
            (if credited < aOut then [verdictViol i "C04.exact_out_credit" detail] else []))
      let _ := net
      let rq : Req := { id := s.reqs.length + 1, key := dIn ++ "/" ++ (fld j "pools").compress ++ "/" ++ dOut, rkey := dOut ++ "/" ++ (fld j "pools").compress ++ "/" ++ dIn }
      let s' := if code == 0 then { s with reqs := s.reqs ++ [(rq, executed)] } else s
      (s', if viols.isEmpty then [verdictOk i] else viols)
    | _, _, _ => (s, [verdictBad i "c04.req fields"])
  | some "c04.block" =>
    -- model replay: `apply` succeeds exactly for the requests observed as executed
    let q := s.reqs.map (·.1)
    let okIds := (s.reqs.filter (·.2)).map (·.1.id)
    let apply : List Nat → Req → Option (List Nat) := fun st r => if okIds.contains r.id then some (st ++ [r.id]) else none
    let (_, qEnd, written) := execute apply (fun _ _ => 0) [] q
    let queueAfter := (fInt? j "queueAfter").getD (-1)
    let diffs :=
      (if qEnd.length != queueAfter.toNat then [verdictDiff i "queue length after the batch" (mkInt qEnd.length) (mkInt queueAfter)] else []) ++
      (if written.mergeSort != okIds.mergeSort then [verdictDiff i "requests written by the batch" (Json.arr (written.map (fun (n : Nat) => mkInt n)).toArray) (Json.arr (okIds.map (fun (n : Nat) => mkInt n)).toArray)] else [])
    let viols := if queueAfter != 0 then [verdictViol i "C04.no_linger" (Json.mkObj [("queueAfter", mkInt queueAfter), ("block", fld j "block")])] else []
    let vs := diffs ++ viols
    ({ reqs := [] }, if vs.isEmpty then [verdictOk i] else vs)
  | some "stats" => (s, [])
  | _ => (s, [verdictBad i "unknown t"])

def run (prop : String) : IO Unit := do
  let stdin ← IO.getStdin
  let stdout ← IO.getStdout
  let _ := prop
  loop stdin stdout handle {} 0

end Elys.Drv.C04
