-- DRIVER-PROPS: C13
/- history-mode handler for C13: masterchef module balance vs everything credited and not yet claimed. -/
import ElysModel.Drv.Hist
import ElysModel.Rewards.Model
open Lean
namespace Elys.Drv.RewardsH
open Elys.Rewards

structure S where
  mc : String := ""
  sinks : List String := []            -- module accounts and the protocol revenue address
  model : List (String × St) := []     -- per reward denom
  started : Bool := false
  prevBank : FMap (String × String) := []   -- bank balances after the previous block (a denom first tracked now starts from what the module already held)
  deriving Inhabited

def shareDenom (p : Nat) : String := if p == 32767 then "stablestake/share" else "amm/pool/" ++ toString p

/-- Σ over pools with reward denom `d` and over every account that holds committed shares or a reward record -/
def owedOf (o : Snapshot) (d : String) : Int :=
  (o.rewardPools.filter (fun rp => rp.denom == d)).foldl (fun acc rp =>
    let sd := shareDenom rp.pool
    let holders := ((o.committed.filter (fun c => c.1.2 == sd)).map (·.1.1) ++
                    (o.rewards.filter (fun r => r.pool == rp.pool && r.denom == d)).map (·.user)).eraseDups
    holders.foldl (fun a u =>
      let r := o.rewards.find? (fun r => r.user == u && r.pool == rp.pool && r.denom == d)
      let pending := (r.map (·.pending)).getD 0
      let debt := (r.map (·.debt)).getD 0
      a + claimable pending rp.acc (o.committed.get (u, sd)) debt) acc) 0

def denoms (o : Snapshot) : List String := ((o.rewardPools.map (·.denom)).eraseDups).filter (fun d => d != "ueden" && d != "uedenb")

/-- every denom that is a reward denom of some pool now, or was tracked before (an incentive is funded before its denom is listed) -/
def project (mc : String) (o : Snapshot) (prev : List (String × St)) : List (String × St) :=
  let ds := (denoms o ++ prev.map (fun e => e.1)).eraseDups
  ds.map fun d => (d, { bal := o.bank.get (mc, d), owed := owedOf o d,
                        reserved := ((prev.find? (fun e => e.1 == d)).map (·.2.reserved)).getD 0 })

def handle (s : S) (i : Nat) (j : Json) : S × List Json :=
  match fStr? j "t" with
  | some "hist.begin" =>
    let names := parseNames j
    let mc := addrOf names "mod:masterchef"
    let o0 := Snapshot.parse (fld j "obs")
    ({ mc := mc, sinks := (names.filter (fun p => p.2.startsWith "mod:" || p.2 == "protocolRevenue")).map (·.1), model := project mc o0 [], started := true, prevBank := o0.bank }, [verdictOk i])
  | some "hist.step" =>
    if !s.started then (s, [verdictBad i "hist.step before hist.begin"]) else
    let st := parseStep j
    if st.failed then ({ s with prevBank := st.obs.bank }, [verdictOk i]) else
    let funded := (st.txs.filter (fun t => t.kind == "mc.externalIncentive" && t.code == 0)).flatMap
      (fun t => (t.moves.filter (fun m => m.kind == "send" && m.dst == s.mc)).map (·.denom))
    let ds := (denoms st.obs ++ s.model.map (·.1) ++ funded).eraseDups
    let sumMoves (ms : List Move) (d : String) (toMc : Bool) : Int :=
      (ms.filter (fun m => m.kind == "send" && m.denom == d && (if toMc then m.dst == s.mc else m.src == s.mc))).foldl (fun a m => a + m.amt) 0
    let res := ds.map fun d =>
      let m0 : St := ((s.model.find? (fun e => e.1 == d)).map (·.2)).getD { bal := s.prevBank.get (s.mc, d) }
      let fund := (st.txs.filter (fun t => t.kind == "mc.externalIncentive" && t.code == 0)).foldl (fun a t => a + sumMoves t.moves d true) 0
      let txIn := st.txs.foldl (fun a t => a + sumMoves t.moves d true) 0
      let rev := txIn - fund + sumMoves st.beginMoves d true + sumMoves st.endMoves d true
      -- what leaves the module for stakers / provider / protocol vs what is paid to claimers (also in begin-block liquidations)
      let allMoves := st.beginMoves ++ st.txs.flatMap (·.moves) ++ st.endMoves
      let fromMc := allMoves.filter (fun m => m.kind == "send" && m.denom == d && m.src == s.mc)
      let out := (fromMc.filter (fun m => s.sinks.contains m.dst)).foldl (fun a m => a + m.amt) 0
      let paid := (fromMc.filter (fun m => !s.sinks.contains m.dst)).foldl (fun a m => a + m.amt) 0
      let owed' := owedOf st.obs d
      let x := owed' - m0.owed + paid * P
      let creditC := if x ≤ 0 then 0 else min x (max 0 ((rev - out) * P))
      let creditI := if x ≤ 0 then 0 else x - creditC
      let dec := if x ≤ 0 then paid * P - x else paid * P
      let ops : List Op := [.fundIncentive fund, .collect rev out creditC] ++ (if creditI > 0 then [.creditIncentive creditI] else []) ++ [.claim paid dec]
      let (m1, rejected) := ops.foldl (fun (acc : St × List String) op =>
        match step acc.1 op with
        | .ok s' => (s', acc.2)
        | .error e => (acc.1, (d ++ ": " ++ reprStr op ++ " -> " ++ reprStr e) :: acc.2)) (m0, [])
      (d, m1, rejected)
    let o := project s.mc st.obs (res.map (fun r => (r.1, r.2.1)))
    let rejected := res.flatMap (·.2.2)
    let diffs :=
      (if rejected.isEmpty then [] else [verdictDiff i "the block's reward flows are not a solvency-preserving step of the ledger model" (Json.arr (rejected.map Json.str).toArray) .null]) ++
      (match res.find? (fun r => rejected.isEmpty && (r.2.1.bal != (((o.find? (fun e => e.1 == r.1)).map (·.2.bal)).getD 0))) with
       | some r => [verdictDiff i "masterchefBalance" (Json.mkObj [("denom", r.1), ("val", mkInt r.2.1.bal)]) (Json.mkObj [("val", mkInt (((o.find? (fun e => e.1 == r.1)).map (·.2.bal)).getD 0))])]
       | none => [])
    -- the list of reward denoms the hooks walk is the model's function of (base currency, Eden switch, external denoms)
    let diffs := diffs ++ (match st.obs.rewardDenomLists.find? (fun l => rewardDenoms l.base l.edenOn l.ext != l.keys) with
       | some l => [verdictDiff i "rewardDenoms" (Json.mkObj [("pool", Json.num l.pool), ("keys", Json.arr ((rewardDenoms l.base l.edenOn l.ext).map Json.str).toArray)])
                      (Json.mkObj [("keys", Json.arr (l.keys.map Json.str).toArray)])]
       | none => [])
    let viols :=
      -- "the total credited for a block never exceeds what was collected or funded for that block"
      (if rejected.any (fun r => (r.splitOn "overCredit").length > 1 || (r.splitOn "noReserve").length > 1) then
        [verdictViol i "C13.block_credit" (Json.mkObj [("rejectedSteps", Json.arr (rejected.map Json.str).toArray)])] else []) ++
      (match o.find? (fun e => !solventB { e.2 with reserved := 0 }) with
      | some e => [verdictViol i "C13.solvent" (Json.mkObj [("denom", e.1), ("moduleBalance", mkInt e.2.bal), ("creditedUnclaimedRaw", mkInt e.2.owed),
                     ("shortfallTokens", mkInt ((e.2.owed - e.2.bal * P + P - 1) / P))])]
      | none => [])
    let vs := diffs ++ viols
    ({ s with model := o, prevBank := st.obs.bank }, if vs.isEmpty then [verdictOk i] else vs)
  | some "stats" => (s, [])
  | _ => (s, [verdictBad i "unknown t"])

def run (prop : String) : IO Unit := do
  let stdin ← IO.getStdin
  let stdout ← IO.getStdout
  let _ := prop
  loop stdin stdout handle {} 0

end Elys.Drv.RewardsH
