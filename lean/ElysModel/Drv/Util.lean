/- line-protocol helpers shared by the per-property driver handlers. Core-only (Lean.Data.Json). -/
import Lean.Data.Json
open Lean
namespace Elys.Drv

/-- integers travel as decimal strings (or JSON numbers for small ones). -/
def jInt? (j : Json) : Option Int :=
  match j with
  | .str s => s.toInt?
  | .num n => if n.exponent = 0 then some n.mantissa else none
  | _ => none

def fld (j : Json) (k : String) : Json := (j.getObjVal? k).toOption.getD .null

def fInt? (j : Json) (k : String) : Option Int := jInt? (fld j k)
def fStr? (j : Json) (k : String) : Option String := (fld j k).getStr?.toOption
def fBool? (j : Json) (k : String) : Option Bool := (fld j k).getBool?.toOption
def fArr? (j : Json) (k : String) : Option (Array Json) := (fld j k).getArr?.toOption

def jIntList? (j : Json) : Option (List Int) := do
  let a ← j.getArr?.toOption
  a.toList.mapM jInt?

def mkInt (i : Int) : Json := .str (toString i)

def verdictOk (i : Nat) : Json := Json.mkObj [("i", i), ("v", "ok")]
def verdictBad (i : Nat) (why : String) : Json := Json.mkObj [("i", i), ("v", "bad-line"), ("why", why)]
def verdictDiff (i : Nat) (what : String) (model impl : Json) : Json :=
  Json.mkObj [("i", i), ("v", "diff"), ("what", what), ("model", model), ("impl", impl)]
def verdictViol (i : Nat) (clause : String) (detail : Json) : Json :=
  Json.mkObj [("i", i), ("v", "viol"), ("clause", clause), ("detail", detail)]

/-- generic read-eval-print loop over stdin. `f` gets the state, the 0-based line number and the
parsed line; it returns the new state and the verdict lines. -/
partial def loop {σ : Type} (h : IO.FS.Stream) (out : IO.FS.Stream) (f : σ → Nat → Json → σ × List Json)
    (st : σ) (i : Nat) : IO Unit := do
  let line ← h.getLine
  if line.isEmpty then return ()
  let t := line.trimAscii.toString
  if t.isEmpty then loop h out f st (i + 1) else
  match Json.parse t with
  | .error e =>
    out.putStrLn (verdictBad i s!"json: {e}").compress
    loop h out f st (i + 1)
  | .ok j =>
    let (st', vs) := f st i j
    for v in vs do out.putStrLn v.compress
    loop h out f st' (i + 1)

end Elys.Drv
