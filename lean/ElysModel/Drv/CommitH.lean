-- DRIVER-PROPS: C12 C02
/- history-mode handler for C12 and C02: derives the commitment macro-ops of each block from x/bank's own
events and the submitted messages, replays them on the model (ElysModel.Ledger.Commit), compares the model's
books with the observed ones, and evaluates the property predicates on the observed state. -/
import ElysModel.Drv.Hist
import ElysModel.Ledger.Commit
import ElysModel.Drv.C12Lock
open Lean
namespace Elys.Drv.CommitH
open Elys.Commit

structure S where
  lock : Elys.Drv.C12Lock.S := {}
  names : List (String × String) := []
  cmAddr : String := ""
  model : St := {}
  started : Bool := false
  prevLocks : List Lockup := []     -- lock-ups observed at the end of the previous block
  deriving Inhabited

def isShareDenom (d : String) : Bool := d.startsWith "amm/pool/" || d == "stablestake/share"

/-- project an observed snapshot onto the commit-ledger state (ghosts supplied separately). -/
def project (cm : String) (o : Snapshot) (unc burnt : FMap String) : St :=
  { committed := o.committed
    claimed := o.claimed
    total := o.totalCommitted
    custody := (o.bank.filter (fun p => p.1.1 == cm)).map (fun p => (p.1.2, p.2))
    supply := o.supply.filter (fun p => isShareDenom p.1)
    poolShares := o.ammPools.map (fun p => (p.shareDenom, p.shares))
    unc := unc, burnt := burnt }

/-- pending recognition state while scanning the bank moves of a block -/
structure Scan where
  ops : List Op := []                          -- reversed
  pendingMint : List (String × Int) := []      -- (denom, amt) minted, not yet committed

def scanMove (cm : String) (sc : Scan) (m : Move) : Scan :=
  if m.kind == "mint" && isShareDenom m.denom then
    { sc with pendingMint := (m.denom, m.amt) :: sc.pendingMint }
  else if m.kind == "send" && m.dst == cm && isShareDenom m.denom then
    if sc.pendingMint.any (fun p => p.1 == m.denom && p.2 == m.amt) then
      { ops := Op.mintShares m.src m.denom m.amt :: sc.ops,
        pendingMint := sc.pendingMint.eraseP (fun p => p.1 == m.denom && p.2 == m.amt) }
    else { sc with ops := Op.commitLiquid m.src m.denom m.amt :: sc.ops }
  else if m.kind == "send" && m.src == cm && isShareDenom m.denom then
    { sc with ops := Op.uncommit m.dst m.denom m.amt :: sc.ops }
  else if m.kind == "burn" && isShareDenom m.denom then
    -- turn the most recent matching uncommit into the paired burn macro-op
    let rec conv : List Op → List Op
      | [] => []
      | (Op.uncommit a d x) :: t => if d == m.denom && x == m.amt then Op.burnShares a d x :: t else Op.uncommit a d x :: conv t
      | o :: t => o :: conv t
    { sc with ops := conv sc.ops }
  else sc

def txOps (t : TxObs) : List Op :=
  if t.code != 0 then [] else
  let signer := (fStr? t.f "signer").getD ""
  let d := (fStr? t.f "denom").getD ""
  let amt := (fInt? t.f "amt").getD 0
  match t.kind with
  | "cm.commitClaimed" => [Op.commitClaimed signer d amt]
  | "cm.uncommit" => [Op.uncommit signer d amt]
  | _ => []

def denomsOf (s : St) : List String :=
  -- every denom any of the books mentions - including share denoms that exist only as supply or as a pool's total (shares that were
  -- minted and never committed are exactly what C02 is about)
  ((s.total.map (·.1)) ++ (s.committed.map (·.1.2)) ++ (s.custody.map (·.1)) ++
   ((s.supply.map (·.1)) ++ (s.poolShares.map (·.1))).filter (fun d => d.startsWith "amm/pool/")).eraseDups

def cmpMap {κ : Type} [DecidableEq κ] [ToString κ] (i : Nat) (what : String) (model impl : FMap κ) (keys : List κ) : List Json :=
  match keys.find? (fun k => model.get k != impl.get k) with
  | some k => [verdictDiff i what (Json.mkObj [("key", toString k), ("val", mkInt (model.get k))]) (Json.mkObj [("key", toString k), ("val", mkInt (impl.get k))])]
  | none => []

def handle (prop : String) (s : S) (i : Nat) (j : Json) : S × List Json :=
  match fStr? j "t" with
  | some "hist.begin" =>
    let names := parseNames j
    let cm := addrOf names "mod:commitment"
    let o := Snapshot.parse (fld j "obs")
    -- ghosts start from what the seeded world already carries: deviation attributed to `unc`
    let st0 := project cm o [] []
    let unc0 : FMap String := (denomsOf st0).filterMap fun d =>
      let dev := st0.total.get d - sumCommitted st0 d
      if dev != 0 then some (d, dev / 2) else none
    ({ names := names, cmAddr := cm, model := { st0 with unc := unc0 }, started := true, prevLocks := o.lockups }, [verdictOk i])
  | some "hist.step" =>
    if !s.started then (s, [verdictBad i "hist.step before hist.begin"]) else
    let st := parseStep j
    if st.failed then (s, [verdictOk i]) else   -- block failure is C18's business
    let cm := s.cmAddr
    -- 1. ops of this block, in execution order
    let sc0 : Scan := {}
    let sc1 := st.beginMoves.foldl (scanMove cm) sc0
    let sc2 := st.txs.foldl (fun sc t => let sc' := { sc with ops := (txOps t).reverse ++ sc.ops }; t.moves.foldl (scanMove cm) sc') sc1
    let sc3 := st.endMoves.foldl (scanMove cm) sc2
    let ops := sc3.ops.reverse
    -- 2. model replay; a step the model rejects is a disagreement
    let (m1, rejected) := ops.foldl (fun (acc : St × List String) op =>
      match step acc.1 op with
      | .ok s' => (s', acc.2)
      | .error e =>
        -- the claimed bucket of the virtual denoms is W (see step 3): rewards claimed earlier in the SAME block (masterchef /
        -- estaking claims, begin-block credits) are not in the previous observation, so a commit of claimed Eden that the
        -- implementation performed is replayed after crediting the shortfall
        let retry : Option St := match op with
          | .commitClaimed a d amt =>
            if isVirtual d && amt ≥ 0 && acc.1.claimed.get (a, d) < amt then
              match claimedDelta acc.1 a d (amt - acc.1.claimed.get (a, d)) with
              | .ok s1 => (match step s1 op with | .ok s2 => some s2 | .error _ => none)
              | .error _ => none
            else none
          | _ => none
        match retry with
        | some s2 => (s2, acc.2)
        | none => (acc.1, (reprStr op ++ " -> " ++ reprStr e) :: acc.2)) (s.model, [])
    -- 3. W: claimed-bucket bookkeeping of virtual denoms and EdenB burns are taken from the observation
    let o := project cm st.obs m1.unc m1.burnt
    let claimedKeys := ((m1.claimed.map (·.1)) ++ (o.claimed.map (·.1))).eraseDups
    let m2 := claimedKeys.foldl (fun (m : St) k =>
      let dlt := o.claimed.get k - m.claimed.get k
      if dlt != 0 && isVirtual k.2 then (match claimedDelta m k.1 k.2 dlt with | .ok m' => m' | .error _ => m) else m) m1
    let committedKeys := ((m2.committed.map (·.1)) ++ (o.committed.map (·.1))).eraseDups
    let m3 := committedKeys.foldl (fun (m : St) k =>
      let c2 := m.committed.get k - o.committed.get k
      if k.2 == "uedenb" && c2 > 0 then
        { m with committed := m.committed.add k (-c2), burnt := m.burnt.add k.2 c2 }
      else m) m2
    -- 4. correspondence on the books this model owns
    let ds := (denomsOf m3 ++ denomsOf o).eraseDups
    let diffs :=
      (if rejected.isEmpty then [] else [verdictDiff i "model rejects an op the implementation performed" (Json.arr (rejected.map Json.str).toArray) .null]) ++
      cmpMap i "committed" m3.committed o.committed committedKeys ++
      cmpMap i "totalCommitted" m3.total o.total ds ++
      cmpMap i "custody" m3.custody o.custody (ds.filter (fun d => isShareDenom d)) ++
      cmpMap i "claimed(bank-backed)" m3.claimed o.claimed (claimedKeys.filter (fun k => !isVirtual k.2)) ++
      cmpMap i "shareSupply" m3.supply o.supply (ds.filter (fun d => d.startsWith "amm/pool/")) ++
      cmpMap i "poolTotalShares" m3.poolShares o.poolShares (ds.filter (fun d => d.startsWith "amm/pool/"))
    -- 5. property predicates on the OBSERVED state (ghosts from the replay)
    let og := { o with unc := m3.unc, burnt := m3.burnt }
    let viols12 : List Json :=
      (match ds.find? (fun d => !totalEqSumB og d) with
       | some d => [verdictViol i "C12.total_eq_sum" (Json.mkObj [("denom", d), ("total", mkInt (og.total.get d)), ("sum", mkInt (sumCommitted og d)),
                      ("asCoded", totalAsCodedB og d), ("uncommittedSoFar", mkInt (og.unc.get d)), ("burntSoFar", mkInt (og.burnt.get d))])]
       | none => []) ++
      (match ds.find? (fun d => !totalEqSumB og d && !totalAsCodedB og d) with
       | some d => [verdictViol i "C12.total_eq_sum" (Json.mkObj [("denom", d), ("total", mkInt (og.total.get d)), ("sum", mkInt (sumCommitted og d)),
                      ("asCoded", false), ("uncommittedSoFar", mkInt (og.unc.get d)), ("burntSoFar", mkInt (og.burnt.get d))])]
       | none => []) ++
      (match ds.find? (fun d => !custodyB og d) with
       | some d => [verdictViol i "C12.custody" (Json.mkObj [("denom", d), ("custody", mkInt (og.custody.get d)), ("committed", mkInt (sumCommitted og d)), ("claimed", mkInt (sumClaimed og d))])]
       | none => []) ++
      (match og.committed.find? (fun p => p.2 < 0) with
       | some p => [verdictViol i "C12.no_overdraw" (Json.mkObj [("addr", p.1.1), ("denom", p.1.2), ("committed", mkInt p.2)])]
       | none => []) ++
      -- a lock that has not expired at this block's time is still there, unless a LIQUIDATION took the tokens: the account's shares
      -- left it in begin-block (the sweep) or in a third party's close-positions message - never in a message of its own owner
      (let now := st.obs.time
       let due (ls : List Lockup) (a d : String) : Int := (ls.filter (fun l => l.addr == a && l.denom == d && l.unlock > now)).foldl (fun x l => x + l.amount) 0
       let keys := (s.prevLocks.filter (fun l => l.unlock > now)).map (fun l => (l.addr, l.denom)) |>.eraseDups
       let touchedBy (ms : List Move) (a : String) : Bool := ms.any (fun m => m.src == a || m.dst == a)
       let liquidated (a : String) : Bool :=
         touchedBy st.beginMoves a || touchedBy st.endMoves a ||
         st.txs.any (fun t => (t.kind == "lp.closePositions" || t.kind == "perp.closePositions") && touchedBy t.moves a)
       match keys.find? (fun k => due st.obs.lockups k.1 k.2 < due s.prevLocks k.1 k.2 && !liquidated k.1) with
       | some k => [verdictViol i "C12.lock_kept" (Json.mkObj [("addr", k.1), ("denom", k.2), ("lockedBefore", mkInt (due s.prevLocks k.1 k.2)),
                      ("lockedNow", mkInt (due st.obs.lockups k.1 k.2)), ("time", mkInt now),
                      ("txs", Json.arr ((st.txs.filter (fun t => touchedBy t.moves k.1)).map (fun t => Json.str t.kind)).toArray)])]
       | none => [])
    -- every commit of oracle-pool shares is recorded as a lock-up: an account whose only dealings with a share denom in this block are
    -- successful joins of an oracle pool has, afterwards, at least as much under unexpired locks as before plus what the joins minted
    let viols12 := viols12 ++
      (let now := st.obs.time
       let due (ls : List Lockup) (a d : String) : Int := (ls.filter (fun l => l.addr == a && l.denom == d && l.unlock > now)).foldl (fun x l => x + l.amount) 0
       let joins := st.txs.filter (fun t => t.kind == "amm.join" && t.code == 0)
       let cand := (joins.filterMap fun t =>
         let pid := ((fInt? t.f "pool").getD 0).toNat
         match st.obs.ammPools.find? (fun p => p.id == pid && p.oracle) with
         | some p => some ((fStr? t.f "signer").getD "", p.shareDenom)
         | none => none).eraseDups
       let others (a d : String) : Bool :=
         -- anything else that moved this share denom for this account in the block (exits, leveraged positions, liquidations) or a
         -- pool whose oracle switch may have been different when the join ran (a governance rewrite in this block's shocks)
         st.txs.any (fun t => !(t.kind == "amm.join") && t.moves.any (fun m => m.denom == d && (m.src == a || m.dst == a))) ||
         (st.beginMoves ++ st.endMoves).any (fun m => m.denom == d && (m.src == a || m.dst == a))
       let minted (a d : String) : Int := joins.foldl (fun x t =>
         if (fStr? t.f "signer").getD "" == a then x + (t.moves.filter (fun m => m.kind == "mint" && m.denom == d)).foldl (fun y m => y + m.amt) 0 else x) 0
       match cand.find? (fun k => !others k.1 k.2 && due st.obs.lockups k.1 k.2 < due s.prevLocks k.1 k.2 + minted k.1 k.2) with
       | some k => [verdictViol i "C12.lock_recorded" (Json.mkObj [("addr", k.1), ("denom", k.2), ("lockedBefore", mkInt (due s.prevLocks k.1 k.2)),
                      ("mintedByJoins", mkInt (minted k.1 k.2)), ("lockedNow", mkInt (due st.obs.lockups k.1 k.2)), ("time", mkInt now)])]
       | none => [])
    let viols02 : List Json :=
      (match (ds.filter (fun d => d.startsWith "amm/pool/")).find? (fun d => !sharesB og d) with
       | some d => [verdictViol i "C02.shares_agree" (Json.mkObj [("denom", d), ("poolTotalShares", mkInt (og.poolShares.get d)), ("supply", mkInt (og.supply.get d)),
                      ("sumCommitted", mkInt (sumCommitted og d)), ("custody", mkInt (og.custody.get d))])]
       | none => [])
    let viols := if prop == "C02" then viols02 else viols12
    let vs := diffs ++ viols
    -- resync the model to the observation (ghosts kept) so that one disagreement is reported once
    ({ s with model := og, prevLocks := st.obs.lockups }, if vs.isEmpty then [verdictOk i] else vs)
  | some "stats" => (s, [])
  | some t =>
    if t.startsWith "c12l." then
      let (l', vs) := Elys.Drv.C12Lock.handle s.lock i j
      ({ s with lock := l' }, vs)
    else (s, [verdictBad i "unknown t"])
  | none => (s, [verdictBad i "unknown t"])

def run (prop : String) : IO Unit := do
  let stdin ← IO.getStdin
  let stdout ← IO.getStdout
  let _ := prop
  loop stdin stdout (handle prop) {} 0

end Elys.Drv.CommitH
