-- DRIVER-PROPS: C08
/- history-mode handler for C08: leveragelp pool / position / committed-share books and the open counter. -/
import ElysModel.Drv.Hist
import ElysModel.Ids.Model
import ElysModel.Ledger.LevLp
open Lean
namespace Elys.Drv.LevLpH
open Elys.LevLp

structure S where
  cmAddr : String := ""
  addrs : List (String × PK) := []    -- position address → (pool, id), accumulated over the history
  model : St := {}
  started : Bool := false
  deriving Inhabited

def addrMap (o : Snapshot) : List (String × PK) := o.levPositions.map (fun p => (p.posAddr, (p.pool, p.id)))

def project (o : Snapshot) (addrs : List (String × PK)) : St :=
  { poolLev := o.levPools
    posLev := o.levPositions.map (fun p => ((p.pool, p.id), p.levLp))
    committed := addrs.filterMap (fun a =>
      let c := o.committed.get (a.1, "amm/pool/" ++ toString a.2.1)
      if c != 0 then some (a.2, c) else none)
    live := o.levPositions.map (fun p => ((p.pool, p.id), 1))
    count := o.levOpenCount }

structure Scan where
  m : St
  pendingMint : List (String × Int) := []
  pendingOut : List (String × String × Int) := []   -- (position address, denom, amt) uncommitted, awaiting the burn
  rejected : List String := []

def apply (sc : Scan) (op : Op) : Scan :=
  match step sc.m op with
  | .ok m' => { sc with m := m' }
  | .error e => { sc with rejected := (reprStr op ++ " -> " ++ reprStr e) :: sc.rejected }

def scanMove (cm : String) (addrs : List (String × PK)) (sc : Scan) (mv : Move) : Scan :=
  let isShare := mv.denom.startsWith "amm/pool/"
  if !isShare then sc else
  if mv.kind == "mint" then { sc with pendingMint := (mv.denom, mv.amt) :: sc.pendingMint }
  else if mv.kind == "send" && mv.dst == cm then
    match addrs.find? (fun a => a.1 == mv.src) with
    | some a =>
      let sc' := { sc with pendingMint := sc.pendingMint.eraseP (fun p => p.1 == mv.denom && p.2 == mv.amt) }
      if sc.m.live.get a.2 == 1 then apply sc' (Op.consolidate a.2.1 a.2.2 mv.amt) else apply sc' (Op.open a.2.1 a.2.2 mv.amt)
    | none => sc
  else if mv.kind == "send" && mv.src == cm then
    match addrs.find? (fun a => a.1 == mv.dst) with
    | some a => apply sc (Op.close a.2.1 a.2.2 mv.amt)
    | none => sc
  else sc

def handle (s : S) (i : Nat) (j : Json) : S × List Json :=
  match fStr? j "t" with
  | some "hist.begin" =>
    let names := parseNames j
    let o := Snapshot.parse (fld j "obs")
    let addrs := addrMap o
    ({ cmAddr := addrOf names "mod:commitment", addrs := addrs, model := project o addrs, started := true }, [verdictOk i])
  | some "hist.step" =>
    if !s.started then (s, [verdictBad i "hist.step before hist.begin"]) else
    let st := parseStep j
    if st.failed then (s, [verdictOk i]) else
    -- a position address is derived from the id alone; after an export / import restart the id of a position closed long ago may be
    -- handed out again (to a position of another pool): what the address means now is what this block's observation says
    let cur := addrMap st.obs
    let addrs := cur ++ s.addrs.filter (fun a => !cur.any (fun b => b.1 == a.1))
    let moves := st.beginMoves ++ st.txs.flatMap (·.moves) ++ st.endMoves
    let sc := moves.foldl (scanMove s.cmAddr addrs) { m := s.model }
    let m1 := sc.m
    let o := project st.obs addrs
    let ks := ((m1.posLev.map (·.1)) ++ (o.posLev.map (·.1)) ++ (m1.committed.map (·.1)) ++ (o.committed.map (·.1))).eraseDups
    let ps := ((m1.poolLev.map (·.1)) ++ (o.poolLev.map (·.1))).eraseDups
    let cmpK (what : String) (a b : FMap PK) : List Json :=
      match ks.find? (fun k => a.get k != b.get k) with
      | some k => [verdictDiff i what (Json.mkObj [("pool", k.1), ("id", k.2), ("val", mkInt (a.get k))]) (Json.mkObj [("val", mkInt (b.get k))])]
      | none => []
    let diffs :=
      (if sc.rejected.isEmpty then [] else [verdictDiff i "model rejects an op the implementation performed" (Json.arr (sc.rejected.map Json.str).toArray) .null]) ++
      cmpK "position.leveragedLp" m1.posLev o.posLev ++ cmpK "committedAtPositionAddress" m1.committed o.committed ++ cmpK "stored" m1.live o.live ++
      (match ps.find? (fun p => m1.poolLev.get p != o.poolLev.get p) with
       | some p => [verdictDiff i "pool.leveragedLp" (Json.mkObj [("pool", p), ("val", mkInt (m1.poolLev.get p))]) (Json.mkObj [("val", mkInt (o.poolLev.get p))])]
       | none => []) ++
      (if m1.count != o.count then [verdictDiff i "openPositionCount" (mkInt m1.count) (mkInt o.count)] else []) ++
      -- the id model's invariant on the observed state: no stored position's id is above the counter (C08.ids_never_reused)
      (if !Ids.boundedLastB st.obs.levIdCount (st.obs.levPositions.map (·.id)) then
        [verdictDiff i "positionIdCounter" (Json.mkObj [("invariant", "every stored id <= counter")])
          (Json.mkObj [("counter", Json.num st.obs.levIdCount), ("ids", Json.arr ((st.obs.levPositions.map (fun p => Json.num p.id)).toArray))])] else [])
    let viols :=
      (match ps.find? (fun p => !poolEqSumB o p) with
       | some p => [verdictViol i "C08.pool_eq_sum" (Json.mkObj [("pool", p), ("poolLeveragedLp", mkInt (o.poolLev.get p)), ("sumOfPositions", mkInt (sumPos o p))])]
       | none => []) ++
      (match ks.find? (fun k => !posEqCommittedB o k) with
       | some k => [verdictViol i "C08.position_eq_committed" (Json.mkObj [("pool", k.1), ("id", k.2), ("positionLeveragedLp", mkInt (o.posLev.get k)),
                     ("committedAtPositionAddress", mkInt (o.committed.get k)), ("stored", mkInt (o.live.get k))])]
       | none => []) ++
      (if !countB o then [verdictViol i "C08.counter" (Json.mkObj [("openCount", mkInt o.count), ("storedPositions", mkInt o.live.total)])] else [])
    let vs := diffs ++ viols
    ({ s with model := o, addrs := addrs }, if vs.isEmpty then [verdictOk i] else vs)
  | some "stats" => (s, [])
  | _ => (s, [verdictBad i "unknown t"])

def run (prop : String) : IO Unit := do
  let stdin ← IO.getStdin
  let stdout ← IO.getStdout
  let _ := prop
  loop stdin stdout handle {} 0

end Elys.Drv.LevLpH
