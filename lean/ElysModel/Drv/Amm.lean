-- DRIVER-PROPS: C03 C05
/- driver handler for the numeric amm properties C03 (swap never beats the reference price) and
C05 (join/exit cannot extract value): recomputes every harness case with the Lean port
(correspondence: result kind, amounts, slippage) and evaluates the property predicates on the
IMPLEMENTATION's outputs with exact integer arithmetic. -/
import ElysModel.Drv.Util
import ElysModel.Amm.Swap
import ElysModel.Amm.Liquidity
import ElysModel.Amm.Oracle
import ElysModel.Amm.SingleSided
open Lean
namespace Elys.Drv.Amm
open Elys Elys.Amm

abbrev S := Unit

def mkInts (l : List Int) : Json := Json.arr (l.map mkInt).toArray
def fInts? (j : Json) (k : String) : Option (List Int) := jIntList? (fld j k)
def jb (b : Bool) : Json := Json.bool b

/-- ⌊a / b⌋ for b > 0 (a may be negative). -/
def floorDiv (a b : Int) : Int := Int.fdiv a b
/-- ⌈a / b⌉ for b > 0. -/
def ceilDiv (a b : Int) : Int := - Int.fdiv (-a) b

def tenP8 : Int := 100000000
def twoPct : Int := 20000000000000000

/-! ### C03 -/

/-- property predicates on the implementation's exact-in result (`out`), equal weights. -/
def outPredicates (i : Nat) (A B amt fee out : Int) : List Json :=
  if ¬ (0 ≤ fee ∧ fee < P ∧ A > 0 ∧ B > 0 ∧ amt > 0) then [] else
  let a' := amt * (P - fee)          -- fee-reduced input as a raw Dec: aP(P−fee)/P, exact
  let post := A * P + a'
  let e := floorDiv (B * a') post    -- ⌊B·a'/(A+a')⌋
  let excess := out - e
  let quoBound := floorDiv B (2 * P) + 2
  -- the bound the 18-digit Quo allows, scaled: out·post·2P² ≤ B·a'·2P² + B·post·P + 2·B·post
  let tightOk := out * post * (2 * P * P) ≤ B * a' * (2 * P * P) + B * post * P + 2 * B * post
  (if excess > 1 ∧ fee ≤ twoPct then
    [verdictViol i "C03.out_le_exact_one_unit" (Json.mkObj [("largeReserve", jb (B > P)), ("withinQuoBound", jb (excess ≤ quoBound)),
      ("excess", mkInt excess), ("exactFloor", mkInt e), ("out", mkInt out), ("reserveOut", mkInt B)])] else []) ++
  (if ¬ tightOk then
    [verdictViol i "C03.out_le_exact" (Json.mkObj [("excess", mkInt excess), ("exactFloor", mkInt e), ("out", mkInt out), ("reserveOut", mkInt B)])] else [])

/-- property predicates on the implementation's exact-out result (`inAmt`), equal weights. -/
def inPredicates (i : Nat) (A B amt fee inAmt : Int) : List Json :=
  if ¬ (0 ≤ fee ∧ fee < P ∧ A > 0 ∧ B > 0 ∧ amt > 0 ∧ amt < B) then [] else
  -- exact input: A·o/(B−o)/(1−fee)
  let num := A * amt * P
  let den := (B - amt) * (P - fee)
  let c := ceilDiv num den
  let deficit := c - inAmt
  let quoBound := floorDiv A (2 * (P - fee)) + 2
  -- the bound the 18-digit Quo allows (scaled by 2·den·P²): see Props/C03.in_ge_exact
  let tightOk := 2 * P * P * inAmt * den + A * P * (B - amt) * (P + 2) + (P + 2) * den ≥ 2 * P * P * num
  (if deficit > 1 ∧ fee ≤ twoPct then
    [verdictViol i "C03.in_ge_exact_one_unit" (Json.mkObj [("largeReserve", jb (A > P)), ("withinQuoBound", jb (deficit ≤ quoBound)),
      ("deficit", mkInt deficit), ("exactCeil", mkInt c), ("in", mkInt inAmt), ("reserveIn", mkInt A)])] else []) ++
  (if ¬ tightOk then
    [verdictViol i "C03.in_ge_exact" (Json.mkObj [("deficit", mkInt deficit), ("exactCeil", mkInt c), ("in", mkInt inAmt), ("reserveIn", mkInt A)])] else [])

def handleSwap (i : Nat) (j : Json) (fn : String) : List Json :=
  match fInt? j "A", fInt? j "B", fInt? j "wIn", fInt? j "wOut", fInt? j "accIn", fInt? j "accOut", fInt? j "amt", fInt? j "fee", fStr? j "res" with
  | some a, some b, some wIn, some wOut, some accIn, some accOut, some amt, some fee, some res =>
    let p : SwapPool := { balIn := a, balOut := b, wIn := wIn, wOut := wOut, accIn := accIn, accOut := accOut }
    let m := if fn == "out" then calcOutGivenIn p amt fee else calcInGivenOut p amt fee
    let mk := kind m
    let iAmt := (fInt? j "amount").getD 0
    let iSlip := (fInt? j "slip").getD 0
    let diffs : List Json :=
      if mk != res then [verdictDiff i "result" (Json.str (mk ++ ":" ++ (match m with | .error e => reprStr e | _ => ""))) (Json.str res)]
      else match m with
        | .ok (mAmt, mSlip) =>
          (if mAmt != iAmt then [verdictDiff i "amount" (mkInt mAmt) (mkInt iAmt)] else []) ++
          (if mSlip != iSlip then [verdictDiff i "slippage" (mkInt mSlip) (mkInt iSlip)] else [])
        | .error _ => []
    let viols : List Json :=
      if res != "ok" then [] else
      let ea := p.effIn
      let eb := p.effOut
      if wIn = wOut then
        (if fn == "out" then outPredicates i ea eb amt fee iAmt else inPredicates i ea eb amt fee iAmt)
      else
        match fInt? j "ref" with
        | none => []
        | some ref =>
          if ¬ (0 ≤ fee ∧ fee ≤ twoPct ∧ ea > 0 ∧ eb > 0) then [] else
          if fn == "out" then
            -- out ≤ ref + 10^-8·B + B/(2·10^18) + 2   (ref is ⌊exact·10^18⌋; the allowance PowSpec gives,
            -- relative to the RESERVE); trades above 1000 x the in-reserve are outside the statement
            (if amt > 1000 * ea ∨ iAmt * P * (2 * tenP8) ≤ (ref + 1) * (2 * tenP8) + 2 * eb * P + eb * tenP8 + 4 * P * tenP8 then [] else
              [verdictViol i "C03.weighted_within_1e8" (Json.mkObj [("fn", "out"), ("out", mkInt iAmt), ("refRaw", mkInt ref), ("reserveOut", mkInt eb)])])
          else
            -- in ≥ ref − 10^-8·(A + in) − A/(2·10^18) − 2
            (if iAmt * P * (2 * tenP8) + 2 * (ea + iAmt) * P + ea * tenP8 + 4 * P * tenP8 ≥ ref * (2 * tenP8) then [] else
              [verdictViol i "C03.weighted_within_1e8" (Json.mkObj [("fn", "in"), ("in", mkInt iAmt), ("refRaw", mkInt ref), ("reserveIn", mkInt ea)])])
    let vs := diffs ++ viols
    if vs.isEmpty then [verdictOk i] else vs
  | _, _, _, _, _, _, _, _, _ => [verdictBad i "c03.case swap fields"]

def handlePow (i : Nat) (j : Json) : List Json :=
  match fInt? j "base", fInt? j "exp", fStr? j "res" with
  | some base, some exp, some res =>
    let m := pow base exp
    let mk := kind m
    let iAmt := (fInt? j "amount").getD 0
    let diffs : List Json :=
      if mk != res then [verdictDiff i "result" (Json.str (mk ++ ":" ++ (match m with | .error e => reprStr e | _ => ""))) (Json.str res)]
      else match m with
        | .ok v => if v != iAmt then [verdictDiff i "pow" (mkInt v) (mkInt iAmt)] else []
        | .error _ => []
    -- PowSpec (tested, not proved): |Pow(y,w) − y^w| ≤ 10^-8 on 0 < y ≤ 1, 0 < w
    let viols : List Json :=
      match fInt? j "ref" with
      | some ref =>
        if res == "ok" ∧ ((iAmt - ref).natAbs : Int) > powPrecision + 1 then
          [verdictViol i "C03.pow_spec" (Json.mkObj [("pow", mkInt iAmt), ("refRaw", mkInt ref), ("base", mkInt base), ("exp", mkInt exp)])] else []
      | none => []
    let vs := diffs ++ viols
    if vs.isEmpty then [verdictOk i] else vs
  | _, _, _ => [verdictBad i "c03.case pow fields"]

/-! ### C03, oracle pools -/

def parseOAsset (j : Json) : Option OAsset :=
  match jIntList? j with
  | some [amount, weight, ext, price, acc, snap] =>
    some { amount := amount, weight := weight, ext := ext, price := price, acc := acc, snap := snap }
  | _ => none

def handleOracle (i : Nat) (j : Json) (fn : String) : List Json :=
  match parseOAsset (fld j "a0"), parseOAsset (fld j "a1"), fInt? j "iIn", fInt? j "amt", fInt? j "fee", fInts? j "params", fStr? j "res" with
  | some a0, some a1, some iIn, some amt, some fee, some [ex, mu, po, th, pf], some res =>
    let p : OPool := { a0 := a0, a1 := a1 }
    let pr : OParams := { exponent := ex, multiplier := mu, portion := po, threshold := th, perpFactor := pf }
    let ii := iIn.toNat
    let m := if fn == "oout" then oSwapOut p ii amt fee pr else oSwapIn p ii amt fee pr
    let mk := kind m
    let iAmt := (fInt? j "amount").getD 0
    let diffs : List Json :=
      if mk != res then [verdictDiff i "result" (Json.str (mk ++ ":" ++ (match m with | .error e => reprStr e | _ => ""))) (Json.str res)]
      else match m with
        | .ok r =>
          cmpI "amount" r.amount iAmt ++ cmpI "slippage" r.slippage ((fInt? j "slip").getD 0) ++
          cmpI "slippageAmount" r.slippageAmount ((fInt? j "slipAmt").getD 0) ++ cmpI "bonus" r.bonus ((fInt? j "bonus").getD 0) ++
          cmpI "oracleAmount" r.oracleAmount ((fInt? j "oracleAmt").getD 0)
        | .error _ => []
    -- what the pool pays out is never worth more, at the oracle prices, than what the trader pays in
    let ai := p.get ii
    let ao := p.get (1 - ii)
    let sane := 0 ≤ fee ∧ fee < P ∧ 0 ≤ mu ∧ 0 ≤ pf ∧ pf ≤ P ∧ ao.ext > 0 ∧ ai.price > 0 ∧ ao.price > 0 ∧ amt ≥ 0
    let viols : List Json :=
      if res != "ok" ∨ ¬ sane then [] else
      if fn == "oout" then
        -- out·p_out ≤ in·p_in + p_out/(2·10^18)
        (if 2 * P * iAmt * ao.price ≤ 2 * P * amt * ai.price + ao.price then [] else
          [verdictViol i "C03.oracle_value" (Json.mkObj [("out", mkInt iAmt), ("in", mkInt amt), ("priceIn", mkInt ai.price), ("priceOut", mkInt ao.price)])])
      else
        -- in·p_in ≥ out·p_out − p_in·(1/2 + 10^-18)/10^18
        (if 2 * P * P * iAmt * ai.price + ai.price * (P + 2) ≥ 2 * P * P * amt * ao.price then [] else
          [verdictViol i "C03.oracle_in_value" (Json.mkObj [("in", mkInt iAmt), ("out", mkInt amt), ("priceIn", mkInt ai.price), ("priceOut", mkInt ao.price)])])
    let vs := diffs ++ viols
    if vs.isEmpty then [verdictOk i] else vs
  | _, _, _, _, _, _, _ => [verdictBad i "c03.case oracle fields"]
where
  cmpI (what : String) (m impl : Int) : List Json :=
    if m != impl then [verdictDiff i what (mkInt m) (mkInt impl)] else []

/-! ### C05 -/

def allLe (l r : List Int) : Bool := (List.zipWith (fun a b => decide (a ≤ b)) l r).all id

/-- `s·Bᵢ ≤ jᵢ·S` for every asset. -/
def joinFair (bals joined : List Int) (S minted : Int) : Bool :=
  (List.zipWith (fun b jn => decide (minted * b ≤ jn * S)) bals joined).all id
/-- `oᵢ·S ≤ x·Bᵢ` for every asset. -/
def exitFair (bals outs : List Int) (S x : Int) : Bool :=
  (List.zipWith (fun b o => decide (o * S ≤ x * b)) bals outs).all id
/-- `oᵢ < Bᵢ` (for assets the pool holds) and `x < S`. -/
def neverEmpty (bals outs : List Int) (S x : Int) : Bool :=
  (List.zipWith (fun b o => decide (o < b ∨ (b = 0 ∧ o = 0))) bals outs).all id && decide (x < S)

def cmpList (i : Nat) (what : String) (m impl : List Int) : List Json :=
  if m != impl then [verdictDiff i what (mkInts m) (mkInts impl)] else []
def cmpInt (i : Nat) (what : String) (m impl : Int) : List Json :=
  if m != impl then [verdictDiff i what (mkInt m) (mkInt impl)] else []

def errStr {α} (m : Except Err α) : String := kind m ++ ":" ++ (match m with | .error e => reprStr e | _ => "")

def detail5 (bals : List Int) (S : Int) (xs : List (String × Json)) : Json :=
  Json.mkObj ([("bals", mkInts bals), ("S", mkInt S)] ++ xs)

def handleLp (i : Nat) (j : Json) : List Json :=
  match fStr? j "fn", fInts? j "bals", fInt? j "S", fStr? j "res" with
  | some fn, some bals, some sTot, some res =>
    let ok := res == "ok"
    let x := (fInt? j "x").getD 0
    let deps := (fInts? j "deps").getD []
    let iOuts := (fInts? j "outs").getD []
    let iJoined := (fInts? j "joined").getD []
    let iNeeded := (fInts? j "needed").getD []
    let iMinted := (fInt? j "minted").getD 0
    let iNewBals := (fInts? j "newBals").getD []
    let iNewS := (fInt? j "newS").getD 0
    let kdiff (mk : String) : List Json := if mk != res then [verdictDiff i "result" (Json.str mk) (Json.str res)] else []
    let vs : List Json :=
      match fn with
      | "exit" =>
        let m := exitPool bals sTot x
        (if kind m != res then kdiff (errStr m) else
          match m with
          | .ok (outs, nb, ns) => cmpList i "outs" outs iOuts ++ cmpList i "newBals" nb iNewBals ++ cmpInt i "newS" ns iNewS
          | .error _ => []) ++
        (if ok ∧ x > 0 then
          (if exitFair bals iOuts sTot x then [] else [verdictViol i "C05.exit_fair" (detail5 bals sTot [("x", mkInt x), ("outs", mkInts iOuts)])]) ++
          (if neverEmpty bals iOuts sTot x then [] else [verdictViol i "C05.never_empty" (detail5 bals sTot [("x", mkInt x), ("outs", mkInts iOuts)])])
         else [])
      | "calcexit" =>
        let m := calcExit bals sTot x
        (if kind m != res then kdiff (errStr m) else
          match m with
          | .ok outs => cmpList i "outs" outs iOuts
          | .error _ => []) ++
        (if ok ∧ x > 0 then
          (if exitFair bals iOuts sTot x then [] else [verdictViol i "C05.exit_fair" (detail5 bals sTot [("x", mkInt x), ("outs", mkInts iOuts)])]) ++
          (if neverEmpty bals iOuts sTot x then [] else [verdictViol i "C05.never_empty" (detail5 bals sTot [("x", mkInt x), ("outs", mkInts iOuts)])])
         else [])
      | "join" =>
        let m := joinPoolAll bals sTot deps
        (if kind m != res then kdiff (errStr m) else
          match m with
          | .ok (jn, sh, nb, ns) => cmpList i "joined" jn iJoined ++ cmpInt i "minted" sh iMinted ++ cmpList i "newBals" nb iNewBals ++ cmpInt i "newS" ns iNewS
          | .error _ => []) ++
        (if ok then
          (if joinFair bals iJoined sTot iMinted ∧ allLe iJoined deps then [] else
            [verdictViol i "C05.join_fair" (detail5 bals sTot [("deps", mkInts deps), ("joined", mkInts iJoined), ("minted", mkInt iMinted)])])
         else [])
      | "calcjoin" =>
        let m := calcJoinNoSwap bals sTot deps
        (if kind m != res then kdiff (errStr m) else
          match m with
          | .ok (sh, jn) => cmpList i "joined" jn iJoined ++ cmpInt i "minted" sh iMinted
          | .error _ => []) ++
        (if ok then
          (if joinFair bals iJoined sTot iMinted ∧ allLe iJoined deps then [] else
            [verdictViol i "C05.join_fair" (detail5 bals sTot [("deps", mkInts deps), ("joined", mkInts iJoined), ("minted", mkInt iMinted)])])
         else [])
      | "needed" =>
        let m := maximalNoSwapLP bals sTot x
        (if kind m != res then kdiff (errStr m) else
          match m with
          | .ok nd => cmpList i "needed" nd iNeeded
          | .error _ => [])
      | "noswap" =>
        let m : Except Err (List Int × List Int × Int × List Int × Int) := do
          let nd ← maximalNoSwapLP bals sTot x
          if (nd.filter (· ≠ 0)).length = 1 then .error .badArgs
          else
            let (jn, sh, nb, ns) ← joinPoolAll bals sTot nd
            pure (nd, jn, sh, nb, ns)
        (if kind m != res then kdiff (errStr m) else
          match m with
          | .ok (nd, jn, sh, nb, ns) =>
            cmpList i "needed" nd iNeeded ++ cmpList i "joined" jn iJoined ++ cmpInt i "minted" sh iMinted ++ cmpList i "newBals" nb iNewBals ++ cmpInt i "newS" ns iNewS
          | .error _ => []) ++
        (if ok then
          (if joinFair bals iJoined sTot iMinted ∧ allLe iJoined iNeeded then [] else
            [verdictViol i "C05.join_fair" (detail5 bals sTot [("wanted", mkInt x), ("joined", mkInts iJoined), ("minted", mkInt iMinted)])])
         else [])
      | "roundtrip" =>
        let m : Except Err (List Int × Int × List Int × List Int × Int) := do
          let (jn, sh, nb, ns) ← joinPoolAll bals sTot deps
          let (outs, nb2, ns2) ← exitPool nb ns sh
          pure (jn, sh, outs, nb2, ns2)
        (if kind m != res then kdiff (errStr m) else
          match m with
          | .ok (jn, sh, outs, nb, ns) =>
            cmpList i "joined" jn iJoined ++ cmpInt i "minted" sh iMinted ++ cmpList i "outs" outs iOuts ++ cmpList i "newBals" nb iNewBals ++ cmpInt i "newS" ns iNewS
          | .error _ => []) ++
        (if ok then
          let midBals := List.zipWith (· + ·) bals iJoined
          let midS := sTot + iMinted
          (if joinFair bals iJoined sTot iMinted ∧ allLe iJoined deps then [] else
            [verdictViol i "C05.join_fair" (detail5 bals sTot [("deps", mkInts deps), ("joined", mkInts iJoined), ("minted", mkInt iMinted)])]) ++
          (if exitFair midBals iOuts midS iMinted then [] else
            [verdictViol i "C05.exit_fair" (detail5 midBals midS [("x", mkInt iMinted), ("outs", mkInts iOuts)])]) ++
          (if neverEmpty midBals iOuts midS iMinted then [] else
            [verdictViol i "C05.never_empty" (detail5 midBals midS [("x", mkInt iMinted), ("outs", mkInts iOuts)])]) ++
          (if allLe iOuts iJoined then [] else
            [verdictViol i "C05.round_trip" (detail5 bals sTot [("deps", mkInts deps), ("joined", mkInts iJoined), ("minted", mkInt iMinted), ("outs", mkInts iOuts)])])
         else [])
      | _ => [verdictBad i "c05.case fn"]
    if vs.isEmpty then [verdictOk i] else vs
  | _, _, _, _ => [verdictBad i "c05.case fields"]

/-- non-oracle single-asset join. -/
def handleSingleJoin (i : Nat) (j : Json) : List Json :=
  match fInts? j "bals", fInts? j "ws", fInt? j "totalW", fInt? j "S", fInt? j "i", fInt? j "amt", fInt? j "fee", fStr? j "res" with
  | some bals, some ws, some totalW, some sTot, some idx, some amt, some fee, some res =>
    let m := singleJoin bals ws totalW sTot idx.toNat amt fee
    let iMinted := (fInt? j "minted").getD 0
    let diffs : List Json :=
      if kind m != res then [verdictDiff i "result" (Json.str (errStr m)) (Json.str res)]
      else match m with
        | .ok (sh, slip, nb, ns) =>
          cmpInt i "minted" sh iMinted ++ cmpInt i "slippage" slip ((fInt? j "slip").getD 0) ++
          cmpList i "newBals" nb ((fInts? j "newBals").getD []) ++ cmpInt i "newS" ns ((fInt? j "newS").getD 0)
        | .error _ => []
    -- minted ≤ S·((1 + a'/B)^w − 1) + 10^-8·(S + minted) + S/(2·10^18) + 2   (ref = ⌊exact·10^18⌋; PowSpec-style allowance)
    let viols : List Json :=
      match fInt? j "ref" with
      | some ref =>
        if res == "ok" ∧ 0 ≤ fee ∧ fee ≤ twoPct ∧
            ¬ (iMinted * P * (2 * tenP8) ≤ (ref + 1) * (2 * tenP8) + 2 * (sTot + iMinted) * P + sTot * tenP8 + 4 * P * tenP8) then
          [verdictViol i "C05.single_join_within_1e8" (Json.mkObj [("minted", mkInt iMinted), ("refRaw", mkInt ref), ("S", mkInt sTot)])]
        else []
      | none => []
    let vs := diffs ++ viols
    if vs.isEmpty then [verdictOk i] else vs
  | _, _, _, _, _, _, _, _ => [verdictBad i "c05.case sjoin fields"]

/-- oracle pool single-sided join / exit. -/
def handleOracleLp (i : Nat) (j : Json) (fn : String) : List Json :=
  match parseOAsset (fld j "a0"), parseOAsset (fld j "a1"), fInt? j "S", fInt? j "i", fInt? j "amt", fInts? j "params", fStr? j "res" with
  | some a0, some a1, some sTot, some idx, some amt, some [ex, mu, po, th, pf], some res =>
    let p : OPool := { a0 := a0, a1 := a1 }
    let pr : OParams := { exponent := ex, multiplier := mu, portion := po, threshold := th, perpFactor := pf }
    let ii := idx.toNat
    let iNewBals := (fInts? j "newBals").getD []
    let iNewS := (fInt? j "newS").getD 0
    let iBonus := (fInt? j "bonus").getD 0
    let ax := p.get ii
    let sane := 0 ≤ mu ∧ ax.price > 0 ∧ sTot > 0 ∧ amt ≥ 0
    if fn == "ojoin" then
      let m := oJoin p sTot ii amt pr
      let iMinted := (fInt? j "minted").getD 0
      let diffs : List Json :=
        if kind m != res then [verdictDiff i "result" (Json.str (errStr m)) (Json.str res)]
        else match m with
          | .ok r => cmpInt i "minted" r.shares iMinted ++ cmpInt i "bonus" r.bonus iBonus ++ cmpList i "newBals" r.newBals iNewBals ++ cmpInt i "newS" r.newS iNewS
          | .error _ => []
      -- shares minted are worth at most the deposit at the pool's TVL, up to the RoundInt half unit:
      -- minted·tvl ≤ S·joinValue + tvl·(1/2 + 10^-18)
      let viols : List Json :=
        match tvl [a0, a1] with
        | .ok t =>
          if res == "ok" ∧ sane ∧ ¬ (2 * P * iMinted * t ≤ 2 * P * sTot * (amt * ax.price) + t * (P + 2)) then
            [verdictViol i "C05.oracle_join_value" (Json.mkObj [("minted", mkInt iMinted), ("S", mkInt sTot), ("tvl", mkInt t), ("amt", mkInt amt), ("price", mkInt ax.price)])]
          else []
        | .error _ => []
      let vs := diffs ++ viols
      if vs.isEmpty then [verdictOk i] else vs
    else
      let m := oExit p sTot ii amt pr
      let iOut := (fInt? j "out").getD 0
      let diffs : List Json :=
        if kind m != res then [verdictDiff i "result" (Json.str (errStr m)) (Json.str res)]
        else match m with
          | .ok r => cmpInt i "out" r.out iOut ++ cmpInt i "bonus" r.bonus iBonus ++ cmpList i "newBals" r.newBals iNewBals ++ cmpInt i "newS" r.newS iNewS
          | .error _ => []
      let viols : List Json :=
        if res != "ok" ∨ ¬ sane ∨ amt ≤ 0 then [] else
        -- the payout is worth at most the exiting shares' claim on the TVL, up to the rounding allowance:
        -- out·price ≤ x·tvl/S + 1/2 + price·(1/2 + 10^-18)
        (match tvl [a0, a1] with
        | .ok t =>
          if ¬ (2 * P * iOut * ax.price * sTot ≤ 2 * P * amt * t + P * sTot + ax.price * sTot * (P + 2)) then
            [verdictViol i "C05.oracle_exit_value" (Json.mkObj [("out", mkInt iOut), ("x", mkInt amt), ("S", mkInt sTot), ("tvl", mkInt t), ("price", mkInt ax.price)])]
          else []
        | .error _ => []) ++
        -- never empty: the payout stays below the BOOK balance, and the book follows the payout
        (if iOut < ax.amount ∧ amt < sTot ∧ iNewBals.getD ii 0 = ax.amount - iOut then [] else
          [verdictViol i "C05.oracle_exit_never_empty" (Json.mkObj [("out", mkInt iOut), ("bookBalance", mkInt ax.amount),
            ("newBookBalance", mkInt (iNewBals.getD ii 0)), ("outEqualsBalance", jb (iOut = ax.amount)),
            ("bookUnchanged", jb (iNewBals.getD ii 0 = ax.amount))])])
      let vs := diffs ++ viols
      if vs.isEmpty then [verdictOk i] else vs
  | _, _, _, _, _, _, _ => [verdictBad i "c05.case oracle fields"]

def handleC05 (i : Nat) (j : Json) : List Json :=
  match fStr? j "fn" with
  | some "sjoin" => handleSingleJoin i j
  | some "ojoin" => handleOracleLp i j "ojoin"
  | some "oexit" => handleOracleLp i j "oexit"
  | _ => handleLp i j

def handle (s : S) (i : Nat) (j : Json) : S × List Json :=
  match fStr? j "t" with
  | some "c03.case" =>
    match fStr? j "fn" with
    | some "out" => (s, handleSwap i j "out")
    | some "in" => (s, handleSwap i j "in")
    | some "pow" => (s, handlePow i j)
    | some "oout" => (s, handleOracle i j "oout")
    | some "oin" => (s, handleOracle i j "oin")
    | _ => (s, [verdictBad i "c03.case fn"])
  | some "c05.case" => (s, handleC05 i j)
  | some "stats" => (s, [])
  | _ => (s, [verdictBad i "unknown t"])

def run (prop : String) : IO Unit := do
  let stdin ← IO.getStdin
  let stdout ← IO.getStdout
  let _ := prop
  loop stdin stdout handle () 0

end Elys.Drv.Amm
