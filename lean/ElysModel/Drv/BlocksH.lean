-- DRIVER-PROPS: C18
/- history-mode handler for C18: a block that returns an error or panics is a violation; the model's prediction for the
observed environment (standard wiring: every guaranteed condition holds) is `ok`, so a failure is also a disagreement. -/
import ElysModel.Drv.Hist
import ElysModel.Blocks.Model
open Lean
namespace Elys.Drv.BlocksH
open Elys.Blocks

structure S where
  started : Bool := false
  redistribute : String := ""     -- cons_redistribute module account
  distribution : String := ""     -- distribution module account
  deriving Inhabited

def mkInts (l : List Int) : Json := Json.arr (l.map mkInt).toArray

def decPairs (j : Json) : List (String × Int) :=
  ((j.getArr?.toOption.getD #[]).toList).filterMap fun p =>
    match p.getArr?.toOption with
    | some a => if a.size = 2 then some (a[0]!.getStr?.toOption.getD "", (jInt? a[1]!).getD 0) else none
    | none => none

def lookup (l : List (String × Int)) (d : String) : Int := ((l.find? (fun p => p.1 == d)).map (·.2)).getD 0

/-- correspondence of the begin-block fee allocation for the base currency: from the community tax and the validators' tokens the
block started from and the fees moved out of the redistribution account, the model's loop (`allocate`, truncated fractions) must
succeed, and the reward it gives each validator must be the one x/distribution's own `rewards` events report, in order -/
def feeAllocation (s : S) (i : Nat) (j : Json) : List Json :=
  let pre := fld j "distrPre"
  if pre == .null then [] else
  let usdc := (fStr? pre "usdc").getD ""
  let fees := ((parseMoves (fld j "beginMoves")).filter (fun m => m.kind == "send" && m.src == s.redistribute && m.dst == s.distribution && m.denom == usdc)).foldl (fun a m => a + m.amt) 0
  if fees ≤ 0 then [] else
  let ts := ((fld pre "valTokens").getArr?.toOption.getD #[]).toList.map (fun x => (jInt? x).getD 0)
  let T := sumL ts
  let rep := P - (fInt? pre "tax").getD 0
  let model := (ts.map (fun t => valReward (fees * P) rep (fracTrunc t T))).filter (· != 0)
  let impl := (((fld j "beginRewards").getArr?.toOption.getD #[]).toList.filterMap fun r =>
    match r.getArr?.toOption with
    | some a => if a.size = 3 && a[1]!.getStr?.toOption.getD "" == usdc then some ((jInt? a[2]!).getD 0) else none
    | none => none)
  let info := Json.mkObj [("rewards", mkInts model), ("fees", mkInt fees), ("T", mkInt T), ("rep", mkInt rep)]
  match allocate fracTrunc (fees * P) rep T ts (fees * P) with
  | .ok _ => if model == impl then [] else [verdictDiff i "feeAllocation" info (Json.mkObj [("rewards", mkInts impl)])]
  | .error _ => [verdictDiff i "feeAllocation" (Json.str "the allocation loop goes negative") (Json.mkObj [("rewards", mkInts impl)])]

def handle (s : S) (i : Nat) (j : Json) : S × List Json :=
  match fStr? j "t" with
  | some "hist.begin" =>
    let names := parseNames j
    ({ started := true, redistribute := addrOf names "mod:cons_redistribute", distribution := addrOf names "mod:distribution" }, [verdictOk i])
  | some "hist.step" =>
    let failed := (fld j "blockErr") != .null || (fld j "blockPanic") != .null
    -- the environment the harness builds: usdc entry, valid revenue address, non-zero blocks per year; fee conversions may fail
    let env : Env := { usdcEntry := true, revenueAddrValid := true, blocksPerYearNonzero := true, conversionFails := true,
                       bankSendFails := false, edenPriceZero := false, edenAllocs := [] }
    let predictedOk := match endBlockOutcome true env with | .ok _ => true | .error _ => false
    if failed then
      (s, (if predictedOk then [verdictDiff i "block processing" (Json.str "ok") (Json.mkObj [("blockErr", fld j "blockErr"), ("blockPanic", fld j "blockPanic")])] else []) ++
          [verdictViol i "C18.block_ok" (Json.mkObj [("h", fld j "h"), ("blockErr", fld j "blockErr"), ("blockPanic", fld j "blockPanic"),
            ("txs", Json.arr (((fld j "txs").getArr?.toOption.getD #[]).map (fun t => fld t "kind"))),
            ("shocks", fld j "shocks"), ("lastShock", ((fld j "shocks").getArr?.toOption.getD #[]).back?.getD .null)])])
    else
      let ds := feeAllocation s i j
      (s, if ds.isEmpty then [verdictOk i] else ds)
  | some "stats" => (s, [])
  | _ => (s, [verdictBad i "unknown t"])

def run (prop : String) : IO Unit := do
  let stdin ← IO.getStdin
  let stdout ← IO.getStdout
  let _ := prop
  loop stdin stdout handle {} 0

end Elys.Drv.BlocksH
