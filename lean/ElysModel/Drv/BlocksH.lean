-- DRIVER-PROPS: C18
/- history-mode handler for C18: a block that returns an error or panics is a violation; the model's prediction for the
observed environment (standard wiring: every guaranteed condition holds) is `ok`, so a failure is also a disagreement. -/
import ElysModel.Drv.Hist
import ElysModel.Blocks.Model
open Lean
namespace Elys.Drv.BlocksH
open Elys.Blocks

structure S where
  started : Bool := false
  deriving Inhabited

def handle (s : S) (i : Nat) (j : Json) : S × List Json :=
  match fStr? j "t" with
  | some "hist.begin" => ({ started := true }, [verdictOk i])
  | some "hist.step" =>
    let failed := (fld j "blockErr") != .null || (fld j "blockPanic") != .null
    -- the environment the harness builds: usdc entry, valid revenue address, non-zero blocks per year; fee conversions may fail
    let env : Env := { usdcEntry := true, revenueAddrValid := true, blocksPerYearNonzero := true, conversionFails := true,
                       bankSendFails := false, edenPriceZero := false, edenAllocs := [] }
    let predictedOk := match endBlockOutcome true env with | .ok _ => true | .error _ => false
    if failed then
      (s, (if predictedOk then [verdictDiff i "block processing" (Json.str "ok") (Json.mkObj [("blockErr", fld j "blockErr"), ("blockPanic", fld j "blockPanic")])] else []) ++
          [verdictViol i "C18.block_ok" (Json.mkObj [("h", fld j "h"), ("blockErr", fld j "blockErr"), ("blockPanic", fld j "blockPanic"),
            ("txs", Json.arr (((fld j "txs").getArr?.toOption.getD #[]).map (fun t => fld t "kind"))),
            ("shocks", fld j "shocks"), ("lastShock", ((fld j "shocks").getArr?.toOption.getD #[]).back?.getD .null)])])
    else (s, [verdictOk i])
  | some "stats" => (s, [])
  | _ => (s, [verdictBad i "unknown t"])

def run (prop : String) : IO Unit := do
  let stdin ← IO.getStdin
  let stdout ← IO.getStdout
  let _ := prop
  loop stdin stdout handle {} 0

end Elys.Drv.BlocksH
