-- DRIVER-PROPS: C09
/- history-mode handler for C09: perpetual pool aggregates vs positions, counter, custody backing. -/
import ElysModel.Drv.Hist
import ElysModel.Ids.Model
import ElysModel.Ledger.Perp
open Lean
namespace Elys.Drv.PerpH
open Elys.Perp

structure S where
  model : St := {}
  started : Bool := false
  deriving Inhabited

def mtpFields (m : MtpObs) : List (MK × Int) :=
  [((m.id, (m.pool, m.long, m.custodyAsset, 0)), m.custody),
   ((m.id, (m.pool, m.long, m.liabAsset, 1)), m.liab),
   ((m.id, (m.pool, m.long, m.collateralAsset, 2)), m.collateral)]

def project (o : Snapshot) : St :=
  { agg := o.perpPools.flatMap (fun p =>
      (p.long.flatMap (fun a => [((p.id, true, a.denom, 0), a.custody), ((p.id, true, a.denom, 1), a.liab), ((p.id, true, a.denom, 2), a.collateral)])) ++
      (p.short.flatMap (fun a => [((p.id, false, a.denom, 0), a.custody), ((p.id, false, a.denom, 1), a.liab), ((p.id, false, a.denom, 2), a.collateral)])))
    pos := (o.mtps.flatMap mtpFields).filter (fun e => e.2 != 0)
    live := o.mtps.map (fun m => (m.id, 1))
    count := o.perpOpenCount
    book := o.ammPools.flatMap (fun p => p.assets.map (fun a => ((p.id, a.1), a.2))) }

def handle (s : S) (i : Nat) (j : Json) : S × List Json :=
  match fStr? j "t" with
  | some "hist.begin" => ({ model := project (Snapshot.parse (fld j "obs")), started := true }, [verdictOk i])
  | some "hist.step" =>
    if !s.started then (s, [verdictBad i "hist.step before hist.begin"]) else
    let st := parseStep j
    if st.failed then (s, [verdictOk i]) else
    let o := project st.obs
    let m0 := s.model
    -- W: the block's macro-op is reconstructed from the positions' own field changes; the pool aggregates are then PREDICTED
    let newIds := (o.live.map (·.1)).filter (fun id => m0.live.get id != 1)
    let goneIds := (m0.live.filter (fun e => e.2 == 1)).map (·.1) |>.filter (fun id => o.live.get id != 1)
    let keys := ((m0.pos.map (·.1)) ++ (o.pos.map (·.1))).eraseDups
    let ops : List Op :=
      newIds.map Op.openMtp ++
      keys.filterMap (fun mk => let d := o.pos.get mk - m0.pos.get mk; if d != 0 then some (Op.upd mk.1 mk.2 d) else none) ++
      goneIds.map Op.destroy
    let (m1, rejected) := ops.foldl (fun (acc : St × List String) op =>
      match step acc.1 op with
      | .ok s' => (s', acc.2)
      | .error e => (acc.1, (reprStr op ++ " -> " ++ reprStr e) :: acc.2)) (m0, [])
    let aks := ((m1.agg.map (·.1)) ++ (o.agg.map (·.1))).eraseDups
    let kJson (k : K) : Json := Json.mkObj [("pool", k.1), ("long", k.2.1), ("denom", k.2.2.1), ("field", (["custody", "liabilities", "collateral"].getD k.2.2.2 "?"))]
    let diffs :=
      (if rejected.isEmpty then [] else [verdictDiff i "model rejects an op the implementation performed" (Json.arr (rejected.map Json.str).toArray) .null]) ++
      (match aks.find? (fun k => m1.agg.get k != o.agg.get k) with
       | some k => [verdictDiff i "poolAggregate" (Json.mkObj [("key", kJson k), ("val", mkInt (m1.agg.get k))]) (Json.mkObj [("val", mkInt (o.agg.get k))])]
       | none => []) ++
      (if m1.count != o.count then [verdictDiff i "openMtpCount" (mkInt m1.count) (mkInt o.count)] else []) ++
      -- the id model's invariant on the observed state: no stored position's id is above the counter (C09.ids_never_reused)
      (if !Ids.boundedLastB st.obs.perpIdCount (st.obs.mtps.map (·.id)) then
        [verdictDiff i "mtpIdCounter" (Json.mkObj [("invariant", "every stored id <= counter")])
          (Json.mkObj [("counter", Json.num st.obs.perpIdCount), ("ids", Json.arr ((st.obs.mtps.map (fun p => Json.num p.id)).toArray))])] else [])
    let viols :=
      (match aks.find? (fun k => !aggEqSumB o k) with
       | some k => [verdictViol i "C09.aggregates_eq_sum" (Json.mkObj [("key", kJson k), ("poolRecord", mkInt (o.agg.get k)), ("sumOfPositions", mkInt (sumLive o k))])]
       | none => []) ++
      (if !countB o then [verdictViol i "C09.counter" (Json.mkObj [("openCount", mkInt o.count), ("storedPositions", mkInt o.live.total)])] else []) ++
      (match (st.obs.perpPools.flatMap (fun p => p.long.map (fun a => (p.id, a.denom)))).find? (fun pd => !backedB o pd.1 pd.2) with
       | some pd => [verdictViol i "C09.custody_backed" (Json.mkObj [("pool", pd.1), ("denom", pd.2), ("custody", mkInt (custodyTotal o pd.1 pd.2)), ("ammBook", mkInt (o.book.get pd))])]
       | none => [])
    let vs := diffs ++ viols
    ({ s with model := o }, if vs.isEmpty then [verdictOk i] else vs)
  | some "stats" => (s, [])
  | _ => (s, [verdictBad i "unknown t"])

def run (prop : String) : IO Unit := do
  let stdin ← IO.getStdin
  let stdout ← IO.getStdout
  let _ := prop
  loop stdin stdout handle {} 0

end Elys.Drv.PerpH
