-- DRIVER-PROPS: C14
/- driver handler for C14 (vesting): replays op sequences on the model, compares with the
implementation's observations, and evaluates the property predicates on the observations. -/
import ElysModel.Drv.Util
import ElysModel.Vesting.Model
open Lean
namespace Elys.Drv.C14
open Elys.Vesting

structure S where
  model : St := default
  /-- ghosts accumulated from the IMPLEMENTATION's outputs -/
  iReleased : Int := 0
  iVestedIn : Int := 0
  iReturned : Int := 0
  maxV : Int := 0
  fixed : Bool := true
  /-- the implementation's entries as last observed -/
  iPrev : List Entry := []
  deriving Inhabited

def entryJson (e : Entry) : Json := Json.arr #[mkInt e.total, mkInt e.claimed, mkInt e.start, mkInt e.num]
def entriesJson (es : List Entry) : Json := Json.arr (es.map entryJson).toArray

def parseEntries (j : Json) : Option (List Entry) := do
  let a ← j.getArr?.toOption
  a.toList.mapM fun x => do
    let l ← jIntList? x
    match l with
    | [t, c, s, n] => some { total := t, claimed := c, start := s, num := n }
    | _ => none

def remainingB : List Entry → Int
  | [] => 0
  | e :: es => (e.total - e.claimed) + remainingB es

/-- the linear block schedule, stated without the model: ⌊total · min(h − start, num) / num⌋. -/
def scheduleAt (e : Entry) (h : Int) : Int :=
  let tb := h - e.start
  let tb := if tb > e.num then e.num else tb
  (e.total * tb).tdiv e.num

/-- after a successful claim at height `h` an entry that is still stored has released what the schedule says — or, when a partial
cancel has shrunk its total below what it had released already, what it had released before. -/
def offSchedule (prev : List Entry) (h : Int) (e : Entry) : Bool :=
  if e.num == 0 then false else
  let sched := scheduleAt e h
  let before := (prev.filter (fun p => p.total == e.total && p.start == e.start && p.num == e.num)).foldl (fun m p => max m p.claimed) sched
  e.claimed < sched || e.claimed > before

def errName : Except Err α → String
  | .ok _ => "ok"
  | .error .panicNegCoin => "panic"
  | .error .panicDivZero => "panic"
  | .error _ => "fail"

def handle (s : S) (i : Nat) (j : Json) : S × List Json :=
  match fStr? j "t" with
  | some "c14.begin" =>
    match fInt? j "eden", fInt? j "maxv" with
    | some eden, some maxv =>
      ({ model := init eden, maxV := maxv, fixed := (fBool? j "fixed").getD true, iPrev := [] }, [verdictOk i])
    | _, _ => (s, [verdictBad i "c14.begin fields"])
  | some "c14.op" =>
    let op := (fStr? j "op").getD ""
    let res := (fStr? j "res").getD ""
    let after := fld j "after"
    match parseEntries (fld after "entries"), fInt? after "eden", fInt? after "paid" with
    | some iEntries, some iEden, some iPaid =>
      -- model step
      let (mres, mstate, mpaid) : String × St × Int :=
        match op with
        | "vest" =>
          match fInt? j "amt", fInt? j "h", fInt? j "num" with
          | some amt, some h, some num =>
            let r := vest s.model amt h num s.maxV
            (errName r, (r.toOption.getD s.model), 0)
          | _, _, _ => ("bad", s.model, 0)
        | "claim" =>
          match fInt? j "h" with
          | some h =>
            let r := claim s.fixed s.model h
            (errName r, (r.toOption.map (·.1)).getD s.model, (r.toOption.map (·.2)).getD 0)
          | _ => ("bad", s.model, 0)
        | "cancel" =>
          match fInt? j "amt" with
          | some amt => let r := cancel s.model amt; (errName r, r.toOption.getD s.model, 0)
          | _ => ("bad", s.model, 0)
        | "vestnow" =>
          match fInt? j "amt", fInt? j "factor", fBool? j "enabled" with
          | some amt, some f, some en =>
            let r := vestNow s.model en amt f
            (errName r, (r.toOption.map (·.1)).getD s.model, (r.toOption.map (·.2)).getD 0)
          | _, _, _ => ("bad", s.model, 0)
        | _ => ("bad", s.model, 0)
      if mres == "bad" then (s, [verdictBad i "c14.op fields"]) else
      -- implementation ghosts
      let amt := (fInt? j "amt").getD 0
      let ok := res == "ok"
      let s' : S := { s with
        model := mstate
        iReleased := s.iReleased + (if ok && op == "claim" then iPaid else 0)
        iVestedIn := s.iVestedIn + (if ok && op == "vest" then amt else 0)
        iReturned := s.iReturned + (if ok && op == "cancel" then amt else 0)
        iPrev := iEntries }
      -- correspondence
      let diffs : List Json :=
        (if mres != res then [verdictDiff i "result" mres res] else []) ++
        (if mstate.entries != iEntries then [verdictDiff i "entries" (entriesJson mstate.entries) (entriesJson iEntries)] else []) ++
        (if mstate.edenClaimed != iEden then [verdictDiff i "edenClaimed" (mkInt mstate.edenClaimed) (mkInt iEden)] else []) ++
        (if mpaid != iPaid then [verdictDiff i "paid" (mkInt mpaid) (mkInt iPaid)] else [])
      -- property predicates on the implementation's observation
      let viols : List Json :=
        (if op == "claim" && res != "ok" then [verdictViol i "C14.claim_succeeds" (Json.mkObj [("res", res)])] else []) ++
        (if iPaid < 0 then [verdictViol i "C14.released_mono" (mkInt iPaid)] else []) ++
        (if op == "claim" && ok && iEntries.any (offSchedule s.iPrev ((fInt? j "h").getD 0)) then
          [verdictViol i "C14.linear_schedule" (Json.mkObj [("h", mkInt ((fInt? j "h").getD 0)), ("entries", entriesJson iEntries), ("before", entriesJson s.iPrev)])] else []) ++
        (if iEntries.any (fun e => e.claimed < 0 || e.claimed > e.total) then
          [verdictViol i "C14.entry_bounds" (entriesJson iEntries)] else []) ++
        (if s'.iReleased + s'.iReturned + remainingB iEntries != s'.iVestedIn then
          [verdictViol i "C14.conservation" (Json.mkObj [("released", mkInt s'.iReleased), ("returned", mkInt s'.iReturned),
            ("remaining", mkInt (remainingB iEntries)), ("vestedIn", mkInt s'.iVestedIn)])] else []) ++
        (if op == "vestnow" && ok && iPaid != amt.tdiv ((fInt? j "factor").getD 1) then
          [verdictViol i "C14.vest_now" (mkInt iPaid)] else []) ++
        (if (fBool? j "final").getD false && ok && (iEntries != [] || s'.iReleased + s'.iReturned != s'.iVestedIn) then
          [verdictViol i "C14.complete" (entriesJson iEntries)] else [])
      let vs := diffs ++ viols
      (s', if vs.isEmpty then [verdictOk i] else vs)
    | _, _, _ => (s, [verdictBad i "c14.op after"])
  | some "stats" => (s, [])
  | _ => (s, [verdictBad i "unknown t"])

def run (prop : String) : IO Unit := do
  let stdin ← IO.getStdin
  let stdout ← IO.getStdout
  let _ := prop
  loop stdin stdout handle {} 0

end Elys.Drv.C14
