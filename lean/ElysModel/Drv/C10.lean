-- DRIVER-PROPS: C10
/- handler for C10 probe lines (harness/c10.go). -/
import ElysModel.Drv.Util
import ElysModel.Close.Model
open Lean
namespace Elys.Drv.C10
open Elys.Close

structure S where
  n : Nat := 0
  deriving Inhabited

def parseReq (s : String) : Option Req :=
  match s with
  | "liquidate" => some .liquidate
  | "stopLoss" => some .stopLoss
  | "takeProfit" => some .takeProfit
  | _ => none

def handle (s : S) (i : Nat) (j : Json) : S × List Json :=
  match fStr? j "t" with
  | some "c10.begin" => (s, [verdictOk i])
  | some "c10.blockfail" => (s, [verdictOk i])
  | some "c10.open" =>
    match fInt? j "code", fInt? j "health", fInt? j "safety" with
    | some 0, some h, some sf =>
      -- model: the open was accepted, so `openAccepted` must have held
      if !openAccepted h sf then
        (s, [verdictViol i "C10.open_healthy" (Json.mkObj [("module", fld j "module"), ("pos", fld j "pos"), ("health", mkInt h), ("safety", mkInt sf)])])
      else
        -- the same question asked the way a third party's close request will ask it (interest and funding settled first): the two
        -- computations round differently, so only a gap of more than 10^-4 of the safety factor counts
        match fInt? j "liqHealth" with
        | some lh =>
          if lh * 10000 < sf * 9999 then
            (s, [verdictViol i "C10.open_healthy" (Json.mkObj [("module", fld j "module"), ("pos", fld j "pos"), ("health", mkInt h), ("healthAsForceCloseComputesIt", mkInt lh), ("safety", mkInt sf)])])
          else (s, [verdictOk i])
        | none => (s, [verdictOk i])
    | _, _, _ => (s, [verdictOk i])
  | some "c10.ownerclose" =>
    if (fBool? j "signerIsOwner") == some false && (fInt? j "code") == some 0 then
      (s, [verdictViol i "C10.owner_only" (Json.mkObj [("module", fld j "module"), ("pos", fld j "pos")])])
    else (s, [verdictOk i])
  | some "c10.case" =>
    if (fStr? j "predErr").getD "" != "" then (s, [verdictOk i]) else
    let modS := (fStr? j "module").getD ""
    match fInt? j "health", fInt? j "safety", fInt? j "price", fInt? j "stopLoss", fInt? j "takeProfit" with
    | some h, some sf, some pr, some sl, some tp =>
      let v : View := { module := if modS == "lp" then .lp else .perp, long := (fBool? j "long").getD true, health := h, safety := sf, price := pr,
                        stopLoss := sl, takeProfit := tp, liabZero := (fBool? j "liabZero").getD false }
      let requested := ((fArr? j "requested").getD #[]).toList.filterMap (fun x => x.getStr?.toOption.bind parseReq)
      let ps := paths v requested
      let before := fld j "before"; let after := fld j "after"
      let exists_ := (fBool? after "exists").getD false
      let same (k : String) : Bool := (fInt? before k) == (fInt? after k)
      let changed := !exists_ || !same "collateral" || !same "principal" || (v.module == .lp && !same "size")
      -- when other positions were closed earlier in the same block the pool the health is measured against has moved:
      -- the prediction is then exact only up to that movement, so the liquidation test is judged with a 0.5 % band
      let others := (fInt? j "othersChanged").getD 0
      -- the same holds when other positions of the pool were SETTLED in the block (interest and funding taken out of the amm pool):
      -- later evaluations in the block (later list entries, a repeated request) see the pool after those settlements
      let othersSettled := (fInt? j "othersSettled").getD 0
      let vj : View := if others > 0 || othersSettled > 0 then { v with safety := v.safety + v.safety / 200 } else v
      -- a request repeated later in the same block judges the position again, against the pools as the first settlement left them:
      -- the harness predicts that second health too, and either evaluation may find the position liquidatable
      let repeated := (fBool? j "repeated").getD false
      let vj2 : View := match fInt? j "health2" with
        | some h2 => if repeated then { vj with health := h2 } else vj
        | none => vj
      let allowedAny := ps.any (allowed vj) || ps.any (allowed vj2)
      let specAny := ps.any (allowedSpec vj) || ps.any (allowedSpec vj2)
      let ownerMoved := ((fArr? j "ownerDelta").getD #[]).size != 0
      let detail := Json.mkObj [("module", modS), ("pos", fld j "pos"), ("requested", fld j "requested"), ("health", mkInt h), ("safety", mkInt sf), ("price", mkInt pr),
        ("stopLoss", mkInt sl), ("takeProfit", mkInt tp), ("long", v.long), ("before", before), ("after", after), ("ownerDelta", fld j "ownerDelta"),
        ("asCodedGuardHeld", allowedAny), ("othersChanged", mkInt others), ("shortWithoutStopLoss", v.module == .perp && !v.long && sl == 0)]
      -- model prediction: not allowed ⇒ untouched (theorem untouched_otherwise); the implementation must agree
      let diffs := if changed && !allowedAny then [verdictDiff i "position altered although no attempted guard held" (Json.str "untouched") detail] else []
      -- a perpetual position that stays: requests (however many, from whomever) may take the interest and funding accrued up to
      -- this block out of its custody ONCE; a position nobody named keeps its custody to the unit
      let sizeAfter := (fInt? after "size").getD 0
      let sizeBefore := (fInt? before "size").getD 0
      let overTaken : Option Int :=
        if v.module != .perp || changed || others > 0 then none
        else if requested.isEmpty then (if sizeAfter != sizeBefore then some (sizeBefore - sizeAfter) else none)
        else match fInt? j "settledSize" with
          | some st => if sizeAfter < st then some (st - sizeAfter) else none
          | none => none
      let viols :=
        (if changed && !specAny then [verdictViol i "C10.third_party_close" detail] else []) ++
        (if !changed && !allowedAny && ownerMoved then [verdictViol i "C10.untouched_otherwise" detail] else []) ++
        (match overTaken with
         | some x => [verdictViol i "C10.only_accrued_taken" (Json.mkObj [("pos", fld j "pos"), ("requested", fld j "requested"), ("repeated", fld j "repeated"),
                        ("custodyBefore", mkInt sizeBefore), ("custodyAfterOneSettlement", fld j "settledSize"), ("custodyAfter", mkInt sizeAfter), ("takenBeyondAccrued", mkInt x)])]
         | none => [])
      let vs := diffs ++ viols
      (s, if vs.isEmpty then [verdictOk i] else vs)
    | _, _, _, _, _ => (s, [verdictBad i "c10.case fields"])
  | some "stats" => (s, [])
  | _ => (s, [verdictBad i "unknown t"])

def run (prop : String) : IO Unit := do
  let stdin ← IO.getStdin
  let stdout ← IO.getStdout
  let _ := prop
  loop stdin stdout handle {} 0

end Elys.Drv.C10
