-- DRIVER-PROPS: C03H
/- history-mode handler for C03 (oracle pools seen in real blocks): the swaps of a block are executed by the amm end-blocker (queued
requests) and by masterchef's fee conversions, all in end-block. Over the end-block transfers of a block, an oracle pool's own
account never pays out more value than it takes in, at the oracle prices in force: whatever a trader gets beyond that (the
rebalancing bonus) has to come from the pool's rebalance treasury. -/
import ElysModel.Drv.Hist
open Lean
namespace Elys.Drv.SwapFairH

structure S where
  started : Bool := false
  deriving Inhabited

def valueOf (prices : FMap String) (ms : List Move) : Int := ms.foldl (fun a m => a + m.amt * prices.get m.denom) 0

def handle (s : S) (i : Nat) (j : Json) : S × List Json :=
  match fStr? j "t" with
  | some "hist.begin" => ({ started := true }, [verdictOk i])
  | some "hist.step" =>
    let st := parseStep j
    if st.failed then (s, [verdictOk i]) else
    let prices := st.obs.denomPrices
    let sends := st.endMoves.filter (fun m => m.kind == "send")
    let viols := st.obs.ammPools.filterMap fun p =>
      if !p.oracle then none else
      let outs := sends.filter (fun m => m.src == p.addr)
      let ins := sends.filter (fun m => m.dst == p.addr)
      if outs.isEmpty then none else
      -- every denom that moved must have a price in force, otherwise the block is not judged
      if (outs ++ ins).any (fun m => prices.get m.denom ≤ 0) then none else
      let vOut := valueOf prices outs
      let vIn := valueOf prices ins
      -- fixed-point allowance: one base unit of the dearest asset per outgoing transfer
      let dearest := (outs ++ ins).foldl (fun a m => max a (prices.get m.denom)) 0
      let tol := dearest * outs.length
      if vOut ≤ vIn + tol then none else
        some (verdictViol i "C03.oracle_pool_pays_le_in" (Json.mkObj [("pool", Json.num p.id), ("valueOutRaw", mkInt vOut), ("valueInRaw", mkInt vIn),
          ("allowanceRaw", mkInt tol), ("outs", Json.arr (outs.map (fun m => Json.arr #[Json.str m.dst, Json.str m.denom, mkInt m.amt])).toArray),
          ("ins", Json.arr (ins.map (fun m => Json.arr #[Json.str m.src, Json.str m.denom, mkInt m.amt])).toArray)]))
    (s, if viols.isEmpty then [verdictOk i] else viols)
  | some "stats" => (s, [])
  | _ => (s, [verdictBad i "unknown t"])

def run (prop : String) : IO Unit := do
  let stdin ← IO.getStdin
  let stdout ← IO.getStdout
  let _ := prop
  loop stdin stdout handle {} 0

end Elys.Drv.SwapFairH
