-- DRIVER-PROPS: C03H
/- history-mode handler for C03 (oracle pools seen in real blocks): the swaps of a block are executed by the amm end-blocker (queued
requests) and by masterchef's fee conversions, all in end-block. Over the end-block transfers of a block, an oracle pool's own
account never pays out more value than it takes in, at the oracle prices in force: whatever a trader gets beyond that (the
rebalancing bonus) has to come from the pool's rebalance treasury. -/
import ElysModel.Drv.Hist
open Lean
namespace Elys.Drv.SwapFairH

structure PoolW where
  id : Nat
  oracle : Bool
  weights : List (String × Nat)
deriving Inhabited

structure S where
  started : Bool := false
  pools : List PoolW := []
  prev : Option Snapshot := none
  deriving Inhabited

/-- Π reserveᵢ ^ weightᵢ over the pool's assets (integer weights: an exact integer). -/
def weightedProduct (ws : List (String × Nat)) (assets : List (String × Int)) : Int :=
  ws.foldl (fun acc (d, w) => acc * ((assets.lookup d).getD 0) ^ w) 1

def valueOf (prices : FMap String) (ms : List Move) : Int := ms.foldl (fun a m => a + m.amt * prices.get m.denom) 0

def handle (s : S) (i : Nat) (j : Json) : S × List Json :=
  match fStr? j "t" with
  | some "hist.begin" =>
    let pools := ((fld j "pools").getArr?.toOption.getD #[]).toList.map fun p =>
      let ds := ((fld p "denoms").getArr?.toOption.getD #[]).toList.map (fun x => x.getStr?.toOption.getD "")
      let ws := ((fld p "weights").getArr?.toOption.getD #[]).toList.map (fun x => ((jInt? x).getD 0).toNat)
      { id := ((fInt? p "id").getD 0).toNat, oracle := (fld p "oracle").getBool?.toOption.getD false, weights := ds.zip ws : PoolW }
    ({ started := true, pools := pools, prev := some (Snapshot.parse (fld j "obs")) }, [verdictOk i])
  | some "hist.step" =>
    let st := parseStep j
    if st.failed then ({ s with prev := none }, [verdictOk i]) else
    -- constant-product pools (no oracle pricing), equal weights: in a block in which nobody joined or left (the pool's total shares
    -- are what they were), every trade was priced on the curve or worse for the trader, so the product of the reserves has not
    -- fallen beyond one base unit per transfer. (Amounts out are truncated and amounts in rounded up; with equal weights the power is an
    -- integer power, exact; the fee skim is rounded up.)
    let kviols : List Json := match s.prev with
      | none => []
      | some pre => st.obs.ammPools.filterMap fun p =>
        match s.pools.find? (fun q => q.id == p.id), pre.ammPools.find? (fun q => q.id == p.id) with
        | some pw, some po =>
          let equal := match pw.weights with
            | (_, w) :: rest => w > 0 && rest.all (fun x => x.2 == w)
            | [] => false
          if pw.oracle || p.oracle || po.oracle || !equal || p.shares != po.shares || pw.weights.length != p.assets.length then none else
          let addr := p.addr
          let ws := pw.weights.map (fun x => (x.1, 1))
          let kBefore := weightedProduct ws po.assets
          let kAfter := weightedProduct ws p.assets
          -- allowance: the fee skimmed off the incoming amount is rounded up, so each transfer may leave the pool one base unit short of
          -- the curve; one unit of an asset changes the product by the product of the other reserves
          let touching := (st.endMoves ++ st.beginMoves ++ (st.txs.map (·.moves)).flatten).filter (fun m => m.src == addr || m.dst == addr)
          let perUnit := p.assets.foldl (fun acc a => max acc (weightedProduct (ws.filter (fun x => x.1 != a.1)) p.assets)) 0
          -- the same on what the pool really HAS of what it reports: per asset the smaller of the book reserve and the bank balance of the
          -- pool's address (third parties may send coins straight to that address, so the balance alone says nothing; on a pool whose book is
          -- backed the smaller one IS the book). A swap priced on a book that overstates a reserve (a hop that ran on a stale copy of the
          -- pool) pays more than the curve through the reserves that are really there allows
          let heldB := po.assets.map (fun (d, a) => (d, min a (pre.bank.get (addr, d))))
          let heldA := p.assets.map (fun (d, a) => (d, min a (st.obs.bank.get (addr, d))))
          let hBefore := weightedProduct ws heldB
          let hAfter := weightedProduct ws heldA
          let perUnitH := heldA.foldl (fun acc a => max acc (weightedProduct (ws.filter (fun x => x.1 != a.1)) heldA)) 0
          if kAfter + perUnit * touching.length < kBefore then
            some (verdictViol i "C03.constant_product_not_decreasing" (Json.mkObj [("pool", Json.num p.id),
              ("before", Json.arr (po.assets.map (fun (d, a) => Json.arr #[Json.str d, mkInt a])).toArray),
              ("after", Json.arr (p.assets.map (fun (d, a) => Json.arr #[Json.str d, mkInt a])).toArray)]))
          else if hAfter + perUnitH * touching.length ≥ hBefore then none else
            some (verdictViol i "C03.constant_product_of_holdings_not_decreasing" (Json.mkObj [("pool", Json.num p.id),
              ("before", Json.arr (heldB.map (fun (d, a) => Json.arr #[Json.str d, mkInt a])).toArray),
              ("after", Json.arr (heldA.map (fun (d, a) => Json.arr #[Json.str d, mkInt a])).toArray)]))
        | _, _ => none
    let s := { s with prev := some st.obs }
    let prices := st.obs.denomPrices
    let sends := st.endMoves.filter (fun m => m.kind == "send")
    let viols := st.obs.ammPools.filterMap fun p =>
      if !p.oracle then none else
      let outs := sends.filter (fun m => m.src == p.addr)
      let ins := sends.filter (fun m => m.dst == p.addr)
      if outs.isEmpty then none else
      -- every denom that moved must have a price in force, otherwise the block is not judged
      if (outs ++ ins).any (fun m => prices.get m.denom ≤ 0) then none else
      let vOut := valueOf prices outs
      let vIn := valueOf prices ins
      -- fixed-point allowance: one base unit of the dearest asset per outgoing transfer
      let dearest := (outs ++ ins).foldl (fun a m => max a (prices.get m.denom)) 0
      let tol := dearest * outs.length
      if vOut ≤ vIn + tol then none else
        some (verdictViol i "C03.oracle_pool_pays_le_in" (Json.mkObj [("pool", Json.num p.id), ("valueOutRaw", mkInt vOut), ("valueInRaw", mkInt vIn),
          ("allowanceRaw", mkInt tol), ("outs", Json.arr (outs.map (fun m => Json.arr #[Json.str m.dst, Json.str m.denom, mkInt m.amt])).toArray),
          ("ins", Json.arr (ins.map (fun m => Json.arr #[Json.str m.src, Json.str m.denom, mkInt m.amt])).toArray)]))
    let viols := viols ++ kviols
    (s, if viols.isEmpty then [verdictOk i] else viols)
  | some "stats" => (s, [])
  | _ => (s, [verdictBad i "unknown t"])

def run (prop : String) : IO Unit := do
  let stdin ← IO.getStdin
  let stdout ← IO.getStdout
  let _ := prop
  loop stdin stdout handle {} 0

end Elys.Drv.SwapFairH
