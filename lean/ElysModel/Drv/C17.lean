-- DRIVER-PROPS: C17
/- driver handler for C17 (authorisation). Each `c17.case` line is one transaction delivered to the real
app: who signed, what the message's signer field held, the result code and which stores differ from the
control world. The model side is `Auth.deliver` on the handler found in the regenerated table
`Gen.handlers` (guarded ⇒ predicted refusal), resp. `Auth.deliverOwned` for owner-scoped messages. -/
import ElysModel.Drv.Util
import ElysModel.Gen.Handlers
open Lean
namespace Elys.Drv.C17
open Elys.Auth

structure S where
  cases : Nat := 0
  deriving Inhabited

def findHandler (module msgType : String) : Option Handler :=
  Elys.Gen.handlers.find? (fun h => h.module == module && h.msgType == msgType)

/-- a body that visibly writes -/
def bump : Nat → Except Err Nat := fun s => .ok (s + 1)

def handle (s : S) (i : Nat) (j : Json) : S × List Json :=
  match fStr? j "t" with
  | some "c17.begin" =>
    -- the first begin line lists what the running app registers: it must agree with the regenerated table
    match fArr? j "registered" with
    | none => (s, [verdictOk i])
    | some regs =>
      let parsed : List (String × String × Bool × String) := regs.toList.filterMap fun r =>
        match r.getArr?.toOption.map (·.toList) with
        | some [m, n, a, f] =>
          match m.getStr?.toOption, n.getStr?.toOption, a.getBool?.toOption, f.getStr?.toOption with
          | some m, some n, some a, some f => some (m, n, a, f)
          | _, _, _, _ => none
        | _ => none
      if parsed.length != regs.size then (s, [verdictBad i "c17.begin registered"]) else
      let vs : List Json :=
        (parsed.filterMap fun (m, n, a, f) =>
          match findHandler m n with
          | none => some (verdictDiff i s!"{m}.{n}" "no handler in Gen.handlers" "registered with the app")
          | some h =>
            if h.hasAuthorityField != a then
              some (verdictDiff i s!"{m}.{n} has an Authority field" h.hasAuthorityField a)
            else if h.gated != (f != "") then
              some (verdictDiff i s!"{m}.{n} governance-gated" h.gated (f != ""))
            else if h.gated && h.authorityFieldName != f then
              some (verdictDiff i s!"{m}.{n} gated through field" h.authorityFieldName f)
            else none) ++
        (Elys.Gen.handlers.filterMap fun h =>
          if parsed.any (fun (m, n, _, _) => m == h.module && n == h.msgType) then none
          else some (verdictDiff i s!"{h.module}.{h.msgType}" "handler in Gen.handlers" "not registered with the app"))
      (s, if vs.isEmpty then [verdictOk i] else vs)
  | some "c17.uncovered" =>
    (s, [verdictBad i s!"uncovered: {(fStr? j "url").getD "?"}: {(fStr? j "why").getD ""}"])
  | some "c17.govrun" =>
    -- non-vacuity run with the field naming governance: it may fail for reasons of its own (logged by the
    -- harness), but not because governance is not this module's authority
    if (fBool? j "authErr").getD false then
      (s, [verdictBad i s!"{(fStr? j "url").getD "?"}: the governance address is refused by the guard, so the refusals prove nothing"])
    else if (fStr? j "vb").getD "" != "" then
      (s, [verdictBad i s!"{(fStr? j "url").getD "?"}: constructor fails ValidateBasic: {(fStr? j "vb").getD ""}"])
    else (s, [verdictOk i])
  | some "c17.case" =>
    match fStr? j "kind", fStr? j "module", fStr? j "msg", fStr? j "signer", fStr? j "fieldValue", fInt? j "code", fArr? j "changed" with
    | some kind, some module, some msg, some signer, some fieldValue, some code, some changed =>
      let s' := { s with cases := s.cases + 1 }
      let vb := (fStr? j "vb").getD ""
      let blockErr := (fStr? j "blockErr").getD ""
      if vb != "" then (s', [verdictBad i s!"{module}.{msg}: the message does not pass ValidateBasic ({vb}); the handler was not exercised"]) else
      if blockErr != "" then (s', [verdictBad i s!"{module}.{msg}: the block carrying the message failed: {blockErr}"]) else
      let iAccepted := code == 0
      let detail := Json.mkObj [("module", module), ("msg", msg), ("variant", (fStr? j "variant").getD ""),
        ("signerKind", (fStr? j "signerKind").getD ""), ("signer", signer), ("fieldValue", fieldValue),
        ("code", mkInt code), ("changed", Json.arr changed), ("log", (fStr? j "log").getD "")]
      if kind == "gov" then
        match fStr? j "gov" with
        | none => (s', [verdictBad i "c17.case gov address"])
        | some gov =>
          match findHandler module msg with
          | none => (s', [verdictDiff i "handler" "absent from Gen.handlers" s!"{module}.{msg} is registered with the app"])
          | some h =>
            let authorised := signer == gov
            let mAccepted := isOk (deliver h signer fieldValue gov bump 0)
            let vs : List Json :=
              (if !authorised && iAccepted then [verdictViol i "C17.refused" detail] else []) ++
              (if !iAccepted && !changed.isEmpty then [verdictViol i "C17.state_unchanged" detail] else []) ++
              (if mAccepted != iAccepted then
                [verdictDiff i s!"{module}.{msg} accepted (table: guardedBeforeWrite = {h.guardedBeforeWrite})" mAccepted iAccepted] else [])
            (s', if vs.isEmpty then [verdictOk i] else vs)
      else if kind == "owner" then
        match fStr? j "owner" with
        | none => (s', [verdictBad i "c17.case owner address"])
        | some owner =>
          let authorised := signer == owner
          let mAccepted := isOk (deliverOwned (some owner) signer fieldValue bump 0)
          if authorised then
            -- non-vacuity: the owner's own message must go through
            if iAccepted then (s', [verdictOk i])
            else (s', [verdictBad i s!"{module}.{msg}: the owner's own message failed ({(fStr? j "log").getD ""}); the refusals above prove nothing"])
          else
            let vs : List Json :=
              (if iAccepted then [verdictViol i "C17.owner_only" detail] else []) ++
              (if !iAccepted && !changed.isEmpty then [verdictViol i "C17.state_unchanged" detail] else []) ++
              (if mAccepted != iAccepted then [verdictDiff i s!"{module}.{msg} accepted from a non-owner" mAccepted iAccepted] else [])
            (s', if vs.isEmpty then [verdictOk i] else vs)
      else if kind == "existing" then
        -- a permissionless CREATE message aimed at an object that already exists (and is governance's to change): whatever its
        -- other fields say, it must be refused and the stored object must stay as it is - otherwise it is an update without authority
        let vs : List Json :=
          (if iAccepted then [verdictViol i (if ((fStr? j "variant").getD "").startsWith "listGated" then "C17.list_gated_refused" else "C17.existing_object_overwritten") detail] else []) ++
          (if !iAccepted && !changed.isEmpty then [verdictViol i "C17.state_unchanged" detail] else [])
        (s', if vs.isEmpty then [verdictOk i] else vs)
      else (s', [verdictBad i "c17.case kind"])
    | _, _, _, _, _, _, _ => (s, [verdictBad i "c17.case fields"])
  | some "c17.note" => (s, [verdictOk i])  -- recorded, never judged (messages outside the letter of the property)
  | some "stats" => (s, [])
  | _ => (s, [verdictBad i "unknown t"])

def run (prop : String) : IO Unit := do
  let stdin ← IO.getStdin
  let stdout ← IO.getStdout
  let _ := prop
  loop stdin stdout handle {} 0

end Elys.Drv.C17
