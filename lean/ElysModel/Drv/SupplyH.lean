-- DRIVER-PROPS: C15
/- history-mode handler for C15: every x/bank coinbase/burn event of a block must belong to an allowed class; the
model's supply is compared with the bank's; externally-issued supply must never change. -/
import ElysModel.Drv.Hist
import ElysModel.Ledger.Supply
open Lean
namespace Elys.Drv.SupplyH
open Elys.Supply

structure S where
  names : List (String × String) := []
  model : St := {}
  started : Bool := false
  poolShares : FMap String := []     -- by share denom: the pool's recorded total shares after the previous block
  /-- Eden the users have put into vesting (successful cm.vest of ueden) minus Eden handed back by cancels, since the history began -/
  edenInVesting : Int := 0
  /-- ELYS minted by the users' own ClaimVesting transactions since the history began -/
  elysReleased : Int := 0
  /-- the vesting of Eden has been pointed at another denom at some time (governance): the Eden ↔ ELYS balance is then not judged -/
  vestRepointed : Bool := false
  deriving Inhabited

def nameOf (s : S) (addr : String) : String := match s.names.find? (fun p => p.1 == addr) with | some p => p.2 | none => addr

/-- (op, description) for a mint/burn event, or an error text when the site is of no allowed class -/
def classifyMove (s : S) (kind : String) (mv : Move) : Option (Except String Op) :=
  if mv.kind == "mint" then
    let minter := nameOf s mv.dst
    match classify mv.denom with
    | .share =>
      if (mv.denom.startsWith "amm/pool/" && minter == "mod:amm") || (mv.denom == "stablestake/share" && minter == "mod:stablestake")
      then some (.ok (.shareMint mv.denom mv.amt)) else some (.error s!"share denom {mv.denom} minted by {minter}")
    | .native =>
      -- ClaimVesting / VestNow messages, and the same ClaimVesting run for the provider-rewards account by the estaking epoch hook
      -- (x/estaking/keeper/provider_vesting.go) in begin-block
      if minter == "mod:commitment" && (kind == "cm.claimVesting" || kind == "cm.vestNow" || kind == "beginBlock") then some (.ok (.vestingRelease mv.amt))
      else some (.error s!"native token minted by {minter} in {kind}")
    | _ => some (.error s!"{mv.denom} minted by {minter} in {kind}")
  else if mv.kind == "burn" then
    let burner := nameOf s mv.src
    if burner == "mod:burner" then some (.ok (.burnerBurn mv.denom mv.amt)) else
    match classify mv.denom with
    | .share =>
      if (mv.denom.startsWith "amm/pool/" && burner == "mod:amm") || (mv.denom == "stablestake/share" && burner == "mod:stablestake")
      then some (.ok (.shareBurn mv.denom mv.amt)) else some (.error s!"share denom {mv.denom} burned by {burner}")
    | _ => some (.error s!"{mv.denom} burned by {burner} in {kind}")
  else none

def handle (s : S) (i : Nat) (j : Json) : S × List Json :=
  match fStr? j "t" with
  | some "hist.begin" =>
    let o := Snapshot.parse (fld j "obs")
    ({ names := parseNames j, model := { supply := o.supply }, started := true, poolShares := o.ammPools.map (fun p => (p.shareDenom, p.shares)) }, [verdictOk i])
  | some "hist.step" =>
    if !s.started then (s, [verdictBad i "hist.step before hist.begin"]) else
    let st := parseStep j
    if st.failed then (s, [verdictOk i]) else
    let evs : List (String × Move) := (st.beginMoves.map (fun m => ("beginBlock", m))) ++ st.txs.flatMap (fun t => t.moves.map (fun m => (t.kind, m))) ++
      (st.endMoves.map (fun m => ("endBlock", m)))
    let (m1, bad, burnerExt) := evs.foldl (fun (acc : St × List String × List Json) e =>
      match classifyMove s e.1 e.2 with
      | none => acc
      | some (.error msg) => (acc.1, msg :: acc.2.1, acc.2.2)
      | some (.ok op) =>
        let ext := match op with
          | .burnerBurn d x => if classify d != .native then [Json.mkObj [("denom", d), ("amount", mkInt x), ("burner", "mod:burner"),
              ("denomClass", match classify d with | .external => "external" | .share => "share" | .virtualDenom => "virtual" | .native => "native")]] else []
          | _ => []
        match step acc.1 op with
        | .ok s' => (s', acc.2.1, ext ++ acc.2.2)
        | .error er => (acc.1, (reprStr op ++ " -> " ++ reprStr er) :: acc.2.1, acc.2.2)) (s.model, [], [])
    let ds := ((m1.supply.map (·.1)) ++ (st.obs.supply.map (·.1))).eraseDups
    let diffs := (match ds.find? (fun d => m1.supply.get d != st.obs.supply.get d) with
      | some d => [verdictDiff i "supply" (Json.mkObj [("denom", d), ("val", mkInt (m1.supply.get d))]) (Json.mkObj [("val", mkInt (st.obs.supply.get d))])]
      | none => [])
    let viols :=
      (if bad.isEmpty then [] else [verdictViol i "C15.mint_burn_sites" (Json.mkObj [("unclassified", Json.arr (bad.map Json.str).toArray), ("burner", "none")])]) ++
      (burnerExt.map fun e => verdictViol i "C15.external_conserved" e) ++
      (match ds.find? (fun d => classify d == .external && st.obs.supply.get d != s.model.supply.get d && burnerExt.isEmpty) with
       | some d => [verdictViol i "C15.external_conserved" (Json.mkObj [("denom", d), ("before", mkInt (s.model.supply.get d)), ("after", mkInt (st.obs.supply.get d)), ("burner", "none")])]
       | none => [])
    -- "share tokens are minted and burned only against deposits and withdrawals of the same pool": over a block the supply of a pool's
    -- share denom moves by exactly what the pool's own share book (TotalShares) moves
    let viols := viols ++ (match st.obs.ammPools.find? (fun p =>
        st.obs.supply.get p.shareDenom - s.model.supply.get p.shareDenom != p.shares - s.poolShares.get p.shareDenom) with
      | some p => [verdictViol i "C15.share_paired" (Json.mkObj [("pool", Json.num p.id), ("supplyChange", mkInt (st.obs.supply.get p.shareDenom - s.model.supply.get p.shareDenom)),
                     ("poolTotalSharesChange", mkInt (p.shares - s.poolShares.get p.shareDenom))])]
      | none => [])
    -- "the native token's supply increases only through vesting releases": what the users' claims have released so far is covered by the
    -- Eden they have given up for it — vested, and not handed back by a cancel (the worlds start with no vesting entries)
    let okAmt (t : TxObs) : Int := if t.code == 0 && (fStr? t.f "denom").getD "" == "ueden" then (fInt? t.f "amt").getD 0 else 0
    let vestedNow := (st.txs.filter (fun t => t.kind == "cm.vest")).foldl (fun a t => a + okAmt t) 0
    let cancelledNow := (st.txs.filter (fun t => t.kind == "cm.cancelVest")).foldl (fun a t => a + okAmt t) 0
    let releasedNow := (st.txs.filter (fun t => t.kind == "cm.claimVesting")).foldl (fun a t =>
      a + (t.moves.filter (fun m => m.kind == "mint" && m.denom == "uelys")).foldl (fun b m => b + m.amt) 0) 0
    let edenIn := s.edenInVesting + vestedNow - cancelledNow
    let released := s.elysReleased + releasedNow
    let repointed := s.vestRepointed || ((fld j "shocks").getArr?.toOption.getD #[]).toList.any (fun x => (x.getStr?.toOption.getD "").startsWith "commitment.EdenVestsInto")
    let viols := viols ++ (if !repointed && released > edenIn then
      [verdictViol i "C15.native_released_le_eden_given_up" (Json.mkObj [("elysReleasedByClaims", mkInt released), ("edenVestedMinusCancelled", mkInt edenIn)])] else [])
    let s := { s with edenInVesting := edenIn, elysReleased := released, vestRepointed := repointed }
    let vs := diffs ++ viols
    ({ s with model := { supply := st.obs.supply }, poolShares := st.obs.ammPools.map (fun p => (p.shareDenom, p.shares)) }, if vs.isEmpty then [verdictOk i] else vs)
  | some "stats" => (s, [])
  | _ => (s, [verdictBad i "unknown t"])

def run (prop : String) : IO Unit := do
  let stdin ← IO.getStdin
  let stdout ← IO.getStdout
  let _ := prop
  loop stdin stdout handle {} 0

end Elys.Drv.SupplyH
