/- handler for the lock-up op sequences of C12 (harness/c12lock.go); used by Drv/CommitH for lines `c12l.*`. -/
import ElysModel.Drv.Util
import ElysModel.Ledger.Lockups
open Lean
namespace Elys.Drv.C12Lock
open Elys.Lockups

structure S where
  model : St := {}
  deriving Inhabited

def locksJson (ls : List Lock) : Json := Json.arr (ls.map (fun l => Json.arr #[mkInt l.amount, mkInt l.unlock])).toArray

def parseLocks (j : Json) : List Lock :=
  ((j.getArr?.toOption.getD #[]).toList).filterMap fun x => match jIntList? x with | some [a, u] => some { amount := a, unlock := u } | _ => none

def handle (s : S) (i : Nat) (j : Json) : S × List Json :=
  match fStr? j "t" with
  | some "c12l.begin" => ({ model := {} }, [verdictOk i])
  | some "c12l.op" =>
    let op := (fStr? j "op").getD ""
    match fInt? j "amt", fInt? j "now" with
    | some amt, some now =>
      let res := (fStr? j "res").getD ""
      let after := fld j "after"
      let iCommitted := (fInt? after "committed").getD 0
      let iLocks := parseLocks (fld after "lockups")
      let lockedBefore := lockedAt s.model.locks now       -- the model keeps every lock-up that was ever recorded and is still in force
      let (mres, m1) : String × St :=
        if op == "add" then ("ok", add s.model amt ((fInt? j "unlock").getD 0))
        else match deduct s.model amt now ((fBool? j "liq").getD false) with
          | .ok m => ("ok", m)
          | .error _ => ("fail", s.model)
      let diffs :=
        (if mres != res then [verdictDiff i "result" mres res] else []) ++
        (if m1.committed != iCommitted then [verdictDiff i "committed" (mkInt m1.committed) (mkInt iCommitted)] else []) ++
        (if m1.locks != iLocks then [verdictDiff i "lockups" (locksJson m1.locks) (locksJson iLocks)] else [])
      let viols :=
        -- the owner withdrew although what stays committed is less than what is still locked
        (if op == "deduct" && res == "ok" && (fBool? j "liq") == some false && iCommitted < lockedBefore then
          [verdictViol i "C12.lock" (Json.mkObj [("now", mkInt now), ("withdrawn", mkInt amt), ("stillCommitted", mkInt iCommitted), ("stillLocked", mkInt lockedBefore)])] else []) ++
        (if iCommitted < 0 then [verdictViol i "C12.no_overdraw" (mkInt iCommitted)] else [])
      let vs := diffs ++ viols
      -- keep following the model's own lock list (the implementation's may have lost entries); committed follows the implementation
      ({ model := { m1 with committed := iCommitted } }, if vs.isEmpty then [verdictOk i] else vs)
    | _, _ => (s, [verdictBad i "c12l.op fields"])
  | some "stats" => (s, [])
  | _ => (s, [verdictBad i "unknown t"])

end Elys.Drv.C12Lock
