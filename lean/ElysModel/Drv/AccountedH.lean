-- DRIVER-PROPS: C11
/- history-mode handler for C11: accounted pool vs amm book vs perpetual liabilities/custody, per (pool, asset). -/
import ElysModel.Drv.Hist
import ElysModel.Ledger.Accounted
open Lean
namespace Elys.Drv.AccountedH
open Elys.Accounted

abbrev PD := Nat × String

structure S where
  model : List (PD × St) := []
  started : Bool := false
  deriving Inhabited

def pairGet (l : List (String × Int)) (d : String) : Int := match l.find? (fun p => p.1 == d) with | some p => p.2 | none => 0

def project (o : Snapshot) : List (PD × St) :=
  o.accounted.flatMap fun a =>
    a.total.map fun (d, tot) =>
      let book := match o.ammPools.find? (fun p => p.id == a.id) with | some p => pairGet p.assets d | none => 0
      let (l, c) := match o.perpPools.find? (fun p => p.id == a.id) with
        | some p => (((p.long ++ p.short).filter (fun x => x.denom == d)).foldl (fun (acc : Int × Int) x => (acc.1 + x.liab, acc.2 + x.custody)) (0, 0))
        | none => (0, 0)
      ((a.id, d), { book := book, liab := l, cust := c, tot := tot, non := pairGet a.nonAmm d })

def handle (s : S) (i : Nat) (j : Json) : S × List Json :=
  match fStr? j "t" with
  | some "hist.begin" => ({ model := project (Snapshot.parse (fld j "obs")), started := true }, [verdictOk i])
  | some "hist.step" =>
    if !s.started then (s, [verdictBad i "hist.step before hist.begin"]) else
    let st := parseStep j
    if st.failed then (s, [verdictOk i]) else
    let o := project st.obs
    -- W: the deltas of book / liabilities / custody over the block; the two recorded numbers are PREDICTED
    let res : List (PD × St × St) := o.map fun (k, so) =>
      match s.model.find? (fun (e : PD × St) => e.1 == k) with
      | none => (k, so, so)
      | some (_, sm) =>
        let db := so.book - sm.book; let dl := so.liab - sm.liab; let dc := so.cust - sm.cust
        let m1 := if dl != 0 || dc != 0 then step sm (.perp db dl dc) else if db != 0 then step sm (.amm db) else sm
        (k, m1, so)
    let kJson (k : PD) : Json := Json.mkObj [("pool", k.1), ("denom", k.2)]
    let diffs := (match res.find? (fun r => r.2.1.tot != r.2.2.tot) with
        | some r => [verdictDiff i "accounted.total" (Json.mkObj [("key", kJson r.1), ("val", mkInt r.2.1.tot)]) (Json.mkObj [("val", mkInt r.2.2.tot)])]
        | none => []) ++
      (match res.find? (fun r => r.2.1.non != r.2.2.non) with
        | some r => [verdictDiff i "accounted.nonAmm" (Json.mkObj [("key", kJson r.1), ("val", mkInt r.2.1.non)]) (Json.mkObj [("val", mkInt r.2.2.non)])]
        | none => [])
    let viols := (match o.find? (fun e => !totalEqB e.2) with
        | some e => [verdictViol i "C11.total_eq" (Json.mkObj [("key", kJson e.1), ("accountedTotal", mkInt e.2.tot), ("ammBook", mkInt e.2.book), ("liabilities", mkInt e.2.liab),
                       ("custody", mkInt e.2.cust), ("gap", mkInt (e.2.tot - (e.2.book + e.2.liab - e.2.cust)))])]
        | none => []) ++
      (match o.find? (fun e => !nonAmmEqB e.2) with
        | some e => [verdictViol i "C11.nonamm_eq" (Json.mkObj [("key", kJson e.1), ("recordedNonAmm", mkInt e.2.non), ("liabilities", mkInt e.2.liab), ("custody", mkInt e.2.cust)])]
        | none => [])
    let vs := diffs ++ viols
    ({ s with model := o }, if vs.isEmpty then [verdictOk i] else vs)
  | some "stats" => (s, [])
  | _ => (s, [verdictBad i "unknown t"])

def run (prop : String) : IO Unit := do
  let stdin ← IO.getStdin
  let stdout ← IO.getStdout
  let _ := prop
  loop stdin stdout handle {} 0

end Elys.Drv.AccountedH
