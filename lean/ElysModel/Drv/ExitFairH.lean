-- DRIVER-PROPS: C05H
/- history-mode handler for C05 (value extraction seen in real blocks): every successful single-asset exit from an oracle pool
that is the only thing touching that pool in its block is judged against the pool's state at the end of the previous block. -/
import ElysModel.Drv.Hist
import ElysModel.Drv.AccountedH
import ElysModel.Amm.ExitFair
open Lean
namespace Elys.Drv.ExitFairH
open Elys.Amm.Fair

structure PoolRef where
  id : Nat
  addr : String
  oracle : Bool
deriving Inhabited

structure S where
  pools : List PoolRef := []
  prev : Option Snapshot := none
  deriving Inhabited

def touches (addr : String) (ms : List Move) : Bool := ms.any (fun m => m.src == addr || m.dst == addr)

def handle (s : S) (i : Nat) (j : Json) : S × List Json :=
  match fStr? j "t" with
  | some "hist.begin" =>
    let pools := ((fld j "pools").getArr?.toOption.getD #[]).toList.map fun p =>
      { id := ((fInt? p "id").getD 0).toNat, addr := (fStr? p "addr").getD "", oracle := (fld p "oracle").getBool?.toOption.getD false : PoolRef }
    ({ pools := pools, prev := some (Snapshot.parse (fld j "obs")) }, [verdictOk i])
  | some "hist.step" =>
    let st := parseStep j
    if st.failed then ({ s with prev := none }, [verdictOk i]) else
    match s.prev with
    | none => ({ s with prev := some st.obs }, [verdictOk i])
    | some pre =>
      let feed := st.txs.any (fun t => t.kind == "oracle.feed")
      let idxd := (List.range st.txs.length).zip st.txs
      let viols := idxd.filterMap fun (k, t) =>
        let pid := ((fInt? t.f "pool").getD 0).toNat
        let outDenom := (fStr? t.f "outDenom").getD ""
        let sIn := (fInt? t.f "shareIn").getD 0
        match s.pools.find? (fun p => p.id == pid), pre.ammPools.find? (fun p => p.id == pid) with
        | some pr, some po =>
          if t.kind != "amm.exit" || t.code != 0 || outDenom == "" || !pr.oracle || feed then none else
          -- nothing else may have touched the pool in this block: then the previous observation is the state the exit ran on
          let others := (idxd.filter (fun (k', _) => k' != k)).any (fun (_, t') => touches pr.addr t'.moves)
          if others || touches pr.addr st.beginMoves || touches pr.addr st.endMoves then none else
          let out := (t.moves.filter (fun m => m.kind == "send" && m.src == pr.addr && m.denom == outDenom)).foldl (fun a m => a + m.amt) 0
          let net := netOf (pre.perpPools.find? (fun p => p.id == pid))
          let v := tvl po.assets net (fun d => pre.denomPrices.get d)
          if exitFairB v po.shares sIn out (pre.denomPrices.get outDenom) then none
          else some (verdictViol i "C05.exit_no_more_than_pro_rata" (Json.mkObj [("pool", pid), ("outDenom", outDenom), ("sharesIn", mkInt sIn),
                 ("totalShares", mkInt po.shares), ("paidOut", mkInt out), ("priceOut", mkInt (pre.denomPrices.get outDenom)), ("poolValue", mkInt v)]))
        | _, _ => none
      -- joins of NON-oracle pools: the fraction of the pool's shares a join mints is at most the fraction by which it enlarges the
      -- reserve of some asset it deposits ((1 + d/R)^w − 1 ≤ d/R for a weight w ≤ 1; an all-asset join deposits at least pro rata):
      -- minted · Rᵢ ≤ S · (dᵢ + 1) for an asset i of the deposit.  Judged when the join is alone on the pool in its block.
      let jviols := idxd.filterMap fun (k, t) =>
        let pid := ((fInt? t.f "pool").getD 0).toNat
        match s.pools.find? (fun p => p.id == pid), pre.ammPools.find? (fun p => p.id == pid) with
        | some pr, some po =>
          -- a join whose message names several coins is an ALL-asset join on every kind of pool (oracle pools too: `JoinPool` prices only
          -- one-coin joins at the oracle): it mints pro rata of what it deposits of EVERY asset of the pool: minted · Rᵢ ≤ S · (dᵢ + 1) for all i
          let severalCoins := ((fld t.f "maxIn").getArr?.toOption.getD #[]).size ≥ 2
          let isOracle := pr.oracle || po.oracle
          if t.kind != "amm.join" || t.code != 0 || (isOracle && !severalCoins) || (fld t.f "twice") != .null then none else
          let others := (idxd.filter (fun (k', _) => k' != k)).any (fun (_, t') => touches pr.addr t'.moves)
          if others || touches pr.addr st.beginMoves || touches pr.addr st.endMoves then none else
          let minted := (t.moves.filter (fun m => m.kind == "mint" && m.denom == po.shareDenom)).foldl (fun a m => a + m.amt) 0
          let dep (d : String) : Int := (t.moves.filter (fun m => m.kind == "send" && m.dst == pr.addr && m.denom == d)).foldl (fun a m => a + m.amt) 0
          -- oracle pools: judged by VALUE at the oracle prices of the previous block (no feed in this one): a several-coin join that is pro
          -- rata in every asset is fair by construction; one that is not must not mint shares worth more (at the pool's book value per
          -- share) than what it deposits, beyond 10 ppm
          let proRataAll := po.assets.all fun (d, r) => minted * r ≤ po.shares * (dep d + 1)
          let bookValue := Elys.Amm.Fair.tvl po.assets (fun _ => 0) (fun d => pre.denomPrices.get d)
          let depValue := po.assets.foldl (fun a x => a + dep x.1 * pre.denomPrices.get x.1) 0
          let valueFair := minted * bookValue * 1000000 ≤ po.shares * depValue * 1000010
          let okAsset := if isOracle then feed || proRataAll || valueFair
            else po.assets.any fun (d, r) => dep d > 0 && minted * r ≤ po.shares * (dep d + 1)
          if minted ≤ 0 || okAsset then none
          else some (verdictViol i "C05.join_no_more_than_deposit_ratio" (Json.mkObj [("pool", pid), ("minted", mkInt minted), ("totalShares", mkInt po.shares),
                 ("deposits", Json.arr (po.assets.map (fun (d, r) => Json.mkObj [("denom", d), ("reserve", mkInt r), ("deposit", mkInt (dep d))])).toArray)]))
        | _, _ => none
      let viols := viols ++ jviols
      -- the premise of all single-sided pricing on oracle pools: the balance the accounted-pool keeper has stored (what TVL,
      -- joins and exits are priced from) is the pool's true accounted balance, at the end of every block
      let base := match (Elys.Drv.AccountedH.project st.obs).find? (fun e => !Elys.Accounted.totalEqB e.2) with
        | some e => [verdictViol i "C05.pricing_base_is_true_balance" (Json.mkObj [("pool", e.1.1), ("denom", e.1.2), ("storedAccounted", mkInt e.2.tot),
                       ("book", mkInt e.2.book), ("liabilities", mkInt e.2.liab), ("custody", mkInt e.2.cust),
                       ("overstatedBy", mkInt (e.2.tot - (e.2.book + e.2.liab - e.2.cust)))])]
        | none => []
      let viols := viols ++ base
      ({ s with prev := some st.obs }, if viols.isEmpty then [verdictOk i] else viols)
  | some "stats" => (s, [])
  | _ => (s, [verdictBad i "unknown t"])

def run (prop : String) : IO Unit := do
  let stdin ← IO.getStdin
  let stdout ← IO.getStdout
  let _ := prop
  loop stdin stdout handle {} 0

end Elys.Drv.ExitFairH
