-- DRIVER-PROPS: C06
/- history-mode handler for C06: stablestake TotalValue vs vault cash vs debts. -/
import ElysModel.Drv.Hist
import ElysModel.Ledger.Vault
open Lean
namespace Elys.Drv.VaultH
open Elys.Vault

structure S where
  vault : String := ""
  model : St := {}
  started : Bool := false
  deriving Inhabited

def project (vault : String) (o : Snapshot) : St :=
  { tv := o.ssTotalValue
    cash := o.bank.get (vault, o.ssDenom)
    borrowed := o.debts.map (fun d => (d.addr, d.borrowed))
    stacked := o.debts.map (fun d => (d.addr, d.stacked))
    paid := o.debts.map (fun d => (d.addr, d.paid)) }

structure Scan where
  m : St
  seen : List String := []
  rejected : List String := []

def applyOp (sc : Scan) (op : Op) : Scan :=
  match step sc.m op with
  | .ok m' => { sc with m := m' }
  | .error e => { sc with rejected := (reprStr op ++ " -> " ++ reprStr e) :: sc.rejected }

def handle (s : S) (i : Nat) (j : Json) : S × List Json :=
  match fStr? j "t" with
  | some "hist.begin" =>
    let names := parseNames j
    let vault := addrOf names "mod:stablestake"
    ({ vault := vault, model := project vault (Snapshot.parse (fld j "obs")), started := true }, [verdictOk i])
  | some "hist.step" =>
    if !s.started then (s, [verdictBad i "hist.step before hist.begin"]) else
    let st := parseStep j
    if st.failed then (s, [verdictOk i]) else
    let o := project s.vault st.obs
    let denom := st.obs.ssDenom
    let posAddrs := st.obs.levPositions.map (·.posAddr)
    let moves := st.beginMoves ++ st.txs.flatMap (·.moves) ++ st.endMoves
    -- a record that is all zeros after the block is a debt that was repaid in full (deleted, then re-created empty by a later read-and-save
    -- of the same block, e.g. the health refresh of a position that keeps a few dust shares): as good as gone
    let hasPost (a : String) : Bool := st.obs.debts.any (fun d => d.addr == a && !(d.borrowed == 0 && d.stacked == 0 && d.paid == 0))
    let isDebtor (m : St) (a : String) : Bool := hasPost a || m.borrowed.get a != 0 || posAddrs.contains a
    -- W for a debt that no longer exists after the block: all its interest was paid, so
    -- interest accrued in the block = Σ repaid − Σ borrowed in the block − principal before − interest owed before
    let flows (a : String) : Int × Int := moves.foldl (fun (acc : Int × Int) mv =>
      if mv.kind != "send" || mv.denom != denom then acc
      else if mv.dst == s.vault && mv.src == a then (acc.1 + mv.amt, acc.2)
      else if mv.src == s.vault && mv.dst == a then (acc.1, acc.2 + mv.amt) else acc) (0, 0)
    let goneInterest (m : St) (a : String) : Int :=
      let (rep, bor) := flows a
      max 0 (rep - bor - m.borrowed.get a - (m.stacked.get a - m.paid.get a))
    let sc := moves.foldl (fun (sc : Scan) mv =>
      if mv.kind != "send" || mv.denom != denom then sc else
      if mv.dst == s.vault then
        let a := mv.src
        if isDebtor sc.m a then
          -- a debt whose interest counter is LOWER after the block than before was repaid in full by this transfer and re-created
          -- later in the block (close leaving dust shares, then a consolidating open): the interest it accrued is what the
          -- transfer paid beyond principal and interest owed
          let w := if sc.seen.contains a then 0
                   else if hasPost a && o.stacked.get a < sc.m.stacked.get a then
                     max 0 (mv.amt - sc.m.borrowed.get a - (sc.m.stacked.get a - sc.m.paid.get a))
                   else if hasPost a then o.stacked.get a - sc.m.stacked.get a
                   else goneInterest s.model a
          applyOp { sc with seen := a :: sc.seen } (Op.repay a w mv.amt)
        else applyOp sc (Op.bond mv.amt)
      else if mv.src == s.vault then
        let a := mv.dst
        if isDebtor sc.m a then
          let w := if sc.seen.contains a then 0 else if hasPost a then o.stacked.get a - sc.m.stacked.get a else goneInterest s.model a
          applyOp { sc with seen := a :: sc.seen } (Op.borrow a w mv.amt)
        else applyOp sc (Op.unbond mv.amt)
      else sc) { m := s.model }
    -- accrual without a transfer (health refresh in sweeps, failed close attempts that were rolled back do not count)
    let sc2 := st.obs.debts.foldl (fun (sc : Scan) d =>
      if sc.seen.contains d.addr then sc else
      let w := d.stacked - sc.m.stacked.get d.addr
      if w != 0 then applyOp sc (Op.accrue d.addr w) else sc) sc
    let m1 := sc2.m
    let addrs := ((m1.borrowed.map (·.1)) ++ (o.borrowed.map (·.1)) ++ (m1.stacked.map (·.1))).eraseDups
    let cmpA (what : String) (a b : FMap String) : List Json :=
      match addrs.find? (fun k => a.get k != b.get k) with
      | some k => [verdictDiff i what (Json.mkObj [("addr", k), ("val", mkInt (a.get k))]) (Json.mkObj [("val", mkInt (b.get k))])]
      | none => []
    let diffs :=
      (if sc2.rejected.isEmpty then [] else [verdictDiff i "model rejects an op the implementation performed" (Json.arr (sc2.rejected.map Json.str).toArray) .null]) ++
      (if m1.tv != o.tv then [verdictDiff i "totalValue" (mkInt m1.tv) (mkInt o.tv)] else []) ++
      (if m1.cash != o.cash then [verdictDiff i "vaultCash" (mkInt m1.cash) (mkInt o.cash)] else []) ++
      cmpA "debt.borrowed" m1.borrowed o.borrowed ++ cmpA "debt.interestStacked" m1.stacked o.stacked ++ cmpA "debt.interestPaid" m1.paid o.paid
    let viols :=
      (if !vaultEqB o then [verdictViol i "C06.vault_equation" (Json.mkObj [("totalValue", mkInt o.tv), ("cash", mkInt o.cash), ("outstanding", mkInt (outstanding o)),
          ("gap", mkInt (o.tv - o.cash - outstanding o))])] else []) ++
      (match st.obs.debts.find? (fun d => d.borrowed < 0 || d.paid > d.stacked) with
       | some d => [verdictViol i "C06.debt_sane" (Json.mkObj [("addr", d.addr), ("borrowed", mkInt d.borrowed), ("stacked", mkInt d.stacked), ("paid", mkInt d.paid)])]
       | none => [])
    let vs := diffs ++ viols
    ({ s with model := o }, if vs.isEmpty then [verdictOk i] else vs)
  | some "stats" => (s, [])
  | _ => (s, [verdictBad i "unknown t"])

def run (prop : String) : IO Unit := do
  let stdin ← IO.getStdin
  let stdout ← IO.getStdout
  let _ := prop
  loop stdin stdout handle {} 0

end Elys.Drv.VaultH
