-- DRIVER-PROPS: C07
/- driver handler for C07 (stablestake vault): replays bond / unbond / borrow / repay / accrue
sequences on the model, compares every observed number with the implementation's, and evaluates the
property predicates (the inequalities proved in Props/C07.lean) on the IMPLEMENTATION's numbers. -/
import ElysModel.Drv.Util
import ElysModel.Stable.Model
open Lean
namespace Elys.Drv.C07
open Elys.Stable

/-- the implementation's vault numbers after the previous line -/
structure Obs where
  tv : Int := 0
  supply : Int := 0
  cash : Int := 0
  rate : Int := 0
  deriving Inhabited

/-- a pending explicit pair: the bond's amount and the implementation's rate / supply / value before it -/
structure Pair where
  user : Int
  a : Int
  r : Int
  tv : Int
  supply : Int
  minted : Int

structure S where
  model : St := default
  ir : Int := 0          -- Params.InterestRate (raw)
  last : Int := 0        -- Debt.LastInterestCalcTime
  computeInterest : Bool := true
  prev : Obs := {}
  pair : Option Pair := none
  deriving Inhabited

def errName : Except Err α → String
  | .ok _ => "ok"
  | .error .panicNegCoin => "panic"
  | .error _ => "fail"

def stJson (s : St) : Json := Json.mkObj [("tv", mkInt s.tv), ("supply", mkInt s.supply), ("cash", mkInt s.cash),
  ("borrowed", mkInt s.borrowed), ("stacked", mkInt s.stacked), ("paid", mkInt s.paid)]

def parseSt (j : Json) : Option St := do
  let tv ← fInt? j "tv"; let supply ← fInt? j "supply"; let cash ← fInt? j "cash"
  let b ← fInt? j "borrowed"; let s ← fInt? j "stacked"; let p ← fInt? j "paid"
  some { tv := tv, supply := supply, cash := cash, borrowed := b, stacked := s, paid := p }

/-! the property predicates, exactly the inequalities of Props/C07.lean -/

/-- C07.bond_unbond_tight -/
def okBondUnbond (a r supply p : Int) : Bool :=
  decide (2 * (P * P * P) * (p - a) ≤ P * P * P + (P * P + P + 2) * r + 4 * supply * P)
/-- C07.bond_unbond -/
def okBondUnbondCeil (a r supply p : Int) : Bool := decide (p ≤ a + Dec.ceilInt r + (4 * supply) / (P * P))
/-- C07.others_unharmed_bond -/
def okOthersBond (h r v v' : Int) : Bool := decide (2 * (P * P) * (v - v') < 2 * (P * P) + (P + 1) * (2 * h + r))
/-- C07.others_unharmed_unbond -/
def okOthersUnbond (supply supply' v v' : Int) : Bool :=
  decide (2 * (P * P) * (v - v') < 3 * (P * P) + P * (supply + supply') + 2 * supply')
/-- C07.rate_mono_partial (bond) -/
def okRateBond (r r' supply' : Int) : Bool := decide (2 * P * ((r - r') * supply') < (P + 1) * (2 * supply' + r))
/-- C07.rate_mono_partial_unbond -/
def okRateUnbond (r r' supply supply' : Int) : Bool :=
  decide (2 * P * ((r - r') * supply') < P * (supply + P + supply') + 2 * supply')

def handle (s : S) (i : Nat) (j : Json) : S × List Json :=
  match fStr? j "t" with
  | some "c07.begin" =>
    match parseSt j, fInt? j "ir", fInt? j "now", fInt? j "rate" with
    | some st, some ir, some now, some rate =>
      ({ model := st, ir := ir, last := now, prev := { tv := st.tv, supply := st.supply, cash := st.cash, rate := rate } },
        if Stable.rate st.tv st.supply != rate then [verdictDiff i "rate" (mkInt (Stable.rate st.tv st.supply)) (mkInt rate)] else [verdictOk i])
    | _, _, _, _ => (s, [verdictBad i "c07.begin fields"])
  | some "c07.op" =>
    let after := fld j "after"
    let pre := fld j "pre"
    match fStr? j "op", fInt? j "amt", fInt? j "now", fStr? j "res", parseSt after, fInt? after "rate" with
    | some op, some amt, some now, some res, some iSt, some iRate =>
      match fInt? pre "bal", fInt? pre "held", fInt? after "held", fInt? after "dbal", fInt? after "h0", fInt? j "user" with
      | some bal, some held, some heldAfter, some dbal, some h0, some user =>
        let m := s.model
        let intr := interestSimple m.borrowed s.ir (now - s.last)
        -- model step: (result kind, new state, amount out (shares minted / payout))
        let (mres, mst, mout) : String × St × Int :=
          match op with
          | "bond" => let r := bond m amt bal; (errName r, (r.toOption.map (·.1)).getD m, (r.toOption.map (·.2)).getD 0)
          | "unbond" => let r := unbond m amt held; (errName r, (r.toOption.map (·.1)).getD m, (r.toOption.map (·.2)).getD 0)
          | "borrow" => let r := borrow m amt intr; (errName r, r.toOption.getD m, 0)
          | "repay" => let r := repay m amt intr bal; (errName r, r.toOption.getD m, 0)
          | "accrue" => if m.borrowed = 0 then ("fail", m, 0) else ("ok", accrue m intr, 0)
          | "gift" => ("ok", { m with tv := m.tv + amt, cash := m.cash + amt }, 0)
          | "govparams" => ("ok", m, 0)   -- a parameter update: TotalValue is vault accounting, not a governance setting
          | _ => ("bad", m, 0)
        if mres == "bad" then (s, [verdictBad i "c07.op op"]) else
        let ok := res == "ok"
        -- what the implementation's user-side balances say was minted / paid / moved
        let iMinted := heldAfter - held
        let mHeld := if mres == "ok" then (if op == "bond" then held + mout else if op == "unbond" then held - amt else held) else held
        let mDbal : Int := if mres == "ok" then
            (match op with | "bond" => -amt | "unbond" => mout | "borrow" => amt | "repay" => -amt | "gift" => amt | _ => 0) else 0
        let mRate := rate mst.tv mst.supply
        let diffs : List Json :=
          (if mres != res then [verdictDiff i "result" mres res] else []) ++
          (if mst != iSt then [verdictDiff i "state" (stJson mst) (stJson iSt)] else []) ++
          (if mRate != iRate then [verdictDiff i "rate" (mkInt mRate) (mkInt iRate)] else []) ++
          (if mHeld != heldAfter then [verdictDiff i (if op == "bond" then "shares-minted" else "shares-held") (mkInt mHeld) (mkInt heldAfter)] else []) ++
          (if mDbal != dbal then [verdictDiff i (if op == "unbond" then "payout" else "deposit-balance-delta") (mkInt mDbal) (mkInt dbal)] else [])
        -- property predicates on the implementation's own numbers
        let pv := s.prev
        let healthy := pv.supply > 0 && pv.tv ≥ 0 && pv.rate > 0      -- the theorems' hypotheses 0 < S, 0 ≤ TV, 0 < rate
        let lender := ok && user != 0 && healthy
        let v := payoutFor h0 pv.rate
        let v' := payoutFor h0 iRate
        let viols : List Json :=
          -- C07.bond_unbond: explicit pairs
          (match s.pair with
           | some p =>
             if op == "unbond" && ok && (fBool? j "pair").getD false && user == p.user && amt == p.minted
                && p.supply > 0 && p.tv ≥ 0 && p.r > 0 then
               (if !(okBondUnbond p.a p.r p.supply dbal && okBondUnbondCeil p.a p.r p.supply dbal) then
                 [verdictViol i "C07.bond_unbond" (Json.mkObj [("a", mkInt p.a), ("minted", mkInt p.minted), ("payout", mkInt dbal),
                    ("rateBefore", mkInt p.r), ("supplyBefore", mkInt p.supply), ("tvBefore", mkInt p.tv)])] else [])
             else []
           | none => []) ++
          -- C07.others_unharmed: the passive holder u0
          (if lender && h0 > 0 && h0 ≤ pv.supply && op == "bond" && !okOthersBond h0 pv.rate v v' then
            [verdictViol i "C07.others_unharmed" (Json.mkObj [("op", op), ("h", mkInt h0), ("before", mkInt v), ("after", mkInt v'),
              ("rateBefore", mkInt pv.rate), ("rateAfter", mkInt iRate)])] else []) ++
          (if lender && h0 > 0 && h0 ≤ iSt.supply && pv.cash ≤ pv.tv && op == "unbond" && !okOthersUnbond pv.supply iSt.supply v v' then
            [verdictViol i "C07.others_unharmed" (Json.mkObj [("op", op), ("h", mkInt h0), ("before", mkInt v), ("after", mkInt v'),
              ("rateBefore", mkInt pv.rate), ("rateAfter", mkInt iRate)])] else []) ++
          -- C07.rate_mono_partial
          (if lender && op == "bond" && !okRateBond pv.rate iRate iSt.supply then
            [verdictViol i "C07.rate_mono" (Json.mkObj [("op", op), ("rateBefore", mkInt pv.rate), ("rateAfter", mkInt iRate), ("supplyAfter", mkInt iSt.supply)])] else []) ++
          (if lender && op == "unbond" && iSt.supply > 0 && pv.cash ≤ pv.tv && !okRateUnbond pv.rate iRate pv.supply iSt.supply then
            [verdictViol i "C07.rate_mono" (Json.mkObj [("op", op), ("rateBefore", mkInt pv.rate), ("rateAfter", mkInt iRate), ("supplyAfter", mkInt iSt.supply)])] else []) ++
          -- "a share's redemption value never falls because of other parties' actions": a governance parameter update is such an action
          (if op == "govparams" && ok && healthy && iRate < pv.rate then
            [verdictViol i "C07.others_unharmed" (Json.mkObj [("op", op), ("rateBefore", mkInt pv.rate), ("rateAfter", mkInt iRate),
              ("tvBefore", mkInt pv.tv), ("tvAfter", mkInt iSt.tv)])] else []) ++
          -- C07.redeem_fair: shares are redeemed at no more than their share of what the vault really has — its cash plus the loans
          -- outstanding (principal + unpaid interest) —, whatever value the vault states (allowance: the 18-digit rounding of the rate, i.e.
          -- 10⁻¹⁸ per share, plus two base units)
          (let assets := s.model.cash + s.model.borrowed + s.model.stacked - s.model.paid
           if op == "unbond" && ok && pv.supply > 0 && dbal * pv.supply > amt * assets + pv.supply * (2 + amt / 1000000000000000000) then
            [verdictViol i "C07.redeem_fair" (Json.mkObj [("shares", mkInt amt), ("payout", mkInt dbal), ("supplyBefore", mkInt pv.supply),
              ("cashBefore", mkInt s.model.cash), ("loansBefore", mkInt (s.model.borrowed + s.model.stacked - s.model.paid)), ("statedValueBefore", mkInt pv.tv)])] else []) ++
          -- C07.cap: an accepted borrow respects 10·(TV − cash + amt) ≤ 9·TV on the numbers before it, and
          -- afterwards outstanding ≤ 0.9·TV' up to the interest accrued inside the call
          (if op == "borrow" && ok &&
              !(10 * (pv.tv - pv.cash + amt) ≤ 9 * pv.tv && 10 * (iSt.tv - iSt.cash) ≤ 9 * iSt.tv + (iSt.tv - pv.tv)) then
            [verdictViol i "C07.cap" (Json.mkObj [("amt", mkInt amt), ("tvBefore", mkInt pv.tv), ("cashBefore", mkInt pv.cash),
              ("tvAfter", mkInt iSt.tv), ("cashAfter", mkInt iSt.cash)])] else [])
        let pair' : Option Pair :=
          if op == "bond" && ok && (fBool? j "pairFirst").getD false then
            some { user := user, a := amt, r := pv.rate, tv := pv.tv, supply := pv.supply, minted := iMinted }
          else none
        let last' := if ok && (op == "borrow" || op == "repay" || op == "accrue") then now else s.last
        -- after a disagreement continue from the implementation's state, so that every `diff` is a fresh one
        let s' : S := { s with model := (if mst != iSt then iSt else mst), last := last', pair := pair',
                               prev := { tv := iSt.tv, supply := iSt.supply, cash := iSt.cash, rate := iRate } }
        let vs := diffs ++ viols
        (s', if vs.isEmpty then [verdictOk i] else vs)
      | _, _, _, _, _, _ => (s, [verdictBad i "c07.op pre/after fields"])
    | _, _, _, _, _, _ => (s, [verdictBad i "c07.op fields"])
  | some "stats" => (s, [])
  | _ => (s, [verdictBad i "unknown t"])

def run (prop : String) : IO Unit := do
  let stdin ← IO.getStdin
  let stdout ← IO.getStdout
  let _ := prop
  loop stdin stdout handle {} 0

end Elys.Drv.C07
