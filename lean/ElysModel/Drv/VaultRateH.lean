-- DRIVER-PROPS: C07H
/- history-mode handler for C07 (the lending vault seen in real blocks): the vault's stated value changes only by deposits (+),
redemptions (−) and interest (+, never negative). So over a block in which no redemption succeeded the stated value does not fall,
and over a block in which no lender acted at all the redemption value of a share does not fall: whatever borrowers, liquidators,
the begin-blocker's rate model and governance's parameter updates do, they are "other parties" to every lender. -/
import ElysModel.Drv.Hist
open Lean
namespace Elys.Drv.VaultRateH

structure S where
  prev : Option (Int × Int × String) := none    -- (total value, redemption rate raw, deposit denom) after the previous block
  deriving Inhabited

def handle (s : S) (i : Nat) (j : Json) : S × List Json :=
  match fStr? j "t" with
  | some "hist.begin" =>
    let o := Snapshot.parse (fld j "obs")
    ({ prev := some (o.ssTotalValue, o.ssLiveRate, o.ssDenom) }, [verdictOk i])
  | some "hist.step" =>
    let st := parseStep j
    if st.failed then ({ prev := none }, [verdictOk i]) else
    let cur := (st.obs.ssTotalValue, st.obs.ssLiveRate, st.obs.ssDenom)
    match s.prev with
    | none => ({ prev := some cur }, [verdictOk i])
    | some (tv0, r0, d0) =>
      let unbonded := st.txs.any (fun t => t.kind == "ss.unbond" && t.code == 0)
      let bonded := st.txs.any (fun t => t.kind == "ss.bond" && t.code == 0)
      let viols :=
        (if d0 == st.obs.ssDenom && !unbonded && st.obs.ssTotalValue < tv0 then
          [verdictViol i "C07.others_unharmed" (Json.mkObj [("what", "the vault's stated value fell in a block without a redemption"), ("before", mkInt tv0), ("after", mkInt st.obs.ssTotalValue),
            ("txs", Json.arr (st.txs.map (fun t => Json.str t.kind)).toArray)])] else []) ++
        -- the stored rate is an 18-digit quotient recomputed by several code paths: a fall of up to 10^-15 is rounding, not value
        (if d0 == st.obs.ssDenom && !unbonded && !bonded && r0 > 0 && st.obs.ssLiveRate + 1000 < r0 then
          [verdictViol i "C07.others_unharmed" (Json.mkObj [("what", "the redemption rate fell in a block in which no lender acted"), ("rateBefore", mkInt r0), ("rateAfter", mkInt st.obs.ssLiveRate),
            ("txs", Json.arr (st.txs.map (fun t => Json.str t.kind)).toArray)])] else [])
      ({ prev := some cur }, if viols.isEmpty then [verdictOk i] else viols)
  | some "stats" => (s, [])
  | _ => (s, [verdictBad i "unknown t"])

def run (prop : String) : IO Unit := do
  let stdin ← IO.getStdin
  let stdout ← IO.getStdout
  let _ := prop
  loop stdin stdout handle {} 0

end Elys.Drv.VaultRateH
