/-
C05 at the level of observed blocks: a single-asset exit from an oracle pool must not take more than the exiting shares'
pro-rata claim on the pool's value at the oracle prices in force — the value being that of the pool's TRUE accounted
balance (book reserve + perpetual liabilities − perpetual custody per asset), whatever the accounted-pool keeper has stored.
`CalcExitPool` pays `round(value · (1 − weightBreakingFee) / price)` with a fee in [0, 1]; a bonus comes out of the rebalance
treasury, not out of the pool. Core-only.
-/
import ElysModel.Snapshot
namespace Elys.Amm.Fair

/-- perpetual liabilities − custody of `d` recorded for the pool (long and short sides) -/
def netOf (pp : Option PerpPoolObs) (d : String) : Int :=
  match pp with
  | none => 0
  | some p => (p.long ++ p.short).foldl (fun a x => if x.denom == d then a + x.liab - x.custody else a) 0

/-- Σ (reserve + net) · price over the pool's assets (prices: raw decimals per base unit) -/
def tvl (assets : List (String × Int)) (net : String → Int) (price : String → Int) : Int :=
  assets.foldl (fun a x => a + (x.2 + net x.1) * price x.1) 0

/-- `out` base units of an asset priced `priceOut`, paid for `s` of `S` shares of a pool worth `v`: no more than pro rata, up to
`tolPpm` parts per million and `slack` base units of rounding -/
def exitFairB (v S s out priceOut : Int) (tolPpm : Int := 10) (slack : Int := 2) : Bool :=
  (out - slack) * priceOut * S * 1000000 ≤ s * v * (1000000 + tolPpm)

end Elys.Amm.Fair
