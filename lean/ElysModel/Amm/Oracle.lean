/-
L1 (amm): the ORACLE-pool branches of `SwapOutAmtGivenIn` / `SwapInAmtGivenOut`
(x/amm/types/{swap_out_amt_given_in, swap_in_amt_given_out, utils}.go): oracle value, external-liquidity
resize, balancer slippage clamp at 0, weight distance, weight-breaking fee / bonus, swap fee.
`CalcOutAmtGivenIn` / `CalcInAmtGivenOut` with `UseOracle = true` take their weights from the snapshot
pool's oracle values.  Oracle pools have exactly two assets.  Core-only.
-/
import ElysModel.Amm.Swap
namespace Elys.Amm
open Elys

/-- one asset of an oracle pool as the swap sees it. -/
structure OAsset where
  amount : Int        -- pool book balance
  weight : Int        -- target weight
  ext : Int           -- ExternalLiquidityRatio (raw Dec)
  price : Int         -- oracle price of the denom (raw Dec), 0 = not set
  acc : Int := 0      -- AccountedPoolKeeper.GetAccountedBalance (0 = none)
  snap : Int          -- balance in the snapshot pool
deriving Repr, DecidableEq, Inhabited

/-- amm `Params` fields the swap reads, plus the caller's perpetual factor. -/
structure OParams where
  exponent : Int
  multiplier : Int
  portion : Int
  threshold : Int
  perpFactor : Int
deriving Repr, DecidableEq, Inhabited

/-- (amount, target weight, price) triples: the `[]PoolAsset` values the weight functions take. -/
abbrev WAsset := Int × Int × Int

def sumC : List Int → Except Err Int
  | [] => .ok 0
  | x :: xs => do
    let s ← sumC xs
    addC x s

/-- left fold with the range assertion at every `Add`, as the Go loops do. -/
def sumLeftC (init : Int) : List Int → Except Err Int
  | [] => .ok init
  | x :: xs => do
    let s ← addC init x
    sumLeftC s xs

def mapE {α β : Type} (f : α → Except Err β) : List α → Except Err (List β)
  | [] => .ok []
  | a :: as => do
    let x ← f a
    let xs ← mapE f as
    pure (x :: xs)

/-- `NormalizedWeights`: weightᵢ / Σ weight (Σ = 0 is replaced by 1). -/
def normalizedWeights (as : List WAsset) : Except Err (List Int) :=
  let total := (as.map (·.2.1)).foldl (· + ·) 0
  let total := if total = 0 then 1 else total
  mapE (fun a => quoC (a.2.1 * P) (total * P)) as

/-- `GetOraclePoolNormalizedWeights`: amountᵢ·priceᵢ / Σ; `.noPrice` when a price is not set. -/
def oracleWeights (as : List WAsset) : Except Err (List Int) := do
  let rec go (total : Int) : List WAsset → Except Err (List Int × Int)
    | [] => .ok ([], total)
    | a :: rest =>
      if a.2.2 = 0 then .error .noPrice
      else do
        let w ← mulC (a.1 * P) a.2.2
        let t ← addC total w
        let (ws, tot) ← go t rest
        pure (w :: ws, tot)
  let (ws, total) ← go 0 as
  let total := if total = 0 then P else total
  mapE (fun w => quoC w total) ws

/-- callers that treat the "price not set" error as a zero / skip. -/
def orNoPrice {α : Type} (dflt : α) : Except Err α → Except Err α
  | .error .noPrice => .ok dflt
  | r => r

/-- `Pool.WeightDistanceFromTarget(poolAssets)`; `n` = len(p.PoolAssets). -/
def weightDistance (as : List WAsset) (n : Nat) : Except Err Int := do
  match oracleWeights as with
  | .error .noPrice => .ok 0
  | .error e => .error e
  | .ok ow =>
    let tw ← normalizedWeights as
    let ds ← mapE (fun (p : Int × Int) => (subC p.1 p.2).map (fun d => (d.natAbs : Int))) (tw.zip ow)
    let s ← sumLeftC 0 ds
    if n = 0 then .ok 0 else quoC s ((n : Int) * P)

/-- `GetDenomOracleAssetWeight(poolAssets, denom)` for the asset at index `i`. -/
def denomOracleWeight (as : List WAsset) (i : Nat) : Except Err Int :=
  match oracleWeights as with
  | .error .noPrice => .ok 0
  | .error e => .error e
  | .ok ow => .ok (ow.getD i 0)

/-- `GetDenomNormalizedWeight(poolAssets, denom)`. -/
def denomNormalizedWeight (as : List WAsset) (i : Nat) : Except Err Int := do
  let tw ← normalizedWeights as
  pure (tw.getD i 0)

def cap99 : Int := 990000000000000000

/-- `GetWeightBreakingFee`. -/
def weightBreakingFee (finalIn finalOut targetIn targetOut initIn initOut distanceDiff : Int) (pr : OParams) :
    Except Err Int :=
  if pr.multiplier = 0 then .ok 0
  else do
    let wbf ←
      if distanceDiff > 0 then
        (if finalOut ≠ 0 ∧ finalIn ≠ 0 ∧ targetOut ≠ 0 ∧ targetIn ≠ 0 then do
          let r ← mulC finalIn targetOut
          let r ← quoC r finalOut
          let r ← quoC r targetIn
          let pw ← pow r pr.exponent
          mulC pr.multiplier pw
        else pure 0)
      else
        (if initOut ≠ 0 ∧ initIn ≠ 0 ∧ targetOut ≠ 0 ∧ targetIn ≠ 0 then do
          let r ← mulC initOut targetIn
          let r ← quoC r initIn
          let r ← quoC r targetOut
          let pw ← pow r pr.exponent
          mulC pr.multiplier pw
        else pure 0)
    pure (if wbf > cap99 then cap99 else wbf)

/-- a two-asset oracle pool, in pool order; the swap goes from index `iIn` to the other asset. -/
structure OPool where
  a0 : OAsset
  a1 : OAsset
deriving Repr, DecidableEq, Inhabited

def OPool.get (p : OPool) (i : Nat) : OAsset := if i = 0 then p.a0 else p.a1
def OAsset.eff (a : OAsset) : Int := if a.acc > 0 then a.acc else a.amount

/-- `Pool.CalcOutAmtGivenIn` with `UseOracle = true` (weights from the snapshot's oracle values,
rate = priceIn / priceOut). -/
def oCalcOut (ai ao : OAsset) (amtIn fee : Int) : Except Err (Int × Int) := do
  let oneMinusFee ← subC P fee
  let inAfterFee ← mulC (amtIn * P) oneMinusFee
  let poolIn := ai.eff * P
  let poolOut := ao.eff * P
  let post ← addC poolIn inAfterFee
  let ws ← oracleWeights [(ai.snap, ai.weight, ai.price), (ao.snap, ao.weight, ao.price)]
  let inW := ws.getD 0 0
  let outW := ws.getD 1 0
  let tokOut ← solveCFI poolIn post inW poolOut outW
  if tokOut = 0 then .error .tokenOutZero
  else if ai.price = 0 ∨ ao.price = 0 then .error .noPrice
  else do
    let rate ← quoC ai.price ao.price
    let noSlip ← mulC inAfterFee rate
    if noSlip = 0 then .error .invalidMathApprox
    else do
      let q ← quoC tokOut noSlip
      let slippage ← subC P q
      let out := tokOut.tdiv P
      if out ≤ 0 then .error .tokenOutZero else pure (out, slippage)

/-- `Pool.CalcInAmtGivenOut` with `UseOracle = true`. -/
def oCalcIn (ai ao : OAsset) (amtOut fee : Int) : Except Err (Int × Int) := do
  let ws ← oracleWeights [(ai.snap, ai.weight, ai.price), (ao.snap, ao.weight, ao.price)]
  let inW := ws.getD 0 0
  let outW := ws.getD 1 0
  let poolOut := ao.eff * P
  let poolIn := ai.eff * P
  let post ← subC poolOut (amtOut * P)
  let tin ← solveCFI poolOut post outW poolIn inW
  let tin := -tin
  if ai.price = 0 ∨ ao.price = 0 then .error .noPrice
  else do
    let rate ← quoC ai.price ao.price
    let noSlip ← quoC (amtOut * P) rate
    if tin = 0 then .error .amountTooLow
    else do
      let q ← quoC tin noSlip
      let slippage ← subC P q
      if fee ≥ P then .error .tooMuchSwapFee
      else do
        let oneMinusFee ← subC P fee
        let before ← quoC tin oneMinusFee
        let c ← ceilC before
        if c ≤ 0 then .error .invalidMathApprox else pure (c, slippage)

/-- the (amount, weight, price) view of the pool with accounted balances substituted. -/
def accountedAssets (p : OPool) : List WAsset :=
  [(p.a0.eff, p.a0.weight, p.a0.price), (p.a1.eff, p.a1.weight, p.a1.price)]

/-- `NewPoolAssetsAfterSwap` on two assets: add `dIn` to index `iIn`, remove `dOut` from the other. -/
def afterSwap (as : List WAsset) (iIn : Nat) (dIn dOut : Int) : Except Err (List WAsset) :=
  let upd (k : Nat) (a : WAsset) : Int := if k = iIn then a.1 + dIn else a.1 - dOut
  match as with
  | [x, y] =>
    let nx := upd 0 x
    if nx < 0 then .error .badArgs
    else
      let ny := upd 1 y
      if ny < 0 then .error .badArgs else .ok [(nx, x.2.1, x.2.2), (ny, y.2.1, y.2.2)]
  | _ => .error .badArgs

structure OSwapRes where
  amount : Int
  slippage : Int
  slippageAmount : Int
  bonus : Int
  oracleAmount : Int
  /-- ghost (not returned by the Go function): the weight-breaking fee actually applied. -/
  wbf : Int := 0
deriving Repr, DecidableEq, Inhabited

/-- fee / bonus tail shared by both directions: returns (weightBreakingFee, weightBalanceBonus). -/
def feeAndBonus (p : OPool) (iIn : Nat) (newAssets : List WAsset) (pr : OParams) (initialDist : Int) :
    Except Err (Int × Int) := do
  let iOut := 1 - iIn
  let wd ← weightDistance newAssets 2
  let distanceDiff ← subC wd initialDist
  let targetIn ← denomNormalizedWeight newAssets iIn
  let targetOut ← denomNormalizedWeight newAssets iOut
  let finalIn ← denomOracleWeight newAssets iIn
  let finalOut ← denomOracleWeight newAssets iOut
  let initAssets := accountedAssets p
  let initIn ← denomOracleWeight initAssets iIn
  let initOut ← denomOracleWeight initAssets iOut
  let wbf ← weightBreakingFee finalIn finalOut targetIn targetOut initIn initOut distanceDiff pr
  let wbf ← mulC wbf pr.perpFactor
  let reward ← mulC wbf pr.portion
  if distanceDiff < 0 then
    pure (0, if initialDist > pr.threshold then reward else 0)
  else pure (wbf, -wbf)

/-- `Pool.SwapOutAmtGivenIn`, `UseOracle = true`. -/
def oSwapOut (p : OPool) (iIn : Nat) (amtIn fee : Int) (pr : OParams) : Except Err OSwapRes := do
  let ai := p.get iIn
  let ao := p.get (1 - iIn)
  if ai.price = 0 then .error .noPrice
  else if ao.price = 0 then .error .noPrice
  else do
    let initialDist ← weightDistance (accountedAssets p) 2
    let v ← mulC (amtIn * P) ai.price
    let oracleOut ← quoC v ao.price
    if ao.ext = 0 then .error .amountTooLow
    else do
      let rs ← quoC (amtIn * P) ao.ext
      let resized := Dec.roundInt rs
      if resized < 0 then .error .panicNegCoin
      else do
        -- CalcGivenInSlippage
        let (balOut, _) ← oCalcOut ai ao resized 0
        let v2 ← mulC (resized * P) ai.price
        let oracleOut2 ← quoC v2 ao.price
        let sa ← subC oracleOut2 (balOut * P)
        let slippageAmount := if sa < 0 then 0 else sa
        let se ← mulC slippageAmount ao.ext
        let outAfterSlip ← subC oracleOut se
        let slippage ← quoC se oracleOut
        let outTrunc := outAfterSlip.tdiv P
        if outTrunc < 0 then .error .panicNegCoin
        else do
          let newAssets ← afterSwap (accountedAssets p) iIn amtIn outTrunc
          let (wbf, bonus) ← feeAndBonus p iIn newAssets pr initialDist
          if fee ≥ P then .error .tooMuchSwapFee
          else do
            let f1 ← subC P wbf
            let o1 ← mulC outAfterSlip f1
            let f2 ← subC P fee
            let o2 ← mulC o1 f2
            let out := o2.tdiv P
            if out < 0 then .error .panicNegCoin
            else pure { amount := out, slippage := slippage, slippageAmount := slippageAmount, bonus := bonus, oracleAmount := oracleOut, wbf := wbf }

/-- `Pool.SwapInAmtGivenOut`, `UseOracle = true`. -/
def oSwapIn (p : OPool) (iIn : Nat) (amtOut fee : Int) (pr : OParams) : Except Err OSwapRes := do
  let ai := p.get iIn
  let ao := p.get (1 - iIn)
  if ai.price = 0 then .error .noPrice
  else if ao.price = 0 then .error .noPrice
  else do
    let initialDist ← weightDistance (accountedAssets p) 2
    let v ← mulC (amtOut * P) ao.price
    let oracleIn ← quoC v ai.price
    if ao.ext = 0 then .error .amountTooLow
    else do
      let rs ← quoC (amtOut * P) ao.ext
      let resized := Dec.roundInt rs
      if resized < 0 then .error .panicNegCoin
      else do
        -- CalcGivenOutSlippage
        let (balIn, _) ← oCalcIn ai ao resized 0
        let v2 ← mulC (resized * P) ao.price
        let oracleIn2 ← quoC v2 ai.price
        let sa ← subC (balIn * P) oracleIn2
        let slippageAmount := if sa < 0 then 0 else sa
        let se ← mulC slippageAmount ao.ext
        let inAfterSlip ← addC oracleIn se
        let slippage ← quoC se oracleIn
        let inTrunc := inAfterSlip.tdiv P
        if inTrunc < 0 then .error .panicNegCoin
        else do
          let newAssets ← afterSwap (accountedAssets p) iIn inTrunc amtOut
          let (wbf, bonus) ← feeAndBonus p iIn newAssets pr initialDist
          if fee ≥ P then .error .tooMuchSwapFee
          else do
            let f1 ← subC P wbf
            let i1 ← quoC inAfterSlip f1
            let f2 ← subC P fee
            let i2 ← quoC i1 f2
            let c ← ceilC i2
            if c < 0 then .error .panicNegCoin
            else pure { amount := c, slippage := slippage, slippageAmount := slippageAmount, bonus := bonus, oracleAmount := oracleIn, wbf := wbf }

end Elys.Amm
