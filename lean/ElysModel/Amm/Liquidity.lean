/-
L1 (amm): all-asset join and pro-rata exit of a NON-oracle pool, as coded in
x/amm/types/{pool_calc_join_pool_no_swap_shares, pool_join_pool, calc_exit_pool, pool_exit_pool, pool}.go.
A pool is the list of its asset balances (in the pool's denom order) and its total shares; deposit and
payout lists are aligned with that list (0 = no coin of that denom).  Core-only.
-/
import ElysModel.Amm.Base
namespace Elys.Amm
open Elys

/-- `LegacyMaxSortableDec` = 1 / 10^-18 = 10^18 as a value. -/
def maxSortableDec : Int := P * P

/-- `math.Int` results are asserted to fit 256 bits (`integer overflow` panic). -/
def maxInt : Int := 115792089237316195423570985008687907853269984665640564039457584007913129639936
def chkI (a : Int) : Except Err Int := if -maxInt < a ∧ a < maxInt then .ok a else .error .panicOverflow

/-- map a fallible function over a list, left to right (first error wins). -/
def mapM1 (f : Int → Except Err Int) : List Int → Except Err (List Int)
  | a :: as => do
    let x ← f a
    let xs ← mapM1 f as
    pure (x :: xs)
  | [] => .ok []

/-- zip three aligned lists through a fallible function, left to right. -/
def mapM3 (f : Int → Int → Int → Except Err Int) : List Int → List Int → List Int → Except Err (List Int)
  | a :: as, b :: bs, c :: cs => do
    let x ← f a b c
    let xs ← mapM3 f as bs cs
    pure (x :: xs)
  | _, _, _ => .ok []

def mapM2 (f : Int → Int → Except Err Int) : List Int → List Int → Except Err (List Int)
  | a :: as, b :: bs => do
    let x ← f a b
    let xs ← mapM2 f as bs
    pure (x :: xs)
  | _, _ => .ok []

/-! ### exit -/

/-- one asset of the pro-rata loop of `CalcExitPool`: ⌊ratio · balance⌋, skipped when ≤ 0,
an error when it would take the whole balance. A zero balance is not in `GetTotalPoolLiquidity`. -/
def exitOne (ratio b : Int) : Except Err Int :=
  if b = 0 then .ok 0
  else do
    let m ← mulIntC ratio b
    let e := m.tdiv P
    if e ≤ 0 then pure 0
    else if e ≥ b then .error .tooManySharesOut
    else pure e

/-- `CalcExitPool` (non-oracle / `tokenOutDenom = ""`): exiting `x` of `S` total shares. -/
def calcExit (bals : List Int) (S x : Int) : Except Err (List Int) :=
  if x ≥ S then .error .limitMax
  else do
    let ratio ← quoIntC (x * P) S
    mapM1 (exitOne ratio) bals

/-- one asset of `processExitPool`: the book balance minus the payout, for every coin actually paid.
`sdk.NewCoin` panics on a negative remainder; `UpdatePoolAssetBalance` rejects a zero one. -/
def exitUpdateOne (b o : Int) : Except Err Int :=
  if o = 0 then .ok b
  else if b - o < 0 then .error .panicNegCoin
  else if b - o = 0 then .error .badArgs
  else .ok (b - o)

/-- `Pool.ExitPool` = `CalcExitPool` + `processExitPool`: returns (payouts, new balances, new total shares). -/
def exitPool (bals : List Int) (S x : Int) : Except Err (List Int × List Int × Int) := do
  let outs ← calcExit bals S x
  let newBals ← mapM2 exitUpdateOne bals outs
  if S - x < 0 then .error .panicNegCoin else pure (outs, newBals, S - x)

/-- keeper `ExitPool` guards in front of `Pool.ExitPool`. -/
def keeperExit (bals : List Int) (S x : Int) : Except Err (List Int × List Int × Int) :=
  if x ≥ S then .error .invalidMathApprox
  else if x ≤ 0 then .error .invalidMathApprox
  else exitPool bals S x

/-! ### all-asset join -/

def minList (init : Int) (l : List Int) : Int := l.foldl (fun m r => if r < m then r else m) init
def maxList (init : Int) (l : List Int) : Int := l.foldl (fun m r => if r > m then r else m) init

/-- remaining (unused) amount of one deposit in `MaximalExactRatioJoin`. -/
def remOne (minRatio : Int) (b dep ratio : Int) : Except Err Int :=
  if ratio = minRatio then .ok 0
  else do
    let m ← mulIntC minRatio b
    let used ← ceilC m
    pure (dep - used)

/-- the `remCoins` loop of `MaximalExactRatioJoin` (skipped when all share ratios are equal). -/
def remsOf (minR maxR : Int) (bals deps ratios : List Int) : Except Err (List Int) :=
  if minR = maxR then .ok (deps.map (fun _ => (0 : Int)))
  else mapM3 (remOne minR) bals deps ratios

/-- `MaximalExactRatioJoin(p, tokensIn)`: (numShares, remCoins). `deps` has one positive entry per pool asset. -/
def maximalExactRatioJoin (bals : List Int) (S : Int) (deps : List Int) : Except Err (Int × List Int) := do
  let ratios ← mapM2 (fun dep b => quoIntC (dep * P) b) deps bals
  let minR := minList maxSortableDec ratios
  let maxR := maxList 0 ratios
  if minR = maxSortableDec then .error .unexpectedJoin
  else do
    let m ← mulIntC minR S
    let shares := m.tdiv P
    let rems ← remsOf minR maxR bals deps ratios
    pure (shares, rems)

/-- `Pool.CalcJoinPoolNoSwapShares(tokensIn)`: (numShares, tokensJoined). -/
def calcJoinNoSwap (bals : List Int) (S : Int) (deps : List Int) : Except Err (Int × List Int) :=
  if deps.length ≠ bals.length ∨ deps.any (· ≤ 0) then .error .badArgs
  else do
    let (shares, rems) ← maximalExactRatioJoin bals S deps
    let joined := List.zipWith (· - ·) deps rems
    if joined.any (· < 0) then .error .panicNegCoin
    else if (List.zipWith (fun j d => decide (j > d)) joined deps).any id then .error .moreJoined
    else pure (shares, joined)

/-- `Pool.JoinPool` with more than one coin: (tokensJoined, numShares, new balances, new total shares). -/
def joinPoolAll (bals : List Int) (S : Int) (deps : List Int) : Except Err (List Int × Int × List Int × Int) := do
  let (shares, joined) ← calcJoinNoSwap bals S deps
  let newBals ← mapM2 (fun b j => chkI (b + j)) bals joined
  let newS ← chkI (S + shares)
  pure (joined, shares, newBals, newS)

/-- one asset of `GetMaximalNoSwapLPAmount`: ⌈balance · shareRatio⌉ (with the `Mul` rounding first). -/
def neededOne (ratio b : Int) : Except Err Int :=
  if b = 0 then .ok 0
  else do
    let n ← mulC (b * P) ratio
    let c ← ceilC n
    if c ≤ 0 then .error .invalidMathApprox else pure c

/-- `Pool.GetMaximalNoSwapLPAmount(shareOutAmount)`. -/
def maximalNoSwapLP (bals : List Int) (S shareOut : Int) : Except Err (List Int) := do
  let ratio ← quoIntC (shareOut * P) S
  if ratio ≤ 0 then .error .invalidMathApprox
  else mapM1 (neededOne ratio) bals

end Elys.Amm
