/-
L1 (amm): `solveConstantFunctionInvariant`, `CalculateTokenARate`, `CalcOutAmtGivenIn`,
`CalcInAmtGivenOut` for NON-oracle pools (x/amm/types/{solve_constant_function_invariant,
calc_out_amt_given_in, calc_in_amt_given_out, amm_price}.go), as coded.  Core-only.
-/
import ElysModel.Amm.Pow
namespace Elys.Amm
open Elys

/-- `solveConstantFunctionInvariant(xBefore, xAfter, wX, yBefore, wY)` on raw Decs:
`yBefore · (1 − (xBefore/xAfter)^(wX/wY))`. -/
def solveCFI (xb xa wx yb wy : Int) : Except Err Int :=
  if wy = 0 then .error .amountTooLow
  else do
    let wr ← quoC wx wy
    if xa ≤ 0 then .error .amountTooLow
    else do
      let y ← quoC xb xa
      let p ← pow y wr
      let par ← subC P p
      mulC yb par

/-- `CalculateTokenARate(balA, wA, balB, wB)` = balB · wA / wB / balA (all raw Decs). -/
def tokenARate (balA wA balB wB : Int) : Except Err Int :=
  if balA = 0 ∨ wB = 0 then .ok 0
  else do
    let t ← mulC balB wA
    let t ← quoC t wB
    quoC t balA

/-- the two-asset view of a non-oracle pool that a swap reads. Amounts and weights are integers;
`accIn`/`accOut` are what `AccountedPoolKeeper.GetAccountedBalance` returns (0 = none). -/
structure SwapPool where
  balIn : Int
  balOut : Int
  wIn : Int
  wOut : Int
  accIn : Int := 0
  accOut : Int := 0
deriving Repr, DecidableEq, Inhabited

def SwapPool.effIn (p : SwapPool) : Int := if p.accIn > 0 then p.accIn else p.balIn
def SwapPool.effOut (p : SwapPool) : Int := if p.accOut > 0 then p.accOut else p.balOut

/-- `Pool.CalcOutAmtGivenIn` (UseOracle = false): returns (tokenOut amount, slippage). -/
def calcOutGivenIn (p : SwapPool) (amtIn fee : Int) : Except Err (Int × Int) := do
  let oneMinusFee ← subC P fee
  let inAfterFee ← mulC (amtIn * P) oneMinusFee
  let poolIn := p.effIn * P
  let poolOut := p.effOut * P
  let post ← addC poolIn inAfterFee
  let tokOut ← solveCFI poolIn post (p.wIn * P) poolOut (p.wOut * P)
  if tokOut = 0 then .error .tokenOutZero
  else do
    let rate ← tokenARate (p.balIn * P) (p.wIn * P) (p.balOut * P) (p.wOut * P)
    let noSlip ← mulC inAfterFee rate
    if noSlip = 0 then .error .invalidMathApprox
    else do
      let q ← quoC tokOut noSlip
      let slippage ← subC P q
      let out := tokOut.tdiv P
      if out ≤ 0 then .error .tokenOutZero else pure (out, slippage)

/-- `Pool.CalcInAmtGivenOut` (UseOracle = false): returns (tokenIn amount, slippage). -/
def calcInGivenOut (p : SwapPool) (amtOut fee : Int) : Except Err (Int × Int) := do
  let poolOut := p.effOut * P
  let poolIn := p.effIn * P
  let post ← subC poolOut (amtOut * P)
  let tin ← solveCFI poolOut post (p.wOut * P) poolIn (p.wIn * P)
  let tin := -tin
  let rate ← tokenARate (p.balIn * P) (p.wIn * P) (p.balOut * P) (p.wOut * P)
  let noSlip ← quoC (amtOut * P) rate
  if tin = 0 then .error .amountTooLow
  else do
    let q ← quoC tin noSlip
    let slippage ← subC P q
    if fee ≥ P then .error .tooMuchSwapFee
    else do
      let oneMinusFee ← subC P fee
      let before ← quoC tin oneMinusFee
      let c ← ceilC before
      if c ≤ 0 then .error .invalidMathApprox else pure (c, slippage)

end Elys.Amm
