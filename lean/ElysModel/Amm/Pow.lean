/-
L1 (amm): `Pow` and `powerApproximation` of x/amm/types/{pow.go, pow_approx.go}, all branches:
integer exponent via `Power`, one-half via `ApproxSqrt`, Maclaurin series on [0.5, 2), exp∘ln elsewhere.
Iteration caps (`powIterationLimit = 150000`) are the fuel.  Core-only.
-/
import ElysModel.Amm.Base
namespace Elys.Amm
open Elys

def oneHalf : Int := 500000000000000000
def twoDec : Int := 2 * P
def ln2 : Int := 693147180559945309
def inverseLn2 : Int := 1442695040888963407
def euler : Int := 2718281828459045235
def powIterationLimit : Nat := 150000
/-- 0.00000001 -/
def powPrecision : Int := 10000000000

/-- `AbsDifferenceWithSign(a, b)` = (|a − b|, a < b); both branches assert the range. -/
def absDiffSign (a b : Int) : Except Err (Int × Bool) :=
  if a ≥ b then (subC a b).map (·, false) else (addC (-a) b).map (·, true)

/-- the loop of `maclaurinSeriesApproximation`; `i` is the Go loop counter (starts at 1). -/
def maclaurinLoop (x : Int) (xneg : Bool) (exp : Int) : Nat → Nat → Int → Int → Bool → Except Err Int
  | 0, _, _, sum, _ => .ok sum   -- unreachable: the Go loop panics at i = powIterationLimit first
  | fuel + 1, i, term, sum, negative =>
    if term < powPrecision then .ok sum else do
      let (c, cneg) ← absDiffSign exp (((i : Int) - 1) * P)
      let t ← mulC term c
      let t ← mulC t x
      let t ← quoC t ((i : Int) * P)
      if t = 0 then pure sum else do
        let negative := if xneg then !negative else negative
        let negative := if cneg then !negative else negative
        let sum' ← if negative then subC sum t else addC sum t
        if i = powIterationLimit then .error .panicPow
        else maclaurinLoop x xneg exp fuel (i + 1) t sum' negative

/-- `maclaurinSeriesApproximation(base, exp, powPrecision)`; every error is a panic in Go. -/
def maclaurin (base exp : Int) : Except Err Int :=
  if base ≤ 0 then .error .panicPow
  else if exp = 0 then .ok P
  else if exp = oneHalf then
    match approxSqrtC base with
    | .ok v => .ok v
    | .error _ => .error .panicPow
  else do
    let (x, xneg) ← absDiffSign base P
    maclaurinLoop x xneg exp (powIterationLimit + 1) 1 P P false

/-- first loop of `computeLn`: halve while x > 2. -/
def lnHalve : Nat → Int → Int → Except Err (Int × Int)
  | 0, _, _ => .error .panicPow
  | fuel + 1, x, k => if x > twoDec then do let x' ← quoC x twoDec; lnHalve fuel x' (k + 1) else .ok (x, k)
/-- second loop: double while x < 0.5. -/
def lnDouble : Nat → Int → Int → Except Err (Int × Int)
  | 0, _, _ => .error .panicPow
  | fuel + 1, x, k => if x < oneHalf then do let x' ← mulIntC x 2; lnDouble fuel x' (k - 1) else .ok (x, k)

/-- series loop of `computeLn`; `n` starts at 1. Exceeding the iteration limit is a returned error. -/
def lnLoop (y : Int) : Nat → Nat → Int → Int → Except Err Int
  | 0, _, result, _ => .ok result
  | fuel + 1, n, result, yPower => do
    let sign : Int := if (n + 1) % 2 = 0 then 1 else -1
    let t ← mulIntC yPower sign
    let term := t.tdiv (n : Int)
    let result' ← addC result term
    if powPrecision > term.natAbs then pure result'
    else if n > powIterationLimit then .error .powErr
    else do
      let yp ← mulC yPower y
      lnLoop y fuel (n + 1) result' yp

def computeLn (x : Int) : Except Err Int :=
  if x ≤ 0 then .error .powErr
  else if x = P then .ok 0
  else if x = twoDec then .ok ln2
  else do
    let (x, k) ← lnHalve 2000 x 0
    let (x, k) ← lnDouble 2000 x k
    let y ← subC x P
    let r ← lnLoop y (powIterationLimit + 2) 1 0 y
    let kl ← mulIntC ln2 k
    addC r kl

/-- series loop of `computeExp`; `n` starts at 1. -/
def expLoop (y : Int) : Nat → Nat → Int → Int → Except Err Int
  | 0, _, expY, _ => .ok expY
  | fuel + 1, n, expY, term => do
    let t ← mulC term y
    let term' := t.tdiv (n : Int)
    let expY' ← addC expY term'
    if (term'.natAbs : Int) ≤ powPrecision then pure expY'
    else if n > powIterationLimit then .error .powErr
    else expLoop y fuel (n + 1) expY' term'

def computeExp (x : Int) : Except Err Int :=
  if x = 0 then .ok P
  else if x = P then .ok euler
  else if x ≤ -42 * P then .ok 0
  else do
    let kx ← mulC x inverseLn2
    let k ← truncInt64C kx
    let kl ← mulC (k * P) ln2
    let y ← subC x kl
    let expY ← expLoop y (powIterationLimit + 2) 1 P P
    let twoPowK ←
      if k > 0 then powerC twoDec k.toNat
      else if k < 0 then do let p ← powerC twoDec (toUint64 (-k)); quoC P p
      else pure P
    mulC expY twoPowK

def expLnMethod (base exp : Int) : Except Err Int := do
  let l ← computeLn base
  let e ← mulC exp l
  computeExp e

/-- 18446744073709551615 (math.MaxUint64) as a Dec. -/
def maxUint64Dec : Int := 18446744073709551615 * P

/-- `powerApproximation(base, exp)`; `powRec` is `Pow` for the `exp > 1` branch. A returned error is
`.powErr` (or whatever non-panic error the callee produced); panics stay panics. -/
def powerApproxWith (powRec : Int → Int → Except Err Int) (base exp : Int) : Except Err Int :=
  if base ≤ 0 then .error .powErr
  else if exp < 0 then .error .powErr
  else if exp = 0 then .ok P
  else if exp = P then .ok base
  else if exp = -P then quoC P base
  else if exp = oneHalf then
    match approxSqrtC base with
    | .ok v => .ok v
    | .error _ => .error .powErr
  else if exp.tmod P = 0 ∧ exp > 0 ∧ exp ≤ maxUint64Dec then do
    let n ← truncInt64C exp
    powerC base (toUint64 n)
  else if exp > P then powRec base exp
  else if base ≥ oneHalf ∧ base < twoDec then maclaurin base exp
  else expLnMethod base exp

/-- `Pow(base, exp)` given the approximation used for the fractional part. -/
def powWith (approx : Int → Int → Except Err Int) (base exp : Int) : Except Err Int :=
  if base ≤ 0 then .error .panicPow
  else do
    let integer := (exp.tdiv P) * P
    let fractional ← subC exp integer
    let n ← truncInt64C integer
    let integerPow ← powerC base (toUint64 n)
    if fractional = 0 then pure integerPow
    else
      match approx base fractional with
      | .ok fp => mulC integerPow fp
      | .error e => .error (if e.isPanic then e else .panicPow)

/-- `Pow`. Its fractional exponent has |·| < 1, so the `exp > 1` branch of `powerApproximation`
(which calls back into `Pow`) is not reachable from here; it is given a panic outcome. -/
def pow (base exp : Int) : Except Err Int :=
  powWith (powerApproxWith (fun _ _ => .error .panicPow)) base exp

/-- `powerApproximation` as exported behaviour (direct calls with `exp > 1` go through `Pow`). -/
def powerApprox (base exp : Int) : Except Err Int := powerApproxWith pow base exp

end Elys.Amm
