/-
L1 (amm): single-asset join of a NON-oracle pool (`CalcSingleAssetJoinPoolShares`, Pow-based) and the
ORACLE pool's single-sided join (`Pool.JoinPool`, TVL-priced, `RoundInt`) and single-sided exit
(`CalcExitPool` with a `tokenOutDenom`, + `processExitPool`), as coded in
x/amm/types/{pool_calc_join_pool_shares, pool_join_pool, calc_exit_pool, pool_exit_pool, pool}.go.
Core-only.
-/
import ElysModel.Amm.Oracle
import ElysModel.Amm.Liquidity
namespace Elys.Amm
open Elys

/-! ### non-oracle single-asset join -/

/-- `feeRatio(normalizedWeight, spreadFactor)` = 1 − (1 − w)·fee. -/
def feeRatio (nw fee : Int) : Except Err Int := do
  let a ← subC P nw
  let b ← mulC a fee
  subC P b

/-- `calcSingleAssetJoin` + `TruncateInt`: shares for depositing `amt` of an asset with balance `bal`
and weight `w` of `totalW`, into `S` total shares, with the pool's swap fee. -/
def singleAssetJoinShares (bal w totalW S amt fee : Int) : Except Err Int :=
  if totalW = 0 then .error .badArgs
  else do
    let nw ← quoC (w * P) (totalW * P)
    let fr ← feeRatio nw fee
    let inAfterFee ← mulC (amt * P) fr
    let xb ← addC (bal * P) inAfterFee
    let v ← solveCFI xb (bal * P) nw (S * P) P
    pure ((-v).tdiv P)

/-- the `totalSlippage` loop of `Pool.JoinPool` (non-oracle, one coin): Σ over the other assets of
slippage(tokenIn → asset)·normalizedWeight(asset); a returned error skips the asset, a panic propagates. -/
def joinSlippage (bals ws nws : List Int) (i : Nat) (amt : Int) : Nat → Int → Except Err Int
  | 0, total => .ok total
  | k + 1, total =>
    let j := bals.length - (k + 1)
    if j = i then joinSlippage bals ws nws i amt k total
    else
      match calcOutGivenIn { balIn := bals.getD i 0, balOut := bals.getD j 0, wIn := ws.getD i 0, wOut := ws.getD j 0 } amt 0 with
      | .ok (_, slip) => do
        let t ← mulC slip (nws.getD j 0)
        let total' ← addC total t
        joinSlippage bals ws nws i amt k total'
      | .error e => if e.isPanic then .error e else joinSlippage bals ws nws i amt k total

/-- `Pool.JoinPool` of a non-oracle pool with a single coin: (shares, totalSlippage, new balances, new total shares). -/
def singleJoin (bals ws : List Int) (totalW S : Int) (i : Nat) (amt fee : Int) :
    Except Err (Int × Int × List Int × Int) := do
  let nws ← normalizedWeights (List.zipWith (fun b w => ((b, w, 0) : WAsset)) bals ws)
  let slip ← joinSlippage bals ws nws i amt bals.length 0
  let shares ← singleAssetJoinShares (bals.getD i 0) (ws.getD i 0) totalW S amt fee
  let nb ← chkI (bals.getD i 0 + amt)
  let newS ← chkI (S + shares)
  pure (shares, slip, bals.set i nb, newS)

/-! ### oracle pool: TVL, single-sided join and exit -/

/-- `Pool.TVL` for an oracle pool (every price must be set; accounted balances substituted). -/
def tvl (as : List OAsset) : Except Err Int := do
  let rec go (acc totalW oracleW : Int) : List OAsset → Except Err (Int × Int × Int)
    | [] => .ok (acc, totalW, oracleW)
    | a :: rest =>
      if a.price = 0 then .error .noPrice
      else do
        let v ← mulC (a.eff * P) a.price
        let acc' ← addC acc v
        go acc' (totalW + a.weight) (oracleW + a.weight) rest
  let (t, totalW, oracleW) ← go 0 0 0 as
  if oracleW = 0 then .ok 0
  else do
    let m ← mulC t (totalW * P)
    quoC m (oracleW * P)

structure OJoinRes where
  shares : Int
  bonus : Int
  newBals : List Int
  newS : Int
deriving Repr, DecidableEq, Inhabited

def wassets (p : OPool) : List WAsset := [(p.a0.amount, p.a0.weight, p.a0.price), (p.a1.amount, p.a1.weight, p.a1.price)]

/-- `Pool.JoinPool` of an oracle pool with a single coin (`amt` of the asset at index `iIn`). -/
def oJoin (p : OPool) (S : Int) (iIn : Nat) (amt : Int) (pr : OParams) : Except Err OJoinRes := do
  let ai := p.get iIn
  if ai.price = 0 then .error .noPrice
  else do
    let joinValue ← mulC ai.price (amt * P)
    let joinValue ← addC 0 joinValue
    let acc := accountedAssets p
    let initialDist ← weightDistance acc 2
    let t ← tvl [p.a0, p.a1]
    if t = 0 then .error .amountTooLow
    else do
      let newAssets ← afterSwap acc iIn amt 0
      let wd ← weightDistance newAssets 2
      let distanceDiff ← subC wd initialDist
      let targetIn ← denomNormalizedWeight (wassets p) iIn
      let targetOut ← subC P targetIn
      let finalIn ← denomOracleWeight newAssets iIn
      let finalOut ← subC P finalIn
      let initIn ← denomOracleWeight acc iIn
      let initOut ← subC P initIn
      let wbf ← weightBreakingFee finalIn finalOut targetIn targetOut initIn initOut distanceDiff pr
      let reward ← mulC wbf pr.portion
      let (wbf, bonus) := if initialDist > pr.threshold ∧ distanceDiff < 0 then (0, reward) else (wbf, -wbf)
      let n ← mulC (S * P) joinValue
      let n ← quoC n t
      let f ← subC P wbf
      let n ← mulC n f
      let shares := Dec.roundInt n
      let b0 ← chkI (p.a0.amount + (if iIn = 0 then amt else 0))
      let b1 ← chkI (p.a1.amount + (if iIn = 0 then 0 else amt))
      let newS ← chkI (S + shares)
      pure { shares := shares, bonus := bonus, newBals := [b0, b1], newS := newS }

structure OExitRes where
  out : Int
  bonus : Int
  newBals : List Int
  newS : Int
deriving Repr, DecidableEq, Inhabited

/-- `CalcExitPool` of an oracle pool with `tokenOutDenom` = the asset at index `iOut`:
(token out amount, weightBalanceBonus). -/
def oCalcExit (p : OPool) (S : Int) (iOut : Nat) (x : Int) (pr : OParams) : Except Err (Int × Int) :=
  if x ≥ S then .error .limitMax
  else do
    let _ ← quoIntC (x * P) S          -- shareOutRatio is computed before the branch
    let ao := p.get iOut
    let acc := accountedAssets p
    let initialDist ← weightDistance acc 2
    -- CalcExitValueWithoutSlippage
    let t ← tvl [p.a0, p.a1]
    if S = 0 then .error .amountTooLow
    else do
      let ev ← mulC t (x * P)
      let ev ← quoC ev (S * P)
      if ao.price = 0 then .error .amountTooLow
      else do
        let oracleOut ← quoC ev ao.price
        let r := Dec.roundInt oracleOut
        if r < 0 then .error .panicNegCoin
        else do
          -- the swap "in" index is the other asset: nothing comes in, `r` leaves index iOut
          let newAssets ← afterSwap acc (1 - iOut) 0 r
          let wd ← weightDistance newAssets 2
          let distanceDiff ← subC wd initialDist
          let targetOut ← denomNormalizedWeight (wassets p) iOut
          let targetIn ← subC P targetOut
          let finalOut ← denomOracleWeight newAssets iOut
          let finalIn ← subC P finalOut
          let initOut ← denomOracleWeight acc iOut
          let initIn ← subC P initOut
          let wbf ← weightBreakingFee finalIn finalOut targetIn targetOut initIn initOut distanceDiff pr
          let f ← subC P wbf
          let o ← mulC oracleOut f
          let out := Dec.roundInt o
          if out < 0 then .error .panicNegCoin else pure (out, -wbf)

/-- `Pool.ExitPool` of an oracle pool, single-sided: `CalcExitPool` + `processExitPool`
(the paid coin is subtracted from the BOOK balance: `sdk.NewCoin` panics when the payout exceeds it,
`UpdatePoolAssetBalance` rejects a payout equal to it). -/
def oExit (p : OPool) (S : Int) (iOut : Nat) (x : Int) (pr : OParams) : Except Err OExitRes := do
  let (out, bonus) ← oCalcExit p S iOut x pr
  let bo := (p.get iOut).amount
  if bo - out < 0 then .error .panicNegCoin
  else if bo - out = 0 then .error .badArgs
  else
    let nb := bo - out
    if S - x < 0 then .error .panicNegCoin
    else pure { out := out, bonus := bonus, newBals := if iOut = 0 then [nb, p.a1.amount] else [p.a0.amount, nb], newS := S - x }

end Elys.Amm
