/-
L1 (amm): error kinds, range-checked `LegacyDec` operations (cosmossdk.io/math v1.4.0), `Power`,
`ApproxRoot`.  A `Dec` is its raw integer (value × 10^18).  Every Go panic (`Int overflow` range
assertion, division by zero, explicit `panic(...)`) and every returned `error` is an explicit `Except`
outcome.  Core-only: linked into the driver.
-/
import ElysModel.Num.Dec
namespace Elys.Amm
open Elys

/-- error kinds. `fail*` = the Go function returned an `error`; `panic*` = it panicked. -/
inductive Err
  | amountTooLow | tokenOutZero | invalidMathApprox | tooMuchSwapFee | limitMax | tooManySharesOut
  | badArgs | unexpectedJoin | moreJoined | powErr | noPrice
  | panicOverflow | panicDivZero | panicPow | panicInt64 | panicNegCoin
deriving Repr, DecidableEq, Inhabited

def Err.isPanic : Err → Bool
  | .panicOverflow | .panicDivZero | .panicPow | .panicInt64 | .panicNegCoin => true
  | _ => false

/-- result kind as the harness reports it. -/
def kind {α} : Except Err α → String
  | .ok _ => "ok"
  | .error e => if e.isPanic then "panic" else "fail"

/-- `upperLimit` raw + 1 = 2^256 · 10^18: a Dec is in range iff |raw| < maxDec. -/
def maxDec : Int := 115792089237316195423570985008687907853269984665640564039457584007913129639936 * P

/-- `assertInValidRange`. -/
def chk (a : Int) : Except Err Int :=
  if -maxDec < a ∧ a < maxDec then .ok a else .error .panicOverflow

def addC (a b : Int) : Except Err Int := chk (a + b)
def subC (a b : Int) : Except Err Int := chk (a - b)
def mulC (a b : Int) : Except Err Int := chk (Dec.mul a b)
def mulIntC (a i : Int) : Except Err Int := chk (a * i)
/-- `a.Quo(b)`: big.Int.Quo panics on a zero divisor. -/
def quoC (a b : Int) : Except Err Int :=
  if b = 0 then .error .panicDivZero else chk (Dec.quo a b)
/-- `a.QuoInt(i)` / `QuoInt64`: no range assertion. -/
def quoIntC (a i : Int) : Except Err Int :=
  if i = 0 then .error .panicDivZero else .ok (a.tdiv i)
/-- `a.Ceil()` as an integer; the Go value (× P) is range-asserted. -/
def ceilC (a : Int) : Except Err Int := do
  let c := Dec.ceilInt a
  let _ ← chk (c * P)
  pure c

def int64Max : Int := 9223372036854775807
def int64Min : Int := -9223372036854775808
/-- `TruncateInt64`: panics when the truncated value does not fit int64. -/
def truncInt64C (a : Int) : Except Err Int :=
  let t := a.tdiv P
  if int64Min ≤ t ∧ t ≤ int64Max then .ok t else .error .panicInt64
/-- Go `uint64(int64)` conversion. -/
def toUint64 (i : Int) : Nat := if i < 0 then (i + 18446744073709551616).toNat else i.toNat

/-- `PowerMut` loop with the range assertion of every `MulMut`. -/
def powerLoop : Nat → Int → Int → Nat → Except Err Int
  | 0, _, _, _ => .error .panicPow
  | fuel + 1, d, tmp, i =>
    if i ≤ 1 then mulC d tmp
    else do
      let tmp' ← if i % 2 ≠ 0 then mulC tmp d else pure tmp
      let d' ← mulC d d
      powerLoop fuel d' tmp' (i / 2)

/-- `d.Power(n)`. -/
def powerC (d : Int) (n : Nat) : Except Err Int :=
  if n = 0 then .ok P else powerLoop 70 d P n

/-- Newton loop of `ApproxRoot` (`maxApproxRootIterations = 300` is the fuel). -/
def rootLoop (d : Int) (root : Nat) : Nat → Int → Except Err Int
  | 0, guess => .ok guess
  | fuel + 1, guess => do
    let prev ← powerC guess (root - 1)
    let prev := if prev = 0 then 1 else prev
    let delta ← quoC d prev
    let delta ← subC delta guess
    let delta := delta.tdiv (root : Int)
    let guess' ← addC guess delta
    if delta.natAbs ≤ 1 then pure guess' else rootLoop d root fuel guess'

/-- `d.ApproxRoot(root)` for `d ≥ 0` (the only use: `Pow` rejects non-positive bases first).
A panic inside is recovered by Go and returned as an `error`; callers turn it into a panic or an error. -/
def approxRootC (d : Int) (root : Nat) : Except Err Int :=
  if root = 0 then .ok P
  else if d < 0 then
    (if root = 1 ∨ d = -P then .ok d else (rootLoop (-d) root 300 P).map (fun g => -g))
  else if root = 1 ∨ d = 0 ∨ d = P then .ok d
  else rootLoop d root 300 P

def approxSqrtC (d : Int) : Except Err Int := approxRootC d 2

end Elys.Amm
