/- Helper lemmas for the id-allocation model (used by Props/C08, C09, C20). -/
import ElysModel.Ids.Model
namespace Elys.Ids

/-- no live id is above the counter, and no id is stored twice -/
def InvLast (s : St) : Prop := (∀ id ∈ s.live, id ≤ s.ctr) ∧ s.live.Nodup
/-- every live id is below the counter, and no id is stored twice -/
def InvNext (s : St) : Prop := (∀ id ∈ s.live, id < s.ctr) ∧ s.live.Nodup

def repaired : Op → Prop
  | .reimport m => m ≠ .byLength
  | _ => True

theorem le_maxId {l : List Nat} {x : Nat} (h : x ∈ l) : x ≤ maxId l := by
  induction l with
  | nil => simp at h
  | cons y ys ih =>
    simp only [maxId]
    rcases List.mem_cons.mp h with h | h
    · subst h; omega
    · have := ih h; omega

theorem stepLast_inv {s : St} {op : Op} (hi : InvLast s) (hr : repaired op) : InvLast (stepLast s op) := by
  obtain ⟨h1, h2⟩ := hi
  cases op with
  | create =>
    refine ⟨fun id hid => ?_, List.nodup_cons.mpr ⟨fun hm => ?_, h2⟩⟩
    · simp only [stepLast, List.mem_cons] at hid
      rcases hid with h | h
      · subst h; exact Nat.le_refl _
      · have := h1 id h; simp only [stepLast]; omega
    · have := h1 _ hm; omega
  | remove id =>
    refine ⟨fun x hx => ?_, ?_⟩
    · simp only [stepLast, List.mem_filter] at hx; exact h1 x hx.1
    · exact h2.filter _
  | reimport m =>
    refine ⟨fun x hx => ?_, h2⟩
    simp only [stepLast] at hx ⊢
    cases m with
    | byLength => exact absurd rfl hr
    | byMax => simp only [importCtr]; have := le_maxId hx; omega
    | kept => exact h1 x hx

/-- under the "next id" discipline only the exported counter itself is safe: `byMax` would hand the highest id out again -/
def repairedNext : Op → Prop
  | .reimport m => m = .kept
  | _ => True

theorem stepNext_inv {s : St} {op : Op} (hi : InvNext s) (hr : repairedNext op) : InvNext (stepNext s op) := by
  obtain ⟨h1, h2⟩ := hi
  cases op with
  | create =>
    by_cases hc : s.ctr = 0
    · simp only [stepNext, hc, if_true]
      refine ⟨fun id hid => ?_, List.nodup_cons.mpr ⟨fun hm => ?_, h2⟩⟩
      · dsimp only at hid ⊢
        rcases List.mem_cons.mp hid with h | h
        · subst h; omega
        · have := h1 id h; omega
      · have := h1 _ hm; omega
    · simp only [stepNext, hc, if_false]
      refine ⟨fun id hid => ?_, List.nodup_cons.mpr ⟨fun hm => ?_, h2⟩⟩
      · dsimp only at hid ⊢
        rcases List.mem_cons.mp hid with h | h
        · subst h; omega
        · have := h1 id h; omega
      · have := h1 _ hm; omega
  | remove id =>
    refine ⟨fun x hx => ?_, ?_⟩
    · simp only [stepNext, List.mem_filter] at hx; exact h1 x hx.1
    · exact h2.filter _
  | reimport m =>
    simp only [repairedNext] at hr; subst hr
    exact ⟨fun x hx => h1 x hx, h2⟩

end Elys.Ids
