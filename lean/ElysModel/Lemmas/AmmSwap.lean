/-
Lemmas about the swap port on the equal-weight (exponent 1) path. Core-only.
-/
import ElysModel.Amm.Swap
import ElysModel.Lemmas.AmmBase
namespace Elys.Amm
open Elys

/-- `w/w = 1` exactly, for a non-zero Dec `w`. -/
theorem quo_self (w : Int) (hw : w ≠ 0) : Dec.quo w w = P := by
  unfold Dec.quo
  have : (w * P * P).tdiv w = P * P := by
    rw [Int.mul_assoc]; exact Int.mul_tdiv_cancel_left _ hw
  rw [this, round2_mul_P]

/-- multiplying by a whole number is exact. -/
theorem mul_ofInt_left (i d : Int) : Dec.mul (i * P) d = i * d := by
  unfold Dec.mul
  have : i * P * d = (i * d) * P := by
    rw [Int.mul_assoc, Int.mul_comm P d, ← Int.mul_assoc]
  rw [this, round2_mul_P]

theorem mul_one_right (d : Int) : Dec.mul d P = d := by
  unfold Dec.mul; exact round2_mul_P d

theorem powerC_one (y : Int) : powerC y 1 = mulC y P := by rfl

/-- `Pow(y, 1)` is `y` (range-asserted), with no approximation involved. -/
theorem pow_one (y : Int) : pow y P = if y ≤ 0 then .error .panicPow else chk y := by
  unfold pow powWith
  split
  · rfl
  · have h1 : (P.tdiv P) * P = P := by decide
    have h2 : subC P P = .ok 0 := by rfl
    have h3 : truncInt64C P = .ok 1 := by rfl
    have h4 : toUint64 1 = 1 := by decide
    simp only [h1, h2, h3, h4, bind, Except.bind, pure, Except.pure, powerC_one, mulC, mul_one_right]
    cases chk y <;> rfl

/-- `solveConstantFunctionInvariant` with equal weights: `yb · (1 − xb/xa)`, the ratio rounded by `Quo`. -/
theorem solveCFI_equal (xb xa w yb v : Int) (hw : w ≠ 0) (h : solveCFI xb xa w yb w = .ok v) :
    v = Dec.mul yb (P - Dec.quo xb xa) ∧ 0 < xa ∧ 0 < Dec.quo xb xa := by
  unfold solveCFI at h
  simp only [hw, if_false] at h
  obtain ⟨wr, hwr, h⟩ := bind_ok h
  have hwr' := (quoC_ok hwr).1
  rw [quo_self w hw] at hwr'
  rw [hwr'] at h
  split at h
  · cases h
  · rename_i hxa
    obtain ⟨y, hy, h⟩ := bind_ok h
    have hy' := (quoC_ok hy).1
    obtain ⟨pw, hpw, h⟩ := bind_ok h
    rw [pow_one] at hpw
    split at hpw
    · cases hpw
    · rename_i hypos
      have e1 := chk_ok hpw
      obtain ⟨par, hpar, h⟩ := bind_ok h
      have e2 := subC_ok hpar
      have e3 := mulC_ok h
      rw [e3, e2, e1, hy']
      rw [hy'] at hypos
      exact ⟨rfl, by omega, by omega⟩

/-- the amount the equal-weight exact-in path pays out, as a pure function of the inputs
(`A`, `B` the reserves the swap computes with, `fee` a raw Dec). -/
def outVal (A B amt fee : Int) : Int :=
  (B * (P - Dec.quo (A * P) (A * P + amt * (P - fee)))).tdiv P

theorem calcOut_equal (p : SwapPool) (amt fee out slip : Int)
    (hw : p.wIn = p.wOut) (hw0 : p.wOut ≠ 0)
    (h : calcOutGivenIn p amt fee = .ok (out, slip)) :
    out = outVal p.effIn p.effOut amt fee ∧ 0 < out ∧ 0 < p.effIn * P + amt * (P - fee) := by
  unfold calcOutGivenIn at h
  obtain ⟨omf, h1, h⟩ := bind_ok h
  have e1 := subC_ok h1
  obtain ⟨iaf, h2, h⟩ := bind_ok h
  have e2 := mulC_ok h2
  rw [mul_ofInt_left, e1] at e2
  obtain ⟨post, h3, h⟩ := bind_ok h
  have e3 := addC_ok h3
  obtain ⟨tok, h4, h⟩ := bind_ok h
  rw [hw] at h4
  have hwP : p.wOut * P ≠ 0 := Int.mul_ne_zero hw0 (by decide)
  obtain ⟨e4, hpost, _⟩ := solveCFI_equal _ _ _ _ _ hwP h4
  rw [mul_ofInt_left] at e4
  split at h
  · cases h
  · obtain ⟨rate, _, h⟩ := bind_ok h
    obtain ⟨ns, _, h⟩ := bind_ok h
    split at h
    · cases h
    · obtain ⟨q, _, h⟩ := bind_ok h
      obtain ⟨sl, _, h⟩ := bind_ok h
      simp only at h
      split at h
      · cases h
      · rename_i hout
        have := Except.ok.inj h
        have e5 : out = tok.tdiv P := (congrArg Prod.fst this).symm
        rw [e3, e2] at hpost e4
        refine ⟨?_, by omega, hpost⟩
        rw [e5, e4]; rfl

/-! ### the nonlinear core (products introduced by hand, closed by `grind`'s linear arithmetic) -/

theorem out_core (A B P q y out post a' : Int) (hP : 0 < P) (hB : 0 ≤ B) (hpost : 0 < post)
    (hpostdef : post = A * P + a')
    (h1 : A * (P * P * P) < (q + 1) * post)
    (h2 : 2 * q - P ≤ 2 * (y * P))
    (h3 : out * P ≤ B * (P - y)) :
    out * post * (2 * P * P) ≤ B * a' * (2 * P * P) + B * post * P + 2 * B * post := by
  have n1 : 0 ≤ 2 * P * post := Int.mul_nonneg (by omega) (by omega)
  have n2 : 0 ≤ B * post := Int.mul_nonneg hB (by omega)
  have n3 : 0 ≤ 2 * B := by omega
  have e1 : out * P * (2 * P * post) ≤ B * (P - y) * (2 * P * post) :=
    Int.mul_le_mul_of_nonneg_right h3 n1
  have e2 : (2 * q - P) * (B * post) ≤ 2 * (y * P) * (B * post) :=
    Int.mul_le_mul_of_nonneg_right h2 n2
  have e3 : A * (P * P * P) * (2 * B) ≤ (q + 1) * post * (2 * B) :=
    Int.mul_le_mul_of_nonneg_right (Int.le_of_lt h1) n3
  subst hpostdef
  grind

/-- from the scaled bound to floors: `out ≤ ⌊B·a'/post⌋ + ⌊B/(2P)⌋ + 2` when `B ≤ P²`. -/
theorem out_floor_core (B a' post P out E H : Int) (hP : 0 < P) (hpost : 0 < post) (_hB : 0 ≤ B) (hBP : B ≤ P * P)
    (hE : B * a' < (E + 1) * post) (hH : B < (H + 1) * (2 * P))
    (hb : out * post * (2 * P * P) ≤ B * a' * (2 * P * P) + B * post * P + 2 * B * post) :
    out ≤ E + H + 2 := by
  apply Classical.byContradiction
  intro hc
  have hc' : E + H + 3 ≤ out := by omega
  have n1 : 0 ≤ post * (2 * P * P) := Int.mul_nonneg (by omega) (Int.mul_nonneg (by omega) (by omega))
  have n2 : 0 ≤ 2 * P * P := Int.mul_nonneg (by omega) (by omega)
  have n3 : 0 ≤ post * P := Int.mul_nonneg (by omega) (by omega)
  have m1 : (E + H + 3) * (post * (2 * P * P)) ≤ out * (post * (2 * P * P)) :=
    Int.mul_le_mul_of_nonneg_right hc' n1
  have m2 : (B * a' + 1) * (2 * P * P) ≤ (E + 1) * post * (2 * P * P) :=
    Int.mul_le_mul_of_nonneg_right (by omega) n2
  have m3 : (B + 1) * (post * P) ≤ (H + 1) * (2 * P) * (post * P) :=
    Int.mul_le_mul_of_nonneg_right (by omega) n3
  have m4 : B * (2 * post) ≤ P * P * (2 * post) :=
    Int.mul_le_mul_of_nonneg_right hBP (by omega)
  have m5 : 0 < P * P := Int.mul_pos hP hP
  have m6 : 0 < post * P := Int.mul_pos hpost hP
  grind

/-- `out ≤ ⌊B·a'/post⌋ + 1` when `B ≤ P` (`P ≥ 2`). -/
theorem out_one_unit_core (B a' post P out E : Int) (hP : 2 ≤ P) (hpost : 0 < post) (_hB : 0 ≤ B) (hBP : B ≤ P)
    (hE : B * a' < (E + 1) * post)
    (hb : out * post * (2 * P * P) ≤ B * a' * (2 * P * P) + B * post * P + 2 * B * post) :
    out ≤ E + 1 := by
  apply Classical.byContradiction
  intro hc
  have hc' : E + 2 ≤ out := by omega
  have n1 : 0 ≤ post * (2 * P * P) := Int.mul_nonneg (by omega) (Int.mul_nonneg (by omega) (by omega))
  have n2 : 0 ≤ 2 * P * P := Int.mul_nonneg (by omega) (by omega)
  have n3 : 0 ≤ post * P := Int.mul_nonneg (by omega) (by omega)
  have m1 : (E + 2) * (post * (2 * P * P)) ≤ out * (post * (2 * P * P)) :=
    Int.mul_le_mul_of_nonneg_right hc' n1
  have m2 : (B * a' + 1) * (2 * P * P) ≤ (E + 1) * post * (2 * P * P) :=
    Int.mul_le_mul_of_nonneg_right (by omega) n2
  have m3 : B * (post * P) ≤ P * (post * P) := Int.mul_le_mul_of_nonneg_right hBP n3
  have m4 : B * (2 * post) ≤ P * (2 * post) := Int.mul_le_mul_of_nonneg_right hBP (by omega)
  have m5 : 0 < P * P := Int.mul_pos (by omega) (by omega)
  have m6 : 2 * (post * P) ≤ P * (post * P) := Int.mul_le_mul_of_nonneg_right hP n3
  grind

/-- the bound the 18-digit `Quo` rounding allows, for the pure out-amount function. -/
theorem outVal_bound (A B amt fee : Int) (hA : 0 ≤ A) (hB : 0 ≤ B)
    (hpost : 0 < A * P + amt * (P - fee)) (hout : 0 < outVal A B amt fee) :
    outVal A B amt fee * (A * P + amt * (P - fee)) * (2 * P * P)
      ≤ B * (amt * (P - fee)) * (2 * P * P) + B * (A * P + amt * (P - fee)) * P + 2 * B * (A * P + amt * (P - fee)) := by
  have hP := P_pos
  have hq := tdiv_bounds (A * P * P * P) (A * P + amt * (P - fee))
    (Int.mul_nonneg (Int.mul_nonneg (Int.mul_nonneg hA (by omega)) (by omega)) (by omega)) hpost
  have hy := (round2_bounds ((A * P * P * P).tdiv (A * P + amt * (P - fee)))).1
  have ho := truncP_of_pos _ hout
  refine out_core A B P ((A * P * P * P).tdiv (A * P + amt * (P - fee)))
    (Dec.quo (A * P) (A * P + amt * (P - fee))) _ _ _ hP hB hpost rfl ?_ ?_ ho
  · have : A * (P * P * P) = A * P * P * P := by simp [Int.mul_assoc]
    rw [this]; exact hq.2
  · exact hy

/-! ### exact-out, equal weights -/

/-- the amount the equal-weight exact-out path charges, as a pure function of the inputs. -/
def inVal (A B amtOut fee : Int) : Int :=
  Dec.ceilInt (Dec.quo (-(A * (P - Dec.quo (B * P) (B * P - amtOut * P)))) (P - fee))

theorem calcIn_equal (p : SwapPool) (amtOut fee inAmt slip : Int)
    (hw : p.wIn = p.wOut) (hw0 : p.wOut ≠ 0)
    (h : calcInGivenOut p amtOut fee = .ok (inAmt, slip)) :
    inAmt = inVal p.effIn p.effOut amtOut fee ∧ 0 < inAmt ∧ fee < P ∧ 0 < p.effOut * P - amtOut * P := by
  unfold calcInGivenOut at h
  obtain ⟨post, h1, h⟩ := bind_ok h
  have e1 := subC_ok h1
  obtain ⟨tin, h2, h⟩ := bind_ok h
  rw [hw] at h2
  have hwP : p.wOut * P ≠ 0 := Int.mul_ne_zero hw0 (by decide)
  obtain ⟨e2, hpost, _⟩ := solveCFI_equal _ _ _ _ _ hwP h2
  rw [mul_ofInt_left] at e2
  simp only at h
  obtain ⟨rate, _, h⟩ := bind_ok h
  obtain ⟨ns, _, h⟩ := bind_ok h
  split at h
  · cases h
  · obtain ⟨q, _, h⟩ := bind_ok h
    obtain ⟨sl, _, h⟩ := bind_ok h
    split at h
    · cases h
    · rename_i hfee
      obtain ⟨omf, h3, h⟩ := bind_ok h
      have e3 := subC_ok h3
      obtain ⟨bf, h4, h⟩ := bind_ok h
      have e4 := (quoC_ok h4).1
      obtain ⟨c, h5, h⟩ := bind_ok h
      have e5 := ceilC_ok h5
      split at h
      · cases h
      · have hres := Except.ok.inj h
        have e6 : inAmt = c := (congrArg Prod.fst hres).symm
        rw [e1] at hpost e2
        refine ⟨?_, by omega, by omega, hpost⟩
        rw [e6, e5, e4, e3, e2]; rfl

theorem in_core (A B o P F y q1 q2 bf inn D : Int) (hP : 0 < P) (hF : 0 < F) (hA : 0 ≤ A) (hD : 0 < D)
    (hDdef : D = B - o)
    (h1 : B * (P * P * P) < (q1 + 1) * (D * P))
    (h2 : 2 * q1 - P ≤ 2 * (y * P))
    (h3 : A * (y - P) * (P * P) < (q2 + 1) * F)
    (h4 : 2 * q2 - P ≤ 2 * (bf * P))
    (h5 : bf ≤ inn * P) :
    2 * P * P * (A * o * P) ≤ 2 * P * P * inn * (D * F) + A * P * D * (P + 2) + (P + 2) * (D * F) := by
  have nFD : 0 ≤ F * D := Int.mul_nonneg (by omega) (by omega)
  have nAPD : 0 ≤ A * P * D := Int.mul_nonneg (Int.mul_nonneg hA (by omega)) (by omega)
  have e5 : bf * P ≤ inn * P * P := Int.mul_le_mul_of_nonneg_right h5 (by omega)
  have s1 : (2 * q2 - P) * (F * D) ≤ 2 * (inn * P * P) * (F * D) :=
    Int.mul_le_mul_of_nonneg_right (by omega) nFD
  have s2 : A * (y - P) * (P * P) * (2 * D) ≤ (q2 + 1) * F * (2 * D) :=
    Int.mul_le_mul_of_nonneg_right (Int.le_of_lt h3) (by omega)
  have s3 : (2 * q1 - P) * (A * P * D) ≤ 2 * (y * P) * (A * P * D) :=
    Int.mul_le_mul_of_nonneg_right h2 nAPD
  have s4 : B * (P * P * P) * (2 * A) ≤ (q1 + 1) * (D * P) * (2 * A) :=
    Int.mul_le_mul_of_nonneg_right (Int.le_of_lt h1) (by omega)
  subst hDdef
  grind

/-- from the scaled bound to "at most one unit below the exact charge". -/
theorem in_one_unit_core (A P F D inn num : Int) (hP : 0 < P) (hD : 0 < D)
    (hk : A * P * (P + 2) + (P + 2) * F ≤ 2 * P * P * F)
    (hb : 2 * P * P * num ≤ 2 * P * P * inn * (D * F) + A * P * D * (P + 2) + (P + 2) * (D * F)) :
    num ≤ (inn + 1) * (D * F) := by
  have k : (A * P * (P + 2) + (P + 2) * F) * D ≤ 2 * P * P * F * D :=
    Int.mul_le_mul_of_nonneg_right hk (by omega)
  have hPP : 0 < 2 * P * P := Int.mul_pos (by omega) hP
  have e : num * (2 * P * P) ≤ (inn + 1) * (D * F) * (2 * P * P) := by grind
  exact Int.le_of_mul_le_mul_right e hPP

/-- the bound the 18-digit `Quo` roundings allow, for the pure in-amount function:
`in ≥ A·o/((B−o)(1−fee)) − (A/2 + A/10¹⁸)/(1−fee)/10¹⁸ − 1/2 − 1/10¹⁸`, scaled to integers. -/
theorem inVal_bound (A B o fee : Int) (hA : 0 ≤ A) (ho : 0 ≤ o) (hfee : fee < P)
    (hpost : 0 < B * P - o * P) :
    2 * P * P * (A * o * P) ≤ 2 * P * P * inVal A B o fee * ((B - o) * (P - fee))
      + A * P * (B - o) * (P + 2) + (P + 2) * ((B - o) * (P - fee)) := by
  have hP := P_pos
  have hD : 0 < B - o := by
    have : B * P - o * P = (B - o) * P := by rw [Int.sub_mul]
    rw [this] at hpost
    apply Classical.byContradiction; intro hc
    have := Int.mul_nonpos_of_nonpos_of_nonneg (show B - o ≤ 0 by omega) (Int.le_of_lt hP)
    omega
  have hB : 0 ≤ B := by omega
  have hDP : B * P - o * P = (B - o) * P := by rw [Int.sub_mul]
  -- first Quo
  have hq1 := tdiv_bounds (B * P * P * P) (B * P - o * P)
    (Int.mul_nonneg (Int.mul_nonneg (Int.mul_nonneg hB (by omega)) (by omega)) (by omega)) hpost
  have hy := (round2_bounds ((B * P * P * P).tdiv (B * P - o * P))).1
  -- y ≥ P, hence the invariant input is non-negative
  have hyP : P ≤ Dec.quo (B * P) (B * P - o * P) := by
    unfold Dec.quo
    have hq1' := hq1.2
    rw [hDP] at hq1' hy ⊢
    have hge : P * P * ((B - o) * P) ≤ B * P * P * P := by
      have : (B - o) * (P * P * P) ≤ B * (P * P * P) :=
        Int.mul_le_mul_of_nonneg_right (by omega) (Int.mul_nonneg (Int.mul_nonneg (by omega) (by omega)) (by omega))
      grind
    have hlt : P * P * ((B - o) * P) < ((B * P * P * P).tdiv ((B - o) * P) + 1) * ((B - o) * P) := by omega
    have hpos : 0 < (B - o) * P := Int.mul_pos hD hP
    have hqq : P * P < (B * P * P * P).tdiv ((B - o) * P) + 1 := Int.lt_of_mul_lt_mul_right hlt (by omega)
    generalize (B * P * P * P).tdiv ((B - o) * P) = q at hqq hy ⊢
    generalize round2 q = r at hy ⊢
    have hPP : P * P = 1000000000000000000000000000000000000 := by decide
    rw [hPP] at hqq
    rw [P_eq] at hy ⊢
    omega
  have htin : 0 ≤ -(A * (P - Dec.quo (B * P) (B * P - o * P))) * P * P := by
    have : 0 ≤ A * (Dec.quo (B * P) (B * P - o * P) - P) := Int.mul_nonneg hA (by omega)
    have e : -(A * (P - Dec.quo (B * P) (B * P - o * P))) = A * (Dec.quo (B * P) (B * P - o * P) - P) := by grind
    rw [e]
    exact Int.mul_nonneg (Int.mul_nonneg this (by omega)) (by omega)
  have hq2 := tdiv_bounds _ (P - fee) htin (by omega)
  have hb := (round2_bounds ((-(A * (P - Dec.quo (B * P) (B * P - o * P))) * P * P).tdiv (P - fee))).1
  have hc := ceilInt_ge (Dec.quo (-(A * (P - Dec.quo (B * P) (B * P - o * P)))) (P - fee))
  refine in_core A B o P (P - fee) (Dec.quo (B * P) (B * P - o * P))
    ((B * P * P * P).tdiv (B * P - o * P))
    ((-(A * (P - Dec.quo (B * P) (B * P - o * P))) * P * P).tdiv (P - fee))
    (Dec.quo (-(A * (P - Dec.quo (B * P) (B * P - o * P)))) (P - fee))
    (inVal A B o fee) (B - o) hP (by omega) hA hD rfl ?_ hy ?_ hb hc
  · have h := hq1.2
    rw [hDP] at h
    have : B * (P * P * P) = B * P * P * P := by simp [Int.mul_assoc]
    rw [this]; rw [hDP]; exact h
  · have h := hq2.2
    have e : A * (Dec.quo (B * P) (B * P - o * P) - P) * (P * P)
        = -(A * (P - Dec.quo (B * P) (B * P - o * P))) * P * P := by grind
    rw [e]; exact h

/-! ### any weights: structure of the exact-in path, and the `PowSpec` hypothesis -/

theorem solveCFI_general (xb xa wx yb wy v : Int) (h : solveCFI xb xa wx yb wy = .ok v) :
    wy ≠ 0 ∧ 0 < xa ∧ ∃ pw, pow (Dec.quo xb xa) (Dec.quo wx wy) = .ok pw ∧ v = Dec.mul yb (P - pw) := by
  unfold solveCFI at h
  split at h
  · cases h
  · rename_i hwy
    obtain ⟨wr, hwr, h⟩ := bind_ok h
    have ewr := (quoC_ok hwr).1
    split at h
    · cases h
    · obtain ⟨y, hy, h⟩ := bind_ok h
      have ey := (quoC_ok hy).1
      obtain ⟨pw, hpw, h⟩ := bind_ok h
      obtain ⟨par, hpar, h⟩ := bind_ok h
      have e2 := subC_ok hpar
      have e3 := mulC_ok h
      rw [ey, ewr] at hpw
      exact ⟨hwy, by omega, pw, hpw, by rw [e3, e2]⟩

theorem calcOut_general (p : SwapPool) (amt fee out slip : Int)
    (h : calcOutGivenIn p amt fee = .ok (out, slip)) :
    0 < out ∧ 0 < p.effIn * P + amt * (P - fee) ∧
    ∃ pw, pow (Dec.quo (p.effIn * P) (p.effIn * P + amt * (P - fee))) (Dec.quo (p.wIn * P) (p.wOut * P)) = .ok pw
      ∧ out = (p.effOut * (P - pw)).tdiv P := by
  unfold calcOutGivenIn at h
  obtain ⟨omf, h1, h⟩ := bind_ok h
  have e1 := subC_ok h1
  obtain ⟨iaf, h2, h⟩ := bind_ok h
  have e2 := mulC_ok h2
  rw [mul_ofInt_left, e1] at e2
  obtain ⟨post, h3, h⟩ := bind_ok h
  have e3 := addC_ok h3
  obtain ⟨tok, h4, h⟩ := bind_ok h
  obtain ⟨_, hpost, pw, hpw, e4⟩ := solveCFI_general _ _ _ _ _ _ h4
  rw [mul_ofInt_left] at e4
  split at h
  · cases h
  · obtain ⟨rate, _, h⟩ := bind_ok h
    obtain ⟨ns, _, h⟩ := bind_ok h
    split at h
    · cases h
    · obtain ⟨q, _, h⟩ := bind_ok h
      obtain ⟨sl, _, h⟩ := bind_ok h
      simp only at h
      split at h
      · cases h
      · have := Except.ok.inj h
        have e5 : out = tok.tdiv P := (congrArg Prod.fst this).symm
        rw [e3, e2] at hpost hpw
        exact ⟨by omega, hpost, pw, hpw, by rw [e5, e4]⟩

/-- a ratio of a non-negative numerator to a larger denominator is at most 1 after the `Quo` rounding. -/
theorem quo_le_one (a b : Int) (ha : 0 ≤ a) (hab : a ≤ b) (hb : 0 < b) : Dec.quo a b ≤ P := by
  unfold Dec.quo
  have hP := P_pos
  have hnn : 0 ≤ a * P * P := Int.mul_nonneg (Int.mul_nonneg ha (by omega)) (by omega)
  have hq := (tdiv_bounds (a * P * P) b hnn hb).1
  have hle : a * P * P ≤ P * P * b := by
    have : a * (P * P) ≤ b * (P * P) := Int.mul_le_mul_of_nonneg_right hab (Int.mul_nonneg (by omega) (by omega))
    grind
  have hq2 : (a * P * P).tdiv b * b ≤ P * P * b := by omega
  have hq3 : (a * P * P).tdiv b ≤ P * P := Int.le_of_mul_le_mul_right hq2 hb
  have hr := (round2_bounds ((a * P * P).tdiv b)).2
  generalize (a * P * P).tdiv b = q at hq3 hr ⊢
  generalize round2 q = r at hr ⊢
  have hPP : P * P = 1000000000000000000000000000000000000 := by decide
  rw [hPP] at hq3
  rw [P_eq] at hr ⊢
  omega

end Elys.Amm
