/-
Lemmas about the oracle-pool swap port: "a factor ≤ 1 never increases", the rounding of the oracle
quote, and the structure of a successful `oSwapOut` / `oSwapIn`.  Core-only.
-/
import ElysModel.Amm.Oracle
import ElysModel.Lemmas.AmmSwap
namespace Elys.Amm
open Elys

/-- multiplying a non-negative Dec by a factor in [0, 1] never increases it (and keeps it non-negative). -/
theorem mul_factor_le (x f : Int) (hx : 0 ≤ x) (hf0 : 0 ≤ f) (hf1 : f ≤ P) :
    0 ≤ Dec.mul x f ∧ Dec.mul x f ≤ x := by
  unfold Dec.mul
  have h0 : 0 ≤ x * f := Int.mul_nonneg hx hf0
  have h1 : x * f ≤ x * P := Int.mul_le_mul_of_nonneg_left hf1 hx
  have hb := round2_bounds (x * f)
  have hn := monotone_round2_le (x * f) h0
  generalize round2 (x * f) = r at hb hn ⊢
  generalize x * f = xf at h0 h1 hb
  rw [P_eq] at h1 hb
  omega

/-- … and a non-positive one stays non-positive. -/
theorem mul_factor_nonpos (x f : Int) (hx : x ≤ 0) (hf0 : 0 ≤ f) : Dec.mul x f ≤ 0 := by
  unfold Dec.mul
  have h0 : x * f ≤ 0 := Int.mul_nonpos_of_nonpos_of_nonneg hx hf0
  have hb := round2_bounds (x * f)
  generalize round2 (x * f) = r at hb ⊢
  generalize x * f = xf at h0 hb
  rw [P_eq] at hb
  omega

/-- dividing a non-negative Dec by a factor in (0, 1] never decreases it. -/
theorem quo_factor_ge (x f : Int) (hx : 0 ≤ x) (hf0 : 0 < f) (hf1 : f ≤ P) : x ≤ Dec.quo x f := by
  unfold Dec.quo
  have hP := P_pos
  have hnn : 0 ≤ x * P * P := Int.mul_nonneg (Int.mul_nonneg hx (by omega)) (by omega)
  have hq := (tdiv_bounds (x * P * P) f hnn hf0).2
  have hge : x * P * f ≤ x * P * P := Int.mul_le_mul_of_nonneg_left hf1 (Int.mul_nonneg hx (by omega))
  have hlt : x * P * f < ((x * P * P).tdiv f + 1) * f := by omega
  have hq2 : x * P < (x * P * P).tdiv f + 1 := Int.lt_of_mul_lt_mul_right hlt (by omega)
  have hr := (round2_bounds ((x * P * P).tdiv f)).1
  generalize (x * P * P).tdiv f = q at hq2 hr ⊢
  generalize round2 q = r at hr ⊢
  rw [P_eq] at hq2 hr
  omega

/-- the tail of the oracle exact-in path: slippage, weight-breaking fee and swap fee applied to the oracle quote. -/
def oOutTail (oracleOut se wbf fee : Int) : Int :=
  (Dec.mul (Dec.mul (oracleOut - se) (P - wbf)) (P - fee)).tdiv P

theorem oOutTail_le (oracleOut se wbf fee : Int) (ho : 0 ≤ oracleOut) (hse : 0 ≤ se)
    (hw0 : 0 ≤ wbf) (hw1 : wbf ≤ P) (hf0 : 0 ≤ fee) (hf1 : fee ≤ P) :
    oOutTail oracleOut se wbf fee * P ≤ oracleOut := by
  unfold oOutTail
  by_cases hx : 0 ≤ oracleOut - se
  · obtain ⟨a0, a1⟩ := mul_factor_le (oracleOut - se) (P - wbf) hx (by omega) (by omega)
    obtain ⟨b0, b1⟩ := mul_factor_le _ (P - fee) a0 (by omega) (by omega)
    have := (tdiv_bounds _ P b0 P_pos).1
    omega
  · have a := mul_factor_nonpos (oracleOut - se) (P - wbf) (by omega) (by omega)
    have b := mul_factor_nonpos _ (P - fee) a (by omega)
    have h1 := Int.neg_tdiv (-(Dec.mul (Dec.mul (oracleOut - se) (P - wbf)) (P - fee))) P
    have h2 := Int.tdiv_nonneg (show 0 ≤ -(Dec.mul (Dec.mul (oracleOut - se) (P - wbf)) (P - fee)) by omega) (Int.le_of_lt P_pos)
    rw [Int.neg_neg] at h1
    have hP := P_eq
    generalize (Dec.mul (Dec.mul (oracleOut - se) (P - wbf)) (P - fee)).tdiv P = t at h1 ⊢
    generalize (-(Dec.mul (Dec.mul (oracleOut - se) (P - wbf)) (P - fee))).tdiv P = u at h1 h2
    rw [hP]; omega

/-- the oracle quote `amt·p_in/p_out` as the code rounds it is at most half a raw unit above the exact value. -/
theorem oracle_quote_le (amt pIn pOut : Int) (ha : 0 ≤ amt) (hpi : 0 ≤ pIn) (hpo : 0 < pOut) :
    2 * (Dec.quo (Dec.mul (amt * P) pIn) pOut * P) * pOut ≤ 2 * (amt * pIn) * (P * P) + P * pOut := by
  rw [mul_ofInt_left]
  unfold Dec.quo
  have hv : 0 ≤ amt * pIn * P * P := Int.mul_nonneg (Int.mul_nonneg (Int.mul_nonneg ha hpi) (Int.le_of_lt P_pos)) (Int.le_of_lt P_pos)
  have hq := (tdiv_bounds _ pOut hv hpo).1
  have hr := (round2_bounds ((amt * pIn * P * P).tdiv pOut)).2
  have e1 : 2 * (round2 ((amt * pIn * P * P).tdiv pOut) * P) * pOut ≤ (2 * (amt * pIn * P * P).tdiv pOut + P) * pOut :=
    Int.mul_le_mul_of_nonneg_right hr (by omega)
  grind

/-- the tail of the oracle exact-out path. -/
def oInTail (oracleIn se wbf fee : Int) : Int :=
  Dec.ceilInt (Dec.quo (Dec.quo (oracleIn + se) (P - wbf)) (P - fee))

theorem oInTail_ge (oracleIn se wbf fee : Int) (ho : 0 ≤ oracleIn) (hse : 0 ≤ se)
    (hw0 : 0 ≤ wbf) (hw1 : wbf < P) (hf0 : 0 ≤ fee) (hf1 : fee < P) :
    oracleIn ≤ oInTail oracleIn se wbf fee * P := by
  unfold oInTail
  have a := quo_factor_ge (oracleIn + se) (P - wbf) (by omega) (by omega) (by omega)
  have b := quo_factor_ge (Dec.quo (oracleIn + se) (P - wbf)) (P - fee) (by omega) (by omega) (by omega)
  have c := ceilInt_ge (Dec.quo (Dec.quo (oracleIn + se) (P - wbf)) (P - fee))
  omega

/-- the oracle quote `out·p_out/p_in` as the code rounds it is at most (1/2 + 10⁻¹⁸) raw units below the exact value. -/
theorem oracle_in_quote_ge (amt pIn pOut : Int) (ha : 0 ≤ amt) (hpo : 0 ≤ pOut) (hpi : 0 < pIn) :
    2 * (amt * pOut) * (P * P) ≤ 2 * (Dec.quo (Dec.mul (amt * P) pOut) pIn * P) * pIn + (P + 2) * pIn := by
  rw [mul_ofInt_left]
  unfold Dec.quo
  have hv : 0 ≤ amt * pOut * P * P := Int.mul_nonneg (Int.mul_nonneg (Int.mul_nonneg ha hpo) (Int.le_of_lt P_pos)) (Int.le_of_lt P_pos)
  have hq := (tdiv_bounds _ pIn hv hpi).2
  have hr := (round2_bounds ((amt * pOut * P * P).tdiv pIn)).1
  have e1 : (2 * (amt * pOut * P * P).tdiv pIn - P) * pIn ≤ 2 * (round2 ((amt * pOut * P * P).tdiv pIn) * P) * pIn :=
    Int.mul_le_mul_of_nonneg_right hr (by omega)
  grind

theorem oracle_value_core (out oo amt pIn pOut P : Int) (hP : 0 < P) (hpo : 0 ≤ pOut) (ht : out * P ≤ oo)
    (hq : 2 * (oo * P) * pOut ≤ 2 * (amt * pIn) * (P * P) + P * pOut) :
    2 * P * out * pOut ≤ 2 * P * amt * pIn + pOut := by
  have e1 : out * P * (2 * P * pOut) ≤ oo * (2 * P * pOut) :=
    Int.mul_le_mul_of_nonneg_right ht (Int.mul_nonneg (by omega) hpo)
  have e2 : (2 * P * out * pOut) * P ≤ (2 * P * amt * pIn + pOut) * P := by grind
  exact Int.le_of_mul_le_mul_right e2 hP

theorem oracle_in_value_core (inn oi amt pIn pOut P : Int) (hP : 0 < P) (hpi : 0 ≤ pIn) (ht : oi ≤ inn * P)
    (hq : 2 * (amt * pOut) * (P * P) ≤ 2 * (oi * P) * pIn + (P + 2) * pIn) :
    2 * P * P * amt * pOut ≤ 2 * P * P * inn * pIn + pIn * (P + 2) := by
  have e1 : oi * (2 * P * pIn) ≤ inn * P * (2 * P * pIn) :=
    Int.mul_le_mul_of_nonneg_right ht (Int.mul_nonneg (by omega) hpi)
  grind

/-- structure of a successful oracle exact-in swap: the amount is the tail function applied to the
oracle quote, a NON-NEGATIVE slippage term and the weight-breaking fee recorded in the ghost field. -/
theorem oSwapOut_ok (p : OPool) (iIn : Nat) (amt fee : Int) (pr : OParams) (r : OSwapRes)
    (h : oSwapOut p iIn amt fee pr = .ok r) :
    fee < P ∧ (p.get (1 - iIn)).price ≠ 0 ∧
    r.oracleAmount = Dec.quo (Dec.mul (amt * P) (p.get iIn).price) (p.get (1 - iIn)).price ∧
    ∃ sa, 0 ≤ sa ∧ r.amount = oOutTail r.oracleAmount (Dec.mul sa (p.get (1 - iIn)).ext) r.wbf fee := by
  unfold oSwapOut at h
  try simp only at h
  split at h
  · cases h
  · split at h
    · cases h
    · rename_i hpo
      obtain ⟨idist, _, h⟩ := bind_ok h
      obtain ⟨v, hv, h⟩ := bind_ok h
      have ev := mulC_ok hv
      obtain ⟨oo, hoo, h⟩ := bind_ok h
      have eoo := (quoC_ok hoo).1
      split at h
      · cases h
      · obtain ⟨rs, _, h⟩ := bind_ok h
        try simp only at h
        split at h
        · cases h
        · obtain ⟨⟨bo, sl0⟩, _, h⟩ := bind_ok h
          obtain ⟨v2, _, h⟩ := bind_ok h
          obtain ⟨oo2, _, h⟩ := bind_ok h
          obtain ⟨sa, _, h⟩ := bind_ok h
          try simp only at h
          obtain ⟨se, hse, h⟩ := bind_ok h
          have ese := mulC_ok hse
          obtain ⟨oas, hoas, h⟩ := bind_ok h
          have eoas := subC_ok hoas
          obtain ⟨slp, _, h⟩ := bind_ok h
          try simp only at h
          split at h
          · cases h
          · obtain ⟨na, _, h⟩ := bind_ok h
            obtain ⟨⟨wbf, bonus⟩, _, h⟩ := bind_ok h
            try simp only at h
            split at h
            · cases h
            · rename_i hfee
              obtain ⟨f1, hf1, h⟩ := bind_ok h
              have ef1 := subC_ok hf1
              obtain ⟨o1, ho1, h⟩ := bind_ok h
              have eo1 := mulC_ok ho1
              obtain ⟨f2, hf2, h⟩ := bind_ok h
              have ef2 := subC_ok hf2
              obtain ⟨o2, ho2, h⟩ := bind_ok h
              have eo2 := mulC_ok ho2
              try simp only at h
              split at h
              · cases h
              · have hr := (Except.ok.inj h).symm
                subst hr
                refine ⟨by omega, hpo, by simp only; rw [eoo, ev], if sa < 0 then 0 else sa, by split <;> omega, ?_⟩
                simp only [oOutTail]
                rw [eo2, eo1, ef1, ef2, eoas, ese]

theorem oSwapIn_ok (p : OPool) (iIn : Nat) (amt fee : Int) (pr : OParams) (r : OSwapRes)
    (h : oSwapIn p iIn amt fee pr = .ok r) :
    fee < P ∧ (p.get iIn).price ≠ 0 ∧
    r.oracleAmount = Dec.quo (Dec.mul (amt * P) (p.get (1 - iIn)).price) (p.get iIn).price ∧
    ∃ sa, 0 ≤ sa ∧ r.amount = oInTail r.oracleAmount (Dec.mul sa (p.get (1 - iIn)).ext) r.wbf fee := by
  unfold oSwapIn at h
  try simp only at h
  split at h
  · cases h
  · rename_i hpi
    split at h
    · cases h
    · obtain ⟨idist, _, h⟩ := bind_ok h
      obtain ⟨v, hv, h⟩ := bind_ok h
      have ev := mulC_ok hv
      obtain ⟨oi, hoi, h⟩ := bind_ok h
      have eoi := (quoC_ok hoi).1
      split at h
      · cases h
      · obtain ⟨rs, _, h⟩ := bind_ok h
        try simp only at h
        split at h
        · cases h
        · obtain ⟨⟨bi, sl0⟩, _, h⟩ := bind_ok h
          obtain ⟨v2, _, h⟩ := bind_ok h
          obtain ⟨oi2, _, h⟩ := bind_ok h
          obtain ⟨sa, _, h⟩ := bind_ok h
          try simp only at h
          obtain ⟨se, hse, h⟩ := bind_ok h
          have ese := mulC_ok hse
          obtain ⟨ias, hias, h⟩ := bind_ok h
          have eias := addC_ok hias
          obtain ⟨slp, _, h⟩ := bind_ok h
          try simp only at h
          split at h
          · cases h
          · obtain ⟨na, _, h⟩ := bind_ok h
            obtain ⟨⟨wbf, bonus⟩, _, h⟩ := bind_ok h
            try simp only at h
            split at h
            · cases h
            · rename_i hfee
              obtain ⟨f1, hf1, h⟩ := bind_ok h
              have ef1 := subC_ok hf1
              obtain ⟨i1, hi1, h⟩ := bind_ok h
              have ei1 := (quoC_ok hi1).1
              obtain ⟨f2, hf2, h⟩ := bind_ok h
              have ef2 := subC_ok hf2
              obtain ⟨i2, hi2, h⟩ := bind_ok h
              have ei2 := (quoC_ok hi2).1
              obtain ⟨c, hc, h⟩ := bind_ok h
              have ec := ceilC_ok hc
              split at h
              · cases h
              · have hr := (Except.ok.inj h).symm
                subst hr
                refine ⟨by omega, hpi, by simp only; rw [eoi, ev], if sa < 0 then 0 else sa, by split <;> omega, ?_⟩
                simp only [oInTail]
                rw [ec, ei2, ei1, ef1, ef2, eias, ese]

end Elys.Amm
