/-
Oracle pool, single-sided exit (`oCalcExit`, the port of `CalcExitPool` with `UseOracle` and a token-out denom): the shape of a
successful result, and the bound it implies. Core-only.
-/
import ElysModel.Amm.SingleSided
import ElysModel.Lemmas.AmmBase
import ElysModel.Lemmas.AmmRound
import ElysModel.Lemmas.AmmOracle
namespace Elys.Amm
open Elys

/-- the exiting shares' pro-rata claim at the oracle prices, as the code computes it: `TVL · x / S / price` in 18-digit decimals -/
def exitOracleAmount (t S x price : Int) : Int := Dec.quo (Dec.quo (Dec.mul t (x * P)) (S * P)) price

/-- structure of a successful single-sided oracle exit: the payout is the pro-rata oracle amount times `1 − weightBreakingFee`
(the returned bonus is `−weightBreakingFee`), rounded; the rounded pro-rata amount itself is not negative -/
theorem oCalcExit_ok (p : OPool) (iOut : Nat) (x : Int) (pr : OParams) (out bonus : Int) (S0 : Int)
    (h : oCalcExit p S0 iOut x pr = .ok (out, bonus)) :
    x < S0 ∧ ∃ t, tvl [p.a0, p.a1] = .ok t ∧ (p.get iOut).price ≠ 0 ∧
      0 ≤ Dec.roundInt (exitOracleAmount t S0 x (p.get iOut).price) ∧ 0 ≤ out ∧
      out = Dec.roundInt (Dec.mul (exitOracleAmount t S0 x (p.get iOut).price) (P + bonus)) := by
  unfold oCalcExit at h
  split at h
  · cases h
  · rename_i hx
    obtain ⟨_, _, h⟩ := bind_ok h
    try simp only at h
    obtain ⟨idist, _, h⟩ := bind_ok h
    obtain ⟨t, ht, h⟩ := bind_ok h
    split at h
    · cases h
    · obtain ⟨ev1, hev1, h⟩ := bind_ok h
      have e1 := mulC_ok hev1
      obtain ⟨ev, hev, h⟩ := bind_ok h
      have e2 := (quoC_ok hev).1
      split at h
      · cases h
      · rename_i hprice
        obtain ⟨oo, hoo, h⟩ := bind_ok h
        have e3 := (quoC_ok hoo).1
        try simp only at h
        split at h
        · cases h
        · rename_i hr
          obtain ⟨na, _, h⟩ := bind_ok h
          obtain ⟨wd, _, h⟩ := bind_ok h
          obtain ⟨dd, _, h⟩ := bind_ok h
          obtain ⟨to, _, h⟩ := bind_ok h
          obtain ⟨ti, _, h⟩ := bind_ok h
          obtain ⟨fo, _, h⟩ := bind_ok h
          obtain ⟨fi, _, h⟩ := bind_ok h
          obtain ⟨io, _, h⟩ := bind_ok h
          obtain ⟨ii, _, h⟩ := bind_ok h
          obtain ⟨wbf, _, h⟩ := bind_ok h
          obtain ⟨f, hf, h⟩ := bind_ok h
          have ef := subC_ok hf
          obtain ⟨o, ho, h⟩ := bind_ok h
          have eo := mulC_ok ho
          try simp only at h
          split at h
          · cases h
          · rename_i hout
            have hr2 := Except.ok.inj h
            have hout' : out = Dec.roundInt o := (Prod.mk.inj hr2).1.symm
            have hb : bonus = -wbf := (Prod.mk.inj hr2).2.symm
            have hoo' : oo = exitOracleAmount t S0 x (p.get iOut).price := by
              unfold exitOracleAmount; rw [e3, e2, e1]
            refine ⟨by omega, t, ht, hprice, ?_, by omega, ?_⟩
            · rw [← hoo']; omega
            · rw [hout', eo, ef, hoo', hb]; congr 2

/-- `2 · out ≤ 2 · oracleAmount + 1` in base units (raw decimals: `oracleAmount` carries 18 digits): whatever the pool's weights,
the weight-breaking fee only ever REDUCES what a single-sided exit is paid below the shares' pro-rata claim at the oracle prices
(plus half a base unit of rounding) — provided the fee is a fraction, i.e. the bonus it is returned as lies in [−1, 0] -/
theorem oCalcExit_le (p : OPool) (iOut : Nat) (x S0 : Int) (pr : OParams) (out bonus : Int)
    (h : oCalcExit p S0 iOut x pr = .ok (out, bonus)) (hb0 : -P ≤ bonus) (hb1 : bonus ≤ 0) :
    ∃ t, tvl [p.a0, p.a1] = .ok t ∧ 2 * (out * P) ≤ 2 * exitOracleAmount t S0 x (p.get iOut).price + P := by
  obtain ⟨_, t, ht, _, hr, hout0, hout⟩ := oCalcExit_ok p iOut x pr out bonus S0 h
  refine ⟨t, ht, ?_⟩
  generalize exitOracleAmount t S0 x (p.get iOut).price = oo at *
  have hb := (round2_bounds (Dec.mul oo (P + bonus))).2
  have hbr := (round2_bounds oo).2
  unfold Dec.roundInt at hout hr
  rw [← hout] at hb
  by_cases hoo : 0 ≤ oo
  · have hm := mul_factor_le oo (P + bonus) hoo (by omega) (by omega)
    omega
  · have hm := mul_factor_nonpos oo (P + bonus) (by omega) (by omega)
    -- out·P ≤ P/2 forces out ≤ 0, hence out = 0; and the rounded pro-rata amount is ≥ 0, so 2·oo + P ≥ 0
    have hP := P_eq
    have h1 : 2 * (out * P) ≤ P := by omega
    have h2 : out ≤ 0 := by
      by_cases hpos : out ≤ 0
      · exact hpos
      · have : 1 * P ≤ out * P := Int.mul_le_mul_of_nonneg_right (by omega) (Int.le_of_lt P_pos)
        omega
    have h3 : out = 0 := by omega
    have h4 : 0 ≤ round2 oo * P := Int.mul_nonneg hr (Int.le_of_lt P_pos)
    rw [h3]; omega

end Elys.Amm
