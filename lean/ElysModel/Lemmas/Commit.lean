import ElysModel.Ledger.Commit
namespace Elys.Commit
open FMap

theorem sumCommitted_add (c : FMap AD) (a d d' : String) (x : Int) :
    sumIf (fun k => k.2 == d) (c.add (a, d') x) = sumIf (fun k => k.2 == d) c + (if d' = d then x else 0) := by
  rw [sumIf_add]; simp

/-- per-denom view of a state: the numbers the invariants talk about. -/
structure View where
  total : Int
  sumC : Int
  sumCl : Int
  custody : Int
  supply : Int
  pool : Int
  unc : Int
  burnt : Int
deriving DecidableEq

def view (s : St) (d : String) : View :=
  { total := s.total.get d, sumC := sumCommitted s d, sumCl := sumClaimed s d, custody := s.custody.get d,
    supply := s.supply.get d, pool := s.poolShares.get d, unc := s.unc.get d, burnt := s.burnt.get d }

/-- effect of one successful macro-op on the per-denom view: the view of every other denom is
unchanged; on its own denom the op has the stated deltas. -/
theorem view_commitLiquid {s s' : St} {a d : String} {amt : Int} (h : commitLiquid s a d amt = .ok s') (e : String) :
    view s' e = if d = e then { view s e with total := (view s e).total + amt, sumC := (view s e).sumC + amt, custody := (view s e).custody + amt }
                else view s e := by
  unfold commitLiquid at h
  split at h; · simp at h
  simp only [Except.ok.injEq] at h; subst h
  by_cases hd : d = e
  · subst hd; simp [view, sumCommitted, sumClaimed, sumCommitted_add, get_add]
  · simp [view, sumCommitted, sumClaimed, sumCommitted_add, get_add, hd]

theorem view_uncommit {s s' : St} {a d : String} {amt : Int} (h : uncommit s a d amt = .ok s') (e : String) :
    view s' e = if d = e then
        (if isVirtual d then { view s e with total := (view s e).total + amt, sumC := (view s e).sumC - amt, sumCl := (view s e).sumCl + amt, unc := (view s e).unc + amt }
         else { view s e with total := (view s e).total + amt, sumC := (view s e).sumC - amt, custody := (view s e).custody - amt, unc := (view s e).unc + amt })
      else view s e := by
  unfold uncommit at h
  split at h; · simp at h
  split at h; · simp at h
  simp only [Except.ok.injEq] at h; subst h
  by_cases hd : d = e
  · subst hd
    by_cases hv : isVirtual d = true
    · simp [view, sumCommitted, sumClaimed, sumCommitted_add, get_add, hv]; omega
    · simp [view, sumCommitted, sumClaimed, sumCommitted_add, get_add, hv]; omega
  · by_cases hv : isVirtual d = true
    · simp [view, sumCommitted, sumClaimed, sumCommitted_add, get_add, hv, hd]
    · simp [view, sumCommitted, sumClaimed, sumCommitted_add, get_add, hv, hd]

theorem view_commitClaimed {s s' : St} {a d : String} {amt : Int} (h : commitClaimed s a d amt = .ok s') (e : String) :
    view s' e = if d = e then { view s e with total := (view s e).total + amt, sumC := (view s e).sumC + amt, sumCl := (view s e).sumCl - amt }
                else view s e := by
  unfold commitClaimed at h
  split at h; · simp at h
  split at h; · simp at h
  simp only [Except.ok.injEq] at h; subst h
  by_cases hd : d = e
  · subst hd; simp [view, sumCommitted, sumClaimed, sumCommitted_add, get_add]; omega
  · simp [view, sumCommitted, sumClaimed, sumCommitted_add, get_add, hd]

theorem view_burnBoost {s s' : St} {a d : String} {amt : Int} (h : burnBoost s a d amt = .ok s') (e : String) :
    ∃ c1 c2 : Int, 0 ≤ c2 ∧ view s' e = if d = e then { view s e with sumC := (view s e).sumC - c2, sumCl := (view s e).sumCl - c1, burnt := (view s e).burnt + c2 }
                else view s e := by
  unfold burnBoost at h
  split at h; · simp at h
  simp only at h
  split at h
  · simp only [Except.ok.injEq] at h; subst h
    refine ⟨0, 0, Int.le_refl _, ?_⟩; split <;> simp
  · simp only [Except.ok.injEq] at h; subst h
    refine ⟨max (min amt (s.claimed.get (a, d))) 0,
      max (min (amt - max (min amt (s.claimed.get (a, d))) 0) (s.committed.get (a, d))) 0, by omega, ?_⟩
    by_cases hd : d = e
    · subst hd; simp [view, sumCommitted, sumClaimed, sumCommitted_add, get_add]; omega
    · simp [view, sumCommitted, sumClaimed, sumCommitted_add, get_add, hd]

theorem view_depositClaimed {s s' : St} {a d : String} {amt : Int} (h : depositClaimed s a d amt = .ok s') (e : String) :
    view s' e = if d = e then { view s e with sumCl := (view s e).sumCl + amt, custody := (view s e).custody + amt }
                else view s e := by
  unfold depositClaimed at h
  split at h; · simp at h
  simp only [Except.ok.injEq] at h; subst h
  by_cases hd : d = e
  · subst hd; simp [view, sumCommitted, sumClaimed, sumCommitted_add, get_add]
  · simp [view, sumCommitted, sumClaimed, sumCommitted_add, get_add, hd]

theorem view_claimedDelta {s s' : St} {a d : String} {x : Int} (h : claimedDelta s a d x = .ok s') (e : String) :
    view s' e = if d = e then { view s e with sumCl := (view s e).sumCl + x } else view s e := by
  unfold claimedDelta at h
  split at h; · simp at h
  simp only [Except.ok.injEq] at h; subst h
  by_cases hd : d = e
  · subst hd; simp [view, sumCommitted, sumClaimed, sumCommitted_add, get_add]
  · simp [view, sumCommitted, sumClaimed, sumCommitted_add, get_add, hd]

theorem view_mintShares {s s' : St} {a d : String} {amt : Int} (h : mintShares s a d amt = .ok s') (e : String) :
    view s' e = if d = e then { view s e with total := (view s e).total + amt, sumC := (view s e).sumC + amt, custody := (view s e).custody + amt,
                                               supply := (view s e).supply + amt, pool := (view s e).pool + amt }
                else view s e := by
  unfold mintShares at h
  split at h
  · simp at h
  · have := view_commitLiquid h e
    rw [this]
    by_cases hd : d = e
    · subst hd; simp [view, sumCommitted, sumClaimed, get_add]
    · simp [view, sumCommitted, sumClaimed, get_add, hd]

theorem view_burnShares {s s' : St} {a d : String} {amt : Int} (hv : isVirtual d = false) (h : burnShares s a d amt = .ok s') (e : String) :
    view s' e = if d = e then { view s e with total := (view s e).total + amt, sumC := (view s e).sumC - amt, custody := (view s e).custody - amt,
                                               supply := (view s e).supply - amt, pool := (view s e).pool - amt, unc := (view s e).unc + amt }
                else view s e := by
  unfold burnShares at h
  split at h
  · simp at h
  · rename_i s1 h1
    simp only [Except.ok.injEq] at h; subst h
    have := view_uncommit h1 e
    by_cases hd : d = e
    · subst hd
      simp only [hv, if_true, Bool.false_eq_true, if_false] at this
      simp only [view, sumCommitted, sumClaimed, get_add, if_true, View.mk.injEq] at this ⊢
      refine ⟨this.1, this.2.1, this.2.2.1, this.2.2.2.1, ?_, ?_, this.2.2.2.2.2.2.1, this.2.2.2.2.2.2.2⟩ <;> omega
    · simp only [hd, if_false] at this
      simp only [view, sumCommitted, sumClaimed, get_add, hd, if_false, View.mk.injEq] at this ⊢
      exact this

end Elys.Commit
