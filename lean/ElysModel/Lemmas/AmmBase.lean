/-
Generic lemmas about the `Except`-valued checked operations of the amm port. Core-only.
-/
import ElysModel.Amm.Liquidity
import ElysModel.Lemmas.AmmRound
namespace Elys.Amm
open Elys

theorem bind_ok {α β : Type} {x : Except Err α} {f : α → Except Err β} {b : β}
    (h : (x >>= f) = .ok b) : ∃ a, x = .ok a ∧ f a = .ok b := by
  cases x with
  | error e => simp [bind, Except.bind] at h
  | ok a => exact ⟨a, rfl, h⟩

theorem chk_ok {a v : Int} (h : chk a = .ok v) : v = a := by
  unfold chk at h; split at h
  · exact (Except.ok.inj h).symm
  · cases h
theorem chkI_ok {a v : Int} (h : chkI a = .ok v) : v = a := by
  unfold chkI at h; split at h
  · exact (Except.ok.inj h).symm
  · cases h
theorem addC_ok {a b v : Int} (h : addC a b = .ok v) : v = a + b := chk_ok h
theorem subC_ok {a b v : Int} (h : subC a b = .ok v) : v = a - b := chk_ok h
theorem mulC_ok {a b v : Int} (h : mulC a b = .ok v) : v = Dec.mul a b := chk_ok h
theorem mulIntC_ok {a b v : Int} (h : mulIntC a b = .ok v) : v = a * b := chk_ok h
theorem quoC_ok {a b v : Int} (h : quoC a b = .ok v) : v = Dec.quo a b ∧ b ≠ 0 := by
  unfold quoC at h; split at h
  · cases h
  · exact ⟨chk_ok h, by assumption⟩
theorem quoIntC_ok {a b v : Int} (h : quoIntC a b = .ok v) : v = a.tdiv b ∧ b ≠ 0 := by
  unfold quoIntC at h; split at h
  · cases h
  · exact ⟨(Except.ok.inj h).symm, by assumption⟩
theorem ceilC_ok {a v : Int} (h : ceilC a = .ok v) : v = Dec.ceilInt a := by
  unfold ceilC at h
  obtain ⟨_, _, h⟩ := bind_ok h
  exact (Except.ok.inj h).symm

/-- `Ceil` never rounds down. -/
theorem ceilInt_ge (a : Int) : a ≤ Dec.ceilInt a * P := by
  unfold Dec.ceilInt
  have hs : Int.sign (1000000000000000000 : Int) = 1 := by decide
  simp only [Int.tdiv_eq_ediv, Int.tmod_eq_emod, P, hs]
  split <;> split <;> omega

theorem mapM1_ok {f : Int → Except Err Int} : ∀ {l r : List Int}, mapM1 f l = .ok r →
    r.length = l.length ∧ ∀ i (h1 : i < l.length) (h2 : i < r.length), f l[i] = .ok r[i]
  | [], r, h => by
    have : r = [] := (Except.ok.inj h).symm
    subst this
    exact ⟨rfl, fun i h1 _ => absurd h1 (Nat.not_lt_zero i)⟩
  | a :: as, r, h => by
    unfold mapM1 at h
    obtain ⟨x, hx, h⟩ := bind_ok h
    obtain ⟨xs, hxs, h⟩ := bind_ok h
    have : r = x :: xs := (Except.ok.inj h).symm
    subst this
    obtain ⟨hl, hg⟩ := mapM1_ok hxs
    refine ⟨by simp [hl], ?_⟩
    intro i h1 h2
    cases i with
    | zero => simpa using hx
    | succ j => simpa using hg j (by simpa using h1) (by simpa using h2)

theorem mapM2_ok {f : Int → Int → Except Err Int} : ∀ {l1 l2 r : List Int}, mapM2 f l1 l2 = .ok r →
    l1.length = l2.length →
    r.length = l1.length ∧ ∀ i (h1 : i < l1.length) (h2 : i < l2.length) (h3 : i < r.length), f l1[i] l2[i] = .ok r[i]
  | [], [], r, h, _ => by
    have : r = [] := (Except.ok.inj h).symm
    subst this
    exact ⟨rfl, fun i h1 _ _ => absurd h1 (Nat.not_lt_zero i)⟩
  | [], _ :: _, _, _, hl => by simp at hl
  | _ :: _, [], _, _, hl => by simp at hl
  | a :: as, b :: bs, r, h, hl => by
    unfold mapM2 at h
    obtain ⟨x, hx, h⟩ := bind_ok h
    obtain ⟨xs, hxs, h⟩ := bind_ok h
    have : r = x :: xs := (Except.ok.inj h).symm
    subst this
    obtain ⟨hl', hg⟩ := mapM2_ok hxs (by simpa using hl)
    refine ⟨by simp [hl'], ?_⟩
    intro i h1 h2 h3
    cases i with
    | zero => simpa using hx
    | succ j => simpa using hg j (by simpa using h1) (by simpa using h2) (by simpa using h3)

theorem mapM3_ok {f : Int → Int → Int → Except Err Int} : ∀ {l1 l2 l3 r : List Int}, mapM3 f l1 l2 l3 = .ok r →
    l1.length = l2.length → l1.length = l3.length →
    r.length = l1.length ∧ ∀ i (h1 : i < l1.length) (h2 : i < l2.length) (h3 : i < l3.length) (h4 : i < r.length),
      f l1[i] l2[i] l3[i] = .ok r[i]
  | [], [], [], r, h, _, _ => by
    have : r = [] := (Except.ok.inj h).symm
    subst this
    exact ⟨rfl, fun i h1 _ _ _ => absurd h1 (Nat.not_lt_zero i)⟩
  | [], _ :: _, _, _, _, hl, _ => by simp at hl
  | [], [], _ :: _, _, _, _, hl => by simp at hl
  | _ :: _, [], _, _, _, hl, _ => by simp at hl
  | _ :: _, _ :: _, [], _, _, _, hl => by simp at hl
  | a :: as, b :: bs, c :: cs, r, h, hl, hl3 => by
    unfold mapM3 at h
    obtain ⟨x, hx, h⟩ := bind_ok h
    obtain ⟨xs, hxs, h⟩ := bind_ok h
    have : r = x :: xs := (Except.ok.inj h).symm
    subst this
    obtain ⟨hl', hg⟩ := mapM3_ok hxs (by simpa using hl) (by simpa using hl3)
    refine ⟨by simp [hl'], ?_⟩
    intro i h1 h2 h3 h4
    cases i with
    | zero => simpa using hx
    | succ j => simpa using hg j (by simpa using h1) (by simpa using h2) (by simpa using h3) (by simpa using h4)

theorem minList_le_init : ∀ (l : List Int) (init : Int), minList init l ≤ init
  | [], _ => Int.le_refl _
  | a :: l, init => by
    unfold minList; simp only [List.foldl_cons]
    have := minList_le_init l (if a < init then a else init)
    unfold minList at this
    by_cases hlt : a < init <;> simp only [hlt, if_true, if_false] at this ⊢ <;> omega

theorem minList_le_mem : ∀ (l : List Int) (init : Int) (r : Int), r ∈ l → minList init l ≤ r
  | a :: l, init, r, h => by
    unfold minList; simp only [List.foldl_cons]
    rcases List.mem_cons.mp h with h | h
    · subst h
      have := minList_le_init l (if r < init then r else init)
      unfold minList at this
      by_cases hlt : r < init <;> simp only [hlt, if_true, if_false] at this ⊢ <;> omega
    · exact minList_le_mem l _ r h

theorem maxList_ge_init : ∀ (l : List Int) (init : Int), init ≤ maxList init l
  | [], _ => Int.le_refl _
  | a :: l, init => by
    unfold maxList; simp only [List.foldl_cons]
    have := maxList_ge_init l (if a > init then a else init)
    unfold maxList at this
    by_cases hlt : a > init <;> simp only [hlt, if_true, if_false] at this ⊢ <;> omega

theorem maxList_ge_mem : ∀ (l : List Int) (init : Int) (r : Int), r ∈ l → r ≤ maxList init l
  | a :: l, init, r, h => by
    unfold maxList; simp only [List.foldl_cons]
    rcases List.mem_cons.mp h with h | h
    · subst h
      have := maxList_ge_init l (if r > init then r else init)
      unfold maxList at this
      by_cases hlt : r > init <;> simp only [hlt, if_true, if_false] at this ⊢ <;> omega
    · exact maxList_ge_mem l _ r h

end Elys.Amm
