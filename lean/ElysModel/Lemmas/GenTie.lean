/-
Helper lemmas for the source-tie theorems (`Props/C*Src.lean`): facts about the definitions that `harness/cmd/go2lean`
regenerates from the Go source on every run (`Gen/Arith/*.lean`).
-/
import ElysModel.Gen.Arith.solveConstantFunctionInvariant
import ElysModel.Amm.Swap
import ElysModel.Lemmas.AmmBase
namespace Elys.Amm
open Elys

theorem ite_pure {ε α : Type} {c : Prop} [Decidable c] (a b : α) :
    (if c then (pure a : Except ε α) else pure b) = pure (if c then a else b) := by split <;> rfl

/-- the translated `solveConstantFunctionInvariant` is the model's `solveCFI`, for all arguments. -/
theorem gen_solveCFI_eq (xb xa wx yb wy : Int) :
    Gen.Arith.solveConstantFunctionInvariant xb xa wx yb wy = solveCFI xb xa wx yb wy := by
  unfold Gen.Arith.solveConstantFunctionInvariant solveCFI
  by_cases h : wy = 0
  · simp [h]
  · simp only [h, if_false]
    by_cases h2 : xa ≤ 0
    · have : xa = 0 ∨ xa < 0 := by omega
      simp [h2, this]
    · have : ¬ (xa = 0 ∨ xa < 0) := by omega
      simp [h2, this]

/-- the last step of `InterestRateComputation` as translated: the clamp into [min, max]. -/
theorem clamp_in (ir mn mx r : Int) (hmm : mn ≤ mx)
    (h : (do
      let n ← (if (ir > mn) ∧ (ir < mx) then (pure ir : Except Err Int)
        else do
          let n ← (if ir ≤ mn then (pure mn : Except Err Int) else do
            let n ← (if ir ≥ mx then (pure mx : Except Err Int) else pure ir)
            pure n)
          pure n)
      pure n) = .ok r) : mn ≤ r ∧ r ≤ mx := by
  by_cases h1 : ir > mn ∧ ir < mx
  · simp [h1] at h; cases h; omega
  · by_cases h2 : ir ≤ mn
    · simp [h1, h2] at h; cases h; omega
    · by_cases h3 : ir ≥ mx
      · simp [h1, h2, h3] at h; cases h; omega
      · omega

end Elys.Amm
