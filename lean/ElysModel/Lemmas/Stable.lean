/- helper lemmas for C07 (stablestake vault): rounding bounds of the LegacyDec operations on raw integers,
the rate / shares / payout bounds, and the core inequalities behind Props/C07.lean.  Core-only: the
nonlinear steps are done by supplying the products by hand and closing with `omega` on the literal 10^18. -/
import ElysModel.Stable.Model
namespace Elys.Stable
open Elys

theorem round2_bounds {x : Int} (hx : 0 ≤ x) :
    0 ≤ round2 x ∧ 2 * (round2 x * P) ≤ 2 * x + P ∧ 2 * x ≤ 2 * (round2 x * P) + P := by
  have h0 : ¬ x < 0 := by omega
  simp only [round2, roundNonneg, h0, if_false, Int.tdiv_eq_ediv_of_nonneg hx, Int.tmod_eq_emod_of_nonneg hx, P]
  split
  · omega
  · split
    · omega
    · split
      · omega
      · split <;> omega

theorem round2_mono {x y : Int} (hx : 0 ≤ x) (hxy : x ≤ y) : round2 x ≤ round2 y := by
  have hy : 0 ≤ y := by omega
  have h0 : ¬ x < 0 := by omega
  have h1 : ¬ y < 0 := by omega
  simp only [round2, roundNonneg, h0, h1, if_false, Int.tdiv_eq_ediv_of_nonneg hx, Int.tmod_eq_emod_of_nonneg hx,
    Int.tdiv_eq_ediv_of_nonneg hy, Int.tmod_eq_emod_of_nonneg hy, P]
  split <;> split <;> (try split) <;> (try split) <;> (try split) <;> (try split) <;> (try split) <;> (try split) <;> omega

theorem roundNonneg_mul_P (k : Int) : roundNonneg (k * P) = k := by
  have hP : P ≠ 0 := by decide
  simp [roundNonneg, Int.mul_tmod_left, Int.mul_tdiv_cancel _ hP]

theorem round2_mul_P (k : Int) : round2 (k * P) = k := by
  unfold round2
  split
  · rw [← Int.neg_mul, roundNonneg_mul_P]; omega
  · exact roundNonneg_mul_P k

/-- the 36-digit truncated quotient inside `Quo`, for a positive divisor and a non-negative dividend:
`x = ⌊n·P²/d⌋` with `x·d ≤ n·P² < x·d + d`. -/
theorem quo_trunc {n d : Int} (hn : 0 ≤ n) (hd : 0 < d) :
    ∃ x, 0 ≤ x ∧ Dec.quo n d = round2 x ∧ x * d ≤ n * P * P ∧ n * P * P < x * d + d := by
  have hnn : 0 ≤ n * P * P := Int.mul_nonneg (Int.mul_nonneg hn (Int.le_of_lt P_pos)) (Int.le_of_lt P_pos)
  refine ⟨n * P * P / d, Int.ediv_nonneg hnn (Int.le_of_lt hd), ?_, Int.ediv_mul_le _ (by omega), ?_⟩
  · simp only [Dec.quo, Int.tdiv_eq_ediv_of_nonneg hnn]
  · have := Int.lt_ediv_add_one_mul_self (n * P * P) hd
    rw [Int.add_mul, Int.one_mul] at this; exact this

theorem rate_pos {TV S : Int} (hS : 0 < S) (hTV : 0 ≤ TV) :
    ∃ x, 0 ≤ x ∧ rate TV S = round2 x ∧ x * S ≤ TV * P * P ∧ TV * P * P < x * S + S := by
  have hS0 : S ≠ 0 := by omega
  have hnn : 0 ≤ TV * P * P := Int.mul_nonneg (Int.mul_nonneg hTV (Int.le_of_lt P_pos)) (Int.le_of_lt P_pos)
  have hnn' : 0 ≤ TV * P * P * P := Int.mul_nonneg hnn (Int.le_of_lt P_pos)
  refine ⟨TV * P * P / S, Int.ediv_nonneg hnn (Int.le_of_lt hS), ?_, Int.ediv_mul_le _ hS0, ?_⟩
  · simp only [rate, hS0, if_false, Dec.quo, Dec.ofInt, Int.tdiv_eq_ediv_of_nonneg hnn']
    rw [Int.mul_ediv_mul_of_pos_left _ _ P_pos]
  · have := Int.lt_ediv_add_one_mul_self (TV * P * P) hS
    rw [Int.add_mul, Int.one_mul] at this; exact this

/-- the redemption rate is within half a raw unit (plus the 36-digit truncation) of `TV·P/S`. -/
theorem rate_bounds {TV S : Int} (hS : 0 < S) (hTV : 0 ≤ TV) :
    0 ≤ rate TV S ∧ 2 * (rate TV S * S) ≤ 2 * (TV * P) + S ∧
    P * (2 * (TV * P)) < P * (2 * (rate TV S * S) + S) + 2 * S := by
  obtain ⟨x, hx, hr, h1, h2⟩ := rate_pos hS hTV
  obtain ⟨b0, b1, b2⟩ := round2_bounds hx
  rw [← hr] at b0 b1 b2
  -- multiply the rounding bounds by S
  have m1 : 2 * (rate TV S * P) * S ≤ (2 * x + P) * S := Int.mul_le_mul_of_nonneg_right b1 (Int.le_of_lt hS)
  have m2 : (2 * x) * S ≤ (2 * (rate TV S * P) + P) * S := Int.mul_le_mul_of_nonneg_right b2 (Int.le_of_lt hS)
  have e1 : 2 * (rate TV S * P) * S = P * (2 * (rate TV S * S)) := by grind
  have e2 : (2 * x + P) * S = 2 * (x * S) + P * S := by grind
  have e3 : (2 * x) * S = 2 * (x * S) := by grind
  have e4 : (2 * (rate TV S * P) + P) * S = P * (2 * (rate TV S * S) + S) := by grind
  have e5 : TV * P * P = P * (TV * P) := by grind
  rw [e1, e2] at m1; rw [e3, e4] at m2; rw [e5] at h1 h2
  refine ⟨b0, ?_, ?_⟩
  · have : P * (2 * (rate TV S * S)) ≤ P * (2 * (TV * P) + S) := by
      have : P * (2 * (TV * P) + S) = 2 * (P * (TV * P)) + P * S := by grind
      omega
    exact Int.le_of_mul_le_mul_left this P_pos
  · have : P * (2 * (TV * P)) = 2 * (P * (TV * P)) := by grind
    omega

theorem rate_ge_one {TV S : Int} (hS : 0 < S) (h : S ≤ TV) : P ≤ rate TV S := by
  obtain ⟨x, hx, hr, h1, h2⟩ := rate_pos hS (by omega : 0 ≤ TV)
  have hPP : 0 ≤ P * P := Int.mul_nonneg (Int.le_of_lt P_pos) (Int.le_of_lt P_pos)
  -- S·P² ≤ TV·P² < (x+1)·S  ⇒  P² ≤ x
  have h3 : S * (P * P) ≤ TV * (P * P) := Int.mul_le_mul_of_nonneg_right h hPP
  have e : TV * P * P = TV * (P * P) := by grind
  have h4 : S * (P * P) < S * (x + 1) := by
    have : x * S + S = S * (x + 1) := by grind
    omega
  have h5 : P * P < x + 1 := Int.lt_of_mul_lt_mul_left h4 (Int.le_of_lt hS)
  have h6 : P * P ≤ x := by omega
  have := round2_mono hPP h6
  rw [round2_mul_P, ← hr] at this; exact this



theorem sharesFor_pos {a r : Int} (hr : 0 < r) : sharesFor a r = round2 (Dec.quo (a * P) r) := by
  have : r ≠ 0 := by omega
  simp [sharesFor, this, Dec.roundInt, Dec.ofInt]

/-- shares minted: within half a share (plus the two inner roundings) of `a·P/r`. -/
theorem shares_bounds {a r : Int} (ha : 0 ≤ a) (hr : 0 < r) :
    0 ≤ sharesFor a r ∧
    2 * (sharesFor a r * r) * P ≤ 2 * a * P * P + (P + 1) * r ∧
    2 * a * P * P * P < 2 * (sharesFor a r * r) * P * P + (P * P + P + 2) * r := by
  have haP : 0 ≤ a * P := Int.mul_nonneg ha (Int.le_of_lt P_pos)
  obtain ⟨y, hy, hq, h1, h2⟩ := quo_trunc haP hr
  obtain ⟨q0, q1, q2⟩ := round2_bounds hy
  rw [← hq] at q0 q1 q2
  obtain ⟨m0, m1, m2⟩ := round2_bounds q0
  rw [← sharesFor_pos hr] at m0 m1 m2
  generalize sharesFor a r = m at *
  generalize Dec.quo (a * P) r = q at *
  have hr0 : 0 ≤ r := Int.le_of_lt hr
  have p1 := Int.mul_le_mul_of_nonneg_right q1 hr0
  have p2 := Int.mul_le_mul_of_nonneg_right q2 hr0
  have p3 := Int.mul_le_mul_of_nonneg_right m1 hr0
  have p4 := Int.mul_le_mul_of_nonneg_right m2 hr0
  have e1 : 2 * (q * P) * r = 2 * P * (q * r) := by grind
  have e2 : (2 * y + P) * r = 2 * (y * r) + P * r := by grind
  have e3 : 2 * y * r = 2 * (y * r) := by grind
  have e4 : (2 * (q * P) + P) * r = 2 * P * (q * r) + P * r := by grind
  have e5 : 2 * (m * P) * r = 2 * P * (m * r) := by grind
  have e6 : (2 * q + P) * r = 2 * (q * r) + P * r := by grind
  have e7 : 2 * q * r = 2 * (q * r) := by grind
  have e8 : (2 * (m * P) + P) * r = 2 * P * (m * r) + P * r := by grind
  rw [e1, e2] at p1; rw [e3, e4] at p2; rw [e5, e6] at p3; rw [e7, e8] at p4
  refine ⟨m0, ?_, ?_⟩
  · simp only [P] at *; omega
  · simp only [P] at *; omega

/-- at a rate ≥ 1 a deposit is never minted more shares than units deposited. -/
theorem shares_le_amount {a r : Int} (ha : 0 ≤ a) (hr : P ≤ r) : sharesFor a r ≤ a := by
  have hr0 : 0 < r := Int.lt_of_lt_of_le P_pos hr
  have haP : 0 ≤ a * P := Int.mul_nonneg ha (Int.le_of_lt P_pos)
  obtain ⟨y, hy, hq, h1, _⟩ := quo_trunc haP hr0
  have h2 : y * P ≤ y * r := Int.mul_le_mul_of_nonneg_left hr hy
  have h3 : y ≤ a * P * P := by
    have : y * P ≤ (a * P * P) * P := by omega
    exact Int.le_of_mul_le_mul_right this P_pos
  have h4 := round2_mono hy h3
  rw [round2_mul_P, ← hq] at h4
  have hq0 : 0 ≤ Dec.quo (a * P) r := by rw [hq]; exact (round2_bounds hy).1
  have h5 := round2_mono hq0 h4
  rw [round2_mul_P, ← sharesFor_pos hr0] at h5
  exact h5

theorem payoutFor_eq (s r : Int) : payoutFor s r = round2 (s * r) := by
  have : s * P * r = (s * r) * P := by grind
  simp [payoutFor, Dec.roundInt, Dec.mul, Dec.ofInt, this, round2_mul_P]

theorem payout_bounds {s r : Int} (h : 0 ≤ s * r) :
    0 ≤ payoutFor s r ∧ 2 * (payoutFor s r * P) ≤ 2 * (s * r) + P ∧ 2 * (s * r) ≤ 2 * (payoutFor s r * P) + P := by
  rw [payoutFor_eq]; exact round2_bounds h

theorem payout_mono {s r r' : Int} (hs : 0 ≤ s) (hr : 0 ≤ r) (h : r ≤ r') : payoutFor s r ≤ payoutFor s r' := by
  rw [payoutFor_eq, payoutFor_eq]
  exact round2_mono (Int.mul_nonneg hs hr) (Int.mul_le_mul_of_nonneg_left h hs)



/-- bond `a`, then unbond the minted shares at the new rate: the round trip returns at most
`a + 1/2 + (r/P)/2 · (1 + 1/P + 2/P²) + 2S/P²` (all sizes; integer form). -/
theorem bond_unbond_core {TV S a : Int} (hS : 0 < S) (hTV0 : 0 ≤ TV) (hr : 0 < rate TV S) (ha : 1 ≤ a) :
    2 * (P * P * P) * (payoutFor (sharesFor a (rate TV S)) (rate (TV + a) (S + sharesFor a (rate TV S))) - a)
      ≤ P * P * P + (P * P + P + 2) * rate TV S + 4 * S * P := by
  obtain ⟨R0, R1, R2⟩ := rate_bounds hS hTV0
  obtain ⟨M0, M1, M2⟩ := shares_bounds (by omega : 0 ≤ a) hr
  generalize rate TV S = r at *
  generalize sharesFor a r = m at *
  have hS1 : 0 < S + m := by omega
  obtain ⟨Q0, Q1, _⟩ := rate_bounds hS1 (by omega : 0 ≤ TV + a)
  generalize rate (TV + a) (S + m) = r1 at *
  obtain ⟨_, B1, _⟩ := payout_bounds (Int.mul_nonneg M0 Q0)
  generalize payoutFor m r1 = p at *
  rw [Int.mul_add] at Q1
  by_cases hd : r1 ≤ r
  · have h1 : m * r1 ≤ m * r := Int.mul_le_mul_of_nonneg_left hd M0
    simp only [P] at *; omega
  · have hd' : r + 1 ≤ r1 := by omega
    have h1 : (r + 1) * S ≤ r1 * S := Int.mul_le_mul_of_nonneg_right hd' (Int.le_of_lt hS)
    have h2 : (r + 1) * m ≤ r1 * m := Int.mul_le_mul_of_nonneg_right hd' M0
    rw [Int.add_mul, Int.one_mul] at h1 h2
    rw [Int.mul_comm m r1] at B1; rw [Int.mul_comm m r] at M1 M2
    simp only [P] at *; omega

/-- how far the rate can fall in one bond: `(r − r')·S' < (1 + 1/P)·(S' + r/2)`. -/
theorem rate_fall_bond {TV S a : Int} (hS : 0 < S) (hTV0 : 0 ≤ TV) (hr : 0 < rate TV S) (ha : 1 ≤ a) :
    2 * P * ((rate TV S - rate (TV + a) (S + sharesFor a (rate TV S))) * (S + sharesFor a (rate TV S)))
      < (P + 1) * (2 * (S + sharesFor a (rate TV S)) + rate TV S) := by
  obtain ⟨R0, R1, R2⟩ := rate_bounds hS hTV0
  obtain ⟨M0, M1, M2⟩ := shares_bounds (by omega : 0 ≤ a) hr
  generalize rate TV S = r at *
  generalize sharesFor a r = m at *
  have hS1 : 0 < S + m := by omega
  obtain ⟨Q0, _, Q2⟩ := rate_bounds hS1 (by omega : 0 ≤ TV + a)
  generalize rate (TV + a) (S + m) = r1 at *
  have e : (r - r1) * (S + m) = r * S + m * r - r1 * (S + m) := by grind
  rw [e]
  simp only [P] at *; omega



/-- scaling a bound on `D·N` down to a holder of `h ≤ N` shares. -/
theorem scale_holder {h D N r K Q : Int} (hh : 0 ≤ h) (hN : h ≤ N) (hr : 0 ≤ r) (hK : 0 < K)
    (hb : Q * (D * N) < K * (2 * N + r)) : Q * (h * D) < K * (2 * h + r) ∨ h = 0 := by
  by_cases h0 : h = 0
  · exact Or.inr h0
  · left
    have hpos : 0 < h := by omega
    have hN0 : 0 ≤ N := by omega
    apply Int.lt_of_not_ge
    intro hc
    have c1 := Int.mul_lt_mul_of_pos_left hb hpos
    have c3 := Int.mul_le_mul_of_nonneg_right hc hN0
    have c4 : r * h ≤ r * N := Int.mul_le_mul_of_nonneg_left hN hr
    have c5 : K * (r * h) ≤ K * (r * N) := Int.mul_le_mul_of_nonneg_left c4 (Int.le_of_lt hK)
    have e1 : h * (Q * (D * N)) = Q * (h * D) * N := by grind
    have e2 : h * (K * (2 * N + r)) = 2 * (K * (h * N)) + K * (r * h) := by grind
    have e3 : K * (2 * h + r) * N = 2 * (K * (h * N)) + K * (r * N) := by grind
    rw [e1, e2] at c1; rw [e3] at c3
    omega

/-- someone else's bond: a holder of `h ≤ S` shares loses less than `1 + (1 + 1/P)·(h/P + (r/P)/2)`. -/
theorem others_bond_core {TV S a h : Int} (hS : 0 < S) (hTV0 : 0 ≤ TV) (hr : 0 < rate TV S) (ha : 1 ≤ a) (hh : 0 ≤ h) (hhS : h ≤ S) :
    2 * (P * P) * (payoutFor h (rate TV S) - payoutFor h (rate (TV + a) (S + sharesFor a (rate TV S))))
      < 2 * (P * P) + (P + 1) * (2 * h + rate TV S) := by
  have hfall := rate_fall_bond hS hTV0 hr ha
  obtain ⟨R0, _, _⟩ := rate_bounds hS hTV0
  obtain ⟨M0, _, _⟩ := shares_bounds (by omega : 0 ≤ a) hr
  generalize rate TV S = r at *
  generalize sharesFor a r = m at *
  have hS1 : 0 < S + m := by omega
  obtain ⟨Q0, _, _⟩ := rate_bounds hS1 (by omega : 0 ≤ TV + a)
  generalize rate (TV + a) (S + m) = r1 at *
  by_cases hd : r ≤ r1
  · have := payout_mono hh R0 hd
    simp only [P] at *; omega
  · obtain ⟨_, V1, _⟩ := payout_bounds (Int.mul_nonneg hh R0)
    obtain ⟨_, _, V2⟩ := payout_bounds (Int.mul_nonneg hh Q0)
    have hP1 : 0 < P + 1 := by have := P_pos; omega
    rcases scale_holder hh (by omega : h ≤ S + m) R0 hP1 hfall with hs | h0
    · have e : h * (r - r1) = h * r - h * r1 := Int.mul_sub _ _ _
      rw [e] at hs
      simp only [P] at *; omega
    · subst h0
      simp only [P, Int.zero_mul] at *; omega

/-- how far the rate can fall in one unbond that leaves `S' = S − s > 0` shares and `TV − payout ≥ 0`. -/
theorem rate_fall_unbond {TV S s : Int} (hS : 0 < S) (hTV0 : 0 ≤ TV) (hs : 1 ≤ s) (hs' : s < S)
    (hp : payoutFor s (rate TV S) ≤ TV) :
    2 * P * ((rate TV S - rate (TV - payoutFor s (rate TV S)) (S - s)) * (S - s))
      < P * (S + P + (S - s)) + 2 * (S - s) := by
  obtain ⟨R0, R1, _⟩ := rate_bounds hS hTV0
  generalize rate TV S = r at *
  obtain ⟨_, B1, _⟩ := payout_bounds (Int.mul_nonneg (by omega : 0 ≤ s) R0)
  generalize payoutFor s r = p at *
  obtain ⟨_, _, Q2⟩ := rate_bounds (by omega : 0 < S - s) (by omega : 0 ≤ TV - p)
  generalize rate (TV - p) (S - s) = r1 at *
  have e : (r - r1) * (S - s) = r * S - s * r - r1 * (S - s) := by grind
  rw [e]
  simp only [P] at *; omega

/-- someone else's unbond: a holder of `h ≤ S − s` shares loses less than `3/2 + (S + S')/(2P) + S'/P²`. -/
theorem others_unbond_core {TV S s h : Int} (hS : 0 < S) (hTV0 : 0 ≤ TV) (hs : 1 ≤ s) (hs' : s < S)
    (hp : payoutFor s (rate TV S) ≤ TV) (hh : 0 ≤ h) (hhS : h ≤ S - s) :
    2 * (P * P) * (payoutFor h (rate TV S) - payoutFor h (rate (TV - payoutFor s (rate TV S)) (S - s)))
      < 3 * (P * P) + P * (S + (S - s)) + 2 * (S - s) := by
  have hfall := rate_fall_unbond hS hTV0 hs hs' hp
  obtain ⟨R0, _, _⟩ := rate_bounds hS hTV0
  generalize rate TV S = r at *
  generalize payoutFor s r = p at *
  obtain ⟨Q0, _, _⟩ := rate_bounds (by omega : 0 < S - s) (by omega : 0 ≤ TV - p)
  generalize rate (TV - p) (S - s) = r1 at *
  by_cases hd : r ≤ r1
  · have := payout_mono hh R0 hd
    simp only [P] at *; omega
  · obtain ⟨_, V1, _⟩ := payout_bounds (Int.mul_nonneg hh R0)
    obtain ⟨_, _, V2⟩ := payout_bounds (Int.mul_nonneg hh Q0)
    have c : h * (r - r1) ≤ (S - s) * (r - r1) := Int.mul_le_mul_of_nonneg_right hhS (by omega)
    rw [Int.mul_comm (S - s) (r - r1), Int.mul_sub h r r1] at c
    simp only [P] at *; omega

/-- `Borrow`'s two `LegacyDec` sides compare exactly like the integers `10·(TV − cash + amt)` and `9·TV`. -/
theorem cap_iff (s : St) (amt : Int) : borrowedAfter s amt > maxAllowed s ↔ 10 * (s.tv - s.cash + amt) > 9 * s.tv := by
  have h1 : Dec.mul (Dec.ofInt s.tv) (Dec.ofInt 9) = s.tv * 9 * P := by
    have : s.tv * P * (9 * P) = (s.tv * 9 * P) * P := by grind
    simp only [Dec.mul, Dec.ofInt, this, round2_mul_P]
  have h2 : maxAllowed s = s.tv * 9 * 100000000000000000 := by
    have e : s.tv * 9 * P * P * P = (s.tv * 9 * 100000000000000000 * P) * (10 * P) := by simp only [P]; omega
    have hne : (10 * P) ≠ 0 := by decide
    unfold maxAllowed
    rw [h1]
    simp only [Dec.quo, Dec.ofInt, e, Int.mul_tdiv_cancel _ hne, round2_mul_P]
  simp only [h2, borrowedAfter, Dec.ofInt, P]
  omega



/-! ### what a successful call says about its inputs and outputs -/

theorem bond_ok {s : St} {a bal : Int} {s1 : St} {m : Int} (h : bond s a bal = .ok (s1, m)) :
    1 ≤ a ∧ a ≤ bal ∧ m = sharesFor a (rate s.tv s.supply) ∧ 0 ≤ m ∧
    s1 = { s with cash := s.cash + a, supply := s.supply + m, tv := s.tv + a } := by
  unfold bond at h; dsimp only at h
  split at h; · exact nomatch h
  split at h; · exact nomatch h
  split at h; · exact nomatch h
  injection h with h; injection h with h1 h2
  subst h2
  exact ⟨by omega, by omega, rfl, by omega, h1.symm⟩

theorem unbond_ok {s : St} {sh held : Int} {s1 : St} {p : Int} (h : unbond s sh held = .ok (s1, p)) :
    1 ≤ sh ∧ sh ≤ held ∧ p = payoutFor sh (rate s.tv s.supply) ∧ 1 ≤ p ∧ p ≤ s.cash ∧
    s1 = { s with supply := s.supply - sh, cash := s.cash - p, tv := s.tv - p } := by
  unfold unbond at h; dsimp only at h
  split at h; · exact nomatch h
  split at h; · exact nomatch h
  split at h; · exact nomatch h
  split at h; · exact nomatch h
  split at h; · exact nomatch h
  injection h with h; injection h with h1 h2
  subst h2
  exact ⟨by omega, by omega, rfl, by omega, by omega, h1.symm⟩

theorem borrow_ok {s : St} {amt i : Int} {s' : St} (h : borrow s amt i = .ok s') :
    ¬ (borrowedAfter s amt > maxAllowed s) ∧ 1 ≤ amt ∧ amt ≤ s.cash ∧
    s' = { s with stacked := s.stacked + i, tv := s.tv + i, borrowed := s.borrowed + amt, cash := s.cash - amt } := by
  unfold borrow accrue at h; dsimp only at h
  split at h; · exact nomatch h
  split at h; · exact nomatch h
  split at h; · exact nomatch h
  injection h with h
  exact ⟨by assumption, by omega, by omega, h.symm⟩

end Elys.Stable
