/-
Helper lemmas for C16 (oracle price store): the byte order, big-endian encoding, the sorted KV store,
the reverse prefix scan, `EndBlock` as a filter, well-formedness of the price store. Core-only.
-/
import ElysModel.Oracle.Model
namespace Elys.Oracle

/-! ### `bytes.Compare` is a strict total order; prefixes -/

theorem blt_irrefl (a : Bytes) : blt a a = false := by
  induction a with
  | nil => rfl
  | cons x xs ih => simp [blt, ih]

theorem blt_cons (x y : Nat) (xs ys : Bytes) :
    blt (x :: xs) (y :: ys) = true ↔ x < y ∨ (x = y ∧ blt xs ys = true) := by
  simp [blt]

theorem blt_trans : ∀ {a b c : Bytes}, blt a b = true → blt b c = true → blt a c = true
  | [], [], _, h, _ => by simp [blt] at h
  | [], _ :: _, [], _, h => by simp [blt] at h
  | [], _ :: _, _ :: _, _, _ => by simp [blt]
  | _ :: _, [], _, h, _ => by simp [blt] at h
  | _ :: _, _ :: _, [], _, h => by simp [blt] at h
  | x :: xs, y :: ys, z :: zs, h1, h2 => by
    rw [blt_cons] at h1 h2 ⊢
    rcases h1 with h1 | ⟨e1, h1⟩
    · rcases h2 with h2 | ⟨e2, _⟩
      · left; omega
      · left; omega
    · rcases h2 with h2 | ⟨e2, h2⟩
      · left; omega
      · right; exact ⟨by omega, blt_trans h1 h2⟩

theorem blt_asymm {a b : Bytes} (h : blt a b = true) : blt b a = false := by
  cases hb : blt b a with
  | false => rfl
  | true => have := blt_trans h hb; rw [blt_irrefl] at this; cases this

theorem blt_ne {a b : Bytes} (h : blt a b = true) : a ≠ b := by
  intro e; subst e; rw [blt_irrefl] at h; cases h

theorem blt_total : ∀ (a b : Bytes), blt a b = true ∨ a = b ∨ blt b a = true
  | [], [] => .inr (.inl rfl)
  | [], _ :: _ => .inl rfl
  | _ :: _, [] => .inr (.inr rfl)
  | x :: xs, y :: ys => by
    rcases blt_total xs ys with h | h | h
    · rcases Nat.lt_trichotomy x y with hx | hx | hx
      · left; rw [blt_cons]; exact .inl hx
      · left; rw [blt_cons]; exact .inr ⟨hx, h⟩
      · right; right; rw [blt_cons]; exact .inl hx
    · rcases Nat.lt_trichotomy x y with hx | hx | hx
      · left; rw [blt_cons]; exact .inl hx
      · right; left; rw [hx, h]
      · right; right; rw [blt_cons]; exact .inl hx
    · rcases Nat.lt_trichotomy x y with hx | hx | hx
      · left; rw [blt_cons]; exact .inl hx
      · right; right; rw [blt_cons]; exact .inr ⟨hx.symm, h⟩
      · right; right; rw [blt_cons]; exact .inl hx

theorem blt_append_left (c x y : Bytes) : blt (c ++ x) (c ++ y) = blt x y := by
  induction c with
  | nil => rfl
  | cons a c ih => simp [blt, ih]

theorem isPrefix_append_left (c x y : Bytes) : isPrefix (c ++ x) (c ++ y) = isPrefix x y := by
  induction c with
  | nil => rfl
  | cons a c ih => simp [isPrefix, ih]

theorem isPrefix_self_append (x y : Bytes) : isPrefix x (x ++ y) = true := by
  induction x with
  | nil => simp [isPrefix]
  | cons a x ih => simp [isPrefix, ih]

/-! ### big-endian encoding is order-preserving -/

theorem beBytes_blt (n : Nat) : ∀ x y, x < 256 ^ n → y < 256 ^ n →
    (blt (beBytes n x) (beBytes n y) = true ↔ x < y) := by
  induction n with
  | zero => intro x y hx hy; simp at hx hy; subst hx; subst hy; simp [beBytes, blt]
  | succ n ih =>
    intro x y hx hy
    have hB : 0 < 256 ^ n := Nat.pow_pos (by decide)
    have hxr : x % 256 ^ n < 256 ^ n := Nat.mod_lt _ hB
    have hyr : y % 256 ^ n < 256 ^ n := Nat.mod_lt _ hB
    have hxq : x / 256 ^ n < 256 := by
      rw [Nat.div_lt_iff_lt_mul hB]; rw [Nat.pow_succ] at hx; rw [Nat.mul_comm]; exact hx
    have hyq : y / 256 ^ n < 256 := by
      rw [Nat.div_lt_iff_lt_mul hB]; rw [Nat.pow_succ] at hy; rw [Nat.mul_comm]; exact hy
    have ex := Nat.div_add_mod x (256 ^ n)
    have ey := Nat.div_add_mod y (256 ^ n)
    simp only [beBytes, blt_cons, Nat.mod_eq_of_lt hxq, Nat.mod_eq_of_lt hyq, ih _ _ hxr hyr]
    generalize 256 ^ n = B at *
    generalize hqx : x / B = qx at *
    generalize hqy : y / B = qy at *
    generalize x % B = rx at *
    generalize y % B = ry at *
    constructor
    · rintro (h | ⟨h, h'⟩)
      · have : B * (qx + 1) ≤ B * qy := Nat.mul_le_mul_left B h
        rw [Nat.mul_succ] at this; omega
      · subst h; omega
    · intro h
      rcases Nat.lt_trichotomy qx qy with hq | hq | hq
      · exact .inl hq
      · subst hq; right; exact ⟨rfl, by omega⟩
      · have : B * (qy + 1) ≤ B * qx := Nat.mul_le_mul_left B hq
        rw [Nat.mul_succ] at this; omega

theorem be64_blt (x y : Nat) (hx : x < 2 ^ 64) (hy : y < 2 ^ 64) :
    (blt (be64 x) (be64 y) = true ↔ x < y) :=
  beBytes_blt 8 x y (by simpa using hx) (by simpa using hy)

/-! ### the sorted KV store -/

namespace KV
variable {α : Type}

def Sorted (s : KV α) : Prop := s.Pairwise (fun a b => blt a.1 b.1 = true)

theorem mem_del {k : Bytes} {s : KV α} {x : Bytes × α} : x ∈ del k s ↔ x ∈ s ∧ x.1 ≠ k := by
  simp [del, List.mem_filter]

theorem sorted_del {k : Bytes} {s : KV α} (h : Sorted s) : Sorted (del k s) :=
  List.Pairwise.filter _ h

theorem del_del (k : Bytes) (s : KV α) : del k (del k s) = del k s := by
  simp [del, List.filter_filter]

theorem mem_set {k : Bytes} {v : α} {s : KV α} (hs : Sorted s) {x : Bytes × α} :
    x ∈ set k v s ↔ x = (k, v) ∨ (x ∈ s ∧ x.1 ≠ k) := by
  induction s with
  | nil => simp [set]
  | cons hd t ih =>
    obtain ⟨k', v'⟩ := hd
    have ⟨hhd, ht⟩ := List.pairwise_cons.mp hs
    unfold set
    by_cases h1 : blt k k' = true
    · simp only [h1, if_true, List.mem_cons]
      constructor
      · rintro (h | h | h)
        · exact .inl h
        · right; subst h; exact ⟨.inl rfl, fun e => blt_ne h1 e.symm⟩
        · right; exact ⟨.inr h, fun e => by
            have := blt_trans h1 (hhd x h); rw [e, blt_irrefl] at this; cases this⟩
      · rintro (h | ⟨h | h, _⟩)
        · exact .inl h
        · exact .inr (.inl h)
        · exact .inr (.inr h)
    · simp only [h1, Bool.false_eq_true, if_false]
      by_cases h2 : k = k'
      · subst h2
        simp only [if_true, List.mem_cons]
        constructor
        · rintro (h | h)
          · exact .inl h
          · right; exact ⟨.inr h, fun e => by have := hhd x h; simp only at this; rw [e, blt_irrefl] at this; cases this⟩
        · rintro (h | ⟨h | h, hne⟩)
          · exact .inl h
          · subst h; exact absurd rfl hne
          · exact .inr h
      · simp only [h2, if_false, List.mem_cons, ih ht]
        constructor
        · rintro (h | h | ⟨h, hne⟩)
          · right; subst h; exact ⟨.inl rfl, fun e => h2 e.symm⟩
          · exact .inl h
          · exact .inr ⟨.inr h, hne⟩
        · rintro (h | ⟨h | h, hne⟩)
          · exact .inr (.inl h)
          · exact .inl h
          · exact .inr (.inr ⟨h, hne⟩)

theorem sorted_set {k : Bytes} {v : α} {s : KV α} (hs : Sorted s) : Sorted (set k v s) := by
  induction s with
  | nil => simp [set, Sorted]
  | cons hd t ih =>
    obtain ⟨k', v'⟩ := hd
    have ⟨hhd, ht⟩ := List.pairwise_cons.mp hs
    unfold set
    by_cases h1 : blt k k' = true
    · simp only [h1, if_true]
      refine List.pairwise_cons.mpr ⟨?_, hs⟩
      intro a ha
      rcases List.mem_cons.mp ha with h | h
      · subst h; exact h1
      · exact blt_trans h1 (hhd a h)
    · simp only [h1, Bool.false_eq_true, if_false]
      by_cases h2 : k = k'
      · subst h2; simp only [if_true]
        exact List.pairwise_cons.mpr ⟨fun a ha => hhd a ha, ht⟩
      · simp only [h2, if_false]
        refine List.pairwise_cons.mpr ⟨?_, ih ht⟩
        intro a ha
        rcases (mem_set ht).mp ha with h | ⟨h, _⟩
        · subst h
          rcases blt_total k k' with h | h | h
          · exact absurd h h1
          · exact absurd h h2
          · exact h
        · exact hhd a h

theorem sorted_unique {s : KV α} (hs : Sorted s) {x y : Bytes × α} (hx : x ∈ s) (hy : y ∈ s)
    (hk : x.1 = y.1) : x = y := by
  induction s with
  | nil => cases hx
  | cons hd t ih =>
    have ⟨hhd, ht⟩ := List.pairwise_cons.mp hs
    rcases List.mem_cons.mp hx with hx | hx <;> rcases List.mem_cons.mp hy with hy | hy
    · rw [hx, hy]
    · have := hhd y hy; rw [← hx, hk, blt_irrefl] at this; cases this
    · have := hhd x hx; rw [← hy, ← hk, blt_irrefl] at this; cases this
    · exact ih ht hx hy

/-- in a pairwise-ascending list the last element dominates every element. -/
theorem getLast_max {l : KV α} (hl : Sorted l) {m : Bytes × α} (hm : l.getLast? = some m) :
    m ∈ l ∧ ∀ y ∈ l, blt m.1 y.1 = false := by
  induction l with
  | nil => simp at hm
  | cons a t ih =>
    have ⟨hhd, ht⟩ := List.pairwise_cons.mp hl
    cases t with
    | nil =>
      simp at hm; subst hm
      exact ⟨List.mem_cons_self .., fun y hy => by simp at hy; subst hy; exact blt_irrefl _⟩
    | cons b t' =>
      rw [List.getLast?_cons_cons] at hm
      obtain ⟨hmem, hmax⟩ := ih ht hm
      refine ⟨List.mem_cons_of_mem _ hmem, ?_⟩
      intro y hy
      rcases List.mem_cons.mp hy with h | h
      · subst h; exact blt_asymm (hhd m hmem)
      · exact hmax y h

theorem revPrefixIter_head_none {p : Bytes} {s : KV α} (h : (revPrefixIter p s).head? = none) :
    ∀ x ∈ s, isPrefix p x.1 = false := by
  intro x hx
  cases hp : isPrefix p x.1 with
  | false => rfl
  | true =>
    have hm : x ∈ prefixIter p s := List.mem_filter.mpr ⟨hx, hp⟩
    simp [revPrefixIter] at h
    rw [h] at hm; cases hm

theorem revPrefixIter_head_some {p : Bytes} {s : KV α} (hs : Sorted s) {m : Bytes × α}
    (h : (revPrefixIter p s).head? = some m) :
    m ∈ s ∧ isPrefix p m.1 = true ∧ ∀ y ∈ s, isPrefix p y.1 = true → blt m.1 y.1 = false := by
  unfold revPrefixIter at h
  rw [List.head?_reverse] at h
  have hsf : Sorted (prefixIter p s) := List.Pairwise.filter _ hs
  obtain ⟨hmem, hmax⟩ := getLast_max hsf h
  have := List.mem_filter.mp hmem
  exact ⟨this.1, this.2, fun y hy hp => hmax y (List.mem_filter.mpr ⟨hy, hp⟩)⟩

/-- the head of the reverse scan is a stored entry even without sortedness. -/
theorem revPrefixIter_head_mem {p : Bytes} {s : KV α} {m : Bytes × α}
    (h : (revPrefixIter p s).head? = some m) : m ∈ s ∧ isPrefix p m.1 = true := by
  have : m ∈ revPrefixIter p s := List.mem_of_head? h
  simp [revPrefixIter, prefixIter, List.mem_filter] at this
  exact this

/-- deleting a list of keys. -/
theorem mem_foldl_del {β : Type} (key : β → Bytes) (c : β → Bool) (L : List β) (s : KV α) (x : Bytes × α) :
    x ∈ L.foldl (fun s p => if c p then del (key p) s else s) s ↔
      x ∈ s ∧ ∀ p ∈ L, c p = true → x.1 ≠ key p := by
  induction L generalizing s with
  | nil => simp
  | cons p L ih =>
    simp only [List.foldl_cons, ih, List.mem_cons, forall_eq_or_imp]
    by_cases hc : c p = true
    · simp only [hc, if_true, mem_del, forall_const]
      constructor
      · rintro ⟨⟨h1, h2⟩, h3⟩; exact ⟨h1, h2, h3⟩
      · rintro ⟨h1, h2, h3⟩; exact ⟨⟨h1, h2⟩, h3⟩
    · simp only [hc, Bool.false_eq_true, if_false, false_imp_iff, true_and]

end KV

open KV

/-! ### well-formed price stores -/

/-- what every price store built by `SetPrice`/`RemovePrice` satisfies: strictly ascending keys,
every key derived from its value, timestamps are uint64. -/
def WF (st : St) : Prop :=
  Sorted st.prices ∧ (∀ kv ∈ st.prices, kv.1 = kv.2.key) ∧ (∀ kv ∈ st.prices, kv.2.ts < 2 ^ 64)

theorem key_eq_body (p : Price) : p.key = pricePrefix ++ p.body := by
  simp [Price.key, Price.body, priceKey, priceKeyPrefixAssetAndSource, priceKeyPrefixAsset, List.append_assoc]

theorem mem_allPrices {st : St} {e : Price} : e ∈ allPrices st ↔ ∃ kv ∈ st.prices, kv.2 = e := by
  simp [allPrices]

theorem wf_empty (st : St) (h : st.prices = []) : WF st := by
  refine ⟨?_, ?_, ?_⟩ <;> simp [h, Sorted]

theorem wf_setPrice {st : St} (hw : WF st) (p : Price) (hp : p.ts < 2 ^ 64) : WF (setPrice st p) := by
  obtain ⟨h1, h2, h3⟩ := hw
  refine ⟨sorted_set h1, ?_, ?_⟩
  · intro kv hkv
    rcases (mem_set h1).mp hkv with h | ⟨h, _⟩
    · subst h; rfl
    · exact h2 kv h
  · intro kv hkv
    rcases (mem_set h1).mp hkv with h | ⟨h, _⟩
    · subst h; exact hp
    · exact h3 kv h

theorem wf_removePrice {st : St} (hw : WF st) (a s : Bytes) (ts : Nat) : WF (removePrice st a s ts) := by
  obtain ⟨h1, h2, h3⟩ := hw
  exact ⟨sorted_del h1, fun kv hkv => h2 kv (mem_del.mp hkv).1, fun kv hkv => h3 kv (mem_del.mp hkv).1⟩

theorem toU64_lt (i : Int) : toU64 i < 2 ^ 64 := by
  unfold toU64
  have h1 : 0 ≤ i % (2 ^ 64 : Int) := Int.emod_nonneg _ (by decide)
  have h2 : i % (2 ^ 64 : Int) < 2 ^ 64 := Int.emod_lt_of_pos _ (by decide)
  omega

theorem wf_feedFold {st : St} (hw : WF st) (signer : Bytes) (fs : List Feed) (time height : Int) :
    WF (fs.foldl (fun s f => setPrice s (f.toPrice signer time height)) st) := by
  induction fs generalizing st with
  | nil => exact hw
  | cons f fs ih => exact ih (wf_setPrice hw _ (toU64_lt time))

/-! ### the reverse prefix scan on a well-formed price store -/

/-- specification of one scan with prefix `"Price/value/" ++ q`. -/
theorem scan_spec {st : St} (hw : WF st) (q : Bytes) :
    match ((st.prices.revPrefixIter (pricePrefix ++ q)).head?).map (·.2) with
    | none => ∀ e ∈ allPrices st, isPrefix q e.body = false
    | some r => r ∈ allPrices st ∧ isPrefix q r.body = true ∧
        ∀ e ∈ allPrices st, isPrefix q e.body = true → blt r.body e.body = false := by
  obtain ⟨h1, h2, _⟩ := hw
  cases hh : (st.prices.revPrefixIter (pricePrefix ++ q)).head? with
  | none =>
    simp only [Option.map_none]
    intro e he
    obtain ⟨kv, hkv, rfl⟩ := mem_allPrices.mp he
    have := revPrefixIter_head_none hh kv hkv
    rw [h2 kv hkv, key_eq_body, isPrefix_append_left] at this
    exact this
  | some m =>
    simp only [Option.map_some]
    obtain ⟨hm, hp, hmax⟩ := revPrefixIter_head_some h1 hh
    refine ⟨mem_allPrices.mpr ⟨m, hm, rfl⟩, ?_, ?_⟩
    · rw [h2 m hm, key_eq_body, isPrefix_append_left] at hp; exact hp
    · intro e he hpe
      obtain ⟨kv, hkv, rfl⟩ := mem_allPrices.mp he
      have := hmax kv hkv (by rw [h2 kv hkv, key_eq_body, isPrefix_append_left]; exact hpe)
      rw [h2 kv hkv, h2 m hm, key_eq_body, key_eq_body, blt_append_left] at this
      exact this

/-- the result of any scan is a stored entry (no well-formedness needed). -/
theorem scan_mem {st : St} {p : Bytes} {r : Price}
    (h : ((st.prices.revPrefixIter p).head?).map (·.2) = some r) : r ∈ allPrices st := by
  cases hh : (st.prices.revPrefixIter p).head? with
  | none => rw [hh] at h; cases h
  | some m =>
    rw [hh] at h; simp at h; subst h
    exact mem_allPrices.mpr ⟨m, (revPrefixIter_head_mem hh).1, rfl⟩

theorem getAssetPrice_mem {st : St} {a : Bytes} {r : Price} (h : getAssetPrice st a = some r) :
    r ∈ allPrices st := by
  unfold getAssetPrice at h
  split at h
  · rename_i p hp; cases h; exact scan_mem hp
  · split at h
    · rename_i p hp; cases h; exact scan_mem hp
    · exact scan_mem h

/-- newer timestamp ⇒ larger key, for two entries of the same asset and source. -/
theorem ts_le_of_body {e r : Price} (ha : e.asset = r.asset) (hs : e.source = r.source)
    (he : e.ts < 2 ^ 64) (hr : r.ts < 2 ^ 64) (h : blt r.body e.body = false) : e.ts ≤ r.ts := by
  unfold Price.body at h
  rw [ha, hs, blt_append_left] at h
  have := be64_blt r.ts e.ts hr he
  rw [h] at this
  simp at this
  exact this

theorem noCollision_spec {st : St} {a : Bytes} (hn : noCollision st a = true) {e : Price}
    (he : e ∈ allPrices st) :
    (isPrefix (a ++ ELYS) e.body = true → e.asset = a ∧ e.source = ELYS) ∧
    (isPrefix (a ++ BAND) e.body = true → e.asset = a ∧ e.source = BAND) ∧
    (isPrefix a e.body = true → e.asset = a) := by
  unfold noCollision at hn
  have := List.all_eq_true.mp hn e he
  simp only [collidesWith, Bool.not_eq_true', Bool.or_eq_false_iff, Bool.and_eq_false_iff,
    Bool.not_eq_false', Bool.and_eq_true, decide_eq_true_eq] at this
  obtain ⟨⟨h1, h2⟩, h3⟩ := this
  refine ⟨fun h => ?_, fun h => ?_, fun h => ?_⟩
  · rcases h1 with h1 | h1
    · rw [h] at h1; cases h1
    · exact h1
  · rcases h2 with h2 | h2
    · rw [h] at h2; cases h2
    · exact h2
  · rcases h3 with h3 | h3
    · rw [h] at h3; cases h3
    · simpa using h3

theorem body_prefix_as (e : Price) : isPrefix (e.asset ++ e.source) e.body = true := by
  unfold Price.body; rw [List.append_assoc (e.asset ++ e.source)]; exact isPrefix_self_append _ _

theorem body_prefix_a (e : Price) : isPrefix e.asset e.body = true := by
  unfold Price.body; rw [List.append_assoc, List.append_assoc]; exact isPrefix_self_append _ _

/-- one (asset, source) tier under the no-collision hypothesis for that prefix. -/
theorem tier_spec {st : St} (hw : WF st) (a s : Bytes)
    (hn : ∀ e ∈ allPrices st, isPrefix (a ++ s) e.body = true → e.asset = a ∧ e.source = s) :
    match latestFromAssetAndSource st a s with
    | none => ∀ e ∈ allPrices st, ¬ (e.asset = a ∧ e.source = s)
    | some r => r ∈ allPrices st ∧ r.asset = a ∧ r.source = s ∧
        ∀ e ∈ allPrices st, e.asset = a → e.source = s → e.ts ≤ r.ts := by
  have hsp := scan_spec hw (a ++ s)
  have hpre : priceKeyPrefixAssetAndSource a s = pricePrefix ++ (a ++ s) := by
    simp [priceKeyPrefixAssetAndSource, priceKeyPrefixAsset, List.append_assoc]
  unfold latestFromAssetAndSource
  rw [hpre]
  split at hsp
  · intro e he ⟨ha, hs⟩
    have := hsp e he
    rw [← ha, ← hs, body_prefix_as] at this; cases this
  · rename_i r hsome
    obtain ⟨hr, hp, hmax⟩ := hsp
    obtain ⟨ra, rs⟩ := hn r hr hp
    refine ⟨hr, ra, rs, ?_⟩
    intro e he ha hs
    have hpe : isPrefix (a ++ s) e.body = true := by rw [← ha, ← hs]; exact body_prefix_as e
    obtain ⟨kv, hkv, hkve⟩ := mem_allPrices.mp he
    obtain ⟨kr, hkr, hkrr⟩ := mem_allPrices.mp hr
    exact ts_le_of_body (by rw [ha, ra]) (by rw [hs, rs]) (hkve ▸ hw.2.2 kv hkv) (hkrr ▸ hw.2.2 kr hkr)
      (hmax e he hpe)

/-- the "any source" tier under the no-collision hypothesis for the bare asset prefix. -/
theorem any_spec {st : St} (hw : WF st) (a : Bytes)
    (hn : ∀ e ∈ allPrices st, isPrefix a e.body = true → e.asset = a) :
    match latestFromAnySource st a with
    | none => ∀ e ∈ allPrices st, e.asset ≠ a
    | some r => r ∈ allPrices st ∧ r.asset = a ∧
        ∀ e ∈ allPrices st, e.asset = a → e.source = r.source → e.ts ≤ r.ts := by
  have hsp := scan_spec hw a
  unfold latestFromAnySource priceKeyPrefixAsset
  split at hsp
  · intro e he ha
    have := hsp e he
    rw [← ha, body_prefix_a] at this; cases this
  · rename_i r hsome
    obtain ⟨hr, hp, hmax⟩ := hsp
    have ra := hn r hr hp
    refine ⟨hr, ra, ?_⟩
    intro e he ha hs
    have hpe : isPrefix a e.body = true := by rw [← ha]; exact body_prefix_a e
    obtain ⟨kv, hkv, hkve⟩ := mem_allPrices.mp he
    obtain ⟨kr, hkr, hkrr⟩ := mem_allPrices.mp hr
    exact ts_le_of_body (by rw [ha, ra]) hs (hkve ▸ hw.2.2 kv hkv) (hkrr ▸ hw.2.2 kr hkr) (hmax e he hpe)

/-! ### the name-level sufficient condition -/

/-- a separator-free prefix of `X ++ "/" ++ Y` is a prefix of `X`. -/
theorem isPrefix_sep_free : ∀ (q X Y : Bytes), (47 ∈ q → False) →
    isPrefix q (X ++ 47 :: Y) = true → isPrefix q X = true
  | [], _, _, _, _ => by simp [isPrefix]
  | c :: q, [], Y, h, hp => by
    simp [isPrefix] at hp
    exact absurd (by rw [hp.1]; exact List.mem_cons_self ..) h
  | c :: q, x :: X, Y, h, hp => by
    simp only [List.cons_append, isPrefix, Bool.and_eq_true, decide_eq_true_eq] at hp ⊢
    exact ⟨hp.1, isPrefix_sep_free q X Y (fun hm => h (List.mem_cons_of_mem _ hm)) hp.2⟩

theorem noCollision_of_names {st : St} {a : Bytes} (h : namesNoCollision st a = true) :
    noCollision st a = true := by
  unfold namesNoCollision at h
  simp only [Bool.and_eq_true, Bool.not_eq_true', List.all_eq_true] at h
  obtain ⟨ha, hall⟩ := h
  have ha' : 47 ∈ a → False := by
    intro hm; have : a.contains 47 = true := List.contains_iff_mem.mpr hm
    rw [ha] at this; cases this
  have hE : 47 ∈ a ++ ELYS → False := by
    intro hm; rcases List.mem_append.mp hm with h1 | h1
    · exact ha' h1
    · revert h1; decide
  have hB : 47 ∈ a ++ BAND → False := by
    intro hm; rcases List.mem_append.mp hm with h1 | h1
    · exact ha' h1
    · revert h1; decide
  unfold noCollision
  rw [List.all_eq_true]
  intro e he
  have hn := hall e he
  have body_eq : e.body = (e.asset ++ e.source) ++ 47 :: be64 e.ts := by
    simp [Price.body, sep, List.append_assoc]
  simp only [namesCollide, Bool.or_eq_false_iff] at hn
  obtain ⟨⟨n1, n2⟩, n3⟩ := hn
  simp only [collidesWith, Bool.not_eq_true', Bool.or_eq_false_iff]
  refine ⟨⟨?_, ?_⟩, ?_⟩
  · cases hp : isPrefix (a ++ ELYS) e.body with
    | false => simp
    | true =>
      rw [body_eq] at hp
      rw [isPrefix_sep_free _ _ _ hE hp] at n1
      simpa using n1
  · cases hp : isPrefix (a ++ BAND) e.body with
    | false => simp
    | true =>
      rw [body_eq] at hp
      rw [isPrefix_sep_free _ _ _ hB hp] at n2
      simpa using n2
  · cases hp : isPrefix a e.body with
    | false => simp
    | true =>
      rw [body_eq] at hp
      rw [isPrefix_sep_free _ _ _ ha' hp] at n3
      simpa using n3

/-! ### `EndBlock` is a filter -/

def expired (pr : Params) (t h : Nat) (p : Price) : Bool := expiredByTime pr t p || expiredByHeight pr h p

theorem endBlock_prices (st : St) (time height : Int) :
    (endBlock st time height).prices =
      (allPrices st).foldl (fun s p => if expired st.params (toU64 time) (toU64 height) p then del p.key s else s)
        st.prices ∧
    (endBlock st time height).feeders = st.feeders ∧ (endBlock st time height).infos = st.infos ∧
    (endBlock st time height).params = st.params ∧ (endBlock st time height).authority = st.authority := by
  unfold endBlock
  generalize allPrices st = L
  generalize hpr : st.params = pr
  suffices h : ∀ acc : St,
      (L.foldl (fun s p =>
        let s1 := if expiredByTime pr (toU64 time) p then removePrice s p.asset p.source p.ts else s
        if expiredByHeight pr (toU64 height) p then removePrice s1 p.asset p.source p.ts else s1) acc).prices =
        L.foldl (fun s p => if expired pr (toU64 time) (toU64 height) p then del p.key s else s) acc.prices ∧
      (L.foldl (fun s p =>
        let s1 := if expiredByTime pr (toU64 time) p then removePrice s p.asset p.source p.ts else s
        if expiredByHeight pr (toU64 height) p then removePrice s1 p.asset p.source p.ts else s1) acc).feeders = acc.feeders ∧
      (L.foldl (fun s p =>
        let s1 := if expiredByTime pr (toU64 time) p then removePrice s p.asset p.source p.ts else s
        if expiredByHeight pr (toU64 height) p then removePrice s1 p.asset p.source p.ts else s1) acc).infos = acc.infos ∧
      (L.foldl (fun s p =>
        let s1 := if expiredByTime pr (toU64 time) p then removePrice s p.asset p.source p.ts else s
        if expiredByHeight pr (toU64 height) p then removePrice s1 p.asset p.source p.ts else s1) acc).params = acc.params ∧
      (L.foldl (fun s p =>
        let s1 := if expiredByTime pr (toU64 time) p then removePrice s p.asset p.source p.ts else s
        if expiredByHeight pr (toU64 height) p then removePrice s1 p.asset p.source p.ts else s1) acc).authority = acc.authority by
    have := h st; rw [hpr] at this; exact this
  induction L with
  | nil => intro acc; simp
  | cons p L ih =>
    intro acc
    simp only [List.foldl_cons]
    obtain ⟨i1, i2, i3, i4, i5⟩ := ih
      (if expiredByHeight pr (toU64 height) p then
        removePrice (if expiredByTime pr (toU64 time) p then removePrice acc p.asset p.source p.ts else acc) p.asset p.source p.ts
       else (if expiredByTime pr (toU64 time) p then removePrice acc p.asset p.source p.ts else acc))
    rw [i1, i2, i3, i4, i5]
    cases h1 : expiredByTime pr (toU64 time) p <;> cases h2 : expiredByHeight pr (toU64 height) p <;>
      simp [expired, h1, h2, removePrice, Price.key, del_del]

theorem mem_endBlock {st : St} (hw : WF st) (time height : Int) (e : Price) :
    e ∈ allPrices (endBlock st time height) ↔
      e ∈ allPrices st ∧ expired st.params (toU64 time) (toU64 height) e = false := by
  obtain ⟨h1, h2, _⟩ := hw
  rw [mem_allPrices, (endBlock_prices st time height).1]
  constructor
  · rintro ⟨kv, hkv, rfl⟩
    obtain ⟨hm, hall⟩ := (mem_foldl_del _ _ _ _ _).mp hkv
    refine ⟨mem_allPrices.mpr ⟨kv, hm, rfl⟩, ?_⟩
    cases hx : expired st.params (toU64 time) (toU64 height) kv.2 with
    | false => rfl
    | true => exact absurd (h2 kv hm) (hall kv.2 (mem_allPrices.mpr ⟨kv, hm, rfl⟩) hx)
  · rintro ⟨he, hx⟩
    obtain ⟨kv, hkv, rfl⟩ := mem_allPrices.mp he
    refine ⟨kv, (mem_foldl_del _ _ _ _ _).mpr ⟨hkv, ?_⟩, rfl⟩
    intro p hp hpx hk
    obtain ⟨kv', hkv', rfl⟩ := mem_allPrices.mp hp
    have : kv = kv' := sorted_unique h1 hkv hkv' (by rw [hk, h2 kv' hkv'])
    subst this; rw [hx] at hpx; cases hpx

theorem wf_endBlock {st : St} (hw : WF st) (time height : Int) : WF (endBlock st time height) := by
  obtain ⟨h1, h2, h3⟩ := hw
  have hp := (endBlock_prices st time height).1
  have hsub : ∀ kv ∈ (endBlock st time height).prices, kv ∈ st.prices := by
    intro kv hkv; rw [hp] at hkv; exact ((mem_foldl_del _ _ _ _ _).mp hkv).1
  refine ⟨?_, fun kv hkv => h2 kv (hsub kv hkv), fun kv hkv => h3 kv (hsub kv hkv)⟩
  rw [hp]
  generalize allPrices st = L
  generalize st.prices = s at h1
  clear hp hsub h2 h3
  induction L generalizing s with
  | nil => exact h1
  | cons p L ih =>
    simp only [List.foldl_cons]
    apply ih
    split
    · exact sorted_del h1
    · exact h1

/-! ### the feeder gate and the messages that do not touch prices -/

theorem wf_of_prices_eq {st st' : St} (h : st'.prices = st.prices) (hw : WF st) : WF st' := by
  unfold WF; rw [h]; exact hw

theorem feederGate_ok {st : St} {signer : Bytes} (h : feederGate st signer = .ok ()) :
    getFeeder st signer = some true := by
  unfold feederGate at h
  split at h
  · cases h
  · cases h
  · assumption

theorem feedPrice_ok {st st' : St} {signer : Bytes} {f : Feed} {t h : Int}
    (hk : feedPrice st signer f t h = .ok st') :
    getFeeder st signer = some true ∧ st' = setPrice st (f.toPrice signer t h) := by
  unfold feedPrice at hk
  cases hg : feederGate st signer with
  | error e => rw [hg] at hk; cases hk
  | ok u =>
    rw [hg] at hk
    simp only [bind, Except.bind] at hk
    cases hk
    exact ⟨feederGate_ok hg, rfl⟩

theorem feedMultiple_ok {st st' : St} {signer : Bytes} {fs : List Feed} {t h : Int}
    (hk : feedMultiple st signer fs t h = .ok st') :
    getFeeder st signer = some true ∧
      st' = fs.foldl (fun s f => setPrice s (f.toPrice signer t h)) st := by
  unfold feedMultiple at hk
  cases hg : feederGate st signer with
  | error e => rw [hg] at hk; cases hk
  | ok u =>
    rw [hg] at hk
    simp only [bind, Except.bind] at hk
    cases hk
    exact ⟨feederGate_ok hg, rfl⟩

theorem foldl_setFeeder_prices (fs : List Bytes) (st : St) :
    (fs.foldl (fun s a => setFeeder s a true) st).prices = st.prices := by
  induction fs generalizing st with
  | nil => rfl
  | cons a fs ih => simp only [List.foldl_cons]; rw [ih]; rfl

theorem foldl_removeFeeder_prices (fs : List Bytes) (st : St) :
    (fs.foldl (fun s a => removeFeeder s a) st).prices = st.prices := by
  induction fs generalizing st with
  | nil => rfl
  | cons a fs ih => simp only [List.foldl_cons]; rw [ih]; rfl

/-- the messages and keeper calls that are not price writes leave the price store alone. -/
theorem admin_prices (st : St) :
    (∀ a act, (commit st (msgSetPriceFeeder st a act)).prices = st.prices) ∧
    (∀ a, (commit st (msgDeletePriceFeeder st a)).prices = st.prices) ∧
    (∀ auth fs, (commit st (msgAddPriceFeeders st auth fs)).prices = st.prices) ∧
    (∀ auth fs, (commit st (msgRemovePriceFeeders st auth fs)).prices = st.prices) := by
  refine ⟨?_, ?_, ?_, ?_⟩
  · intro a act; unfold msgSetPriceFeeder; cases getFeeder st a <;> rfl
  · intro a; unfold msgDeletePriceFeeder; cases getFeeder st a <;> rfl
  · intro auth fs; unfold msgAddPriceFeeders
    by_cases h : st.authority ≠ auth
    · simp [h, commit]
    · simp only [h, if_false, commit]; exact foldl_setFeeder_prices fs st
  · intro auth fs; unfold msgRemovePriceFeeders
    by_cases h : st.authority ≠ auth
    · simp [h, commit]
    · simp only [h, if_false, commit]; exact foldl_removeFeeder_prices fs st

theorem wf_step {st : St} (hw : WF st) (op : Op) : WF (step st op) := by
  cases op with
  | setPrice p => exact wf_setPrice hw _ (Nat.mod_lt _ (by decide))
  | removePrice a s ts => exact wf_removePrice hw a s ts
  | feed signer f t h =>
    show WF (commit st (feedPrice st signer f t h))
    cases hk : feedPrice st signer f t h with
    | error e => exact hw
    | ok st' => show WF st'; rw [(feedPrice_ok hk).2]; exact wf_setPrice hw _ (toU64_lt t)
  | feedMulti signer fs t h =>
    show WF (commit st (feedMultiple st signer fs t h))
    cases hk : feedMultiple st signer fs t h with
    | error e => exact hw
    | ok st' => show WF st'; rw [(feedMultiple_ok hk).2]; exact wf_feedFold hw signer fs t h
  | endBlock t h => exact wf_endBlock hw t h
  | setFeeder a act => exact wf_of_prices_eq ((admin_prices st).1 a act) hw
  | deleteFeeder a => exact wf_of_prices_eq ((admin_prices st).2.1 a) hw
  | addFeeders auth fs => exact wf_of_prices_eq ((admin_prices st).2.2.1 auth fs) hw
  | removeFeeders auth fs => exact wf_of_prices_eq ((admin_prices st).2.2.2 auth fs) hw
  | setInfo d i => exact wf_of_prices_eq rfl hw
  | removeInfo d => exact wf_of_prices_eq rfl hw
  | setParams p => exact wf_of_prices_eq rfl hw

theorem wf_run {st : St} (hw : WF st) (ops : List Op) : WF (run st ops) := by
  induction ops generalizing st with
  | nil => exact hw
  | cons op ops ih => exact ih (wf_step hw op)

end Elys.Oracle
