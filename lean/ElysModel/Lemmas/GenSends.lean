/-
Helper definitions and lemmas for the theorems about the translated revenue collectors (`Gen/Arith/collect*.lean`): traces of
bank transfers [(from, to, amount)].
-/
import ElysModel.Lemmas.GenTie
import ElysModel.Lemmas.AmmRound
namespace Elys.Amm
open Elys

/-- what a trace sends out of one account. -/
def sentFrom (src : String) : List (String × String × Int) → Int
  | [] => 0
  | (s, _, a) :: rest => (if s == src then a else 0) + sentFrom src rest

theorem sentFrom_append (src : String) (xs ys : List (String × String × Int)) :
    sentFrom src (xs ++ ys) = sentFrom src xs + sentFrom src ys := by
  induction xs with
  | nil => simp [sentFrom]
  | cons x xs ih => obtain ⟨s, d, a⟩ := x; simp [sentFrom, ih]; omega

def allNonneg : List (String × String × Int) → Prop
  | [] => True
  | (_, _, a) :: rest => 0 ≤ a ∧ allNonneg rest

theorem allNonneg_append (xs ys : List (String × String × Int)) : allNonneg (xs ++ ys) ↔ allNonneg xs ∧ allNonneg ys := by
  induction xs with
  | nil => simp [allNonneg]
  | cons x xs ih => obtain ⟨s, d, a⟩ := x; simp [allNonneg, ih, and_assoc]

theorem coinsSubC_ok {a b v : Int} (h : coinsSubC a b = .ok v) : v = a - b ∧ 0 ≤ a - b := by
  unfold coinsSubC at h
  split at h
  · cases h
  · cases h; constructor <;> omega

theorem portionC_ok {c p v : Int} (h : portionC c p = .ok v) : 0 ≤ v := by
  unfold portionC at h
  obtain ⟨m, _, h⟩ := bind_ok h
  simp only at h
  split at h
  · cases h
  · cases h; omega

theorem mulTrunc_exact (f p : Int) : Dec.mulTruncate (f * P) p = f * p := by
  unfold Dec.mulTruncate
  have : f * P * p = (f * p) * P := by rw [Int.mul_assoc, Int.mul_comm P p, ← Int.mul_assoc]
  rw [this, Int.mul_tdiv_cancel _ (by decide : P ≠ 0)]


/-- what a trace sends into one account. -/
def sentTo (dst : String) : List (String × String × Int) → Int
  | [] => 0
  | (_, d, a) :: rest => (if d == dst then a else 0) + sentTo dst rest

theorem sentTo_append (dst : String) (xs ys : List (String × String × Int)) :
    sentTo dst (xs ++ ys) = sentTo dst xs + sentTo dst ys := by
  induction xs with
  | nil => simp [sentTo]
  | cons x xs ih => obtain ⟨s, d, a⟩ := x; simp [sentTo, ih]; omega


end Elys.Amm
