/-
Lemmas about the all-asset join and the pro-rata exit of the amm port (pure integer floor/ceil facts).
Core-only.
-/
import ElysModel.Lemmas.AmmBase
namespace Elys.Amm
open Elys

/-! ### per-asset arithmetic -/

/-- what `exitOne` returns: nothing, or the floor `⌊ratio·b/10¹⁸⌋` strictly inside `(0, b)`. -/
theorem exitOne_ok {ratio b o : Int} (h : exitOne ratio b = .ok o) :
    o = 0 ∨ (o = (ratio * b).tdiv P ∧ 0 < o ∧ o < b) := by
  unfold exitOne at h
  split at h
  · exact Or.inl (Except.ok.inj h).symm
  · obtain ⟨m, hm, h⟩ := bind_ok h
    have em := mulIntC_ok hm
    subst em
    simp only at h
    split at h
    · exact Or.inl (Except.ok.inj h).symm
    · split at h
      · cases h
      · have := (Except.ok.inj h).symm
        exact Or.inr ⟨this, by omega, by omega⟩

/-- pro-rata exit, one asset: the payout is at most the exiting shares' claim. -/
theorem exit_arith (b S x o : Int) (hS : 0 < S) (hx : 0 ≤ x) (hb : 0 ≤ b)
    (ho : o = 0 ∨ (o = ((x * P).tdiv S * b).tdiv P ∧ 0 < o ∧ o < b)) : o * S ≤ x * b := by
  rcases ho with h0 | ⟨he, hpos, _⟩
  · subst h0; have := Int.mul_nonneg hx hb; omega
  · have hP := P_pos
    have hr := (tdiv_bounds (x * P) S (Int.mul_nonneg hx (by omega)) hS).1
    have ho' : o * P ≤ (x * P).tdiv S * b := by
      have := truncP_of_pos ((x * P).tdiv S * b) (by rw [← he]; exact hpos)
      rw [← he] at this; exact this
    have e1 : o * P * S ≤ (x * P).tdiv S * b * S := Int.mul_le_mul_of_nonneg_right ho' (by omega)
    have e2 : (x * P).tdiv S * S * b ≤ x * P * b := Int.mul_le_mul_of_nonneg_right hr hb
    have e3 : (o * S) * P ≤ (x * b) * P := by grind
    exact Int.le_of_mul_le_mul_right e3 hP

/-- all-asset join, one asset: with `shares = ⌊minR·S/10¹⁸⌋` and a joined amount `j` covering
`minR·b/10¹⁸`, the minted shares are worth at most what was joined. -/
theorem join_arith (b S minR j : Int) (hb : 0 ≤ b) (hS : 0 ≤ S) (hmin : 0 ≤ minR)
    (hj : minR * b ≤ j * P) : (minR * S).tdiv P * b ≤ j * S := by
  have hP := P_pos
  have hs := (tdiv_bounds (minR * S) P (Int.mul_nonneg hmin hS) hP).1
  have e1 : (minR * S).tdiv P * P * b ≤ minR * S * b := Int.mul_le_mul_of_nonneg_right hs hb
  have e2 : minR * b * S ≤ j * P * S := Int.mul_le_mul_of_nonneg_right hj hS
  have e3 : ((minR * S).tdiv P * b) * P ≤ (j * S) * P := by grind
  exact Int.le_of_mul_le_mul_right e3 hP

/-- join then exit, one asset: exiting the minted shares `s` from the enlarged pool returns at most `j`. -/
theorem round_trip_arith (b S s j o : Int) (hS : 0 < S + s) (hfair : s * b ≤ j * S)
    (hexit : o * (S + s) ≤ s * (b + j)) : o ≤ j := by
  have e : o * (S + s) ≤ j * (S + s) := by grind
  exact Int.le_of_mul_le_mul_right e hS

/-! ### exit -/

theorem calcExit_ok {bals outs : List Int} {S x : Int} (h : calcExit bals S x = .ok outs) :
    x < S ∧ S ≠ 0 ∧ outs.length = bals.length ∧
    ∀ i (h1 : i < bals.length) (h2 : i < outs.length), exitOne ((x * P).tdiv S) bals[i] = .ok outs[i] := by
  unfold calcExit at h
  split at h
  · cases h
  · obtain ⟨ratio, hr, h⟩ := bind_ok h
    obtain ⟨er, hS⟩ := quoIntC_ok hr
    obtain ⟨hl, hg⟩ := mapM1_ok h
    rw [er] at hg
    exact ⟨by omega, hS, hl, hg⟩

/-! ### join -/

/-- what one deposit contributes in `CalcJoinPoolNoSwapShares`, given the minimal share ratio. -/
theorem remOne_ok {minR b dep ratio rem : Int} (h : remOne minR b dep ratio = .ok rem) :
    (ratio = minR ∧ rem = 0) ∨ (rem = dep - Dec.ceilInt (minR * b)) := by
  unfold remOne at h
  split at h
  · rename_i he; exact Or.inl ⟨he, (Except.ok.inj h).symm⟩
  · obtain ⟨m, hm, h⟩ := bind_ok h
    obtain ⟨u, hu, h⟩ := bind_ok h
    have := (Except.ok.inj h).symm
    rw [ceilC_ok hu, mulIntC_ok hm] at this
    exact Or.inr this

theorem minList_ge (c : Int) : ∀ (l : List Int) (init : Int), c ≤ init → (∀ r ∈ l, c ≤ r) → c ≤ minList init l
  | [], _, hi, _ => hi
  | a :: l, init, hi, hl => by
    unfold minList; simp only [List.foldl_cons]
    have ha := hl a (List.mem_cons_self ..)
    have := minList_ge c l (if a < init then a else init) (by split <;> omega)
      (fun r hr => hl r (List.mem_cons_of_mem _ hr))
    unfold minList at this
    exact this

theorem any_false_get {l : List Bool} (h : l.any id = false) (i : Nat) (hi : i < l.length) : l[i] = false := by
  have := List.any_eq_false.mp h l[i] (List.getElem_mem hi)
  simpa using this

/-- structure of a successful `CalcJoinPoolNoSwapShares`: the shares are `⌊minR·S/10¹⁸⌋` for the minimal
share ratio `minR ≥ 0`, every joined amount covers `minR·bᵢ/10¹⁸`, lies in `[0, depositᵢ]`. -/
theorem calcJoin_ok {bals deps joined : List Int} {S shares : Int}
    (hb : ∀ b ∈ bals, 0 < b)
    (h : calcJoinNoSwap bals S deps = .ok (shares, joined)) :
    deps.length = bals.length ∧ joined.length = bals.length ∧
    ∃ minR, 0 ≤ minR ∧ shares = (minR * S).tdiv P ∧
      ∀ i (h1 : i < bals.length) (h2 : i < joined.length) (h3 : i < deps.length),
        minR * bals[i] ≤ joined[i] * P ∧ 0 ≤ joined[i] ∧ joined[i] ≤ deps[i] := by
  unfold calcJoinNoSwap at h
  split at h
  · cases h
  · rename_i hargs
    have hlen : deps.length = bals.length := by
      apply Classical.byContradiction; intro hc; exact hargs (Or.inl hc)
    have hdeps : deps.any (· ≤ 0) = false := by
      cases hd : deps.any (· ≤ 0)
      · rfl
      · exact absurd (Or.inr hd) hargs
    obtain ⟨⟨sh, rems⟩, hm, h⟩ := bind_ok h
    simp only at h
    split at h
    · cases h
    · rename_i hneg
      split at h
      · cases h
      · rename_i hgt
        have hres := Except.ok.inj h
        have esh : shares = sh := (congrArg Prod.fst hres).symm
        have ej : joined = List.zipWith (· - ·) deps rems := (congrArg Prod.snd hres).symm
        rw [← ej] at hneg hgt
        -- unfold MaximalExactRatioJoin
        unfold maximalExactRatioJoin at hm
        obtain ⟨ratios, hrat, hm⟩ := bind_ok hm
        obtain ⟨hrl, hrg⟩ := mapM2_ok hrat hlen
        simp only at hm
        split at hm
        · cases hm
        · obtain ⟨m, hmul, hm⟩ := bind_ok hm
          have em := mulIntC_ok hmul
          obtain ⟨rems', hrems, hm⟩ := bind_ok hm
          unfold remsOf at hrems
          have hres2 := Except.ok.inj hm
          have esh2 : sh = m.tdiv P := (congrArg Prod.fst hres2).symm
          have erems : rems = rems' := (congrArg Prod.snd hres2).symm
          subst erems
          -- every ratio is a floor of dep·P/b, hence ≥ 0
          have hratio : ∀ i (h1 : i < deps.length) (h2 : i < bals.length) (h3 : i < ratios.length),
              ratios[i] = (deps[i] * P).tdiv bals[i] ∧ 0 ≤ ratios[i] ∧ ratios[i] * bals[i] ≤ deps[i] * P ∧ 0 < deps[i] := by
            intro i h1 h2 h3
            have e := (quoIntC_ok (hrg i h1 h2 h3)).1
            have hbi := hb bals[i] (List.getElem_mem h2)
            have hdi : 0 < deps[i] := by
              have := List.any_eq_false.mp hdeps deps[i] (List.getElem_mem h1)
              simpa using this
            have hnn : 0 ≤ deps[i] * P := Int.mul_nonneg (by omega) (Int.le_of_lt P_pos)
            have tb := tdiv_bounds (deps[i] * P) bals[i] hnn hbi
            have := Int.tdiv_nonneg hnn (Int.le_of_lt hbi)
            rw [← e] at tb this
            exact ⟨e, this, tb.1, hdi⟩
          have hminle : ∀ i (h3 : i < ratios.length), minList maxSortableDec ratios ≤ ratios[i] :=
            fun i h3 => minList_le_mem _ _ _ (List.getElem_mem h3)
          have hmin0 : 0 ≤ minList maxSortableDec ratios := by
            apply minList_ge 0 _ _ (by decide)
            intro r hr
            obtain ⟨i, hi, e⟩ := List.getElem_of_mem hr
            have := (hratio i (by omega) (by omega) hi).2.1
            omega
          refine ⟨hlen, ?_, minList maxSortableDec ratios, hmin0, by rw [esh, esh2, em], ?_⟩
          · -- length of joined
            rw [ej]
            split at hrems
            · have := (Except.ok.inj hrems).symm; subst this; simp [hlen]
            · have := (mapM3_ok hrems (by omega) (by omega)).1
              simp [this, hlen]
          · intro i h1 h2 h3
            have hr3 : i < ratios.length := by omega
            obtain ⟨_, _, hfl, hdi⟩ := hratio i h3 h1 hr3
            have hj : joined[i] = deps[i] - rems[i]'(by rw [ej] at h2; simp at h2; omega) := by
              simp [ej]
            have hnn : 0 ≤ joined[i] := by
              have hl : i < (joined.map (fun x => decide (x < 0))).length := by simpa using h2
              cases hh : joined.any (· < 0)
              · have := List.any_eq_false.mp hh joined[i] (List.getElem_mem h2)
                simpa using this
              · exact absurd hh hneg
            have hle : joined[i] ≤ deps[i] := by
              have hl : i < (List.zipWith (fun j d => decide (j > d)) joined deps).length := by simp; omega
              cases hh : (List.zipWith (fun j d => decide (j > d)) joined deps).any id
              · have := any_false_get hh i hl
                simp at this; exact this
              · exact absurd hh hgt
            refine ⟨?_, hnn, hle⟩
            split at hrems
            · -- all ratios equal: nothing remains
              rename_i heq
              have := (Except.ok.inj hrems).symm; subst this
              have hz : joined[i] = deps[i] := by rw [hj]; simp
              have h1' := hminle i hr3
              have h2' := maxList_ge_mem ratios 0 _ (List.getElem_mem hr3)
              have : ratios[i] = minList maxSortableDec ratios := by omega
              rw [hz, ← this]; exact hfl
            · have hg := (mapM3_ok hrems (by omega) (by omega)).2 i h1 h3 hr3 (by rw [ej] at h2; simp at h2; omega)
              rcases remOne_ok hg with ⟨he, hz⟩ | hu
              · have hz' : joined[i] = deps[i] := by rw [hj, hz]; omega
                rw [hz', ← he]; exact hfl
              · have : joined[i] = Dec.ceilInt (minList maxSortableDec ratios * bals[i]) := by rw [hj, hu]; omega
                rw [this]; exact ceilInt_ge _

end Elys.Amm
