/-
Rounding lemmas for the 18-digit `LegacyDec` arithmetic (core-only: `omega` with the literal 10^18).
-/
import ElysModel.Num.Dec
namespace Elys

theorem roundNonneg_bounds (x : Int) (hx : 0 ≤ x) :
    2 * x - P ≤ 2 * (roundNonneg x * P) ∧ 2 * (roundNonneg x * P) ≤ 2 * x + P := by
  unfold roundNonneg
  simp only [Int.tdiv_eq_ediv_of_nonneg hx, Int.tmod_eq_emod_of_nonneg hx, P]
  split
  · omega
  · split
    · omega
    · split
      · omega
      · split <;> omega

/-- banker's rounding is within half a unit: |round2(x)·P − x| ≤ P/2. -/
theorem round2_bounds (x : Int) :
    2 * x - P ≤ 2 * (round2 x * P) ∧ 2 * (round2 x * P) ≤ 2 * x + P := by
  unfold round2
  split
  · have h := roundNonneg_bounds (-x) (by omega)
    rw [Int.neg_mul]
    omega
  · exact roundNonneg_bounds x (by omega)

theorem roundNonneg_mul_P (k : Int) (_hk : 0 ≤ k) : roundNonneg (k * P) = k := by
  unfold roundNonneg
  have hP : P ≠ 0 := by decide
  simp [Int.mul_tdiv_cancel _ hP, Int.mul_tmod_left]

/-- rounding an exact multiple of 10^18 is exact. -/
theorem round2_mul_P (k : Int) : round2 (k * P) = k := by
  unfold round2
  have hP : 0 < P := P_pos
  split
  · rename_i h
    have hk : k < 0 := by
      by_cases h' : k < 0
      · exact h'
      · have := Int.mul_nonneg (show 0 ≤ k by omega) (Int.le_of_lt hP); omega
    rw [← Int.neg_mul, roundNonneg_mul_P _ (by omega)]; omega
  · rename_i h
    have hk : 0 ≤ k := by
      by_cases h' : k < 0
      · have := Int.mul_neg_of_neg_of_pos h' hP; omega
      · omega
    exact roundNonneg_mul_P _ hk

/-- truncated division of a non-negative number by a positive one is the floor. -/
theorem tdiv_bounds (a b : Int) (ha : 0 ≤ a) (hb : 0 < b) :
    a.tdiv b * b ≤ a ∧ a < (a.tdiv b + 1) * b := by
  rw [Int.tdiv_eq_ediv_of_nonneg ha]
  exact ⟨Int.ediv_mul_le a (by omega), Int.lt_ediv_add_one_mul_self a hb⟩

/-- `TruncateInt` of anything: a positive result is a floor. -/
theorem truncP_of_pos (a : Int) (h : 0 < a.tdiv P) : a.tdiv P * P ≤ a := by
  have : 0 ≤ a := by
    by_cases h' : a < 0
    · have h1 := Int.neg_tdiv a P
      have h2 := Int.tdiv_nonneg (show 0 ≤ -a by omega) (Int.le_of_lt P_pos)
      omega
    · omega
  exact (tdiv_bounds a P this P_pos).1

theorem monotone_round2_le (x : Int) (hx : 0 ≤ x) : 0 ≤ round2 x := by
  have := (round2_bounds x).1
  have hP := P_eq
  by_cases h : round2 x < 0
  · have : round2 x * P ≤ -P := by
      have := Int.mul_le_mul_of_nonneg_right (show round2 x ≤ -1 by omega) (Int.le_of_lt P_pos)
      omega
    omega
  · omega

end Elys
