import ElysModel.Vesting.Model
namespace Elys.Vesting

/-- Σ (total − claimed): what is still inside the vesting entries. -/
def remaining : List Entry → Int
  | [] => 0
  | e :: es => (e.total - e.claimed) + remaining es

/-- entry well-formedness: 0 ≤ claimed ≤ total, positive schedule length. -/
def EntryOk (e : Entry) : Prop := 0 ≤ e.claimed ∧ e.claimed ≤ e.total ∧ 0 < e.num

def AllOk (es : List Entry) : Prop := ∀ e ∈ es, EntryOk e

theorem remaining_append (a b : List Entry) : remaining (a ++ b) = remaining a + remaining b := by
  induction a with
  | nil => simp [remaining]
  | cons e es ih => simp [remaining, ih]; omega

theorem remaining_reverse (a : List Entry) : remaining a.reverse = remaining a := by
  induction a with
  | nil => rfl
  | cons e es ih => simp [List.reverse_cons, remaining_append, remaining, ih]; omega

theorem AllOk_reverse {a : List Entry} (h : AllOk a) : AllOk a.reverse := by
  intro e he; exact h e (List.mem_reverse.mp he)

theorem remaining_nonneg {es : List Entry} (h : AllOk es) : 0 ≤ remaining es := by
  induction es with
  | nil => simp [remaining]
  | cons e es ih =>
    have he := h e (List.mem_cons_self ..)
    have := ih (fun x hx => h x (List.mem_cons_of_mem _ hx))
    unfold remaining; unfold EntryOk at he; omega

theorem tdiv_nonpos_of_nonpos {a b : Int} (ha : a ≤ 0) (hb : 0 < b) : a.tdiv b ≤ 0 := by
  have h1 : a = -(-a) := by omega
  rw [h1, Int.neg_tdiv]
  have h2 := Int.tdiv_nonneg (a := -a) (b := b) (by omega) (by omega)
  omega

/-- the schedule value is between 0 and total for an in-range elapsed count. -/
theorem vsf_bounds {total tb num : Int} (ht : 0 ≤ total) (hn : 0 < num) (h0 : 0 ≤ tb) (h1 : tb ≤ num) :
    0 ≤ (total * tb).tdiv num ∧ (total * tb).tdiv num ≤ total := by
  have hnn : 0 ≤ total * tb := Int.mul_nonneg ht h0
  rw [Int.tdiv_eq_ediv_of_nonneg hnn]
  refine ⟨Int.ediv_nonneg hnn (Int.le_of_lt hn), ?_⟩
  apply Int.ediv_le_of_le_mul hn
  exact Int.mul_le_mul_of_nonneg_left h1 ht

/-- `vestedSoFar` never errors on a well-formed entry and never exceeds the total. -/
theorem vestedSoFar_ok {e : Entry} (he : EntryOk e) (h : Int) :
    ∃ v, vestedSoFar e h = .ok v ∧ v ≤ e.total := by
  obtain ⟨hc0, hct, hn⟩ := he
  have ht : 0 ≤ e.total := by omega
  unfold vestedSoFar
  have hne : e.num ≠ 0 := by omega
  simp only [hne, if_false]
  refine ⟨_, rfl, ?_⟩
  by_cases h1 : h - e.start > e.num
  · simp only [h1, if_true]
    rw [Int.mul_tdiv_cancel _ hne]; exact Int.le_refl _
  · simp only [h1, if_false]
    by_cases h0 : 0 ≤ h - e.start
    · exact (vsf_bounds ht hn h0 (by omega)).2
    · -- negative elapsed count: the truncated quotient is ≤ 0 ≤ total
      have hneg : h - e.start < 0 := by omega
      have : e.total * (h - e.start) ≤ 0 := Int.mul_nonpos_of_nonneg_of_nonpos ht (by omega)
      have h2 : (e.total * (h - e.start)).tdiv e.num ≤ 0 := tdiv_nonpos_of_nonpos this hn
      omega

end Elys.Vesting

namespace Elys.Vesting

theorem AllOk_cons {e : Entry} {es : List Entry} : AllOk (e :: es) ↔ EntryOk e ∧ AllOk es := by
  unfold AllOk; simp

/-- the repaired claim loop: total, pays a non-negative sum, conserves `sum + remaining`. -/
theorem claimLoop_fixed (h : Int) (es : List Entry) (hok : AllOk es) :
    ∃ sum es', claimLoop true h es = .ok (sum, es') ∧ 0 ≤ sum ∧
      sum + remaining es' = remaining es ∧ AllOk es' := by
  induction es with
  | nil => exact ⟨0, [], rfl, Int.le_refl _, rfl, fun _ h => nomatch h⟩
  | cons e es ih =>
    obtain ⟨he, hes⟩ := AllOk_cons.mp hok
    obtain ⟨sum, es', hl, hs, hrem, hok'⟩ := ih hes
    obtain ⟨v, hv, hvt⟩ := vestedSoFar_ok he h
    obtain ⟨hc0, hct, hn⟩ := he
    unfold claimLoop
    simp only [hv, hl, bind, Except.bind]
    by_cases hneg : v - e.claimed < 0
    · simp only [hneg, if_true]
      by_cases hk : e.claimed ≠ e.total
      · refine ⟨0 + sum, { e with claimed := e.claimed } :: es', ?_, by omega, ?_, ?_⟩
        · simp [hk]
        · simp [remaining]; omega
        · exact AllOk_cons.mpr ⟨⟨hc0, hct, hn⟩, hok'⟩
      · refine ⟨0 + sum, es', ?_, by omega, ?_, hok'⟩
        · simp [hk]
        · have : e.claimed = e.total := by omega
          simp [remaining]; omega
    · simp only [hneg, if_false]
      by_cases hk : v ≠ e.total
      · refine ⟨(v - e.claimed) + sum, { e with claimed := v } :: es', ?_, by omega, ?_, ?_⟩
        · simp [hk]
        · simp [remaining]; omega
        · exact AllOk_cons.mpr ⟨⟨by show 0 ≤ v; omega, hvt, hn⟩, hok'⟩
      · refine ⟨(v - e.claimed) + sum, es', ?_, by omega, ?_, hok'⟩
        · simp [hk]
        · have : v = e.total := by omega
          simp [remaining]; omega

/-- the cancel loop takes exactly `rem − rem'` out of the entries and keeps them well-formed. -/
theorem cancelLoop_spec (es : List Entry) (rem : Int) (hok : AllOk es) (hr : 0 ≤ rem) :
    0 ≤ (cancelLoop es rem).2 ∧ (cancelLoop es rem).2 ≤ rem ∧
    remaining (cancelLoop es rem).1 = remaining es - (rem - (cancelLoop es rem).2) ∧
    AllOk (cancelLoop es rem).1 := by
  induction es generalizing rem with
  | nil => simp [cancelLoop, remaining, hr]; exact fun _ h => nomatch h
  | cons e es ih =>
    obtain ⟨he, hes⟩ := AllOk_cons.mp hok
    obtain ⟨hc0, hct, hn⟩ := he
    unfold cancelLoop
    by_cases hskip : e.num = 0 ∨ e.total = 0
    · simp only [hskip, if_true]
      obtain ⟨h1, h2, h3, h4⟩ := ih rem hes hr
      refine ⟨h1, h2, ?_, AllOk_cons.mpr ⟨⟨hc0, hct, hn⟩, h4⟩⟩
      simp only [remaining, h3]; omega
    · simp only [hskip, if_false]
      have hc : 0 ≤ min rem (e.total - e.claimed) := by omega
      have hc2 : min rem (e.total - e.claimed) ≤ rem := by omega
      have hc3 : min rem (e.total - e.claimed) ≤ e.total - e.claimed := by omega
      obtain ⟨h1, h2, h3, h4⟩ := ih (rem - min rem (e.total - e.claimed)) hes (by omega)
      refine ⟨h1, by omega, ?_, AllOk_cons.mpr ⟨⟨hc0, by show e.claimed ≤ e.total - _; omega, hn⟩, h4⟩⟩
      simp only [remaining, h3]; omega

theorem filter_done_spec (es : List Entry) (hok : AllOk es) :
    remaining (es.filter (fun e => ¬ (e.claimed ≥ e.total))) = remaining es ∧
    AllOk (es.filter (fun e => ¬ (e.claimed ≥ e.total))) := by
  induction es with
  | nil => exact ⟨rfl, fun _ h => nomatch h⟩
  | cons e es ih =>
    obtain ⟨he, hes⟩ := AllOk_cons.mp hok
    obtain ⟨h1, h2⟩ := ih hes
    obtain ⟨hc0, hct, hn⟩ := he
    by_cases hd : e.claimed ≥ e.total
    · have : (e :: es).filter (fun e => ¬ (e.claimed ≥ e.total)) = es.filter (fun e => ¬ (e.claimed ≥ e.total)) := by
        simp [List.filter_cons, hd]
      rw [this]; refine ⟨?_, h2⟩
      simp only [remaining, h1]; omega
    · have : (e :: es).filter (fun e => ¬ (e.claimed ≥ e.total)) = e :: es.filter (fun e => ¬ (e.claimed ≥ e.total)) := by
        simp [List.filter_cons, hd]
      rw [this]; refine ⟨?_, AllOk_cons.mpr ⟨⟨hc0, hct, hn⟩, h2⟩⟩
      simp only [remaining, h1]

end Elys.Vesting
