/-
Model of masterchef reward accounting (C13).
L1: `UpdateAccPerShare`, `UpdateUserRewardPending`, `UpdateUserRewardDebt`, claim truncation, on raw Dec integers
(x/masterchef/keeper/hooks_masterchef.go, msg_server.go).
L2: the solvency ledger per bank-backed reward denom: module balance vs the sum of everything credited and not yet claimed.
Core-only.
-/
import ElysModel.Num.Dec
namespace Elys.Rewards

/-- increment of `PoolAccRewardPerShare` (raw Dec): `NewDecFromInt(amount · OneShare).QuoInt(totalCommit)` -/
def accDelta (amount totalCommit : Int) : Int := (amount * P * P).tdiv totalCommit

/-- `poolAcc.MulInt(balance).Sub(debt).QuoInt(OneShare)` (raw Dec of reward tokens) -/
def pendingDelta (acc bal debt : Int) : Int := (acc * bal - debt).tdiv P

/-- `poolAcc.Mul(NewDecFromInt(balance))`: the rounding `Mul` is exact here because the second factor is a whole number -/
def debtOf (acc bal : Int) : Int := acc * bal

/-- what a user can claim (raw Dec): settled pending + unsettled accrual -/
def claimable (pending acc bal debt : Int) : Int := pending + pendingDelta acc bal debt

/-- what a claim pays (tokens): `RewardPending.TruncateInt()` -/
def claimPaid (pending : Int) : Int := pending.tdiv P

/-- Σ over users of the credit one increment gives them -/
def totalCredit (dacc : Int) : List Int → Int
  | [] => 0
  | b :: bs => (dacc * b).tdiv P + totalCredit dacc bs

def sumBals : List Int → Int
  | [] => 0
  | b :: bs => b + sumBals bs


/-! ### L1b: which reward denoms a pool's hooks process, and what one pass of a hook does
(x/masterchef/keeper/hooks_user_actions.go `GetRewardDenoms`, `AfterDepositPerReward` / `AfterWithdrawPerReward`) -/

/-- the loop over `poolInfo.ExternalRewardDenoms`: a denom already in `seen` is skipped, a new one is listed and marked -/
def extLoop : List String → List String → List String
  | _, [] => []
  | seen, d :: ds => if seen.contains d then extLoop seen ds else d :: extLoop (d :: seen) ds

/-- `GetRewardDenoms` with the "already listed" set seeded by `seed`: the code seeds it with Eden and the chain's USDC denom
(`GetBaseCurrencyDenom`, the asset-profile entry's `Denom`); the list starts with the base currency, then Eden if enabled -/
def rewardDenomsSeeded (seed : List String) (base : String) (edenOn : Bool) (ext : List String) : List String :=
  [base] ++ (if edenOn then ["ueden"] else []) ++ extLoop seed ext

def rewardDenoms (base : String) (edenOn : Bool) (ext : List String) : List String :=
  rewardDenomsSeeded ["ueden", base] base edenOn ext

/-- a user's record for one (pool, reward denom) -/
structure UR where
  pending : Int
  debt : Int
deriving Repr, DecidableEq, Inhabited

/-- one pass of `After{Deposit,Withdraw}PerReward`: the commitment ledger already shows `balAfter`; the balance the accrual is
settled on is the one before the change (`balAfter + x`: `x > 0` shares withdrawn, `x < 0` deposited); the debt is re-based
on the balance now -/
def hookPass (acc balAfter x : Int) (u : UR) : UR :=
  { pending := u.pending + pendingDelta acc (balAfter + x) u.debt, debt := debtOf acc balAfter }

def hookPasses (acc balAfter x : Int) : Nat → UR → UR
  | 0, u => u
  | n + 1, u => hookPasses acc balAfter x n (hookPass acc balAfter x u)

/-- `AfterWithdraw` / `AfterDeposit` over the pool's denom list: reward denom `d` gets one pass per occurrence in the list -/
def hookOver (ds : List String) (d : String) (acc balAfter x : Int) (u : UR) : UR :=
  hookPasses acc balAfter x (ds.count d) u

/-! ### L2 solvency ledger (one reward denom) -/

structure St where
  bal      : Int := 0     -- bank balance of the masterchef module (tokens)
  owed     : Int := 0     -- Σ claimable over all pools and users (raw Dec)
  reserved : Int := 0     -- ghost: external incentives funded and not yet credited (raw Dec)
deriving Repr, DecidableEq, Inhabited

inductive Err | negative | overCredit | overOut | claimTooMuch | noReserve
deriving Repr, DecidableEq, Inhabited

inductive Op
  /-- AddExternalIncentive: `amountPerBlock · (to − from)` arrives up front -/
  | fundIncentive (a : Int)
  /-- per-block crediting of an external incentive out of what was funded -/
  | creditIncentive (c : Int)
  /-- one block's revenue collection: `rev` arrives in the module, `out` leaves it for stakers / protocol / provider,
  `credit` (raw) is added to the LPs' accumulators -/
  | collect (rev out credit : Int)
  /-- a claim pays `paid` tokens and removes `dec` (raw) from what is owed; truncation: paid·P ≤ dec -/
  | claim (paid dec : Int)
deriving Repr, Inhabited

def step (s : St) : Op → Except Err St
  | .fundIncentive a => if a < 0 then .error .negative else .ok { s with bal := s.bal + a, reserved := s.reserved + a * P }
  | .creditIncentive c => if c < 0 then .error .negative else if c > s.reserved then .error .noReserve
                          else .ok { s with owed := s.owed + c, reserved := s.reserved - c }
  | .collect rev out credit =>
    if rev < 0 ∨ out < 0 ∨ credit < 0 then .error .negative else
    if credit > (rev - out) * P then .error .overCredit else     -- `split_ok`: what is credited is covered by what stays
    .ok { s with bal := s.bal + rev - out, owed := s.owed + credit }
  | .claim paid dec => if paid < 0 then .error .negative else if paid * P > dec ∨ dec > s.owed then .error .claimTooMuch
                       else .ok { s with bal := s.bal - paid, owed := s.owed - dec }

def stepTx (s : St) (op : Op) : St := match step s op with | .ok s' => s' | .error _ => s
def run (s : St) (ops : List Op) : St := ops.foldl stepTx s

def solventB (s : St) : Bool := s.owed ≤ s.bal * P

end Elys.Rewards
