/-
Support for the regenerated definitions of `Gen/Arith.lean`: the few checked steps the hand-written amm
model (`Amm/Base.lean`) does not already have.  Core-only.
-/
import ElysModel.Amm.Base
namespace Elys.Amm
open Elys

/-- `math.Int.Quo` and Go's integer `/`: `big.Int.Quo` (and the machine division) panic on a zero divisor;
truncation toward zero otherwise. -/
def iquoC (a b : Int) : Except Err Int :=
  if b = 0 then .error .panicDivZero else .ok (a.tdiv b)

/-- `a.QuoTruncate(b)`. -/
def quoTruncC (a b : Int) : Except Err Int :=
  if b = 0 then .error .panicDivZero else chk (Dec.quoTruncate a b)

end Elys.Amm
