/-
Support for the regenerated definitions of `Gen/Arith.lean`: the few checked steps the hand-written amm
model (`Amm/Base.lean`) does not already have.  Core-only.
-/
import ElysModel.Amm.Base
namespace Elys.Amm
open Elys

/-- `math.Int.Quo` and Go's integer `/`: `big.Int.Quo` (and the machine division) panic on a zero divisor;
truncation toward zero otherwise. -/
def iquoC (a b : Int) : Except Err Int :=
  if b = 0 then .error .panicDivZero else .ok (a.tdiv b)

/-- `a.QuoTruncate(b)`. -/
def quoTruncC (a b : Int) : Except Err Int :=
  if b = 0 then .error .panicDivZero else chk (Dec.quoTruncate a b)

/-- `sdk.Coins.Sub` / `sdk.DecCoins.Sub` on one denom: a negative result panics. -/
def coinsSubC (a b : Int) : Except Err Int :=
  if a - b < 0 then .error .panicNegCoin else .ok (a - b)

/-- `ammkeeper.PortionCoins(coins, portion)` on one denom: `amount.ToLegacyDec().Mul(portion).RoundInt()`; `sdk.NewCoin` panics on a
negative amount. -/
def portionC (c p : Int) : Except Err Int := do
  let m ← mulC (c * P) p
  let r := Dec.roundInt m
  if r < 0 then .error .panicNegCoin else pure r

end Elys.Amm
