/-
L0 arithmetic: cosmossdk.io/math v1.4.0 `LegacyDec` on its raw integer (value × 10^18).
A `Dec` here is the raw `Int`; Go's `big.Int.Quo/QuoRem` truncate toward zero, so every
division is `Int.tdiv` / `Int.tmod`, never Lean's Euclidean `/`.
Core-only (no Mathlib): this file is linked into the line-protocol driver.
-/
namespace Elys

/-- 10^18, the `LegacyDec` precision. -/
def P : Int := 1000000000000000000

theorem P_pos : 0 < P := by decide
theorem P_eq : P = 1000000000000000000 := rfl

/-- `chopPrecisionAndRound` on a non-negative argument: banker's rounding of `x / P`. -/
def roundNonneg (x : Int) : Int :=
  let q := x.tdiv P
  let m := x.tmod P
  if m = 0 then q
  else if 2 * m < P then q
  else if 2 * m > P then q + 1
  else if q % 2 = 0 then q else q + 1

/-- `chopPrecisionAndRound`: banker's rounding of `x / 10^18`, sign-symmetric. -/
def round2 (x : Int) : Int :=
  if x < 0 then - roundNonneg (-x) else roundNonneg x

/-- `chopPrecisionAndTruncate`. -/
def trunc (x : Int) : Int := x.tdiv P

namespace Dec

/-- `LegacyNewDec(i)` / `LegacyNewDecFromInt(i)`. -/
def ofInt (i : Int) : Int := i * P
/-- `a.Mul(b)`. -/
def mul (a b : Int) : Int := round2 (a * b)
/-- `a.MulTruncate(b)`. -/
def mulTruncate (a b : Int) : Int := (a * b).tdiv P
/-- `a.MulInt(i)`. -/
def mulInt (a i : Int) : Int := a * i
/-- `a.Quo(b)` — truncation at 36 digits, then banker's rounding at 18. `b = 0` panics in Go;
callers guard, the model returns 0 (Int.tdiv _ 0 = 0) and every use site checks `b ≠ 0` first. -/
def quo (a b : Int) : Int := round2 ((a * P * P).tdiv b)
/-- `a.QuoTruncate(b)`. -/
def quoTruncate (a b : Int) : Int := (a * P).tdiv b
/-- `a.QuoRoundUp(b)`. -/
def quoRoundUp (a b : Int) : Int :=
  let n := a * P
  let q := n.tdiv b
  let r := n.tmod b
  -- Go tests the sign of the (already replaced) quotient `d` against `d2`
  if (r > 0 ∧ (decide (q < 0) = decide (b < 0))) ∨ (r < 0 ∧ (decide (q < 0) ≠ decide (b < 0))) then q + 1 else q
/-- `a.QuoInt(i)`, `a.QuoInt64(i)`. -/
def quoInt (a i : Int) : Int := a.tdiv i
/-- `a.RoundInt()`. -/
def roundInt (a : Int) : Int := round2 a
/-- `a.TruncateInt()`. -/
def truncateInt (a : Int) : Int := a.tdiv P
/-- `a.Ceil()` as an integer (the Go value is this × P). -/
def ceilInt (a : Int) : Int :=
  let q := a.tdiv P
  let m := a.tmod P
  if m > 0 then q + 1 else q
def ceil (a : Int) : Int := ceilInt a * P

/-- `assertInValidRange` (`IsInValidRange`): |raw| ≤ 2^256 · 10^18 − 1. -/
def inRange (a : Int) : Bool := a.natAbs < 2 ^ 256 * 1000000000000000000

/-- `a.Power(n)` (`PowerMut`): square-and-multiply with a rounding `Mul` at each step. -/
def powerAux : Nat → Int → Int → Nat → Int
  | 0, _, tmp, _ => tmp
  | fuel + 1, d, tmp, i =>
    if i ≤ 1 then mul d tmp
    else
      let tmp' := if i % 2 ≠ 0 then mul tmp d else tmp
      powerAux fuel (mul d d) tmp' (i / 2)

def power (d : Int) (n : Nat) : Int :=
  if n = 0 then P else powerAux 64 d P n

end Dec

/-- `math.Int.Quo`. -/
def intQuo (a b : Int) : Int := a.tdiv b

end Elys
