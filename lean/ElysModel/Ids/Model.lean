/-
Id allocation of stored objects whose store key AND own account are derived from the id alone: perpetual MTPs and leveragelp
positions ("last id handed out": x/perpetual/keeper/mtp.go SetMTP, x/leveragelp/keeper/position.go SetPosition), tradeshield
pending orders ("next id": x/tradeshield/keeper/pending_spot_order.go AppendPendingSpotOrder), and what an export / import of
the module's genesis does to the counter (x/*/genesis.go InitGenesis).
Core-only.
-/
namespace Elys.Ids

structure St where
  ctr  : Nat := 0          -- the stored counter
  live : List Nat := []    -- ids of the stored objects
deriving Repr, DecidableEq, Inhabited

/-- how `InitGenesis` sets the counter from the imported list -/
inductive Import
  | byLength      -- the number of imported objects (perpetual, leveragelp before 41f14ef; seeded change C20-3)
  | byMax         -- max (number of imported objects) (highest imported id)   (perpetual, leveragelp since 41f14ef)
  | kept          -- the exported counter itself (tradeshield)
deriving Repr, DecidableEq, Inhabited

def maxId : List Nat → Nat
  | [] => 0
  | x :: xs => max x (maxId xs)

def importCtr (m : Import) (s : St) : Nat :=
  match m with
  | .byLength => s.live.length
  | .byMax => max s.live.length (maxId s.live)
  | .kept => s.ctr

inductive Op
  | create               -- a new object is stored under a fresh id
  | remove (id : Nat)    -- close / cancel / execute: the object is deleted
  | reimport (m : Import)
deriving Repr, DecidableEq, Inhabited

/-- "last id handed out" discipline: a new object gets `ctr + 1` -/
def stepLast (s : St) : Op → St
  | .create => { ctr := s.ctr + 1, live := (s.ctr + 1) :: s.live }
  | .remove id => { s with live := s.live.filter (· != id) }
  | .reimport m => { s with ctr := importCtr m s }

/-- "next id" discipline: the first order gets id 1, a new object gets `ctr`, then `ctr + 1` is stored -/
def stepNext (s : St) : Op → St
  | .create => let c := if s.ctr = 0 then 1 else s.ctr; { ctr := c + 1, live := c :: s.live }
  | .remove id => { s with live := s.live.filter (· != id) }
  | .reimport m => { s with ctr := importCtr m s }

def runLast (s : St) (ops : List Op) : St := ops.foldl stepLast s
def runNext (s : St) (ops : List Op) : St := ops.foldl stepNext s

/-- decidable forms evaluated on observed states by the drivers -/
def boundedLastB (ctr : Nat) (live : List Nat) : Bool := live.all (· ≤ ctr)
def boundedNextB (ctr : Nat) (live : List Nat) : Bool := live.all (· < ctr)

end Elys.Ids
