/-
C18 (partial model): the error/panic SKELETON of block processing.
Per module in app order: does the blocker's error reach ABCI? Only masterchef's EndBlock returns its keeper's error
(x/masterchef/module.go); estaking, epochs, tier, leveragelp, perpetual, amm, stablestake, oracle drop or cannot produce one;
epochs panics on a hook error and the burner hook panics on a burn error.
For the masterchef end-blocker the chain of `return err` sites (x/masterchef/keeper/abci.go) with the condition under which
each fires, over an explicit environment record. `fixed = false` is the code before 9e8da3f. Core-only.
-/
namespace Elys.Blocks

structure Env where
  usdcEntry : Bool            -- assetprofile has the base currency entry
  revenueAddrValid : Bool     -- Params.ProtocolRevenueAddress parses (params validation enforces it)
  blocksPerYearNonzero : Bool -- parameter.TotalBlocksPerYear ≠ 0 (params validation enforces it)
  conversionFails : Bool      -- some fee conversion swap errors (e.g. oracle price of the fee denom missing)
  bankSendFails : Bool        -- a module-to-module send of an amount the sender was just observed to hold fails
  edenPriceZero : Bool        -- GetEdenDenomPrice = 0 (it falls back to 1 · usdc price, so only a product rounding to 0)
  mintFails : Bool            -- minting Eden through the commitment keeper fails
deriving Repr, DecidableEq, Inhabited

inductive Halt | noUsdc | conversion | revenueAddr | bankSend | blocksPerYear | edenPrice | mint
deriving Repr, DecidableEq, Inhabited

def endBlockOutcome (fixed : Bool) (e : Env) : Except Halt Unit :=
  if !e.usdcEntry then .error .noUsdc
  else if e.conversionFails && !fixed then .error .conversion
  else if e.bankSendFails then .error .bankSend
  else if !e.revenueAddrValid then .error .revenueAddr
  else if !e.blocksPerYearNonzero then .error .blocksPerYear
  else if e.edenPriceZero then .error .edenPrice
  else if e.mintFails then .error .mint
  else .ok ()

/-- baseapp's per-transaction isolation (TRUSTED, restated): a tx runs on a branch of the state; the branch is written
back only when the tx succeeds (panics are recovered and count as failure) -/
def runTx {σ : Type} (s : σ) (tx : σ → Except Unit σ) : σ := match tx s with | .ok s' => s' | .error _ => s

end Elys.Blocks
