/-
C18 (partial model): the error/panic SKELETON of block processing.
Per module in app order: does the blocker's error reach ABCI? Only masterchef's EndBlock returns its keeper's error
(x/masterchef/module.go); estaking, epochs, tier, leveragelp, perpetual, amm, stablestake, oracle drop or cannot produce one;
epochs panics on a hook error and the burner hook panics on a burn error.
For the masterchef end-blocker the chain of `return err` sites (x/masterchef/keeper/abci.go) with the condition under which
each fires, over an explicit environment record. `fixed = false` is the code before 9e8da3f. The Eden mint is modelled by
its arithmetic (allocation per pool as a raw 10^18 decimal, `fixedMint = false` is the code before 932554d); the epochs
begin-blocker and the estaking hook by their error propagation (`fixedHook = false`: before 7acf6c7); the protocol's fee
split by its arithmetic and the params validation in front of it (`fixedValidation = false`: before f5b320c); a zero Eden
price returned an error before 5353f3f (`fixedPrice = false`). Core-only.
-/
namespace Elys.Blocks

def P : Int := 1000000000000000000

structure Env where
  usdcEntry : Bool            -- assetprofile has the base currency entry
  revenueAddrValid : Bool     -- Params.ProtocolRevenueAddress parses (params validation enforces it)
  blocksPerYearNonzero : Bool -- parameter.TotalBlocksPerYear ≠ 0 (params validation enforces it)
  conversionFails : Bool      -- some fee conversion swap errors (e.g. oracle price of the fee denom missing)
  bankSendFails : Bool        -- a module-to-module send of an amount the sender was just observed to hold fails
  edenPriceZero : Bool        -- GetEdenDenomPrice = 0: the ELYS price implied by the amm pool times the price of one base unit of USDC
                              -- rounds to 0 at 18 decimals — reachable by users (a lopsided ELYS pool), NOT excluded by anything
  edenAllocs : List Int       -- the Eden allocation of this block for every pool with Eden rewards on (raw decimals, ≥ 0):
                              -- min(share of the yearly amount per block, APR cap · TVL / blocks per year / Eden price) — ANY value
deriving Repr, DecidableEq, Inhabited

inductive Halt | noUsdc | conversion | revenueAddr | bankSend | blocksPerYear | edenPrice | mint | stake | negativeCoin
deriving Repr, DecidableEq, Inhabited

/-- commitment MintCoins → bank MintCoins: `Coins.Validate` rejects a coin whose amount is not positive -/
def mintCoins (amt : Int) : Except Halt Unit := if amt ≤ 0 then .error .mint else .ok ()

/-- UpdateLPRewards, one pool: `if alloc.IsPositive() { MintCoins(alloc.TruncateInt()) }` before 932554d,
`if alloc.TruncateInt().IsPositive() { … }` since -/
def edenMint (fixedMint : Bool) (allocRaw : Int) : Except Halt Unit :=
  let whole := allocRaw.tdiv P
  if fixedMint then (if whole > 0 then mintCoins whole else .ok ())
  else (if allocRaw > 0 then mintCoins whole else .ok ())

def edenMints (fixedMint : Bool) : List Int → Except Halt Unit
  | [] => .ok ()
  | a :: as => match edenMint fixedMint a with
    | .ok _ => edenMints fixedMint as
    | .error h => .error h

def endBlockOutcome (fixed : Bool) (e : Env) (fixedMint : Bool := true) (fixedPrice : Bool := true) : Except Halt Unit :=
  if !e.usdcEntry then .error .noUsdc
  else if e.conversionFails && !fixed then .error .conversion
  else if e.bankSendFails then .error .bankSend
  else if !e.revenueAddrValid then .error .revenueAddr
  else if !e.blocksPerYearNonzero then .error .blocksPerYear
  else if e.edenPriceZero then (if fixedPrice then .ok () else .error .edenPrice)   -- since 5353f3f: no Eden in such a block
  else edenMints fixedMint e.edenAllocs

/-! ### epochs begin-blocker and the estaking hook -/

/-- x/epochs/keeper/abci.go: `err := k.RunHooksBeforeEpochStart(…); if err != nil { panic(err) }` over the hooks in order -/
def epochStart (hooks : List (Except Unit Unit)) : Except Unit Unit :=
  if hooks.any (fun h => match h with | .error _ => true | .ok _ => false) then .error () else .ok ()

/-- x/estaking/keeper/hooks_epoch.go BeforeEpochStart on the provider-vesting epoch: the claim's outcome (error or recovered
panic) was returned as it was before 7acf6c7; since then it is logged and the hook returns nil -/
def estakingHook (fixedHook : Bool) (claim : Except Unit Unit) : Except Unit Unit := if fixedHook then .ok () else claim

/-! ### the protocol's fee split -/

/-- estaking params validation of ProviderStakingRewardsPortion (raw decimal): non-negative; since f5b320c also ≤ 1 -/
def portionValid (fixedValidation : Bool) (p : Int) : Bool := 0 ≤ p && (!fixedValidation || p ≤ P)

/-- what is left of `c` coins after the provider's portion `⌊c·p⌋` was taken (masterchef CollectPerpRevenue / CollectGasFees;
a negative remainder panics in `sdk.Coins.Sub`) -/
def afterProvider (c p : Int) : Int := c - (c * p).tdiv P

/-- baseapp's per-transaction isolation (TRUSTED, restated): a tx runs on a branch of the state; the branch is written
back only when the tx succeeds (panics are recovered and count as failure) -/
def runTx {σ : Type} (s : σ) (tx : σ → Except Unit σ) : σ := match tx s with | .ok s' => s' | .error _ => s

/-! ### the EdenB burn and the distribution module's starting info
(x/commitment/keeper/commitments.go `BurnEdenBoost`; x/estaking hooks re-initialise the delegator's starting info for the virtual
EdenB validator from the STORED commitment; cosmos-sdk x/distribution `CalculateDelegationRewards` panics — in the estaking
end-blocker, with no recover — when the stake recorded in the starting info exceeds the delegator's current stake) -/

structure EdenB where
  stored : Int := 0      -- committed EdenB in the commitment store (the delegator's "stake" with the EdenB validator)
  started : Int := 0     -- stake recorded in the distribution starting info
deriving Repr, DecidableEq, Inhabited

/-- `BurnEdenBoost x`: `saveFirst` = the store is written before the `CommitmentChanged` hook runs (the code); otherwise the hook
reads the pre-burn amount (seeded change C18-3) -/
def burnEdenB (saveFirst : Bool) (s : EdenB) (x : Int) : EdenB :=
  let after := s.stored - x
  { stored := after, started := if saveFirst then after else s.stored }

/-- a commit of more EdenB: store written, hook re-initialises -/
def commitEdenB (s : EdenB) (x : Int) : EdenB := { stored := s.stored + x, started := s.stored + x }

/-- the end-blocker's reward withdrawal: panics when the starting info records more stake than there is -/
def withdrawEdenB (s : EdenB) : Except Halt EdenB := if s.started > s.stored then .error .stake else .ok s

inductive EdenBOp | burn (x : Int) | commit (x : Int)
deriving Repr, DecidableEq, Inhabited

def edenBStep (saveFirst : Bool) (s : EdenB) : EdenBOp → EdenB
  | .burn x => burnEdenB saveFirst s x
  | .commit x => commitEdenB s x

/-! ### fee allocation to the fee-sharing validators in begin-block
(x/estaking/modules/distribution/module.go `AllocateEdenUsdcTokens` / `AllocateEdenBTokens`; amounts are raw 18-decimal DecCoins;
`remaining.Sub(reward)` panics on a negative result, in BeginBlock, with no recover) -/

/-- `NewDecFromInt(tokens).QuoTruncate(NewDecFromInt(sum))` -/
def fracTrunc (t T : Int) : Int := (t * P).tdiv T
/-- the same quotient rounded to nearest (what `Quo` does; ties aside) -/
def fracNearest (t T : Int) : Int := (2 * t * P + T).tdiv (2 * T)

/-- `feesCollected.MulDecTruncate(representativesFraction).MulDecTruncate(powerFraction)` for one coin -/
def valReward (fees rep frac : Int) : Int := ((fees * rep).tdiv P * frac).tdiv P

/-- the loop over the validators: `remaining = remaining.Sub(reward)` -/
def allocate (frac : Int → Int → Int) (fees rep T : Int) : List Int → Int → Except Halt Int
  | [], remaining => .ok remaining
  | t :: ts, remaining =>
    let r := remaining - valReward fees rep (frac t T)
    if r < 0 then .error .negativeCoin else allocate frac fees rep T ts r

def sumL : List Int → Int
  | [] => 0
  | x :: xs => x + sumL xs

end Elys.Blocks
