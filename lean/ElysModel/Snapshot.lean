/-
The projection type shared by model states and observed real states: what the harness dumps
after every block (harness/observe.go), parsed into plain Lean data. Core-only.
-/
import Lean.Data.Json
import ElysModel.Data.FMap
open Lean
namespace Elys

structure AmmPoolObs where
  id : Nat
  addr : String
  oracle : Bool
  shares : Int
  shareDenom : String
  assets : List (String × Int)       -- (denom, book balance)
  treasury : String
deriving Repr, Inhabited

structure Lockup where
  addr : String
  denom : String
  amount : Int
  unlock : Int
deriving Repr, Inhabited

structure DebtObs where
  addr : String
  borrowed : Int
  paid : Int
  stacked : Int
deriving Repr, Inhabited

structure LevPosObs where
  owner : String
  id : Nat
  pool : Nat
  levLp : Int
  liab : Int
  collateral : Int
  posAddr : String
  health : Int
  stopLoss : Int
deriving Repr, Inhabited

structure PerpAssetObs where
  denom : String
  liab : Int
  custody : Int
  collateral : Int
  tpLiab : Int
  tpCustody : Int
deriving Repr, Inhabited

structure PerpPoolObs where
  id : Nat
  long : List PerpAssetObs
  short : List PerpAssetObs
deriving Repr, Inhabited

structure MtpObs where
  owner : String
  id : Nat
  pool : Nat
  long : Bool
  collateralAsset : String
  custodyAsset : String
  liabAsset : String
  collateral : Int
  liab : Int
  custody : Int
  unpaid : Int
  tpLiab : Int
  tpCustody : Int
  health : Int
deriving Repr, Inhabited

structure AccountedObs where
  id : Nat
  total : List (String × Int)
  nonAmm : List (String × Int)
deriving Repr, Inhabited

structure RewardObs where
  user : String
  pool : Nat
  denom : String
  pending : Int     -- raw Dec
  debt : Int        -- raw Dec
deriving Repr, Inhabited

structure RewardPoolObs where
  pool : Nat
  denom : String
  acc : Int         -- raw Dec
deriving Repr, Inhabited

/-- one pool's reward denom list as the keeper computes it (`keys`), with the inputs of `GetRewardDenoms` -/
structure RewardDenomsObs where
  pool : Nat
  base : String
  edenOn : Bool
  ext : List String
  keys : List String
deriving Repr, Inhabited

structure SpotOrderObs where
  id : Nat
  owner : String
  typ : Int
  denom : String
  amount : Int
  escrow : String
  rate : Int := 0
  base : String := ""
  quote : String := ""
deriving Repr, Inhabited

structure PerpOrderObs where
  id : Nat
  owner : String
  denom : String
  amount : Int
  escrow : String
  rate : Int := 0
  long : Bool := true
deriving Repr, Inhabited

structure Snapshot where
  height : Int := 0
  time : Int := 0
  bank : FMap (String × String) := []        -- (address, denom)
  supply : FMap String := []
  metadata : List String := []
  ammPools : List AmmPoolObs := []
  denomLiq : FMap String := []
  queueLen : Int := 0
  committed : FMap (String × String) := []
  claimed : FMap (String × String) := []
  lockups : List Lockup := []
  totalCommitted : FMap String := []
  ssTotalValue : Int := 0
  ssRate : Int := 0
  ssLiveRate : Int := 0              -- GetRedemptionRate: stated value / share supply now (the stored parameter lags behind it)
  ssDenom : String := ""
  debts : List DebtObs := []
  levPools : FMap Nat := []                   -- leveraged lp amount by amm pool id
  levPositions : List LevPosObs := []
  levOpenCount : Int := 0
  perpPools : List PerpPoolObs := []
  mtps : List MtpObs := []
  perpOpenCount : Int := 0
  accounted : List AccountedObs := []
  rewards : List RewardObs := []
  rewardPools : List RewardPoolObs := []
  rewardDenomLists : List RewardDenomsObs := []
  spotOrders : List SpotOrderObs := []
  perpOrders : List PerpOrderObs := []
  denomPrices : FMap String := []     -- per base unit, raw Dec
  perpAtom : Int := 0                 -- perpetual keeper's price of uatom, raw Dec
  -- id counters (x/leveragelp PositionCount, x/perpetual MTPCount: last id handed out; x/tradeshield Pending*OrderCount: next id)
  levIdCount : Nat := 0
  perpIdCount : Nat := 0
  spotIdCount : Nat := 0
  perpOrderIdCount : Nat := 0
deriving Inhabited

namespace Snapshot

private def jI (j : Json) : Int :=
  match j with
  | .str s => s.toInt?.getD 0
  | .num n => if n.exponent = 0 then n.mantissa else 0
  | _ => 0
private def jN (j : Json) : Nat := (jI j).toNat
private def jS (j : Json) : String := j.getStr?.toOption.getD ""
private def jB (j : Json) : Bool := j.getBool?.toOption.getD false
private def jA (j : Json) : List Json := (j.getArr?.toOption.getD #[]).toList
private def f (j : Json) (k : String) : Json := (j.getObjVal? k).toOption.getD .null
private def nth (j : Json) (i : Nat) : Json := (jA j).getD i .null

private def pairList (j : Json) : List (String × Int) := (jA j).map fun x => (jS (nth x 0), jI (nth x 1))

private def perpAssets (j : Json) : List PerpAssetObs := (jA j).map fun a =>
  { denom := jS (f a "denom"), liab := jI (f a "liab"), custody := jI (f a "custody"), collateral := jI (f a "collateral"),
    tpLiab := jI (f a "tpLiab"), tpCustody := jI (f a "tpCustody") }

/-- parse the `obs` object written by harness/observe.go -/
def parse (o : Json) : Snapshot :=
  let amm := f o "amm"
  let cm := f o "commitment"
  let accts := jA (f cm "accounts")
  let ss := f o "stablestake"
  let lp := f o "leveragelp"
  let pp := f o "perpetual"
  let ts := f o "tradeshield"
  { height := jI (f o "h")
    time := jI (f o "time")
    bank := (jA (f o "bank")).map fun x => ((jS (nth x 0), jS (nth x 1)), jI (nth x 2))
    supply := pairList (f o "supply")
    metadata := (jA (f o "metadata")).map jS
    ammPools := (jA (f amm "pools")).map fun p =>
      { id := jN (f p "id"), addr := jS (f p "addr"), oracle := jB (f p "oracle"), shares := jI (f p "shares"),
        shareDenom := jS (f p "shareDenom"), assets := (jA (f p "assets")).map (fun a => (jS (nth a 0), jI (nth a 1))),
        treasury := jS (f p "treasury") }
    denomLiq := pairList (f amm "denomLiq")
    queueLen := jI (f amm "queueIn") + jI (f amm "queueOut")
    committed := accts.flatMap fun a => (jA (f a "committed")).map fun t => ((jS (f a "addr"), jS (f t "denom")), jI (f t "amount"))
    claimed := accts.flatMap fun a => (jA (f a "claimed")).map fun t => ((jS (f a "addr"), jS (nth t 0)), jI (nth t 1))
    lockups := accts.flatMap fun a => (jA (f a "committed")).flatMap fun t => (jA (f t "lockups")).map fun l =>
      { addr := jS (f a "addr"), denom := jS (f t "denom"), amount := jI (nth l 0), unlock := jI (nth l 1) }
    totalCommitted := pairList (f cm "total")
    ssTotalValue := jI (f ss "totalValue")
    ssRate := jI (f ss "rate")
    ssLiveRate := jI (f (f o "stablestake") "liveRate")
    ssDenom := jS (f ss "denom")
    debts := (jA (f ss "debts")).map fun d =>
      { addr := jS (f d "addr"), borrowed := jI (f d "borrowed"), paid := jI (f d "paid"), stacked := jI (f d "stacked") }
    levPools := (jA (f lp "pools")).map fun p => (jN (f p "id"), jI (f p "levLp"))
    levPositions := (jA (f lp "positions")).map fun p =>
      { owner := jS (f p "owner"), id := jN (f p "id"), pool := jN (f p "pool"), levLp := jI (f p "levLp"), liab := jI (f p "liab"),
        collateral := jI (nth (f p "collateral") 1), posAddr := jS (f p "posAddr"), health := jI (f p "health"), stopLoss := jI (f p "stopLoss") }
    levOpenCount := jI (f lp "openCount")
    perpPools := (jA (f pp "pools")).map fun p => { id := jN (f p "id"), long := perpAssets (f p "long"), short := perpAssets (f p "short") }
    mtps := (jA (f pp "mtps")).map fun m =>
      { owner := jS (f m "owner"), id := jN (f m "id"), pool := jN (f m "pool"), long := jB (f m "long"),
        collateralAsset := jS (f m "collateralAsset"), custodyAsset := jS (f m "custodyAsset"), liabAsset := jS (f m "liabAsset"),
        collateral := jI (f m "collateral"), liab := jI (f m "liab"), custody := jI (f m "custody"), unpaid := jI (f m "unpaid"),
        tpLiab := jI (f m "tpLiab"), tpCustody := jI (f m "tpCustody"), health := jI (f m "health") }
    perpOpenCount := jI (f pp "openCount")
    accounted := (jA (f o "accounted")).map fun a => { id := jN (f a "id"), total := pairList (f a "total"), nonAmm := pairList (f a "nonAmm") }
    rewards := (jA (f (f o "masterchef") "users")).map fun u =>
      { user := jS (f u "user"), pool := jN (f u "pool"), denom := jS (f u "denom"), pending := jI (f u "pending"), debt := jI (f u "debt") }
    rewardPools := (jA (f (f o "masterchef") "pools")).map fun p =>
      { pool := jN (f p "pool"), denom := jS (f p "denom"), acc := jI (f p "acc") }
    rewardDenomLists := (jA (f (f o "masterchef") "denomLists")).map fun p =>
      { pool := jN (f p "pool"), base := jS (f p "base"), edenOn := jB (f p "edenOn"),
        ext := (jA (f p "ext")).map jS, keys := (jA (f p "keys")).map jS }
    spotOrders := (jA (f ts "spot")).map fun s =>
      { id := jN (f s "id"), owner := jS (f s "owner"), typ := jI (f s "type"), denom := jS (nth (f s "amount") 0),
        amount := jI (nth (f s "amount") 1), escrow := jS (f s "escrow"), rate := jI (f s "rate"), base := jS (f s "base"), quote := jS (f s "quote") }
    perpOrders := (jA (f ts "perp")).map fun s =>
      { id := jN (f s "id"), owner := jS (f s "owner"), denom := jS (nth (f s "collateral") 0),
        amount := jI (nth (f s "collateral") 1), escrow := jS (f s "escrow"), rate := jI (f s "rate"), long := jB (f s "long") }
    denomPrices := pairList (f (f o "oracle") "denomPrices")
    perpAtom := jI (f (f o "oracle") "perpAtom")
    levIdCount := jN (f lp "idCount")
    perpIdCount := jN (f pp "idCount")
    spotIdCount := jN (f ts "spotCount")
    perpOrderIdCount := jN (f ts "perpCount") }

end Snapshot
end Elys
