/-
L0: finite maps with default 0, as association lists with first-match semantics.
`get`/`set`/`sumIf` satisfy their update laws unconditionally (no well-formedness hypothesis);
key-uniqueness is a separate theorem (`keys_nodup_set`). Core-only.
-/
namespace Elys

abbrev FMap (κ : Type) := List (κ × Int)

namespace FMap
variable {κ : Type} [DecidableEq κ]

def get : FMap κ → κ → Int
  | [], _ => 0
  | (k', v') :: t, k => if k' = k then v' else get t k

def set : FMap κ → κ → Int → FMap κ
  | [], k, v => [(k, v)]
  | (k', v') :: t, k, v => if k' = k then (k, v) :: t else (k', v') :: set t k v

/-- add `d` to the entry at `k`. -/
def add (m : FMap κ) (k : κ) (d : Int) : FMap κ := set m k (get m k + d)

/-- Σ of the values whose key satisfies `p`. -/
def sumIf (p : κ → Bool) : FMap κ → Int
  | [] => 0
  | (k, v) :: t => (if p k then v else 0) + sumIf p t

def total (m : FMap κ) : Int := sumIf (fun _ => true) m

def keys (m : FMap κ) : List κ := m.map (·.1)

@[simp] theorem get_nil (k : κ) : get ([] : FMap κ) k = 0 := rfl

theorem get_set (m : FMap κ) (k k' : κ) (v : Int) :
    get (set m k v) k' = if k = k' then v else get m k' := by
  induction m with
  | nil => simp [set, get]
  | cons hd t ih =>
    obtain ⟨a, b⟩ := hd
    unfold set
    by_cases h : a = k
    · subst h; simp only [if_true, get]; split <;> rfl
    · simp only [h, if_false, get, ih]
      by_cases h2 : a = k'
      · subst h2
        have : ¬ k = a := fun e => h e.symm
        simp [this]
      · simp [h2]

@[simp] theorem get_set_same (m : FMap κ) (k : κ) (v : Int) : get (set m k v) k = v := by
  simp [get_set]

theorem get_set_ne (m : FMap κ) {k k' : κ} (v : Int) (h : k ≠ k') : get (set m k v) k' = get m k' := by
  simp [get_set, h]

theorem sumIf_set (p : κ → Bool) (m : FMap κ) (k : κ) (v : Int) :
    sumIf p (set m k v) = sumIf p m + (if p k then v - get m k else 0) := by
  induction m with
  | nil => simp [set, sumIf, get]
  | cons hd t ih =>
    obtain ⟨a, b⟩ := hd
    unfold set
    by_cases h : a = k
    · subst h; simp only [if_true, sumIf, get]; split <;> omega
    · simp only [h, if_false, sumIf, get, ih]; omega

theorem sumIf_add (p : κ → Bool) (m : FMap κ) (k : κ) (d : Int) :
    sumIf p (add m k d) = sumIf p m + (if p k then d else 0) := by
  unfold add; rw [sumIf_set]; split <;> omega

theorem total_set (m : FMap κ) (k : κ) (v : Int) : total (set m k v) = total m + (v - get m k) := by
  unfold total; rw [sumIf_set]; simp

theorem total_add (m : FMap κ) (k : κ) (d : Int) : total (add m k d) = total m + d := by
  unfold total; rw [sumIf_add]; simp

theorem get_add (m : FMap κ) (k k' : κ) (d : Int) :
    get (add m k d) k' = if k = k' then get m k + d else get m k' := by
  unfold add; rw [get_set]

@[simp] theorem get_add_same (m : FMap κ) (k : κ) (d : Int) : get (add m k d) k = get m k + d := by
  simp [get_add]

theorem get_add_ne (m : FMap κ) {k k' : κ} (d : Int) (h : k ≠ k') : get (add m k d) k' = get m k' := by
  simp [get_add, h]

theorem keys_set (m : FMap κ) (k : κ) (v : Int) (x : κ) : x ∈ keys (set m k v) ↔ x = k ∨ x ∈ keys m := by
  induction m with
  | nil => simp [set, keys]
  | cons hd t ih =>
    obtain ⟨a, b⟩ := hd
    unfold set
    by_cases h : a = k
    · subst h; simp [keys]
    · simp only [h, if_false]
      have : keys ((a, b) :: set t k v) = a :: keys (set t k v) := rfl
      rw [this, List.mem_cons, ih]
      have : keys ((a, b) :: t) = a :: keys t := rfl
      rw [this, List.mem_cons]
      constructor
      · rintro (h1 | h1 | h1) <;> simp [h1]
      · rintro (h1 | h1 | h1) <;> simp [h1]

/-- key-uniqueness is preserved by `set` (separate theorem, not a subtype). -/
theorem keys_nodup_set (m : FMap κ) (k : κ) (v : Int) (h : (keys m).Nodup) : (keys (set m k v)).Nodup := by
  induction m with
  | nil => simp [set, keys]
  | cons hd t ih =>
    obtain ⟨a, b⟩ := hd
    have hk : keys ((a, b) :: t) = a :: keys t := rfl
    rw [hk, List.nodup_cons] at h
    unfold set
    by_cases h1 : a = k
    · subst h1; simp only [if_true]
      show (a :: keys t).Nodup
      exact List.nodup_cons.mpr h
    · simp only [h1, if_false]
      show (a :: keys (set t k v)).Nodup
      refine List.nodup_cons.mpr ⟨?_, ih h.2⟩
      rw [keys_set]
      rintro (h2 | h2)
      · exact h1 h2
      · exact h.1 h2

/-- with unique keys, `sumIf p` is the sum of `get` over the keys that satisfy `p`. -/
theorem sumIf_eq_sum_get (p : κ → Bool) (m : FMap κ) (h : (keys m).Nodup) :
    sumIf p m = (((keys m).filter p).map (get m)).sum := by
  induction m with
  | nil => simp [sumIf, keys]
  | cons hd t ih =>
    obtain ⟨a, b⟩ := hd
    have hk : keys ((a, b) :: t) = a :: keys t := rfl
    rw [hk, List.nodup_cons] at h
    have hne : ∀ x ∈ keys t, get ((a, b) :: t) x = get t x := by
      intro x hx
      have : a ≠ x := fun e => h.1 (e ▸ hx)
      simp [get, this]
    have hmap : ((keys t).filter p).map (get ((a, b) :: t)) = ((keys t).filter p).map (get t) := by
      apply List.map_congr_left
      intro x hx
      exact hne x (List.mem_filter.mp hx).1
    rw [hk]
    unfold sumIf
    rw [ih h.2]
    by_cases hp : p a = true
    · have hg : get ((a, b) :: t) a = b := by simp [get]
      rw [List.filter_cons_of_pos hp, List.map_cons, List.sum_cons, hmap, hg]; simp [hp]
    · rw [List.filter_cons_of_neg hp, hmap]; simp [hp]

/-- with unique keys, two predicates that differ only on keys whose value is 0 give the same sum -/
theorem sumIf_congr_zero (p q : κ → Bool) (m : FMap κ) (hnd : (keys m).Nodup)
    (h : ∀ k ∈ keys m, p k ≠ q k → get m k = 0) : sumIf p m = sumIf q m := by
  induction m with
  | nil => rfl
  | cons hd t ih =>
    obtain ⟨a, b⟩ := hd
    have hk : keys ((a, b) :: t) = a :: keys t := rfl
    rw [hk, List.nodup_cons] at hnd
    have iht : sumIf p t = sumIf q t := by
      apply ih hnd.2
      intro k hkt hpq
      have hne : a ≠ k := fun e => hnd.1 (e ▸ hkt)
      have := h k (by rw [hk]; exact List.mem_cons_of_mem _ hkt) hpq
      simpa [get, hne] using this
    unfold sumIf
    rw [iht]
    by_cases hpq : p a = q a
    · rw [hpq]
    · have hb : b = 0 := by
        have := h a (by rw [hk]; exact List.mem_cons_self ..) hpq
        simpa [get] using this
      subst hb; simp

theorem keys_nodup_add (m : FMap κ) (k : κ) (d : Int) (h : (keys m).Nodup) : (keys (add m k d)).Nodup :=
  keys_nodup_set m k _ h

end FMap
end Elys
