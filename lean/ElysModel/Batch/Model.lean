/-
Model of the end-of-block swap batch (C04): the transient request queue and the `ExecuteSwapRequests` loop
(x/amm/keeper/abci.go) over an ABSTRACT state and an abstract `apply` (one request run on a cache context: all-or-nothing)
and an abstract stacked-slippage measure. Core-only.
-/
namespace Elys.Batch

structure Req where
  id : Nat
  key : String          -- "denomIn/poolId/denomOut" style prefix (selection order = key order, then id)
  rkey : String         -- the reversed prefix an opposite-direction request would have
deriving Repr, DecidableEq, Inhabited

variable {σ : Type}

/-- `SelectOneSwapRequest(prefix)`: the first request in store order whose key has the prefix (empty prefix = any) -/
def selectOne (q : List Req) (pfx : Option String) : Option Req :=
  match pfx with
  | none => q.head?
  | some p => q.find? (fun r => r.key == p)

def remove (q : List Req) (id : Nat) : List Req := q.filter (fun r => r.id != id)

/-- one iteration of the loop; returns the new state, the new queue and the ids written in this iteration -/
def iter (apply : σ → Req → Option σ) (slip : σ → Req → Int) (s : σ) (q : List Req) : σ × List Req × List Nat :=
  match selectOne q none with
  | none => (s, q, [])
  | some m1 =>
    match selectOne (remove q m1.id) (some m1.rkey) with
    | none =>
      -- no opposite request: apply on a cache context, write on success, delete either way
      match apply s m1 with
      | some s' => (s', remove q m1.id, [m1.id])
      | none => (s, remove q m1.id, [])
    | some m2 =>
      match apply s m1, apply s m2 with
      | some s1, some s2 =>
        if slip s1 m1 < slip s2 m1 then (s1, remove q m1.id, [m1.id]) else (s2, remove q m2.id, [m2.id])
      | some _, none => (s, remove q m2.id, [])        -- msg2 failed: dropped; msg1 stays for the next round
      | none, some _ => (s, remove q m1.id, [])
      | none, none => (s, remove (remove q m1.id) m2.id, [])

/-- the loop, with fuel -/
def loop (apply : σ → Req → Option σ) (slip : σ → Req → Int) : Nat → σ → List Req → List Nat → σ × List Req × List Nat
  | 0, s, q, w => (s, q, w)
  | n + 1, s, q, w =>
    match q with
    | [] => (s, [], w)
    | _ => let (s', q', w') := iter apply slip s q; loop apply slip n s' q' (w ++ w')

/-- `ExecuteSwapRequests`: fuel = queue length suffices (every iteration deletes at least one request) -/
def execute (apply : σ → Req → Option σ) (slip : σ → Req → Int) (s : σ) (q : List Req) : σ × List Req × List Nat :=
  loop apply slip q.length s q []

end Elys.Batch
