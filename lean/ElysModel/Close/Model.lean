/-
Decision logic of forced closes (C10): when may someone other than the owner close or alter a leveraged-LP or perpetual
position — x/leveragelp/keeper/{begin_blocker,msg_server_close_positions}.go, x/perpetual/keeper/{process_mtp,msg_server_close_positions}.go —
and when is an open accepted. Health, prices and factors are raw Dec integers; they are W (recomputed by the harness through
the keepers' own functions). Core-only.
-/
namespace Elys.Close

inductive Module | lp | perp
deriving Repr, DecidableEq, Inhabited

inductive Req | liquidate | stopLoss | takeProfit
deriving Repr, DecidableEq, Inhabited

/-- what the handler sees when it looks at a position -/
structure View where
  module : Module
  long : Bool
  health : Int
  safety : Int
  price : Int          -- lp token price (lp) / trading asset price (perp)
  stopLoss : Int       -- 0 = none
  takeProfit : Int
  liabZero : Bool
deriving Repr, DecidableEq, Inhabited

/-- the guard of each forced-close path, as coded BEFORE the repair of the short stop-loss test (kept for the witness) -/
def allowedBefore (v : View) : Req → Bool
  | .stopLoss =>
    match v.module with
    | .lp => v.price ≤ v.stopLoss
    | .perp => if v.long then v.price ≤ v.stopLoss else v.price ≥ v.stopLoss
  | .liquidate =>
    match v.module with
    | .lp => !(v.health > v.safety) && !v.liabZero
    | .perp => v.health ≤ v.safety
  | .takeProfit =>
    match v.module with
    | .lp => false
    | .perp => if v.long then v.price ≥ v.takeProfit else v.price ≤ v.takeProfit

/-- the guard of each forced-close path, as coded -/
def allowed (v : View) : Req → Bool
  | .liquidate =>
    match v.module with
    | .lp => !(v.health > v.safety) && !v.liabZero      -- `isHealthy := health.GT(sf); if isHealthy || liab.IsZero() { skip }`
    | .perp => v.health ≤ v.safety                      -- `mtp.MtpHealth.LTE(safetyFactor)`
  | .stopLoss =>
    match v.module with
    | .lp => v.price ≤ v.stopLoss                       -- `lpTokenPrice.LTE(position.StopLossPrice)` (price is positive, so 0 = never)
    | .perp => if v.long then v.price ≤ v.stopLoss else (v.stopLoss ≠ 0 && v.price ≥ v.stopLoss)   -- zero = none (repaired)
  | .takeProfit =>
    match v.module with
    | .lp => false                                      -- leveragelp has no take-profit path
    | .perp => if v.long then v.price ≥ v.takeProfit else v.price ≤ v.takeProfit

/-- the property's own reading of "the market has reached its stop-loss price": a position without a stop loss has none to reach -/
def allowedSpec (v : View) : Req → Bool
  | .stopLoss => v.stopLoss ≠ 0 && allowed v .stopLoss
  | r => allowed v r

/-- the paths that can run against a position in one block: the requests naming it, plus (leveragelp) the begin-blocker
sweep, which tries liquidation and, if healthy, stop loss -/
def paths (v : View) (requested : List Req) : List Req :=
  match v.module with
  | .lp => requested ++ [.liquidate, .stopLoss]
  | .perp => requested

/-- a position record: size, collateral, principal -/
structure Pos where
  size : Int
  collateral : Int
  principal : Int
deriving Repr, DecidableEq, Inhabited

/-- one third-party attempt on a position: the force close runs only when the guard holds (`closes` says whether it then
succeeds — it may fail for unrelated reasons and is rolled back) -/
def attempt (v : View) (r : Req) (closes : Bool) (p : Option Pos) : Option Pos :=
  match p with
  | none => none
  | some q => if allowed v r && closes then none else some q

def attempts (v : View) (rs : List (Req × Bool)) (p : Option Pos) : Option Pos := rs.foldl (fun acc rc => attempt v rc.1 rc.2 acc) p

/-- an open (or consolidating re-open) is accepted only when the resulting health is strictly above the safety factor -/
def openAccepted (health safety : Int) : Bool := !(health ≤ safety)

/-- the owner-keyed lookup of a user close: found only under the signer's own address -/
def userClose (owner signer : String) (p : Option Pos) : Except Unit (Option Pos) :=
  if signer = owner then .ok none else .error ()

/-! ### settlement inside a third party's request

`CheckAndLiquidateUnhealthyPosition` first settles what has accrued on the position (borrow interest, funding) out of its custody
and moves the position's checkpoints to now; a position that is then found healthy is stored like that. -/

/-- (custody, accrued since the checkpoint) -/
abbrev Acc := Int × Int

/-- one settlement: everything accrued is taken, the checkpoint moves (nothing is accrued any more) -/
def settle (p : Acc) : Acc := (p.1 - p.2, 0)

/-- `n` requests naming the position within one block (no time passes between them) -/
def settleN : Nat → Acc → Acc
  | 0, p => p
  | n + 1, p => settleN n (settle p)

end Elys.Close
