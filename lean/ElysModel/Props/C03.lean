/-
C03 — no swap gives the trader a better rate than the pool's reference price (NON-oracle pools).
Property theorems only; helper lemmas live in ElysModel/Lemmas/Amm*.lean.  All statements are about
the Lean port `Elys.Amm.calcOutGivenIn` / `calcInGivenOut` of x/amm/types (checked against the Go code
by the differential harness); `A`/`B` below are the reserves the swap computes with
(`SwapPool.effIn` / `effOut`), `fee` is a raw Dec, `a' = amt·(1 − fee)` the fee-reduced input
(raw, exact: `amt·(P − fee)`), `post = A·P + a'` the post-swap in-balance (raw).
-/
import ElysModel.Lemmas.AmmSwap
import ElysModel.Lemmas.AmmOracle
namespace Elys.Amm.C03
open Elys Elys.Amm

/-- equal weights, exact-in, the bound the 18-digit `Quo` rounding allows, in scaled form
(real-number reading: `out ≤ B·a'/(A+a') + B/(2·10¹⁸) + B/10³⁶`).  No approximation is involved
on this path (`Pow(y, 1) = y`). -/
theorem out_le_exact_scaled (p : SwapPool) (amt fee out slip : Int)
    (hw : p.wIn = p.wOut) (hw0 : p.wOut ≠ 0) (hA : 0 ≤ p.effIn) (hB : 0 ≤ p.effOut)
    (h : calcOutGivenIn p amt fee = .ok (out, slip)) :
    out * (p.effIn * P + amt * (P - fee)) * (2 * P * P)
      ≤ p.effOut * (amt * (P - fee)) * (2 * P * P) + p.effOut * (p.effIn * P + amt * (P - fee)) * P
        + 2 * p.effOut * (p.effIn * P + amt * (P - fee)) := by
  obtain ⟨e, hpos, hpost⟩ := calcOut_equal p amt fee out slip hw hw0 h
  rw [e] at hpos ⊢
  exact outVal_bound _ _ _ _ hA hB hpost hpos

/-- `out ≤ ⌊B·a'/(A+a')⌋ + ⌊B/(2·10¹⁸)⌋ + 2` for reserves up to 10³⁶. -/
theorem out_le_exact (p : SwapPool) (amt fee out slip : Int)
    (hw : p.wIn = p.wOut) (hw0 : p.wOut ≠ 0) (hA : 0 ≤ p.effIn) (hB : 0 ≤ p.effOut) (hB2 : p.effOut ≤ P * P)
    (h : calcOutGivenIn p amt fee = .ok (out, slip)) :
    out ≤ (p.effOut * (amt * (P - fee))) / (p.effIn * P + amt * (P - fee)) + p.effOut / (2 * P) + 2 := by
  have hb := out_le_exact_scaled p amt fee out slip hw hw0 hA hB h
  obtain ⟨_, _, hpost⟩ := calcOut_equal p amt fee out slip hw hw0 h
  have hP := P_pos
  exact out_floor_core _ _ _ P out _ _ hP hpost hB hB2
    (Int.lt_ediv_add_one_mul_self _ hpost) (Int.lt_ediv_add_one_mul_self _ (by omega)) hb

/-- the property's allowance: at most ONE base unit above the exact formula — holds whenever the
out-reserve is at most 10¹⁸ base units. -/
theorem out_le_exact_one_unit (p : SwapPool) (amt fee out slip : Int)
    (hw : p.wIn = p.wOut) (hw0 : p.wOut ≠ 0) (hA : 0 ≤ p.effIn) (hB : 0 ≤ p.effOut) (hB1 : p.effOut ≤ P)
    (h : calcOutGivenIn p amt fee = .ok (out, slip)) :
    out ≤ (p.effOut * (amt * (P - fee))) / (p.effIn * P + amt * (P - fee)) + 1 := by
  have hb := out_le_exact_scaled p amt fee out slip hw hw0 hA hB h
  obtain ⟨_, _, hpost⟩ := calcOut_equal p amt fee out slip hw hw0 h
  exact out_one_unit_core _ _ _ P out _ (by decide) hpost hB hB1
    (Int.lt_ediv_add_one_mul_self _ hpost) hb

/-- WITNESS (known finding C03-large-reserve-quo-rounding): a 1:1 pool holding 3·10²⁴ of each asset,
fee 0, swap in 4·10²⁴.  The exact formula gives ⌊3·10²⁴·4/7⌋ = 1714285714285714285714285; the code pays
1714285714285714287000000, i.e. 1285715 base units more: the one-unit allowance is false above 10¹⁸. -/
theorem large_reserve_witness :
    calcOutGivenIn { balIn := 3000000000000000000000000, balOut := 3000000000000000000000000, wIn := 1, wOut := 1 }
        4000000000000000000000000 0 = .ok (1714285714285714287000000, 571428571428571428)
    ∧ (3000000000000000000000000 * (4000000000000000000000000 * (P - 0)) : Int)
        / (3000000000000000000000000 * P + 4000000000000000000000000 * (P - 0)) = 1714285714285714285714285
    ∧ (1714285714285714287000000 : Int) - (1714285714285714285714285 + 1) > 1000000 := by
  refine ⟨by rfl, by decide, by decide⟩

/-- equal weights, exact-out: the charge is at least the exact input `A·o/((B−o)(1−fee))` up to what the
two 18-digit `Quo` roundings can lose, in scaled form (real-number reading:
`in ≥ exact − (A/2 + A/10¹⁸)/((1−fee)·10¹⁸) − 1/2 − 1/10¹⁸`; the final `Ceil` only helps). -/
theorem in_ge_exact_scaled (p : SwapPool) (amtOut fee inAmt slip : Int)
    (hw : p.wIn = p.wOut) (hw0 : p.wOut ≠ 0) (hA : 0 ≤ p.effIn) (ho : 0 ≤ amtOut)
    (h : calcInGivenOut p amtOut fee = .ok (inAmt, slip)) :
    2 * P * P * (p.effIn * amtOut * P)
      ≤ 2 * P * P * inAmt * ((p.effOut - amtOut) * (P - fee))
        + p.effIn * P * (p.effOut - amtOut) * (P + 2) + (P + 2) * ((p.effOut - amtOut) * (P - fee)) := by
  obtain ⟨e, _, hfee, hpost⟩ := calcIn_equal p amtOut fee inAmt slip hw hw0 h
  rw [e]
  exact inVal_bound _ _ _ _ hA ho hfee hpost

/-- exact-out charges at least the exact input minus ONE base unit, whenever the in-reserve is at most
10¹⁸ base units and the fee at most 25 %: `(in + 1)·(B − o)·(1 − fee) ≥ A·o`. -/
theorem in_ge_exact_one_unit (p : SwapPool) (amtOut fee inAmt slip : Int)
    (hw : p.wIn = p.wOut) (hw0 : p.wOut ≠ 0) (hA : 0 ≤ p.effIn) (hA1 : p.effIn ≤ P) (ho : 0 ≤ amtOut)
    (hfee4 : 4 * fee ≤ P)
    (h : calcInGivenOut p amtOut fee = .ok (inAmt, slip)) :
    p.effIn * amtOut * P ≤ (inAmt + 1) * ((p.effOut - amtOut) * (P - fee)) := by
  have hb := in_ge_exact_scaled p amtOut fee inAmt slip hw hw0 hA ho h
  obtain ⟨_, _, _, hpost⟩ := calcIn_equal p amtOut fee inAmt slip hw hw0 h
  have hP := P_pos
  have hD : 0 < p.effOut - amtOut := by
    have : p.effOut * P - amtOut * P = (p.effOut - amtOut) * P := by rw [Int.sub_mul]
    rw [this] at hpost
    apply Classical.byContradiction; intro hc
    have := Int.mul_nonpos_of_nonpos_of_nonneg (show p.effOut - amtOut ≤ 0 by omega) (Int.le_of_lt hP)
    omega
  refine in_one_unit_core p.effIn P (P - fee) (p.effOut - amtOut) inAmt _ hP hD ?_ hb
  rw [P_eq] at hA1 hfee4 ⊢
  omega

/-- WITNESS (known finding C03-large-reserve-quo-rounding-exact-out): in-reserve 10³⁰, out-reserve 10¹²,
1:1, fee 0.3 %, exact-out of 1 base unit.  The code charges 1003009027081243732; the exact input is
above 1003009027082246740, i.e. the trader pays about 10⁶ base units too little (relative 10⁻¹²). -/
theorem large_reserve_in_witness :
    calcInGivenOut { balIn := 1000000000000000000000000000000, balOut := 1000000000000, wIn := 1, wOut := 1 }
        1 3000000000000000 = .ok (1003009027081243732, 0)
    ∧ ((1003009027081243732 + 1000000) * ((1000000000000 - 1) * (P - 3000000000000000)) : Int)
        < 1000000000000000000000000000000 * 1 * P := by
  refine ⟨by rfl, by decide⟩

/-! ### unequal weights: conditional on `PowSpec` (TESTED by clause C03.pow_spec, NOT proved) -/

/-- `PowSpec ref`: on `0 < y ≤ 1`, `0 < w`, the code's `Pow(y, w)` is within 10⁻⁸ of `ref y w`, where `ref`
stands for the exact power `y^w` (as a raw Dec; real powers are not available core-only, so the
reference is a parameter).  The error analysis of the Maclaurin / exp∘ln approximations that would
establish this for `ref = y^w` is NOT proved; the harness tests it against a 420-bit evaluation. -/
def PowSpec (ref : Int → Int → Int) : Prop :=
  ∀ y w v, 0 < y → y ≤ P → 0 < w → pow y w = .ok v → v - ref y w ≤ powPrecision ∧ ref y w - v ≤ powPrecision

/-- any weights, exact-in, UNDER `PowSpec`: the payout is at most the weighted-product formula evaluated
with the exact power of the (18-digit) reserve ratio, plus 10⁻⁸ of the out-reserve:
`out ≤ B·(1 − ref(y, wIn/wOut)) + B·10⁻⁸`, with `y = A/(A+a')` and the weight ratio as the code rounds them. -/
theorem out_le_exact_weighted_partial (ref : Int → Int → Int) (hspec : PowSpec ref)
    (p : SwapPool) (amt fee out slip : Int)
    (hA : 0 ≤ p.effIn) (hB : 0 ≤ p.effOut) (hamt : 0 ≤ amt) (hfee : fee ≤ P)
    (hwr : 0 < Dec.quo (p.wIn * P) (p.wOut * P))
    (h : calcOutGivenIn p amt fee = .ok (out, slip)) :
    out * P ≤ p.effOut * (P - ref (Dec.quo (p.effIn * P) (p.effIn * P + amt * (P - fee))) (Dec.quo (p.wIn * P) (p.wOut * P)))
      + p.effOut * powPrecision := by
  obtain ⟨hout, hpost, pw, hpw, e⟩ := calcOut_general p amt fee out slip h
  have hP := P_pos
  have ha' : 0 ≤ amt * (P - fee) := Int.mul_nonneg hamt (by omega)
  have hAP : 0 ≤ p.effIn * P := Int.mul_nonneg hA (by omega)
  have hy1 := quo_le_one (p.effIn * P) (p.effIn * P + amt * (P - fee)) hAP (by omega) hpost
  have hy0 : 0 < Dec.quo (p.effIn * P) (p.effIn * P + amt * (P - fee)) := by
    -- `Pow` rejects a non-positive base
    unfold pow powWith at hpw
    split at hpw
    · cases hpw
    · omega
  obtain ⟨_, hlow⟩ := hspec _ _ pw hy0 hy1 hwr hpw
  have ho := truncP_of_pos (p.effOut * (P - pw)) (by rw [← e]; exact hout)
  rw [← e] at ho
  have hm : p.effOut * (P - pw) ≤ p.effOut * (P - ref (Dec.quo (p.effIn * P) (p.effIn * P + amt * (P - fee))) (Dec.quo (p.wIn * P) (p.wOut * P)) + powPrecision) :=
    Int.mul_le_mul_of_nonneg_left (by omega) hB
  rw [Int.mul_add] at hm
  omega

/-- non-vacuity of `PowSpec`'s use: on the exponent-1 path `Pow(y,1) = y`, so `ref y _ = y` meets the spec there. -/
example : ∀ y v, 0 < y → y ≤ P → pow y P = .ok v → v - y ≤ powPrecision ∧ y - v ≤ powPrecision := by
  intro y v hy _ h
  rw [pow_one] at h
  split at h
  · omega
  · have := chk_ok h; subst this
    have : (0 : Int) ≤ powPrecision := by decide
    omega

/-- a concrete unequal-weight swap (1:4) the partial theorem applies to. -/
example : calcOutGivenIn { balIn := 1000000, balOut := 2000000, wIn := 1, wOut := 4 } 1000 3000000000000000
    = .ok (498, 622659583959880) := by rfl

/-! ### oracle pools: what the pool pays out is never worth more, at the oracle prices, than what is paid in -/

/-- oracle pool, exact-in (`oSwapOut`, the port of `SwapOutAmtGivenIn` with `UseOracle`): for every
weight-breaking fee in [0, 1] that was applied (`r.wbf`, a ghost output of the port), swap fee in [0, 1),
any slippage (it is clamped at 0) and external-liquidity ratio ≥ 0:
`out·p_out ≤ in·p_in + p_out/(2·10¹⁸)` (prices as raw Decs). -/
theorem oracle_value (p : OPool) (iIn : Nat) (amt fee : Int) (pr : OParams) (r : OSwapRes)
    (hamt : 0 ≤ amt) (hpi : 0 ≤ (p.get iIn).price) (hpo : 0 ≤ (p.get (1 - iIn)).price)
    (hext : 0 ≤ (p.get (1 - iIn)).ext) (hfee : 0 ≤ fee) (hw0 : 0 ≤ r.wbf) (hw1 : r.wbf ≤ P)
    (h : oSwapOut p iIn amt fee pr = .ok r) :
    2 * P * r.amount * (p.get (1 - iIn)).price ≤ 2 * P * amt * (p.get iIn).price + (p.get (1 - iIn)).price := by
  obtain ⟨hf1, hpo0, eo, sa, hsa, ea⟩ := oSwapOut_ok p iIn amt fee pr r h
  have hP := P_pos
  have hpo' : 0 < (p.get (1 - iIn)).price := by omega
  have hq := oracle_quote_le amt (p.get iIn).price (p.get (1 - iIn)).price hamt hpi hpo'
  rw [← eo] at hq
  have hoo : 0 ≤ r.oracleAmount := by
    rw [eo, mul_ofInt_left]
    unfold Dec.quo
    apply monotone_round2_le
    exact Int.tdiv_nonneg (Int.mul_nonneg (Int.mul_nonneg (Int.mul_nonneg hamt hpi) (by omega)) (by omega)) (by omega)
  have hse : 0 ≤ Dec.mul sa (p.get (1 - iIn)).ext := by
    unfold Dec.mul; exact monotone_round2_le _ (Int.mul_nonneg hsa hext)
  have ht := oOutTail_le r.oracleAmount _ r.wbf fee hoo hse hw0 hw1 hfee (by omega)
  rw [← ea] at ht
  exact oracle_value_core _ _ _ _ _ P hP hpo ht hq

/-- oracle pool, exact-out (`oSwapIn`, the port of `SwapInAmtGivenOut` with `UseOracle`): the charge is worth
at least what is paid out, up to (1/2 + 10⁻¹⁸) raw units of the in-price:
`in·p_in ≥ out·p_out − p_in·(1/2 + 10⁻¹⁸)/10¹⁸`. -/
theorem oracle_in_value (p : OPool) (iIn : Nat) (amt fee : Int) (pr : OParams) (r : OSwapRes)
    (hamt : 0 ≤ amt) (hpi : 0 ≤ (p.get iIn).price) (hpo : 0 ≤ (p.get (1 - iIn)).price)
    (hext : 0 ≤ (p.get (1 - iIn)).ext) (hfee : 0 ≤ fee) (hw0 : 0 ≤ r.wbf) (hw1 : r.wbf < P)
    (h : oSwapIn p iIn amt fee pr = .ok r) :
    2 * P * P * amt * (p.get (1 - iIn)).price ≤ 2 * P * P * r.amount * (p.get iIn).price + (p.get iIn).price * (P + 2) := by
  obtain ⟨hf1, hpi0, eo, sa, hsa, ea⟩ := oSwapIn_ok p iIn amt fee pr r h
  have hP := P_pos
  have hpi' : 0 < (p.get iIn).price := by omega
  have hq := oracle_in_quote_ge amt (p.get iIn).price (p.get (1 - iIn)).price hamt hpo hpi'
  rw [← eo] at hq
  have hoo : 0 ≤ r.oracleAmount := by
    rw [eo, mul_ofInt_left]
    unfold Dec.quo
    apply monotone_round2_le
    exact Int.tdiv_nonneg (Int.mul_nonneg (Int.mul_nonneg (Int.mul_nonneg hamt hpo) (by omega)) (by omega)) (by omega)
  have hse : 0 ≤ Dec.mul sa (p.get (1 - iIn)).ext := by
    unfold Dec.mul; exact monotone_round2_le _ (Int.mul_nonneg hsa hext)
  have ht := oInTail_ge r.oracleAmount _ r.wbf fee hoo hse hw0 hw1 hfee hf1
  rw [← ea] at ht
  exact oracle_in_value_core _ _ _ _ _ P hP hpi ht hq

/-- non-vacuity: a 50/50 oracle pool (10¹² : 2.5·10¹¹ at prices 10⁻⁶ : 4·10⁻⁶, external-liquidity ratio 2 on the
out asset, default weight-breaking-fee parameters), 10⁹ in at 0.3 %: pays 249000249 with a weight-breaking fee
of about 0.05 % — all hypotheses of `oracle_value` hold. -/
example : oSwapOut
    { a0 := { amount := 1000000000000, weight := 1, ext := P, price := 1000000000000, snap := 1000000000000 },
      a1 := { amount := 250000000000, weight := 1, ext := 2 * P, price := 4000000000000, snap := 250000000000 } }
    0 1000000000 3000000000000000
    { exponent := 2500000000000000000, multiplier := 500000000000000, portion := 500000000000000000, threshold := 300000000000000000, perpFactor := P }
    = .ok { amount := 249000249, slippage := 499752000000000, slippageAmount := 62469000000000000000000,
            bonus := -502505632818039, oracleAmount := 250000000000000000000000000, wbf := 502505632818039 } := by rfl

/-- non-vacuity: a concrete equal-weight swap (reserves 10⁶ : 2·10⁶, fee 0.3 %, 1000 in) satisfies the
hypotheses of the theorems above and pays 1992 = ⌊exact⌋. -/
example : calcOutGivenIn { balIn := 1000000, balOut := 2000000, wIn := 1, wOut := 1 } 1000 3000000000000000
    = .ok (1992, 996006981040120) := by rfl
example : ((2000000 * (1000 * (P - 3000000000000000)) : Int) / (1000000 * P + 1000 * (P - 3000000000000000))) = 1992 := by decide
/-- … and the exact-out direction on the same pool: 1000 out costs 502 = ⌈exact⌉ in. -/
example : calcInGivenOut { balIn := 1000000, balOut := 2000000, wIn := 1, wOut := 1 } 1000 3000000000000000
    = .ok (502, -500250125062000) := by rfl

end Elys.Amm.C03
