/-
C03 — no swap gives the trader a better rate than the pool's reference price (NON-oracle pools).
Property theorems only; helper lemmas live in ElysModel/Lemmas/Amm*.lean.  All statements are about
the Lean port `Elys.Amm.calcOutGivenIn` / `calcInGivenOut` of x/amm/types (checked against the Go code
by the differential harness); `A`/`B` below are the reserves the swap computes with
(`SwapPool.effIn` / `effOut`), `fee` is a raw Dec, `a' = amt·(1 − fee)` the fee-reduced input
(raw, exact: `amt·(P − fee)`), `post = A·P + a'` the post-swap in-balance (raw).
-/
import ElysModel.Lemmas.AmmSwap
namespace Elys.Amm.C03
open Elys Elys.Amm

/-- equal weights, exact-in, the bound the 18-digit `Quo` rounding allows, in scaled form
(real-number reading: `out ≤ B·a'/(A+a') + B/(2·10¹⁸) + B/10³⁶`).  No approximation is involved
on this path (`Pow(y, 1) = y`). -/
theorem out_le_exact_scaled (p : SwapPool) (amt fee out slip : Int)
    (hw : p.wIn = p.wOut) (hw0 : p.wOut ≠ 0) (hA : 0 ≤ p.effIn) (hB : 0 ≤ p.effOut)
    (h : calcOutGivenIn p amt fee = .ok (out, slip)) :
    out * (p.effIn * P + amt * (P - fee)) * (2 * P * P)
      ≤ p.effOut * (amt * (P - fee)) * (2 * P * P) + p.effOut * (p.effIn * P + amt * (P - fee)) * P
        + 2 * p.effOut * (p.effIn * P + amt * (P - fee)) := by
  obtain ⟨e, hpos, hpost⟩ := calcOut_equal p amt fee out slip hw hw0 h
  rw [e] at hpos ⊢
  exact outVal_bound _ _ _ _ hA hB hpost hpos

/-- `out ≤ ⌊B·a'/(A+a')⌋ + ⌊B/(2·10¹⁸)⌋ + 2` for reserves up to 10³⁶. -/
theorem out_le_exact (p : SwapPool) (amt fee out slip : Int)
    (hw : p.wIn = p.wOut) (hw0 : p.wOut ≠ 0) (hA : 0 ≤ p.effIn) (hB : 0 ≤ p.effOut) (hB2 : p.effOut ≤ P * P)
    (h : calcOutGivenIn p amt fee = .ok (out, slip)) :
    out ≤ (p.effOut * (amt * (P - fee))) / (p.effIn * P + amt * (P - fee)) + p.effOut / (2 * P) + 2 := by
  have hb := out_le_exact_scaled p amt fee out slip hw hw0 hA hB h
  obtain ⟨_, _, hpost⟩ := calcOut_equal p amt fee out slip hw hw0 h
  have hP := P_pos
  exact out_floor_core _ _ _ P out _ _ hP hpost hB hB2
    (Int.lt_ediv_add_one_mul_self _ hpost) (Int.lt_ediv_add_one_mul_self _ (by omega)) hb

/-- the property's allowance: at most ONE base unit above the exact formula — holds whenever the
out-reserve is at most 10¹⁸ base units. -/
theorem out_le_exact_one_unit (p : SwapPool) (amt fee out slip : Int)
    (hw : p.wIn = p.wOut) (hw0 : p.wOut ≠ 0) (hA : 0 ≤ p.effIn) (hB : 0 ≤ p.effOut) (hB1 : p.effOut ≤ P)
    (h : calcOutGivenIn p amt fee = .ok (out, slip)) :
    out ≤ (p.effOut * (amt * (P - fee))) / (p.effIn * P + amt * (P - fee)) + 1 := by
  have hb := out_le_exact_scaled p amt fee out slip hw hw0 hA hB h
  obtain ⟨_, _, hpost⟩ := calcOut_equal p amt fee out slip hw hw0 h
  exact out_one_unit_core _ _ _ P out _ (by decide) hpost hB hB1
    (Int.lt_ediv_add_one_mul_self _ hpost) hb

/-- WITNESS (known finding C03-large-reserve-quo-rounding): a 1:1 pool holding 3·10²⁴ of each asset,
fee 0, swap in 4·10²⁴.  The exact formula gives ⌊3·10²⁴·4/7⌋ = 1714285714285714285714285; the code pays
1714285714285714287000000, i.e. 1285715 base units more: the one-unit allowance is false above 10¹⁸. -/
theorem large_reserve_witness :
    calcOutGivenIn { balIn := 3000000000000000000000000, balOut := 3000000000000000000000000, wIn := 1, wOut := 1 }
        4000000000000000000000000 0 = .ok (1714285714285714287000000, 571428571428571428)
    ∧ (3000000000000000000000000 * (4000000000000000000000000 * (P - 0)) : Int)
        / (3000000000000000000000000 * P + 4000000000000000000000000 * (P - 0)) = 1714285714285714285714285
    ∧ (1714285714285714287000000 : Int) - (1714285714285714285714285 + 1) > 1000000 := by
  refine ⟨by rfl, by decide, by decide⟩

/-- non-vacuity: a concrete equal-weight swap (reserves 10⁶ : 2·10⁶, fee 0.3 %, 1000 in) satisfies the
hypotheses of the theorems above and pays 1992 = ⌊exact⌋. -/
example : calcOutGivenIn { balIn := 1000000, balOut := 2000000, wIn := 1, wOut := 1 } 1000 3000000000000000
    = .ok (1992, 996006981040120) := by rfl
example : ((2000000 * (1000 * (P - 3000000000000000)) : Int) / (1000000 * P + 1000 * (P - 3000000000000000))) = 1992 := by decide

end Elys.Amm.C03
