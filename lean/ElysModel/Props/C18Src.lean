/-
C18 — source tie (see Props/C03Src.lean for what that is): the two revenue collectors of masterchef's end-blocker that move coins out
of an account by portions, x/masterchef/keeper/abci.go `CollectGasFees` and `CollectPerpRevenue`, translated WITH the trace of
their bank transfers.  A transfer that asks for more than is there fails, the collector returns the error, masterchef's `EndBlock`
hands it to baseapp and the chain halts: so "the parts never exceed the whole" is a no-halt obligation.
Property theorems only; helpers in Lemmas/GenSends.lean.
-/
import ElysModel.Gen.Arith.collectGasFees
import ElysModel.Gen.Arith.collectPerpRevenue
import ElysModel.Gen.Arith.Table
import ElysModel.Lemmas.GenSends
namespace Elys.Blocks.C18Src
open Elys Elys.Amm

/-- `CollectGasFees` as the source has it now: whatever the collected amount and the three portions are, the transfers it makes out of
the fee collector add up to at most what was collected there, and none is negative — so none of them can fail for lack of funds,
and the end-blocker that calls it does not return their error.  (The portions need not even sum to at most 1: a `Sub` that would go
negative is a panic of the translated function, i.e. not an `.ok` outcome, which `C18.afterProvider_nonneg` covers.) -/
theorem gas_fees_sent_le_collected (bc : String) (fees : Int) (ferr : Bool) (pl ps : Int) (aerr : Bool) (pp : Int)
    (r : Int) (tr : List (String × String × Int))
    (hf : 0 ≤ fees) (hpl : 0 ≤ pl) (hps : 0 ≤ ps)
    (h : Gen.Arith.collectGasFees bc fees ferr pl ps aerr pp = .ok (r, tr)) :
    sentFrom "authtypes.FeeCollectorName" tr ≤ fees ∧ allNonneg tr := by
  unfold Gen.Arith.collectGasFees at h
  cases ferr
  · simp only [Bool.false_eq_true, if_false] at h
    by_cases hz : fees = 0
    · simp [hz] at h; obtain ⟨_, rfl⟩ := h; simp [sentFrom, allNonneg, hz]
    · simp only [hz, if_false] at h
      obtain ⟨t1, h1, h⟩ := bind_ok h
      obtain ⟨t2, h2, h⟩ := bind_ok h
      obtain ⟨t3, h3, h⟩ := bind_ok h
      obtain ⟨t4, h4, h⟩ := bind_ok h
      have e1 := chk_ok h1; have e2 := chk_ok h2
      rw [mulTrunc_exact] at e1 e2
      obtain ⟨e3, _⟩ := coinsSubC_ok h3
      obtain ⟨e4, n4⟩ := coinsSubC_ok h4
      have ha : 0 ≤ fees * pl := Int.mul_nonneg hf hpl
      have hb : 0 ≤ fees * ps := Int.mul_nonneg hf hps
      subst e1 e2 e3
      generalize fees * pl = a at *
      generalize fees * ps = b at *
      subst e4
      simp only [Int.tdiv_eq_ediv_of_nonneg ha, Int.tdiv_eq_ediv_of_nonneg hb, Int.tdiv_eq_ediv_of_nonneg n4] at h
      have key : a / P + b / P + (fees * P - a - b) / P ≤ fees ∧ 0 ≤ a / P ∧ 0 ≤ b / P ∧ 0 ≤ (fees * P - a - b) / P := by
        simp only [P_eq] at *; omega
      generalize a / P = la at *
      generalize b / P = lb at *
      generalize (fees * P - a - b) / P = lc at *
      obtain ⟨s1, hs1, h⟩ := bind_ok h
      obtain ⟨s2, hs2, h⟩ := bind_ok h
      obtain ⟨s3, hs3, h⟩ := bind_ok h
      simp only [pure, Except.pure, Except.ok.injEq, Prod.mk.injEq] at h
      obtain ⟨_, rfl⟩ := h
      have f1 : sentFrom "authtypes.FeeCollectorName" s1 ≤ (if lb > 0 then lb else 0) ∧ allNonneg s1 := by
        split at hs1 <;> simp only [pure, Except.pure, Except.ok.injEq, pure_bind, bind_pure] at hs1 <;> subst hs1 <;>
          simp [sentFrom, allNonneg, *] <;> omega
      have f2 : sentFrom "authtypes.FeeCollectorName" s2 ≤ sentFrom "authtypes.FeeCollectorName" s1 + (if la > 0 then la else 0) ∧ allNonneg s2 := by
        split at hs2 <;> simp only [pure, Except.pure, Except.ok.injEq, pure_bind, bind_pure] at hs2 <;> subst hs2
        · refine ⟨by simp [sentFrom_append, sentFrom, *], ?_⟩
          rw [allNonneg_append]; exact ⟨f1.2, by simp [allNonneg]; omega⟩
        · exact ⟨by simp [*], f1.2⟩
      have f3 : sentFrom "authtypes.FeeCollectorName" s3 ≤ sentFrom "authtypes.FeeCollectorName" s2 + (if lc > 0 then lc else 0) ∧ allNonneg s3 := by
        split at hs3
        · cases aerr
          · simp only [Bool.false_eq_true, if_false] at hs3
            obtain ⟨t5, h5, hs3⟩ := bind_ok hs3
            obtain ⟨t6, h6, hs3⟩ := bind_ok hs3
            have n5 := portionC_ok h5
            obtain ⟨e6, n6⟩ := coinsSubC_ok h6
            simp only [pure, Except.pure, Except.ok.injEq] at hs3
            subst hs3 e6
            refine ⟨by simp [sentFrom_append, sentFrom, *]; omega, ?_⟩
            rw [allNonneg_append, allNonneg_append]; exact ⟨⟨f2.2, by simp [allNonneg]; omega⟩, by simp [allNonneg]; omega⟩
          · simp at hs3
        · simp only [pure, Except.pure, Except.ok.injEq] at hs3; subst hs3
          exact ⟨by simp [*], f2.2⟩
      refine ⟨?_, f3.2⟩
      have := f1.1; have := f2.1; have := f3.1
      obtain ⟨k1, k2, k3, k4⟩ := key
      split at f1 <;> split at f2 <;> split at f3 <;> omega
  · simp at h
/-- `CollectPerpRevenue`: the same for the perpetual module's fee address. -/
theorem perp_revenue_sent_le_collected (bc : String) (fees : Int) (ferr : Bool) (pl ps : Int) (aerr : Bool) (pp : Int)
    (r : Int) (tr : List (String × String × Int))
    (hf : 0 ≤ fees) (hpl : 0 ≤ pl) (hps : 0 ≤ ps)
    (h : Gen.Arith.collectPerpRevenue bc fees ferr pl ps aerr pp = .ok (r, tr)) :
    sentFrom "authtypes.NewModuleAddress(perpetualmoduletypes.ModuleName)" tr ≤ fees ∧ allNonneg tr := by
  unfold Gen.Arith.collectPerpRevenue at h
  cases ferr
  · simp only [Bool.false_eq_true, if_false] at h
    by_cases hz : fees = 0
    · simp [hz] at h; obtain ⟨_, rfl⟩ := h; simp [sentFrom, allNonneg, hz]
    · simp only [hz, if_false] at h
      obtain ⟨t1, h1, h⟩ := bind_ok h
      obtain ⟨t2, h2, h⟩ := bind_ok h
      obtain ⟨t3, h3, h⟩ := bind_ok h
      obtain ⟨t4, h4, h⟩ := bind_ok h
      have e1 := chk_ok h1; have e2 := chk_ok h2
      rw [mulTrunc_exact] at e1 e2
      obtain ⟨e3, _⟩ := coinsSubC_ok h3
      obtain ⟨e4, n4⟩ := coinsSubC_ok h4
      have ha : 0 ≤ fees * pl := Int.mul_nonneg hf hpl
      have hb : 0 ≤ fees * ps := Int.mul_nonneg hf hps
      subst e1 e2 e3
      generalize fees * pl = a at *
      generalize fees * ps = b at *
      subst e4
      simp only [Int.tdiv_eq_ediv_of_nonneg ha, Int.tdiv_eq_ediv_of_nonneg hb, Int.tdiv_eq_ediv_of_nonneg n4] at h
      have key : a / P + b / P + (fees * P - a - b) / P ≤ fees ∧ 0 ≤ a / P ∧ 0 ≤ b / P ∧ 0 ≤ (fees * P - a - b) / P := by
        simp only [P_eq] at *; omega
      generalize a / P = la at *
      generalize b / P = lb at *
      generalize (fees * P - a - b) / P = lc at *
      obtain ⟨s1, hs1, h⟩ := bind_ok h
      obtain ⟨s2, hs2, h⟩ := bind_ok h
      obtain ⟨s3, hs3, h⟩ := bind_ok h
      simp only [pure, Except.pure, Except.ok.injEq, Prod.mk.injEq] at h
      obtain ⟨_, rfl⟩ := h
      have f1 : sentFrom "authtypes.NewModuleAddress(perpetualmoduletypes.ModuleName)" s1 ≤ (if la > 0 then la else 0) ∧ allNonneg s1 := by
        split at hs1 <;> simp only [pure, Except.pure, Except.ok.injEq, pure_bind, bind_pure] at hs1 <;> subst hs1 <;>
          simp [sentFrom, allNonneg, *] <;> omega
      have f2 : sentFrom "authtypes.NewModuleAddress(perpetualmoduletypes.ModuleName)" s2 ≤ sentFrom "authtypes.NewModuleAddress(perpetualmoduletypes.ModuleName)" s1 + lb ∧ allNonneg s2 := by
        split at hs2 <;> simp only [pure, Except.pure, Except.ok.injEq, pure_bind, bind_pure] at hs2 <;> subst hs2
        · refine ⟨by simp [sentFrom_append, sentFrom, *], ?_⟩
          rw [allNonneg_append]; exact ⟨f1.2, by simp [allNonneg]; omega⟩
        · exact ⟨by omega, f1.2⟩
      have f3 : sentFrom "authtypes.NewModuleAddress(perpetualmoduletypes.ModuleName)" s3 ≤ sentFrom "authtypes.NewModuleAddress(perpetualmoduletypes.ModuleName)" s2 + (if lc > 0 then lc else 0) ∧ allNonneg s3 := by
        split at hs3
        · cases aerr
          · simp only [Bool.false_eq_true, if_false] at hs3
            obtain ⟨t5, h5, hs3⟩ := bind_ok hs3
            obtain ⟨t6, h6, hs3⟩ := bind_ok hs3
            have n5 := portionC_ok h5
            obtain ⟨e6, n6⟩ := coinsSubC_ok h6
            simp only [pure, Except.pure, Except.ok.injEq] at hs3
            subst hs3 e6
            refine ⟨by simp [sentFrom_append, sentFrom, *]; omega, ?_⟩
            rw [allNonneg_append, allNonneg_append]; exact ⟨⟨f2.2, by simp [allNonneg]; omega⟩, by simp [allNonneg]; omega⟩
          · simp at hs3
        · simp only [pure, Except.pure, Except.ok.injEq] at hs3; subst hs3
          exact ⟨by simp [*], f2.2⟩
      refine ⟨?_, f3.2⟩
      have := f1.1; have := f2.1; have := f3.1
      obtain ⟨k1, k2, k3, k4⟩ := key
      split at f1 <;> split at f3 <;> omega
  · simp at h

/-- non-vacuity, and the case an independent reviewer's change got wrong: 300 collected, 60 % / 25 % / 15 %, provider portion 0.3 —
the protocol's 45 go out as 14 + 31 (a second rounded portion would ask for 14 + 32). -/
example : Gen.Arith.collectGasFees "uusdc" 300 false 600000000000000000 250000000000000000 false 300000000000000000 =
    .ok (180 * P, [("authtypes.FeeCollectorName", "ccvconsumertypes.ConsumerRedistributeName", 75),
                   ("authtypes.FeeCollectorName", "types.ModuleName", 180),
                   ("authtypes.FeeCollectorName", "ccvconsumertypes.ConsumerToSendToProviderName", 14),
                   ("authtypes.FeeCollectorName", "sdk.AccAddressFromBech32(#0.GetParams(#1).ProtocolRevenueAddress)", 31)]) := by rfl

/-- what the collectors read, and which calls the translator skipped (statistics records). -/
theorem gen_free_collectGasFees : Gen.Arith.freeOf "collectGasFees" =
    ["#0.ConvertGasFeesToUsdc(#1, #2, #0.authKeeper.GetModuleAccount(#1, authtypes.FeeCollectorName).GetAddress())",
     "#0.ConvertGasFeesToUsdc(#1, #2, #0.authKeeper.GetModuleAccount(#1, authtypes.FeeCollectorName).GetAddress())#err",
     "#0.GetParams(#1).RewardPortionForLps", "#0.GetParams(#1).RewardPortionForStakers",
     "sdk.AccAddressFromBech32(#0.GetParams(#1).ProtocolRevenueAddress)#err",
     "#0.estakingKeeper.GetParams(#1).ProviderStakingRewardsPortion"] := by decide

theorem gen_free_collectPerpRevenue : Gen.Arith.freeOf "collectPerpRevenue" =
    ["#0.ConvertGasFeesToUsdc(#1, #2, authtypes.NewModuleAddress(perpetualmoduletypes.ModuleName))",
     "#0.ConvertGasFeesToUsdc(#1, #2, authtypes.NewModuleAddress(perpetualmoduletypes.ModuleName))#err",
     "#0.GetParams(#1).RewardPortionForLps", "#0.GetParams(#1).RewardPortionForStakers",
     "sdk.AccAddressFromBech32(#0.GetParams(#1).ProtocolRevenueAddress)#err",
     "#0.estakingKeeper.GetParams(#1).ProviderStakingRewardsPortion"] := by decide

theorem gen_skipped_collectors :
    Gen.Arith.skippedOf "collectGasFees" = ["#0.AddFeeInfo"] ∧ Gen.Arith.skippedOf "collectPerpRevenue" = ["#0.AddFeeInfo"] := by decide

end Elys.Blocks.C18Src
