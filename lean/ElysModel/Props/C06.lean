/-
C06 — the lending vault's stated value always equals cash plus outstanding loans. Property theorems only.
-/
import ElysModel.Ledger.Vault
namespace Elys.Vault.C06
open FMap

/-- case split on a key comparison produced by `get_add`/`get_set`, substituting in the equal case -/
local macro "keysplit" : tactic => `(tactic| (split <;> first | (rename_i hk; subst hk) | skip))

/-- the vault equation, plus the side invariants that make deleting a debt safe: principal is never negative,
interest paid never exceeds interest stacked, and a borrower with zero principal owes no interest. -/
def InvK (k : Int) (s : St) : Prop :=
  s.tv + k = s.cash + outstanding s ∧ (∀ a, 0 ≤ s.borrowed.get a) ∧
  (∀ a, s.borrowed.get a = 0 → s.stacked.get a = s.paid.get a) ∧ (∀ a, s.paid.get a ≤ s.stacked.get a)

/-- `InvK 0`; the offset `k` is the deposit of a repay that has reached the vault but not yet the debt record. -/
def Inv (s : St) : Prop := InvK 0 s

theorem accrue_inv {k : Int} {s s' : St} {a : String} {i : Int} (hi : InvK k s) (h : accrue s a i = .ok s') : InvK k s' := by
  unfold accrue at h
  split at h; · simp at h
  split at h; · simp at h
  rename_i hneg hz
  simp only [Except.ok.injEq] at h; subst h
  obtain ⟨h1, h0, h2, h3⟩ := hi
  refine ⟨?_, h0, fun b hb => ?_, fun b => ?_⟩
  · simp only [outstanding, total_add] at *; omega
  · simp only [get_add]
    split
    · rename_i e; subst e
      have : i = 0 := by
        by_cases hi0 : i = 0
        · exact hi0
        · exact absurd ⟨hb, hi0⟩ hz
      have := h2 a hb; omega
    · exact h2 b hb
  · have := h3 b; have := h3 a; simp only [get_add]; keysplit <;> omega

/-- every successful vault op preserves the equation, for all amounts and all W interest amounts. -/
theorem step_inv {s s' : St} {op : Op} (hi : Inv s) (h : step s op = .ok s') : Inv s' := by
  cases op with
  | bond x =>
    simp only [step, bond] at h
    split at h; · simp at h
    simp only [Except.ok.injEq] at h; subst h
    obtain ⟨h1, h0, h2, h3⟩ := hi
    exact ⟨by simp only [outstanding] at *; omega, h0, h2, h3⟩
  | unbond r =>
    simp only [step, unbond] at h
    split at h; · simp at h
    split at h; · simp at h
    simp only [Except.ok.injEq] at h; subst h
    obtain ⟨h1, h0, h2, h3⟩ := hi
    exact ⟨by simp only [outstanding] at *; omega, h0, h2, h3⟩
  | accrue a i => exact accrue_inv hi h
  | borrow a i x =>
    simp only [step, borrow] at h
    split at h; · simp at h
    rename_i s1 hs1
    obtain ⟨h1, h0, h2, h3⟩ := accrue_inv hi hs1
    split at h; · simp at h
    split at h; · simp at h
    simp only [Except.ok.injEq] at h; subst h
    refine ⟨by simp only [outstanding, total_add] at *; omega, fun b => ?_, fun b hb => ?_, h3⟩
    · have := h0 b; have := h0 a; simp only [get_add]; keysplit <;> omega
    · by_cases e : a = b
      · subst e; simp only [get_add, if_true] at hb; have := h0 a; exact h2 a (by omega)
      · simp only [get_add, e, if_false] at hb; exact h2 b hb
  | repay a i x =>
    simp only [step, repay] at h
    split at h; · simp at h
    rename_i hx
    split at h; · simp at h
    rename_i s1 hs1
    have hi0 : InvK x { s with cash := s.cash + x } := by
      obtain ⟨h1, h0, h2, h3⟩ := hi
      exact ⟨by simp only [outstanding] at *; omega, h0, h2, h3⟩
    obtain ⟨h1, h0, h2, h3⟩ := accrue_inv hi0 hs1
    have hp := h3 a; have hb := h0 a
    split at h; · simp at h
    rename_i hb'
    split at h
    · -- principal reaches zero: the record is deleted; all owed interest was paid
      rename_i hz
      simp only [Except.ok.injEq] at h; subst h
      refine ⟨?_, fun b => ?_, fun b hb0 => ?_, fun b => ?_⟩
      · have hs := h2 a
        simp only [outstanding, total_set] at *
        omega
      · simp only [get_set]; keysplit <;> first | exact Int.le_refl _ | exact h0 b
      · by_cases e : a = b
        · subst e; simp only [get_set, if_true]
        · simp only [get_set, e, if_false] at hb0 ⊢; exact h2 b hb0
      · simp only [get_set]; keysplit <;> first | exact Int.le_refl _ | exact h3 b
    · rename_i hnz
      simp only [Except.ok.injEq] at h; subst h
      refine ⟨?_, fun b => ?_, fun b hb0 => ?_, fun b => ?_⟩
      · simp only [outstanding, total_set, total_add] at *
        omega
      · by_cases e : a = b
        · subst e; simp only [get_set, if_true]; omega
        · simp only [get_set, e, if_false]; exact h0 b
      · by_cases e : a = b
        · subst e; simp only [get_set, if_true] at hb0; omega
        · simp only [get_set, get_add, e, if_false] at hb0 ⊢; exact h2 b hb0
      · by_cases e : a = b
        · subst e; simp only [get_add, if_true]; omega
        · simp only [get_add, e, if_false]; exact h3 b

/-- every history of vault ops (failed ops roll back). -/
theorem run_inv (s : St) (ops : List Op) (hi : Inv s) : Inv (run s ops) := by
  induction ops generalizing s with
  | nil => exact hi
  | cons op ops ih =>
    apply ih
    unfold stepTx
    cases h : step s op with
    | error e => exact hi
    | ok s' => exact step_inv hi h

/-- a deleted debt owed nothing: `repay` deletes the record only when the payment covered all interest owed. -/
theorem delete_safe {s s1 : St} {a : String} {i x : Int} (hi : Inv s) (hx : 0 ≤ x)
    (hs1 : accrue { s with cash := s.cash + x } a i = .ok s1)
    (hz : s1.borrowed.get a - (x - min (s1.stacked.get a - s1.paid.get a) x) = 0) :
    s1.stacked.get a - s1.paid.get a ≤ x := by
  have hi0 : InvK x { s with cash := s.cash + x } := by
    obtain ⟨h1, h0, h2, h3⟩ := hi
    exact ⟨by simp only [outstanding] at *; omega, h0, h2, h3⟩
  obtain ⟨_, h0, h2, h3⟩ := accrue_inv hi0 hs1
  have hb := h0 a
  by_cases hgt : s1.stacked.get a - s1.paid.get a > x
  · have := h2 a (by omega); omega
  · omega

/-- from an empty vault the equation holds in every reachable state -/
theorem reachable (ops : List Op) : (run {} ops).tv = (run {} ops).cash + outstanding (run {} ops) := by
  have := (run_inv {} ops ⟨by simp [outstanding, total, sumIf], fun _ => by simp [FMap.get], fun _ _ => by simp [FMap.get], fun _ => by simp [FMap.get]⟩).1
  omega

/-- non-vacuity: bond, borrow, interest, partial repay, full repay (delete), unbond -/
example : vaultEqB (run {} [.bond 1000, .borrow "p1" 0 400, .accrue "p1" 7, .repay "p1" 2 100, .repay "p1" 1 310, .unbond 50]) = true ∧
    (run {} [.bond 1000, .borrow "p1" 0 400, .accrue "p1" 7, .repay "p1" 2 100, .repay "p1" 1 310, .unbond 50]).borrowed.get "p1" = 0 := by decide

end Elys.Vault.C06
