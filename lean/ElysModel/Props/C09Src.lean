/-
C09 — source tie (see Props/C03Src.lean for what that is): the funding take, x/perpetual/types/calc_take_amount.go.
Property theorems only.
-/
import ElysModel.Gen.Arith.calcTakeAmount
import ElysModel.Lemmas.AmmBase
import ElysModel.Lemmas.AmmRound
namespace Elys.Perp.C09Src
open Elys Elys.Amm

/-- the funding take as the source computes it now never exceeds the custody (or liabilities) it is taken from, for rates of at
most 100 %, and is never negative: settling funding cannot drive a position's custody below zero. -/
theorem take_le_custody (c rate t : Int) (hc : 0 ≤ c) (hr : -P ≤ rate ∧ rate ≤ P)
    (h : Gen.Arith.calcTakeAmount c rate = .ok t) : 0 ≤ t ∧ t ≤ c := by
  unfold Gen.Arith.calcTakeAmount at h
  obtain ⟨t1, h1, h⟩ := bind_ok h
  cases h
  have ha : 0 ≤ (if rate < 0 then -rate else rate) ∧ (if rate < 0 then -rate else rate) ≤ P := by split <;> omega
  generalize (if rate < 0 then -rate else rate) = a at *
  unfold mulC at h1
  have := chk_ok h1
  subst this
  unfold Dec.mul
  have e : c * P * a = (c * a) * P := by
    rw [Int.mul_assoc, Int.mul_comm P a, ← Int.mul_assoc]
  rw [e, round2_mul_P]
  have hp : 0 < P := P_pos
  have h0 : 0 ≤ c * a := Int.mul_nonneg hc ha.1
  have h1 : c * a ≤ c * P := Int.mul_le_mul_of_nonneg_left ha.2 hc
  constructor
  · exact Int.tdiv_nonneg h0 (by omega)
  · have : (c * a).tdiv P ≤ (c * P).tdiv P := Int.tdiv_le_tdiv hp h1
    rwa [Int.mul_tdiv_cancel _ (by omega)] at this

/-- non-vacuity: custody 1 000 000 at a funding rate of −0.3 % takes 3000. -/
example : Gen.Arith.calcTakeAmount 1000000 (-3000000000000000) = .ok 3000 := by rfl

end Elys.Perp.C09Src
