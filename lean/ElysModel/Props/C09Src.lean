/-
C09 — source tie (see Props/C03Src.lean for what that is): the funding take (x/perpetual/types/calc_take_amount.go), what a close
returns (x/perpetual/keeper/estimate_and_repay.go `CalcReturnAmount`) and the band of the pool's borrow interest rate
(x/perpetual/keeper/keeper.go `BorrowInterestRateComputation`) — the three computations that decide how much of a position's
custody leaves it.
Property theorems only.
-/
import ElysModel.Gen.Arith.calcTakeAmount
import ElysModel.Gen.Arith.calcReturnAmount
import ElysModel.Gen.Arith.borrowInterestRateComputation
import ElysModel.Gen.Arith.calcFundingRate
import ElysModel.Gen.Arith.getFundingPaymentRates
import ElysModel.Gen.Arith.getLiquidationPrice
import ElysModel.Gen.Arith.calcMTPTakeProfitCustody
import ElysModel.Gen.Arith.calcMinCollateral
import ElysModel.Gen.Arith.getBorrowInterestAmountAsCustodyAsset
import ElysModel.Gen.Arith.calcMTPTakeProfitBorrowFactor
import ElysModel.Gen.Arith.Table
import ElysModel.Lemmas.GenTie
import ElysModel.Lemmas.AmmBase
import ElysModel.Lemmas.AmmRound
namespace Elys.Perp.C09Src
open Elys Elys.Amm

/-- the funding take as the source computes it now never exceeds the custody (or liabilities) it is taken from, for rates of at
most 100 %, and is never negative: settling funding cannot drive a position's custody below zero. -/
theorem take_le_custody (c rate t : Int) (hc : 0 ≤ c) (hr : -P ≤ rate ∧ rate ≤ P)
    (h : Gen.Arith.calcTakeAmount c rate = .ok t) : 0 ≤ t ∧ t ≤ c := by
  unfold Gen.Arith.calcTakeAmount at h
  obtain ⟨t1, h1, h⟩ := bind_ok h
  cases h
  have ha : 0 ≤ (if rate < 0 then -rate else rate) ∧ (if rate < 0 then -rate else rate) ≤ P := by split <;> omega
  generalize (if rate < 0 then -rate else rate) = a at *
  unfold mulC at h1
  have := chk_ok h1
  subst this
  unfold Dec.mul
  have e : c * P * a = (c * a) * P := by
    rw [Int.mul_assoc, Int.mul_comm P a, ← Int.mul_assoc]
  rw [e, round2_mul_P]
  have hp : 0 < P := P_pos
  have h0 : 0 ≤ c * a := Int.mul_nonneg hc ha.1
  have h1 : c * a ≤ c * P := Int.mul_le_mul_of_nonneg_left ha.2 hc
  constructor
  · exact Int.tdiv_nonneg h0 (by omega)
  · have : (c * a).tdiv P ≤ (c * P).tdiv P := Int.tdiv_le_tdiv hp h1
    rwa [Int.mul_tdiv_cancel _ (by omega)] at this

/-- non-vacuity: custody 1 000 000 at a funding rate of −0.3 % takes 3000. -/
example : Gen.Arith.calcTakeAmount 1000000 (-3000000000000000) = .ok 3000 := by rfl

/-- what a close returns to the owner, as the source computes it now, is never negative and never more than the custody
being closed minus what is repaid: the part of the custody that backs the repayment cannot be paid out as well. -/
theorem return_le_closing (repay ratio custody ret : Int) (hc : 0 ≤ custody) (hr : 0 ≤ ratio ∧ ratio ≤ P) (hp : 0 ≤ repay)
    (h : Gen.Arith.calcReturnAmount repay ratio custody = .ok ret) : 0 ≤ ret ∧ ret + repay ≤ max repay custody := by
  unfold Gen.Arith.calcReturnAmount at h
  obtain ⟨t1, h1, h⟩ := bind_ok h
  unfold mulC at h1
  have := chk_ok h1
  subst this
  unfold Dec.mul at h
  have e : custody * P * ratio = (custody * ratio) * P := by
    rw [Int.mul_assoc, Int.mul_comm P ratio, ← Int.mul_assoc]
  rw [e, round2_mul_P] at h
  have hpp : 0 < P := P_pos
  have h0 : 0 ≤ custody * ratio := Int.mul_nonneg hc hr.1
  have h1 : custody * ratio ≤ custody * P := Int.mul_le_mul_of_nonneg_left hr.2 hc
  have hcl : (custody * ratio).tdiv P ≤ custody := by
    have : (custody * ratio).tdiv P ≤ (custody * P).tdiv P := Int.tdiv_le_tdiv hpp h1
    rwa [Int.mul_tdiv_cancel _ (by omega)] at this
  have hcl0 : 0 ≤ (custody * ratio).tdiv P := Int.tdiv_nonneg h0 (by omega)
  generalize (custody * ratio).tdiv P = cl at *
  by_cases hlt : cl < repay
  · simp [hlt] at h; cases h; omega
  · simp [hlt] at h; cases h; omega

/-- the perpetual pool's borrow interest rate as the source computes it now stays inside the governance band [min, max]. -/
theorem borrow_rate_in_band (found : Bool) (mx mn inc dec hgf prev long : Int) (lerr : Bool) (short : Int) (serr : Bool) (r : Int) (hmm : mn ≤ mx)
    (h : Gen.Arith.borrowInterestRateComputation found mx mn inc dec hgf prev long lerr short serr = .ok r) : mn ≤ r ∧ r ≤ mx := by
  unfold Gen.Arith.borrowInterestRateComputation at h
  cases found <;> cases lerr <;> cases serr <;> simp at h
  obtain ⟨t1, _, h⟩ := bind_ok h
  obtain ⟨t2, _, h⟩ := bind_ok h
  obtain ⟨t3, _, h⟩ := bind_ok h
  obtain ⟨t4, _, h⟩ := bind_ok h
  obtain ⟨ir, _, h⟩ := bind_ok h
  exact clamp_in ir mn mx r hmm h

/-- the funding rate as the source computes it now (x/perpetual/types/calc_funding_rate.go `CalcFundingRate`) stays inside the
governance band [min, max] whenever the base rate does — for every pair of open interests, balanced, one-sided or empty: the
rate `CalcTakeAmount` is applied with is bounded by parameters, not by the imbalance. -/
theorem funding_rate_in_band (long short base mx mn r : Int) (hmm : mn ≤ mx) (hb : mn ≤ base ∧ base ≤ mx)
    (h : Gen.Arith.calcFundingRate long short base mx mn = .ok r) : mn ≤ r ∧ r ≤ mx := by
  unfold Gen.Arith.calcFundingRate at h
  by_cases h1 : long > short
  · by_cases h2 : short = 0
    · subst h2; simp only [h1, if_true, pure, Except.pure, Except.ok.injEq] at h; omega
    · simp only [h1, h2, if_true, if_false] at h
      obtain ⟨t1, _, h⟩ := bind_ok h
      obtain ⟨t2, _, h⟩ := bind_ok h
      simp only [pure, Except.pure, Except.ok.injEq] at h
      subst h
      split <;> split <;> omega
  · by_cases h3 : short > long
    · by_cases h4 : long = 0
      · subst h4; simp only [h1, h3, if_true, if_false, pure, Except.pure, Except.ok.injEq] at h; omega
      · simp only [h1, h3, h4, if_true, if_false] at h
        obtain ⟨t3, _, h⟩ := bind_ok h
        obtain ⟨t4, _, h⟩ := bind_ok h
        simp only [pure, Except.pure, Except.ok.injEq] at h
        subst h
        split <;> split <;> omega
    · simp [h1, h3, pure, Except.pure] at h; omega

/-- funding is paid by one side to the other, as the source has it now (x/perpetual/keeper/get_net_open_interest.go
`GetFundingPaymentRates`): for non-negative funding rates and open interests the side that pays is charged its funding rate as computed
and the other side's rate is zero or negative (it receives) — never both sides charged, never both sides paid. -/
theorem funding_paid_by_one_side (frL frS oiL oiS l s : Int) (hL : 0 ≤ frL) (hS : 0 ≤ frS) (hoL : 0 ≤ oiL) (hoS : 0 ≤ oiS)
    (h : Gen.Arith.getFundingPaymentRates frL frS oiL oiS = .ok (l, s)) :
    (frL = 0 → l ≤ 0 ∧ s = frS) ∧ (frL ≠ 0 → l = frL ∧ s ≤ 0) := by
  have hp : 0 < P := P_pos
  have quoNonneg : ∀ a b q : Int, 0 ≤ a → 0 < b → quoC a b = .ok q → 0 ≤ q := by
    intro a b q ha hb hq
    unfold quoC at hq
    have : b ≠ 0 := by omega
    simp only [this, if_false] at hq
    have e := chk_ok hq
    subst e
    unfold Dec.quo
    exact monotone_round2_le _ (Int.tdiv_nonneg (Int.mul_nonneg (Int.mul_nonneg ha (by omega)) (by omega)) (by omega))
  have mulNonneg : ∀ a b q : Int, 0 ≤ a → 0 ≤ b → mulC a b = .ok q → 0 ≤ q := by
    intro a b q ha hb hq
    unfold mulC at hq
    have e := chk_ok hq
    subst e
    unfold Dec.mul
    exact monotone_round2_le _ (Int.mul_nonneg ha hb)
  unfold Gen.Arith.getFundingPaymentRates at h
  by_cases h0 : frL = 0
  · simp only [h0, if_true] at h
    refine ⟨fun _ => ?_, fun hne => absurd h0 hne⟩
    by_cases h1 : oiL = 0
    · simp only [h1, not_true_eq_false, if_false, pure, Except.pure, bind, Except.bind, Except.ok.injEq, Prod.mk.injEq] at h
      omega
    · simp only [h1, not_false_eq_true, if_true] at h
      obtain ⟨u, hu, h⟩ := bind_ok h
      obtain ⟨t1, ht1, hu⟩ := bind_ok hu
      obtain ⟨t2, ht2, hu⟩ := bind_ok hu
      simp only [pure, Except.pure, Except.ok.injEq] at hu h
      subst hu
      have hoLp : 0 < oiL * P := Int.mul_pos (by omega) hp
      have h1n := mulNonneg _ _ _ hS (Int.mul_nonneg hoS (by omega)) ht1
      have h2n := quoNonneg _ _ _ h1n hoLp ht2
      have := Prod.mk.inj h
      omega
  · simp only [h0, if_false] at h
    refine ⟨fun he => absurd he h0, fun _ => ?_⟩
    by_cases h1 : oiS = 0
    · simp only [h1, not_true_eq_false, if_false, pure, Except.pure, bind, Except.bind, Except.ok.injEq, Prod.mk.injEq] at h
      omega
    · simp only [h1, not_false_eq_true, if_true] at h
      obtain ⟨u, hu, h⟩ := bind_ok h
      obtain ⟨t3, ht3, hu⟩ := bind_ok hu
      obtain ⟨t4, ht4, hu⟩ := bind_ok hu
      simp only [pure, Except.pure, Except.ok.injEq] at hu h
      subst hu
      have hoSp : 0 < oiS * P := Int.mul_pos (by omega) hp
      have h3n := mulNonneg _ _ _ hL (Int.mul_nonneg hoL (by omega)) ht3
      have h4n := quoNonneg _ _ _ h3n hoSp ht4
      have := Prod.mk.inj h
      omega

/-- the edge cases of three more perpetual computations as the source has them now: a long without custody and a short without liabilities
have no liquidation price (0, not a division by zero); a position whose take-profit price is infinite or unset reserves no take-profit
custody; a leverage of at most 1 has no minimum collateral (refused before the division by leverage − 1). -/
theorem perp_edge_cases (sf liab cust tp pos price dec rmin : Int) (inf : Bool) :
    Gen.Arith.getLiquidationPrice 1 0 sf liab = .ok 0 ∧ Gen.Arith.getLiquidationPrice 2 cust sf 0 = .ok 0 ∧
    Gen.Arith.calcMTPTakeProfitCustody true tp pos liab = .ok 0 ∧ Gen.Arith.calcMTPTakeProfitCustody inf 0 pos liab = .ok 0 ∧
    Gen.Arith.calcMinCollateral P price dec rmin = .error .badArgs := by
  refine ⟨rfl, rfl, rfl, ?_, rfl⟩
  unfold Gen.Arith.calcMTPTakeProfitCustody
  simp [pure, Except.pure]

/-- the take-profit custody a position reserves is never negative: for a non-negative debt and a positive take-profit price, on both sides. -/
theorem take_profit_custody_nonneg (tp pos liab r : Int) (htp : 0 < tp) (hl : 0 ≤ liab)
    (h : Gen.Arith.calcMTPTakeProfitCustody false tp pos liab = .ok r) : 0 ≤ r := by
  have hp : 0 < P := P_pos
  unfold Gen.Arith.calcMTPTakeProfitCustody at h
  have h0 : tp ≠ 0 := by omega
  simp only [h0, Bool.false_eq_true, or_self, if_false] at h
  by_cases h1 : pos = 1
  · simp only [h1, if_true] at h
    obtain ⟨t1, ht1, h⟩ := bind_ok h
    cases h
    unfold quoC at ht1
    simp only [h0, if_false] at ht1
    have e := chk_ok ht1
    subst e
    unfold Dec.quo
    exact Int.tdiv_nonneg (monotone_round2_le _ (Int.tdiv_nonneg (Int.mul_nonneg (Int.mul_nonneg (Int.mul_nonneg hl (by omega)) (by omega)) (by omega)) (by omega))) (by omega)
  · simp only [h1, if_false] at h
    obtain ⟨t2, ht2, h⟩ := bind_ok h
    cases h
    unfold mulC at ht2
    have e := chk_ok ht2
    subst e
    unfold Dec.mul
    exact Int.tdiv_nonneg (monotone_round2_le _ (Int.mul_nonneg (Int.mul_nonneg hl (by omega)) (by omega))) (by omega)

/-- the borrow interest a position owes, expressed in its custody asset (x/perpetual/types/types.go `GetBorrowInterestAmountAsCustodyAsset`, what
`SettleMTPBorrowInterestUnpaidLiability` takes out of the custody): never negative for a non-negative unpaid interest and a positive price,
on both sides; and a long at a price of zero is refused, not divided. -/
theorem interest_in_custody_nonneg (price pos unpaid r : Int) (hp0 : 0 < price) (hu : 0 ≤ unpaid)
    (h : Gen.Arith.getBorrowInterestAmountAsCustodyAsset price pos unpaid = .ok r) : 0 ≤ r := by
  have hp : 0 < P := P_pos
  unfold Gen.Arith.getBorrowInterestAmountAsCustodyAsset at h
  have h0 : price ≠ 0 := by omega
  by_cases h1 : pos = 1
  · simp only [h1, h0, if_true, if_false] at h
    obtain ⟨t1, ht1, h⟩ := bind_ok h
    cases h
    unfold quoC at ht1
    simp only [h0, if_false] at ht1
    have e := chk_ok ht1
    subst e
    unfold Dec.quo
    exact Int.tdiv_nonneg (monotone_round2_le _ (Int.tdiv_nonneg (Int.mul_nonneg (Int.mul_nonneg (Int.mul_nonneg hu (by omega)) (by omega)) (by omega)) (by omega))) (by omega)
  · simp only [h1, if_false] at h
    obtain ⟨t2, ht2, h⟩ := bind_ok h
    cases h
    unfold mulC at ht2
    have e := chk_ok ht2
    subst e
    unfold Dec.mul
    exact Int.tdiv_nonneg (monotone_round2_le _ (Int.mul_nonneg (Int.mul_nonneg hu (by omega)) (by omega))) (by omega)

theorem interest_in_custody_no_price (unpaid : Int) : ∃ e, Gen.Arith.getBorrowInterestAmountAsCustodyAsset 0 1 unpaid = .error e := ⟨_, rfl⟩

/-- the take-profit borrow factor (mtp_take_profit_borrow_factor.go) is exactly 1 for a position whose take-profit price is infinite or unset,
and a position without custody has none (refused before the division). -/
theorem borrow_factor_edge_cases (cust tp pos liab : Int) (inf : Bool) (hc : cust ≠ 0) :
    Gen.Arith.calcMTPTakeProfitBorrowFactor cust true tp pos liab = .ok P ∧ Gen.Arith.calcMTPTakeProfitBorrowFactor cust inf 0 pos liab = .ok P ∧
    Gen.Arith.calcMTPTakeProfitBorrowFactor 0 inf tp pos liab = .error .badArgs := by
  unfold Gen.Arith.calcMTPTakeProfitBorrowFactor
  refine ⟨?_, ?_, ?_⟩ <;> simp [hc, pure, Except.pure]

/-- balanced open interest pays the base rate; a one-sided market pays the maximum. -/
theorem funding_rate_cases (a base mx mn : Int) (ha : 0 < a) :
    Gen.Arith.calcFundingRate a a base mx mn = .ok base ∧ Gen.Arith.calcFundingRate a 0 base mx mn = .ok mx ∧
    Gen.Arith.calcFundingRate 0 a base mx mn = .ok mx := by
  unfold Gen.Arith.calcFundingRate
  have h1 : ¬ a > a := by omega
  have h2 : ¬ (0 : Int) > a := by omega
  simp [h1, h2, ha, pure, Except.pure]

/-- non-vacuity: longs 300, shorts 100, base 0.03 %, band [−1 %, 1 %]: three times the base rate. -/
example : Gen.Arith.calcFundingRate 300 100 300000000000000 10000000000000000 (-10000000000000000) = .ok 900000000000000 := by rfl

/-- what the two keeper functions read besides their arguments. -/
theorem gen_free_calcReturnAmount : Gen.Arith.freeOf "calcReturnAmount" = ["#1.Custody"] := by decide

theorem gen_free_borrowRate : Gen.Arith.freeOf "borrowInterestRateComputation" =
    ["#0.amm.GetPool(#1, #2.AmmPoolId)#1", "#0.GetBorrowInterestRateMax(#1)", "#0.GetBorrowInterestRateMin(#1)",
     "#0.GetBorrowInterestRateIncrease(#1)", "#0.GetBorrowInterestRateDecrease(#1)", "#0.GetHealthGainFactor(#1)", "#2.BorrowInterestRate",
     "#0.BorrowInterestRateComputationByPosition(#2, #0.amm.GetPool(#1, #2.AmmPoolId), types.Position_LONG)",
     "#0.BorrowInterestRateComputationByPosition(#2, #0.amm.GetPool(#1, #2.AmmPoolId), types.Position_LONG)#err",
     "#0.BorrowInterestRateComputationByPosition(#2, #0.amm.GetPool(#1, #2.AmmPoolId), types.Position_SHORT)",
     "#0.BorrowInterestRateComputationByPosition(#2, #0.amm.GetPool(#1, #2.AmmPoolId), types.Position_SHORT)#err"] := by decide

end Elys.Perp.C09Src
