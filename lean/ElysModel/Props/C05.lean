/-
C05 — joining and exiting a pool cannot extract value from other liquidity providers
(NON-oracle pools: all-asset join, pro-rata exit).  Property theorems only; helper lemmas live in
ElysModel/Lemmas/AmmLiquidity.lean.  All statements are about the Lean port (`Elys.Amm.calcJoinNoSwap`,
`joinPoolAll`, `calcExit`, `exitPool`, `keeperExit`) of x/amm/types/{pool_calc_join_pool_no_swap_shares,
pool_join_pool, calc_exit_pool, pool_exit_pool}.go and the guards of keeper/keeper_exit_pool.go, which the
differential harness checks against the Go code.  A pool is the list of its balances `bals` (all
positive) and its total shares `S`; `deps`, `joined`, `outs` are aligned with `bals`.
-/
import ElysModel.Lemmas.AmmLiquidity
import ElysModel.Amm.ExitFair
import ElysModel.Lemmas.AmmOracleExit
namespace Elys.Amm.C05
open Elys Elys.Amm

/-- shares minted by an all-asset join are never worth more than what was joined:
`shares · Bᵢ ≤ joinedᵢ · S` for every asset, and no more than the deposit is taken. -/
theorem join_fair (bals deps joined : List Int) (S shares : Int)
    (hS : 0 ≤ S) (hb : ∀ b ∈ bals, 0 < b)
    (h : calcJoinNoSwap bals S deps = .ok (shares, joined)) :
    joined.length = bals.length ∧ deps.length = bals.length ∧
    ∀ i (h1 : i < bals.length) (h2 : i < joined.length) (h3 : i < deps.length),
      shares * bals[i] ≤ joined[i] * S ∧ 0 ≤ joined[i] ∧ joined[i] ≤ deps[i] := by
  obtain ⟨hl, hj, minR, hmin, esh, hg⟩ := calcJoin_ok hb h
  refine ⟨hj, hl, ?_⟩
  intro i h1 h2 h3
  obtain ⟨hcover, hnn, hle⟩ := hg i h1 h2 h3
  have hbi := hb bals[i] (List.getElem_mem h1)
  refine ⟨?_, hnn, hle⟩
  rw [esh]
  exact join_arith _ _ _ _ (by omega) hS hmin hcover

/-- assets paid by a pro-rata exit are never worth more than the exiting shares' claim:
`outᵢ · S ≤ x · Bᵢ` for every asset. -/
theorem exit_fair (bals outs : List Int) (S x : Int)
    (hS : 0 < S) (hx : 0 ≤ x) (hb : ∀ b ∈ bals, 0 ≤ b)
    (h : calcExit bals S x = .ok outs) :
    outs.length = bals.length ∧
    ∀ i (h1 : i < bals.length) (h2 : i < outs.length), outs[i] * S ≤ x * bals[i] := by
  obtain ⟨_, _, hl, hg⟩ := calcExit_ok h
  refine ⟨hl, ?_⟩
  intro i h1 h2
  exact exit_arith _ _ _ _ hS hx (hb _ (List.getElem_mem h1)) (exitOne_ok (hg i h1 h2))

/-- a successful exit never takes a whole reserve and never burns all shares. -/
theorem never_empty (bals outs : List Int) (S x : Int)
    (hb : ∀ b ∈ bals, 0 < b)
    (h : calcExit bals S x = .ok outs) :
    x < S ∧ ∀ i (h1 : i < bals.length) (h2 : i < outs.length), 0 ≤ outs[i] ∧ outs[i] < bals[i] := by
  obtain ⟨hx, _, _, hg⟩ := calcExit_ok h
  refine ⟨hx, ?_⟩
  intro i h1 h2
  have hbi := hb bals[i] (List.getElem_mem h1)
  rcases exitOne_ok (hg i h1 h2) with h0 | ⟨_, hp, hlt⟩
  · omega
  · omega

/-- the pool after `Pool.ExitPool` keeps every reserve positive and a positive share supply, and the
book follows the payout exactly. -/
theorem exit_leaves_pool (bals outs newBals : List Int) (S x newS : Int)
    (hb : ∀ b ∈ bals, 0 < b)
    (h : exitPool bals S x = .ok (outs, newBals, newS)) :
    newS = S - x ∧ 0 < newS ∧
    ∀ i (h1 : i < bals.length) (h2 : i < outs.length) (h3 : i < newBals.length),
      newBals[i] = bals[i] - outs[i] ∧ 0 < newBals[i] := by
  unfold exitPool at h
  obtain ⟨outs', ho, h⟩ := bind_ok h
  obtain ⟨nb, hnb, h⟩ := bind_ok h
  obtain ⟨hx, hg⟩ := never_empty bals outs' S x hb ho
  obtain ⟨_, _, hol, _⟩ := calcExit_ok ho
  split at h
  · cases h
  · have hres := Except.ok.inj h
    have e1 : outs' = outs := congrArg Prod.fst hres
    have e2 : nb = newBals := congrArg (fun t => t.2.1) hres
    have e3 : S - x = newS := congrArg (fun t => t.2.2) hres
    subst e1 e2
    refine ⟨e3.symm, by omega, ?_⟩
    intro i h1 h2 h3
    obtain ⟨_, hlt⟩ := hg i h1 h2
    have hu := (mapM2_ok hnb (by omega)).2 i h1 h2 h3
    unfold exitUpdateOne at hu
    split at hu
    · rename_i hz
      have := (Except.ok.inj hu).symm
      rw [this, hz]; exact ⟨by omega, hb _ (List.getElem_mem h1)⟩
    · split at hu
      · cases hu
      · split at hu
        · cases hu
        · have := (Except.ok.inj hu).symm
          rw [this]; exact ⟨rfl, by omega⟩

/-- the keeper's guards: an exit only runs for `0 < x < S`. -/
theorem keeper_guards (bals : List Int) (S x : Int) (r : List Int × List Int × Int)
    (h : keeperExit bals S x = .ok r) : 0 < x ∧ x < S := by
  unfold keeperExit at h
  split at h
  · cases h
  · split at h
    · cases h
    · omega

/-- join, then immediately exit the minted shares: every asset comes back with at most the amount
joined (so at most the amount deposited). -/
theorem round_trip (bals deps joined newBals outs nb2 : List Int) (S shares newS ns2 : Int)
    (hS : 0 < S) (hb : ∀ b ∈ bals, 0 < b)
    (hj : joinPoolAll bals S deps = .ok (joined, shares, newBals, newS))
    (he : exitPool newBals newS shares = .ok (outs, nb2, ns2)) :
    ∀ i (h1 : i < joined.length) (h2 : i < outs.length), outs[i] ≤ joined[i] := by
  unfold joinPoolAll at hj
  obtain ⟨⟨sh, jn⟩, hc, hj⟩ := bind_ok hj
  obtain ⟨nb, hnb, hj⟩ := bind_ok hj
  obtain ⟨ns, hns, hj⟩ := bind_ok hj
  have hres := Except.ok.inj hj
  have e1 : jn = joined := congrArg Prod.fst hres
  have e2 : sh = shares := congrArg (fun t => t.2.1) hres
  have e3 : nb = newBals := congrArg (fun t => t.2.2.1) hres
  have e4 : ns = newS := congrArg (fun t => t.2.2.2) hres
  subst e1 e2 e3 e4
  have ens := chkI_ok hns
  obtain ⟨hjl, hdl, hfair⟩ := join_fair bals deps jn S sh (by omega) hb hc
  obtain ⟨hnl, hng⟩ := mapM2_ok hnb (by omega)
  -- shares ≥ 0
  obtain ⟨_, _, minR, hmin, esh, _⟩ := calcJoin_ok hb hc
  have hsh : 0 ≤ sh := by rw [esh]; exact Int.tdiv_nonneg (Int.mul_nonneg hmin (by omega)) (Int.le_of_lt P_pos)
  unfold exitPool at he
  obtain ⟨outs', ho, he⟩ := bind_ok he
  obtain ⟨nbx, _, he⟩ := bind_ok he
  split at he
  · cases he
  · have e5 : outs' = outs := congrArg Prod.fst (Except.ok.inj he)
    subst e5
    have hnbpos : ∀ b ∈ nb, 0 ≤ b := by
      intro b hbm
      obtain ⟨i, hi, e⟩ := List.getElem_of_mem hbm
      have := chkI_ok (hng i (by omega) (by omega) hi)
      have h1 := hb bals[i] (List.getElem_mem (by omega))
      have h2 := (hfair i (by omega) (by omega) (by omega)).2.1
      omega
    obtain ⟨hol, hog⟩ := exit_fair nb outs' ns sh (by omega) hsh hnbpos ho
    intro i h1 h2
    have hi : i < bals.length := by omega
    have f := (hfair i hi h1 (by omega)).1
    have x := hog i (by omega) h2
    have enb := chkI_ok (hng i hi h1 (by omega))
    rw [enb, ens] at x
    exact round_trip_arith bals[i] S sh jn[i] outs'[i] (by omega) f x

/-! ### non-vacuity: concrete pools meeting the hypotheses -/

example : joinPoolAll [1000000, 3000000] 100000000000000000000 [1000, 3100]
    = .ok ([1000, 3000], 100000000000000000, [1001000, 3003000], 100100000000000000000) := by rfl
example : exitPool [1001000, 3003000] 100100000000000000000 100000000000000000
    = .ok ([999, 2999], [1000001, 3000001], 100000000000000000000) := by rfl
example : calcExit [1000000, 3000000] 100000000000000000000 33333333333333333333 = .ok [333333, 999999] := by rfl
/-- a lopsided pool and a dust deposit: 5 of 7 units in, 714 of 1000 shares out, the rest returned. -/
example : joinPoolAll [7, 3000000] 1000 [5, 2999999] = .ok ([5, 2142858], 714, [12, 5142858], 1714) := by rfl

/-! ### oracle pools, single-sided exit (the port `oCalcExit` of `CalcExitPool` with a token-out denom) -/

/-- for every two-asset oracle pool, accounted balances, prices, weights, parameters, share supply and exiting shares: a successful
single-sided exit pays at most the exiting shares' pro-rata claim on the pool's value at the oracle prices (as the code computes
it, in 18-digit decimals) plus half a base unit of rounding — the weight-breaking fee only ever reduces the payout. Conditional on
the fee being a fraction (the returned bonus, `−fee`, in [−1, 0]; the code caps the fee at 0.99, its non-negativity rests on `Pow`). -/
theorem oracle_exit_le (p : OPool) (iOut : Nat) (x S : Int) (pr : OParams) (out bonus : Int)
    (h : oCalcExit p S iOut x pr = .ok (out, bonus)) (hb0 : -P ≤ bonus) (hb1 : bonus ≤ 0) :
    ∃ t, tvl [p.a0, p.a1] = .ok t ∧ 2 * (out * P) ≤ 2 * exitOracleAmount t S x (p.get iOut).price + P :=
  oCalcExit_le p iOut x S pr out bonus h hb0 hb1

/- non-vacuity of `oracle_exit_le`: the kernel cannot reduce `oCalcExit` on literals within its recursion limit, so there is no `example`
here; `#eval` of the port on a 1,000,000 USDC / 200,000 ATOM pool (ATOM at 5, multiplier 0) exiting 1 % of the shares in USDC gives
`.ok (20000, 0)`, and every quick run of the differential harness has thousands of successful `oexit` cases with a bonus in [−0.99, 0]
(evidence/C05.json, distribution). -/

/-! ### what is judged on observed blocks (Drv/ExitFairH) -/

open Elys.Amm.Fair in
/-- the block-level clause accepts every exit that pays at most the pro-rata share of the pool's value: for all amounts, prices
and share counts (so it can only reject payouts ABOVE pro rata, beyond its tolerance) -/
theorem exitFairB_of_pro_rata (v S s out price tol slack : Int) (hS : 0 ≤ S) (hp : 0 ≤ price) (htol : 0 ≤ tol) (hsl : 0 ≤ slack)
    (hsv : 0 ≤ s * v) (h : out * price * S ≤ s * v) : exitFairB v S s out price tol slack = true := by
  unfold exitFairB
  simp only [decide_eq_true_eq]
  have h1 : (out - slack) * price * S ≤ out * price * S := by
    have : (out - slack) * price ≤ out * price := Int.mul_le_mul_of_nonneg_right (by omega) hp
    exact Int.mul_le_mul_of_nonneg_right this hS
  have h2 : (out - slack) * price * S ≤ s * v := Int.le_trans h1 h
  have h3 : (out - slack) * price * S * 1000000 ≤ s * v * 1000000 := Int.mul_le_mul_of_nonneg_right h2 (by omega)
  have h4 : s * v * 1000000 ≤ s * v * (1000000 + tol) := Int.mul_le_mul_of_nonneg_left (by omega) hsv
  exact Int.le_trans h3 h4

open Elys.Amm.Fair in
/-- WITNESS (the shape of seeded change C05-2): 10 of 100 shares of a pool worth 1000 paid out 115 instead of at most 100 -/
theorem exit_above_pro_rata_witness : exitFairB 1000 100 10 115 1 = false ∧ exitFairB 1000 100 10 100 1 = true := by decide

end Elys.Amm.C05
