/-
C11 — accounted pool balance = pool holdings + perpetual liabilities − custody; non-pool part = liabilities − custody.
Property theorems only.
-/
import ElysModel.Ledger.Accounted
namespace Elys.Accounted.C11

def Inv (s : St) : Prop := s.tot = s.book + s.liab - s.cust ∧ s.non = s.liab - s.cust

/-- the perpetual-side refresh establishes the invariant from ANY prior record when given the current amm balance -/
theorem refreshPerp_correct (s : St) : Inv (refreshPerp s s.book) := by
  simp [Inv, refreshPerp]

/-- the amm-side refresh keeps the invariant when given the current amm balance and the non-amm part is current -/
theorem refreshAmm_correct (s : St) (h : s.non = s.liab - s.cust) : Inv (refreshAmm s s.book) := by
  refine ⟨?_, ?_⟩ <;> simp [refreshAmm] <;> omega

/-- the handlers as they stand: `amm` and `perp` only -/
def opRepaired : Op → Prop
  | .amm _ | .perp _ _ _ => True
  | _ => False

theorem step_inv (s : St) (op : Op) (hi : Inv s) (hr : opRepaired op) : Inv (step s op) := by
  obtain ⟨h1, h2⟩ := hi
  cases op with
  | amm db => refine ⟨?_, ?_⟩ <;> simp [step, refreshAmm] <;> omega
  | perp db dl dc => refine ⟨?_, ?_⟩ <;> simp [step, refreshPerp] <;> omega
  | perpStale _ _ _ => exact absurd hr (by simp [opRepaired])
  | perpNoHook _ _ _ => exact absurd hr (by simp [opRepaired])

/-- every interleaving of amm-side and perpetual-side operations, for all amounts -/
theorem run_inv (s : St) (ops : List Op) (hi : Inv s) (hr : ∀ op ∈ ops, opRepaired op) : Inv (run s ops) := by
  induction ops generalizing s with
  | nil => exact hi
  | cons op ops ih =>
    exact ih _ (step_inv s op hi (hr op (List.mem_cons_self ..))) (fun o h => hr o (List.mem_cons_of_mem _ h))

/-- WITNESS (before aa6143c): a new 3x long with 1 000 000 collateral: the total is short by the collateral -/
theorem open_stale_witness :
    let s0 : St := { book := 300000000, tot := 300000000 }
    let s1 := step s0 (.perpStale 1000000 2000000 0)
    s1.tot = s1.book + s1.liab - s1.cust - 1000000 ∧ nonAmmEqB s1 = true := by decide

/-- the stale snapshot is exactly off by the handler's own transfer, whatever the amounts -/
theorem open_stale_gap (s : St) (db dl dc : Int) :
    (step s (.perpStale db dl dc)).tot = (step s (.perpStale db dl dc)).book + (step s (.perpStale db dl dc)).liab - (step s (.perpStale db dl dc)).cust - db := by
  simp [step, refreshPerp]; omega

/-- WITNESS (before 2c320c0): interest settled in custody on a position that stays open, no hook: the recorded
non-amm part is stale, and the next amm-side refresh carries it into the total -/
theorem settle_no_hook_witness :
    let s0 : St := { book := 1000, liab := 500, cust := 100, tot := 1400, non := 400 }
    let s1 := step s0 (.perpNoHook (-7) 0 (-7))
    let s2 := step s1 (.amm 50)
    nonAmmEqB s1 = false ∧ totalEqB s2 = false := by decide

/-- non-vacuity -/
example : Inv (run {} [.amm 1000, .perp 50 200 30, .amm (-20), .perp (-3) 0 (-3), .amm 7]) :=
  run_inv _ _ (by simp [Inv]) (by intro op h; simp at h; rcases h with h | h | h | h | h <;> subst h <;> simp [opRepaired])

end Elys.Accounted.C11
