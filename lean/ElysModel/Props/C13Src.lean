/-
C13 — source tie (see Props/C03Src.lean for what that is): what masterchef's two portion-wise revenue collectors credit to liquidity
providers against what they move into the masterchef module (x/masterchef/keeper/abci.go `CollectGasFees`, `CollectPerpRevenue`,
translated with the trace of their bank transfers).  Every credited reward can be paid only if every credit is funded.
Property theorems only; helpers in Lemmas/GenSends.lean.
-/
import ElysModel.Gen.Arith.collectGasFees
import ElysModel.Gen.Arith.collectPerpRevenue
import ElysModel.Lemmas.GenSends
namespace Elys.Rewards.C13Src
open Elys Elys.Amm

/-- the gas-fee share credited to liquidity providers (a `LegacyDec` amount, the first result) is funded by the transfer into the
masterchef module up to its integer part: credited − funded·10¹⁸ is the fraction of one base unit, never a whole unit. -/
theorem gas_fees_lp_credit_funded (bc : String) (fees : Int) (ferr : Bool) (pl ps : Int) (aerr : Bool) (pp : Int)
    (r : Int) (tr : List (String × String × Int))
    (hf : 0 ≤ fees) (hpl : 0 ≤ pl)
    (h : Gen.Arith.collectGasFees bc fees ferr pl ps aerr pp = .ok (r, tr)) :
    0 ≤ r ∧ sentTo "types.ModuleName" tr = r.tdiv P := by
  unfold Gen.Arith.collectGasFees at h
  cases ferr
  · simp only [Bool.false_eq_true, if_false] at h
    by_cases hz : fees = 0
    · simp [hz] at h; obtain ⟨rfl, rfl⟩ := h; simp [sentTo]
    · simp only [hz, if_false] at h
      obtain ⟨t1, h1, h⟩ := bind_ok h
      obtain ⟨t2, h2, h⟩ := bind_ok h
      obtain ⟨t3, h3, h⟩ := bind_ok h
      obtain ⟨t4, h4, h⟩ := bind_ok h
      have e1 := chk_ok h1
      rw [mulTrunc_exact] at e1
      have ha : 0 ≤ fees * pl := Int.mul_nonneg hf hpl
      subst e1
      generalize fees * pl = a at *
      obtain ⟨s1, hs1, h⟩ := bind_ok h
      obtain ⟨s2, hs2, h⟩ := bind_ok h
      obtain ⟨s3, hs3, h⟩ := bind_ok h
      simp only [pure, Except.pure, Except.ok.injEq, Prod.mk.injEq] at h
      obtain ⟨rfl, rfl⟩ := h
      have hd : 0 ≤ a.tdiv P := Int.tdiv_nonneg ha (by decide)
      have f1 : sentTo "types.ModuleName" s1 = 0 := by
        split at hs1 <;> simp only [pure, Except.pure, Except.ok.injEq, pure_bind, bind_pure] at hs1 <;> subst hs1 <;> simp [sentTo]
      have f2 : sentTo "types.ModuleName" s2 = a.tdiv P := by
        split at hs2 <;> simp only [pure, Except.pure, Except.ok.injEq, pure_bind, bind_pure] at hs2 <;> subst hs2
        · simp [sentTo_append, sentTo, f1]
        · rw [f1]; omega
      have f3 : sentTo "types.ModuleName" s3 = sentTo "types.ModuleName" s2 := by
        split at hs3
        · cases aerr
          · simp only [Bool.false_eq_true, if_false] at hs3
            obtain ⟨t5, h5, hs3⟩ := bind_ok hs3
            obtain ⟨t6, h6, hs3⟩ := bind_ok hs3
            simp only [pure, Except.pure, Except.ok.injEq] at hs3
            subst hs3
            simp [sentTo_append, sentTo]
          · simp at hs3
        · simp only [pure, Except.pure, Except.ok.injEq] at hs3; subst hs3; rfl
      exact ⟨ha, by rw [f3, f2]⟩
  · simp at h
/-- the perpetual-revenue share credited to liquidity providers (a `LegacyDec` amount, the first result) is funded by the transfer into the
masterchef module up to its integer part: credited − funded·10¹⁸ is the fraction of one base unit, never a whole unit. -/
theorem perp_revenue_lp_credit_funded (bc : String) (fees : Int) (ferr : Bool) (pl ps : Int) (aerr : Bool) (pp : Int)
    (r : Int) (tr : List (String × String × Int))
    (hf : 0 ≤ fees) (hpl : 0 ≤ pl)
    (h : Gen.Arith.collectPerpRevenue bc fees ferr pl ps aerr pp = .ok (r, tr)) :
    0 ≤ r ∧ sentTo "types.ModuleName" tr = r.tdiv P := by
  unfold Gen.Arith.collectPerpRevenue at h
  cases ferr
  · simp only [Bool.false_eq_true, if_false] at h
    by_cases hz : fees = 0
    · simp [hz] at h; obtain ⟨rfl, rfl⟩ := h; simp [sentTo]
    · simp only [hz, if_false] at h
      obtain ⟨t1, h1, h⟩ := bind_ok h
      obtain ⟨t2, h2, h⟩ := bind_ok h
      obtain ⟨t3, h3, h⟩ := bind_ok h
      obtain ⟨t4, h4, h⟩ := bind_ok h
      have e1 := chk_ok h1
      rw [mulTrunc_exact] at e1
      have ha : 0 ≤ fees * pl := Int.mul_nonneg hf hpl
      subst e1
      generalize fees * pl = a at *
      obtain ⟨s1, hs1, h⟩ := bind_ok h
      obtain ⟨s2, hs2, h⟩ := bind_ok h
      obtain ⟨s3, hs3, h⟩ := bind_ok h
      simp only [pure, Except.pure, Except.ok.injEq, Prod.mk.injEq] at h
      obtain ⟨rfl, rfl⟩ := h
      have hd : 0 ≤ a.tdiv P := Int.tdiv_nonneg ha (by decide)
      have f1 : sentTo "types.ModuleName" s1 = a.tdiv P := by
        split at hs1 <;> simp only [pure, Except.pure, Except.ok.injEq, pure_bind, bind_pure] at hs1 <;> subst hs1
        · simp [sentTo]
        · simp [sentTo]; omega
      have f2 : sentTo "types.ModuleName" s2 = a.tdiv P := by
        split at hs2 <;> simp only [pure, Except.pure, Except.ok.injEq, pure_bind, bind_pure] at hs2 <;> subst hs2
        · simp [sentTo_append, sentTo, f1]
        · exact f1
      have f3 : sentTo "types.ModuleName" s3 = sentTo "types.ModuleName" s2 := by
        split at hs3
        · cases aerr
          · simp only [Bool.false_eq_true, if_false] at hs3
            obtain ⟨t5, h5, hs3⟩ := bind_ok hs3
            obtain ⟨t6, h6, hs3⟩ := bind_ok hs3
            simp only [pure, Except.pure, Except.ok.injEq] at hs3
            subst hs3
            simp [sentTo_append, sentTo]
          · simp at hs3
        · simp only [pure, Except.pure, Except.ok.injEq] at hs3; subst hs3; rfl
      exact ⟨ha, by rw [f3, f2]⟩
  · simp at h

end Elys.Rewards.C13Src
