/-
C14 — source tie (see Props/C03Src.lean for what that is): `VestingTokens.VestedSoFar`, x/commitment/types/commitments.go.
Property theorems only.
-/
import ElysModel.Gen.Arith.vestedSoFar
import ElysModel.Gen.Arith.Table
import ElysModel.Vesting.Model
namespace Elys.Vesting.C14Src
open Elys Elys.Amm

/-- `VestedSoFar` as the source has it now = the model's, entry by entry, height by height (both panic on a zero-block schedule). -/
theorem gen_vestedSoFar (e : Vesting.Entry) (h : Int) :
    (Gen.Arith.vestedSoFar h e.start e.num e.total).toOption = (Vesting.vestedSoFar e h).toOption := by
  unfold Gen.Arith.vestedSoFar Vesting.vestedSoFar iquoC
  by_cases hn : e.num = 0 <;> by_cases hc : h - e.start > e.num <;> by_cases h3 : e.start < h <;>
    simp [hn, hc, h3, Except.toOption, bind, Except.bind, pure, Except.pure]

/-- it reads the block height and the entry's start, length and total — in the roles the model gives them. -/
theorem gen_free_vestedSoFar :
    Gen.Arith.freeOf "vestedSoFar" = ["#1.BlockHeight()", "#0.StartBlock", "#0.NumBlocks", "#0.TotalAmount"] := by decide

end Elys.Vesting.C14Src
