/-
C12 — source tie (see Props/C03Src.lean for what that is): what x/commitment/keeper/msg_server_uncommit_tokens.go `UncommitTokens`
writes as the chain-wide committed total — the window from the reading of the parameters to their write-back — as the source has it
now.  This is the statement behind the KNOWN FINDING C12-uncommit-adds: the total goes UP by the amount uncommitted.  The model's
`uncommit` (on which the as-coded relation `C12.total_as_coded` and the clause `total_eq_sum_partial` are stated) is written the same way; a
repair of the source (a subtraction) breaks `gen_uncommit_adds_as_coded` — the signal to retire the finding and restate the model.
Property theorems only.
-/
import ElysModel.Gen.Arith.uncommitTotal
import ElysModel.Gen.Arith.Table
import ElysModel.Ledger.Commit
namespace Elys.Commit.C12Src
open Elys Elys.Amm Elys.Commit

/-- AS CODED: the total written back is the total read PLUS the coins made liquid — for every amount; the property asks for minus. -/
theorem gen_uncommit_adds_as_coded (d : String) (amt : Int) (liq : Bool) (coins total : Int) :
    Gen.Arith.uncommitTotal d amt liq coins total = .ok (total + coins) := rfl

/-- the defect, on numbers: a total of 1000 after uncommitting 400 is written as 1400 (the per-account ledger goes to 600). -/
theorem gen_uncommit_adds_witness : Gen.Arith.uncommitTotal "uatom" 400 false 400 1000 = .ok 1400 ∧ (1400 : Int) ≠ 1000 - 400 := ⟨rfl, by decide⟩

/-- … and it is the total of the model's `uncommit`: whenever the model's step succeeds, the total it leaves for the denom is what the
source writes, given the total before and the amount as the coin set. -/
theorem gen_model_uncommit (s s' : St) (a d : String) (amt : Int) (liq : Bool) (h : uncommit s a d amt = .ok s') :
    Gen.Arith.uncommitTotal d amt liq amt (s.total.get d) = .ok (s'.total.get d) := by
  unfold uncommit at h
  split at h
  · cases h
  · split at h
    · cases h
    · cases h
      rw [gen_uncommit_adds_as_coded]
      split <;> simp [FMap.get_add_same]

/-- what the window reads: the stored total (through the parameters read in the window itself) and the coin set built from the
message's denom and amount before it. -/
theorem gen_free_uncommitTotal : Gen.Arith.freeOf "uncommitTotal" = ["#0.GetParams(#1).TotalCommitted"] := by decide

end Elys.Commit.C12Src
