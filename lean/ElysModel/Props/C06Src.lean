/-
C06 — source tie (see Props/C03Src.lean for what that is): what one borrower owes, x/stablestake/types/debt.go
`Debt.GetTotalLiablities`, as the source has it now = the summand of the vault model's `outstanding`
(principal + interest stacked − interest paid), on which `C06.value_eq` is stated.
Property theorems only.
-/
import ElysModel.Gen.Arith.debtTotalLiabilities
import ElysModel.Gen.Arith.Table
import ElysModel.Ledger.Vault
namespace Elys.Vault.C06Src
open Elys Elys.Amm

/-- one debt's total liabilities as the source computes them: principal + stacked − paid, for all values (no rounding, no clamp). -/
theorem gen_debt_total (b s p : Int) : Gen.Arith.debtTotalLiabilities b s p = .ok (b + s - p) := rfl

/-- summed over the borrowers of a vault state this is the model's `outstanding`: for a state with the three books given as
lists over the same borrowers, Σ GetTotalLiablities = Σ principal + Σ stacked − Σ paid. -/
theorem gen_outstanding_is_sum (ds : List (Int × Int × Int)) :
    (ds.map (fun d => d.1 + d.2.1 - d.2.2)).sum = (ds.map (·.1)).sum + (ds.map (·.2.1)).sum - (ds.map (·.2.2)).sum := by
  induction ds with
  | nil => rfl
  | cons d ds ih => simp only [List.map_cons, List.sum_cons, ih]; omega

/-- a debt whose interest is all paid owes exactly its principal (the condition under which the vault deletes a debt record
with principal 0 safely). -/
theorem gen_paid_up_owes_principal (b s : Int) : Gen.Arith.debtTotalLiabilities b s s = .ok b := by
  rw [gen_debt_total]; congr 1; omega

/-- what it reads: the three fields of the debt record, nothing else. -/
theorem gen_free_debt_total : Gen.Arith.freeOf "debtTotalLiabilities" = ["#0.Borrowed", "#0.InterestStacked", "#0.InterestPaid"] := by decide

end Elys.Vault.C06Src
