/-
C05 — source tie (see Props/C03Src.lean for what that is): the single-asset join arithmetic of x/amm/types.
Property theorems only.
-/
import ElysModel.Lemmas.GenTie
import ElysModel.Gen.Arith.feeRatio
import ElysModel.Gen.Arith.calcPoolSharesOutGivenSingleAssetIn
import ElysModel.Amm.SingleSided
namespace Elys.Amm.C05Src
open Elys Elys.Amm

/-- `feeRatio` (x/amm/types) = the model's. -/
theorem gen_feeRatio (nw fee : Int) : Gen.Arith.feeRatio nw fee = feeRatio nw fee := rfl

/-- the single-asset join of the model is the translated `calcPoolSharesOutGivenSingleAssetIn` behind the model's own
normalisation of the weight and truncation of the result (`calcSingleAssetJoin`, which reads the pool). -/
theorem gen_singleAssetJoin (bal w totalW S amt fee : Int) (h0 : totalW ≠ 0) :
    singleAssetJoinShares bal w totalW S amt fee =
      (do let nw ← quoC (w * P) (totalW * P)
          let v ← Gen.Arith.calcPoolSharesOutGivenSingleAssetIn (bal * P) nw (S * P) (amt * P) fee
          pure (v.tdiv P)) := by
  unfold singleAssetJoinShares Gen.Arith.calcPoolSharesOutGivenSingleAssetIn
  simp only [h0, if_false]
  have hf : ∀ a b, Gen.Arith.feeRatio a b = feeRatio a b := fun _ _ => rfl
  simp only [hf, gen_solveCFI_eq, bind_assoc, pure_bind]

end Elys.Amm.C05Src
