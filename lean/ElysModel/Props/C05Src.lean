/-
C05 — source tie (see Props/C03Src.lean for what that is): the single-asset join arithmetic of x/amm/types.
Property theorems only.
-/
import ElysModel.Lemmas.GenTie
import ElysModel.Gen.Arith.feeRatio
import ElysModel.Gen.Arith.calcPoolSharesOutGivenSingleAssetIn
import ElysModel.Gen.Arith.exitPoolGuards
import ElysModel.Gen.Arith.Table
import ElysModel.Amm.SingleSided
namespace Elys.Amm.C05Src
open Elys Elys.Amm

/-- `feeRatio` (x/amm/types) = the model's. -/
theorem gen_feeRatio (nw fee : Int) : Gen.Arith.feeRatio nw fee = feeRatio nw fee := rfl

/-- the single-asset join of the model is the translated `calcPoolSharesOutGivenSingleAssetIn` behind the model's own
normalisation of the weight and truncation of the result (`calcSingleAssetJoin`, which reads the pool). -/
theorem gen_singleAssetJoin (bal w totalW S amt fee : Int) (h0 : totalW ≠ 0) :
    singleAssetJoinShares bal w totalW S amt fee =
      (do let nw ← quoC (w * P) (totalW * P)
          let v ← Gen.Arith.calcPoolSharesOutGivenSingleAssetIn (bal * P) nw (S * P) (amt * P) fee
          pure (v.tdiv P)) := by
  unfold singleAssetJoinShares Gen.Arith.calcPoolSharesOutGivenSingleAssetIn
  simp only [h0, if_false]
  have hf : ∀ a b, Gen.Arith.feeRatio a b = feeRatio a b := fun _ _ => rfl
  simp only [hf, gen_solveCFI_eq, bind_assoc, pure_bind]

/-- the guards in front of an exit's effects (x/amm/keeper/keeper_exit_pool.go `ExitPool`), as the source has them now: an exit
goes on only for a share amount strictly between 0 and the pool's total shares — nobody can redeem the whole pool (and so
divide by a zero share supply afterwards), and a non-positive amount is refused — whatever the pool arithmetic then returns. -/
theorem gen_exit_share_range (poolId shares mins : Int) (denom : String) (liq found : Bool) (total coins : Int) (err : Bool)
    (h : Gen.Arith.exitPoolGuards poolId shares mins denom liq found total coins err = .ok true) :
    found = true ∧ 0 < shares ∧ shares < total ∧ err = false := by
  unfold Gen.Arith.exitPoolGuards at h
  cases found <;> cases err <;> simp at h
  all_goals by_cases h1 : shares ≥ total <;> simp [h1] at h
  all_goals by_cases h2 : shares ≤ 0 <;> simp [h2] at h
  exact ⟨rfl, by omega, by omega, rfl⟩

theorem gen_free_exitPool : (Gen.Arith.freeOf "exitPoolGuards").take 2 = ["#0.GetPool(#1, #3)#1", "#0.GetPool(#1, #3).GetTotalShares().Amount"] := by decide

end Elys.Amm.C05Src
