/-
C14 — a vesting schedule releases exactly its total, monotonically, and never more.
Property theorems only; helper lemmas live in ElysModel/Lemmas/Vesting.lean.
`step true` / `claim true` is the code as it stands (with the repair of the claim loop);
`claim false` is the loop before the repair, kept for the witness.
-/
import ElysModel.Lemmas.Vesting
namespace Elys.Vesting.C14

/-- what every reachable vesting state satisfies. The second conjunct is the conservation law:
tokens released + Eden returned + what is still inside the entries = Eden put into vesting. -/
def Inv (s : St) : Prop :=
  AllOk s.entries ∧ s.released + s.returned + remaining s.entries = s.vestedIn

/-- the inputs the real handlers accept: amounts are non-negative (`ValidateBasic`), and the
governance-set schedule length is positive (see `zero_blocks_witness` for what happens at 0). -/
def OpOk : Op → Prop
  | .vest amt _ num _ => 0 ≤ amt ∧ 0 < num
  | .claim _ => True
  | .cancel amt => 0 ≤ amt

theorem inv_init (eden : Int) : Inv (init eden) := by
  unfold Inv; refine ⟨(fun _ h => nomatch h), ?_⟩; simp [init, remaining]

/-- claiming what has vested always succeeds and pays a non-negative amount (no height hypothesis). -/
theorem claim_succeeds (s : St) (h : Int) (hi : Inv s) :
    ∃ s' p, claim true s h = .ok (s', p) ∧ 0 ≤ p ∧ Inv s' ∧ s'.released = s.released + p := by
  obtain ⟨sum, es', hl, hs, hrem, hok⟩ := claimLoop_fixed h s.entries hi.1
  refine ⟨{ s with entries := es', released := s.released + sum }, sum, ?_, hs, ⟨hok, ?_⟩, rfl⟩
  · simp [claim, hl, bind, Except.bind]
  · have := hi.2; simp only; omega

/-- one operation preserves the invariant, for every operation the handlers accept. -/
theorem step_inv (s : St) (op : Op) (hi : Inv s) (ho : OpOk op) : Inv (step true s op) := by
  cases op with
  | vest amt h num maxV =>
    unfold step vest
    by_cases h1 : maxV ≤ (s.entries.length : Int)
    · simp [h1]; exact hi
    · by_cases h2 : s.edenClaimed < amt
      · simp [h1, h2]; exact hi
      · simp only [h1, h2, if_false]
        refine ⟨?_, ?_⟩
        · intro e he
          rcases List.mem_append.mp he with he | he
          · exact hi.1 e he
          · simp at he; subst he; exact ⟨Int.le_refl _, ho.1, ho.2⟩
        · have := hi.2; simp only [remaining_append, remaining]; omega
  | claim h =>
    obtain ⟨s', p, hc, _, hi', _⟩ := claim_succeeds s h hi
    simp [step, hc]; exact hi'
  | cancel amt =>
    unfold step cancel
    have hrev := AllOk_reverse hi.1
    obtain ⟨h1, h2, h3, h4⟩ := cancelLoop_spec s.entries.reverse amt hrev ho
    obtain ⟨f1, f2⟩ := filter_done_spec (cancelLoop s.entries.reverse amt).1.reverse (AllOk_reverse h4)
    by_cases hz : (cancelLoop s.entries.reverse amt).2 ≠ 0
    · simp [hz]; exact hi
    · simp only [hz, if_false]
      refine ⟨f2, ?_⟩
      have := hi.2
      simp only [f1, remaining_reverse, h3]
      simp only [remaining_reverse] at *
      omega

/-- every reachable state (any interleaving of vest / claim / partial cancel at arbitrary heights). -/
theorem run_inv (s : St) (ops : List Op) (hi : Inv s) (ho : ∀ op ∈ ops, OpOk op) : Inv (run true s ops) := by
  induction ops generalizing s with
  | nil => exact hi
  | cons op ops ih =>
    exact ih (step true s op) (step_inv s op hi (ho op (List.mem_cons_self ..)))
      (fun o h => ho o (List.mem_cons_of_mem _ h))

/-- conservation, from genesis: released + returned + still-vesting = vested in. -/
theorem conservation (eden : Int) (ops : List Op) (ho : ∀ op ∈ ops, OpOk op) :
    let s := run true (init eden) ops
    s.released + s.returned + remaining s.entries = s.vestedIn :=
  (run_inv _ ops (inv_init eden) ho).2

/-- never more than the total: released + returned ≤ vested in, in every reachable state. -/
theorem released_le_total (s : St) (hi : Inv s) : s.released + s.returned ≤ s.vestedIn := by
  have := remaining_nonneg hi.1; have := hi.2; omega

/-- the cumulative amount released never decreases. -/
theorem released_mono (s : St) (op : Op) (hi : Inv s) : s.released ≤ (step true s op).released := by
  cases op with
  | vest amt h num maxV =>
    unfold step vest
    by_cases h1 : maxV ≤ (s.entries.length : Int)
    · simp [h1]
    · by_cases h2 : s.edenClaimed < amt
      · simp [h1, h2]
      · simp [h1, h2]
  | claim h =>
    obtain ⟨s', p, hc, hp, _, hr⟩ := claim_succeeds s h hi
    simp [step, hc]; omega
  | cancel amt =>
    unfold step cancel
    by_cases hz : (cancelLoop s.entries.reverse amt).2 ≠ 0
    · simp [hz]
    · simp [hz]

/-- per entry, never more than its total and never negative (part of the invariant, restated). -/
theorem entry_bounds (s : St) (hi : Inv s) : ∀ e ∈ s.entries, 0 ≤ e.claimed ∧ e.claimed ≤ e.total :=
  fun e he => ⟨(hi.1 e he).1, (hi.1 e he).2.1⟩

/-- linear schedule: a claim at height `h` on an entry whose schedule value is ahead of what it has
released sets its cumulative release to ⌊total · min(h − start, N) / N⌋ exactly. -/
theorem linear (e : Entry) (h : Int) (he : EntryOk e)
    (hahead : e.claimed ≤ (e.total * (if h - e.start > e.num then e.num else h - e.start)).tdiv e.num) :
    ∃ p es', claimLoop true h [e] = .ok (p, es') ∧
      e.claimed + p = (e.total * (if h - e.start > e.num then e.num else h - e.start)).tdiv e.num := by
  have hne : e.num ≠ 0 := by have := he.2.2; omega
  simp only [claimLoop, vestedSoFar, hne, if_false, bind, Except.bind]
  have : ¬ ((e.total * (if h - e.start > e.num then e.num else h - e.start)).tdiv e.num - e.claimed < 0) := by omega
  simp only [this, if_false]
  refine ⟨_, _, rfl, by omega⟩

theorem claimLoop_complete (h : Int) (es : List Entry) (hok : AllOk es)
    (hdone : ∀ e ∈ es, e.start + e.num ≤ h) :
    ∃ sum, claimLoop true h es = .ok (sum, []) := by
  induction es with
  | nil => exact ⟨0, rfl⟩
  | cons e es ih =>
    obtain ⟨he, hes⟩ := AllOk_cons.mp hok
    obtain ⟨sum, hl⟩ := ih hes (fun x hx => hdone x (List.mem_cons_of_mem _ hx))
    have hd := hdone e (List.mem_cons_self ..)
    obtain ⟨hc0, hct, hn⟩ := he
    have hne : e.num ≠ 0 := by omega
    have hv : vestedSoFar e h = .ok e.total := by
      unfold vestedSoFar
      simp only [hne, if_false]
      by_cases h1 : h - e.start > e.num
      · simp only [h1, if_true]; rw [Int.mul_tdiv_cancel _ hne]
      · have : h - e.start = e.num := by omega
        simp only [this, Int.lt_irrefl, gt_iff_lt, if_false]; rw [Int.mul_tdiv_cancel _ hne]
    unfold claimLoop
    simp only [hv, hl, bind, Except.bind]
    have : ¬ (e.total - e.claimed < 0) := by omega
    simp only [this, if_false]
    exact ⟨_, by simp; rfl⟩

/-- once every schedule has elapsed, one claim releases the rest and removes every entry, so that
tokens released + Eden returned = Eden originally put into vesting. -/
theorem complete (s : St) (h : Int) (hi : Inv s) (hdone : ∀ e ∈ s.entries, e.start + e.num ≤ h) :
    ∃ s' p, claim true s h = .ok (s', p) ∧ s'.entries = [] ∧ s'.released + s'.returned = s'.vestedIn := by
  obtain ⟨sum, hl⟩ := claimLoop_complete h s.entries hi.1 hdone
  obtain ⟨s', p, hc, _, hi', _⟩ := claim_succeeds s h hi
  have he : s'.entries = [] := by
    simp [claim, hl, bind, Except.bind] at hc; rw [← hc.1]
  refine ⟨s', p, hc, he, ?_⟩
  have := hi'.2; rw [he] at this; simp [remaining] at this; omega

/-- vest-now pays exactly amount / factor (Go `Int.Quo`). -/
theorem vest_now (s : St) (amt factor : Int) (s' : St) (p : Int)
    (h : vestNow s true amt factor = .ok (s', p)) : p = amt.tdiv factor ∧ s'.edenClaimed = s.edenClaimed - amt := by
  unfold vestNow at h
  split at h <;> try (simp at h)
  split at h <;> try (simp at h)
  split at h <;> try (simp at h)
  obtain ⟨h1, h2⟩ := h
  subst h1; exact ⟨h2.symm, rfl⟩

/-! ### the code before the repair (`fixed = false`) -/

/-- the state after: vest 100 over 10 blocks at height 0, claim at 5 (releases 50), cancel 40. -/
def afterCancel : St := run false (init 100) [.vest 100 0 10 8, .claim 5, .cancel 40]

/-- WITNESS (pre-repair): the next claim computes 60·6/10 − 50 = −14 and `sdk.NewCoin` panics. -/
theorem claim_after_cancel_witness : claim false afterCancel 6 = .error .panicNegCoin := by rfl

/-- the same history on the repaired loop succeeds and pays 0. -/
theorem claim_after_cancel_fixed :
    (claim true (run true (init 100) [.vest 100 0 10 8, .claim 5, .cancel 40]) 6).toOption.map (·.2) = some 0 := by decide

/-- WITNESS: a governance-set schedule length of 0 (validation only rejects negatives) makes every
later claim divide by zero. -/
theorem zero_blocks_witness : claim true (run true (init 100) [.vest 100 0 0 8]) 1 = .error .panicDivZero := by rfl

/-- non-vacuity: a concrete non-trivial reachable state satisfies the invariant's hypotheses. -/
example : Inv (run true (init 1000) [.vest 100 0 10 8, .claim 5, .cancel 40, .vest 30 7 10 8, .claim 9]) :=
  run_inv _ _ (inv_init _) (by intro op h; simp at h; rcases h with h | h | h | h | h <;> subst h <;> simp [OpOk])

end Elys.Vesting.C14
